(* TrRegexEmit.v -- the emitter of /repo/regex.c on the translated C text (part 4 of the compiler side):
   re_insert, ratom_copy, rnode_emitnorep, rnode_emit write the program array re->p[] (one block of 6 cells per struct rinst:
   ra.ra, ra.s, ri, a1, a2, mark).  Every theorem is an equation callf ... = Ok ...: EVERY store lands inside the block that
   regcomp allocated (a store outside is Err EOob in CLite; the hypothesis is b + nlen t <= N, the emitted length fits the
   allocation: what C11_emit_fits proves for the reservation rnode_count + 3), and afterwards the cells hold the model's
   ReEmit.emit_n of the tree (code_ok), the atoms' strings in fresh blocks of their own.
   The local `int jmpend[NREPS]` of rnode_emit is a malloc'd block of 128 cells that is never freed. *)
From Coq Require Import List ZArith NArith Bool Lia.
From NV Require Import Bytes GenConsts ReSyntax ReParse ReEmit ReVM ReSem ReProps ReProps2 ReProps3 ReCountBound CLite CLiteProps GenCFuncs CLiteTac CLiteExt TrRegex TrRegexAtom TrRegexComp TrRegexParse TrRegexCount.
Import ListNotations.
Local Open Scope Z_scope.

Definition ri_code (i : instr) : Z :=
  match i with IAtom _ => 0 | IFork _ _ => 102 | IJump _ => 106 | IMark _ => 109 | IMatch => 113 end.

Lemma upd_mid {A} (a b : list A) x y n : length a = n -> upd (a ++ x :: b) n y = a ++ y :: b.
Proof.
  intros <-. unfold upd. rewrite firstn_app, Nat.sub_diag, firstn_all. cbn [firstn]. rewrite app_nil_r. f_equal. f_equal.
  rewrite skipn_app, skipn_all2 by lia. replace (S (length a) - length a)%nat with 1%nat by lia. reflexivity.
Qed.

Section Emit.
  Variables (bre bp : nat) (N : nat) (fuel : nat).
  Hypothesis Nbp : bre <> bp.
  Hypothesis HN : Z.of_nat N <= 1048576.

  (* struct regex: p, n, flg (still 0 while the program is emitted); the array *)
  Definition est (m : mem) (b : nat) (cells : list val) : Prop :=
    nth_error m bre = Some [VPtr bp 0; VInt (Z.of_nat b); VInt 0] /\ nth_error m bp = Some cells /\ length cells = (6 * N)%nat.

  (* instruction k of the array is i; an atom's string is a C string in a block of its own inside [slo, shi) *)
  Definition icell (m : mem) (cells : list val) (slo shi : nat) (k : nat) (i : instr) : Prop :=
    nth_error cells (6 * k + 2) = Some (VInt (ri_code i)) /\
    match i with
    | IAtom a =>
        nth_error cells (6 * k) = Some (VInt (ra_code a)) /\
        match ra_str a with
        | Some s => exists bs, nth_error cells (6 * k + 1) = Some (VPtr bs 0) /\ str_at m bs s /\ (slo <= bs < shi)%nat
        | None => nth_error cells (6 * k + 1) = Some (VInt 0)
        end
    | IMark mk => nth_error cells (6 * k + 5) = Some (VInt (Z.of_nat mk))
    | IJump t => nth_error cells (6 * k + 3) = Some (VInt (Z.of_nat t))
    | IFork a1 a2 => nth_error cells (6 * k + 3) = Some (VInt (Z.of_nat a1)) /\ nth_error cells (6 * k + 4) = Some (VInt (Z.of_nat a2))
    | IMatch => True
    end.
  Definition code_ok (m : mem) (cells : list val) (slo shi : nat) (b : nat) (P : list instr) : Prop :=
    forall k i, nth_error P k = Some i -> icell m cells slo shi (b + k) i.

  Lemma icell_same m m' cells cells' slo shi slo' shi' k i : icell m cells slo shi k i ->
    (forall j, (slo <= j < shi)%nat -> nth_error m' j = nth_error m j) ->
    (forall j, (6 * k <= j < 6 * k + 6)%nat -> nth_error cells' j = nth_error cells j) ->
    (slo' <= slo)%nat -> (shi <= shi')%nat -> icell m' cells' slo' shi' k i.
  Proof.
    intros [H1 H2] Fm Fc L1 L2. split; [rewrite Fc by lia; exact H1|].
    destruct i as [a|mk|t|a1 a2|]; try exact I.
    - destruct H2 as [H2 H3]. split; [rewrite Fc by lia; exact H2|]. destruct (ra_str a) as [s|].
      + destruct H3 as [bs [E1 [E2 E3]]]. exists bs. split; [rewrite Fc by lia; exact E1|]. split; [unfold str_at; rewrite Fm by lia; exact E2|lia].
      + rewrite Fc by lia. exact H3.
    - rewrite Fc by lia. exact H2.
    - rewrite Fc by lia. exact H2.
    - destruct H2 as [H2 H3]. split; rewrite Fc by lia; assumption.
  Qed.
  Lemma icell_fork m m' cells slo shi slo' shi' k a1 a2 : icell m cells slo shi k (IFork a1 a2) -> icell m' cells slo' shi' k (IFork a1 a2).
  Proof. exact (fun H => H). Qed.
  Lemma code_ok_same m m' cells cells' slo shi slo' shi' b P : code_ok m cells slo shi b P ->
    (forall j, (slo <= j < shi)%nat -> nth_error m' j = nth_error m j) ->
    (forall j, (6 * b <= j < 6 * (b + length P))%nat -> nth_error cells' j = nth_error cells j) ->
    (slo' <= slo)%nat -> (shi <= shi')%nat -> code_ok m' cells' slo' shi' b P.
  Proof.
    intros H Fm Fc L1 L2 k i Hk. assert (k < length P)%nat by (apply nth_error_Some; congruence).
    apply (icell_same m m' cells cells' slo shi); auto. intros j Hj. apply Fc. lia.
  Qed.
  Lemma code_ok_app m cells slo shi b P1 P2 : code_ok m cells slo shi b P1 -> code_ok m cells slo shi (b + length P1) P2 ->
    code_ok m cells slo shi b (P1 ++ P2).
  Proof.
    intros H1 H2 k i Hk. destruct (Nat.lt_ge_cases k (length P1)) as [L|L].
    - rewrite nth_error_app1 in Hk by exact L. apply H1. exact Hk.
    - rewrite nth_error_app2 in Hk by exact L. replace (b + k)%nat with (b + length P1 + (k - length P1))%nat by lia. apply H2. exact Hk.
  Qed.
  Lemma code_ok_nil m cells slo shi b : code_ok m cells slo shi b [].
  Proof. intros k i Hk. destruct k; discriminate Hk. Qed.
  Lemma code_ok_one m cells slo shi b i : icell m cells slo shi b i -> code_ok m cells slo shi b [i].
  Proof. intros H k j Hk. destruct k as [|k]; [|destruct k; discriminate Hk]. injection Hk as <-. rewrite Nat.add_0_r. exact H. Qed.

  (* what a call of an emitting function does: P appended at instruction b, nothing below touched *)
  Definition emit_post (m : mem) (cells : list val) (b : nat) (P : list instr) (m' : mem) : Prop :=
    exists cells', est m' (b + length P) cells' /\ (forall j, (j < 6 * b)%nat -> nth_error cells' j = nth_error cells j) /\
      code_ok m' cells' (length m) (length m') b P /\ (length m <= length m')%nat /\
      (forall j, (j < length m)%nat -> j <> bre -> j <> bp -> nth_error m' j = nth_error m j).

  Lemma est_lt m b cells : est m b cells -> (bre < length m)%nat /\ (bp < length m)%nat.
  Proof. intros [A [B _]]. split; eapply nth_lt; eassumption. Qed.
  Lemma emit_post_app m cells b P1 P2 m1 m2 cells1 : est m b cells ->
    emit_post m cells b P1 m1 -> est m1 (b + length P1) cells1 -> emit_post m1 cells1 (b + length P1) P2 m2 -> emit_post m cells b (P1 ++ P2) m2.
  Proof.
    intros E0 [c1 [E1 [F1 [C1 [L1 M1]]]]] E1' [c2 [E2 [F2 [C2 [L2 M2]]]]]. destruct (est_lt _ _ _ E0) as [Q1 Q2].
    assert (c1 = cells1) as -> by (destruct E1 as [_ [A _]]; destruct E1' as [_ [B _]]; congruence).
    exists c2. rewrite app_length. split; [rewrite Nat.add_assoc; exact E2|]. split; [intros j Hj; rewrite F2 by lia; apply F1; exact Hj|].
    split.
    - apply code_ok_app.
      + apply (code_ok_same m1 m2 cells1 c2 (length m) (length m1)); [exact C1| | |lia|lia].
        * intros j Hj. apply M2; lia.
        * intros j Hj. apply F2. lia.
      + apply (code_ok_same m2 m2 c2 c2 (length m1) (length m2)); [exact C2|reflexivity|reflexivity|lia|lia].
    - split; [lia|]. intros j Hj R1 R2. rewrite M2 by (try lia; assumption). apply M1; assumption.
  Qed.
  Lemma emit_post_nil m b cells : est m b cells -> emit_post m cells b [] m.
  Proof.
    intro E. exists cells. cbn [length]. rewrite Nat.add_0_r. split; [exact E|]. split; [reflexivity|]. split; [apply code_ok_nil|]. split; [lia|reflexivity].
  Qed.

  (* ---- the struct and the array: loads and stores *)
  Lemma ld_p m b cells : est m b cells -> load m bre 0 = Ok (VPtr bp 0).
  Proof. intros [A _]. exact (load_cell m bre _ 0 _ A eq_refl ltac:(lia)). Qed.
  Lemma ld_n m b cells : est m b cells -> load m bre (0 + 1 * 1) = Ok (VInt (Z.of_nat b)).
  Proof. intros [A _]. exact (load_cell m bre _ (0 + 1 * 1) _ A eq_refl ltac:(lia)). Qed.
  Lemma st_cell m b cells idx v : est m b cells -> (idx < 6 * N)%nat ->
    store m bp (Z.of_nat idx) v = Ok (upd m bp (upd cells idx v)) /\ est (upd m bp (upd cells idx v)) b (upd cells idx v).
  Proof.
    intros [A [B C]] Hi. destruct (est_lt _ _ _ (conj A (conj B C))) as [Q1 Q2]. split.
    - rewrite (store_ok m bp cells _ _ B) by lia. rewrite Nat2Z.id. reflexivity.
    - split; [rewrite mem_upd_other by (try lia; congruence); exact A|]. split; [apply mem_upd_same; lia|]. rewrite upd_length by lia. exact C.
  Qed.
  Lemma nth_upd_same (cells : list val) idx v : (idx < length cells)%nat -> nth_error (upd cells idx v) idx = Some v.
  Proof. apply nth_error_upd_same. Qed.
  Lemma nth_upd_other (cells : list val) idx j v : (idx < length cells)%nat -> j <> idx -> nth_error (upd cells idx v) j = nth_error cells j.
  Proof. intros H Hne. apply nth_error_upd_other; assumption. Qed.

  (* ---- re_insert: the ONE place where the program grows; b < N is the room the allocation has *)
  Theorem tr_re_insert (m : mem) b cells ri d : est m b cells -> (b < N)%nat -> i32 ri ->
    callf cprog fuel (S d) F_re_insert [VPtr bre 0; VInt ri] m
    = Ok (VInt (Z.of_nat b), upd (upd m bre [VPtr bp 0; VInt (Z.of_nat (S b)); VInt 0]) bp (upd cells (6 * b + 2) (VInt ri))) /\
    est (upd (upd m bre [VPtr bp 0; VInt (Z.of_nat (S b)); VInt 0]) bp (upd cells (6 * b + 2) (VInt ri))) (S b) (upd cells (6 * b + 2) (VInt ri)).
  Proof.
    intros E Hb Hri. destruct (est_lt _ _ _ E) as [Q1 Q2]. destruct E as [A [B C]].
    set (m1 := upd m bre [VPtr bp 0; VInt (Z.of_nat (S b)); VInt 0]).
    assert (A1 : nth_error m1 bre = Some [VPtr bp 0; VInt (Z.of_nat (S b)); VInt 0]) by (apply mem_upd_same; exact Q1).
    assert (B1 : nth_error m1 bp = Some cells) by (unfold m1; rewrite mem_upd_other by (try lia; congruence); exact B).
    assert (E1 : est m1 (S b) cells) by (split; [exact A1|split; [exact B1|exact C]]).
    split.
    - enter F_re_insert cf_re_insert. xs. xld A. xs. xld A. xs. rewrite (wrap_I32_id (Z.of_nat b)) by lia.
      rewrite (chk_I32 (Z.of_nat b + 1)) by lia. xs. xst A. xs. cbn [fst snd]. replace (Z.of_nat b + 1) with (Z.of_nat (S b)) by lia. fold m1. xs.
      rewrite (wrap_I32_id ri Hri).
      replace (0 + 6 * Z.of_nat b + 1 * 2) with (Z.of_nat (6 * b + 2)) by lia.
      destruct (st_cell m1 (S b) cells (6 * b + 2) (VInt ri) E1 ltac:(lia)) as [S1 _]. rewrite S1. xs.
      assert (A2 : nth_error (upd m1 bp (upd cells (6 * b + 2) (VInt ri))) bre = Some [VPtr bp 0; VInt (Z.of_nat (S b)); VInt 0])
        by (rewrite mem_upd_other by (try (unfold m1; rewrite upd_length by lia; lia); congruence); exact A1).
      xld A2. xs. rewrite (wrap_I32_id (Z.of_nat (S b))) by lia. rewrite (chk_I32 (Z.of_nat (S b) - 1)) by lia. xs. repeat f_equal. lia.
    - apply (st_cell m1 (S b) cells (6 * b + 2) (VInt ri) E1). lia.
  Qed.

  (* ---- ratom_copy: the atom of a tree node into instruction k *)
  Lemma put_cells_all' {A} (l vs : list A) : length vs = length l -> put_cells l 0 vs = vs.
  Proof. intro H. rewrite put_cells_0. rewrite skipn_all2 by lia. apply app_nil_r. Qed.
  Theorem tr_ratom_copy (m : mem) b cells k bt ra sv rest d : est m b cells -> (k < N)%nat ->
    nth_error m bt = Some (VInt ra :: sv :: rest) -> bt <> bp -> i32 ra ->
    (sv = VInt 0 \/ exists bs s, sv = VPtr bs 0 /\ str_at m bs s /\ nonul s /\ bs <> bp /\ Z.of_nat (length s) < 2147483647) ->
    exists m' sv', callf cprog fuel (S d) F_ratom_copy [VPtr bp (0 + 6 * Z.of_nat k); VPtr bt 0] m = Ok (VUndef, m') /\
      est m' b (upd (upd cells (6 * k) (VInt ra)) (6 * k + 1) sv') /\
      (forall j, (j < length m)%nat -> j <> bp -> nth_error m' j = nth_error m j) /\
      match sv with
      | VPtr bs _ => sv' = VPtr (length m) 0 /\ length m' = S (length m) /\ nth_error m' (length m) = nth_error m bs
      | _ => sv' = VInt 0 /\ length m' = length m
      end.
  Proof.
    intros E Hk Hbt Nbt Hra Hsv. destruct (est_lt _ _ _ E) as [Q1 Q2]. pose proof E as [A [B C]].
    assert (Lbt : (bt < length m)%nat) by (eapply nth_lt; exact Hbt).
    destruct (st_cell m b cells (6 * k) (VInt ra) E ltac:(lia)) as [S1 E1].
    set (c1 := upd cells (6 * k) (VInt ra)) in *. set (m1 := upd m bp c1) in *.
    assert (Lc1 : length c1 = (6 * N)%nat) by (unfold c1; rewrite upd_length by lia; exact C).
    destruct (st_cell m1 b c1 (6 * k + 1) (VInt 0) E1 ltac:(lia)) as [S2 E2].
    set (c2 := upd c1 (6 * k + 1) (VInt 0)) in *. set (m2 := upd m1 bp c2) in *.
    assert (Hbt2 : nth_error m2 bt = Some (VInt ra :: sv :: rest)) by (unfold m2, m1; rewrite !mem_upd_other by (try (rewrite ?upd_length by lia; lia); congruence); exact Hbt).
    assert (Hbt1 : nth_error m1 bt = Some (VInt ra :: sv :: rest)) by (unfold m1; rewrite !mem_upd_other by (try lia; congruence); exact Hbt).
    assert (L2 : length m2 = length m) by (unfold m2, m1; rewrite !upd_length by (rewrite ?upd_length by lia; lia); reflexivity).
    enter F_ratom_copy cf_ratom_copy. xs. xld Hbt. xs. rewrite !(wrap_I32_id ra Hra).
    replace (0 + 6 * Z.of_nat k) with (Z.of_nat (6 * k)) by lia. rewrite S1. xs.
    replace (Z.of_nat (6 * k) + 1 * 1) with (Z.of_nat (6 * k + 1)) by lia. rewrite S2. xs. xld Hbt2. xs.
    destruct Hsv as [->|[bs [s [-> [Hs [Hnn [Nbs Hlen]]]]]]]; xs.
    - exists m2, (VInt 0). split; [reflexivity|]. split; [exact E2|]. split; [|split; [reflexivity|exact L2]].
      intros j Hj Nj. unfold m2, m1. rewrite !mem_upd_other by (try (rewrite ?upd_length by lia; lia); exact Nj). reflexivity.
    - assert (Hs2 : str_at m2 bs s) by (unfold str_at, m2, m1; rewrite !mem_upd_other by (try (rewrite ?upd_length by lia; lia); congruence); exact Hs).
      xld Hbt2. xs. change (VPtr bs 0) with (VPtr bs (Z.of_nat 0)). rewrite (builtin_strlen m2 bs s 0 Hs2 Hnn ltac:(lia)). xs.
      rewrite Nat.sub_0_r. rewrite (wrap_I32_id (Z.of_nat (length s))) by lia. rewrite (chk_I32 (Z.of_nat (length s) + 1)) by lia. xs.
      rewrite wrap_U64_id by lia. rewrite malloc_ok by lia. xs. rewrite L2. replace (Z.to_nat (Z.of_nat (length s) + 1)) with (S (length s)) by lia.
      assert (E2' : est (m2 ++ [repeat VUndef (S (length s))]) b c2).
      { destruct E2 as [X [Y Z0]]. split; [rewrite nth_error_app_old by lia; exact X|]. split; [rewrite nth_error_app_old by lia; exact Y|exact Z0]. }
      assert (Lc2 : length c2 = (6 * N)%nat) by (unfold c2; rewrite upd_length by lia; exact Lc1).
      destruct (st_cell _ b c2 (6 * k + 1) (VPtr (length m) 0) E2' ltac:(lia)) as [S3 E3].
      replace (Z.of_nat (6 * k) + 1 * 1) with (Z.of_nat (6 * k + 1)) by lia. rewrite S3. xs.
      set (c3 := upd c2 (6 * k + 1) (VPtr (length m) 0)) in *. set (m3 := upd (m2 ++ [repeat VUndef (S (length s))]) bp c3) in *.
      assert (L3 : length m3 = S (length m)) by (unfold m3; rewrite upd_length by (rewrite app_length; cbn [length]; lia); rewrite app_length; cbn [length]; lia).
      assert (Hc3 : nth_error c3 (6 * k + 1) = Some (VPtr (length m) 0)) by (apply nth_upd_same; lia).
      assert (Hp3 : nth_error m3 bp = Some c3) by (apply mem_upd_same; rewrite app_length; cbn [length]; lia).
      replace (Z.of_nat (6 * k) + 1 * 1) with (Z.of_nat (6 * k + 1)) by lia.
      rewrite (load_cell m3 bp c3 (Z.of_nat (6 * k + 1)) _ Hp3) by (try lia; rewrite Nat2Z.id; exact Hc3). xs.
      assert (Hbt3 : nth_error m3 bt = Some (VInt ra :: VPtr bs 0 :: rest)) by (unfold m3; rewrite mem_upd_other by (try (rewrite app_length; cbn [length]; lia); congruence); rewrite nth_error_app_old by lia; exact Hbt2).
      xld Hbt3. xs. rewrite (chk_I32 (Z.of_nat (length s) + 1)) by lia. xs. rewrite wrap_U64_id by lia.
      assert (Hn3 : nth_error m3 (length m) = Some (repeat VUndef (S (length s)))).
      { unfold m3. rewrite mem_upd_other by (try (rewrite app_length; cbn [length]; lia); lia). rewrite <- L2. apply nth_error_app_new. }
      assert (Hs3 : nth_error m3 bs = Some (cstr_block (zb s))).
      { unfold m3. assert (bs < length m)%nat by (eapply nth_lt; exact Hs). rewrite mem_upd_other by (try (rewrite app_length; cbn [length]; lia); congruence).
        rewrite nth_error_app_old by lia. exact Hs2. }
      assert (Lcs : length (cstr_block (zb s)) = S (length s)) by (unfold cstr_block, zb; rewrite app_length, !map_length; cbn [length]; lia).
      rewrite (memcpy_ok m3 (length m) 0 bs 0 (Z.of_nat (length s) + 1) _ _ Hn3 Hs3) by (rewrite ?repeat_length, ?Lcs; lia). xs.
      change (Z.to_nat 0) with 0%nat. cbn [skipn]. replace (Z.to_nat (Z.of_nat (length s) + 1)) with (S (length s)) by lia.
      replace (firstn (S (length s)) (cstr_block (zb s))) with (cstr_block (zb s)) by (rewrite <- Lcs; symmetry; apply firstn_all).
      rewrite put_cells_all' by (rewrite repeat_length; exact Lcs).
      eexists. exists (VPtr (length m) 0). split; [reflexivity|]. cbn [memm].
      assert (c3 = upd c1 (6 * k + 1) (VPtr (length m) 0)) as Ec3 by (unfold c3, c2; apply upd_upd; lia).
      split.
      { rewrite <- Ec3. destruct E3 as [X [Y Z0]]. fold m3 in X, Y.
        split; [rewrite mem_upd_other by (try lia; lia); exact X|]. split; [rewrite mem_upd_other by (try lia; lia); exact Y|exact Z0]. }
      split.
      { intros j Hj Nj. rewrite mem_upd_other by (try lia; lia). unfold m3. rewrite mem_upd_other by (try (rewrite app_length; cbn [length]; lia); exact Nj).
        rewrite nth_error_app_old by lia. unfold m2, m1. rewrite !mem_upd_other by (try (rewrite ?upd_length by lia; lia); exact Nj). reflexivity. }
      split; [reflexivity|]. split; [rewrite upd_length by lia; exact L3|]. rewrite mem_upd_same by lia. symmetry. exact Hs.
  Qed.

  (* ---- the statements of rnode_emit *)
  Definition em_mn0 : stmt := match fn_body cf_rnode_emit with SSeq _ (SSeq _ (SSeq _ (SSeq _ (SSeq _ (SSeq s _))))) => s | _ => SSkip end.
  Definition em_LA : stmt := match fn_body cf_rnode_emit with SSeq _ (SSeq _ (SSeq _ (SSeq _ (SSeq _ (SSeq _ (SSeq (SSeq _ s) _)))))) => s | _ => SSkip end.
  Definition em_mxneg : stmt := match fn_body cf_rnode_emit with SSeq _ (SSeq _ (SSeq _ (SSeq _ (SSeq _ (SSeq _ (SSeq _ (SSeq s _))))))) => s | _ => SSkip end.
  Definition em_LB : stmt := match fn_body cf_rnode_emit with SSeq _ (SSeq _ (SSeq _ (SSeq _ (SSeq _ (SSeq _ (SSeq _ (SSeq _ (SSeq (SSeq _ s) _)))))))) => s | _ => SSkip end.
  Definition em_LC : stmt := match fn_body cf_rnode_emit with SSeq _ (SSeq _ (SSeq _ (SSeq _ (SSeq _ (SSeq _ (SSeq _ (SSeq _ (SSeq _ (SSeq _ s))))))))) => s | _ => SSkip end.
  Definition em_LBinit : stmt := match fn_body cf_rnode_emit with SSeq _ (SSeq _ (SSeq _ (SSeq _ (SSeq _ (SSeq _ (SSeq _ (SSeq _ (SSeq (SSeq s _) _)))))))) => s | _ => SSkip end.
  Definition em_tail : stmt := match fn_body cf_rnode_emit with SSeq _ (SSeq _ (SSeq _ (SSeq _ (SSeq _ t)))) => t | _ => SSkip end.
  Lemma em_tail_eq : em_tail =
    SSeq em_mn0 (SSeq (SSeq (SExpr (ESetLocal 5 (EConst 0))) em_LA) (SSeq em_mxneg (SSeq (SSeq em_LBinit em_LB) (SSeq (SExpr (ESetLocal 5 (EConst 0))) em_LC)))).
  Proof. reflexivity. Qed.

  (* the model's opt with the common exit END written out *)
  Fixpoint optE (e : nat -> list instr) (n : nat) (END : nat) (j b : nat) : list instr :=
    match j with O => [] | S j' => [IFork (b + 1)%nat END] ++ e (b + 1)%nat ++ optE e n END j' (b + 1 + n)%nat end.
  Lemma optE_eq e n j : forall b, opt e n j b = optE e n (b + j * (1 + n))%nat j b.
  Proof.
    induction j as [|j IH]; intro b; [reflexivity|]. cbn [opt optE]. rewrite IH.
    replace (b + 1 + n + j * (1 + n))%nat with (b + S j * (1 + n))%nat by lia. reflexivity.
  Qed.
  Lemma optE_length e n END (e_len : forall b, length (e b) = n) j : forall b, length (optE e n END j b) = (j * (1 + n))%nat.
  Proof. induction j as [|j IH]; intro b; [reflexivity|]. cbn [optE]. rewrite !app_length, e_len, IH. cbn [length]. lia. Qed.

  (* ---- the repetition loops of rnode_emit, for a node whose unrepeated code is emitted by E *)
  Section RepLoops.
    Variables (t : node) (lo hi bt : nat) (c0 c1 c2 c3 c6 c7 : val) (mn mx : Z) (e : nat -> list instr) (n : nat) (d' : nat).
    Hypothesis Hhi1 : (hi <= bre)%nat.
    Hypothesis Hhi2 : (hi <= bp)%nat.
    Hypothesis Hbt : (lo <= bt < hi)%nat.
    Hypothesis Hmn : 0 <= mn <= 128.
    Hypothesis Hmx : mx <= 128.
    Hypothesis Hmxl : -2147483648 <= mx.
    Hypothesis e_len : forall b, length (e b) = n.
    Notation d := (S d').
    Notation call := (callf cprog fuel d).
    Definition tin (m : mem) : Prop := tree_in m t lo hi (VPtr bt 0) /\ nth_error m bt = Some [c0; c1; c2; c3; VInt mn; VInt mx; c6; c7].
    Hypothesis E : forall (m : mem) b cells, tin m -> est m b cells -> (b + n <= N)%nat ->
      exists m', call F_rnode_emitnorep [VPtr bt 0; VPtr bre 0] m = Ok (VUndef, m') /\ emit_post m cells b (e b) m'.

    Lemma tin_frame m m' : tin m -> (forall j, (j < hi)%nat -> nth_error m' j = nth_error m j) -> tin m'.
    Proof. intros [T R] F. split; [apply (tree_in_same m); [exact T|intros i Hi; apply F; lia]|rewrite F by lia; exact R]. Qed.
    Lemma tin_post m b cells P m' : tin m -> est m b cells -> emit_post m cells b P m' -> tin m'.
    Proof.
      intros T Es [c' [_ [_ [_ [_ M]]]]]. destruct (est_lt _ _ _ Es). apply (tin_frame m); [exact T|]. intros j Hj. apply M; lia.
    Qed.
    Lemma tin_upd (m : mem) j blk : tin m -> (hi <= j)%nat -> (j < length m)%nat -> tin (upd m j blk).
    Proof. intros T Hj Hl. apply (tin_frame m); [exact T|]. intros i Hi. apply mem_upd_other; [exact Hl|lia]. Qed.

    Definition lc (vlast : val) (bj : nat) (cnt : Z) (vi v6 v7 v8 : val) : list val :=
      [VPtr bt 0; VPtr bre 0; vlast; VPtr bj 0; VInt cnt; vi; v6; v7; v8].
    Definition cmax : Z := Z.max 1 mn.

    (* i < MAX(1, n->mincnt) *)
    Lemma condA m vlast bj cnt i v6 v7 v8 : tin m -> -2147483648 <= i <= 2147483647 ->
      eval call (EBin OLt I32 (ELocal 5) (ECond (EBin OLt I32 (EConst 1) (ELoad (Some I32) (EPtrAdd 1 (ELocal 0) (EConst 4)))) (ELoad (Some I32) (EPtrAdd 1 (ELocal 0) (EConst 4))) (EConst 1)))
           (mkst (lc vlast bj cnt (VInt i) v6 v7 v8) m) = Ok (VInt (b2z (i <? cmax)), mkst (lc vlast bj cnt (VInt i) v6 v7 v8) m).
    Proof.
      intros [_ R] Hi. unfold lc, cmax. xs. xld R. xs. rewrite (wrap_I32_id mn) by lia.
      destruct (Z.ltb_spec 1 mn) as [L|L]; xs.
      - xld R. xs. rewrite (wrap_I32_id mn) by lia. rewrite Z.max_r by lia. reflexivity.
      - rewrite Z.max_l by lia. reflexivity.
    Qed.

    (* the MAX(1, mincnt) mandatory copies *)
    Lemma loopA_ok : forall r i (m : mem) q cells vlast bj cnt v6 v7 v8 lf,
      Z.of_nat i + Z.of_nat r = cmax -> tin m -> est m q cells -> (q + r * n <= N)%nat -> (r < lf)%nat ->
      exists m' vlast', exec call lf em_LA (mkst (lc vlast bj cnt (VInt (Z.of_nat i)) v6 v7 v8) m)
                        = ONormal (mkst (lc vlast' bj cnt (VInt cmax) v6 v7 v8) m') /\
        emit_post m cells q (pow e n r q) m' /\ tin m' /\
        ((0 < r)%nat -> vlast' = VInt (Z.of_nat (q + (r - 1) * n))) /\ (r = 0%nat -> vlast' = vlast).
    Proof.
      induction r as [|r IH]; intros i m q cells vlast bj cnt v6 v7 v8 lf Hi T Es Hq Hlf; (destruct lf as [|lf]; [lia|]);
        unfold em_LA; cbn [fn_body cf_rnode_emit]; rewrite exec_for; cbn [eval_opt]; rewrite (condA m _ _ _ _ _ _ _ T) by (unfold cmax in Hi; lia);
        rewrite truth_b2z.
      - destruct (Z.ltb_spec (Z.of_nat i) cmax); [lia|]. replace (Z.of_nat i) with cmax by lia.
        exists m, vlast. split; [reflexivity|]. cbn [pow]. split; [apply emit_post_nil; exact Es|]. split; [exact T|]. split; [lia|reflexivity].
      - destruct (Z.ltb_spec (Z.of_nat i) cmax); [|lia].
        destruct (E m q cells T Es ltac:(lia)) as [m1 [C1 P1]].
        pose proof (tin_post _ _ _ _ _ T Es P1) as T1. pose proof P1 as [cl1 [E1 [F1 [K1 [L1 M1]]]]]. rewrite e_len in E1.
        unfold lc. xs. rewrite (ld_n _ _ _ Es). xs. rewrite (wrap_I32_id (Z.of_nat q)) by lia. rewrite C1. xs.
        rewrite (chk_I32 (Z.of_nat i + 1)) by (unfold cmax in Hi; lia). xs. replace (Z.of_nat i + 1) with (Z.of_nat (S i)) by lia.
        change (SFor _ _ _) with em_LA.
        destruct (IH (S i) m1 (q + n)%nat cl1 (VInt (Z.of_nat q)) bj cnt v6 v7 v8 lf ltac:(lia) T1 E1 ltac:(lia) ltac:(lia)) as [m2 [vl2 [X2 [P2 [T2 [V2 V2']]]]]].
        unfold lc in X2. exists m2, vl2. split; [exact X2|]. cbn [pow].
        split; [apply (emit_post_app m cells q (e q) (pow e n r (q + n)) m1 m2 cl1 Es P1); rewrite e_len; assumption|].
        split; [exact T2|]. split; [|discriminate]. intros _. destruct r as [|r].
        + rewrite V2' by reflexivity. cbn [Nat.sub Nat.mul]. rewrite Nat.add_0_r. reflexivity.
        + rewrite V2 by lia. do 2 f_equal. cbn [Nat.sub]. rewrite Nat.sub_0_r. cbn [Nat.mul]. lia.
    Qed.

    (* ---- the local array jmpend[] (block bj): the forks whose second target is the end of the repetition *)
    Variable bj : nat.
    Hypothesis Nbj1 : bj <> bre.
    Hypothesis Nbj2 : bj <> bp.
    Hypothesis Hbj : (hi <= bj)%nat.
    Definition jm_at (m : mem) (J : list nat) : Prop :=
      exists rest, nth_error m bj = Some (map (fun q => VInt (Z.of_nat q)) J ++ rest) /\ (length J + length rest = 128)%nat.
    Lemma jm_store (m : mem) J q : jm_at m J -> (length J < 128)%nat ->
      exists blk', store m bj (0 + 1 * Z.of_nat (length J)) (VInt (Z.of_nat q)) = Ok (upd m bj blk') /\ jm_at (upd m bj blk') (J ++ [q]).
    Proof.
      intros [rest [Hb Hl]] HJ. destruct rest as [|r0 rest]; [cbn [length] in Hl; lia|].
      exists (map (fun q => VInt (Z.of_nat q)) (J ++ [q]) ++ rest). split.
      - rewrite (store_ok m bj _ _ _ Hb) by (rewrite app_length, map_length; cbn [length]; lia). do 2 f_equal.
        replace (Z.to_nat (0 + 1 * Z.of_nat (length J))) with (length J) by lia.
        rewrite (upd_mid (map (fun q0 => VInt (Z.of_nat q0)) J) rest r0 (VInt (Z.of_nat q))) by (rewrite map_length; reflexivity).
        rewrite map_app. cbn [map]. rewrite <- app_assoc. reflexivity.
      - exists rest. split; [apply mem_upd_same; eapply nth_lt; exact Hb|]. rewrite app_length. cbn [length] in *. lia.
    Qed.
    Lemma jm_load (m : mem) J i : jm_at m J -> (i < length J)%nat -> load m bj (0 + 1 * Z.of_nat i) = Ok (VInt (Z.of_nat (nth i J 0%nat))).
    Proof.
      intros [rest [Hb Hl]] Hi. apply (load_cell m bj _ _ _ Hb); [|lia]. replace (Z.to_nat (0 + 1 * Z.of_nat i)) with i by lia.
      rewrite nth_error_app1 by (rewrite map_length; exact Hi). rewrite nth_error_map. rewrite (nth_error_nth' J 0%nat Hi). reflexivity.
    Qed.
    Lemma jm_frame (m m' : mem) J : jm_at m J -> nth_error m' bj = nth_error m bj -> jm_at m' J.
    Proof. intros [rest [Hb Hl]] F. exists rest. split; [rewrite F; exact Hb|exact Hl]. Qed.

    (* the memory moves on, block bj excepted: same length, the struct and the array as stated *)
    Definition quiet (m m' : mem) : Prop := length m' = length m /\ forall j, j <> bre -> j <> bp -> j <> bj -> nth_error m' j = nth_error m j.

    (* fork = re_insert(p, RI_FORK); p->p[fork].a1 = p->n; jmpend[jmpend_cnt++] = fork;   (fork is local x) *)
    Definition fork_a (x : nat) : stmt := SExpr (ESetLocal x (ECall F_re_insert [(ELocal 1); (EConst 102)])).
    Definition fork_b (x : nat) : stmt :=
      SExpr (EStore (Some I32) (EPtrAdd 1 (EPtrAdd 6 (ELoad None (ELocal 1)) (ELocal x)) (EConst 3)) (ELoad (Some I32) (EPtrAdd 1 (ELocal 1) (EConst 1)))).
    Definition fork_c (x : nat) : stmt := SExpr (EStore (Some I32) (EPtrAdd 1 (ELocal 3) (EIncLocal true 4 (Some I32) 1)) (ELocal x)).
    Lemma fork_ok (m : mem) q cells J lf : est m q cells -> (q < N)%nat -> jm_at m J -> (length J < 128)%nat -> (bj < length m)%nat ->
      exists m' cells', quiet m m' /\ est m' (S q) cells' /\ jm_at m' (J ++ [q]) /\
        nth_error cells' (6 * q + 2) = Some (VInt 102) /\ nth_error cells' (6 * q + 3) = Some (VInt (Z.of_nat (S q))) /\
        (forall j, j <> (6 * q + 2)%nat -> j <> (6 * q + 3)%nat -> nth_error cells' j = nth_error cells j) /\
        (forall vlast vi v6 v7 v8,
           exec call lf (SSeq (fork_a 6) (SSeq (fork_b 6) (fork_c 6))) (mkst (lc vlast bj (Z.of_nat (length J)) vi v6 v7 v8) m)
           = ONormal (mkst (lc vlast bj (Z.of_nat (S (length J))) vi (VInt (Z.of_nat q)) v7 v8) m')) /\
        (forall vlast vi v6 v7 v8 rest,
           exec call lf (SSeq (fork_a 8) (SSeq (fork_b 8) (SSeq (fork_c 8) rest))) (mkst (lc vlast bj (Z.of_nat (length J)) vi v6 v7 v8) m)
           = exec call lf rest (mkst (lc vlast bj (Z.of_nat (S (length J))) vi v6 v7 (VInt (Z.of_nat q))) m')).
    Proof.
      intros Es Hq HJ HJl Lbj. destruct (est_lt _ _ _ Es) as [Q1 Q2]. pose proof Es as [A [B C]].
      destruct (tr_re_insert m q cells 102 d' Es Hq ltac:(unfold i32; lia)) as [C1 E1].
      set (cA := upd cells (6 * q + 2) (VInt 102)) in *. set (m1 := upd (upd m bre [VPtr bp 0; VInt (Z.of_nat (S q)); VInt 0]) bp cA) in *.
      assert (LcA : length cA = (6 * N)%nat) by (unfold cA; rewrite upd_length by lia; exact C).
      assert (Lm1 : length m1 = length m) by (unfold m1; rewrite !upd_length by (rewrite ?upd_length by lia; lia); reflexivity).
      destruct (st_cell m1 (S q) cA (6 * q + 3) (VInt (Z.of_nat (S q))) E1 ltac:(lia)) as [S2 E2].
      set (cB := upd cA (6 * q + 3) (VInt (Z.of_nat (S q)))) in *. set (m2 := upd m1 bp cB) in *.
      assert (Lm2 : length m2 = length m) by (unfold m2; rewrite upd_length by lia; exact Lm1).
      assert (HJ2 : jm_at m2 J).
      { apply (jm_frame m); [exact HJ|]. unfold m2, m1. mnth. reflexivity. }
      destruct (jm_store m2 J q HJ2 HJl) as [blk' [S3 HJ3]].
      exists (upd m2 bj blk'), cB.
      split; [split; [rewrite upd_length by lia; exact Lm2|]|].
      { intros j N1 N2 N3. unfold m2, m1. mnth. reflexivity. }
      split.
      { destruct E2 as [X [Y Z0]]. fold m2 in X, Y. split; [rewrite mem_upd_other by (try lia; congruence); exact X|]. split; [rewrite mem_upd_other by (try lia; congruence); exact Y|exact Z0]. }
      split; [exact HJ3|].
      split; [unfold cB; rewrite nth_upd_other by lia; unfold cA; apply nth_upd_same; lia|].
      split; [unfold cB; apply nth_upd_same; lia|].
      split; [intros j N1 N2; unfold cB, cA; rewrite !nth_upd_other by (rewrite ?upd_length by lia; lia); reflexivity|].
      split; intros; unfold fork_a, fork_b, fork_c, lc; xs; rewrite C1; xs; fold cA m1;
          rewrite (ld_p _ _ _ E1); xs;
          rewrite (ld_n _ _ _ E1); xs; rewrite !(wrap_I32_id (Z.of_nat (S q))) by lia;
          replace (0 + 6 * Z.of_nat q + 1 * 3) with (Z.of_nat (6 * q + 3)) by lia; rewrite S2; xs; fold cB m2;
          rewrite (chk_I32 (Z.of_nat (length J) + 1)) by lia; xs; rewrite (wrap_I32_id (Z.of_nat q)) by lia; rewrite S3; xs;
          replace (Z.of_nat (length J) + 1) with (Z.of_nat (S (length J))) by lia; reflexivity.
    Qed.

    Lemma exec_seq_assoc cl f a b c st : exec cl f (SSeq (SSeq a b) c) st = exec cl f (SSeq a (SSeq b c)) st.
    Proof. rewrite (exec_seq cl f (SSeq a b)), (exec_seq cl f a b), (exec_seq cl f a (SSeq b c)). destruct (exec cl f a st); try reflexivity. rewrite exec_seq. reflexivity. Qed.

    (* if (n->maxcnt < 0) { fork = re_insert(p, RI_FORK); p->p[fork].a1 = last; p->p[fork].a2 = p->n; } *)
    Lemma mxneg_ok (m : mem) q cells (last : nat) (J : list nat) vi v6 v7 v8 lf : tin m -> est m q cells -> (mx < 0 -> (q < N)%nat) -> (last <= N)%nat ->
      exists m' cells' v7', exec call lf em_mxneg (mkst (lc (VInt (Z.of_nat last)) bj (Z.of_nat (length J)) vi v6 v7 v8) m)
                            = ONormal (mkst (lc (VInt (Z.of_nat last)) bj (Z.of_nat (length J)) vi v6 v7' v8) m') /\
        quiet m m' /\ nth_error m' bj = nth_error m bj /\
        if mx <? 0 then est m' (S q) cells' /\ icell m' cells' 0 0 q (IFork last (S q)) /\ (forall j, (j < 6 * q)%nat -> nth_error cells' j = nth_error cells j)
        else m' = m /\ cells' = cells.
    Proof.
      intros [T R] Es Hq Hl. unfold em_mxneg, lc. cbn [fn_body cf_rnode_emit]. xs. xld R. xs. rewrite (wrap_I32_id mx) by lia.
      destruct (Z.ltb_spec mx 0) as [L|L]; xs.
      2:{ exists m, cells, v7. split; [reflexivity|]. split; [split; reflexivity|]. split; [reflexivity|]. split; reflexivity. }
      specialize (Hq L). destruct (est_lt _ _ _ Es) as [Q1 Q2]. pose proof Es as [A [B C]].
      destruct (tr_re_insert m q cells 102 d' Es Hq ltac:(unfold i32; lia)) as [C1 E1].
      set (cA := upd cells (6 * q + 2) (VInt 102)) in *. set (m1 := upd (upd m bre [VPtr bp 0; VInt (Z.of_nat (S q)); VInt 0]) bp cA) in *.
      assert (LcA : length cA = (6 * N)%nat) by (unfold cA; rewrite upd_length by lia; exact C).
      assert (Lm1 : length m1 = length m) by (unfold m1; mlen).
      destruct (st_cell m1 (S q) cA (6 * q + 3) (VInt (Z.of_nat last)) E1 ltac:(lia)) as [S2 E2].
      set (cB := upd cA (6 * q + 3) (VInt (Z.of_nat last))) in *. set (m2 := upd m1 bp cB) in *.
      assert (LcB : length cB = (6 * N)%nat) by (unfold cB; rewrite upd_length by lia; exact LcA).
      destruct (st_cell m2 (S q) cB (6 * q + 4) (VInt (Z.of_nat (S q))) E2 ltac:(lia)) as [S3 E3].
      set (cC := upd cB (6 * q + 4) (VInt (Z.of_nat (S q)))) in *.
      rewrite C1. xs. fold cA m1. rewrite (ld_p _ _ _ E1). xs. rewrite (wrap_I32_id (Z.of_nat last)) by lia.
      replace (0 + 6 * Z.of_nat q + 1 * 3) with (Z.of_nat (6 * q + 3)) by lia. rewrite S2. xs. fold cB m2.
      rewrite (ld_p _ _ _ E2). xs. rewrite (ld_n _ _ _ E2). xs. rewrite !(wrap_I32_id (Z.of_nat (S q))) by lia.
      replace (0 + 6 * Z.of_nat q + 1 * 4) with (Z.of_nat (6 * q + 4)) by lia. rewrite S3. xs.
      eexists. exists cC, (VInt (Z.of_nat q)). split; [reflexivity|].
      split; [split; [unfold m2; mlen|intros j N1 N2 N3; unfold m2, m1; mnth; reflexivity]|].
      split; [unfold m2, m1; mnth; reflexivity|].
      split; [exact E3|]. split.
      - split; [unfold cC, cB; rewrite !nth_upd_other by mlen; unfold cA; apply nth_upd_same; lia|].
        split; [unfold cC; rewrite nth_upd_other by lia; unfold cB; apply nth_upd_same; lia|unfold cC; apply nth_upd_same; lia].
      - intros j Hj. unfold cC, cB, cA. rewrite !nth_upd_other by mlen. reflexivity.
    Qed.

    (* the optional copies: their fork positions *)
    Fixpoint jr (r q : nat) : list nat := match r with O => [] | S r' => q :: jr r' (q + 1 + n)%nat end.
    Lemma jr_ge r : forall q q', In q' (jr r q) -> (q <= q')%nat.
    Proof. induction r as [|r IH]; intros q q' H; [destruct H|]. destruct H as [<-|H]; [lia|]. specialize (IH _ _ H). lia. Qed.
    Lemma jr_lt r : forall q q', In q' (jr r q) -> (q' < q + r * (1 + n))%nat.
    Proof. induction r as [|r IH]; intros q q' H; [destruct H|]. destruct H as [<-|H]; [lia|]. specialize (IH _ _ H). lia. Qed.
    Lemma jr_length r : forall q, length (jr r q) = r.
    Proof. induction r as [|r IH]; intro q; [reflexivity|]. cbn [jr length]. rewrite IH. reflexivity. Qed.

    Definition em_LBbody : stmt := match em_LB with SFor _ _ b => b | _ => SSkip end.
    Lemma em_LBbody_eq : em_LBbody = SSeq (SExpr (ESetLocal 8 (ECall F_re_insert [(ELocal 1); (EConst 102)])))
        (SSeq (SExpr (EStore (Some I32) (EPtrAdd 1 (EPtrAdd 6 (ELoad None (ELocal 1)) (ELocal 8)) (EConst 3)) (ELoad (Some I32) (EPtrAdd 1 (ELocal 1) (EConst 1)))))
              (SSeq (SExpr (EStore (Some I32) (EPtrAdd 1 (ELocal 3) (EIncLocal true 4 (Some I32) 1)) (ELocal 8)))
                    (SExpr (ECall F_rnode_emitnorep [(ELocal 0); (ELocal 1)])))).
    Proof. reflexivity. Qed.

    Lemma condB (m : mem) vlast cnt i v6 v7 v8 : tin m ->
      eval call (EBin OLt I32 (ELocal 5) (ELoad (Some I32) (EPtrAdd 1 (ELocal 0) (EConst 5))))
           (mkst (lc vlast bj cnt (VInt i) v6 v7 v8) m) = Ok (VInt (b2z (i <? mx)), mkst (lc vlast bj cnt (VInt i) v6 v7 v8) m).
    Proof. intros [_ R]. unfold lc. xs. xld R. xs. rewrite (wrap_I32_id mx) by lia. reflexivity. Qed.

    Lemma loopB_ok : forall r (i : Z) (m : mem) q cells J vlast v6 v7 v8 lf,
      r = Z.to_nat (mx - i) -> 1 <= i <= 128 -> tin m -> est m q cells -> jm_at m J -> (length J + r <= 128)%nat ->
      (q + r * (1 + n) <= N)%nat -> (bj < length m)%nat -> (r < lf)%nat ->
      exists m' cells' vi' v8',
        exec call lf em_LB (mkst (lc vlast bj (Z.of_nat (length J)) (VInt i) v6 v7 v8) m)
        = ONormal (mkst (lc vlast bj (Z.of_nat (length J + r)) (VInt vi') v6 v7 v8') m') /\
        tin m' /\ est m' (q + r * (1 + n)) cells' /\ jm_at m' (J ++ jr r q) /\ (length m <= length m')%nat /\
        (forall j, (j < length m)%nat -> j <> bre -> j <> bp -> j <> bj -> nth_error m' j = nth_error m j) /\
        (forall j, (j < 6 * q)%nat -> nth_error cells' j = nth_error cells j) /\
        (forall cells'' END, (forall idx, (6 * q <= idx)%nat -> (forall q', In q' (jr r q) -> idx <> (6 * q' + 4)%nat) -> nth_error cells'' idx = nth_error cells' idx) ->
           (forall q', In q' (jr r q) -> nth_error cells'' (6 * q' + 4) = Some (VInt (Z.of_nat END))) ->
           code_ok m' cells'' (length m) (length m') q (optE e n END r q)).
    Proof.
      induction r as [|r IH]; intros i m q cells J vlast v6 v7 v8 lf Hr Hi T Es HJ HJl Hq Lbj Hlf; (destruct lf as [|lf]; [lia|]);
        unfold em_LB; cbn [fn_body cf_rnode_emit]; rewrite exec_for; cbn [eval_opt]; rewrite (condB m _ _ _ _ _ _ T); rewrite truth_b2z;
        destruct T as [T R].
      - destruct (Z.ltb_spec i mx); [lia|]. exists m, cells, i, v8. rewrite !Nat.add_0_r, app_nil_r. split; [reflexivity|].
        split; [split; assumption|]. split; [exact Es|]. split; [exact HJ|]. split; [lia|]. split; [reflexivity|]. split; [reflexivity|].
        intros cells'' END _ _. apply code_ok_nil.
      - destruct (Z.ltb_spec i mx); [|lia].
        change (SSeq (SExpr (ESetLocal 8 _)) _) with em_LBbody. rewrite em_LBbody_eq.
        destruct (fork_ok m q cells J (S lf) Es ltac:(lia) HJ ltac:(lia) Lbj) as [m1 [cl1 [[Lm1 Q1] [E1 [HJ1 [F2 [F3 [Fo [_ X8]]]]]]]]].
        assert (T1 : tin m1) by (apply (tin_frame m); [split; assumption|]; intros j Hj; apply Q1; lia).
        destruct (E m1 (S q) cl1 T1 E1 ltac:(lia)) as [m2 [C2 P2]].
        pose proof (tin_post _ _ _ _ _ T1 E1 P2) as T2. pose proof P2 as [cl2 [E2 [G2 [K2 [L2 M2]]]]]. rewrite e_len in E2.
        pose proof (X8 vlast (VInt i) v6 v7 v8 (SExpr (ECall F_rnode_emitnorep [(ELocal 0); (ELocal 1)]))) as X. unfold fork_a, fork_b, fork_c in X.
        rewrite X. clear X X8. unfold lc. xs. rewrite C2. xs.
        rewrite (chk_I32 (i + 1)) by lia. xs.
        assert (HJ2 : jm_at m2 (J ++ [q])) by (apply (jm_frame m1); [exact HJ1|]; apply M2; [lia|exact Nbj1|exact Nbj2]).
        change (SFor _ _ _) with em_LB.
        destruct (est_lt _ _ _ Es) as [B1 B2].
        destruct (IH (i + 1) m2 (S q + n)%nat cl2 (J ++ [q]) vlast v6 v7 (VInt (Z.of_nat q)) lf ltac:(lia) ltac:(lia) T2 E2 HJ2
                    ltac:(rewrite app_length; cbn [length]; lia) ltac:(lia) ltac:(lia) ltac:(lia))
          as [m3 [cl3 [vi3 [v83 [X3 [T3 [E3 [HJ3 [L3 [M3 [G3 K3]]]]]]]]]]].
        unfold lc in X3. rewrite app_length in X3. cbn [length] in X3. replace (Z.of_nat (length J + 1)) with (Z.of_nat (S (length J))) in X3 by lia.
        rewrite X3. exists m3, cl3, vi3, v83.
        split; [replace (length J + S r)%nat with (length J + 1 + r)%nat by lia; reflexivity|]. split; [exact T3|]. split; [replace (q + S r * (1 + n))%nat with (S q + n + r * (1 + n))%nat by lia; exact E3|].
        split; [cbn [jr]; replace (q + 1 + n)%nat with (S q + n)%nat by lia; rewrite <- app_assoc in HJ3; exact HJ3|].
        split; [lia|]. split.
        { intros j Hj N1 N2 N3. rewrite M3 by (try lia; assumption). rewrite M2 by (try lia; assumption). apply Q1; assumption. }
        split.
        { intros j Hj. rewrite G3 by lia. rewrite G2 by lia. apply Fo; lia. }
        intros cells'' END Ag Je. cbn [optE jr] in *.
        assert (Hc2 : forall idx, (idx < 6 * (S q + n))%nat -> nth_error cl3 idx = nth_error cl2 idx) by (intros idx Hidx; apply G3; exact Hidx).
        apply code_ok_app; [apply code_ok_one|apply code_ok_app].
        + (* the fork of this copy *)
          split; [|split].
          * rewrite Ag by (first [lia | (intros q' [<-|Hin]; [lia|apply jr_ge in Hin; lia])]). rewrite Hc2 by lia. rewrite G2 by lia. exact F2.
          * rewrite Ag by (first [lia | (intros q' [<-|Hin]; [lia|apply jr_ge in Hin; lia])]). rewrite Hc2 by lia. rewrite G2 by lia.
            replace (q + 1)%nat with (S q) by lia. exact F3.
          * apply Je. left. reflexivity.
        + (* the copy *)
          cbn [length]. replace (q + 1)%nat with (S q) by lia.
          apply (code_ok_same m2 m3 cl2 cells'' (length m1) (length m2)); [exact K2| | |lia|lia].
          * intros j Hj. apply M3; lia.
          * intros j Hj. rewrite e_len in Hj. rewrite Ag by (first [lia | (intros q' [<-|Hin]; [lia|apply jr_ge in Hin; lia])]). apply Hc2. lia.
        + (* the later copies *)
          cbn [length]. rewrite e_len. replace (q + 1 + n)%nat with (S q + n)%nat by lia. replace (q + 1 + n)%nat with (S q + n)%nat in Ag, Je by lia.
          apply (code_ok_same m3 m3 cells'' cells'' (length m2) (length m3)); [|reflexivity|reflexivity|lia|lia].
          apply K3.
          * intros idx Hidx Hn. apply Ag; [lia|]. intros q' [<-|Hin]; [lia|apply Hn; exact Hin].
          * intros q' Hin. apply Je. right. exact Hin.
    Qed.

    (* for (i = 0; i < jmpend_cnt; i++) p->p[jmpend[i]].a2 = p->n; *)
    Lemma loopC_ok : forall r i (m : mem) q cells J vlast v6 v7 v8 lf,
      (i + r = length J)%nat -> est m q cells -> (q <= N)%nat -> jm_at m J -> Forall (fun q' => (q' < N)%nat) J -> (length J <= 128)%nat -> (r < lf)%nat ->
      exists m' cells',
        exec call lf em_LC (mkst (lc vlast bj (Z.of_nat (length J)) (VInt (Z.of_nat i)) v6 v7 v8) m)
        = ONormal (mkst (lc vlast bj (Z.of_nat (length J)) (VInt (Z.of_nat (length J))) v6 v7 v8) m') /\
        quiet m m' /\ nth_error m' bj = nth_error m bj /\ est m' q cells' /\
        (forall idx, (forall q', In q' (skipn i J) -> idx <> (6 * q' + 4)%nat) -> nth_error cells' idx = nth_error cells idx) /\
        (forall q', In q' (skipn i J) -> nth_error cells' (6 * q' + 4) = Some (VInt (Z.of_nat q))).
    Proof.
      induction r as [|r IH]; intros i m q cells J vlast v6 v7 v8 lf Hi Es HqN HJ HN' HJl Hlf; (destruct lf as [|lf]; [lia|]);
        unfold em_LC; cbn [fn_body cf_rnode_emit]; rewrite exec_for; cbn [eval_opt]; unfold lc; xs.
      - destruct (Z.ltb_spec (Z.of_nat i) (Z.of_nat (length J))); [lia|]. xs. replace i with (length J) by lia.
        exists m, cells. split; [reflexivity|]. split; [split; reflexivity|]. split; [reflexivity|]. split; [exact Es|].
        rewrite skipn_all. split; [reflexivity|]. intros q' [].
      - destruct (Z.ltb_spec (Z.of_nat i) (Z.of_nat (length J))); [|lia]. xs.
        rewrite (ld_p _ _ _ Es). xs. rewrite (jm_load m J i HJ) by lia. xs.
        set (qi := nth i J 0%nat). assert (Hqi : (qi < N)%nat) by (rewrite Forall_forall in HN'; apply HN'; apply nth_In; lia).
        rewrite (wrap_I32_id (Z.of_nat qi)) by lia. rewrite (ld_n _ _ _ Es). xs. rewrite !(wrap_I32_id (Z.of_nat q)) by lia.
        replace (0 + 6 * Z.of_nat qi + 1 * 4) with (Z.of_nat (6 * qi + 4)) by lia.
        destruct (st_cell m q cells (6 * qi + 4) (VInt (Z.of_nat q)) Es ltac:(lia)) as [S1 E1]. rewrite S1. xs.
        rewrite (chk_I32 (Z.of_nat i + 1)) by lia. xs. replace (Z.of_nat i + 1) with (Z.of_nat (S i)) by lia.
        change (SFor _ _ _) with em_LC.
        destruct (est_lt _ _ _ Es) as [B1 B2]. pose proof Es as [_ [_ Cl]].
        assert (HJ1 : jm_at (upd m bp (upd cells (6 * qi + 4) (VInt (Z.of_nat q)))) J) by (apply (jm_frame m); [exact HJ|]; apply mem_upd_other; [exact B2|exact Nbj2]).
        destruct (IH (S i) _ q _ J vlast v6 v7 v8 lf ltac:(lia) E1 HqN HJ1 HN' HJl ltac:(lia)) as [m2 [cl2 [X2 [[L2 Q2] [Bj2 [E2 [A2 J2]]]]]]].
        unfold lc in X2. rewrite X2. exists m2, cl2. split; [reflexivity|].
        split; [split; [rewrite L2; apply upd_length; exact B2|intros j N1 N2 N3; rewrite Q2 by assumption; apply mem_upd_other; [exact B2|exact N2]]|].
        split; [rewrite Bj2; apply mem_upd_other; [exact B2|exact Nbj2]|]. split; [exact E2|].
        assert (Hsk : skipn i J = qi :: skipn (S i) J).
        { unfold qi. clear - Hi. revert i Hi. induction J as [|x J IHJ]; intros i Hi; cbn [length] in Hi; [lia|]. destruct i as [|i]; [reflexivity|].
          cbn [skipn nth]. apply IHJ. lia. }
        rewrite Hsk. split.
        + intros idx Hn. rewrite A2 by (intros q' Hin; apply Hn; right; exact Hin). apply nth_upd_other; [lia|]. apply Hn. left. reflexivity.
        + intros q' [<-|Hin]; [|apply J2; exact Hin].
          destruct (in_dec Nat.eq_dec qi (skipn (S i) J)) as [Hin|Hnin]; [apply J2; exact Hin|].
          rewrite A2 by (intros q' Hin E'; apply Hnin; replace qi with q' by lia; exact Hin). apply nth_upd_same. lia.
    Qed.

    (* if (n->mincnt == 0) { fork; a1; jmpend[] }  -- the fork in front of an optional first copy *)
    Lemma mn0_ok (m : mem) b cells vlast vi v6 v7 v8 lf : tin m -> est m b cells -> jm_at m [] -> (bj < length m)%nat -> (mn = 0 -> (b < N)%nat) ->
      let J1 := if mn =? 0 then [b] else [] in let q1 := if mn =? 0 then S b else b in
      exists m1 cl1 v6', exec call lf em_mn0 (mkst (lc vlast bj 0 vi v6 v7 v8) m) = ONormal (mkst (lc vlast bj (Z.of_nat (length J1)) vi v6' v7 v8) m1) /\
        quiet m m1 /\ est m1 q1 cl1 /\ jm_at m1 J1 /\ (forall j, (j < 6 * b)%nat -> nth_error cl1 j = nth_error cells j) /\
        (mn = 0 -> nth_error cl1 (6 * b + 2) = Some (VInt 102) /\ nth_error cl1 (6 * b + 3) = Some (VInt (Z.of_nat (S b)))).
    Proof.
      intros [T R] Es HJ Lbj Hb J1 q1. unfold em_mn0. cbn [fn_body cf_rnode_emit]. rewrite exec_if.
      assert (Ec : forall st0, locals st0 = lc vlast bj 0 vi v6 v7 v8 -> memm st0 = m ->
        eval call (EBin OEq I32 (ELoad (Some I32) (EPtrAdd 1 (ELocal 0) (EConst 4))) (EConst 0)) st0 = Ok (VInt (b2z (mn =? 0)), st0)).
      { intros [l0 m0] E1 E2. cbn [locals memm] in E1, E2. subst l0 m0. unfold lc. xs. xld R. xs. rewrite (wrap_I32_id mn) by lia. reflexivity. }
      rewrite Ec by reflexivity. rewrite truth_b2z. subst J1 q1. destruct (Z.eqb_spec mn 0) as [E0|E0].
      - destruct (fork_ok m b cells [] lf Es (Hb E0) HJ ltac:(cbn; lia) Lbj) as [m1 [cl1 [Q1 [E1 [HJ1 [F2 [F3 [Fo [X6 _]]]]]]]]].
        pose proof (X6 vlast vi v6 v7 v8) as X. unfold fork_a, fork_b, fork_c in X. cbn [length] in X. change (Z.of_nat 0) with 0 in X. rewrite X.
        exists m1, cl1, (VInt (Z.of_nat b)). split; [reflexivity|]. split; [exact Q1|]. split; [exact E1|]. split; [exact HJ1|].
        split; [intros j Hj; apply Fo; lia|]. intros _. split; assumption.
      - rewrite exec_skip. exists m, cells, v6. split; [reflexivity|]. split; [split; reflexivity|]. split; [exact Es|]. split; [exact HJ|].
        split; [reflexivity|]. intro; contradiction.
    Qed.

    (* ---- rnode_emit for this node: the model's emit_rep of its unrepeated code *)
    Hypothesis Hwf : mx < 0 \/ mn <= mx.
    Hypothesis Hfuel : (130 < fuel)%nat.

    Lemma emit_post_weaken (m m0 : mem) cells b P m' : (length m <= length m0)%nat ->
      (forall j, (j < length m)%nat -> nth_error m0 j = nth_error m j) -> emit_post m0 cells b P m' -> emit_post m cells b P m'.
    Proof.
      intros L F [c' [E1 [F1 [C1 [L1 M1]]]]]. exists c'. split; [exact E1|]. split; [exact F1|].
      split; [apply (code_ok_same m' m' c' c' (length m0) (length m')); [exact C1|reflexivity|reflexivity|lia|lia]|]. split; [lia|].
      intros j Hj N1 N2. rewrite M1 by (try lia; assumption). apply F. exact Hj.
    Qed.

    Lemma emit_general (m : mem) b cells : length m = bj -> tin m -> est m b cells -> (b + rep_len n mn mx <= N)%nat ->
      ((mn =? 0) && (mx =? 0)) = false -> ((mn =? 1) && (mx =? 1)) = false ->
      exists st', exec call fuel em_tail (mkst (lc VUndef bj 0 VUndef VUndef VUndef VUndef) (m ++ [repeat VUndef 128])) = ONormal st' /\
        emit_post m cells b (emit_rep e n mn mx b) (memm st').
    Proof.
      intros Lm T Es Hfit E00 E11. destruct (est_lt _ _ _ Es) as [B1 B2].
      unfold emit_rep, rep_len in *. rewrite E00, E11 in *.
      (* the arithmetic of the counts, once *)
      set (h := if mn =? 0 then 1%nat else 0%nat).
      assert (Emz : Nat.eqb (Z.to_nat mn) 0 = (mn =? 0)) by (destruct (Z.eqb_spec mn 0); destruct (Nat.eqb_spec (Z.to_nat mn) 0); try reflexivity; lia).
      rewrite Emz in *.
      set (c := Nat.max 1 (Z.to_nat mn)) in *.
      assert (Hc : Z.of_nat c = cmax) by (unfold c, cmax; clear - Hmn; lia).
      assert (Hc1 : (1 <= c <= 128)%nat) by (unfold c; clear - Hmn; lia).
      assert (Hcm : 1 <= cmax <= 128) by (unfold cmax; clear - Hmn; lia).
      set (r' := (Z.to_nat mx - c)%nat) in *.
      set (r := Z.to_nat (mx - cmax)).
      assert (Hr0 : r = Z.to_nat (mx - cmax)) by reflexivity.
      assert (Hr : r = if mx <? 0 then 0%nat else r') by (unfold r, r', c, cmax; clear - Hmn; destruct (Z.ltb_spec mx 0); lia).
      assert (Hr128 : (h + r <= 128)%nat).
      { unfold h. rewrite Hr. unfold r', c. clear - Hmn Hmx Hwf E00. destruct (Z.eqb_spec mn 0) as [Z0|Z0]; destruct (Z.ltb_spec mx 0); try lia. }
      assert (Hfit' : (b + h + c * n + (if (mx <? 0)%Z then 1 else 0) + r * (1 + n) <= N)%nat).
      { unfold h. rewrite Hr. clear - Hfit. destruct (mn =? 0); destruct (mx <? 0); lia. }
      assert (Hcn : ((c - 1) * n <= c * n)%nat) by (apply Nat.mul_le_mono_r; clear - Hc1; lia).
      clearbody c r' r. clear Emz.
      set (m0 := m ++ [repeat VUndef 128]).
      assert (L0 : length m0 = S (length m)) by (unfold m0; rewrite app_length; cbn [length]; lia).
      assert (F0 : forall j, (j < length m)%nat -> nth_error m0 j = nth_error m j) by (intros j Hj; unfold m0; apply nth_error_app_old; exact Hj).
      assert (T0 : tin m0) by (apply (tin_frame m); [exact T|]; intros j Hj; apply F0; lia).
      assert (Es0 : est m0 b cells) by (destruct Es as [A [B C]]; split; [rewrite F0 by lia; exact A|split; [rewrite F0 by lia; exact B|exact C]]).
      assert (HJ0 : jm_at m0 []) by (exists (repeat VUndef 128); split; [unfold m0; rewrite <- Lm; apply nth_error_app_new|rewrite repeat_length; reflexivity]).
      assert (Lbj0 : (bj < length m0)%nat) by lia.
      (* 1: the fork of an optional first copy *)
      destruct (mn0_ok m0 b cells VUndef VUndef VUndef VUndef VUndef fuel T0 Es0 HJ0 Lbj0 ltac:(intro Z0; unfold h in Hfit'; rewrite Z0 in Hfit'; cbn [Z.eqb] in Hfit'; clear - Hfit'; lia))
        as [m1 [cl1 [v6' [X1 [[Lm1 Q1] [E1 [HJ1 [G1 K1]]]]]]]].
      set (J1 := if mn =? 0 then [b] else []) in *. set (q1 := if mn =? 0 then S b else b) in *.
      assert (EJ1 : J1 = if mn =? 0 then [b] else []) by reflexivity.
      assert (Hq1 : q1 = (b + h)%nat) by (unfold q1, h; destruct (mn =? 0); lia).
      assert (LJ1 : length J1 = h) by (unfold J1, h; destruct (mn =? 0); reflexivity).
      clearbody J1 q1.
      assert (T1 : tin m1) by (apply (tin_frame m0); [exact T0|]; intros j Hj; apply Q1; clear - Hj Hhi1 Hhi2 Hbj; lia).
      (* 2: the mandatory copies *)
      destruct (loopA_ok c 0 m1 q1 cl1 VUndef bj (Z.of_nat (length J1)) v6' VUndef VUndef fuel ltac:(clear - Hc; lia) T1 E1 ltac:(clear - Hfit' Hq1; lia) ltac:(clear - Hc1 Hfuel; lia))
        as [m2 [vl2 [X2 [P2 [T2 [V2 _]]]]]].
      specialize (V2 ltac:(clear - Hc1; lia)). subst vl2. set (last := (q1 + (c - 1) * n)%nat) in *.
      pose proof P2 as [cl2 [E2 [G2 [K2 [Lm2 M2]]]]]. rewrite (pow_length e n e_len) in E2. set (q2 := (q1 + c * n)%nat) in *.
      (* 3: the loop-back fork of an unbounded repetition *)
      destruct (mxneg_ok m2 q2 cl2 last J1 (VInt cmax) v6' VUndef VUndef fuel T2 E2
                  ltac:(intro L; destruct (Z.ltb_spec mx 0); [clear - Hfit' Hq1; unfold q2; lia|clear - L H; lia])
                  ltac:(clear - Hfit' Hq1 Hcn; unfold last; lia)) as [m3 [cl3 [v7' [X3 [[Lm3 Q3] [Bj3 H3]]]]]].
      set (q3 := if mx <? 0 then S q2 else q2).
      assert (Hq3 : q3 = (q2 + (if (mx <? 0)%Z then 1 else 0))%nat) by (unfold q3; destruct (mx <? 0); lia).
      assert (E3 : est m3 q3 cl3) by (unfold q3; destruct (mx <? 0); [apply H3|destruct H3 as [-> ->]; exact E2]).
      assert (G3 : forall j, (j < 6 * q2)%nat -> nth_error cl3 j = nth_error cl2 j) by (destruct (mx <? 0); [apply H3|destruct H3 as [_ ->]; reflexivity]).
      clearbody q3.
      destruct (est_lt _ _ _ E1) as [B11 B12].
      assert (T3 : tin m3) by (apply (tin_frame m2); [exact T2|]; intros j Hj; apply Q3; clear - Hj Hhi1 Hhi2 Hbj; lia).
      assert (HJ2 : jm_at m2 J1) by (apply (jm_frame m1); [exact HJ1|]; apply M2; [clear - Lm1 Lbj0; lia|exact Nbj1|exact Nbj2]).
      assert (HJ3 : jm_at m3 J1) by (apply (jm_frame m2); [exact HJ2|exact Bj3]).
      (* 4: the optional copies *)
      destruct (loopB_ok r cmax m3 q3 cl3 J1 (VInt (Z.of_nat last)) v6' v7' VUndef fuel Hr0 Hcm T3 E3 HJ3
                  ltac:(clear - LJ1 Hr128; lia) ltac:(clear - Hfit' Hq1 Hq3; unfold q2 in *; lia) ltac:(clear - Lm3 Lm2 Lm1 Lbj0; lia) ltac:(clear - Hr128 Hfuel; lia))
        as [m4 [cl4 [vi4 [v84 [X4 [T4 [E4 [HJ4 [Lm4 [M4 [G4 K4]]]]]]]]]]].
      set (q4 := (q3 + r * (1 + n))%nat) in *. set (J4 := J1 ++ jr r q3) in *.
      assert (LJ4 : length J4 = (h + r)%nat) by (unfold J4; rewrite app_length, jr_length, LJ1; reflexivity).
      assert (Hq4 : (q4 <= N)%nat) by (clear - Hfit' Hq1 Hq3; unfold q4, q2; lia).
      assert (HN4 : Forall (fun q' => (q' < N)%nat) J4).
      { unfold J4. apply Forall_app. split.
        - rewrite EJ1. unfold h in Hfit'. destruct (Z.eqb_spec mn 0); [|constructor]. constructor; [clear - Hfit' Hc1; destruct n; nia|constructor].
        - rewrite Forall_forall. intros q' Hin. pose proof (jr_lt _ _ _ Hin). fold q4 in H. clear - H Hq4. lia. }
      (* 5: the pending second targets *)
      destruct (loopC_ok (length J4) 0 m4 q4 cl4 J4 (VInt (Z.of_nat last)) v6' v7' v84 fuel eq_refl E4 Hq4 HJ4 HN4
                  ltac:(clear - LJ4 Hr128; lia) ltac:(clear - LJ4 Hr128 Hfuel; lia))
        as [m5 [cl5 [X5 [[Lm5 Q5] [Bj5 [E5 [A5 J5]]]]]]].
      cbn [skipn] in A5, J5.
      (* the run *)
      exists (mkst (lc (VInt (Z.of_nat last)) bj (Z.of_nat (length J4)) (VInt (Z.of_nat (length J4))) v6' v7' v84) m5). split.
      { rewrite em_tail_eq. rewrite exec_seq, X1. rewrite exec_seq, exec_seq. rewrite exec_expr. unfold lc at 1. xcbn. fold (lc VUndef bj (Z.of_nat (length J1)) (VInt 0) v6' VUndef VUndef).
        change (VInt 0) with (VInt (Z.of_nat 0)) at 1. rewrite X2. rewrite exec_seq, X3. rewrite exec_seq, exec_seq.
        assert (Xi : exec call fuel em_LBinit (mkst (lc (VInt (Z.of_nat last)) bj (Z.of_nat (length J1)) (VInt cmax) v6' v7' VUndef) m3)
                     = ONormal (mkst (lc (VInt (Z.of_nat last)) bj (Z.of_nat (length J1)) (VInt cmax) v6' v7' VUndef) m3)).
        { destruct T3 as [_ R3]. unfold em_LBinit, lc. cbn [fn_body cf_rnode_emit]. xs. xld R3. xs. rewrite (wrap_I32_id mn) by lia. unfold cmax.
          destruct (Z.ltb_spec 1 mn); xs; [xld R3; xs; rewrite (wrap_I32_id mn) by lia; rewrite Z.max_r by lia; reflexivity|rewrite Z.max_l by lia; reflexivity]. }
        rewrite Xi, X4. rewrite exec_seq, exec_expr. unfold lc at 1. xcbn. replace (length J1 + r)%nat with (length J4) by (rewrite LJ4, LJ1; reflexivity).
        fold (lc (VInt (Z.of_nat last)) bj (Z.of_nat (length J4)) (VInt 0) v6' v7' v84). change (VInt 0) with (VInt (Z.of_nat 0)) at 1. rewrite X5. reflexivity. }
      cbn [memm]. clear X1 X2 X3 X4 X5.
      (* the facts *)
      fold h. replace (if (mn =? 0)%Z then (b + 1)%nat else b) with q1 by (rewrite Hq1; unfold h; destruct (mn =? 0); lia).
      replace (b + 1)%nat with (S b) by lia.
      assert (EQ4 : (b + (h + c * n + (if (mx <? 0)%Z then 1%nat else (r' * (1 + n))%nat)) = q4)%nat)
        by (unfold q4; rewrite Hq3; unfold q2; rewrite Hq1, Hr; clear; destruct (mx <? 0); lia).
      rewrite EQ4.
      destruct (est_lt _ _ _ E1) as [B21 B22].
      assert (InJ : forall q', In q' J4 -> (q' = b /\ mn = 0) \/ (q3 <= q')%nat).
      { unfold J4. intros q' Hin. apply in_app_or in Hin. destruct Hin as [Hin|Hin]; [|right; apply (jr_ge _ _ _ Hin)].
        rewrite EJ1 in Hin. destruct (Z.eqb_spec mn 0); [|destruct Hin]. destruct Hin as [<-|[]]. left. split; [reflexivity|assumption]. }
      assert (Hq12 : (q1 <= q2 <= q3)%nat) by (clear - Hq3; unfold q2; lia).
      assert (Hbq1 : (b <= q1)%nat) by (clear - Hq1; lia).
      assert (C54 : forall idx, (idx < 6 * q3)%nat -> (mn = 0 -> idx <> (6 * b + 4)%nat) -> nth_error cl5 idx = nth_error cl4 idx).
      { intros idx Hidx Hb. apply A5. intros q' Hin. destruct (InJ q' Hin) as [[-> Z0]|Hge]; [apply Hb; exact Z0|clear - Hge Hidx; lia]. }
      assert (Mem52 : forall j, (length m1 <= j < length m2)%nat -> nth_error m5 j = nth_error m2 j).
      { intros j Hj. rewrite Q5 by (clear - Hj Lm1 L0 B1 B2 Lm; lia). rewrite M4 by (clear - Hj Lm1 L0 B1 B2 Lm Lm3; lia). apply Q3; clear - Hj Lm1 L0 B1 B2 Lm; lia. }
      exists cl5. split.
      { (* the struct *)
        replace (b + length ((if (mn =? 0)%Z then [IFork (S b) q4] else []) ++ pow e n c q1 ++ (if (mx <? 0)%Z then [IFork (q1 + (c - 1) * n) (q1 + c * n + 1)] else opt e n r' (q1 + c * n))))%nat with q4; [exact E5|].
        rewrite !app_length, (pow_length e n e_len). rewrite <- EQ4. unfold h.
        destruct (mn =? 0); destruct (mx <? 0); cbn [length]; rewrite ?(opt_length e n e_len); lia. }
      split.
      { (* nothing below b *)
        intros j Hj. rewrite C54 by (clear - Hj Hq12 Hbq1; lia). rewrite G4 by (clear - Hj Hq12 Hbq1; lia). rewrite G3 by (clear - Hj Hq12 Hbq1; lia).
        rewrite G2 by (clear - Hj Hq12 Hbq1; lia). apply G1. exact Hj. }
      split.
      { (* the code *)
        apply code_ok_app; [|apply code_ok_app].
        - (* the fork in front *)
          destruct (Z.eqb_spec mn 0) as [Z0|Z0]; [|apply code_ok_nil]. apply code_ok_one. destruct (K1 Z0) as [K11 K12].
          assert (Hq1b : q1 = S b) by (rewrite Hq1; unfold h; try rewrite Z0; cbn [Z.eqb]; lia).
          split; [|split].
          + rewrite C54 by (clear - Hq12 Hq1b; lia). rewrite G4 by (clear - Hq12 Hq1b; lia). rewrite G3 by (clear - Hq12 Hq1b; lia). rewrite G2 by (clear - Hq1b; lia). exact K11.
          + rewrite C54 by (clear - Hq12 Hq1b; lia). rewrite G4 by (clear - Hq12 Hq1b; lia). rewrite G3 by (clear - Hq12 Hq1b; lia). rewrite G2 by (clear - Hq1b; lia). exact K12.
          + apply J5. unfold J4. apply in_or_app. left. rewrite EJ1. destruct (Z.eqb_spec mn 0); [left; reflexivity|contradiction].
        - (* the mandatory copies *)
          replace (b + length (if (mn =? 0)%Z then [IFork (S b) q4] else []))%nat with q1 by (rewrite Hq1; unfold h; destruct (mn =? 0); cbn [length]; lia).
          apply (code_ok_same m2 m5 cl2 cl5 (length m1) (length m2)); [exact K2|exact Mem52| |clear - Lm1 L0; lia|clear - Lm3 Lm4 Lm5; lia].
          intros j Hj. rewrite (pow_length e n e_len) in Hj. fold q2 in Hj.
          rewrite C54 by (try (clear - Hj Hq12; lia); intros Z0; rewrite Hq1 in Hj; unfold h in Hj; rewrite Z0 in Hj; cbn [Z.eqb] in Hj; clear - Hj; lia).
          rewrite G4 by (clear - Hj Hq12; lia). apply G3. clear - Hj. lia.
        - (* the tail *)
          replace (b + length (if (mn =? 0)%Z then [IFork (S b) q4] else []) + length (pow e n c q1))%nat with q2
            by (unfold q2; rewrite (pow_length e n e_len), Hq1; unfold h; destruct (mn =? 0); cbn [length]; lia).
          fold q2. destruct (Z.ltb_spec mx 0) as [Lx|Lx].
          + (* the loop-back fork *)
            destruct H3 as [_ [I3 _]]. apply code_ok_one. fold last.
            assert (Hq3' : q3 = S q2) by (rewrite Hq3; clear; lia). assert (Hr0' : r = 0%nat) by (rewrite Hr; reflexivity).
            replace (q2 + 1)%nat with (S q2) by lia.
            apply (icell_fork m3 m5 cl5 0 0). apply (icell_same m3 m3 cl3 cl5 0 0); [exact I3|reflexivity| |lia|lia].
            intros j Hj. rewrite C54 by (try (clear - Hj Hq3'; lia); intros Z0; rewrite Hq1 in Hq12; unfold h in Hq12; rewrite Z0 in Hq12; cbn [Z.eqb] in Hq12; clear - Hj Hq12; lia).
            apply G4. clear - Hj Hq3'. lia.
          + (* the optional copies *)
            assert (Hq3' : q3 = q2) by (rewrite Hq3; clear; lia). assert (Hr' : r' = r) by (rewrite Hr; reflexivity).
            rewrite Hr', <- Hq3'. rewrite optE_eq. fold q4.
            apply (code_ok_same m4 m5 cl5 cl5 (length m3) (length m4)); [|intros j Hj; apply Q5; clear - Hj Lm3 Lm2 Lm1 L0 B1 B2 Lm; lia|reflexivity|clear - Lm3 Lm2 Lm1 L0; lia|clear - Lm5; lia].
            apply K4.
            * intros idx Hidx Hn. apply A5. intros q' Hin. unfold J4 in Hin. apply in_app_or in Hin. destruct Hin as [Hin|Hin]; [|apply Hn; exact Hin].
              rewrite EJ1 in Hin. destruct (Z.eqb_spec mn 0) as [Z0|Z0]; [|destruct Hin]. destruct Hin as [<-|[]].
              rewrite Hq1 in Hq12. unfold h in Hq12. try rewrite Z0 in Hq12. cbn [Z.eqb] in Hq12. clear - Hidx Hq12. lia.
            * intros q' Hin. apply J5. unfold J4. apply in_or_app. right. exact Hin. }
      split; [clear - Lm5 Lm4 Lm3 Lm2 Lm1 L0; lia|].
      intros j Hj N1 N2. rewrite Q5 by (try assumption; clear - Hj Lm; lia). rewrite M4 by (try assumption; clear - Hj Lm Lm3 Lm2 Lm1 L0; lia).
      rewrite Q3 by (try assumption; clear - Hj Lm; lia). rewrite M2 by (try assumption; clear - Hj Lm1 L0; lia).
      rewrite Q1 by (try assumption; clear - Hj Lm; lia). apply F0. exact Hj.
    Qed.

    Lemma emit_rep_00 b : mn = 0 -> mx = 0 -> emit_rep e n mn mx b = [].
    Proof. intros E1 E2. unfold emit_rep. rewrite E1, E2. reflexivity. Qed.
    Lemma emit_rep_11 b : mn = 1 -> mx = 1 -> emit_rep e n mn mx b = e b /\ rep_len n mn mx = n.
    Proof. intros E1 E2. unfold emit_rep, rep_len. rewrite E1, E2. split; reflexivity. Qed.

    Theorem emit_body_ok (m : mem) b cells : length m = bj -> tin m -> est m b cells -> (b + rep_len n mn mx <= N)%nat ->
      exists m', callf cprog fuel (S d) F_rnode_emit [VPtr bt 0; VPtr bre 0] m = Ok (VUndef, m') /\ emit_post m cells b (emit_rep e n mn mx b) m'.
    Proof.
      intros Lm T Es Hfit. destruct (est_lt _ _ _ Es) as [B1 B2].
      set (m0 := m ++ [repeat VUndef 128]).
      assert (L0 : length m0 = S (length m)) by (unfold m0; rewrite app_length; cbn [length]; lia).
      assert (F0 : forall j, (j < length m)%nat -> nth_error m0 j = nth_error m j) by (intros j Hj; unfold m0; apply nth_error_app_old; exact Hj).
      assert (T0 : tin m0) by (apply (tin_frame m); [exact T|]; intros j Hj; apply F0; lia).
      assert (Es0 : est m0 b cells) by (destruct Es as [A [B C]]; split; [rewrite F0 by lia; exact A|split; [rewrite F0 by lia; exact B|exact C]]).
      assert (HJ0 : jm_at m0 []) by (exists (repeat VUndef 128); split; [unfold m0; rewrite <- Lm; apply nth_error_app_new|rewrite repeat_length; reflexivity]).
      assert (Lbj0 : (bj < length m0)%nat) by lia.
      pose proof T0 as [_ R0].
      enter F_rnode_emit cf_rnode_emit.
      match goal with |- context [SSeq (SIf (EAndAlso _ _) (SSeq _ (SReturn None)) SSkip) ?tl] => change tl with em_tail; remember em_tail as tail eqn:Etail end.
      xs. rewrite malloc_ok by lia. xs. change (Z.to_nat 128) with 128%nat. fold m0. rewrite Lm.
      xld R0. xs. rewrite (wrap_I32_id mn) by lia.
      (* the general case: everything behind the two early returns *)
      assert (Gen : ((mn =? 0) && (mx =? 0)) = false -> ((mn =? 1) && (mx =? 1)) = false ->
        exists m', match exec call fuel em_tail (mkst (lc VUndef bj 0 VUndef VUndef VUndef VUndef) m0) with
                   | OReturn v st => Ok (v, memm st) | ONormal st => Ok (VUndef, memm st) | OErr x => Err x | _ => Err EShape end = Ok (VUndef, m') /\
          emit_post m cells b (emit_rep e n mn mx b) m').
      { intros E00 E11. destruct (emit_general m b cells Lm T Es Hfit E00 E11) as [st' [X P]].
        fold m0 in X. rewrite X. exists (memm st'). split; [reflexivity|exact P]. }
      destruct (Z.eqb_spec mn 0) as [E0|E0]; cbn [andb b2z]; xs.
      { xld R0. xs. rewrite (wrap_I32_id mx) by lia. destruct (Z.eqb_spec mx 0) as [F0'|F0']; cbn [b2z]; xs.
        - (* {0,0}: nothing *)
          exists m0. split; [reflexivity|]. rewrite (emit_rep_00 b E0 F0').
          apply (emit_post_weaken m m0); [lia|exact F0|apply emit_post_nil; exact Es0].
        - xld R0. xs. rewrite (wrap_I32_id mn) by lia. destruct (Z.eqb_spec mn 1); [lia|]. cbn [andb b2z]. xs.
          subst tail. unfold lc in Gen. apply Gen; [|reflexivity]. destruct (Z.eqb_spec mx 0); [contradiction|reflexivity]. }
      xld R0. xs. rewrite (wrap_I32_id mn) by lia.
      destruct (Z.eqb_spec mn 1) as [E1|E1]; cbn [andb b2z] in *; xs.
      2:{ subst tail. unfold lc in Gen. apply Gen; reflexivity. }
      xld R0. xs. rewrite (wrap_I32_id mx) by lia. destruct (Z.eqb_spec mx 1) as [F1|F1]; cbn [b2z] in *; xs.
      2:{ subst tail. unfold lc in Gen. apply Gen; [reflexivity|]. destruct (Z.eqb_spec mx 1); [contradiction|reflexivity]. }
      (* {1,1}: the unrepeated code *)
      destruct (emit_rep_11 b E1 F1) as [R11 L11]. assert (Hn : (b + n <= N)%nat) by (rewrite L11 in Hfit; exact Hfit).
      destruct (E m0 b cells T0 Es0 Hn) as [m1 [C1 P1]]. rewrite C1. xs.
      exists m1. split; [reflexivity|]. rewrite R11. apply (emit_post_weaken m m0); [lia|exact F0|exact P1].
    Qed.
  End RepLoops.
End Emit.
