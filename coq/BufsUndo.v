(* BufsUndo.v -- C20 x C04: the abstract line-buffer payload of the buffer-table model (BufsDefs.lops) instantiated
   with the concrete edit-log model of lbuf.c (UndoDefs.lbuf: text, log, undo cursor, useq counters), and the corollary
   "switching never changes any buffer's undo stack": whatever command lines are executed, a buffer that is not current
   keeps its text, its whole edit log, its undo cursor, its saved-marker and therefore its abstract undo stack
   (UndoProps.R: past / current / future of the keyed stack machine of C04) and its dirty flag; only the command counter
   useq grows.  Not part of the obligations of Properties_C20.v (it depends on another group's files); compiled and
   reported by tools/props/c20.py. *)
From Coq Require Import List ZArith NArith Bool Lia Arith.
From NV Require Import GenConsts UndoDefs UndoProps.
From NV Require Import BufsDefs BufsProps BufsWf BufsReach.
Import ListNotations.

Definition nl_join (c : content) : list N := concat (map (fun l => l ++ [NL]) c).
Definition Uop : Type := (list UndoDefs.op * view)%type.     (* the lbuf calls of one command, and the view it leaves *)

Definition undo_ops : lops UndoDefs.lbuf Uop unit :=
  mklops UndoDefs.lbuf_make UndoDefs.lbuf_modified
    (fun c l => UndoDefs.lbuf_edit l (Some (nl_join c)) 0 (length (ln l)))      (* lbuf_rd(lb, fd, 0, lbuf_len(lb)) *)
    (fun clear l => UndoDefs.lbuf_saved l clear)
    (fun l => Z.of_nat (length (ln l)))
    (fun l => map (@removelast N) (ln l))
    (fun o l v => ((run_ops l (fst o), snd o), [])).

Definition restamp (sp : ustack) (n : Z) : ustack :=
  {| past := past sp; cur := cur sp; future := future sp; cmdno := n |}.

Lemma bumped_fields l l' : bumped undo_ops l l' ->
  ln l' = ln l /\ hist l' = hist l /\ hist_u l' = hist_u l /\ hist_sz l' = hist_sz l /\
  useq_zero l' = useq_zero l /\ useq_last l' = useq_last l /\ (useq l <= useq l')%Z.
Proof.
  intros [k ->]. induction k as [|k IH].
  - cbn. repeat split; try reflexivity; lia.
  - change (Nat.iter (S k) (fun x => fst (lb_modified undo_ops x)) l) with (UndoDefs.bump (Nat.iter k (fun x => fst (lb_modified undo_ops x)) l)).
    set (x := Nat.iter k (fun x => fst (lb_modified undo_ops x)) l) in *. destruct IH as (A & B & C & D & E & F & G).
    cbn [UndoDefs.bump ln hist hist_u hist_sz useq useq_zero useq_last]. repeat split; try assumption. lia.
Qed.

Theorem stack_kept l l' sp : bumped undo_ops l l' -> R l sp ->
  R l' (restamp sp (useq l')) /\ modified_flag l' = modified_flag l.
Proof.
  intros Hb HR. destruct (bumped_fields l l' Hb) as (A & B & C & D & E & F & G).
  destruct l as [ln0 h0 u0 sz0 q0 z0 la0], l' as [ln1 h1 u1 sz1 q1 z1 la1]. cbn in A, B, C, D, E, F, G. subst.
  split; [|reflexivity].
  destruct HR as (g0 & I & Bn & Cm & Cu & P & Fu). exists g0. cbn in *. repeat split; try assumption; try (destruct I as (I1 & I2 & I3 & I4); assumption).
Qed.

Notation ust := (st UndoDefs.lbuf).
Notation ubuf := (buf UndoDefs.lbuf).

Theorem switching_keeps_undo_stacks : forall (ls : list (list (BufsDefs.cmd Uop))) (s : ust) (j : nat) (b : ubuf),
  length (bufs s) = NB -> (1 <= j)%nat -> nth_error (bufs s) j = Some (Some b) -> safe_lines undo_ops s ls ->
  forall sp, R (b_lb b) sp ->
  (exists j' b', (1 <= j')%nat /\ nth_error (bufs (run_lines undo_ops s ls)) j' = Some (Some b') /\
     b_path b' = b_path b /\ b_view b' = b_view b /\ ln (b_lb b') = ln (b_lb b) /\ hist (b_lb b') = hist (b_lb b) /\ hist_u (b_lb b') = hist_u (b_lb b) /\
     R (b_lb b') (restamp sp (useq (b_lb b'))) /\ modified_flag (b_lb b') = modified_flag (b_lb b))
  \/ (exists pre l1 c l2 post b', ls = pre ++ (l1 ++ c :: l2) :: post /\
        slot0 (fst (ex_exec undo_ops (fst (exec_all undo_ops (run_lines undo_ops s pre) l1)) c)) = Some b' /\
        xv (fst (ex_exec undo_ops (fst (exec_all undo_ops (run_lines undo_ops s pre) l1)) c)) = b_view b /\
        b_path b' = b_path b /\ ln (b_lb b') = ln (b_lb b) /\ hist (b_lb b') = hist (b_lb b) /\ hist_u (b_lb b') = hist_u (b_lb b) /\
        R (b_lb b') (restamp sp (useq (b_lb b'))) /\ modified_flag (b_lb b') = modified_flag (b_lb b)).
Proof.
  intros ls s j b Hl Hj Hb Hs sp HR.
  destruct (isolation_lines undo_ops ls s j b Hl Hj Hb Hs) as [(j' & b' & A & B & (P & V & M & Bu))|(pre & l1 & c & l2 & post & b' & A & B & (P & V & M & Bu) & X)].
  - left. exists j', b'. destruct (stack_kept _ _ sp Bu HR) as [S1 S2]. destruct (bumped_fields _ _ Bu) as (F1 & F2 & F3 & _).
    repeat split; assumption.
  - right. exists pre, l1, c, l2, post, b'. destruct (stack_kept _ _ sp Bu HR) as [S1 S2]. destruct (bumped_fields _ _ Bu) as (F1 & F2 & F3 & _).
    repeat split; assumption.
Qed.
Print Assumptions switching_keeps_undo_stacks.

(* the hypotheses are satisfiable: a freshly loaded buffer refines the initial stack *)
Example undo_instance_nonvacuous : exists sp, R (lbuf_loaded [[97%N; NL]] 1) sp.
Proof.
  exists (ustack_init [[97%N; NL]] 1). exists [[97%N; NL]]. unfold Inv, bnd. cbn. repeat split; auto.
  constructor; [reflexivity|constructor].
Qed.

(* ------------------------------------------------------------------------------------------------------------------- *)
(* Undo steps never span a buffer switch, for the edit-log model of lbuf.c (UndoDefs.lbuf): the predicates of
   BufsSteps.step_laws instantiated with the real log (records with seq, undo cursor, useq), and -- through the refinement R
   of C04 -- the corollary: a buffer whose step is closed takes an effective change, any further changes, and ONE undo:
   text and dirty flag are what they were before. *)
From NV Require Import BufsSteps.
Local Open Scope nat_scope.

Definition ulb_ok (l : UndoDefs.lbuf) : Prop :=
  hist_u l <= length (hist l) /\ Forall (fun o => (seq o <= useq l)%Z) (hist l).
Definition ulb_closed (l : UndoDefs.lbuf) : Prop :=
  hist_u l <= length (hist l) /\ Forall (fun o => (seq o < useq l)%Z) (hist l).

Lemma Forall_firstn_u {A} (P : A -> Prop) (l : list A) : forall n, Forall P l -> Forall P (firstn n l).
Proof. induction l; intros [|n] H; cbn; auto. inversion H; subst. constructor; auto. Qed.

Lemma ulb_edit_ok l buf b e : ulb_ok l -> ulb_ok (UndoDefs.lbuf_edit l buf b e).
Proof.
  intros [A B]. unfold UndoDefs.lbuf_edit. destruct (_ && _); [split; auto|].
  unfold lbuf_replace, set_ln, lbuf_opt, ulb_ok. cbn [hist hist_u useq]. split.
  - rewrite app_length, firstn_length. cbn. lia.
  - apply Forall_app. split; [apply Forall_firstn_u, B|]. constructor; [cbn; lia|constructor].
Qed.
Lemma ulb_undo_loop_ok q : forall fuel l, ulb_ok l -> ulb_ok (UndoDefs.undo_loop fuel q l).
Proof.
  induction fuel as [|f IH]; intros l H; cbn [UndoDefs.undo_loop]; auto. destruct (_ && _); auto. apply IH.
  destruct H as [A B]. unfold undo1, lbuf_replace, set_ln, set_hu, ulb_ok. cbn [hist hist_u useq]. split; auto. lia.
Qed.
Lemma ulb_redo_loop_ok q : forall fuel l, ulb_ok l -> ulb_ok (UndoDefs.redo_loop fuel q l).
Proof.
  induction fuel as [|f IH]; intros l H; cbn [UndoDefs.redo_loop]; auto. destruct (Nat.ltb (hist_u l) (length (hist l))) eqn:E; cbn [andb]; auto.
  destruct (Z.eqb _ _); auto. apply IH. apply Nat.ltb_lt in E.
  destruct H as [A B]. unfold redo1, lbuf_replace, set_ln, set_hu, ulb_ok. cbn [hist hist_u useq]. split; auto.
Qed.
Lemma ulb_run_op_ok l o : ulb_ok l -> ulb_ok (fst (run_op l o)).
Proof.
  intro H. destruct o; cbn [run_op fst].
  - apply ulb_edit_ok, H.
  - destruct H as [A B]. split; cbn; auto. eapply Forall_impl; [|exact B]. cbn. intros; lia.
  - unfold lbuf_undo. destruct (Nat.eqb (hist_u l) 0); cbn [fst]; auto. apply ulb_undo_loop_ok, H.
  - unfold lbuf_redo. destruct (Nat.eqb (hist_u l) (length (hist l))); cbn [fst]; auto. apply ulb_redo_loop_ok, H.
Qed.
Lemma ulb_run_ops_ok : forall ops l, ulb_ok l -> ulb_ok (run_ops l ops).
Proof. induction ops as [|o r IH]; intros l H; cbn [run_ops]; auto. apply IH, ulb_run_op_ok, H. Qed.

Theorem undo_step_laws : step_laws undo_ops ulb_ok ulb_closed.
Proof.
  constructor.
  - intros l [A B]. split; auto. eapply Forall_impl; [|exact B]. cbn. intros; lia.
  - split; cbn; auto.
  - intros l [A B]. split; cbn; auto. eapply Forall_impl; [|exact B]. cbn. intros; lia.
  - intros c l H. cbn. apply ulb_edit_ok, H.
  - intros cl l [A B]. cbn. unfold UndoDefs.lbuf_saved. destruct cl; split; cbn; auto. eapply Forall_impl; [|exact B]. cbn. intros; lia.
  - intros o l v H. cbn. apply ulb_run_ops_ok, H.
Qed.
Print Assumptions undo_step_laws.

(* every moment of every session over the edit-log model: no open step in the background *)
Theorem undo_no_open_step_in_background files argv (ls : list (list (BufsDefs.cmd Uop))) (cs : list (BufsDefs.cmd Uop)) j (b : ubuf) :
  let s := fst (exec_all undo_ops (run_lines undo_ops (fst (ex_init undo_ops files argv)) ls) cs) in
  1 <= j -> nth_error (bufs s) j = Some (Some b) -> ulb_closed (b_lb b).
Proof.
  cbn zeta. intros Hj E.
  exact (background_closed ulb_ok ulb_closed _ j b (steps_reachable undo_ops ulb_ok ulb_closed undo_step_laws files argv ls cs) Hj E).
Qed.
Print Assumptions undo_no_open_step_in_background.

(* the stack machine of C04 *)
Definition sp_closed (sp : ustack) : Prop := match past sp with (q, _) :: _ => (q < cmdno sp)%Z | [] => True end.
Definition is_edit (o : op) : Prop := match o with Edit _ _ _ => True | _ => False end.

Lemma spec_ops_app a : forall sp b, spec_ops sp (a ++ b) = spec_ops (spec_ops sp a) b.
Proof. induction a as [|o a IH]; intros sp b; cbn [spec_ops app]; auto. Qed.
Lemma run_ops_app a : forall l b, run_ops l (a ++ b) = run_ops (run_ops l a) b.
Proof. induction a as [|o a IH]; intros l b; cbn [run_ops app]; auto. Qed.

Lemma spec_first sp buf b e : sp_closed sp -> edit_noop (cur sp) buf b e = false ->
  let sp1 := fst (spec_op sp (Edit buf b e)) in past sp1 = (cmdno sp, cur sp) :: past sp /\ cmdno sp1 = cmdno sp.
Proof.
  intros C N. cbn [spec_op]. rewrite N. cbn. split; auto. unfold push_past, sp_closed in *. destruct (past sp) as [|[q t] r]; auto.
  destruct (Z.eqb_spec q (cmdno sp)); [lia|reflexivity].
Qed.
Lemma spec_more p0 q0 t0 : forall es, Forall is_edit es -> forall sp, past sp = (q0, t0) :: p0 -> cmdno sp = q0 ->
  past (spec_ops sp es) = (q0, t0) :: p0 /\ cmdno (spec_ops sp es) = q0.
Proof.
  induction es as [|o es IH]; intros F sp P C; cbn [spec_ops]; auto. inversion F; subst. destruct o; try contradiction.
  apply IH; auto.
  - cbn [spec_op]. destruct (edit_noop _ _ _ _); cbn [fst past]; auto. unfold push_past. rewrite P, Z.eqb_refl. reflexivity.
  - cbn [spec_op]. destruct (edit_noop _ _ _ _); cbn; auto.
Qed.
Theorem spec_one_undo sp buf b e es : sp_closed sp -> edit_noop (cur sp) buf b e = false -> Forall is_edit es ->
  let sp' := spec_ops sp (Edit buf b e :: es ++ [Undo]) in cur sp' = cur sp /\ past sp' = past sp /\ cmdno sp' = cmdno sp.
Proof.
  intros C N F. cbn zeta.
  change (spec_ops sp (Edit buf b e :: es ++ [Undo])) with (spec_ops (fst (spec_op sp (Edit buf b e))) (es ++ [Undo])).
  pose proof (spec_first sp buf b e C N) as X. cbn zeta in X. destruct X as [P1 C1].
  set (sp1 := fst (spec_op sp (Edit buf b e))) in *. clearbody sp1.
  rewrite spec_ops_app. destruct (spec_more (past sp) (cmdno sp) (cur sp) es F sp1 P1 C1) as [P2 C2].
  set (sp2 := spec_ops sp1 es) in *. clearbody sp2.
  cbn [spec_ops spec_op]. rewrite P2. cbn. auto.
Qed.

Lemma R_closed l sp : R l sp -> ulb_closed l -> sp_closed sp.
Proof.
  intros (g0 & I & Bn & Cm & Cu & P & Fu) [A B]. unfold sp_closed. rewrite P. destruct (hist_u l) as [|u] eqn:E; [exact Logic.I|].
  destruct (pastl_top (hist l) g0 (S u)) as (t & rest & T); [lia|]. rewrite T. rewrite Cm. replace (S u - 1) with u by lia.
  unfold seq_at. rewrite Forall_forall in B. apply B. apply nth_In. lia.
Qed.
Lemma R_seq l sp : R l sp -> lbuf_seq l = match past sp with (q, _) :: _ => q | [] => useq_last l end.
Proof.
  intros (g0 & I & Bn & Cm & Cu & P & Fu). unfold lbuf_seq. rewrite P. destruct (hist_u l) as [|u] eqn:E; [reflexivity|].
  destruct (pastl_top (hist l) g0 (S u)) as (t & rest & T); [lia|]. rewrite T. replace (S u - 1) with u by lia. reflexivity.
Qed.
Lemma undo_loop_ctrs q : forall fuel l, useq_zero (UndoDefs.undo_loop fuel q l) = useq_zero l /\ useq_last (UndoDefs.undo_loop fuel q l) = useq_last l.
Proof.
  induction fuel as [|f IH]; intro l; cbn [UndoDefs.undo_loop]; auto. destruct (_ && _); auto. destruct (IH (undo1 l)) as [A B]. rewrite A, B. auto.
Qed.
Lemma edit_undo_ctrs l o : is_edit o \/ o = Undo -> useq_zero (fst (run_op l o)) = useq_zero l /\ useq_last (fst (run_op l o)) = useq_last l.
Proof.
  intros [H| ->].
  - destruct o; try contradiction. cbn [run_op fst]. unfold UndoDefs.lbuf_edit. destruct (_ && _); auto.
  - cbn [run_op]. unfold lbuf_undo. destruct (Nat.eqb (hist_u l) 0); cbn [fst]; auto. apply undo_loop_ctrs.
Qed.
Lemma edit_undo_ops_ctrs : forall ops l, Forall (fun o => is_edit o \/ o = Undo) ops ->
  useq_zero (run_ops l ops) = useq_zero l /\ useq_last (run_ops l ops) = useq_last l.
Proof.
  induction ops as [|o r IH]; intros l F; cbn [run_ops]; auto. inversion F; subst.
  destruct (IH (fst (run_op l o)) H2) as [A B]. destruct (edit_undo_ctrs l o H1) as [C D]. rewrite A, B. auto.
Qed.

(* a buffer whose step is closed (any background buffer, or the one `:b !` enters): an effective change, any further
   changes, ONE undo -- the text and the dirty flag are the ones before *)
Theorem ulb_one_undo l sp buf b e es : R l sp -> ulb_closed l -> edit_noop (ln l) buf b e = false -> Forall is_edit es ->
  let l' := run_ops l (Edit buf b e :: es ++ [Undo]) in
  ln l' = ln l /\ modified_flag l' = modified_flag l /\ lbuf_seq l' = lbuf_seq l.
Proof.
  intros HR Hc N F. cbn zeta. set (ops := Edit buf b e :: es ++ [Undo]).
  pose proof (R_ops l sp ops HR) as HR'. pose proof (R_closed l sp HR Hc) as Sc.
  rewrite <- (R_cur l sp HR) in N. destruct (spec_one_undo sp buf b e es Sc N F) as (S1 & S2 & S3). fold ops in S1, S2, S3.
  assert (Fo : Forall (fun o => is_edit o \/ o = Undo) ops).
  { unfold ops. constructor; [left; exact I|]. apply Forall_app. split; [eapply Forall_impl; [|exact F]; cbn; auto|]. constructor; auto. }
  destruct (edit_undo_ops_ctrs ops l Fo) as [Z1 Z2].
  assert (Sq : lbuf_seq (run_ops l ops) = lbuf_seq l). { rewrite (R_seq _ _ HR'), (R_seq _ _ HR), S2, Z2. reflexivity. }
  split; [rewrite <- (R_cur _ _ HR'), <- (R_cur _ _ HR); exact S1|]. split; [|exact Sq]. unfold modified_flag. rewrite Sq, Z1. reflexivity.
Qed.
Print Assumptions ulb_one_undo.
