(* BufsUndo.v -- C20 x C04: the abstract line-buffer payload of the buffer-table model (BufsDefs.lops) instantiated
   with the concrete edit-log model of lbuf.c (UndoDefs.lbuf: text, log, undo cursor, useq counters), and the corollary
   "switching never changes any buffer's undo stack": whatever command lines are executed, a buffer that is not current
   keeps its text, its whole edit log, its undo cursor, its saved-marker and therefore its abstract undo stack
   (UndoProps.R: past / current / future of the keyed stack machine of C04) and its dirty flag; only the command counter
   useq grows.  Not part of the obligations of Properties_C20.v (it depends on another group's files); compiled and
   reported by tools/props/c20.py. *)
From Coq Require Import List ZArith NArith Bool Lia Arith.
From NV Require Import GenConsts UndoDefs UndoProps.
From NV Require Import BufsDefs BufsProps BufsWf BufsReach.
Import ListNotations.

Definition nl_join (c : content) : list N := concat (map (fun l => l ++ [NL]) c).
Definition Uop : Type := (list UndoDefs.op * view)%type.     (* the lbuf calls of one command, and the view it leaves *)

Definition undo_ops : lops UndoDefs.lbuf Uop unit :=
  mklops UndoDefs.lbuf_make UndoDefs.lbuf_modified
    (fun c l => UndoDefs.lbuf_edit l (Some (nl_join c)) 0 (length (ln l)))      (* lbuf_rd(lb, fd, 0, lbuf_len(lb)) *)
    (fun clear l => UndoDefs.lbuf_saved l clear)
    (fun l => Z.of_nat (length (ln l)))
    (fun l => map (@removelast N) (ln l))
    (fun o l v => ((run_ops l (fst o), snd o), [])).

Definition restamp (sp : ustack) (n : Z) : ustack :=
  {| past := past sp; cur := cur sp; future := future sp; cmdno := n |}.

Lemma bumped_fields l l' : bumped undo_ops l l' ->
  ln l' = ln l /\ hist l' = hist l /\ hist_u l' = hist_u l /\ hist_sz l' = hist_sz l /\
  useq_zero l' = useq_zero l /\ useq_last l' = useq_last l /\ (useq l <= useq l')%Z.
Proof.
  intros [k ->]. induction k as [|k IH].
  - cbn. repeat split; try reflexivity; lia.
  - change (Nat.iter (S k) (fun x => fst (lb_modified undo_ops x)) l) with (UndoDefs.bump (Nat.iter k (fun x => fst (lb_modified undo_ops x)) l)).
    set (x := Nat.iter k (fun x => fst (lb_modified undo_ops x)) l) in *. destruct IH as (A & B & C & D & E & F & G).
    cbn [UndoDefs.bump ln hist hist_u hist_sz useq useq_zero useq_last]. repeat split; try assumption. lia.
Qed.

Theorem stack_kept l l' sp : bumped undo_ops l l' -> R l sp ->
  R l' (restamp sp (useq l')) /\ modified_flag l' = modified_flag l.
Proof.
  intros Hb HR. destruct (bumped_fields l l' Hb) as (A & B & C & D & E & F & G).
  destruct l as [ln0 h0 u0 sz0 q0 z0 la0], l' as [ln1 h1 u1 sz1 q1 z1 la1]. cbn in A, B, C, D, E, F, G. subst.
  split; [|reflexivity].
  destruct HR as (g0 & I & Bn & Cm & Cu & P & Fu). exists g0. cbn in *. repeat split; try assumption; try (destruct I as (I1 & I2 & I3 & I4); assumption).
Qed.

Notation ust := (st UndoDefs.lbuf).
Notation ubuf := (buf UndoDefs.lbuf).

Theorem switching_keeps_undo_stacks : forall (ls : list (list (BufsDefs.cmd Uop))) (s : ust) (j : nat) (b : ubuf),
  length (bufs s) = NB -> (1 <= j)%nat -> nth_error (bufs s) j = Some (Some b) -> safe_lines undo_ops s ls ->
  forall sp, R (b_lb b) sp ->
  (exists j' b', (1 <= j')%nat /\ nth_error (bufs (run_lines undo_ops s ls)) j' = Some (Some b') /\
     b_path b' = b_path b /\ b_view b' = b_view b /\ ln (b_lb b') = ln (b_lb b) /\ hist (b_lb b') = hist (b_lb b) /\ hist_u (b_lb b') = hist_u (b_lb b) /\
     R (b_lb b') (restamp sp (useq (b_lb b'))) /\ modified_flag (b_lb b') = modified_flag (b_lb b))
  \/ (exists pre l1 c l2 post b', ls = pre ++ (l1 ++ c :: l2) :: post /\
        slot0 (fst (ex_exec undo_ops (fst (exec_all undo_ops (run_lines undo_ops s pre) l1)) c)) = Some b' /\
        xv (fst (ex_exec undo_ops (fst (exec_all undo_ops (run_lines undo_ops s pre) l1)) c)) = b_view b /\
        b_path b' = b_path b /\ ln (b_lb b') = ln (b_lb b) /\ hist (b_lb b') = hist (b_lb b) /\ hist_u (b_lb b') = hist_u (b_lb b) /\
        R (b_lb b') (restamp sp (useq (b_lb b'))) /\ modified_flag (b_lb b') = modified_flag (b_lb b)).
Proof.
  intros ls s j b Hl Hj Hb Hs sp HR.
  destruct (isolation_lines undo_ops ls s j b Hl Hj Hb Hs) as [(j' & b' & A & B & (P & V & M & Bu))|(pre & l1 & c & l2 & post & b' & A & B & (P & V & M & Bu) & X)].
  - left. exists j', b'. destruct (stack_kept _ _ sp Bu HR) as [S1 S2]. destruct (bumped_fields _ _ Bu) as (F1 & F2 & F3 & _).
    repeat split; assumption.
  - right. exists pre, l1, c, l2, post, b'. destruct (stack_kept _ _ sp Bu HR) as [S1 S2]. destruct (bumped_fields _ _ Bu) as (F1 & F2 & F3 & _).
    repeat split; assumption.
Qed.
Print Assumptions switching_keeps_undo_stacks.

(* the hypotheses are satisfiable: a freshly loaded buffer refines the initial stack *)
Example undo_instance_nonvacuous : exists sp, R (lbuf_loaded [[97%N; NL]] 1) sp.
Proof.
  exists (ustack_init [[97%N; NL]] 1). exists [[97%N; NL]]. unfold Inv, bnd. cbn. repeat split; auto.
  constructor; [reflexivity|constructor].
Qed.
