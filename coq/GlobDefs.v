(* GlobDefs.v -- C15: the loop of ec_glob instrumented with the trace of visits, and the vocabulary of
   the visit theorem (marked identities, subsequence, clean_below, good_exec).  No proofs. *)
From Coq Require Import List NArith ZArith Bool.
From NV Require Import Bytes ExDefs.
Import ListNotations.
Local Open Scope Z_scope.

Inductive sub {A} : list A -> list A -> Prop :=
| sub_nil l : sub [] l
| sub_skip x l1 l2 : sub l1 l2 -> sub l1 (x :: l2)
| sub_take x l1 l2 : sub l1 l2 -> sub (x :: l1) (x :: l2).

Definition dline : line := mkline 0 0%N [].

(* identities of the lines still marked at depth dep, in buffer order *)
Definition mids (dep : N) (L : list line) : list nat := map lid (filter (glob_marked dep) L).
Definition clean_below (dep : N) (i : nat) (L : list line) : Prop :=
  forall j, (j < i)%nat -> glob_marked dep (nth j L dline) = false.

Section G.
Variable rfind : bytes -> bytes -> bool -> option (nat * nat).
Variable exec : bytes -> st -> st * Z.

(* glob_loop of ExDefs.v, additionally returning (identity of the visited line, did the command list run) per iteration *)
Fixpoint glob_loop_vis (fuel : nat) (i : nat) (pat body : bytes) (not : bool) (dep : N) (s : st) (vis : list (nat * bool))
  : st * list (nat * bool) :=
  match fuel with
  | O => (flag s F_OOF, vis)
  | S f =>
    match nth_error (lns (lb s)) i with
    | None => (s, vis)
    | Some x =>
      let hit := match rfind pat (ltxt x) false with Some _ => true | None => false end in
      let run := Bool.eqb (negb hit) not in
      let '(s1, r) := if run then exec body (set_xrow s (Z.of_nat i)) else (s, 0) in
      if run && negb (r =? 0) then (s1, vis ++ [(lid x, run)])
      else
        let i1 := if run then Z.to_nat (Z.min (Z.of_nat i) (xrow s1)) else i in
        let '(j, l) := glob_scan i1 dep (lb s1) in
        glob_loop_vis f j pat body not dep (set_lb s1 l) (vis ++ [(lid x, run)])
    end
  end.

(* what lbuf_replace guarantees of any command list (marks only travel with surviving lines, new lines are
   born unmarked) and tracks_low: no still-marked line ends up above min(i, xrow') *)
Definition good_exec (dep : N) : Prop := forall body s s' r,
  exec body s = (s', r) -> 0 <= xrow s ->
  clean_below dep (S (Z.to_nat (xrow s))) (lns (lb s)) ->
  sub (mids dep (lns (lb s'))) (mids dep (lns (lb s))) /\
  clean_below dep (Z.to_nat (Z.min (xrow s) (xrow s'))) (lns (lb s')).
End G.
