(* GlobDefs.v -- C15: the loop of ec_glob instrumented with the trace of visits, and the vocabulary of
   the visit theorem (marked identities, subsequence, clean_below, good_exec).  No proofs. *)
From Coq Require Import List NArith ZArith Bool.
From NV Require Import Bytes ExDefs.
Import ListNotations.
Local Open Scope Z_scope.

Inductive sub {A} : list A -> list A -> Prop :=
| sub_nil l : sub [] l
| sub_skip x l1 l2 : sub l1 l2 -> sub l1 (x :: l2)
| sub_take x l1 l2 : sub l1 l2 -> sub (x :: l1) (x :: l2).

Definition dline : line := mkline 0 0%N [].

(* identities of the lines still marked at depth dep, in buffer order *)
Definition mids (dep : N) (L : list line) : list nat := map lid (filter (glob_marked dep) L).
Definition clean_below (dep : N) (i : nat) (L : list line) : Prop :=
  forall j, (j < i)%nat -> glob_marked dep (nth j L dline) = false.

Section G.
Variable rfind : bytes -> bytes -> bool -> option (nat * nat).
Variable exec : bytes -> st -> st * Z.

(* glob_loop of ExDefs.v, additionally returning (identity of the visited line, did the command list run) per iteration *)
Fixpoint glob_loop_vis (fuel : nat) (i : nat) (pat body : bytes) (not : bool) (dep : N) (s : st) (vis : list (nat * bool))
  : st * list (nat * bool) :=
  match fuel with
  | O => (flag s F_OOF, vis)
  | S f =>
    match nth_error (lns (lb s)) i with
    | None => (s, vis)
    | Some x =>
      let hit := match rfind pat (ltxt x) false with Some _ => true | None => false end in
      let run := Bool.eqb (negb hit) not in
      let '(s1, r) := if run then exec body (set_xrow s (Z.of_nat i)) else (s, 0) in
      if run && negb (r =? 0) then (s1, vis ++ [(lid x, run)])
      else
        let i1 := if run then Z.to_nat (Z.min (Z.of_nat i) (xrow s1)) else i in
        let '(j, l) := glob_scan i1 dep (lb s1) in
        glob_loop_vis f j pat body not dep (set_lb s1 l) (vis ++ [(lid x, run)])
    end
  end.

(* the same loop, additionally returning HOW it ended: 0 = the scan ran off the end of the buffer (the normal end),
   1 = a command list failed (`if (ex_exec(s)) break;`), 2 = out of fuel *)
Fixpoint glob_loop_x (fuel : nat) (i : nat) (pat body : bytes) (not : bool) (dep : N) (s : st) (vis : list (nat * bool))
  : st * list (nat * bool) * N :=
  match fuel with
  | O => (flag s F_OOF, vis, 2%N)
  | S f =>
    match nth_error (lns (lb s)) i with
    | None => (s, vis, 0%N)
    | Some x =>
      let hit := match rfind pat (ltxt x) false with Some _ => true | None => false end in
      let run := Bool.eqb (negb hit) not in
      let '(s1, r) := if run then exec body (set_xrow s (Z.of_nat i)) else (s, 0) in
      if run && negb (r =? 0) then (s1, vis ++ [(lid x, run)], 1%N)
      else
        let i1 := if run then Z.to_nat (Z.min (Z.of_nat i) (xrow s1)) else i in
        let '(j, l) := glob_scan i1 dep (lb s1) in
        glob_loop_x f j pat body not dep (set_lb s1 l) (vis ++ [(lid x, run)])
    end
  end.

(* an executor never drops the mark of the identities satisfying `keeps` (in the model a mark is dropped only by
   lbuf_replace removing its line: GlobTrack.replace_mids_sub / mknew) *)
Definition keeps_exec (dep : N) (keeps : nat -> Prop) : Prop := forall body s s' r m,
  exec body s = (s', r) -> keeps m -> In m (mids dep (lns (lb s))) -> In m (mids dep (lns (lb s'))).

(* ghost identities are unique and below nextid (lbuf_replace hands out nextid, nextid+1, ...) *)
Definition uniq (l : lbuf) : Prop :=
  NoDup (map lid (lns l)) /\ Forall (fun i => (i < nextid l)%nat) (map lid (lns l)).
(* what one step does to identities and marks: uniqueness is kept, nextid only grows, a mark is dropped only together
   with its line, and an identity that has left the buffer never comes back *)
Definition pres_lb (dep : N) (l l' : lbuf) : Prop :=
  uniq l -> uniq l' /\ (nextid l <= nextid l')%nat /\
  (forall m, In m (mids dep (lns l)) -> In m (map lid (lns l')) -> In m (mids dep (lns l'))) /\
  (forall m, (m < nextid l)%nat -> In m (map lid (lns l')) -> In m (map lid (lns l))).
Definition pres_exec (dep : N) : Prop := forall body s s' r, exec body s = (s', r) -> pres_lb dep (lb s) (lb s').

(* what lbuf_replace guarantees of any command list (marks only travel with surviving lines, new lines are
   born unmarked) and tracks_low: no still-marked line ends up above min(i, xrow') *)
Definition good_exec (dep : N) : Prop := forall body s s' r,
  exec body s = (s', r) -> 0 <= xrow s ->
  clean_below dep (S (Z.to_nat (xrow s))) (lns (lb s)) ->
  sub (mids dep (lns (lb s'))) (mids dep (lns (lb s))) /\
  clean_below dep (Z.to_nat (Z.min (xrow s) (xrow s'))) (lns (lb s')).
End G.

(* ------------------------------------------------------------------------------------------ *)
(* the re-allocation branch of lbuf_replace for ln_glob, at the level of the C array (the list model above has no
   capacity):  while (ln_n + n_ins - n_del >= ln_sz) { nsz = ln_sz + (ln_sz ? ln_sz : 512); nln_glob = malloc(nsz);
   memcpy(nln_glob, ln_glob, ln_n); ... }.  arr = the whole array (length = capacity ln_sz), n = ln_n entries in use,
   need = ln_n + n_ins - n_del; junk = what malloc happens to return *)
Section Grow.
Variable junk : nat -> N.
Fixpoint mkjunk (k from : nat) : list N :=
  match k with O => [] | S k' => junk from :: mkjunk k' (S from) end.
Fixpoint glob_grow (fuel : nat) (arr : list N) (n need : nat) : list N :=
  match fuel with
  | O => arr
  | S f =>
    if (need <? length arr)%nat then arr
    else let nsz := (length arr + (if (length arr =? 0)%nat then 512 else length arr))%nat in
         glob_grow f (firstn n arr ++ mkjunk (nsz - n) n) n need
  end.
End Grow.
