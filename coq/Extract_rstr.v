(* Extract_rstr.v -- extraction of the rstr.c model and the simple-pattern spec (ExtrOcamlBasic only). *)
From Coq Require Import List NArith ZArith Extraction ExtrOcamlBasic.
From NV Require Import Bytes RstrDefs.
Definition all_types : nat * N * Z := (0%nat, 0%N, 0%Z).
Extraction "rstr_model.ml" all_types rstr_simple rstr_make rstr_find rstr_groups spat_of spat_string spec_find spec_res isword.
