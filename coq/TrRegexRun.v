(* TrRegexRun.v -- the compiler and the matcher of /repo/regex.c composed on the translated C text:
   compiled_prog_at: what tr_regcomp (TrRegexCompile.v) leaves in memory is a program in the sense of the matcher theorems
   (TrRegexRec.prog_at) for the model's regcomp pattern -- the array the matcher theorems ASSUME is PRODUCED by the C text;
   tr_regcomp_regexec: regcomp followed by regexec on the C text = the model's regcomp + regexec_d 256. *)
From Coq Require Import List ZArith NArith Bool Lia.
From NV Require Import Bytes GenConsts ReSyntax ReParse ReEmit ReVM ReSem RsetDefs ReStateDefs ReStateProps ReProps ReProps2 ReProps3 ReProps5 ReCountBound
  CLite CLiteProps GenCFuncs CLiteTac CLiteExt TrRegex TrRegexAtom TrRegexBrk TrRegexRec TrRegexComp TrRegexParse TrRegexCount TrRegexEmit TrRegexEmit2 TrRegexEmit3 TrRegexCompile.
Import ListNotations.
Local Open Scope Z_scope.

(* ------------------------------------------------------------------ the instructions regcomp emits *)
Definition instr_ok (pat : bytes) (i : instr) : Prop :=
  match i with IAtom a => atom_ok pat a | IMark k => Z.of_nat k <= 2147483647 | _ => True end.
Lemma pow_forall (Q : instr -> Prop) e n : (forall b, Forall Q (e b)) -> forall k b, Forall Q (pow e n k b).
Proof. intros He k. induction k as [|k IH]; intro b; cbn [pow]; [constructor|]. apply Forall_app. split; [apply He|apply IH]. Qed.
Lemma opt_forall (Q : instr -> Prop) e n : (forall b, Forall Q (e b)) -> (forall a1 a2, Q (IFork a1 a2)) -> forall j b, Forall Q (opt e n j b).
Proof.
  intros He Hf j. induction j as [|j IH]; intro b; cbn [opt]; [constructor|].
  apply Forall_app. split; [constructor; [apply Hf|constructor]|]. apply Forall_app. split; [apply He|apply IH].
Qed.
Lemma emit_rep_forall (Q : instr -> Prop) e n mn mx b : (forall b, Forall Q (e b)) -> (forall a1 a2, Q (IFork a1 a2)) -> Forall Q (emit_rep e n mn mx b).
Proof.
  intros He Hf. unfold emit_rep. destruct ((mn =? 0) && (mx =? 0)); [constructor|]. destruct ((mn =? 1) && (mx =? 1)); [apply He|].
  apply Forall_app. split; [destruct (Nat.eqb (Z.to_nat mn) 0); [constructor; [apply Hf|constructor]|constructor]|].
  apply Forall_app. split; [apply pow_forall; exact He|]. destruct (mx <? 0); [constructor; [apply Hf|constructor]|apply opt_forall; assumption].
Qed.
Lemma emit_n_instr_ok pat t : atoms_ok pat t -> eok t -> forall b, Forall (instr_ok pat) (emit_n t b).
Proof.
  induction t as [|a mn mx|x IHx g mn mx|x IHx y IHy|x IHx y IHy]; intros Ha Hok b; cbn [emit_n atoms_ok eok] in *.
  - constructor.
  - apply emit_rep_forall; [|intros; exact I]. intros b0. constructor; [exact Ha|constructor].
  - destruct Hok as [_ [Hg Hx]]. apply emit_rep_forall; [|intros; exact I]. intros b0.
    apply Forall_app. split; [constructor; [cbn [instr_ok]; lia|constructor]|]. apply Forall_app. split; [apply IHx; assumption|].
    constructor; [cbn [instr_ok]; lia|constructor].
  - destruct Ha, Hok. apply Forall_app. split; [apply IHx|apply IHy]; assumption.
  - destruct Ha, Hok. apply Forall_app. split; [constructor; [exact I|constructor]|]. apply Forall_app. split; [apply IHx; assumption|].
    apply Forall_app. split; [constructor; [exact I|constructor]|apply IHy; assumption].
Qed.

(* ------------------------------------------------------------------ from the cells regcomp wrote to the matcher's prog_at *)
Lemma compiled_prog_at (m' : mem) bpreg cflg P lo pat fuel : compiled m' bpreg cflg P lo -> Forall (instr_ok pat) P ->
  (length pat + 13 <= fuel)%nat -> Z.of_nat (length pat) < 2147483647 ->
  exists bre bp, nth_error m' bpreg = Some [VPtr bre 0] /\ prog_at m' (length m') fuel bre bp P cflg.
Proof.
  intros [bre [bp [cells [H1 [H2 [H3 [Hc _]]]]]]] Hall Hf Hp. exists bre, bp. split; [exact H1|]. exists cells. split; [exact H2|]. split; [exact H3|].
  intros k i Hk. specialize (Hc k i Hk). rewrite Forall_forall in Hall. pose proof (Hall i (nth_error_In _ _ Hk)) as Hi.
  cbn [Nat.add] in Hc. destruct Hc as [C1 C2]. split; [destruct i; exact C1|].
  destruct i as [a|mk|t|a1 a2|]; cbn [instr_ok] in Hi.
  - destruct C2 as [C2 C3]. split; [exact C2|]. destruct Hi as [Hi1 Hi2]. destruct (ra_str a) as [s|]; [|exact I].
    destruct C3 as [bs [E1 [E2 E3]]]. destruct Hi1 as [Hn Hl]. exists bs. split; [exact E1|]. split; [exact E2|]. split; [exact Hn|].
    split; [lia|]. split; [lia|]. split; [lia|exact Hi2].
  - split; [exact C2|exact Hi].
  - exact C2.
  - exact C2.
  - exact I.
Qed.

(* ------------------------------------------------------------------ regcomp, then regexec *)
(* the global blocks are where the translator put them; the flag re_bad may hold anything *)
Definition globals_but_bad (m : mem) : Prop := forall g blk, g <> G_re_bad -> nth_error cglobals g = Some blk -> nth_error m g = Some blk.
Lemma globals_but_bad_lits m : globals_but_bad m -> lits_at m.
Proof. intro H. split; apply H; try (vm_compute; discriminate); reflexivity. Qed.
Lemma globals_but_bad_len m : globals_but_bad m -> nth_error m G_re_bad <> None -> (length cglobals <= length m)%nat.
Proof.
  intros Hg Hb. destruct (Nat.le_gt_cases (length cglobals) (length m)) as [L|L]; [exact L|exfalso].
  destruct (nth_error cglobals (length m)) as [blk|] eqn:E; [|apply nth_error_None in E; lia].
  destruct (Nat.eq_dec (length m) G_re_bad) as [Eg|Eg].
  - apply Hb. apply nth_error_None. lia.
  - pose proof (Hg _ _ Eg E) as X. assert (length m < length m)%nat by (apply nth_error_Some; congruence). lia.
Qed.

Theorem tr_regcomp_regexec (m : mem) bl pat bpreg pv cflg st0 fuel bln line bps pcells nsub eflg e p res c :
  str_at m bl pat -> nonul pat -> nth_error m bpreg = Some [pv] -> bad_at m st0 -> globals_but_bad m ->
  bl <> G_re_bad -> (length cglobals <= bpreg)%nat -> i32 cflg -> Z.of_nat (length pat) < 1073741820 ->
  (length pat + 13 <= fuel)%nat -> (130 < fuel)%nat ->
  str_at m bln line -> bln <> bpreg -> bln <> G_re_bad -> nth_error m bps = Some pcells -> bps <> bpreg -> bps <> G_re_bad ->
  bytes_lt256 line -> -2147483648 <= Z.lor cflg eflg <= 2147483647 -> -2147483648 <= eflg <= 2147483647 ->
  (length line + 2 <= fuel)%nat -> (cls_fuel <= fuel)%nat -> Z.of_nat (length line) < 2147483647 ->
  (length (code p) < fuel)%nat ->
  0 <= nsub -> nsub * 2 <= 2147483647 -> (2 * Z.to_nat nsub <= length pcells)%nat -> (Z.to_nat nsub < fuel)%nat -> Z.land eflg 2 = 0 ->
  regcomp pat = ReSyntax.Ok (Some p) ->
  regexec_d 256 p cflg line (Z.to_nat nsub) eflg = (ReSyntax.Ok res, c) ->
  exists m1 m2 blk extra,
    callf cprog fuel (4 * length pat + 12) F_regcomp [VPtr bpreg 0; VPtr bl 0; VInt cflg] m = Ok (VInt 0, m1) /\
    callf cprog fuel (S (S (S (S (S (S (S (S (S (256 + e)))))))))) F_regexec [VPtr bpreg 0; VPtr bln 0; VInt nsub; VPtr bps 0; VInt eflg] m1
    = Ok (VInt (match res with Some _ => 0 | None => 1 end), m2) /\
    m2 = match res with
         | Some subs => upd m1 bps (tab_block subs ++ skipn (2 * Z.to_nat nsub) pcells) ++ blk :: extra
         | None => m1 ++ blk :: extra
         end.
Proof.
  intros Hs Hnn Hpreg Hbad Hg Nlb Hgp Hflg Hmax Hf Hfu Hln N1 N2 Hps N3 N4 H256 Hlor Hefl Hfl Hcls Hlmax HPf Hn0 Hn2 Hpc Hnf Hnosub Hrc Hre.
  assert (Hgl : (length cglobals <= length m)%nat) by (apply globals_but_bad_len; [exact Hg|unfold bad_at in Hbad; congruence]).
  assert (Hst : regcomp_st pat st0 = (ReSyntax.Ok (Some p), flag_after pat)) by (rewrite regcomp_st_pure, Hrc; reflexivity).
  destruct (tr_regcomp m bl pat bpreg pv cflg st0 fuel Hs Hnn Hpreg Hbad (globals_but_bad_lits m Hg) Hgl Nlb Hgp Hflg Hmax ltac:(lia) Hfu
              (4 * length pat + 12) (Some p) (flag_after pat) ltac:(lia) Hst) as [m1 [C1 [Hb1 [L1 [F1 [_ [Hcomp [Hat Hok]]]]]]]].
  (* an accepted pattern leaves the flag clear *)
  assert (Hfa : flag_after pat = false).
  { unfold regcomp_st, regcomp_gen in Hst. destruct (rnode_parse_st (parse_fuel pat) pat false) as [[[r s'] st']| |] eqn:Ep; try (injection Hst as Hst _; discriminate Hst).
    destruct r as [t|]; [|injection Hst as Hst _; discriminate Hst].
    destruct (st' || negb match s' with [] => true | _ :: _ => false end) eqn:Eb; [injection Hst as Hst _; discriminate Hst|].
    destruct ((0 <=? NINST) && (NINST <=? count t + 3)); injection Hst as Hst Hfl'; [discriminate Hst|]. rewrite <- Hfl'.
    destruct st'; [discriminate Eb|reflexivity]. }
  rewrite Hfa in Hb1.
  (* the program in memory *)
  assert (Hall : Forall (instr_ok pat) (code p)).
  { unfold regcomp in Hrc. destruct (parse_pat pat) as [[r s']| |]; cbn [ReSyntax.bind fst snd] in Hrc; try discriminate Hrc.
    destruct r as [t|]; [|discriminate Hrc]. destruct (parse_bad pat || _); [discriminate Hrc|]. destruct ((0 <=? NINST) && _); [discriminate Hrc|].
    injection Hrc as <-. cbn [code tree app] in *. constructor; [cbn; lia|].
    apply Forall_app. split; [apply emit_n_instr_ok; assumption|]. constructor; [cbn; lia|]. constructor; [exact I|constructor]. }
  destruct (compiled_prog_at m1 bpreg cflg (code p) (S (length m)) pat fuel Hcomp Hall Hf ltac:(lia)) as [bre [bp [Hp1 Hprog]]].
  (* the frame: the line, the table psub[], the globals *)
  pose proof G_re_bad_lt as Glt.
  assert (Hln1 : str_at m1 bln line) by (unfold str_at; rewrite F1 by (try assumption; eapply nth_lt; exact Hln); exact Hln).
  assert (Hps1 : nth_error m1 bps = Some pcells) by (rewrite F1 by (try assumption; eapply nth_lt; exact Hps); exact Hps).
  assert (Hg1 : globals_at m1).
  { intros g blk Hgb. destruct (Nat.eq_dec g G_re_bad) as [->|Ng].
    - unfold bad_at in Hb1. rewrite Hb1. rewrite <- Hgb. reflexivity.
    - assert (g < length cglobals)%nat by (eapply nth_lt; exact Hgb). rewrite F1 by lia. apply Hg; assumption. }
  pose proof (regcomp_prog_wf pat p Hrc) as Hwf.
  assert (HPi : Z.of_nat (length (code p)) < 2147483647).
  { pose proof (regcomp_fits pat p Hrc). unfold regcomp in Hrc. destruct (parse_pat pat) as [[r s']| |]; cbn [ReSyntax.bind fst snd] in Hrc; try discriminate Hrc.
    destruct r as [t|]; [|discriminate Hrc]. destruct (parse_bad pat || _); [discriminate Hrc|]. destruct ((0 <=? NINST) && (NINST <=? count t + 3)) eqn:En; [discriminate Hrc|].
    injection Hrc as <-. cbn [reserve] in *. unfold NINST in En. destruct (Z.leb_spec 1048576 (count t + 3)); [cbn in En; discriminate En|]. lia. }
  destruct (tr_regexec_model bre bp bln bps bpreg p cflg eflg line fuel m1 nsub pcells e res c Hp1 Hprog Hln1 Hg1 Hps1 H256 Hlor ltac:(unfold i32 in Hflg; lia) Hefl
              Hfl Hcls Hlmax HPi Hwf HPf ltac:(lia) Hn0 Hn2 Hpc Hnf Hnosub Hre) as [m2 [blk [extra [C2 E2]]]].
  exists m1, m2, blk, extra. split; [exact C1|]. split; [exact C2|exact E2].
Qed.
Print Assumptions tr_regcomp_regexec.

(* rnode_count on every tree the parser can return: the model's count, computed without signed overflow *)
Corollary tr_rnode_count_parsed fuel f s t s' (m : mem) lo hi p d : rnode_parse f s = ReSyntax.Ok (Some t, s') ->
  tree_in m t lo hi p -> (height t < d)%nat -> callf cprog fuel d F_rnode_count [p] m = Ok (VInt (count t), m).
Proof. intros Hp T Hd. apply (tr_rnode_count fuel t m lo hi p d T); [eapply parse_count_safe; exact Hp|exact Hd]. Qed.
