(* Extract_uc.v -- extraction of the uc.c model and the RFC 3629 spec to OCaml (ExtrOcamlBasic only). *)
From Coq Require Import List NArith ZArith Extraction ExtrOcamlBasic.
From NV Require Import Bytes UcDefs UcSpec UcMemDefs.
From NV Require RenDefs.
Definition all_types : nat * N * Z := (0%nat, 0%N, 0%Z).
Extraction "uc_model.ml" all_types uc_len uc_code uc_end uc_next uc_beg uc_prev uc_slen uc_chop uc_chr uc_off uc_sub
  uc_cput uc_kind uc_isspace uc_isprint uc_isalpha uc_isdigit encode scalar_b chars
  uc_sub_t uc_cat uc_dup trim_idx uc_trim uc_lastline RenDefs.uc_iscomb.
