(* DirtyProps.v -- proofs for C02: the dirty test never reports clean while text and file differ.
   Started from the design-round prototype (DESIGN.md Appendix E.3, DInv). *)
From Coq Require Import List Arith NArith ZArith Lia Bool Permutation.
From NV Require Import Bytes GenConsts UndoDefs UndoProps DirtyDefs.
Import ListNotations.
Local Open Scope Z_scope.

Definition seqpos (h : list lopt) (l : Z) (i : nat) : Z := match i with O => l | S i' => seq_at h i' end.
Definition boundary (h : list lopt) (i : nat) : Prop := i = 0%nat \/ i = length h \/ seq_at h (i - 1) < seq_at h i.

Lemma lbuf_seq_seqpos l : lbuf_seq l = seqpos (hist l) (useq_last l) (hist_u l).
Proof. reflexivity. Qed.

(* the invariant of DESIGN.md Appendix B for one buffer; g0 is the text below the oldest log entry *)
Record DInv (l : lbuf) (g0 dsk : text) : Prop := {
  d_inv  : Inv l g0;
  d_mono : forall i j, (i <= j)%nat -> (j < length (hist l))%nat -> seq_at (hist l) i <= seq_at (hist l) j;
  d_rng  : forall i, (i < length (hist l))%nat -> useq_last l < seq_at (hist l) i /\ seq_at (hist l) i <= useq l;
  d_bnd  : boundary (hist l) (hist_u l);
  d_zero : useq_zero l < useq l;
  d_last : 0 <= useq_last l < useq l;
  d_disk : forall i, (i <= length (hist l))%nat -> boundary (hist l) i ->
           seqpos (hist l) (useq_last l) i = useq_zero l -> nth i (chain g0 (hist l)) [] = dsk
}.

(* the theorem the property needs: "clean" is never reported while text and file differ *)
Theorem clean_sound l g0 dsk : DInv l g0 dsk -> modified_flag l = false -> ln l = dsk.
Proof.
  intros D M. unfold modified_flag in M. apply negb_false_iff, Z.eqb_eq in M.
  destruct (d_inv _ _ _ D) as (_ & Hu & T & _). rewrite <- T.
  apply (d_disk _ _ _ D); auto. apply (d_bnd _ _ _ D).
Qed.

(* two different rest positions never carry the same sequence number *)
Lemma seqpos_inj h l i j :
  (forall a b, (a <= b)%nat -> (b < length h)%nat -> seq_at h a <= seq_at h b) ->
  (forall a, (a < length h)%nat -> l < seq_at h a) ->
  (i <= length h)%nat -> (j <= length h)%nat -> boundary h i -> boundary h j -> seqpos h l i = seqpos h l j -> i = j.
Proof.
  intros Mono Rng Hi Hj Bi Bj E.
  assert (K : forall i j, (i < j)%nat -> (j <= length h)%nat -> boundary h i -> seqpos h l i < seqpos h l j).
  { clear i j Hi Hj Bi Bj E. intros i j Hij Hj Bi. destruct j as [|j]; [lia|]. cbn [seqpos].
    destruct Bi as [->|[->|Bi]].
    - cbn [seqpos]. apply Rng. lia.
    - lia.
    - destruct i as [|i]; [cbn [seqpos]; apply Rng; lia|]. cbn [seqpos].
      replace (S i - 1)%nat with i in Bi by lia. pose proof (Mono (S i) j ltac:(lia) ltac:(lia)). lia. }
  destruct (lt_eq_lt_dec i j) as [[L|]|L]; auto.
  - specialize (K i j L Hj Bi). lia.
  - specialize (K j i L Hi Bj). lia.
Qed.

Lemma seqpos_range l g0 dsk i : DInv l g0 dsk -> (i <= length (hist l))%nat ->
  useq_last l <= seqpos (hist l) (useq_last l) i <= useq l.
Proof.
  intros D Hi. destruct i as [|u]; cbn [seqpos].
  - pose proof (d_last _ _ _ D). lia.
  - destruct (d_rng _ _ _ D u ltac:(lia)). lia.
Qed.

(* lbuf_saved(lb, 0): record the sequence number of the undo position, bump *)
Theorem saved_inv l g0 dsk : DInv l g0 dsk -> DInv (lbuf_saved l false) g0 (ln l) /\ modified_flag (lbuf_saved l false) = false.
Proof.
  intro D. pose proof (d_inv _ _ _ D) as I. pose proof I as (C & Hu & T & W).
  pose proof (seqpos_range l g0 dsk (hist_u l) D Hu) as SP.
  destruct D as [_ Mono Rng Bnd Z L Dk].
  split.
  - constructor; cbn [lbuf_saved bump set_zero hist hist_u useq useq_zero useq_last ln]; auto.
    + intros i Hi. destruct (Rng i Hi). split; lia.
    + rewrite lbuf_seq_seqpos. lia.
    + lia.
    + intros i Hi Bi Ei. rewrite <- T. f_equal. rewrite lbuf_seq_seqpos in Ei.
      eapply seqpos_inj; eauto. intros a Ha. apply Rng. exact Ha.
  - unfold modified_flag. cbn [lbuf_saved bump set_zero hist hist_u useq_zero useq_last lbuf_seq].
    fold (lbuf_seq l). rewrite Z.eqb_refl. reflexivity.
Qed.

(* lbuf_unsaved: no rest position carries -1 *)
Theorem unsaved_inv l g0 dsk dsk' : DInv l g0 dsk -> DInv (lbuf_unsaved l) g0 dsk' /\ modified_flag (lbuf_unsaved l) = true.
Proof.
  intro D. pose proof (d_inv _ _ _ D) as I. pose proof I as (C & Hu & T & W).
  pose proof (seqpos_range l g0 dsk (hist_u l) D Hu) as SP.
  pose proof (d_last _ _ _ D) as L0.
  split.
  - destruct D as [_ Mono Rng Bnd Z L Dk].
    constructor; cbn [lbuf_unsaved set_zero hist hist_u useq useq_zero useq_last ln]; auto; try lia.
    intros i Hi Bi Ei. exfalso. destruct i as [|u]; cbn [seqpos] in Ei; [lia|]. destruct (Rng u ltac:(lia)). lia.
  - unfold modified_flag. rewrite lbuf_seq_seqpos. cbn [lbuf_unsaved set_zero hist hist_u useq_zero useq_last].
    apply negb_true_iff, Z.eqb_neq. lia.
Qed.

(* a command boundary: lbuf_modified bumps the counter *)
Theorem bump_inv l g0 dsk : DInv l g0 dsk -> DInv (bump l) g0 dsk.
Proof.
  intro D. destruct D as [I Mono Rng Bnd Z L Dk].
  constructor; cbn [bump hist hist_u useq useq_zero useq_last ln]; auto; try lia.
  intros i Hi; destruct (Rng i Hi); split; lia.
Qed.

(* an edit at the undo position; truncation may delete the saved position *)
Theorem edit_core_dinv l g0 dsk buf p nd : DInv l g0 dsk -> (p + nd <= length (ln l))%nat -> DInv (edit_core l buf p nd) g0 dsk.
Proof.
  intros D H. destruct D as [I Mono Rng Bnd Z L Dk]. pose proof I as (C & Hu & T & W).
  destruct (edit_inv l g0 buf p nd I H) as (I' & L').
  set (u := hist_u l) in *. set (h := hist l) in *.
  set (o := new_entry l buf p nd).
  assert (Lf : length (firstn u h) = u) by (rewrite firstn_length; lia).
  assert (SA : forall i, (i < u)%nat -> seq_at (firstn u h ++ [o]) i = seq_at h i).
  { intros i Hi. rewrite seq_at_app1 by lia. apply seq_at_firstn. exact Hi. }
  assert (SL : seq_at (firstn u h ++ [o]) u = useq l).
  { rewrite <- Lf at 2. rewrite seq_at_app2. reflexivity. }
  assert (Ln : length (firstn u h ++ [o]) = S u) by (rewrite app_length, Lf; cbn; lia).
  constructor; rewrite ?edit_core_hist, ?edit_core_hu, ?edit_core_useq; fold u h o;
    change (useq_last (edit_core l buf p nd)) with (useq_last l); change (useq_zero (edit_core l buf p nd)) with (useq_zero l); auto.
  - (* mono *) intros i j Hij Hj. rewrite Ln in Hj.
    destruct (Nat.eq_dec j u) as [->|].
    + rewrite SL. destruct (Nat.eq_dec i u) as [->|]; [rewrite SL; lia|]. rewrite SA by lia. apply Rng. lia.
    + rewrite !SA by lia. apply Mono; lia.
  - (* range *) intros i Hi. rewrite Ln in Hi.
    destruct (Nat.eq_dec i u) as [->|]; [rewrite SL; lia|]. rewrite SA by lia. apply Rng. lia.
  - (* boundary *) right. left. rewrite Ln. reflexivity.
  - (* disk *) intros i Hi Bi Ei. rewrite Ln in Hi.
    destruct (Nat.eq_dec i (S u)) as [->|].
    + exfalso. cbn [seqpos] in Ei. rewrite SL in Ei. lia.
    + assert (i <= u)%nat by lia.
      rewrite chain_snoc by lia. rewrite chain_firstn by lia.
      apply Dk; [lia| |].
      * destruct (Nat.eq_dec i u) as [->|]; [exact Bnd|].
        destruct Bi as [->|[Bi|Bi]]; [left; reflexivity | rewrite Ln in Bi; lia |].
        right. right. rewrite !SA in Bi by lia. exact Bi.
      * destruct i as [|i]; [exact Ei|]. cbn [seqpos] in *. rewrite SA in Ei by lia. exact Ei.
Qed.

Theorem edit_dinv l g0 dsk buf b e : DInv l g0 dsk -> DInv (lbuf_edit l buf b e) g0 dsk.
Proof.
  intro D. unfold lbuf_edit. destruct (_ && _); [exact D|].
  apply (edit_core_dinv l g0 dsk buf); [exact D | lia].
Qed.

Lemma edit_whole_ln l c : ln (lbuf_edit l (Some c) 0 (length (ln l))) = lines_of c.
Proof.
  unfold lbuf_edit. rewrite Nat.min_id. cbn [Nat.min is_none andb].
  rewrite andb_false_r.
  change (lbuf_replace (lbuf_opt l (Some c) 0 (length (ln l) - 0)) (Some c) 0 (length (ln l) - 0)) with (edit_core l (Some c) 0 (length (ln l) - 0)).
  rewrite edit_core_ln. unfold replace. cbn [firstn app lines_opt plus].
  rewrite Nat.sub_0_r, skipn_all. apply app_nil_r.
Qed.

(* undo / redo keep the invariant: the loops stop on a group boundary *)
Theorem undo_dinv l g0 dsk : DInv l g0 dsk ->
  match lbuf_undo l with None => True | Some l' => DInv l' g0 dsk end.
Proof.
  intro D. destruct D as [I Mono Rng Bnd Z L Dk].
  pose proof (undo_spec l g0 I) as U. destruct (lbuf_undo l) as [l'|]; [|exact Logic.I].
  destruct U as (I' & (H1 & H2 & H3 & H4 & _) & H5 & H6 & H7).
  constructor; rewrite ?H1, ?H2, ?H3, ?H4; auto.
  rewrite H5. destruct (hist_u l) as [|u] eqn:E; [lia|]. replace (S u - 1)%nat with u by lia.
  destruct (back_stop (hist l) (seq_at (hist l) u) (S u)) as (B1 & B2 & B3).
  set (p := back (hist l) (seq_at (hist l) u) (S u)) in *.
  assert (p <= u)%nat.
  { unfold p. cbn [back]. rewrite Z.eqb_refl. apply back_le. }
  destruct B2 as [B2|B2]; [left; exact B2|]. right. right.
  destruct I as (_ & Hu & _). rewrite E in Hu.
  pose proof (B3 p ltac:(lia) ltac:(lia)) as Q.
  pose proof (Mono (p - 1)%nat p ltac:(lia) ltac:(lia)). lia.
Qed.

Theorem redo_dinv l g0 dsk : DInv l g0 dsk ->
  match lbuf_redo l with None => True | Some l' => DInv l' g0 dsk end.
Proof.
  intro D. destruct D as [I Mono Rng Bnd Z L Dk].
  pose proof (redo_spec l g0 I) as U. destruct (lbuf_redo l) as [l'|]; [|exact Logic.I].
  destruct U as (I' & (H1 & H2 & H3 & H4 & _) & H5 & H6 & H7).
  constructor; rewrite ?H1, ?H2, ?H3, ?H4; auto.
  pose proof I as (_ & Hu & _).
  destruct (forth_stop (hist l) (seq_at (hist l) (hist_u l)) (length (hist l) - hist_u l) (hist_u l) ltac:(lia)) as (B1 & B2 & B3).
  rewrite <- H5 in B1, B2, B3. set (p := hist_u l') in *.
  assert (Pn : (p <= length (hist l))%nat).
  { destruct I' as (_ & Hu' & _). rewrite H1 in Hu'. exact Hu'. }
  destruct (Nat.eq_dec p (length (hist l))) as [Ep|Ep]; [right; left; exact Ep|].
  destruct B2 as [B2|B2]; [lia|]. right. right.
  pose proof (B3 (p - 1)%nat ltac:(lia) ltac:(lia)) as Q.
  pose proof (Mono (p - 1)%nat p ltac:(lia) ltac:(lia)). lia.
Qed.

(* ------------------------------------------------------------------------------------------ *)
(* every operation keeps the invariant (with the ghost disk the operation produces) *)
Definition EInv (e : ebuf) : Prop := exists g0, DInv (lb e) g0 (disk e).

Lemma write_own_inv e b en : EInv e -> EInv (write_own e b en).
Proof.
  intros (g0 & D). unfold write_own. destruct (_ && _); exists g0; cbn [lb disk].
  - apply saved_inv with (dsk := disk e). exact D.
  - apply unsaved_inv with (dsk := disk e). exact D.
Qed.

Theorem run_dop_inv e o : EInv e -> EInv (run_dop e o).
Proof.
  intros (g0 & D). destruct o; cbn [run_dop].
  - exists g0. apply edit_dinv. exact D.
  - exists g0. apply bump_inv. exact D.
  - pose proof (undo_dinv _ _ _ D) as U. destruct (lbuf_undo (lb e)); exists g0; [exact U | exact D].
  - pose proof (redo_dinv _ _ _ D) as U. destruct (lbuf_redo (lb e)); exists g0; [exact U | exact D].
  - apply write_own_inv. exists g0. exact D.
  - apply write_own_inv. exists g0. exact D.
  - exists g0. exact D.
  - exists g0. cbn [lb disk].
    pose proof (edit_dinv (lb e) g0 (disk e) (Some content) 0 (length (ln (lb e))) D) as D1.
    destruct (saved_inv _ _ _ D1) as [D2 _]. rewrite edit_whole_ln in D2. exact D2.
Qed.

Lemma open_inv c : EInv (ebuf_open c).
Proof.
  exists (lines_of c). unfold ebuf_open. cbn [lb disk].
  assert (E : ln (lbuf_saved (lbuf_edit lbuf_make (Some c) 0 0) true) = lines_of c).
  { cbn. apply app_nil_r. }
  constructor.
  - unfold Inv. rewrite E. cbn. repeat split; auto. apply lines_of_wf.
  - cbn. intros; lia.
  - cbn. intros; lia.
  - left. reflexivity.
  - cbn. lia.
  - cbn. lia.
  - cbn. intros i Hi _ _. assert (i = 0)%nat by lia. subst. reflexivity.
Qed.

Lemma run_dops_inv ops : forall e, EInv e -> EInv (run_dops e ops).
Proof. induction ops as [|o ops IH]; intros e H; [exact H|]. cbn [run_dops]. apply IH, run_dop_inv, H. Qed.

Theorem dirty_sound c ops : let e := run_dops (ebuf_open c) ops in dirty_flag e = false -> ln (lb e) = disk e.
Proof.
  cbv zeta. intro M. destruct (run_dops_inv ops _ (open_inv c)) as (g0 & D).
  apply (clean_sound _ g0). exact D. exact M.
Qed.

(* ------------------------------------------------------------------------------------------ *)
(* completeness: right after a whole write or a reload, and after any undo/redo walk that comes
   back to the saved position, the flag is off *)
Definition is_walk (o : dop) : bool := match o with DBump | DUndo | DRedo | DSaveOther => true | _ => false end.

Lemma undo_loop_ctrs q : forall f l, hist (undo_loop f q l) = hist l /\ useq_zero (undo_loop f q l) = useq_zero l /\ useq_last (undo_loop f q l) = useq_last l.
Proof.
  induction f as [|f IH]; intro l; cbn [undo_loop]; [auto|]. destruct (_ && _); [|auto].
  destruct (IH (undo1 l)) as (A & B & C). destruct (undo1_fields l) as (F1 & _ & _ & F4 & F5 & _).
  rewrite A, B, C, F1, F4, F5. auto.
Qed.
Lemma redo_loop_ctrs q : forall f l, hist (redo_loop f q l) = hist l /\ useq_zero (redo_loop f q l) = useq_zero l /\ useq_last (redo_loop f q l) = useq_last l.
Proof.
  induction f as [|f IH]; intro l; cbn [redo_loop]; [auto|]. destruct (_ && _); [|auto].
  destruct (IH (redo1 l)) as (A & B & C). destruct (redo1_fields l) as (F1 & _ & _ & F4 & F5 & _).
  rewrite A, B, C, F1, F4, F5. auto.
Qed.

Lemma walk_ctrs ops : forall e, forallb is_walk ops = true ->
  hist (lb (run_dops e ops)) = hist (lb e) /\ useq_zero (lb (run_dops e ops)) = useq_zero (lb e) /\
  useq_last (lb (run_dops e ops)) = useq_last (lb e).
Proof.
  induction ops as [|o ops IH]; intros e H; [auto|]. cbn [forallb] in H. apply andb_prop in H. destruct H as [H1 H2].
  cbn [run_dops]. destruct (IH (run_dop e o) H2) as (A & B & C). rewrite A, B, C.
  destruct o; try discriminate H1; cbn [run_dop lb]; auto.
  - unfold lbuf_undo. destruct (Nat.eqb _ _); [auto|]. cbn [lb]. apply undo_loop_ctrs.
  - unfold lbuf_redo. destruct (Nat.eqb _ _); [auto|]. cbn [lb]. apply redo_loop_ctrs.
Qed.

Lemma saved_flag l : modified_flag (lbuf_saved l false) = false.
Proof.
  unfold modified_flag. cbn [lbuf_saved bump set_zero hist hist_u useq_zero useq_last lbuf_seq].
  fold (lbuf_seq l). rewrite Z.eqb_refl. reflexivity.
Qed.

Theorem dirty_complete e o ops : (o = DSaveWhole \/ exists c, o = DReload c) -> forallb is_walk ops = true ->
  let e1 := run_dop e o in let e2 := run_dops e1 ops in
  dirty_flag e1 = false /\ (hist_u (lb e2) = hist_u (lb e1) -> dirty_flag e2 = false).
Proof.
  intros Ho Hw. cbv zeta.
  assert (F1 : dirty_flag (run_dop e o) = false).
  { destruct Ho as [->|[c ->]]; cbn [run_dop]; unfold dirty_flag.
    - unfold write_own. rewrite !Nat.eqb_refl. cbn [andb lb]. apply saved_flag.
    - cbn [lb]. apply saved_flag. }
  split; [exact F1|]. intro Hu.
  destruct (walk_ctrs ops (run_dop e o) Hw) as (A & B & C).
  unfold dirty_flag, modified_flag in *. rewrite lbuf_seq_seqpos in *. rewrite A, B, C, Hu. exact F1.
Qed.

(* ------------------------------------------------------------------------------------------ *)
(* the refusal logic: quit succeeds only if every buffer is clean, hence equal to its file *)
Definition content (e : ebuf) : text * list lopt * nat * text := (ln (lb e), hist (lb e), hist_u (lb e), disk e).

Lemma bufs_modified_content e : content (fst (bufs_modified e)) = content e.
Proof. reflexivity. Qed.
Lemma bufs_modified_flag e : snd (bufs_modified e) = dirty_flag e.
Proof. reflexivity. Qed.
Lemma bufs_modified_inv e : EInv e -> EInv (fst (bufs_modified e)).
Proof. intros (g0 & D). exists g0. cbn. apply bump_inv. exact D. Qed.

Lemma bumpE_content e : content (bumpE e) = content e.
Proof. reflexivity. Qed.
Lemma bumpE_flag e : dirty_flag (bumpE e) = dirty_flag e.
Proof. reflexivity. Qed.

Lemma switch_to_perm pre b r : Permutation (map content (switch_to pre b r)) (map content (pre ++ b :: r)).
Proof.
  destruct pre as [|x p]; cbn [switch_to app map].
  - rewrite bumpE_content. apply Permutation_refl.
  - rewrite bumpE_content. rewrite !map_app. cbn [map].
    eapply Permutation_trans; [apply perm_swap|]. apply perm_skip. apply Permutation_middle.
Qed.
Lemma switch_to_head pre b r : exists cur rest, switch_to pre b r = cur :: rest /\ content cur = content b /\ dirty_flag cur = dirty_flag b.
Proof. destruct pre as [|x p]; cbn [switch_to]; eauto. Qed.

Lemma quit_scan_spec l : forall pre,
  let r := quit_scan pre l in
  Permutation (map content (fst r)) (map content (rev pre ++ l)) /\
  (snd r = true -> Forall (fun b => dirty_flag b = false) l) /\
  (snd r = false -> exists b rest, fst r = b :: rest /\ dirty_flag b = true /\
                    exists l1 b0 l2, l = l1 ++ b0 :: l2 /\ content b = content b0 /\ dirty_flag b0 = true /\
                                     Forall (fun x => dirty_flag x = false) l1).
Proof.
  induction l as [|b r IH]; intro pre; cbn [quit_scan]; cbv zeta.
  - rewrite app_nil_r. cbn [fst snd]. split; [apply Permutation_refl|]. split; [constructor | discriminate].
  - pose proof (bufs_modified_content b) as Cb. pose proof (bufs_modified_flag b) as Fb.
    assert (Fb' : dirty_flag (fst (bufs_modified b)) = dirty_flag b) by reflexivity.
    destruct (bufs_modified b) as [b' m]. cbn [fst snd] in Cb, Fb, Fb'. destruct m; cbn [fst snd].
    + split.
      * eapply Permutation_trans; [apply switch_to_perm|]. rewrite !map_app. cbn [map]. rewrite Cb. apply Permutation_refl.
      * split; [discriminate|]. intros _.
        destruct (switch_to_head (rev pre) b' r) as (cur & rest & E1 & E2 & E3).
        exists cur, rest. split; [exact E1|]. split; [rewrite E3, Fb'; symmetry; exact Fb|].
        exists [], b, r. repeat split; auto. rewrite E2. exact Cb.
    + specialize (IH (b' :: pre)). cbv zeta in IH. destruct IH as (P & S1 & S2). split.
      * eapply Permutation_trans; [exact P|]. cbn [rev]. rewrite <- app_assoc. cbn [app].
        rewrite !map_app. cbn [map]. rewrite Cb. apply Permutation_refl.
      * split.
        -- intro H. constructor; [symmetry; exact Fb | apply S1; exact H].
        -- intro H. destruct (S2 H) as (x & rest & E1 & E2 & l1 & b0 & l2 & E3 & E4 & E5 & E6).
           exists x, rest. split; [exact E1|]. split; [exact E2|].
           exists (b :: l1), b0, l2. rewrite E3. repeat split; auto.
Qed.

Theorem quit_sound bufs : Forall EInv bufs -> snd (ec_quit false bufs) = true ->
  Forall (fun b => ln (lb b) = disk b) bufs.
Proof.
  intros HI Q. cbn [ec_quit] in Q. destruct (quit_scan_spec bufs []) as (_ & S1 & _). specialize (S1 Q).
  rewrite Forall_forall in *. intros b Hb. destruct (HI b Hb) as (g0 & D).
  apply (clean_sound _ g0); [exact D | apply S1; exact Hb].
Qed.

Theorem quit_refuses bufs b : In b bufs -> dirty_flag b = true ->
  snd (ec_quit false bufs) = false /\
  Permutation (map content (fst (ec_quit false bufs))) (map content bufs) /\
  exists cur rest, fst (ec_quit false bufs) = cur :: rest /\ dirty_flag cur = true.
Proof.
  intros Hb Fb. cbn [ec_quit]. destruct (quit_scan_spec bufs []) as (P & S1 & S2). cbn [rev app] in P.
  destruct (snd (quit_scan [] bufs)) eqn:Q.
  - exfalso. specialize (S1 eq_refl). rewrite Forall_forall in S1. rewrite (S1 b Hb) in Fb. discriminate.
  - split; [reflexivity|]. split; [exact P|]. destruct (S2 eq_refl) as (x & rest & E1 & E2 & _). eauto.
Qed.

Theorem guard_sound b rest : EInv b -> snd (guard_current false (b :: rest)) = false -> ln (lb b) = disk b.
Proof. intros (g0 & D) G. cbn in G. apply (clean_sound _ g0); [exact D | exact G]. Qed.

Theorem guard_refuses b rest : dirty_flag b = true ->
  snd (guard_current false (b :: rest)) = true /\ map content (fst (guard_current false (b :: rest))) = map content (b :: rest).
Proof. intro F. cbn. split; [exact F | reflexivity]. Qed.

Lemma reachable_inv c ops : EInv (run_dops (ebuf_open c) ops).
Proof. apply run_dops_inv, open_inv. Qed.

Definition reachable (b : ebuf) : Prop := exists c ops, b = run_dops (ebuf_open c) ops.

Lemma reachable_EInv b : reachable b -> EInv b.
Proof. intros (c & ops & ->). apply reachable_inv. Qed.

Theorem quit_sound_reachable bufs : Forall reachable bufs -> snd (ec_quit false bufs) = true ->
  Forall (fun b => ln (lb b) = disk b) bufs.
Proof. intros H. apply quit_sound. eapply Forall_impl; [|exact H]. apply reachable_EInv. Qed.

Theorem guard_sound_reachable b rest : reachable b -> snd (guard_current false (b :: rest)) = false -> ln (lb b) = disk b.
Proof. intro H. apply guard_sound, reachable_EInv, H. Qed.

(* a write of part of the buffer to its own path leaves the flag on, whatever is undone or redone
   afterwards, until the next whole write or reload *)
Theorem partial_write_dirty_inv e b en walk : EInv e ->
  (Nat.eqb b 0 && Nat.eqb en (length (ln (lb e))) = false) -> forallb is_walk walk = true ->
  dirty_flag (run_dops (run_dop e (DSaveOwn b en)) walk) = true.
Proof.
  intros (g0 & D) NW Hw.
  assert (E1 : run_dop e (DSaveOwn b en) = {| lb := lbuf_unsaved (lb e); disk := slice (ln (lb e)) b (en - b) |}).
  { cbn [run_dop]. unfold write_own. rewrite NW. reflexivity. }
  rewrite E1. set (e1 := {| lb := lbuf_unsaved (lb e); disk := slice (ln (lb e)) b (en - b) |}).
  assert (I1 : EInv e1) by (exists g0; apply (unsaved_inv _ _ (disk e)); exact D).
  destruct (run_dops_inv walk e1 I1) as (g1 & D2).
  destruct (walk_ctrs walk e1 Hw) as (A & B & C).
  unfold dirty_flag, modified_flag. rewrite lbuf_seq_seqpos, A, B, C. cbn [e1 lb lbuf_unsaved set_zero hist useq_zero useq_last].
  apply negb_true_iff, Z.eqb_neq.
  pose proof (d_inv _ _ _ D2) as (_ & Hu & _). rewrite A in Hu. cbn [e1 lb lbuf_unsaved set_zero hist] in Hu.
  pose proof (d_last _ _ _ D) as L0.
  destruct (hist_u (lb (run_dops e1 walk))) as [|u]; cbn [seqpos]; [lia|].
  destruct (d_rng _ _ _ D u ltac:(lia)). lia.
Qed.

Theorem partial_write_dirty c ops b en walk : let e := run_dops (ebuf_open c) ops in
  (Nat.eqb b 0 && Nat.eqb en (length (ln (lb e))) = false) -> forallb is_walk walk = true ->
  dirty_flag (run_dops (run_dop e (DSaveOwn b en)) walk) = true.
Proof. cbv zeta. apply partial_write_dirty_inv, reachable_inv. Qed.

(* ------------------------------------------------------------------------------------------ *)
(* the table bufs[NBUFS] with empty slots: ec_quit visits every slot of the array (round e: a scan that stops
   short of the last slot of a full table is a different function) *)
Lemma occupied_app a b : occupied (a ++ b) = occupied a ++ occupied b.
Proof. apply flat_map_app. Qed.
Lemma occupied_map_some l : occupied (map Some l) = l.
Proof. induction l as [|x l IH]; [reflexivity|]. cbn. f_equal. exact IH. Qed.
Lemma occupied_repeat_none k : occupied (repeat None k) = [].
Proof. induction k as [|k IH]; [reflexivity | exact IH]. Qed.
Lemma occupied_full l : occupied (full_table l) = l.
Proof. unfold full_table. rewrite occupied_app, occupied_map_some, occupied_repeat_none. apply app_nil_r. Qed.
Lemma full_table_length l : (length l <= NSLOTS)%nat -> length (full_table l) = NSLOTS.
Proof. intro H. unfold full_table. rewrite app_length, map_length, repeat_length. lia. Qed.
Lemma occupied_in t b : In (Some b) t <-> In b (occupied t).
Proof.
  unfold occupied. rewrite in_flat_map. split.
  - intro H. exists (Some b). split; [exact H | left; reflexivity].
  - intros (s & Hs & Hb). destruct s as [x|]; [|destruct Hb]. destruct Hb as [->|[]]. exact Hs.
Qed.

Lemma switch_tab_length pre b r : length (switch_tab pre b r) = length (pre ++ Some b :: r).
Proof. destruct pre as [|x p]; cbn [switch_tab app length]; [reflexivity|]. rewrite !app_length. cbn [length]. lia. Qed.
Lemma occupied_bumpS x : map content (occupied [bumpS x]) = map content (occupied [x]).
Proof. destruct x; reflexivity. Qed.
Lemma switch_tab_perm pre b r :
  Permutation (map content (occupied (switch_tab pre b r))) (map content (occupied (pre ++ Some b :: r))).
Proof.
  destruct pre as [|x p]; cbn [switch_tab app].
  - change (Some (bumpE b) :: r) with ([Some (bumpE b)] ++ r). change (Some b :: r) with ([Some b] ++ r).
    rewrite !occupied_app. apply Permutation_refl.
  - change (Some b :: bumpS x :: p ++ r) with ([Some b] ++ [bumpS x] ++ p ++ r).
    change (x :: p ++ Some b :: r) with ([x] ++ p ++ [Some b] ++ r).
    rewrite !occupied_app, !map_app, occupied_bumpS.
    set (B := map content (occupied [Some b])). set (X := map content (occupied [x])).
    set (P := map content (occupied p)). set (R := map content (occupied r)).
    eapply Permutation_trans; [apply Permutation_app_swap_app|]. apply Permutation_app_head. apply Permutation_app_swap_app.
Qed.

Lemma quit_tab_spec l : forall pre,
  let r := quit_tab pre l in
  length (fst r) = length (rev pre ++ l) /\
  Permutation (map content (occupied (fst r))) (map content (occupied (rev pre ++ l))) /\
  (snd r = true -> Forall (fun b => dirty_flag b = false) (occupied l)) /\
  (snd r = false -> exists b rest, fst r = Some b :: rest /\ dirty_flag b = true).
Proof.
  induction l as [|s r IH]; intro pre; cbn [quit_tab]; cbv zeta.
  - rewrite app_nil_r. cbn [fst snd]. split; [reflexivity|]. split; [apply Permutation_refl|]. split; [constructor | discriminate].
  - destruct s as [b|].
    + pose proof (bufs_modified_content b) as Cb. pose proof (bufs_modified_flag b) as Fb.
      assert (Fb' : dirty_flag (fst (bufs_modified b)) = dirty_flag b) by reflexivity.
      destruct (bufs_modified b) as [b' m]. cbn [fst snd] in Cb, Fb, Fb'. destruct m; cbn [fst snd].
      * split; [rewrite switch_tab_length, !app_length; reflexivity|]. split.
        -- eapply Permutation_trans; [apply switch_tab_perm|].
           change (Some b' :: r) with ([Some b'] ++ r). change (Some b :: r) with ([Some b] ++ r).
           rewrite !occupied_app, !map_app. cbn [occupied flat_map map app]. rewrite Cb. apply Permutation_refl.
        -- split; [discriminate|]. intros _. destruct (rev pre) as [|x p]; cbn [switch_tab].
           ++ exists (bumpE b'), r. split; [reflexivity|]. rewrite bumpE_flag, Fb'. symmetry. exact Fb.
           ++ exists b', (bumpS x :: p ++ r). split; [reflexivity|]. rewrite Fb'. symmetry. exact Fb.
      * specialize (IH (Some b' :: pre)). cbv zeta in IH. destruct IH as (L & P & S1 & S2).
        cbn [rev] in L, P. rewrite <- app_assoc in L, P. cbn [app] in L, P. split.
        -- rewrite L, !app_length. reflexivity.
        -- split.
           ++ eapply Permutation_trans; [exact P|].
              change (Some b' :: r) with ([Some b'] ++ r). change (Some b :: r) with ([Some b] ++ r).
              rewrite !occupied_app, !map_app. cbn [occupied flat_map map app]. rewrite Cb. apply Permutation_refl.
           ++ split; [|exact S2]. intro H. cbn [occupied flat_map app]. constructor; [symmetry; exact Fb | apply S1; exact H].
    + specialize (IH (None :: pre)). cbv zeta in IH. destruct IH as (L & P & S1 & S2).
      cbn [rev] in L, P. rewrite <- app_assoc in L, P. cbn [app] in L, P. repeat split; auto.
Qed.

Theorem quit_tab_sound t : Forall EInv (occupied t) -> snd (ec_quit_tab false t) = true ->
  Forall (fun b => ln (lb b) = disk b) (occupied t).
Proof.
  intros HI Q. cbn [ec_quit_tab] in Q. destruct (quit_tab_spec t []) as (_ & _ & S1 & _). specialize (S1 Q).
  rewrite Forall_forall in *. intros b Hb. destruct (HI b Hb) as (g0 & D).
  apply (clean_sound _ g0); [exact D | apply S1; exact Hb].
Qed.

Theorem quit_tab_sound_reachable t : length t = NSLOTS -> Forall reachable (occupied t) -> snd (ec_quit_tab false t) = true ->
  Forall (fun b => ln (lb b) = disk b) (occupied t).
Proof. intros _ H. apply quit_tab_sound. eapply Forall_impl; [|exact H]. apply reachable_EInv. Qed.

Theorem quit_tab_refuses t b : In (Some b) t -> dirty_flag b = true ->
  snd (ec_quit_tab false t) = false /\
  length (fst (ec_quit_tab false t)) = length t /\
  Permutation (map content (occupied (fst (ec_quit_tab false t)))) (map content (occupied t)) /\
  exists cur rest, fst (ec_quit_tab false t) = Some cur :: rest /\ dirty_flag cur = true.
Proof.
  intros Hb Fb. cbn [ec_quit_tab]. destruct (quit_tab_spec t []) as (L & P & S1 & S2). cbn [rev app] in L, P.
  destruct (snd (quit_tab [] t)) eqn:Q.
  - exfalso. specialize (S1 eq_refl). rewrite Forall_forall in S1. apply occupied_in in Hb. rewrite (S1 b Hb) in Fb. discriminate.
  - split; [reflexivity|]. split; [exact L|]. split; [exact P|]. exact (S2 eq_refl).
Qed.

(* on the tables the editor can reach (occupied slots first, C20_wf) the array loop is the list scan of quit_scan *)
Lemma quit_tab_none pre k : quit_tab pre (repeat None k) = (rev pre ++ repeat None k, true).
Proof.
  revert pre. induction k as [|k IH]; intro pre; cbn [repeat quit_tab]; [rewrite app_nil_r; reflexivity|].
  rewrite IH. cbn [rev]. rewrite <- app_assoc. reflexivity.
Qed.
Lemma quit_tab_prefix k l : forall pre,
  quit_tab (map Some pre) (map Some l ++ repeat None k) =
  (map Some (fst (quit_scan pre l)) ++ repeat None k, snd (quit_scan pre l)).
Proof.
  induction l as [|b r IH]; intro pre; cbn [map app quit_tab quit_scan].
  - rewrite quit_tab_none. cbn [fst snd]. rewrite <- map_rev. reflexivity.
  - destruct (bufs_modified b) as [b' m]. destruct m.
    + cbn [fst snd]. f_equal. rewrite <- map_rev. destruct (rev pre) as [|x p]; cbn [map switch_tab switch_to bumpS app]; [reflexivity|].
      rewrite map_app, <- app_assoc. reflexivity.
    + exact (IH (b' :: pre)).
Qed.
Theorem quit_tab_is_scan l : (length l <= NSLOTS)%nat ->
  ec_quit_tab false (full_table l) = (full_table (fst (ec_quit false l)), snd (ec_quit false l)).
Proof.
  intro H. cbn [ec_quit_tab ec_quit]. unfold full_table at 1. rewrite (quit_tab_prefix _ l []).
  unfold full_table. destruct (quit_scan_spec l []) as (P & _). cbn [rev app] in P.
  apply Permutation_length in P. rewrite !map_length in P. rewrite P. reflexivity.
Qed.

(* ------------------------------------------------------------------------------------------ *)
(* rounds g/h.  (h) the buffer of an editor started WITHOUT a file name: lbuf_make; lbuf_saved(lb, 0) -- useq_last = 0, and 0 is
   what lbuf_seq answers below the oldest log entry; (g) :e with an empty / self-referring argument *)
Lemma new_inv : EInv ebuf_new.
Proof.
  exists []. unfold ebuf_new. cbn [lb disk]. constructor.
  - unfold Inv. cbn. repeat split; auto.
  - cbn. intros; lia.
  - cbn. intros; lia.
  - left. reflexivity.
  - cbn. lia.
  - cbn. lia.
  - cbn. intros i Hi _ _. assert (i = 0)%nat by lia. subst. reflexivity.
Qed.

(* reachable from either start: a buffer read from a file (:e file, vi file) or the unnamed buffer of `vi` without arguments *)
Definition reachable0 (b : ebuf) : Prop := reachable b \/ exists ops, b = run_dops ebuf_new ops.

Lemma reachable0_EInv b : reachable0 b -> EInv b.
Proof. intros [H|(ops & ->)]; [apply reachable_EInv, H | apply run_dops_inv, new_inv]. Qed.

Lemma run_dops_app ops1 : forall e ops2, run_dops e (ops1 ++ ops2) = run_dops (run_dops e ops1) ops2.
Proof. induction ops1 as [|o ops1 IH]; intros e ops2; [reflexivity|]. cbn [app run_dops]. apply IH. Qed.

Lemma reachable0_step b ops : reachable0 b -> reachable0 (run_dops b ops).
Proof.
  intros [(c & o1 & ->)|(o1 & ->)]; [left; exists c, (o1 ++ ops) | right; exists (o1 ++ ops)]; symmetry; apply run_dops_app.
Qed.

Theorem noname_sound ops : let e := run_dops ebuf_new ops in dirty_flag e = false -> ln (lb e) = disk e.
Proof.
  cbv zeta. intro M. destruct (run_dops_inv ops _ new_inv) as (g0 & D). apply (clean_sound _ g0); assumption.
Qed.

Theorem noname_partial_write_dirty ops b en walk : let e := run_dops ebuf_new ops in
  (Nat.eqb b 0 && Nat.eqb en (length (ln (lb e))) = false) -> forallb is_walk walk = true ->
  dirty_flag (run_dops (run_dop e (DSaveOwn b en)) walk) = true.
Proof. cbv zeta. apply partial_write_dirty_inv, run_dops_inv, new_inv. Qed.

Theorem quit_sound_reachable0 bufs : Forall reachable0 bufs -> snd (ec_quit false bufs) = true ->
  Forall (fun b => ln (lb b) = disk b) bufs.
Proof. intros H. apply quit_sound. eapply Forall_impl; [|exact H]. apply reachable0_EInv. Qed.

Theorem quit_tab_sound_reachable0 t : length t = NSLOTS -> Forall reachable0 (occupied t) -> snd (ec_quit_tab false t) = true ->
  Forall (fun b => ln (lb b) = disk b) (occupied t).
Proof. intros _ H. apply quit_tab_sound. eapply Forall_impl; [|exact H]. apply reachable0_EInv. Qed.

Theorem guard_sound_reachable0 b rest : reachable0 b -> snd (guard_current false (b :: rest)) = false -> ln (lb b) = disk b.
Proof. intro H. apply guard_sound, reachable0_EInv, H. Qed.

(* :e without a file name (and :e +cmd), no `!`, on a buffer reported modified: refused; text, undo history, undo position, ghost
   disk and the flag of every buffer are kept (only the command counter of the current one moves) *)
Theorem edit_noarg_refused b rest file : dirty_flag b = true ->
  ec_edit_noarg false file (b :: rest) = (fst (bufs_modified b) :: rest, true) /\
  map content (fst (ec_edit_noarg false file (b :: rest))) = map content (b :: rest) /\
  map dirty_flag (fst (ec_edit_noarg false file (b :: rest))) = map dirty_flag (b :: rest).
Proof.
  intro F. unfold ec_edit_noarg. cbn [guard_current]. unfold bufs_modified. cbn [fst snd]. change (snd (lbuf_modified (lb b))) with (dirty_flag b). rewrite F.
  cbn [fst snd map]. repeat split.
Qed.

Lemma reload_state b file : let b' := run_dop b (DReload file) in
  ln (lb b') = lines_of file /\ disk b' = lines_of file /\ dirty_flag b' = false.
Proof.
  cbv zeta. cbn [run_dop lb disk]. unfold dirty_flag. cbn [lb]. rewrite saved_flag. repeat split.
  change (ln (lbuf_saved ?l false)) with (ln l). apply edit_whole_ln.
Qed.

(* ... and it goes through only on a buffer whose text equals the ghost disk: what the reload replaces is in the file.  Afterwards
   the text is the file's, the ghost disk is the text, the flag is off, and the buffer is again a reachable one *)
Theorem edit_noarg_sound b rest file : reachable0 b -> snd (ec_edit_noarg false file (b :: rest)) = false ->
  ln (lb b) = disk b /\
  exists b', fst (ec_edit_noarg false file (b :: rest)) = b' :: rest /\
             ln (lb b') = lines_of file /\ disk b' = lines_of file /\ dirty_flag b' = false /\ reachable0 b'.
Proof.
  intros R. unfold ec_edit_noarg. cbn [guard_current]. unfold bufs_modified. cbn [fst snd]. change (snd (lbuf_modified (lb b))) with (dirty_flag b).
  destruct (dirty_flag b) eqn:F; cbn [fst snd]; [discriminate|]. intros _.
  split; [apply (guard_sound b rest (reachable0_EInv _ R)); cbn; exact F|].
  eexists. split; [reflexivity|].
  destruct (reload_state {| lb := fst (lbuf_modified (lb b)); disk := disk b |} file) as (A & B & C).
  split; [exact A|]. split; [exact B|]. split; [exact C|].
  exact (reachable0_step b [DBump; DReload file] R).
Qed.

(* :e! without a file name: the reload, whatever the flag says *)
Theorem edit_noarg_force b rest file :
  exists b', ec_edit_noarg true file (b :: rest) = (b' :: rest, false) /\
             ln (lb b') = lines_of file /\ disk b' = lines_of file /\ dirty_flag b' = false /\ (reachable0 b -> reachable0 b').
Proof.
  unfold ec_edit_noarg. cbn [guard_current]. eexists. split; [reflexivity|].
  destruct (reload_state b file) as (A & B & C). split; [exact A|]. split; [exact B|]. split; [exact C|].
  intro R. exact (reachable0_step b [DReload file] R).
Qed.

(* :e % / :e <own path>: refused on a buffer reported modified; otherwise nothing but the command counter moves (no read) *)
Theorem edit_own_spec force b rest :
  (force = false -> dirty_flag b = true ->
     ec_edit_own force (b :: rest) = (fst (bufs_modified b) :: rest, true)) /\
  (snd (ec_edit_own force (b :: rest)) = false ->
     map content (fst (ec_edit_own force (b :: rest))) = map content (b :: rest) /\
     map dirty_flag (fst (ec_edit_own force (b :: rest))) = map dirty_flag (b :: rest) /\
     (force = false -> reachable0 b -> ln (lb b) = disk b)).
Proof.
  unfold ec_edit_own. destruct force; cbn [guard_current].
  - split; [discriminate|]. intros _. cbn [fst snd map]. repeat split. discriminate.
  - unfold bufs_modified. cbn [fst snd]. change (snd (lbuf_modified (lb b))) with (dirty_flag b). destruct (dirty_flag b) eqn:F; cbn [fst snd].
    + split; [reflexivity | discriminate].
    + split; [discriminate|]. intros _. cbn [map]. repeat split.
      intros _ R. apply (guard_sound b rest (reachable0_EInv _ R)). cbn. exact F.
Qed.

(* ------------------------------------------------------------------------------------------ *)
(* ec_write and the buffer's name (fix 268c549): a write to a pipe changes nothing; a buffer without a name has nothing on disk *)
Theorem pipe_write_neutral f b en : ec_write_named WPipe b en f = (f, false).
Proof. reflexivity. Qed.

Definition NInv (f : nbuf) : Prop := EInv (nb f) /\ (nname f = None -> disk (nb f) = []).

Lemma nrun_op_inv f o : NInv f -> NInv (nrun_op f o).
Proof.
  intros [I Dk]. destruct o as [buf b e| | | |c|t b e]; cbn [nrun_op].
  - split; cbn [nb nname]; [apply run_dop_inv, I | exact Dk].
  - split; cbn [nb nname]; [apply run_dop_inv, I | exact Dk].
  - split; cbn [nb nname]; [apply run_dop_inv, I|]. intro N. cbn [run_dop]. destruct (lbuf_undo (lb (nb f))); cbn [disk]; auto.
  - split; cbn [nb nname]; [apply run_dop_inv, I|]. intro N. cbn [run_dop]. destruct (lbuf_redo (lb (nb f))); cbn [disk]; auto.
  - destruct (nname f) as [q|] eqn:N.
    + split; cbn [nb nname]; [apply run_dop_inv, I | discriminate].
    + split; [exact I | intros _; apply Dk; reflexivity].
  - destruct t as [|p|]; cbn [ec_write_named].
    + destruct (nname f) as [q|] eqn:N; cbn [fst].
      * split; cbn [nb nname]; [apply write_own_inv, I | discriminate].
      * split; [exact I | intros _; apply Dk; reflexivity].
    + destruct (nname f) as [q|] eqn:N.
      * destruct (Nat.eqb p q); cbn [fst].
        -- split; cbn [nb nname]; [apply write_own_inv, I | discriminate].
        -- split; [exact I | rewrite N; discriminate].
      * cbn [fst]. split; cbn [nb nname]; [apply write_own_inv, I | discriminate].
    + cbn [fst]. split; [exact I | exact Dk].
Qed.

Lemma nrun_inv ops : forall f, NInv f -> NInv (nrun f ops).
Proof. induction ops as [|o ops IH]; intros f H; [exact H|]. cbn [nrun]. apply IH, nrun_op_inv, H. Qed.

Lemma nbuf_new_inv : NInv nbuf_new.
Proof. split; [apply new_inv | reflexivity]. Qed.
Lemma nbuf_open_inv c p : NInv (nbuf_open c p).
Proof. split; [apply open_inv | discriminate]. Qed.

Definition nstart (f : nbuf) : Prop := f = nbuf_new \/ exists c p, f = nbuf_open c p.
Lemma nstart_inv f : nstart f -> NInv f.
Proof. intros [->|(c & p & ->)]; [apply nbuf_new_inv | apply nbuf_open_inv]. Qed.

(* over ALL histories (from either start): clean => text = ghost disk; and a pipe write leaves the name, the text, the log,
   the undo position, the ghost disk and the flag as they are *)
Theorem named_history_sound f0 ops : nstart f0 -> let f := nrun f0 ops in
  (dirty_flag (nb f) = false -> ln (lb (nb f)) = disk (nb f)) /\
  (nname f = None -> disk (nb f) = []) /\
  forall b en, let f' := nrun_op f (NWrite WPipe b en) in
    nname f' = nname f /\ content (nb f') = content (nb f) /\ dirty_flag (nb f') = dirty_flag (nb f) /\ disk (nb f') = disk (nb f).
Proof.
  intro S. cbv zeta. destruct (nrun_inv ops f0 (nstart_inv _ S)) as [(g0 & D) Dk].
  split; [intro M; apply (clean_sound _ g0); assumption|]. split; [exact Dk|]. intros b en. cbn. repeat split.
Qed.

(* the repaired behaviour: after ANY history, a buffer that still has no name and holds some text is reported modified -- before and
   after a write of it to a pipe --, :q over any table holding it is refused and so is the guard of :e / :b *)
Theorem unnamed_pipe_quit ops b en pre post : let f := nrun nbuf_new ops in
  nname f = None -> ln (lb (nb f)) <> [] ->
  let f' := nrun_op f (NWrite WPipe b en) in
  nname f' = None /\ ln (lb (nb f')) = ln (lb (nb f)) /\ dirty_flag (nb f') = true /\
  snd (ec_quit false (pre ++ nb f' :: post)) = false /\ snd (guard_current false (nb f' :: post)) = true.
Proof.
  cbv zeta. intros N T. destruct (nrun_inv ops _ nbuf_new_inv) as [(g0 & D) Dk].
  assert (F : dirty_flag (nb (nrun nbuf_new ops)) = true).
  { destruct (dirty_flag (nb (nrun nbuf_new ops))) eqn:M; [reflexivity|]. exfalso. apply T.
    rewrite (clean_sound _ g0 _ D M). apply Dk, N. }
  cbn [nrun_op ec_write_named fst]. split; [exact N|]. split; [reflexivity|]. split; [exact F|]. split.
  - apply (quit_refuses (pre ++ nb (nrun nbuf_new ops) :: post) (nb (nrun nbuf_new ops))); [apply in_elt | exact F].
  - apply guard_refuses, F.
Qed.
