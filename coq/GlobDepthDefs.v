(* GlobDepthDefs.v -- C15: the command interpreter of ExDefs.v instrumented with the trace of the nesting depths it hands to
   lbuf_globset / lbuf_globget (the second argument `xgdep` of every call in ec_glob: the marking loop, the scan
   `while (i < lbuf_len(xb) && !lbuf_globget(xb, i, xgdep))`, the final sweep).  Every call of one of these three loops passes
   the same depth; the trace has one entry per loop run.  No proofs. *)
From Coq Require Import List NArith ZArith Bool.
From NV Require Import Bytes ExDefs.
Import ListNotations.
Local Open Scope Z_scope.

Section D.
Variable rvalid : bytes -> bool.
Variable rfind : bytes -> bytes -> bool -> option (nat * nat).
Variable filter : bytes -> bytes -> option bytes.
Variable readfile : bytes -> option bytes.
Variable curpath : bytes.

Section GlobD.
Variable execd : bytes -> st -> st * Z * list N.

Fixpoint glob_loop_d (fuel : nat) (i : nat) (pat body : bytes) (not : bool) (dep : N) (s : st) : st * list N :=
  match fuel with
  | O => (flag s F_OOF, [])
  | S f =>
    match nth_error (lns (lb s)) i with
    | None => (s, [])
    | Some x =>
      let hit := match rfind pat (ltxt x) false with Some _ => true | None => false end in
      let run := Bool.eqb (negb hit) not in
      let '(s1, r, t1) := if run then execd body (set_xrow s (Z.of_nat i)) else (s, 0, []) in
      if run && negb (r =? 0) then (s1, t1)
      else
        let i1 := if run then Z.to_nat (Z.min (Z.of_nat i) (xrow s1)) else i in
        let '(j, l) := glob_scan i1 dep (lb s1) in                          (* lbuf_globget(xb, i, dep) ... *)
        let '(s2, t2) := glob_loop_d f j pat body not dep (set_lb s1 l) in
        (s2, t1 ++ dep :: t2)
    end
  end.

Definition ec_glob_d (fuel : nat) (loc cmd arg : bytes) (s : st) : st * Z * list N :=
  if (GDEPMAX <=? xgdep s)%nat then (emit s (OMsg M_GDEEP), 1, []) else
  let loc := match loc, xgdep s with [], O => [37%N] | _, _ => loc end in
  let '(bad, b, e, s1) := ex_region rvalid rfind loc s in
  if bad || ex_zero loc b e then (s1, 1, [])
  else
    let not := mem 33 cmd || (hd0 cmd =? 118)%N in
    let '(pat, body) := re_read arg in
    let s2 := kwdset_if s1 pat 1 in
    if kwddir s2 =? 0 then (s2, 1, [])
    else if negb (rvalid (kwd s2)) then (s2, 1, [])
    else
      let dep := S (xgdep s2) in
      let dp := N.of_nat dep in
      let s3 := set_gdep s2 dep in
      let s4 := set_lb s3 (globset_range (Z.to_nat (e - b - 1)) (Z.to_nat (b + 1)) dp (lb s3)) in      (* lbuf_globset(xb, i, dp) *)
      let '(s5, t) := glob_loop_d fuel (Z.to_nat b) (kwd s4) body not dp s4 in
      let s6 := set_lb s5 (globclear (length (lns (lb s5))) 0 dp (lb s5)) in                         (* lbuf_globget(xb, i, dp) *)
      (set_gdep s6 (xgdep s2), 0, dp :: t ++ [dp]).

Definition ec_at_d (loc arg : bytes) (s : st) : st * Z * list N :=
  if reg_special (REG arg) then (flag s F_UNSUP, 1, []) else
  match reg_get s (REG arg) with
  | None => (s, 1, [])
  | Some buf =>
    let '(bad, b, e, s1) := ex_region rvalid rfind loc s in
    if bad || ex_zero loc b e then (s1, 1, [])
    else let '(s2, r, t) := execd buf (set_xrow s1 b) in (bump s2, r, t)
  end.
End GlobD.

Fixpoint ex_exec_d (fuel : nat) (ret : Z) (ln : bytes) (s : st) : st * Z * list N :=
  match fuel with
  | O => (flag s F_OOF, 1, [])
  | S f =>
    match ln with
    | [] => (s, ret, [])
    | _ =>
      let '(ln1, loc) := ex_loc ln in
      let '(ln2, cmd) := ex_cmd ln1 in
      let idx := ex_idx cmd in
      let abbr := match idx with Some a => a | None => str [117;110;107;110;111;119;110]%N end in
      let '(ln3, arg) := ex_arg ln2 abbr in
      let '(ln4, txt, s1) := ex_txt ln3 abbr s in
      let '(s2, ret2, t2) :=
        match idx with
        | None => (if is_other cmd then flag s1 F_UNSUP else emit s1 (OMsg M_UNKNOWN), ret, [])
        | Some a =>
          if (hd0 a =? 103)%N || (hd0 a =? 118)%N then ec_glob_d (ex_exec_d f 0) f loc cmd arg s1
          else if (hd0 a =? 64)%N then ec_at_d (ex_exec_d f 0) loc arg s1
          else (ex_simple rvalid rfind filter readfile curpath a loc cmd arg txt s1, [])
        end in
      let '(s3, ret3, t3) := ex_exec_d f ret2 ln4 s2 in
      (s3, ret3, t2 ++ t3)
    end
  end.

Fixpoint ex_main_d (n : nat) (fuel : nat) (s : st) : st * list N :=
  match n with
  | O => (flag s F_OOF, [])
  | S n' =>
    if xquit s then (s, [])
    else match inp s with
         | [] => (flag s F_EOF, [])
         | ln :: rest =>
           let '(s1, _, t1) := ex_exec_d fuel 0 ln (set_inp s rest) in
           let s1 := bump s1 in
           let '(s2, t2) := ex_main_d n' fuel (set_regs s1 (reg_put (regs s1) 58 ln)) in
           (s2, t1 ++ t2)
         end
  end.
End D.
