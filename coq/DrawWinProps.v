(* DrawWinProps.v -- what the terminal log of the drawing functions of vi.c does to the text rows (DrawWinDefs.replay) is what the
   model of DrawDefs.v says: vi_drawrow = drawrow, a run of vi_drawrow calls = draw_range, vi_drawagain = drawagain, vi_drawupdate =
   drawupdate (so, by DrawProps.drawupdate_is_repaint, the window at the old top becomes the window at the new top). *)
From Coq Require Import List ZArith NArith Bool Lia ZifyBool.
From NV Require Import Bytes TermEmu DrawDefs DrawProps DrawWinDefs.
Import ListNotations.
Local Open Scope Z_scope.

Lemma replay_app h s a b : replay h s (a ++ b) = replay h (replay h s a) b.
Proof. unfold replay. apply fold_left_app. Qed.

(* for (k = 0; k < cnt; k++) vi_drawrow(a + k) *)
Fixpoint range_evs (evs_of : Z -> list tev) (a : Z) (cnt : nat) : list tev :=
  match cnt with O => [] | S c => evs_of a ++ range_evs evs_of (a + 1) c end.
Lemma range_evs_snoc evs_of cnt : forall a, range_evs evs_of a (S cnt) = range_evs evs_of a cnt ++ evs_of (a + Z.of_nat cnt).
Proof.
  induction cnt as [|c IH]; intro a; [cbn [range_evs]; rewrite app_nil_r, Z.add_0_r; reflexivity|].
  change (range_evs evs_of a (S (S c))) with (evs_of a ++ range_evs evs_of (a + 1) (S c)). rewrite IH.
  cbn [range_evs]. rewrite <- app_assoc. do 3 f_equal. lia.
Qed.

Section Rows.
  Variables (lines : list bytes) (ft : bytes) (top : nat) (xrow xleft xhll xhl hl : Z) (h : nat).
  Notation f := (row_img lines ft xrow xleft xhll xhl hl).
  Notation evs_of := (drawrow_evs lines ft (Z.of_nat top) xrow xleft xhll xhl hl).

  (* vi_drawrow(i) on a screen whose context attribute is reset *)
  Lemma replay_drawrow s (i : nat) : s_ctx s = 0 ->
    s_ctx (replay h s (evs_of (Z.of_nat i))) = 0 /\
    s_rows (replay h s (evs_of (Z.of_nat i))) = drawrow rowimg f top h i (s_rows s).
  Proof.
    intro Hc. destruct s as [cur ctx rows]. cbn [s_ctx s_rows] in *. subst ctx. unfold drawrow_evs, drawrow, row_img.
    assert (Eb : (0 <=? Z.of_nat i - Z.of_nat top) && (Z.of_nat i - Z.of_nat top <? Z.of_nat h) = ((top <=? i)%nat && (i <? top + h)%nat)).
    { destruct (Nat.leb_spec top i); destruct (Nat.ltb_spec i (top + h)); lia. }
    assert (En : Z.to_nat (Z.of_nat i - Z.of_nat top) = (i - top)%nat) by lia.
    destruct (negb (xhll =? 0) && (Z.of_nat i =? xrow)); cbn [app replay fold_left step_ev s_cur s_ctx s_rows];
      rewrite Eb, En; split; reflexivity.
  Qed.
  Lemma replay_range cnt : forall s (a : nat), s_ctx s = 0 ->
    s_ctx (replay h s (range_evs evs_of (Z.of_nat a) cnt)) = 0 /\
    s_rows (replay h s (range_evs evs_of (Z.of_nat a) cnt)) = draw_range rowimg f top h a cnt (s_rows s).
  Proof.
    induction cnt as [|c IH]; intros s a Hc; [split; [exact Hc|reflexivity]|].
    cbn [range_evs]. rewrite replay_app. destruct (replay_drawrow s a Hc) as [H1 H2].
    replace (Z.of_nat a + 1) with (Z.of_nat (S a)) by lia.
    destruct (IH (replay h s (evs_of (Z.of_nat a))) (S a) H1) as [H3 H4]. split; [exact H3|].
    rewrite H4, H2. unfold draw_range. reflexivity.
  Qed.
  (* every led_print of a run that stays inside the window lands on a text row *)
  Lemma drawrow_inside (i : nat) : (top <= i < top + h)%nat -> forallb (print_inside h) (evs_of (Z.of_nat i)) = true.
  Proof.
    intro Hi. unfold drawrow_evs. destruct (negb (xhll =? 0) && (Z.of_nat i =? xrow)); cbn [app forallb print_inside andb];
      rewrite ?andb_true_r; lia.
  Qed.
  Lemma range_inside cnt : forall a : nat, (top <= a)%nat -> (a + cnt <= top + h)%nat -> forallb (print_inside h) (range_evs evs_of (Z.of_nat a) cnt) = true.
  Proof.
    induction cnt as [|c IH]; intros a H1 H2; [reflexivity|]. cbn [range_evs]. rewrite forallb_app, drawrow_inside by lia.
    replace (Z.of_nat a + 1) with (Z.of_nat (S a)) by lia. rewrite IH by lia. reflexivity.
  Qed.

  (* vi_drawagain(xcol, row): row < 0 draws every row of the window, else that row alone; then the message row *)
  Definition again_evs (row : Z) : list tev :=
    (if row <? 0 then range_evs evs_of (Z.of_nat top) h
     else if (Z.of_nat top <=? row) && (row <? Z.of_nat top + Z.of_nat h) then evs_of row else []) ++ [TMsg].
  Lemma replay_again_all s : s_ctx s = 0 -> length (s_rows s) = h ->
    s_rows (replay h s (again_evs (-1))) = win rowimg f top h /\ s_ctx (replay h s (again_evs (-1))) = 0.
  Proof.
    intros Hc Hl. unfold again_evs. cbn [Z.ltb Z.compare]. rewrite replay_app. destruct (replay_range h s top Hc) as [H1 H2].
    cbn [replay fold_left step_ev]. rewrite H2. split; [|exact H1]. exact (drawagain_all rowimg f top h (s_rows s) Hl).
  Qed.
  Lemma replay_again_row s (r : nat) : s_ctx s = 0 ->
    s_rows (replay h s (again_evs (Z.of_nat r))) = drawagain rowimg f top h (Some r) (s_rows s) /\ s_ctx (replay h s (again_evs (Z.of_nat r))) = 0.
  Proof.
    intros Hc. unfold again_evs, drawagain. destruct (Z.ltb_spec (Z.of_nat r) 0); [lia|]. rewrite replay_app.
    destruct ((Z.of_nat top <=? Z.of_nat r) && (Z.of_nat r <? Z.of_nat top + Z.of_nat h)) eqn:E.
    - destruct (replay_drawrow s r Hc) as [H1 H2]. cbn [replay fold_left step_ev] in *. split; assumption.
    - cbn [replay fold_left step_ev]. split; [|exact Hc]. unfold drawrow.
      replace ((top <=? r)%nat && (r <? top + h)%nat) with false; [reflexivity|].
      destruct (Nat.leb_spec top r); destruct (Nat.ltb_spec r (top + h)); lia.
  Qed.
End Rows.

(* vi_drawupdate(otop) at the new top xtop: term_pos(0, 0), term_room(otop - xtop), the min(|otop - xtop|, h) exposed rows, the message row *)
Definition update_evs (evs_of : Z -> list tev) (h otop xtop : Z) : list tev :=
  (if otop =? xtop then []
   else [TPos 0 0; TRoom (otop - xtop)] ++
        (if otop <? xtop then let n := Z.min (xtop - otop) h in range_evs evs_of (xtop + h - n) (Z.to_nat n)
         else let n := Z.min (otop - xtop) h in range_evs evs_of xtop (Z.to_nat n))) ++ [TMsg].

Section Update.
  Variables (lines : list bytes) (ft : bytes) (xrow xleft xhll xhl hl : Z) (h : nat).
  Notation f := (row_img lines ft xrow xleft xhll xhl hl).

  Lemma replay_update s (otop xtop : nat) : s_ctx s = 0 ->
    let evs := update_evs (drawrow_evs lines ft (Z.of_nat xtop) xrow xleft xhll xhl hl) (Z.of_nat h) (Z.of_nat otop) (Z.of_nat xtop) in
    s_rows (replay h s evs) = drawupdate rowimg blank_img f h otop xtop (s_rows s) /\ s_ctx (replay h s evs) = 0 /\
    forallb (print_inside h) evs = true.
  Proof.
    intros Hc. cbv zeta. unfold update_evs, drawupdate.
    destruct (Z.eqb_spec (Z.of_nat otop) (Z.of_nat xtop)) as [E|E].
    - replace (otop =? xtop)%nat with true by (symmetry; apply Nat.eqb_eq; lia). cbn [app replay fold_left step_ev forallb print_inside]. auto.
    - replace (otop =? xtop)%nat with false by (symmetry; apply Nat.eqb_neq; lia).
      rewrite !replay_app, !forallb_app. cbn [replay fold_left step_ev s_cur s_ctx s_rows forallb print_inside andb Z.ltb Z.compare].
      change (Z.to_nat 0) with O.
      set (s1 := {| s_cur := 0; s_ctx := s_ctx s; s_rows := term_room rowimg blank_img h (Z.of_nat otop - Z.of_nat xtop) 0 (s_rows s) |}).
      destruct (Z.ltb_spec (Z.of_nat otop) (Z.of_nat xtop)) as [L|L].
      + replace (otop <? xtop)%nat with true by (symmetry; apply Nat.ltb_lt; lia). cbv zeta.
        replace (Z.to_nat (Z.min (Z.of_nat xtop - Z.of_nat otop) (Z.of_nat h))) with (Nat.min (xtop - otop) h) by lia.
        replace (Z.of_nat xtop + Z.of_nat h - Z.min (Z.of_nat xtop - Z.of_nat otop) (Z.of_nat h)) with (Z.of_nat (xtop + h - Nat.min (xtop - otop) h)) by lia.
        destruct (replay_range lines ft xtop xrow xleft xhll xhl hl h (Nat.min (xtop - otop) h) s1 (xtop + h - Nat.min (xtop - otop) h)%nat Hc) as [H1 H2].
        rewrite H2, H1, range_inside by lia. auto.
      + replace (otop <? xtop)%nat with false by (symmetry; apply Nat.ltb_ge; lia). cbv zeta.
        replace (Z.to_nat (Z.min (Z.of_nat otop - Z.of_nat xtop) (Z.of_nat h))) with (Nat.min (otop - xtop) h) by lia.
        destruct (replay_range lines ft xtop xrow xleft xhll xhl hl h (Nat.min (otop - xtop) h) s1 xtop Hc) as [H1 H2].
        rewrite H2, H1, range_inside by lia. auto.
  Qed.

  (* the invariant "the text rows are the window of the buffer at the top line" is carried from the old top to the new one *)
  Theorem update_keeps_window cur (otop xtop : nat) :
    let evs := update_evs (drawrow_evs lines ft (Z.of_nat xtop) xrow xleft xhll xhl hl) (Z.of_nat h) (Z.of_nat otop) (Z.of_nat xtop) in
    s_rows (replay h (mkScr cur 0 (win rowimg f otop h)) evs) = win rowimg f xtop h.
  Proof.
    cbv zeta. destruct (replay_update (mkScr cur 0 (win rowimg f otop h)) otop xtop eq_refl) as [H _]. cbv zeta in H. rewrite H.
    cbn [s_rows]. apply drawupdate_is_repaint.
  Qed.
End Update.
