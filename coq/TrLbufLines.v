(* TrLbufLines.v -- the line splitting helpers of /repo/lbuf.c, linelength and linecount: the model (IoDefs.linecount =
   the number of lines of IoDefs.split_lines; linelen below = the length of the first of them in the text) is what the C text
   says, on the translated C text (GenCFuncs.v) run on a memory that holds the NUL-terminated string.  strchr and strlen are
   the builtins of CLite.v (lemmas builtin_strchr / builtin_strlen of CLiteProps.v). *)
From Coq Require Import List ZArith NArith Bool Lia.
From NV Require Import Bytes CLite CLiteProps GenCFuncs CLiteTac IoDefs.
Import ListNotations.
Local Open Scope Z_scope.

(* linelength(s): up to and including the first newline, the whole rest when there is none *)
Fixpoint linelen (s : bytes) : nat :=
  match s with
  | [] => O
  | c :: s' => if is_nl c then 1%nat else S (linelen s')
  end.

Lemma linelen_find t : linelen t = match find_byte NL t with Some k => S k | None => length t end.
Proof.
  induction t as [|c t IH]; [reflexivity|]. cbn [linelen find_byte length]. unfold is_nl.
  destruct (c =? NL)%N; [reflexivity|]. rewrite IH. destruct (find_byte NL t); reflexivity.
Qed.
Lemma linelen_le t : (linelen t <= length t)%nat.
Proof. induction t as [|c t IH]; cbn [linelen length]; [lia|]. destruct (is_nl c); lia. Qed.
Lemma linelen_pos t : t <> [] -> (1 <= linelen t)%nat.
Proof. destruct t as [|c t]; [congruence|]. intros _. cbn [linelen]. destruct (is_nl c); lia. Qed.
(* the model's line count, one line at a time *)
Lemma linecount_aux_step t : forall inl, t <> [] -> linecount_aux inl t = S (linecount (skipn (linelen t) t)).
Proof.
  induction t as [|c t IH]; intros inl H; [congruence|]. cbn [linecount_aux linelen].
  destruct (is_nl c); [reflexivity|]. cbn [skipn]. destruct t as [|c' t']; [reflexivity|]. apply IH. discriminate.
Qed.
Lemma linecount_step t : t <> [] -> linecount t = S (linecount (skipn (linelen t) t)).
Proof. apply linecount_aux_step. Qed.
(* ... and the model's split: the first line is the first linelen bytes (re-terminated), the rest is the split of the rest *)
Lemma split_aux_step t : forall cur, t <> [] ->
  split_aux cur t = norm (rev cur ++ firstn (linelen t) t) :: split_lines (skipn (linelen t) t).
Proof.
  induction t as [|c t IH]; intros cur H; [congruence|]. cbn [split_aux linelen]. destruct (is_nl c) eqn:E.
  - assert (c = NL) by (apply N.eqb_eq; exact E). subst c.
    cbn [firstn skipn]. unfold norm. rewrite rev_app_distr. cbn [rev app]. rewrite E. reflexivity.
  - cbn [firstn skipn]. destruct t as [|c' t'].
    + cbn [split_aux linelen firstn skipn]. unfold norm. rewrite rev_app_distr. cbn [rev app]. rewrite E.
      destruct cur; cbn; rewrite <- ?app_assoc; reflexivity.
    + rewrite IH by discriminate. cbn [rev]. rewrite <- app_assoc. reflexivity.
Qed.
Lemma split_lines_step t : t <> [] -> split_lines t = norm (firstn (linelen t) t) :: split_lines (skipn (linelen t) t).
Proof. intro H. unfold split_lines at 1. rewrite split_aux_step by exact H. reflexivity. Qed.

(* ------------------------------------------------------------------ linelength *)
Lemma chk_I64_small z : 0 <= z <= 4294967296 -> chk I64 z = Ok z.
Proof.
  intro H. unfold chk, in_range, ity_min, ity_max, ity_signed, ity_bits.
  change (- 2 ^ (64 - 1)) with (-9223372036854775808). change (2 ^ (64 - 1) - 1) with 9223372036854775807.
  destruct (Z.leb_spec (-9223372036854775808) z); [|lia]. destruct (Z.leb_spec z 9223372036854775807); [|lia]. reflexivity.
Qed.

(* char *r = strchr(s, '\n'); return r ? r - s + 1 : strlen(s);   the result is an int: the string must be shorter than 2 GB *)
Theorem tr_linelength m b s o d fuel : str_at m b s -> nonul s -> (o <= length s)%nat -> Z.of_nat (length s) <= 2147483647 ->
  callf cprog fuel (S d) F_lbuf_linelength [VPtr b (Z.of_nat o)] m = Ok (VInt (Z.of_nat (linelen (skipn o s))), m).
Proof.
  intros Hs Hn Ho Hmax. enter F_lbuf_linelength cf_lbuf_linelength. xstep.
  change 10 with (Z.of_N NL). rewrite (builtin_strchr m b s o NL Hs Hn Ho) by (unfold NL; lia). xstep.
  rewrite linelen_find. destruct (find_byte NL (skipn o s)) as [k|] eqn:E.
  - destruct (find_byte_lt _ _ _ E) as [Hk _]. rewrite skipn_length in Hk. xstep. rewrite Nat.eqb_refl. xstep.
    replace ((Z.of_nat o + Z.of_nat k - Z.of_nat o) ÷ 1 + wrap I64 1) with (Z.of_nat (S k))
      by (rewrite Z.quot_1_r; change (wrap I64 1) with 1; lia).
    rewrite chk_I64_small by lia. xstep. rewrite wrap_U64_id by lia. rewrite wrap_I32_id by lia. reflexivity.
  - xstep. rewrite (builtin_strlen m b s o Hs Hn Ho). xstep. rewrite wrap_I32_id by lia. rewrite skipn_length. reflexivity.
Qed.

(* ------------------------------------------------------------------ linecount *)
Definition lc_loop : stmt := match fn_body cf_lbuf_linecount with SSeq (SSeq _ w) _ => w | _ => SSkip end.
Lemma cc_nz32 : forall c, (c < 256)%N -> negb (wrap I32 (wrap I8 (Z.of_N c)) =? 0) = negb (c =? 0)%N.
Proof. byte_fact. Qed.

Lemma lc_loop_ok m b s d fuel : str_at m b s -> nonul s -> Z.of_nat (length s) <= 2147483647 ->
  forall k o n fuel', linecount (skipn o s) = k -> (o <= length s)%nat -> 0 <= n <= Z.of_nat o -> (k < fuel')%nat ->
  exists o', exec (callf cprog fuel (S d)) fuel' lc_loop (mkst [VPtr b (Z.of_nat o); VInt n] m)
             = ONormal (mkst [VPtr b (Z.of_nat o'); VInt (n + Z.of_nat k)] m).
Proof.
  intros Hs Hn Hmax. pose proof (nonul_lt256 s Hn) as H256.
  induction k as [|k IH]; intros o n fuel' Hk Ho Hnn Hf; (destruct fuel' as [|fuel']; [lia|]);
    unfold lc_loop; cbn [fn_body cf_lbuf_linecount]; rewrite exec_for; xstep;
    rewrite (load_str m b s _ o Hs) by lia; xstep; rewrite (cc_nz32 _ (nthb_lt256 s o H256)).
  - (* no line left: the pointer is at the terminator *)
    destruct (Nat.eq_dec o (length s)) as [->|Hne].
    + rewrite nthb_end by lia. cbn [N.eqb negb]. exists (length s). rewrite Z.add_0_r. reflexivity.
    + exfalso. rewrite linecount_step in Hk; [discriminate|]. rewrite (skipn_cons_nthb s o) by lia. discriminate.
  - destruct (Nat.eq_dec o (length s)) as [->|Hne]; [rewrite skipn_all in Hk; discriminate|].
    assert (Hne0 : skipn o s <> []) by (rewrite (skipn_cons_nthb s o) by lia; discriminate).
    assert (Hnz : (nthb s o =? 0)%N = false).
    { apply N.eqb_neq. unfold nonul in Hn. rewrite Forall_forall in Hn. destruct (Hn (nthb s o)) as [Hp _]; [apply nth_In; lia|lia]. }
    rewrite Hnz. cbn [negb].
    rewrite (tr_linelength m b s o d fuel Hs Hn Ho Hmax). xstep.
    set (l := linelen (skipn o s)) in *.
    assert (Hl : (1 <= l <= length s - o)%nat).
    { split; [apply linelen_pos; exact Hne0|]. unfold l. rewrite <- (skipn_length o s). apply linelen_le. }
    rewrite chk_I32 by lia. xstep.
    rewrite linecount_step in Hk by exact Hne0. injection Hk as Hk. fold l in Hk. rewrite skipn_skipn in Hk.
    replace (Z.of_nat o + 1 * Z.of_nat l) with (Z.of_nat (o + l)) by lia.
    destruct (IH (o + l)%nat (n + 1) fuel' Hk ltac:(lia) ltac:(lia) ltac:(lia)) as [o' X].
    unfold lc_loop in X; cbn [fn_body cf_lbuf_linecount] in X. rewrite X. exists o'. replace (n + Z.of_nat (S k)) with (n + 1 + Z.of_nat k) by lia. reflexivity.
Qed.

(* for (n = 0; s && *s; n++) s += linelength(s); return n;   -- also for s = NULL *)
Theorem tr_linecount m b s o d fuel : str_at m b s -> nonul s -> (o <= length s)%nat -> Z.of_nat (length s) <= 2147483647 ->
  (linecount (skipn o s) < fuel)%nat ->
  callf cprog fuel (S (S d)) F_lbuf_linecount [VPtr b (Z.of_nat o)] m = Ok (VInt (Z.of_nat (linecount (skipn o s))), m).
Proof.
  intros Hs Hn Ho Hmax Hf. enter F_lbuf_linecount cf_lbuf_linecount. xstep.
  destruct (lc_loop_ok m b s d fuel Hs Hn Hmax _ o 0 fuel eq_refl Ho ltac:(lia) Hf) as [o' X].
  unfold lc_loop in X; cbn [fn_body cf_lbuf_linecount] in X. rewrite X. xstep. reflexivity.
Qed.
Theorem tr_linecount_null m d fuel : (0 < fuel)%nat ->
  callf cprog fuel (S (S d)) F_lbuf_linecount [VInt 0] m = Ok (VInt 0, m).
Proof.
  intro Hf. destruct fuel as [|fuel]; [lia|]. enter F_lbuf_linecount cf_lbuf_linecount. xstep. rewrite exec_for. xstep. reflexivity.
Qed.
