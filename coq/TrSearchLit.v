(* TrSearchLit.v -- lbuf_search on the C text for a LITERAL pattern, with no assumption about rstr_find.

   TrSearch.tr_lbuf_search is relative to what rstr_find answers (find_ans).  When rstr_make left a struct rstr whose rs
   field is NULL (the pattern is ^? \<? literal \>? $?), the translated rstr_find never reaches the untranslated rset_find
   and TrRstr.tr_rstr_find proves what it computes for every input: RstrDefs.rstr_find.  Composing the two: for every oracle
   that answers rstr_make with such a struct (and rstr_free with anything), lbuf_search returns what the model says with
   the matcher  find_lit rs = RstrDefs.rstr_find rs  -- the scan AND the matching are those of the C text. *)
From Coq Require Import List ZArith NArith Bool Lia Arith.
From NV Require Import Bytes GenConsts UcDefs RstrDefs CLite CLiteProps GenCFuncs CLiteTac CLiteExt TrLbufBase TrMot TrRstr.
From NV Require SearchDefs.
From NV Require Import TrSearch.
Import ListNotations.
Local Open Scope Z_scope.

Definition find_lit (rs : rstr) (t : bytes) (nb : bool) : option (nat * nat) :=
  match rstr_find rs t nb false with Found so eo => Some (Z.to_nat so, Z.to_nat eo) | _ => None end.

Lemma scan_found rs s : forall k r so eo, scan rs s r k = Found so eo ->
  r <= so < r + Z.of_nat k /\ eo = so + Z.of_nat (length (r_str rs)).
Proof.
  induction k as [|k IH]; intros r so eo H; cbn [scan] in H; [discriminate|].
  destruct (find_at rs s r) as [x|] eqn:E.
  - subst x. unfold find_at in E.
    destruct (if r_wbeg rs then wbeg_skip s r else Some false) as [[|]|]; try discriminate.
    destruct (if r_wend rs then wend_skip s r (Z.of_nat (length (r_str rs))) else Some false) as [[|]|]; try discriminate.
    destruct (rd s r); [|discriminate]. destruct (match_case _ _ _); [|discriminate].
    injection E as <- <-. lia.
  - apply IH in H. lia.
Qed.
Lemma rstr_find_range rs s nb ne so eo : rstr_find rs s nb ne = Found so eo ->
  0 <= so /\ eo = so + Z.of_nat (length (r_str rs)) /\ eo <= Z.of_nat (length s).
Proof.
  unfold rstr_find. destruct (r_lbeg rs && nb); [discriminate|].
  set (len := Z.of_nat (length (r_str rs))). set (e := Z.of_nat (length s) - len - 1).
  destruct (Z.ltb_spec e 0) as [He|He]; [discriminate|]. intro Hs. apply scan_found in Hs. fold len in Hs.
  destruct (r_lend rs), (r_lbeg rs); lia.
Qed.
Lemma find_lit_wf rs : find_wf (find_lit rs).
Proof.
  intros t nb b e H. unfold find_lit in H. destruct (rstr_find rs t nb false) as [so eo| |] eqn:E; try discriminate.
  injection H as <- <-. apply rstr_find_range in E. lia.
Qed.

(* what rstr_find answers on the memories of a scan, proved from the translated rstr_find *)
Lemma find_ans_lit ext F D m1 lb bln lbs lines boffs br bo bl rb bs lit ic lbg le wb we :
  lbuf_at m1 lb bln lbs lines -> lines_small lines -> (length lines + maxlen lines + 4 < F)%nat ->
  (forall k, In k [boffs; br; bo; bl] -> ~ In k (lb :: bln :: lbs)) ->
  nth_error m1 rb = Some (rstr_block bs ic lbg le wb we) -> str_at m1 bs lit -> nonul lit ->
  ~ In rb [boffs; br; bo; bl] -> ~ In bs [boffs; br; bo; bl] ->
  int_ok ic -> int_ok lbg -> int_ok le -> int_ok wb -> int_ok we -> (length lit < F)%nat -> Z.of_nat (length lit) <= 2147483647 ->
  find_ans ext F D m1 lbs lines boffs br bo bl rb 0 (find_lit (rs_of lit ic lbg le wb we)).
Proof.
  intros R Hsm HF Hout Hrb Hbs Hnl Nrb Nbs Iic Ilb Ile Iwb Iwe Hfl Hlm.
  intros m c r o vl i off SM Hc Hi Hoff.
  assert (Hoth : forall k, ~ In k [boffs; br; bo; bl] -> nth_error m k = nth_error m1 k).
  { intros k Hk. apply (sm_other _ _ _ _ _ _ _ _ _ _ SM); intros ->; apply Hk; cbn; tauto. }
  assert (Rm : lbuf_at m lb bln lbs lines).
  { apply (lbuf_at_other m1); [exact R|]. intros k Hk. apply Hoth. intro Hin. exact (Hout k Hin Hk). }
  pose proof (la_str _ _ _ _ _ Rm i Hi) as Hs. pose proof (nthl_nonul lines i (la_nonul _ _ _ _ _ Rm)) as Hnn.
  pose proof (maxlen_ge lines i) as Hml. pose proof (nthl_small lines i Hsm) as Hsmall.
  assert (Hrbm : nth_error m rb = Some (rstr_block bs ic lbg le wb we)) by (rewrite Hoth by exact Nrb; exact Hrb).
  assert (Hbsm : str_at m bs lit) by (unfold str_at; rewrite Hoth by exact Nbs; exact Hbs).
  pose proof (sm_offs _ _ _ _ _ _ _ _ _ _ SM) as Hg.
  set (flg := if (off =? 0)%nat then 0 else 2).
  destruct (tr_rstr_find m rb bs (nth i lbs O) boffs lit (nthl lines i) off ic lbg le wb we 1 flg c false (S D) F
              Hrbm Hbsm Hs Hg ltac:(rewrite Hc; reflexivity) Hnl Hnn Hoff Iic Ilb Ile Iwb Iwe ltac:(lia) Hlm Hsmall Hfl ltac:(cbn; lia))
    as [E Hoob].
  assert (Hnb : nz (Z.land flg RE_NOTBOL) = negb (off =? 0)%nat) by (unfold flg; destruct (off =? 0)%nat; reflexivity).
  rewrite Hnb in E, Hoob. apply (callx_mono ext) in E. unfold find_lit.
  destruct (rstr_find (rs_of lit ic lbg le wb we) (skipn off (nthl lines i)) (negb (off =? 0)%nat) false) as [so eo| |] eqn:ER.
  - destruct (rstr_find_range _ _ _ _ _ _ ER) as (H0 & H1 & H2). exists 0. split; [lia|]. rewrite E.
    cbn [ret_of mem_of Z.to_nat Pos.to_nat Pos.iter_op Nat.add rstr_groups repeat grp_block flat_map app fst snd].
    rewrite !Z2Nat.id by lia. reflexivity.
  - exists (-1), c. split; [lia|]. split; [exact Hc|]. rewrite E. cbn [ret_of mem_of]. rewrite (upd_self m boffs c Hg). reflexivity.
  - congruence.
Qed.

(* lbuf_search for a literal pattern: the statement of TrSearch.tr_lbuf_search with the matcher of the C text itself *)
Theorem tr_lbuf_search_lit ext F D m lb bln lbs lines br bo bl kb ko rb bs lit ic lbg le wb we dir r0 o0 xic vl m1 :
  lbuf_at m lb bln lbs lines -> lines_small lines -> lines_fit lines -> (length lines + maxlen lines + 4 < F)%nat ->
  dir_ok dir -> Z.of_nat r0 <= 2147483647 -> Z.of_nat o0 < 2147483647 ->
  NoDup [br; bo; bl] -> (forall k, In k [br; bo; bl] -> ~ In k (lb :: bln :: lbs)) ->
  nth_error m br = Some [VInt (Z.of_nat r0)] -> nth_error m bo = Some [VInt (Z.of_nat o0)] -> nth_error m bl = Some [vl] ->
  cell_at m G_xic xic -> i32 xic ->
  ext X_rstr_make [VPtr kb ko; VInt (if xic =? 0 then 0 else 1)] (m ++ [[VUndef; VUndef]]) = Ok (VPtr rb 0, m1) ->
  (S (length m) <= length m1)%nat -> (forall k, (k <= length m)%nat -> nth_error m1 k = nth_error (m ++ [[VUndef; VUndef]]) k) ->
  (* the struct rstr rstr_make left: rs == NULL, str = the literal, behind the blocks of the call *)
  nth_error m1 rb = Some (rstr_block bs ic lbg le wb we) -> str_at m1 bs lit -> nonul lit ->
  (length m < rb)%nat -> (length m < bs)%nat ->
  int_ok ic -> int_ok lbg -> int_ok le -> int_ok wb -> int_ok we -> (length lit < F)%nat -> Z.of_nat (length lit) <= 2147483647 ->
  let find := find_lit (rs_of lit ic lbg le wb we) in
  let res := SearchDefs.lbuf_search_g (fm_of find) lines (0 <? dir) r0 o0 in
  res <> SearchDefs.SOOB ->
  exists mf c, length c = 2%nat /\
    smem m1 (length m) br bo bl mf c (sres_r res (Z.of_nat r0)) (sres_o res (Z.of_nat o0)) (sres_l res vl) /\
    callx ext cprog F (S (S (S (S D)))) F_lbuf_search [VPtr lb 0; VPtr kb ko; VInt dir; VPtr br 0; VPtr bo 0; VPtr bl 0] m
    = (do (_, m') <- ext X_rstr_free [VPtr rb 0] mf; Ok (VInt (sres_ret res), m')).
Proof.
  intros R Hsm Hfit HF Hdir Hr0 Ho0 Hnd Hout Hmr Hmo Hml Hxic Ixic Hmake Hlen Hsame Hrb Hbs Hnl Lrb Lbs Iic Ilb Ile Iwb Iwe Hfl Hlm find res Hres.
  assert (Lr : (br < length m)%nat) by (apply nth_error_Some; congruence).
  assert (Lo : (bo < length m)%nat) by (apply nth_error_Some; congruence).
  assert (Ll : (bl < length m)%nat) by (apply nth_error_Some; congruence).
  assert (R1 : lbuf_at m1 lb bln lbs lines).
  { apply (lbuf_at_other m); [exact R|]. intros k Hk. rewrite Hsame by (pose proof (lbuf_at_lt _ _ _ _ _ _ R Hk); lia).
    apply nth_error_app_old. apply (lbuf_at_lt _ _ _ _ _ _ R Hk). }
  assert (Hout' : forall k, In k [length m; br; bo; bl] -> ~ In k (lb :: bln :: lbs)).
  { intros k [<-|Hk]; [|apply Hout; exact Hk]. intro Hin. pose proof (lbuf_at_lt _ _ _ _ _ _ R Hin). lia. }
  apply (tr_lbuf_search ext F D m lb bln lbs lines br bo bl kb ko rb 0 find dir r0 o0 xic vl m1); try assumption.
  - apply find_lit_wf.
  - apply (find_ans_lit ext F D m1 lb bln lbs lines (length m) br bo bl rb bs lit ic lbg le wb we); try assumption.
    + cbn. intros [E|[E|[E|[E|[]]]]]; lia.
    + cbn. intros [E|[E|[E|[E|[]]]]]; lia.
Qed.
