(* RstrEngine6.v -- C12, part 6: the literal atom under REG_ICASE.  regex.c compares decoded code
   points folded with tolower (below 128 only) and the byte lengths of the two characters; on a
   valid UTF-8 line and a valid UTF-8 literal that is the byte-wise comparison under tolower of
   the spec (lit_at true). *)
From Coq Require Import List NArith ZArith Bool Arith Lia ZifyBool ZifyNat ZifyN.
From NV Require Import Bytes GenConsts UcDefs UcSpec UcProps UcSegProps RstrDefs RstrProps ReSyntax ReParse ReEmit ReVM RsetDefs ReProps6 ReProps7 ReProps11 RstrEngine RstrEngine2 RstrEngine3 RstrEngine4 RstrEngine5.
Import ListNotations.
Local Open Scope N_scope.

(* ---- decoding ---- *)
Lemma ucfull_len l : re_ucfull l = uc_len_b l.
Proof. unfold re_ucfull, uc_len_b. destruct (negb (bit l 128 && bit l 64)); [|reflexivity]. destruct (N.eqb_spec l 0); destruct (N.ltb_spec 0 l); try reflexivity; lia. Qed.

Lemma ucdec_code (s : bytes) i : (i < length s)%nat -> (re_ucfull (nth i s 0%N) <= re_uclen_at s i)%nat ->
  re_ucdec s i = Ok (uc_code (skipn i s)).
Proof.
  intros Hi Hfull. pose proof (uclen_at_le s i) as Hle. unfold re_ucdec, uc_code.
  rewrite rdk_nth by lia. cbn [bind]. rewrite !ReProps7.nthb_skipn. unfold nthb. rewrite Nat.add_0_r.
  set (l := nth i s 0) in *.
  destruct (negb (bit l 128 && bit l 64)) eqn:B0; [reflexivity|].
  destruct (Nat.ltb_spec (re_uclen_at s i) (re_ucfull l)) as [Hlt|_]; [lia|].
  unfold re_ucfull in Hfull. rewrite B0 in Hfull.
  destruct (negb (bit l 32)).
  { rewrite rdk_nth by lia. reflexivity. }
  destruct (negb (bit l 16)).
  { rewrite !rdk_nth by lia. reflexivity. }
  destruct (negb (bit l 8)); [|reflexivity].
  rewrite !rdk_nth by lia. reflexivity.
Qed.

Lemma ucdec_encode pre c rest : scalar c -> re_ucdec (pre ++ encode c ++ rest) (length pre) = Ok c.
Proof.
  intro Hc. pose proof (encode_nonempty c Hc) as Hpos.
  destruct (uc_len_code_encode c rest Hc) as [Hlen Hcode].
  assert (Esk : skipn (length pre) (pre ++ encode c ++ rest) = encode c ++ rest) by apply skipn_app_exact.
  rewrite ucdec_code.
  - rewrite Esk, Hcode. reflexivity.
  - rewrite !app_length. lia.
  - unfold re_uclen_at. rewrite Esk, re_uclen_encode by exact Hc.
    rewrite ucfull_len. rewrite <- Hlen. unfold uc_len.
    replace (nth (length pre) (pre ++ encode c ++ rest) 0) with (hd0 (encode c ++ rest)); [lia|].
    rewrite app_nth2 by lia. rewrite Nat.sub_diag. destruct (encode c ++ rest); reflexivity.
Qed.

Lemma encode_inj c c' : scalar c -> scalar c' -> encode c = encode c' -> c = c'.
Proof.
  intros H H' E. destruct (uc_len_code_encode c [] H) as [_ E1]. destruct (uc_len_code_encode c' [] H') as [_ E2].
  rewrite <- E1, <- E2, E. reflexivity.
Qed.

(* ---- shape ---- *)
Definition lead_len (l : N) : nat := if l <? 224 then 2%nat else if l <? 240 then 3%nat else 4%nat.

Lemma enc_cases c : scalar c ->
  (0 < c < 128 /\ encode c = [c]) \/
  (128 <= c /\ Forall (fun b => 128 <= b) (encode c) /\
   exists l t, encode c = l :: t /\ 192 <= l /\ length (encode c) = lead_len l).
Proof.
  intro Hs. destruct (encode_shape c Hs) as [H | l t H El Et Hl Ht | l t1 t2 H El E1 E2 Hl H1 H2 | l t1 t2 t3 H El E1 E2 E3 Hl H1 H2 H3].
  - left. split; [lia|reflexivity].
  - right. split; [lia|]. split; [repeat constructor; lia|]. exists l, [t]. split; [reflexivity|]. split; [lia|].
    unfold lead_len. destruct (N.ltb_spec l 224); [reflexivity|lia].
  - right. split; [lia|]. split; [repeat constructor; lia|]. exists l, [t1; t2]. split; [reflexivity|]. split; [lia|].
    unfold lead_len. destruct (N.ltb_spec l 224); [lia|]. destruct (N.ltb_spec l 240); [reflexivity|lia].
  - right. split; [lia|]. split; [repeat constructor; lia|]. exists l, [t1; t2; t3]. split; [reflexivity|]. split; [lia|].
    unfold lead_len. destruct (N.ltb_spec l 224); [lia|]. destruct (N.ltb_spec l 240); [lia|reflexivity].
Qed.

(* ---- tolower ---- *)
Lemma tolower_hi x : 128 <= x -> tolower x = x.
Proof. intro H. unfold tolower. destruct ((65 <=? x) && (x <=? 90)) eqn:E; [lia|reflexivity]. Qed.
Lemma tolower_lo x : x < 128 -> tolower x < 128.
Proof. intro H. unfold tolower. destruct ((65 <=? x) && (x <=? 90)) eqn:E; lia. Qed.
Lemma fold_tolower x : ReVM.fold true x = tolower x.
Proof. reflexivity. Qed.
Lemma map_tolower_hi l : Forall (fun b => 128 <= b) l -> map tolower l = l.
Proof. induction 1 as [|x l Hx Hl IH]; [reflexivity|]. cbn [map]. now rewrite tolower_hi, IH. Qed.

(* ---- eqb_bytes ---- *)
Lemma eqb_bytes_refl a : eqb_bytes a a = true.
Proof. induction a as [|x a IH]; [reflexivity|]. cbn. now rewrite N.eqb_refl, IH. Qed.
Lemma eqb_bytes_app X : forall X' Y Y', length X = length X' ->
  eqb_bytes (X ++ Y) (X' ++ Y') = eqb_bytes X X' && eqb_bytes Y Y'.
Proof.
  induction X as [|x X IH]; intros [|x' X'] Y Y' H; try discriminate; [reflexivity|].
  cbn [app eqb_bytes]. cbn [length] in H. rewrite IH by lia. now rewrite andb_assoc.
Qed.

Definition E (x y : bytes) : bool := eqb_bytes (map tolower (firstn (length y) x)) (map tolower y).
Definition cmp (c c' : N) : bool := (ReVM.fold true c =? ReVM.fold true c') && Nat.eqb (length (encode c)) (length (encode c')).

Lemma firstn_app_plus {A} (X B : list A) m : firstn (length X + m) (X ++ B) = X ++ firstn m B.
Proof. rewrite firstn_app, firstn_all2 by lia. replace (length X + m - length X)%nat with m by lia. reflexivity. Qed.

Lemma E_cons c c' A B : scalar c -> scalar c' -> E (encode c' ++ B) (encode c ++ A) = cmp c c' && E B A.
Proof.
  intros Hc Hc'. unfold E. rewrite app_length.
  destruct (cmp c c') eqn:C.
  - unfold cmp in C. apply andb_true_iff in C. destruct C as [C1 C2]. apply N.eqb_eq in C1. apply Nat.eqb_eq in C2.
    change (tolower c = tolower c') in C1.
    assert (Em : map tolower (encode c') = map tolower (encode c)).
    { destruct (enc_cases c Hc) as [[H1 E1]|(H1 & F1 & _)]; destruct (enc_cases c' Hc') as [[H2 E2]|(H2 & F2 & l & t & E2 & Hl & Hlen')].
      - rewrite E1, E2. cbn [map]. now rewrite C1.
      - exfalso. rewrite E1 in C2. cbn [length] in C2. unfold lead_len in Hlen'. destruct (l <? 224), (l <? 240); lia.
      - exfalso. rewrite (tolower_hi c) in C1 by lia. pose proof (tolower_lo c' ltac:(lia)). lia.
      - rewrite (tolower_hi c), (tolower_hi c') in C1 by lia. now subst. }
    rewrite C2, firstn_app_plus, !map_app. rewrite eqb_bytes_app by (rewrite !map_length; lia).
    rewrite Em, eqb_bytes_refl. reflexivity.
  - cbn [andb]. destruct (eqb_bytes _ _) eqn:Eq; [|reflexivity]. exfalso.
    apply eqb_bytes_eq in Eq. rewrite map_app in Eq.
    assert (Eh : map tolower (firstn (length (encode c)) (encode c' ++ B)) = map tolower (encode c)).
    { apply (f_equal (firstn (length (encode c)))) in Eq.
      rewrite <- (map_length tolower (encode c)) in Eq at 3. rewrite firstn_app_exact in Eq.
      rewrite <- Eq. rewrite <- !firstn_map. rewrite firstn_firstn. f_equal. lia. }
    clear Eq. unfold cmp in C. change (ReVM.fold true c) with (tolower c) in C. change (ReVM.fold true c') with (tolower c') in C.
    pose proof (encode_nonempty c' Hc') as Hpos'.
    destruct (enc_cases c Hc) as [[H1 E1]|(H1 & F1 & l & t & E1 & Hl & Hlen)].
    + rewrite E1 in *. cbn [length] in *.
      destruct (enc_cases c' Hc') as [[H2 E2]|(H2 & F2 & l' & t' & E2 & Hl' & _)].
      * rewrite E2 in *. cbn in Eh. inversion Eh as [Et]. rewrite Et, N.eqb_refl in C. discriminate.
      * rewrite E2 in Eh. cbn in Eh. inversion Eh as [Et]. rewrite (tolower_hi l') in Et by lia. pose proof (tolower_lo c ltac:(lia)). lia.
    + destruct (enc_cases c' Hc') as [[H2 E2]|(H2 & F2 & l' & t' & E2 & Hl' & Hlen')].
      * rewrite E2, E1 in Eh. cbn in Eh. inversion Eh as [[Et Et']]. rewrite (tolower_hi l) in Et by lia. pose proof (tolower_lo c' ltac:(lia)). lia.
      * assert (Ell : l' = l).
        { rewrite E2, E1 in Eh. cbn in Eh. inversion Eh as [[Et Et']]. rewrite (tolower_hi l), (tolower_hi l') in Et by lia. exact Et. }
        subst l'. assert (Ek : length (encode c') = length (encode c)) by lia.
        rewrite <- Ek, firstn_app_exact in Eh. rewrite (map_tolower_hi _ F1), (map_tolower_hi _ F2) in Eh.
        apply encode_inj in Eh; try assumption. subst c'. rewrite N.eqb_refl, Nat.eqb_refl in C. discriminate.
Qed.

(* ---- the comparison loop ---- *)
Lemma chr_icase_spec flg p0 : has flg REG_ICASE = true ->
  forall lcs2 lcs1 cs2 pre k, Forall scalar (lcs1 ++ lcs2) -> Forall scalar cs2 ->
  (length lcs2 < k)%nat -> length pre = (p0 + length (chars lcs1))%nat ->
  chr_icase flg (pre ++ chars cs2) k (chars (lcs1 ++ lcs2)) p0 (length (chars lcs1)) =
  Ok (if E (chars cs2) (chars lcs2) then Some (p0 + length (chars (lcs1 ++ lcs2)))%nat else None).
Proof.
  intro Fic. induction lcs2 as [|c lcs2 IH]; intros lcs1 cs2 pre k Hl Hcs Hk Hpre; (destruct k as [|k]; [lia|]).
  - rewrite app_nil_r. cbn [chr_icase]. unfold nthb at 1. rewrite nth_overflow by lia. cbn [N.eqb].
    replace (p0 + length (chars lcs1) <=? length (pre ++ chars cs2))%nat with true by (symmetry; apply Nat.leb_le; rewrite app_length; lia).
    reflexivity.
  - assert (Hc : scalar c). { apply Forall_app in Hl. destruct Hl as [_ Hl]. now inversion Hl. }
    pose proof (encode_nonempty c Hc) as Hpos.
    cbn [chr_icase]. rewrite chars_app, chars_cons.
    assert (Eh : nthb (chars lcs1 ++ encode c ++ chars lcs2) (length (chars lcs1)) = hd0 (encode c ++ chars lcs2)).
    { unfold nthb. rewrite app_nth2 by lia. rewrite Nat.sub_diag. destruct (encode c ++ chars lcs2); reflexivity. }
    rewrite Eh. pose proof (hd0_nz_encode c (chars lcs2) Hc) as Hnz.
    destruct (N.eqb_spec (hd0 (encode c ++ chars lcs2)) 0); [contradiction|].
    rewrite ucdec_encode by exact Hc. cbn [bind].
    assert (Ua : re_uclen_at (chars lcs1 ++ encode c ++ chars lcs2) (length (chars lcs1)) = length (encode c)).
    { unfold re_uclen_at. rewrite skipn_app_exact. apply re_uclen_encode. exact Hc. }
    rewrite Ua. rewrite <- Hpre.
    destruct cs2 as [|c' cs2].
    + cbn [chars flat_map]. rewrite app_nil_r.
      assert (D : re_ucdec pre (length pre) = Ok 0).
      { unfold re_ucdec. rewrite rdk_nth by lia. rewrite nth_overflow by lia. reflexivity. }
      rewrite D. cbn [bind].
      assert (U : re_uclen_at pre (length pre) = 0%nat) by (unfold re_uclen_at; rewrite skipn_all; reflexivity).
      rewrite U. destruct (Nat.eqb_spec (length (encode c)) 0); [lia|]. rewrite andb_false_r.
      unfold E. rewrite firstn_nil. destruct (encode c ++ chars lcs2) eqn:Z; [cbn in Hnz; congruence|reflexivity].
    + inversion Hcs as [|? ? Hc' Hcs']; subst. rewrite chars_cons.
      rewrite ucdec_encode by exact Hc'. cbn [bind].
      assert (Ub : re_uclen_at (pre ++ encode c' ++ chars cs2) (length pre) = length (encode c')).
      { unfold re_uclen_at. rewrite skipn_app_exact. apply re_uclen_encode. exact Hc'. }
      rewrite Ub, Fic. rewrite E_cons by assumption. fold (cmp c c').
      destruct (cmp c c') eqn:C; [|reflexivity]. cbn [andb].
      unfold cmp in C. apply andb_true_iff in C. destruct C as [_ C2]. apply Nat.eqb_eq in C2.
      specialize (IH (lcs1 ++ [c]) cs2 (pre ++ encode c') k).
      assert (X1 : (lcs1 ++ [c]) ++ lcs2 = lcs1 ++ c :: lcs2) by (rewrite <- app_assoc; reflexivity).
      rewrite X1, chars_snoc, (chars_app lcs1 (c :: lcs2)), chars_cons in IH.
      replace (length (chars lcs1 ++ encode c)) with (length (chars lcs1) + length (encode c))%nat in IH by (rewrite app_length; reflexivity).
      rewrite <- app_assoc in IH.
      apply IH; [exact Hl|exact Hcs'|cbn [length] in Hk; lia|rewrite app_length; lia].
Qed.

Lemma chr_bounds_icase nb ne cs lcs : Forall scalar cs -> Forall scalar lcs ->
  chr_at_bounds (engine_flags true nb ne) true cs (chars lcs).
Proof.
  intros Hs Hl cs1 cs2 E0 _.
  assert (Fic : has (engine_flags true nb ne) REG_ICASE = true) by (destruct nb, ne; reflexivity).
  cbn [ratom_match]. rewrite Fic. cbn [negb].
  assert (EL : chars cs ++ [10] = chars cs1 ++ chars (cs2 ++ [10])).
  { rewrite E0, !chars_app, <- app_assoc. reflexivity. }
  rewrite EL.
  pose proof (chr_icase_spec (engine_flags true nb ne) (length (chars cs1)) Fic lcs [] (cs2 ++ [10]) (chars cs1) (S (length (chars lcs)))) as K.
  cbn [app chars flat_map length] in K. fold (chars lcs) in K. fold (chars (cs2 ++ [10])) in K. rewrite Nat.add_0_r in K.
  rewrite K.
  - unfold lit_at, E. rewrite skipn_app_exact. reflexivity.
  - exact Hl.
  - rewrite E0 in Hs. apply Forall_app in Hs. destruct Hs as [_ Hs2]. apply Forall_app. split; [exact Hs2|]. constructor; [exact scalar10|constructor].
  - pose proof (length_cs_le_chars lcs Hl). lia.
  - reflexivity.
Qed.

(* SPEC = what the regex model answers: every simple pattern, ignore-case on or off, NOTBOL / NOTEOL,
   every valid UTF-8 line and literal, every depth limit >= 1, every group count >= 1 *)
Theorem equiv_engine ic p rs cs lcs nb ne d n :
  rstr_simple ic p = Some rs ->
  ~ In 10 (chars cs) -> ~ In 10 p -> Forall scalar cs -> r_str rs = chars lcs -> Forall scalar lcs ->
  (1 <= d)%nat -> (1 <= n)%nat ->
  exists r, rset_make [Some p] (cflags ic) = Ok (Some r) /\
    rset_find_d d r (chars cs ++ [10]) n (eflags nb ne) = engine_answer (spat_of rs) ic nb (chars cs) n.
Proof.
  intros Hsim H10 Hp10 Hs El Hsl Hd Hn. eapply equiv_engine_rel; eauto.
  destruct ic; [rewrite El; apply chr_bounds_icase; assumption|apply chr_bounds_plain].
Qed.

(* the fast path and the general engine give the same observable answer *)
Theorem fastpath_engine ic p rs cs lcs nb ne d n :
  rstr_simple ic p = Some rs ->
  ~ In 10 (chars cs) -> ~ In 10 p -> Forall scalar cs -> r_str rs = chars lcs -> Forall scalar lcs ->
  (1 <= d)%nat -> (1 <= n)%nat ->
  exists r, rset_make [Some p] (cflags ic) = Ok (Some r) /\
    rset_find_d d r (chars cs ++ [10]) n (eflags nb ne) =
    match rstr_find rs (chars cs ++ [10]) nb ne with
    | RstrDefs.Found so eo => (Ok (0%Z, rstr_groups n so eo), 0)
    | RstrDefs.NotFound => (Ok ((-1)%Z, []), 0)
    | RstrDefs.OOB => (OOB SOther, 0)
    end.
Proof.
  intros Hsim H10 Hp10 Hs El Hsl Hd Hn.
  destruct (equiv_engine ic p rs cs lcs nb ne d n Hsim H10 Hp10 Hs El Hsl Hd Hn) as (r & Hr & Hf).
  exists r. split; [exact Hr|]. rewrite Hf.
  assert (H0 : ~ In 0 (chars cs)).
  { intro Hin. pose proof (chars_nonul cs Hs) as Hnn. unfold nonul in Hnn. rewrite Forall_forall in Hnn.
    specialize (Hnn 0 Hin). unfold byte_ok in Hnn. lia. }
  rewrite (equiv_spec_pat ic p rs (chars cs) nb ne Hsim H0 H10 Hp10).
  unfold engine_answer, spec_res. cbn [spat_of p_lit].
  destruct (spec_find _ _ _ _); [|reflexivity].
  destruct n as [|m]; [lia|]. cbn [rstr_groups]. replace (S m - 1)%nat with m by lia. reflexivity.
Qed.
