(* ReProps2.v -- the emitter of ReEmit.v (the mirror of rnode_emit) produces literally the code of the
   regular expression tr t (counted repetition through the normal form), and the emitted length never
   exceeds the reservation rnode_count computes (C11_emit_fits) for trees whose repetition counts
   satisfy 0 <= min and (max < 0 or min <= max) -- which is what the repaired parser guarantees. *)
From Coq Require Import List Arith Lia Bool ZArith NArith ZifyN ZifyBool ZifyNat.
From NV Require Import Bytes GenConsts ReSyntax ReParse ReEmit ReVM ReSem ReProps.
Import ListNotations.

Definition wf_rep (mn mx : Z) : Prop := (0 <= mn)%Z /\ ((mx < 0)%Z \/ (mn <= mx)%Z).
Fixpoint wf_node (t : node) : Prop :=
  match t with
  | NNil => True
  | NAtom _ mn mx => wf_rep mn mx
  | NGrp x _ mn mx => wf_rep mn mx /\ wf_node x
  | NCat x y => wf_node x /\ wf_node y
  | NAlt x y => wf_node x /\ wf_node y
  end.

Lemma pow_snoc e n k b : pow e n (S k) b = pow e n k b ++ e (b + k * n).
Proof.
  revert b; induction k as [|k IH]; intro b.
  - cbn [pow]. rewrite app_nil_r, Nat.add_0_r. reflexivity.
  - change (pow e n (S (S k)) b) with (e b ++ pow e n (S k) (b + n)).
    rewrite IH. cbn [pow]. rewrite <- app_assoc. do 3 f_equal. lia.
Qed.

Lemma rep_len_re x mn mx : wf_rep mn mx -> rep_len (len x) mn mx = len (rep_re x mn mx).
Proof.
  intros [H0 H1]. unfold rep_len, rep_re.
  destruct ((mn =? 0)%Z && (mx =? 0)%Z) eqn:E0; [reflexivity|].
  destruct ((mn =? 1)%Z && (mx =? 1)%Z) eqn:E1; [reflexivity|].
  destruct (mx <? 0)%Z eqn:Em.
  - destruct (Z.to_nat mn) as [|m] eqn:Em'; cbn [normal len Nat.eqb Nat.max]; try lia.
  - assert (Hm : Z.to_nat mn <= Z.to_nat mx) by lia.
    destruct (Z.to_nat mn) as [|m] eqn:Em'; cbn [normal len Nat.eqb Nat.max].
    + assert (Z.to_nat mx <> 0) by lia. destruct (Z.to_nat mx); [lia|]. lia.
    + destruct m; cbn [Nat.max]; nia.
Qed.

Lemma emit_rep_re x mn mx b : wf_rep mn mx -> emit_rep (emit x) (len x) mn mx b = emit (rep_re x mn mx) b.
Proof.
  intros [H0 H1]. unfold emit_rep, rep_re, rep_len.
  destruct ((mn =? 0)%Z && (mx =? 0)%Z) eqn:E0; [reflexivity|].
  destruct ((mn =? 1)%Z && (mx =? 1)%Z) eqn:E1; [reflexivity|].
  destruct (mx <? 0)%Z eqn:Em.
  - destruct (Z.to_nat mn) as [|m] eqn:Em'; cbn [normal Nat.eqb].
    + (* star *) cbn [Nat.max emit pow Nat.sub]. rewrite app_nil_r. cbn [app].
      f_equal; [f_equal; lia|]. f_equal. f_equal; f_equal; lia.
    + (* {m+1,} *) cbn [emit len app]. replace (Nat.max 1 (S m)) with (S m) by lia.
      rewrite pow_snoc. rewrite <- app_assoc. f_equal. cbn [Nat.sub]. rewrite Nat.sub_0_r.
      do 3 f_equal. lia.
  - assert (Hm : Z.to_nat mn <= Z.to_nat mx) by lia.
    destruct (Z.to_nat mn) as [|m] eqn:Em'; cbn [normal Nat.eqb].
    + (* {0,k}, k >= 1 *) assert (Z.to_nat mx <> 0) by lia. destruct (Z.to_nat mx) as [|k] eqn:Ek; [lia|].
      cbn [Nat.max emit opt pow Nat.sub]. rewrite app_nil_r, Nat.sub_0_r. cbn [app]. do 2 f_equal; try lia. f_equal. lia.
    + (* {m+1,k} *) replace (Nat.max 1 (S m)) with (S m) by lia. cbn [emit len]. reflexivity.
Qed.

Lemma nlen_tr t : wf_node t -> nlen t = len (tr t).
Proof.
  induction t; cbn [nlen tr wf_node len]; intro W.
  - reflexivity.
  - change 1 with (len (RAtom a)). apply rep_len_re. exact W.
  - destruct W as [W1 W2]. rewrite IHt by assumption. change (len (tr t) + 2) with (len (RGrp g (tr t))). apply rep_len_re. exact W1.
  - destruct W. rewrite IHt1, IHt2 by assumption. reflexivity.
  - destruct W. rewrite IHt1, IHt2 by assumption. reflexivity.
Qed.

Lemma emit_rep_ext e1 e2 n mn mx b : (forall b, e1 b = e2 b) -> emit_rep e1 n mn mx b = emit_rep e2 n mn mx b.
Proof.
  intro H. unfold emit_rep.
  assert (Hp : forall k b, pow e1 n k b = pow e2 n k b). { induction k; intro b'; cbn [pow]; [reflexivity|]. rewrite H, IHk. reflexivity. }
  assert (Ho : forall j b, opt e1 n j b = opt e2 n j b). { induction j; intro b'; cbn [opt]; [reflexivity|]. rewrite H, IHj. reflexivity. }
  destruct ((mn =? 0)%Z && (mx =? 0)%Z); [reflexivity|].
  destruct ((mn =? 1)%Z && (mx =? 1)%Z); [apply H|].
  rewrite Hp, Ho. reflexivity.
Qed.

Theorem emit_n_tr t : wf_node t -> forall b, emit_n t b = emit (tr t) b.
Proof.
  induction t; cbn [emit_n tr wf_node]; intros W b.
  - reflexivity.
  - change 1 with (len (RAtom a)). rewrite <- emit_rep_re by exact W. apply emit_rep_ext. intro; reflexivity.
  - destruct W as [W1 W2]. rewrite <- emit_rep_re by exact W1. cbn [len]. rewrite <- nlen_tr by assumption.
    apply emit_rep_ext. intro b'. cbn [emit]. rewrite IHt by assumption. reflexivity.
  - destruct W. cbn [emit]. rewrite IHt1, IHt2, nlen_tr by assumption. reflexivity.
  - destruct W. cbn [emit]. rewrite IHt1, IHt2 by assumption. rewrite !nlen_tr by assumption. reflexivity.
Qed.

Lemma emit_n_length t : wf_node t -> forall b, length (emit_n t b) = nlen t.
Proof. intros W b. rewrite emit_n_tr, nlen_tr by assumption. apply emit_len. Qed.

(* ---- the size lemma ------------------------------------------------------------------------ *)
(* the unsaturated estimate dominates the emitted length ... *)
Lemma rep_fits n n' mn mx : wf_rep mn mx -> negb ((mn =? 0) && (mx =? 0))%Z = true -> (Z.of_nat n <= n')%Z ->
  (Z.of_nat (rep_len n mn mx) <= rep_raw n' mn mx)%Z.
Proof.
  intros [H0 H1] E0' Hn. unfold rep_len, rep_raw.
  destruct ((mn =? 0)%Z && (mx =? 0)%Z) eqn:E0; [discriminate|].
  destruct ((mn =? 1)%Z && (mx =? 1)%Z) eqn:E1; [lia|].
  destruct (mx <? 0)%Z eqn:Em.
  - destruct (Z.to_nat mn) as [|m] eqn:Em'; cbn [Nat.eqb].
    + assert (mn = 0%Z) by lia. subst mn. cbn [Nat.max]. change (0 =? 0)%Z with true. cbv iota. lia.
    + replace (Nat.max 1 (S m)) with (S m) by lia. assert (mn = Z.of_nat (S m)) by lia.
      destruct (mn =? 0)%Z eqn:E; [lia|]. nia.
  - assert (Hm : Z.to_nat mn <= Z.to_nat mx) by lia.
    destruct (Z.to_nat mn) as [|m] eqn:Em'; cbn [Nat.eqb].
    + assert (mn = 0%Z) by lia. subst mn. cbn [Nat.max]. change (0 =? 0)%Z with true. cbv iota.
      assert (1 <= Z.to_nat mx) by lia. nia.
    + replace (Nat.max 1 (S m)) with (S m) by lia. assert (mn = Z.of_nat (S m)) by lia.
      destruct (mn =? 0)%Z eqn:E; [lia|]. nia.
Qed.

(* ... and never shrinks its argument, so a saturated sub-estimate keeps the whole saturated *)
Lemma rep_raw_ge n' mn mx : wf_rep mn mx -> negb ((mn =? 0) && (mx =? 0))%Z = true -> (0 <= n')%Z -> (n' <= rep_raw n' mn mx)%Z.
Proof.
  intros [H0 H1] E0 Hn. unfold rep_raw.
  destruct ((mn =? 1)%Z && (mx =? 1)%Z); [lia|].
  destruct (mx <? 0)%Z eqn:Em; destruct (mn =? 0)%Z eqn:E; nia.
Qed.

(* either the estimate dominates the emitted length or it has reached the limit NINST *)
Definition fits (l c : Z) : Prop := (l <= c)%Z \/ (0 <= NINST /\ NINST <= c)%Z.

Lemma sat_fits l r : (l <= r)%Z -> fits l (sat r).
Proof. unfold fits, sat. intro H. destruct (NINST <? 0)%Z eqn:E; [left; lia|]. destruct (r <? NINST)%Z eqn:E2; [left; lia | right; lia]. Qed.
Lemma sat_big r : (0 <= NINST)%Z -> (NINST <= r)%Z -> (0 <= NINST /\ NINST <= sat r)%Z.
Proof. unfold sat. intros H0 H. destruct (NINST <? 0)%Z eqn:E; [lia|]. destruct (r <? NINST)%Z eqn:E2; lia. Qed.

Lemma rep_count_fits n n' mn mx : wf_rep mn mx -> (0 <= n')%Z -> fits (Z.of_nat n) n' -> fits (Z.of_nat (rep_len n mn mx)) (rep_count n' mn mx).
Proof.
  intros W Hn' F. unfold rep_count.
  destruct ((mn =? 0)%Z && (mx =? 0)%Z) eqn:E0.
  - left. unfold rep_len. rewrite E0. lia.
  - destruct F as [F|[F0 F1]].
    + apply sat_fits. apply rep_fits; [exact W | rewrite E0; reflexivity | exact F].
    + right. apply sat_big; [exact F0|]. pose proof (rep_raw_ge n' mn mx W ltac:(rewrite E0; reflexivity) Hn'). lia.
Qed.

Lemma sat_nonneg r : (0 <= r)%Z -> (0 <= sat r)%Z.
Proof. unfold sat. intro H. destruct (NINST <? 0)%Z eqn:E; [lia|]. destruct (r <? NINST)%Z eqn:E2; lia. Qed.
Lemma rep_count_nonneg n' mn mx : wf_rep mn mx -> (0 <= n')%Z -> (0 <= rep_count n' mn mx)%Z.
Proof.
  intros W Hn. unfold rep_count. destruct ((mn =? 0)%Z && (mx =? 0)%Z) eqn:E0; [lia|].
  apply sat_nonneg. pose proof (rep_raw_ge n' mn mx W ltac:(rewrite E0; reflexivity) Hn). lia.
Qed.
Lemma count_nonneg t : wf_node t -> (0 <= count t)%Z.
Proof.
  assert (W11 : wf_rep 1 1) by (unfold wf_rep; lia).
  induction t; cbn [count wf_node]; intro W.
  - lia.
  - apply rep_count_nonneg; [exact W | lia].
  - destruct W as [W1 W2]. apply rep_count_nonneg; [exact W1|]. specialize (IHt W2). lia.
  - destruct W as [W1 W2]. apply rep_count_nonneg; [exact W11|]. specialize (IHt1 W1). specialize (IHt2 W2). lia.
  - destruct W as [W1 W2]. apply rep_count_nonneg; [exact W11|]. specialize (IHt1 W1). specialize (IHt2 W2). lia.
Qed.

Lemma fits_add a b c d k : (0 <= c)%Z -> (0 <= d)%Z -> (0 <= k)%Z -> fits a c -> fits b d -> fits (a + b + k) (c + d + k).
Proof. unfold fits. intros. lia. Qed.

Theorem emit_fits t : wf_node t -> fits (Z.of_nat (nlen t)) (count t).
Proof.
  assert (W11 : wf_rep 1 1) by (unfold wf_rep; lia).
  assert (L11 : forall n, rep_len n 1 1 = n) by (intro; reflexivity).
  induction t; cbn [nlen count wf_node]; intro W.
  - left. lia.
  - apply rep_count_fits; [exact W | lia | left; lia].
  - destruct W as [W1 W2]. apply rep_count_fits; [exact W1 | pose proof (count_nonneg t W2); lia |].
    replace (Z.of_nat (nlen t + 2)) with (Z.of_nat (nlen t) + 0 + 2)%Z by lia. replace (count t + 2)%Z with (count t + 0 + 2)%Z by lia.
    apply fits_add; try lia; [apply count_nonneg; exact W2 | apply IHt; exact W2 | left; lia].
  - destruct W as [W1 W2]. rewrite <- (L11 (nlen t1 + nlen t2)).
    apply rep_count_fits; [exact W11 | pose proof (count_nonneg t1 W1); pose proof (count_nonneg t2 W2); lia |].
    replace (Z.of_nat (nlen t1 + nlen t2)) with (Z.of_nat (nlen t1) + Z.of_nat (nlen t2) + 0)%Z by lia.
    replace (count t1 + count t2)%Z with (count t1 + count t2 + 0)%Z by lia.
    apply fits_add; try lia; auto using count_nonneg.
  - destruct W as [W1 W2]. rewrite <- (L11 (nlen t1 + nlen t2 + 2)).
    apply rep_count_fits; [exact W11 | pose proof (count_nonneg t1 W1); pose proof (count_nonneg t2 W2); lia |].
    replace (Z.of_nat (nlen t1 + nlen t2 + 2)) with (Z.of_nat (nlen t1) + Z.of_nat (nlen t2) + 2)%Z by lia.
    apply fits_add; try lia; auto using count_nonneg.
Qed.
