(* TrUcClass.v -- the character classes of uc.c (uc_isspace, uc_isprint, uc_isalpha, uc_isdigit, uc_kind):
   the model (UcDefs.v) is the translated C text.  Separate from TrUcTab.v so that the width-class theorems of
   C17 do not depend on these proofs. *)
From Coq Require Import List ZArith NArith Bool Lia.
From NV Require Import Bytes UcDefs CLite CLiteProps GenCFuncs CLiteTac.
Import ListNotations.
Local Open Scope Z_scope.

Lemma hd0_skipn' s o : hd0 (skipn o s) = nthb s o.
Proof. rewrite <- (Nat.add_0_r o) at 2. rewrite <- nthb_skipn. destruct (skipn o s); reflexivity. Qed.

(* ------------------------------------------------------------------ character classes *)
Ltac one_byte_fn F cf Hs H256 s o :=
  enter F cf; xstep; xload Hs H256 o; rewrite ?hd0_skipn';
  let Hc := fresh "Hc" in
  pose proof (nthb_lt256 s o H256) as Hc; generalize dependent (nthb s o); intros c Hc;
  sweep_byte c Hc.

Theorem tr_uc_isspace m b s o d fuel : str_at m b s -> bytes_lt256 s -> (o <= length s)%nat ->
  callf cprog fuel (S d) F_uc_isspace [VPtr b (Z.of_nat o)] m = Ok (VInt (b2z (uc_isspace (skipn o s))), m).
Proof. intros Hs H256 Ho. unfold uc_isspace. cbv zeta. one_byte_fn F_uc_isspace cf_uc_isspace Hs H256 s o. Qed.
Theorem tr_uc_isprint m b s o d fuel : str_at m b s -> bytes_lt256 s -> (o <= length s)%nat ->
  callf cprog fuel (S d) F_uc_isprint [VPtr b (Z.of_nat o)] m = Ok (VInt (b2z (uc_isprint (skipn o s))), m).
Proof. intros Hs H256 Ho. unfold uc_isprint. cbv zeta. one_byte_fn F_uc_isprint cf_uc_isprint Hs H256 s o. Qed.
Theorem tr_uc_isalpha m b s o d fuel : str_at m b s -> bytes_lt256 s -> (o <= length s)%nat ->
  callf cprog fuel (S d) F_uc_isalpha [VPtr b (Z.of_nat o)] m = Ok (VInt (b2z (uc_isalpha (skipn o s))), m).
Proof. intros Hs H256 Ho. unfold uc_isalpha. cbv zeta. one_byte_fn F_uc_isalpha cf_uc_isalpha Hs H256 s o. Qed.
Theorem tr_uc_isdigit m b s o d fuel : str_at m b s -> bytes_lt256 s -> (o <= length s)%nat ->
  callf cprog fuel (S d) F_uc_isdigit [VPtr b (Z.of_nat o)] m = Ok (VInt (b2z (uc_isdigit (skipn o s))), m).
Proof. intros Hs H256 Ho. unfold uc_isdigit. cbv zeta. one_byte_fn F_uc_isdigit cf_uc_isdigit Hs H256 s o. Qed.

Lemma cc_us : forall c, (c < 256)%N -> (wrap I32 (wrap I8 (Z.of_N c)) =? 95) = (c =? 95)%N.
Proof. byte_fact. Qed.

Theorem tr_uc_kind m b s o d fuel : str_at m b s -> bytes_lt256 s -> (o <= length s)%nat ->
  callf cprog fuel (S (S d)) F_uc_kind [VPtr b (Z.of_nat o)] m = Ok (VInt (Z.of_N (uc_kind (skipn o s))), m).
Proof.
  intros Hs H256 Ho. enter F_uc_kind cf_uc_kind. xstep.
  rewrite (tr_uc_isspace m b s o d fuel Hs H256 Ho). xstep. unfold uc_kind.
  destruct (uc_isspace (skipn o s)); xstep; [reflexivity|].
  rewrite (tr_uc_isalpha m b s o d fuel Hs H256 Ho). xstep.
  destruct (uc_isalpha (skipn o s)); xstep; [reflexivity|].
  rewrite (tr_uc_isdigit m b s o d fuel Hs H256 Ho). xstep.
  destruct (uc_isdigit (skipn o s)); xstep; [reflexivity|].
  replace (Z.of_nat o + 1 * 0) with (Z.of_nat o) by lia. xload Hs H256 o.
  rewrite (cc_us _ (nthb_lt256 s o H256)), hd0_skipn'.
  destruct (nthb s o =? 95)%N; xstep; reflexivity.
Qed.

