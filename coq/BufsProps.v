(* BufsProps.v -- lemmas and proofs about the buffer-table model (C20). *)
From Coq Require Import List ZArith NArith Bool Lia Permutation Arith.
From NV Require Import GenConsts BufsDefs.
Import ListNotations.

(* ---------- list lemmas ---------- *)
Lemma nth_error_firstn' {A} (l : list A) : forall n i, (i < n)%nat -> nth_error (firstn n l) i = nth_error l i.
Proof.
  induction l as [|x l IH]; intros n i H.
  - rewrite firstn_nil. reflexivity.
  - destruct n as [|n]; [lia|]. destruct i as [|i]; cbn; [reflexivity|]. apply IH. lia.
Qed.
Lemma nth_error_skipn' {A} (l : list A) : forall n i, nth_error (skipn n l) i = nth_error l (n + i).
Proof.
  induction l as [|x l IH]; intros n i.
  - rewrite skipn_nil. destruct i, n; reflexivity.
  - destruct n as [|n]; cbn; [reflexivity|]. apply IH.
Qed.
Lemma nth_error_set_nth_eq {A} (l : list A) : forall i x, (i < length l)%nat -> nth_error (set_nth l i x) i = Some x.
Proof. induction l as [|y l IH]; intros i x H; cbn in *; [lia|]. destruct i; cbn; [reflexivity|]. apply IH. lia. Qed.
Lemma nth_error_set_nth_neq {A} (l : list A) : forall i j x, i <> j -> nth_error (set_nth l i x) j = nth_error l j.
Proof.
  induction l as [|y l IH]; intros i j x H; cbn; [destruct i; reflexivity|].
  destruct i, j; cbn; try reflexivity; try congruence. apply IH. congruence.
Qed.
Lemma set_nth_length {A} (l : list A) : forall i x, length (set_nth l i x) = length l.
Proof. induction l as [|y l IH]; intros i x; cbn; [destruct i; reflexivity|]. destruct i; cbn; [reflexivity|]. f_equal. apply IH. Qed.

Section Sw.
Context {A : Type}.
Theorem switch_perm (l : list A) idx : Permutation (switch l idx) l.
Proof.
  unfold switch. destruct (nth_error l idx) as [x|] eqn:E; [|reflexivity].
  apply nth_error_split in E. destruct E as (l1 & l2 & -> & <-).
  rewrite firstn_app, Nat.sub_diag, firstn_all. cbn [firstn]. rewrite app_nil_r.
  replace (skipn (S (length l1)) (l1 ++ x :: l2)) with l2.
  - apply Permutation_middle.
  - rewrite skipn_app. rewrite skipn_all2 by lia. replace (S (length l1) - length l1)%nat with 1%nat by lia. reflexivity.
Qed.
Lemma switch_length (l : list A) idx : length (switch l idx) = length l.
Proof. apply Permutation_length, switch_perm. Qed.
Lemma switch_nth0 (l : list A) idx x : nth_error l idx = Some x -> nth_error (switch l idx) 0 = Some x.
Proof. intro E. unfold switch. rewrite E. reflexivity. Qed.
Lemma switch_nth_lt (l : list A) idx x j : nth_error l idx = Some x -> (j < idx)%nat ->
  nth_error (switch l idx) (S j) = nth_error l j.
Proof.
  intros E H. unfold switch. rewrite E. cbn [nth_error].
  assert (idx < length l)%nat by (apply nth_error_Some; congruence).
  rewrite nth_error_app1 by (rewrite firstn_length; lia). apply nth_error_firstn'. exact H.
Qed.
Lemma switch_nth_gt (l : list A) idx x j : nth_error l idx = Some x -> (idx < j)%nat ->
  nth_error (switch l idx) j = nth_error l j.
Proof.
  intros E H. unfold switch. rewrite E. destruct j as [|j]; [lia|].
  change (nth_error (x :: firstn idx l ++ skipn (S idx) l) (S j)) with (nth_error (firstn idx l ++ skipn (S idx) l) j).
  assert (idx < length l)%nat by (apply nth_error_Some; congruence).
  rewrite nth_error_app2 by (rewrite firstn_length; lia). rewrite firstn_length, nth_error_skipn'.
  f_equal. lia.
Qed.
Lemma switch_oob (l : list A) idx : nth_error l idx = None -> switch l idx = l.
Proof. intro E. unfold switch. rewrite E. reflexivity. Qed.
End Sw.

Lemma first_idx_some {A} (f : A -> bool) (l : list A) : forall i, first_idx f l = Some i ->
  exists x, nth_error l i = Some x /\ f x = true /\ forall j y, (j < i)%nat -> nth_error l j = Some y -> f y = false.
Proof.
  induction l as [|x l IH]; intros i H; cbn in H; [discriminate|].
  destruct (f x) eqn:Fx.
  - inversion H; subst. exists x. repeat split; auto. intros; lia.
  - destruct (first_idx f l) as [k|] eqn:E; cbn in H; [|discriminate]. inversion H; subst.
    destruct (IH k eq_refl) as (y & Hy & Fy & Hlt). exists y. repeat split; auto.
    intros j z Hj Hz. destruct j; cbn in Hz; [congruence|]. eapply Hlt; [|exact Hz]. lia.
Qed.
Lemma first_idx_none {A} (f : A -> bool) (l : list A) : first_idx f l = None -> forall x, In x l -> f x = false.
Proof.
  induction l as [|y l IH]; intros H x Hin; [destruct Hin|]. cbn in H.
  destruct (f y) eqn:Fy; [discriminate|]. destruct (first_idx f l); [discriminate|].
  destruct Hin as [<-|Hin]; auto.
Qed.
Lemma first_idx_found {A} (f : A -> bool) (l : list A) x : In x l -> f x = true -> first_idx f l <> None.
Proof. intros Hin Fx E. rewrite (first_idx_none f l E x Hin) in Fx. discriminate. Qed.

Lemma iter_plus {A} (f : A -> A) (x : A) m k : Nat.iter (m + k) f x = Nat.iter m f (Nat.iter k f x).
Proof. induction m as [|m IH]; cbn; [reflexivity|]. f_equal. exact IH. Qed.

Lemma path_eqb_eq a : forall b, path_eqb a b = true <-> a = b.
Proof.
  induction a as [|x a IH]; intros [|y b]; cbn; split; intro H; try reflexivity; try discriminate.
  - apply andb_true_iff in H. destruct H as [H1 H2]. apply N.eqb_eq in H1. apply IH in H2. congruence.
  - inversion H; subst. apply andb_true_iff. split; [apply N.eqb_refl | apply IH; reflexivity].
Qed.

(* ---------- the table ---------- *)
Section Props.
Context {L Op Out : Type}.
Variable Lo : lops L Op Out.
Notation buf := (buf L).
Notation slot := (slot L).
Notation st := (st L).
Notation bump := (bump Lo).
Implicit Types s : st.

(* the only thing the table code does to a buffer that is not current: the useq++ of lbuf_modified *)
Definition bumped (l l' : L) : Prop := exists k, l' = Nat.iter k (fun x => fst (lb_modified Lo x)) l.
Definition same_buf (b b' : buf) : Prop :=
  b_id b' = b_id b /\ b_path b' = b_path b /\ b_view b' = b_view b /\ b_mtime b' = b_mtime b /\ bumped (b_lb b) (b_lb b').

Lemma bumped_refl l : bumped l l. Proof. exists 0%nat. reflexivity. Qed.
Lemma bumped_step l : bumped l (fst (lb_modified Lo l)). Proof. exists 1%nat. reflexivity. Qed.
Lemma bumped_trans a b c : bumped a b -> bumped b c -> bumped a c.
Proof.
  intros [k ->] [m ->]. exists (m + k)%nat. symmetry. apply iter_plus.
Qed.
Lemma same_refl b : same_buf b b. Proof. repeat split; auto using bumped_refl. Qed.
Lemma same_trans a b c : same_buf a b -> same_buf b c -> same_buf a c.
Proof.
  intros (A1 & A2 & A3 & A4 & A5) (B1 & B2 & B3 & B4 & B5). repeat split; try congruence. eapply bumped_trans; eauto.
Qed.
Lemma same_bump b : same_buf b (bump b). Proof. repeat split; cbn; auto using bumped_step. Qed.

Definition coh (s : st) : Prop := forall b, slot0 s = Some b -> xv s = b_view b.

(* b sat at a slot >= 1 (all slots for K0) before; afterwards it is still in the table, the same but for
   the counter, and if it has become the current buffer the globals are its saved view *)
Definition K (s s' : st) : Prop := forall j b, (1 <= j)%nat -> nth_error (bufs s) j = Some (Some b) ->
  exists j' b', nth_error (bufs s') j' = Some (Some b') /\ same_buf b b' /\ (j' = 0%nat -> xv s' = b_view b).
Definition K0 (s s' : st) : Prop := forall j b, nth_error (bufs s) j = Some (Some b) ->
  exists j' b', nth_error (bufs s') j' = Some (Some b') /\ same_buf b b' /\ (j' = 0%nat -> xv s' = b_view b).
(* position preserving, globals untouched *)
Definition Kp (s s' : st) : Prop := xv s' = xv s /\ forall j b, nth_error (bufs s) j = Some (Some b) ->
  exists b', nth_error (bufs s') j = Some (Some b') /\ same_buf b b'.
(* slots >= 1 untouched *)
Definition Kt (s s' : st) : Prop := forall j, (1 <= j)%nat -> nth_error (bufs s') j = nth_error (bufs s) j.
(* stays at a slot >= 1 *)
Definition K1 (s s' : st) : Prop := forall j b, (1 <= j)%nat -> nth_error (bufs s) j = Some (Some b) ->
  exists j' b', (1 <= j')%nat /\ nth_error (bufs s') j' = Some (Some b') /\ same_buf b b'.

Lemma Kp_refl s : Kp s s. Proof. split; auto. intros j b H. exists b. auto using same_refl. Qed.
Lemma Kp_trans a b c : Kp a b -> Kp b c -> Kp a c.
Proof.
  intros [X1 H1] [X2 H2]. split; [congruence|]. intros j x Hx. destruct (H1 j x Hx) as (y & Hy & S1).
  destruct (H2 j y Hy) as (z & Hz & S2). exists z. split; auto. eapply same_trans; eauto.
Qed.
Lemma same_view b b' : same_buf b b' -> b_view b' = b_view b.
Proof. intros (_ & _ & V & _). exact V. Qed.
Lemma Kp_K a b c : Kp a b -> K b c -> K a c.
Proof.
  intros [X1 H1] H2 j x Hj Hx. destruct (H1 j x Hx) as (y & Hy & S1).
  destruct (H2 j y Hj Hy) as (j' & z & Hz & S2 & V). exists j', z.
  split; [exact Hz|]. split; [eapply same_trans; eauto|].
  intro E. rewrite (V E). apply same_view. exact S1.
Qed.
Lemma K_Kp a b c : K a b -> Kp b c -> K a c.
Proof.
  intros H1 [X2 H2] j x Hj Hx. destruct (H1 j x Hj Hx) as (j' & y & Hy & S1 & V).
  destruct (H2 j' y Hy) as (z & Hz & S2). exists j', z.
  split; [exact Hz|]. split; [eapply same_trans; eauto|].
  intro E. rewrite X2. auto.
Qed.
Lemma K_K0 a b c : K a b -> K0 b c -> K a c.
Proof.
  intros H1 H2 j x Hj Hx. destruct (H1 j x Hj Hx) as (j' & y & Hy & S1 & _).
  destruct (H2 j' y Hy) as (j'' & z & Hz & S2 & V). exists j'', z.
  split; [exact Hz|]. split; [eapply same_trans; eauto|].
  intro E. rewrite (V E). apply same_view. exact S1.
Qed.
Lemma K1_K a b : K1 a b -> K a b.
Proof.
  intros H j x Hj Hx. destruct (H j x Hj Hx) as (j' & y & Hj' & Hy & S1). exists j', y.
  split; [exact Hy|]. split; [exact S1|]. intro; lia.
Qed.
Lemma Kt_K1 a b : Kt a b -> K1 a b.
Proof.
  intros H j x Hj Hx. exists j, x. split; [exact Hj|]. split; [rewrite H; auto|apply same_refl].
Qed.
Lemma K1_Kt a b c : K1 a b -> Kt b c -> K1 a c.
Proof.
  intros H1 H2 j x Hj Hx. destruct (H1 j x Hj Hx) as (j' & y & Hj' & Hy & S1). exists j', y.
  split; [exact Hj'|]. split; [rewrite H2; auto|exact S1].
Qed.
Lemma Kp_K1 a b c : Kp a b -> K1 b c -> K1 a c.
Proof.
  intros [X1 H1] H2 j x Hj Hx. destruct (H1 j x Hx) as (y & Hy & S1).
  destruct (H2 j y Hj Hy) as (j' & z & Hj' & Hz & S2). exists j', z.
  split; [exact Hj'|]. split; [exact Hz|eapply same_trans; eauto].
Qed.
Lemma K_refl s : K s s.
Proof. intros j b Hj H. exists j, b. split; [exact H|]. split; [apply same_refl|]. intro; lia. Qed.

(* upd0 touches slot 0 only *)
Lemma upd0_tail f (l : list slot) j : (1 <= j)%nat -> nth_error (upd0 f l) j = nth_error l j.
Proof. intro H. destruct l; [reflexivity|]. destruct j; [lia|]. reflexivity. Qed.
Lemma upd0_length f (l : list slot) : length (upd0 f l) = length l.
Proof. destruct l; reflexivity. Qed.
Lemma Kp_upd0_bump s : Kp s (set_bufs s (upd0 bump (bufs s))).
Proof.
  split; [reflexivity|]. intros j b H. cbn. destruct j.
  - destruct (bufs s) as [|x r]; [discriminate|]. cbn in *. inversion H; subst. exists (bump b). auto using same_bump.
  - rewrite upd0_tail by lia. exists b. auto using same_refl.
Qed.

(* bufs_modified: one bump, nothing else *)
Lemma Kp_modified s i : Kp s (fst (bufs_modified Lo s i)).
Proof.
  unfold bufs_modified. destruct (nth_error (bufs s) i) as [[b|]|] eqn:E; cbn [fst]; try apply Kp_refl.
  split; [reflexivity|]. intros j x Hx. cbn. destruct (Nat.eq_dec i j) as [<-|N].
  - rewrite nth_error_set_nth_eq by (apply nth_error_Some; congruence). rewrite E in Hx. inversion Hx; subst.
    exists (bump x). auto using same_bump.
  - rewrite nth_error_set_nth_neq by exact N. exists x. auto using same_refl.
Qed.
Lemma modified_fields s i : let s' := fst (bufs_modified Lo s i) in
  length (bufs s') = length (bufs s) /\ cnt s' = cnt s /\ fs s' = fs s /\ xwa s' = xwa s /\ xquit s' = xquit s /\ args s' = args s /\ next_pos s' = next_pos s.
Proof.
  unfold bufs_modified. destruct (nth_error (bufs s) i) as [[b|]|]; cbn; repeat split; auto. apply set_nth_length.
Qed.

(* bufs_switch Lo *)
(* the table right before the rotation: globals saved into slot 0, its command counter bumped *)
Definition saved s : list slot := upd0 bump (upd0 (fun b => set_view b (xv s)) (bufs s)).
Lemma saved_tail s j : (1 <= j)%nat -> nth_error (saved s) j = nth_error (bufs s) j.
Proof. intro H. unfold saved. rewrite !upd0_tail by exact H. reflexivity. Qed.
Lemma saved_length s : length (saved s) = length (bufs s).
Proof. unfold saved. rewrite !upd0_length. reflexivity. Qed.
Lemma switch_bufs s idx : bufs (bufs_switch Lo s idx) = switch (saved s) idx.
Proof. unfold bufs_switch, bufs_load. cbn. destruct (slot0 _); reflexivity. Qed.
Lemma switch_xv s idx : xv (bufs_switch Lo s idx) =
  match slot0 (bufs_switch Lo s idx) with Some b => b_view b | None => viewz end.
Proof. unfold bufs_switch, bufs_load. destruct (slot0 _) eqn:E; cbn; unfold slot0 in *; cbn in *; rewrite E; reflexivity. Qed.
Lemma switch_coh s idx : coh (bufs_switch Lo s idx).
Proof. intros b H. rewrite switch_xv, H. reflexivity. Qed.
Lemma slot0_nth (s : st) : slot0 s = match nth_error (bufs s) 0 with Some x => x | None => None end.
Proof. unfold slot0. destruct (bufs s); reflexivity. Qed.
Lemma switch_fields s idx : let s' := bufs_switch Lo s idx in
  length (bufs s') = length (bufs s) /\ cnt s' = cnt s /\ fs s' = fs s /\ xwa s' = xwa s /\ xquit s' = xquit s /\ args s' = args s /\ next_pos s' = next_pos s.
Proof.
  cbn zeta. rewrite switch_bufs, switch_length, saved_length. unfold bufs_switch, bufs_load. destruct (slot0 _); cbn; repeat split; auto.
Qed.

Lemma set_view_same (b : buf) : set_view b (b_view b) = b. Proof. destruct b; reflexivity. Qed.
Lemma save_coh s : coh s -> saved s = upd0 bump (bufs s).
Proof.
  intro C. unfold saved. f_equal. unfold coh, slot0 in C. destruct (bufs s) as [|[b|] r]; cbn; auto.
  rewrite (C b eq_refl), set_view_same. reflexivity.
Qed.

Lemma K0_switch_list s idx (l : list slot) : bufs (bufs_switch Lo s idx) = switch l idx ->
  forall j b, nth_error l j = Some (Some b) ->
  exists j' b', nth_error (bufs (bufs_switch Lo s idx)) j' = Some (Some b') /\ same_buf b b' /\ (j' = 0%nat -> xv (bufs_switch Lo s idx) = b_view b).
Proof.
  intros E j b Hb. destruct (nth_error l idx) as [x|] eqn:Ex.
  - destruct (lt_eq_lt_dec j idx) as [[Hlt|Heq]|Hgt].
    + exists (S j), b. rewrite E, (switch_nth_lt l idx x j Ex Hlt). split; [exact Hb|]. split; [apply same_refl|]. discriminate.
    + subst j. exists 0%nat, b. rewrite E, (switch_nth0 l idx x Ex). rewrite Hb in Ex. inversion Ex; subst.
      split; [reflexivity|]. split; [apply same_refl|]. intros _. rewrite switch_xv, slot0_nth, E, (switch_nth0 l idx _ Hb). reflexivity.
    + exists j, b. rewrite E, (switch_nth_gt l idx x j Ex Hgt). split; [exact Hb|]. split; [apply same_refl|].
      intro Z. lia.
  - exists j, b. rewrite E, (switch_oob l idx Ex). split; [exact Hb|]. split; [apply same_refl|].
    intro Z. subst j. rewrite switch_xv, slot0_nth, E, (switch_oob l idx Ex), Hb. reflexivity.
Qed.
Lemma K_switch s idx : K s (bufs_switch Lo s idx).
Proof.
  intros j b Hj Hb. apply (K0_switch_list s idx _ (switch_bufs s idx) j b). rewrite saved_tail by exact Hj. exact Hb.
Qed.
Lemma K0_switch s idx : coh s -> K0 s (bufs_switch Lo s idx).
Proof.
  intros C j b Hb. pose proof (switch_bufs s idx) as E. rewrite (save_coh s C) in E.
  destruct j as [|j].
  - assert (H0 : nth_error (upd0 bump (bufs s)) 0 = Some (Some (bump b))).
    { destruct (bufs s) as [|x r]; cbn in *; [discriminate|]. inversion Hb; subst. reflexivity. }
    destruct (K0_switch_list s idx _ E 0%nat (bump b) H0) as (j' & b' & A & B & V). exists j', b'.
    split; [exact A|]. split; [eapply same_trans; [apply same_bump|exact B]|]. intro Z. rewrite (V Z). reflexivity.
  - apply (K0_switch_list s idx _ E (S j) b). rewrite upd0_tail by lia. exact Hb.
Qed.

(* ---------- C20_switch_permutes ---------- *)
Theorem switch_permutes s idx :
  let s' := bufs_switch Lo s idx in
  bufs s' = switch (saved s) idx /\ Permutation (bufs s') (saved s) /\
  (forall j, (1 <= j)%nat -> nth_error (saved s) j = nth_error (bufs s) j) /\
  (forall b, nth_error (bufs s) 0 = Some (Some b) -> nth_error (saved s) 0 = Some (Some (bump (set_view b (xv s))))) /\
  xv s' = match slot0 s' with Some b => b_view b | None => viewz end /\
  cnt s' = cnt s /\ fs s' = fs s.
Proof.
  cbn zeta. split; [apply switch_bufs|]. split; [rewrite switch_bufs; apply switch_perm|].
  split; [intros; apply saved_tail; auto|]. split.
  { intros b H. unfold saved. destruct (bufs s) as [|x r]; cbn in *; [discriminate|]. inversion H; subst. reflexivity. }
  split; [apply switch_xv|]. destruct (switch_fields s idx) as (_ & A & B & _). auto.
Qed.

(* ---------- bufs_find, bufs_findroom ---------- *)
Lemma has_path_set_view p v (x : slot) : has_path p (upd_slot (fun b => set_view b v) x) = has_path p x.
Proof. destruct x; reflexivity. Qed.
Lemma has_path_bump p (x : slot) : has_path p (upd_slot bump x) = has_path p x.
Proof. destruct x; reflexivity. Qed.
Lemma find_after_switch s k p i : bufs_find s p = Some i -> bufs_find (bufs_switch Lo s k) p <> None.
Proof.
  unfold bufs_find. intro H. destruct (first_idx_some _ _ _ H) as (x & Hx & Fx & _).
  rewrite switch_bufs. set (v := xv s).
  assert (exists y, In y (saved s) /\ has_path (canon p) y = true) as (y & Hin & Fy).
  { destruct i.
    - exists (upd_slot bump (upd_slot (fun b => set_view b v) x)). split.
      + unfold saved. destruct (bufs s); cbn in *; [discriminate|]. inversion Hx; subst. left. reflexivity.
      + rewrite has_path_bump, has_path_set_view. exact Fx.
    - exists x. split; [|exact Fx]. apply nth_error_In with (n := S i). rewrite saved_tail by lia. exact Hx. }
  eapply first_idx_found; [eapply Permutation_in; [symmetry; apply switch_perm | exact Hin]| exact Fy].
Qed.

Lemma findroom_free (s : st) : length (bufs s) = NB -> In None (bufs s) -> nth_error (bufs s) (bufs_findroom s) = Some None.
Proof.
  intros Hl Hin. unfold bufs_findroom. destruct (first_idx is_free (firstn (NB - 1) (bufs s))) as [i|] eqn:E.
  - destruct (first_idx_some _ _ _ E) as (x & Hx & Fx & _). destruct x; [discriminate|].
    assert (i < NB - 1)%nat.
    { assert (i < length (firstn (NB - 1) (bufs s)))%nat by (apply nth_error_Some; congruence). rewrite firstn_length in H. lia. }
    rewrite nth_error_firstn' in Hx by assumption. exact Hx.
  - pose proof (first_idx_none _ _ E) as Hn.
    rewrite <- (firstn_skipn (NB - 1) (bufs s)) in Hin. apply in_app_or in Hin. destruct Hin as [Hin|Hin].
    + specialize (Hn None Hin). discriminate.
    + apply In_nth_error in Hin. destruct Hin as [k Hk]. rewrite nth_error_skipn' in Hk.
      assert (NB - 1 + k < length (bufs s))%nat by (apply nth_error_Some; congruence).
      assert (0 < NB)%nat by (vm_compute; lia).
      replace (NB - 1)%nat with (NB - 1 + k)%nat at 1 by lia. exact Hk.
Qed.

(* ---------- per-command frame lemmas ---------- *)
Lemma list_walk_spec (l : list slot) : forall i, let l' := fst (list_walk Lo l i) in
  length l' = length l /\ forall j b, nth_error l j = Some (Some b) -> exists b', nth_error l' j = Some (Some b') /\ same_buf b b'.
Proof.
  induction l as [|x r IH]; intro i; cbn zeta.
  - split; [reflexivity|]. intros j b H. destruct j; discriminate.
  - cbn [list_walk]. destruct x as [b0|].
    + specialize (IH (S i)). destruct (list_walk Lo r (S i)) as [r' es] eqn:E. cbn in *. destruct IH as [Hl Hn].
      split; [congruence|]. intros j b Hb. destruct j; cbn in *.
      * inversion Hb; subst. exists (bump b). auto using same_bump.
      * apply Hn. exact Hb.
    + cbn. split; [reflexivity|]. intros j b Hb. exists b. auto using same_refl.
Qed.

Definition no_alloc_or_room (s s' : st) : Prop := In None (bufs s) \/ cnt s' = cnt s.

Lemma K_goto s idx : K s (fst (buffer_goto Lo s idx)).
Proof.
  unfold buffer_goto. destruct idx as [i|]; [|apply K_refl]. destruct (occupied s i); [|apply K_refl].
  destruct (xwa s); [apply K_switch|].
  destruct (bufs_modified Lo s 0) as [s1 d] eqn:E. pose proof (Kp_modified s 0) as P. rewrite E in P. cbn in P.
  destruct d; cbn [fst].
  - eapply Kp_K; [exact P | apply K_refl].
  - eapply Kp_K; [exact P | apply K_switch].
Qed.

Lemma K1_open_switch s p : length (bufs s) = NB -> In None (bufs s) ->
  let (s', idx) := bufs_open Lo s p in K1 s (bufs_switch Lo s' idx) /\ cnt s' = cnt s + 1.
Proof.
  intros Hl Hin. unfold bufs_open. pose proof (findroom_free s Hl Hin) as Hf. set (idx := bufs_findroom s) in *.
  split; [|reflexivity]. intros j b Hj Hb.
  assert (j <> idx) by (intro; subst; congruence).
  set (s' := bufs_init Lo s idx (canon p)).
  assert (Hs' : nth_error (bufs s') j = Some (Some b)).
  { unfold s', bufs_init. cbn. rewrite nth_error_set_nth_neq by congruence. exact Hb. }
  assert (Hi : exists x, nth_error (saved s') idx = Some x).
  { assert (idx < length (saved s'))%nat.
    { rewrite saved_length. unfold s', bufs_init. cbn. rewrite set_nth_length. apply nth_error_Some. congruence. }
    destruct (nth_error (saved s') idx) eqn:E; eauto. apply nth_error_None in E. lia. }
  destruct Hi as [x Hx].
  assert (Hs'' : nth_error (saved s') j = Some (Some b)) by (rewrite saved_tail by exact Hj; exact Hs').
  destruct (lt_eq_lt_dec j idx) as [[Hlt|Heq]|Hgt]; [|congruence|].
  - exists (S j), b. rewrite switch_bufs, (switch_nth_lt _ idx x j Hx Hlt). split; [lia|]. split; [exact Hs''|apply same_refl].
  - exists j, b. rewrite switch_bufs, (switch_nth_gt _ idx x j Hx Hgt). split; [lia|]. split; [exact Hs''|apply same_refl].
Qed.

Lemma Kt_edit_read s named : Kt s (fst (edit_read Lo s named)).
Proof.
  unfold edit_read. destruct (slot0 s); cbn; intros j Hj; [|reflexivity]. apply upd0_tail. exact Hj.
Qed.
Lemma edit_read_cnt s named : cnt (fst (edit_read Lo s named)) = cnt s.
Proof. unfold edit_read. destruct (slot0 s); reflexivity. Qed.

Lemma K_edit s bang ew a : length (bufs s) = NB ->
  no_alloc_or_room s (fst (fst (ec_edit Lo s bang ew a))) -> K s (fst (fst (ec_edit Lo s bang ew a))).
Proof.
  intros Hl Hroom. unfold ec_edit in *.
  set (pre := if bang || xwa s then (s, false) else bufs_modified Lo s 0) in *.
  assert (P0 : Kp s (fst pre) /\ length (bufs (fst pre)) = NB /\ cnt (fst pre) = cnt s /\ (In None (bufs s) -> In None (bufs (fst pre)))).
  { unfold pre. destruct (bang || xwa s); cbn [fst].
    - split; [apply Kp_refl|]. auto.
    - split; [apply Kp_modified|]. destruct (modified_fields s 0) as (A & B & _). split; [congruence|]. split; [exact B|].
      intro Hin. apply In_nth_error in Hin. destruct Hin as [k Hk]. unfold bufs_modified.
      destruct (nth_error (bufs s) 0) as [[b|]|] eqn:E0; cbn; try (eapply nth_error_In; exact Hk).
      apply nth_error_In with (n := k). rewrite nth_error_set_nth_neq; [exact Hk|]. intro Z. subst k. pose proof (eq_trans (eq_sym Hk) E0) as X. discriminate X. }
  destruct pre as [s0 refused]. cbn [fst] in P0. destruct P0 as (P0 & Hl0 & Hc0 & Hin0).
  destruct refused; cbn [fst] in *. { eapply Kp_K; [exact P0|apply K_refl]. }
  destruct (pathexpand s0 a) as [p|]; cbn [fst] in *; [|eapply Kp_K; [exact P0|apply K_refl]].
  set (nonempty := match p with [] => false | _ => true end) in *.
  set (s1 := if nonempty && ew then match bufs_find s0 p with Some i => if (1 <? i)%nat then bufs_switch Lo s0 1 else s0 | None => s0 end else s0) in *.
  assert (Cases : s1 = s0 \/ (s1 = bufs_switch Lo s0 1 /\ nonempty = true /\ exists i, bufs_find s0 p = Some i)).
  { unfold s1. destruct (nonempty && ew) eqn:Ne; auto. destruct (bufs_find s0 p) as [i|] eqn:Ef; auto.
    destruct (1 <? i)%nat; auto. right. apply andb_true_iff in Ne. destruct Ne. eauto. }
  clearbody s1. destruct Cases as [-> | (E1 & Hne & i & Hfi)].
  - destruct (if nonempty then bufs_find s0 p else None) as [i|] eqn:Ef; cbn [fst] in *.
    + eapply Kp_K; [exact P0 | apply K_switch].
    + destruct (nonempty || is_free (slot0 s0)) eqn:Eo.
      * destruct Hroom as [Hin | Hc].
        -- pose proof (K1_open_switch s0 p Hl0 (Hin0 Hin)) as Ho. destruct (bufs_open Lo s0 p) as [s' idx]. destruct Ho as [Ho _].
           destruct (edit_read Lo (bufs_switch Lo s' idx) nonempty) as [s3 evs] eqn:Er. cbn [fst].
           eapply Kp_K; [exact P0|]. apply K1_K. eapply K1_Kt; [exact Ho|]. pose proof (Kt_edit_read (bufs_switch Lo s' idx) nonempty) as T. rewrite Er in T. exact T.
        -- exfalso. unfold bufs_open in Hc. revert Hc.
           destruct (edit_read Lo (bufs_switch Lo (bufs_init Lo s0 (bufs_findroom s0) (canon p)) (bufs_findroom s0)) nonempty) as [s3 evs] eqn:Er. cbn [fst].
           pose proof (edit_read_cnt (bufs_switch Lo (bufs_init Lo s0 (bufs_findroom s0) (canon p)) (bufs_findroom s0)) nonempty) as C. rewrite Er in C. cbn in C.
           destruct (switch_fields (bufs_init Lo s0 (bufs_findroom s0) (canon p)) (bufs_findroom s0)) as (_ & C2 & _). cbn in C2.
           intro Hc. rewrite C, C2 in Hc. cbn in Hc. lia.
      * destruct (edit_read Lo s0 nonempty) as [s3 evs] eqn:Er. cbn [fst].
        eapply Kp_K; [exact P0|]. apply K1_K, Kt_K1. pose proof (Kt_edit_read s0 nonempty) as T. rewrite Er in T. exact T.
  - subst s1. rewrite Hne in *. destruct (bufs_find (bufs_switch Lo s0 1) p) as [k|] eqn:Ef; cbn [fst] in *.
    + eapply Kp_K; [exact P0|]. eapply K_K0; [apply K_switch|]. apply K0_switch. apply switch_coh.
    + exfalso. exact (find_after_switch s0 1 p i Hfi Ef).
Qed.

Lemma K_next s dis : length (bufs s) = NB ->
  no_alloc_or_room s (fst (ex_next Lo s dis)) -> K s (fst (ex_next Lo s dis)).
Proof.
  intros Hl Hroom. unfold ex_next in *. revert Hroom.
  generalize (match nth_path (args s) (next_pos s) with Some _ => (next_pos s + dis)%Z | None => (-1)%Z end). intros idx Hroom.
  destruct (nth_path (args s) idx) as [p|]; [|apply K_refl].
  destruct (ec_edit Lo s false false (PLit p)) as [[s1 evs] ok] eqn:E. cbn [fst] in *.
  assert (K s s1).
  { pose proof (K_edit s false false (PLit p) Hl) as H. rewrite E in H. cbn [fst] in H. apply H.
    destruct Hroom as [?|Hc]; [left; auto|right]. destruct ok; exact Hc. }
  destruct ok; exact H.
Qed.

Lemma quit_walk_K : forall n s i, K s (fst (quit_walk Lo s i n)).
Proof.
  induction n as [|n IH]; intros s i; cbn [quit_walk fst]; [apply K_refl|].
  destruct (bufs_modified Lo s i) as [s1 d] eqn:E. pose proof (Kp_modified s i) as P. rewrite E in P. cbn in P.
  destruct d; cbn [fst].
  - eapply Kp_K; [exact P|apply K_switch].
  - eapply Kp_K; [exact P|apply IH].
Qed.

Lemma K_shift s : K s (bufs_shift s).
Proof.
  intros j b Hj Hb. destruct j as [|j]; [lia|]. exists j, b.
  assert (Hn : nth_error (bufs (bufs_shift s)) j = Some (Some b)).
  { unfold bufs_shift, bufs_load. assert (nth_error (tl (bufs s) ++ [None]) j = Some (Some b)).
    { destruct (bufs s) as [|x r]; [discriminate|]. cbn in *. rewrite nth_error_app1; [exact Hb|]. apply nth_error_Some. congruence. }
    destruct (slot0 _); cbn; exact H. }
  split; [exact Hn|]. split; [apply same_refl|]. intro Z. subst j.
  unfold bufs_shift in *. unfold bufs_load in *. destruct (slot0 (set_bufs s (tl (bufs s) ++ [None]))) eqn:E0.
  - cbn in *. unfold slot0 in E0. cbn in E0. destruct (tl (bufs s) ++ [None]); cbn in *; [discriminate|]. congruence.
  - cbn in *. unfold slot0 in E0. cbn in E0. destruct (tl (bufs s) ++ [None]); cbn in *; [discriminate|]. congruence.
Qed.

Theorem frame_exec s c : length (bufs s) = NB -> c <> CBufRenum ->
  no_alloc_or_room s (fst (ex_exec Lo s c)) -> K s (fst (ex_exec Lo s c)).
Proof.
  intros Hl Hr Hroom. destruct c; cbn [ex_exec] in *.
  - pose proof (K_edit s bang ew a Hl) as H. destruct (ec_edit Lo s bang ew a) as [[s1 evs] ok]. cbn [fst] in *. auto.
  - unfold ec_buffer_list. pose proof (list_walk_spec (bufs s) 0) as H. destruct (list_walk Lo (bufs s) 0) as [l es]. cbn [fst] in *.
    destruct H as [_ H]. eapply Kp_K; [|apply K_refl]. split; [reflexivity|]. exact H.
  - unfold ec_buffer_del. cbn [fst]. pose proof (K_shift s) as H. destruct (slot0 (bufs_shift s)) eqn:E; [exact H|].
    (* the table is empty after the shift: slot 0 is re-initialised, slots >= 1 stay *)
    intros j b Hj Hb. destruct (H j b Hj Hb) as (j' & b' & A & B & C). destruct j'.
    + rewrite slot0_nth, A in E. discriminate.
    + exists (S j'), b'. split; [|split; [exact B|discriminate]]. unfold bufs_init. cbn [bufs set_bufs set_cnt]. rewrite nth_error_set_nth_neq by discriminate. exact A.
  - congruence.
  - apply K_goto.
  - apply K_goto.
  - apply K_goto.
  - apply K_goto.
  - apply K_next; auto.
  - apply K_next; auto.
  - unfold ec_quit. destruct bang; cbn [fst]; [exact (K_refl s)|].
    pose proof (quit_walk_K NB s 0%nat) as H. destruct (quit_walk Lo s 0 NB) as [s1 found]. cbn [fst] in *.
    destruct found; cbn [fst]; exact H.
  - unfold ec_write. destruct (slot0 s) as [b|]; [|apply K_refl].
    destruct (negb bang && _); cbn [fst]; [apply K_refl|].
    destruct (negb bang && _ && _); cbn [fst]; [apply K_refl|].
    destruct (match p with Some q => q | None => b_path b end); cbn [fst]; [apply K_refl|].
    apply K1_K, Kt_K1. intros j Hj. destruct (b_path b); cbn [bufs set_bufs set_fs set_pct]; apply upd0_tail; exact Hj.
  - exact (K_refl s).
  - unfold ec_op. destruct (slot0 s) as [b0|]; [|apply K_refl]. destruct (lb_op Lo o (b_lb b0) (xv s)) as [[lb' v'] out]. cbn [fst].
    apply K1_K, Kt_K1. intros j Hj. cbn [bufs set_bufs set_xv]. apply upd0_tail. exact Hj.
Qed.

Theorem frame_step s c : length (bufs s) = NB -> c <> CBufRenum ->
  no_alloc_or_room s (fst (ex_command Lo s c)) -> K s (fst (ex_command Lo s c)).
Proof.
  intros Hl Hr Hroom. unfold ex_command in *. pose proof (frame_exec s c Hl Hr) as H.
  destruct (ex_exec Lo s c) as [s1 evs]. cbn [fst] in *. eapply K_Kp; [apply H; exact Hroom | apply Kp_upd0_bump].
Qed.


(* ---------- the table keeps its length ---------- *)
Lemma renum_length (l : list slot) : forall n, length (fst (renum l n)) = length l.
Proof.
  induction l as [|[b|] r IH]; intro n; cbn; [reflexivity| |].
  - specialize (IH (n + 1)%Z). destruct (renum r (n + 1)); cbn in *. congruence.
  - specialize (IH n). destruct (renum r n); cbn in *. congruence.
Qed.
Lemma goto_length s idx : length (bufs (fst (buffer_goto Lo s idx))) = length (bufs s).
Proof.
  unfold buffer_goto. destruct idx as [i|]; [|reflexivity]. destruct (occupied s i); [|reflexivity].
  destruct (xwa s); [apply switch_fields|].
  pose proof (modified_fields s 0) as M. destruct (bufs_modified Lo s 0) as [s1 d]. cbn [fst] in *. destruct M as [M _].
  destruct d; cbn [fst]; [exact M|]. rewrite <- M. apply switch_fields.
Qed.
Lemma edit_read_length s named : length (bufs (fst (edit_read Lo s named))) = length (bufs s).
Proof. unfold edit_read. destruct (slot0 s); cbn; [apply upd0_length|reflexivity]. Qed.
Lemma edit_length s bang ew a : length (bufs (fst (fst (ec_edit Lo s bang ew a)))) = length (bufs s).
Proof.
  unfold ec_edit.
  assert (P : length (bufs (fst (if bang || xwa s then (s, false) else bufs_modified Lo s 0))) = length (bufs s)).
  { destruct (bang || xwa s); [reflexivity|apply modified_fields]. }
  destruct (if bang || xwa s then (s, false) else bufs_modified Lo s 0) as [s0 refused]. cbn [fst] in P.
  destruct refused; cbn [fst]; [exact P|]. destruct (pathexpand s0 a) as [p|]; cbn [fst]; [|exact P].
  set (nonempty := match p with [] => false | _ => true end).
  set (s1 := if nonempty && ew then match bufs_find s0 p with Some i => if (1 <? i)%nat then bufs_switch Lo s0 1 else s0 | None => s0 end else s0).
  assert (P1 : length (bufs s1) = length (bufs s)).
  { unfold s1. destruct (nonempty && ew); [|exact P]. destruct (bufs_find s0 p); [|exact P]. destruct (1 <? n)%nat; [|exact P].
    rewrite <- P. apply switch_fields. }
  clearbody s1. destruct (if nonempty then bufs_find s1 p else None); cbn [fst].
  - rewrite <- P1. apply switch_fields.
  - set (s2 := if nonempty || is_free (slot0 s1) then let (s', idx) := bufs_open Lo s1 p in bufs_switch Lo s' idx else s1).
    assert (P2 : length (bufs s2) = length (bufs s)).
    { unfold s2. destruct (nonempty || is_free (slot0 s1)); [|exact P1]. unfold bufs_open.
      destruct (switch_fields (bufs_init Lo s1 (bufs_findroom s1) (canon p)) (bufs_findroom s1)) as [X _]. rewrite X.
      unfold bufs_init. cbn. rewrite set_nth_length. exact P1. }
    clearbody s2. pose proof (edit_read_length s2 nonempty) as E. destruct (edit_read Lo s2 nonempty). cbn [fst] in *. congruence.
Qed.
Lemma next_length s dis : length (bufs (fst (ex_next Lo s dis))) = length (bufs s).
Proof.
  unfold ex_next. generalize (match nth_path (args s) (next_pos s) with Some _ => (next_pos s + dis)%Z | None => (-1)%Z end). intro idx.
  destruct (nth_path (args s) idx) as [p|]; [|reflexivity].
  pose proof (edit_length s false false (PLit p)) as E. destruct (ec_edit Lo s false false (PLit p)) as [[s1 evs] ok]. cbn [fst] in *.
  destruct ok; cbn; congruence.
Qed.
Lemma quit_walk_length : forall n s i, length (bufs (fst (quit_walk Lo s i n))) = length (bufs s).
Proof.
  induction n as [|n IH]; intros s i; cbn [quit_walk]; [reflexivity|].
  pose proof (modified_fields s i) as M. destruct (bufs_modified Lo s i) as [s1 d]. cbn [fst] in M. destruct M as [M _].
  destruct d; cbn [fst].
  - rewrite <- M. apply switch_fields.
  - rewrite IH. exact M.
Qed.
Lemma step_length s c : length (bufs s) = NB -> length (bufs (fst (ex_command Lo s c))) = NB.
Proof.
  intro Hl. unfold ex_command.
  assert (H : length (bufs (fst (ex_exec Lo s c))) = NB).
  { destruct c; cbn [ex_exec].
    - pose proof (edit_length s bang ew a) as E. destruct (ec_edit Lo s bang ew a) as [[s1 evs] ok]. cbn [fst] in *. congruence.
    - unfold ec_buffer_list. pose proof (list_walk_spec (bufs s) 0) as [E _]. destruct (list_walk Lo (bufs s) 0). cbn in *. congruence.
    - unfold ec_buffer_del. cbn [fst].
      assert (X : length (bufs (bufs_shift s)) = NB).
      { unfold bufs_shift, bufs_load. destruct (slot0 _); cbn; rewrite app_length; destruct (bufs s); cbn in *; try lia; (assert (0 < NB)%nat by (vm_compute; lia)); lia. }
      destruct (slot0 (bufs_shift s)); [exact X|]. unfold bufs_init. cbn. rewrite set_nth_length. exact X.
    - unfold ec_buffer_renum, bufs_number. cbn [fst]. pose proof (renum_length (bufs s) 0) as R. destruct (renum (bufs s) 0). cbn in *. congruence.
    - unfold ec_buffer_id. rewrite goto_length. exact Hl.
    - unfold ec_buffer_next. rewrite goto_length. exact Hl.
    - unfold ec_buffer_prev. rewrite goto_length. exact Hl.
    - unfold ec_buffer_alias. rewrite goto_length. exact Hl.
    - rewrite next_length. exact Hl.
    - rewrite next_length. exact Hl.
    - unfold ec_quit. destruct bang; [exact Hl|]. pose proof (quit_walk_length NB s 0) as Q. destruct (quit_walk Lo s 0 NB) as [s1 f]. cbn [fst] in *.
      destruct f; change (length (bufs s1) = NB); rewrite Q; exact Hl.
    - unfold ec_write. destruct (slot0 s) as [b|]; [|exact Hl].
      destruct (negb bang && _); [exact Hl|]. destruct (negb bang && _ && _); [exact Hl|].
      destruct (match p with Some q => q | None => b_path b end); [exact Hl|]. cbn [fst].
      destruct (b_path b); cbn; rewrite upd0_length; exact Hl.
    - exact Hl.
    - unfold ec_op. destruct (slot0 s) as [b0|]; [|exact Hl]. destruct (lb_op Lo o (b_lb b0) (xv s)) as [[lb' v'] out]. cbn. rewrite upd0_length. exact Hl. }
  destruct (ex_exec Lo s c) as [s1 evs]. cbn in *. rewrite upd0_length. exact H.
Qed.

(* ---------- isolation over whole histories ---------- *)
(* the history stays inside the property's quantifier: no renumbering, and a new buffer is only
   allocated while a slot is free (at most NB buffers) *)
Fixpoint safe (s : st) (cs : list (cmd Op)) : Prop :=
  match cs with
  | [] => True
  | c :: r => xquit s = true \/
              (c <> CBufRenum /\ no_alloc_or_room s (fst (ex_command Lo s c)) /\ safe (fst (ex_command Lo s c)) r)
  end.

Theorem isolation_run : forall cs s j b, length (bufs s) = NB -> (1 <= j)%nat -> nth_error (bufs s) j = Some (Some b) -> safe s cs ->
  (exists j' b', (1 <= j')%nat /\ nth_error (bufs (run Lo s cs)) j' = Some (Some b') /\ same_buf b b')
  \/ (exists pre c post b', cs = pre ++ c :: post /\ slot0 (run Lo s (pre ++ [c])) = Some b' /\ same_buf b b' /\
                            xv (run Lo s (pre ++ [c])) = b_view b).
Proof.
  induction cs as [|c r IH]; intros s j b Hl Hj Hb Hs.
  - left. exists j, b. cbn. auto using same_refl.
  - cbn [run]. destruct (xquit s) eqn:Q.
    + left. exists j, b. auto using same_refl.
    + cbn [safe] in Hs. destruct Hs as [Hs|(Hr & Hroom & Hs)]; [congruence|].
      pose proof (frame_step s c Hl Hr Hroom j b Hj Hb) as (j' & b' & A & B & C).
      destruct j' as [|j'].
      * right. exists [], c, r, b'. cbn [app run]. rewrite Q. split; [reflexivity|]. split; [rewrite slot0_nth, A; reflexivity|]. split; [exact B|].
        apply C. reflexivity.
      * destruct (IH (fst (ex_command Lo s c)) (S j') b' (step_length s c Hl) ltac:(lia) A Hs) as [(j2 & b2 & X1 & X2 & X3)|(pre & c' & post & b2 & X1 & X2 & X3 & X4)].
        -- left. exists j2, b2. split; [exact X1|]. split; [exact X2|]. eapply same_trans; eauto.
        -- right. exists (c :: pre), c', post, b2. cbn [app run]. rewrite Q. split; [rewrite X1; reflexivity|]. split; [exact X2|].
           split; [eapply same_trans; eauto|]. rewrite X4. apply same_view. exact B.
Qed.


(* ---------- quit ---------- *)
Definition dirty_slot (x : slot) : bool := match x with Some b => snd (lb_modified Lo (b_lb b)) | None => false end.
Definition dirty_at s (k : nat) : bool := match nth_error (bufs s) k with Some x => dirty_slot x | None => false end.

Lemma modified_snd s i : snd (bufs_modified Lo s i) = dirty_at s i.
Proof. unfold bufs_modified, dirty_at. destruct (nth_error (bufs s) i) as [[b|]|]; reflexivity. Qed.
Lemma modified_other s i j : i <> j -> nth_error (bufs (fst (bufs_modified Lo s i))) j = nth_error (bufs s) j.
Proof.
  intro N. unfold bufs_modified. destruct (nth_error (bufs s) i) as [[b|]|]; cbn; auto. apply nth_error_set_nth_neq. exact N.
Qed.
Lemma modified_xv s i : xv (fst (bufs_modified Lo s i)) = xv s.
Proof. unfold bufs_modified. destruct (nth_error (bufs s) i) as [[b|]|]; reflexivity. Qed.
Lemma modified_at s i b : nth_error (bufs s) i = Some (Some b) -> nth_error (bufs (fst (bufs_modified Lo s i))) i = Some (Some (bump b)).
Proof.
  intro E. unfold bufs_modified. rewrite E. cbn. apply nth_error_set_nth_eq. apply nth_error_Some. congruence.
Qed.
Lemma switch_slot0 s i x : nth_error (saved s) i = Some x -> slot0 (bufs_switch Lo s i) = x.
Proof. intro E. rewrite slot0_nth, switch_bufs, (switch_nth0 _ i x E). reflexivity. Qed.

Lemma quit_walk_spec : forall n s i, let r := quit_walk Lo s i n in
  xquit (fst r) = xquit s /\
  ((snd r = false /\ forall k, (i <= k < i + n)%nat -> dirty_at s k = false)
   \/ (snd r = true /\ exists k b, (i <= k < i + n)%nat /\ nth_error (bufs s) k = Some (Some b) /\ dirty_slot (Some b) = true /\
        (forall k', (i <= k' < k)%nat -> dirty_at s k' = false) /\
        slot0 (fst r) = Some (if Nat.eqb k 0 then bump (set_view (bump b) (xv s)) else bump b))).
Proof.
  induction n as [|n IH]; intros s i; cbn zeta; cbn [quit_walk].
  - split; [reflexivity|]. left. split; [reflexivity|]. intros; lia.
  - pose proof (modified_snd s i) as D. pose proof (modified_fields s i) as (_ & _ & _ & _ & Q & _).
    pose proof (modified_xv s i) as X. pose proof (modified_other s i) as Oth. pose proof (modified_at s i) as At.
    destruct (bufs_modified Lo s i) as [s1 d]. cbn [fst snd] in *. destruct d.
    + cbn [fst snd]. split; [destruct (switch_fields s1 i) as (_ & _ & _ & _ & Q2 & _); congruence|]. right. split; [reflexivity|].
      unfold dirty_at in D. destruct (nth_error (bufs s) i) as [[b|]|] eqn:E; try discriminate.
      exists i, b. split; [lia|]. split; [first [exact E|reflexivity]|]. split; [symmetry; exact D|]. split; [intros; lia|].
      apply switch_slot0. specialize (At b eq_refl). destruct i as [|i]; cbn [Nat.eqb].
      * unfold saved. rewrite X. destruct (bufs s1) as [|y r]; cbn in *; [discriminate|]. inversion At; subst. reflexivity.
      * rewrite saved_tail by lia. exact At.
    + specialize (IH s1 (S i)). cbn zeta in IH. destruct IH as [Q2 IH]. split; [congruence|].
      assert (Da : forall k, (S i <= k)%nat -> dirty_at s1 k = dirty_at s k).
      { intros k Hk. unfold dirty_at. rewrite Oth by lia. reflexivity. }
      destruct IH as [[F A]|[F (k & b & Hk & Hb & Db & Hmin & S0)]].
      * left. split; [exact F|]. intros k Hk. destruct (Nat.eq_dec k i) as [->|N]; [symmetry; exact D|]. rewrite <- Da by lia. apply A. lia.
      * right. split; [exact F|]. exists k, b. split; [lia|]. split; [rewrite <- Oth with (j := k) by lia; exact Hb|]. split; [exact Db|].
        split. { intros k' Hk'. destruct (Nat.eq_dec k' i) as [->|N]; [symmetry; exact D|]. rewrite <- Da by lia. apply Hmin. lia. }
        rewrite S0. destruct k; [lia|]. reflexivity.
Qed.

Theorem quit_walk_thm s : let s' := fst (ec_quit Lo s false) in
  ((forall k, (k < NB)%nat -> dirty_at s k = false) -> xquit s' = true) /\
  (forall k, (k < NB)%nat -> dirty_at s k = true -> (forall k', (k' < k)%nat -> dirty_at s k' = false) ->
     xquit s' = xquit s /\ exists b, nth_error (bufs s) k = Some (Some b) /\
     slot0 s' = Some (if Nat.eqb k 0 then bump (set_view (bump b) (xv s)) else bump b)).
Proof.
  cbn zeta. unfold ec_quit. pose proof (quit_walk_spec NB s 0) as H. cbn zeta in H.
  destruct (quit_walk Lo s 0 NB) as [s1 f]. cbn [fst snd] in H. destruct H as [Q H]. split.
  - intro Clean. destruct H as [[-> _]|[-> (k & b & Hk & Hb & Db & _)]]; [reflexivity|].
    exfalso. specialize (Clean k ltac:(lia)). unfold dirty_at in Clean. rewrite Hb in Clean. congruence.
  - intros k Hk Dk Hmin. destruct H as [[-> A]|[-> (k2 & b & Hk2 & Hb & Db & Hmin2 & S0)]].
    + rewrite A in Dk by lia. discriminate.
    + assert (k2 = k).
      { destruct (lt_eq_lt_dec k2 k) as [[Hlt|Heq]|Hgt]; auto.
        - specialize (Hmin k2 Hlt). unfold dirty_at in Hmin. rewrite Hb in Hmin. congruence.
        - specialize (Hmin2 k ltac:(lia)). congruence. }
      subst k2. cbn [fst]. split; [exact Q|]. exists b. auto.
Qed.

(* ---------- the buffer reached is the one named ---------- *)
Lemma goto_reaches s i b : (1 <= i)%nat -> nth_error (bufs s) i = Some (Some b) -> (xwa s = true \/ dirty_at s 0 = false) ->
  let s' := fst (buffer_goto Lo s (Some i)) in slot0 s' = Some b /\ xv s' = b_view b /\ fs s' = fs s.
Proof.
  intros Hi Hb Hok. cbn zeta. unfold buffer_goto, occupied. rewrite Hb.
  assert (G : forall s0, nth_error (bufs s0) i = Some (Some b) -> slot0 (bufs_switch Lo s0 i) = Some b /\ xv (bufs_switch Lo s0 i) = b_view b /\ fs (bufs_switch Lo s0 i) = fs s0).
  { intros s0 H0. assert (S0 : slot0 (bufs_switch Lo s0 i) = Some b) by (apply switch_slot0; rewrite saved_tail by exact Hi; exact H0).
    split; [exact S0|]. split; [rewrite switch_xv, S0; reflexivity|]. apply switch_fields. }
  destruct (xwa s) eqn:W; [apply G; exact Hb|]. destruct Hok as [?|D]; [discriminate|].
  pose proof (modified_snd s 0) as Ds. pose proof (modified_other s 0 i ltac:(lia)) as Oth. pose proof (modified_fields s 0) as (_ & _ & F & _).
  destruct (bufs_modified Lo s 0) as [s1 d]. cbn [fst snd] in *. rewrite D in Ds. subst d. cbn [fst].
  rewrite <- F. apply G. rewrite Oth. exact Hb.
Qed.

Theorem reaches_id s n i : first_idx (has_id n) (bufs s) = Some i -> (1 <= i)%nat -> (xwa s = true \/ dirty_at s 0 = false) ->
  let s' := fst (ec_buffer_id Lo s n) in
  exists b, nth_error (bufs s) i = Some (Some b) /\ b_id b = n /\ slot0 s' = Some b /\ xv s' = b_view b /\ fs s' = fs s.
Proof.
  intros F Hi Hok. cbn zeta. unfold ec_buffer_id. rewrite F. destruct (first_idx_some _ _ _ F) as (x & Hx & Fx & _).
  destruct x as [b|]; [|discriminate]. cbn in Fx. apply Z.eqb_eq in Fx. exists b. split; [exact Hx|]. split; [exact Fx|].
  apply goto_reaches; auto.
Qed.
Theorem id_found s n j b : nth_error (bufs s) j = Some (Some b) -> b_id b = n -> first_idx (has_id n) (bufs s) <> None.
Proof.
  intros H E. eapply first_idx_found; [eapply nth_error_In; exact H|]. cbn. apply Z.eqb_eq. exact E.
Qed.
Theorem reaches_alias s k b : (1 <= k < 3)%nat -> nth_error (bufs s) k = Some (Some b) -> (xwa s = true \/ dirty_at s 0 = false) ->
  let s' := fst (ec_buffer_alias Lo s k) in slot0 s' = Some b /\ xv s' = b_view b /\ fs s' = fs s.
Proof.
  intros Hk Hb Hok. cbn zeta. unfold ec_buffer_alias. replace (k <? 3)%nat with true by (symmetry; apply Nat.ltb_lt; lia).
  apply goto_reaches; auto; lia.
Qed.


(* :e of a path that is already open switches to that buffer and reads nothing.  (Stated for the forms
   that skip the dirty test of the current buffer, e! / ew! / writeany; with the test the state first
   passes through bufs_modified, which only bumps the counter of slot 0.) *)
Theorem reaches_path s bang a p i b : bang || xwa s = true -> pathexpand s a = Some p -> p <> [] ->
  bufs_find s p = Some i -> (1 <= i)%nat -> nth_error (bufs s) i = Some (Some b) ->
  ec_edit Lo s bang false a = (bufs_switch Lo s i, [], true) /\
  slot0 (bufs_switch Lo s i) = Some b /\ xv (bufs_switch Lo s i) = b_view b /\ fs (bufs_switch Lo s i) = fs s /\ b_path b = canon p.
Proof.
  intros Hb Hp Hne Hf Hi Hn. split.
  - unfold ec_edit. rewrite Hb, Hp. destruct p as [|x r]; [congruence|]. rewrite andb_false_r. rewrite Hf. reflexivity.
  - assert (S0 : slot0 (bufs_switch Lo s i) = Some b) by (apply switch_slot0; rewrite saved_tail by exact Hi; exact Hn).
    split; [exact S0|]. split; [rewrite switch_xv, S0; reflexivity|]. split; [apply switch_fields|].
    unfold bufs_find in Hf. destruct (first_idx_some _ _ _ Hf) as (x & Hx & Fx & _).
    assert (x = Some b) by congruence. subst x. cbn in Fx. apply path_eqb_eq in Fx. exact Fx.
Qed.

(* :e # reaches the alternate buffer (slot 1), provided its path differs from the current one *)
Theorem reaches_alt s bang b0 b1 : bang || xwa s = true ->
  nth_error (bufs s) 0 = Some (Some b0) -> nth_error (bufs s) 1 = Some (Some b1) ->
  b_path b1 <> [47%N] -> b_path b0 <> b_path b1 ->
  fst (fst (ec_edit Lo s bang false PAlt)) = bufs_switch Lo s 1 /\ snd (fst (ec_edit Lo s bang false PAlt)) = [] /\
  slot0 (bufs_switch Lo s 1) = Some b1 /\ xv (bufs_switch Lo s 1) = b_view b1 /\ fs (bufs_switch Lo s 1) = fs s.
Proof.
  intros Hb H0 H1 Hs Hd.
  set (p := match b_path b1 with [] => [47%N] | q => q end).
  assert (Hp : pathexpand s PAlt = Some p) by (unfold pathexpand; rewrite H1; reflexivity).
  assert (Hne : p <> []) by (unfold p; destruct (b_path b1); discriminate).
  assert (Hc : canon p = b_path b1).
  { unfold p, canon. destruct (b_path b1) as [|x r] eqn:E; [reflexivity|].
    destruct (path_eqb (x :: r) [47%N]) eqn:Q; [|reflexivity]. apply path_eqb_eq in Q. congruence. }
  assert (Hf : bufs_find s p = Some 1%nat).
  { unfold bufs_find. rewrite Hc. destruct (bufs s) as [|x0 [|x1 r]]; cbn in H0, H1; try discriminate.
    inversion H0; inversion H1; subst. cbn.
    destruct (path_eqb (b_path b0) (b_path b1)) eqn:Q; [apply path_eqb_eq in Q; congruence|].
    replace (path_eqb (b_path b1) (b_path b1)) with true by (symmetry; apply path_eqb_eq; reflexivity). reflexivity. }
  destruct (reaches_path s bang PAlt p 1 b1 Hb Hp Hne Hf ltac:(lia) H1) as (E & A & B & C & _).
  rewrite E. cbn. auto.
Qed.

End Props.
