(* TrRegexAtom.v -- ratom_match of /repo/regex.c (the CLite term cf_ratom_match that tools/c2clite.py generated) is the
   model's atom matcher ReVM.ratom_match: for EVERY atom, line in memory, position inside the line and flag word,
   the translated C text returns 1 exactly when the model says "no match" (memory unchanged) and returns 0 after storing
   the model's new position into rs->s (cell 0 of the matching state) -- no load leaves the atom's string, the line or
   the two structs, no int operation overflows, no fuel runs out.
   struct ratom { int ra; char *s; } is a block of two cells, struct rstate { char *s; char *o; int mark[128]; int pc;
   int flg; int dep; } a block of 133 cells (flg = cell 131), as tools/c2clite.py lays structs out. *)
From Coq Require Import List ZArith NArith Bool Lia.
From NV Require Import Bytes GenConsts ReSyntax ReParse ReVM CLite CLiteProps GenCFuncs CLiteTac TrRegex.
Import ListNotations.
Local Open Scope Z_scope.

(* ------------------------------------------------------------------ ratom_match (regex.c) *)
(* struct ratom { int ra; char *s; } = two cells; struct rstate { char *s; char *o; int mark[128]; int pc; int flg; int dep; }
   = 133 cells, flg is cell 131 *)
Definition ra_code (a : atom) : Z :=
  match a with AChr _ => 0 | AAny => 46 | ABrk _ => 91 | ABeg => 94 | AEnd => 36 | AWBeg => 60 | AWEnd => 62 end.
Definition ra_str (a : atom) : option bytes := match a with AChr s | ABrk s => Some s | _ => None end.
(* block ba holds the atom a; its string (if it has one) is the C string in block bs *)
Definition ratom_at (m : mem) (ba bs : nat) (a : atom) : Prop :=
  exists sv, nth_error m ba = Some [VInt (ra_code a); sv] /\
  match ra_str a with Some s => sv = VPtr bs 0 /\ str_at m bs s /\ nonul s | None => True end.
(* block br holds a matching state whose current position is offset p of the line in block bl *)
Definition rstate_at (m : mem) (br bl : nat) (rs : list val) (p : nat) (flg : Z) : Prop :=
  nth_error m br = Some rs /\ nth_error rs 0 = Some (VPtr bl (Z.of_nat p)) /\ nth_error rs 1 = Some (VPtr bl 0) /\
  nth_error rs 131 = Some (VInt flg).

Lemma load_cell (m : mem) b blk o v : nth_error m b = Some blk -> nth_error blk (Z.to_nat o) = Some v -> 0 <= o ->
  load m b o = Ok v.
Proof. intros Hm Hv Ho. unfold load. rewrite Hm. destruct (Z.ltb_spec o 0); [lia|]. rewrite Hv. reflexivity. Qed.

Ltac zeqb_const :=
  repeat match goal with
         | |- context [Z.eqb (Zpos ?a) (Zpos ?b)] => let v := eval vm_compute in (Z.eqb (Zpos a) (Zpos b)) in change (Z.eqb (Zpos a) (Zpos b)) with v
         | |- context [Z.eqb (Zpos ?a) Z0] => change (Z.eqb (Zpos a) Z0) with false
         | |- context [Z.eqb Z0 (Zpos ?a)] => change (Z.eqb Z0 (Zpos a)) with false
         end.

Ltac wrap_const :=
  repeat match goal with
         | |- context [wrap I32 (Zpos ?a)] => let v := eval vm_compute in (wrap I32 (Zpos a)) in change (wrap I32 (Zpos a)) with v
         | |- context [wrap I32 Z0] => change (wrap I32 Z0) with Z0
         end.


Lemma mem_same (m : mem) br (rs : list val) v : nth_error m br = Some rs -> nth_error rs 0 = Some v ->
  upd m br (upd rs 0 v) = m.
Proof. intros Hm Hv. rewrite (upd_self rs 0 v Hv). apply upd_self. exact Hm. Qed.

Lemma sx_eq_10 : forall c, (c < 256)%N -> (sx c =? 10) = (c =? 10)%N.  Proof. byte_fact. Qed.

Lemma re_uc_beg_le line i : (ReVM.uc_beg line i <= i)%nat.
Proof. induction i as [|i IH]; cbn [ReVM.uc_beg]; [lia|]. destruct (ReVM.is_cont _); lia. Qed.

(* the comparison loop of a literal (RA_CHR without REG_ICASE): the number of leading equal bytes *)
Fixpoint mism (a l : bytes) : nat :=
  match a, l with
  | x :: a', y :: l' => if (x =? y)%N then S (mism a' l') else 0%nat
  | _, _ => 0%nat
  end.
Lemma mism_le a : forall l, (mism a l <= length a)%nat /\ (mism a l <= length l)%nat.
Proof. induction a as [|x a IH]; intros [|y l]; cbn; try lia. destruct (x =? y)%N; [specialize (IH l)|]; lia. Qed.
Lemma prefixb_mism a : forall l, prefixb a l = Nat.eqb (mism a l) (length a).
Proof.
  induction a as [|x a IH]; intros [|y l]; cbn; try reflexivity.
  destruct (x =? y)%N; cbn; [apply IH|reflexivity].
Qed.
Lemma sx_val : forall c, (c < 256)%N -> sx c = Z.of_N c - (if (128 <=? c)%N then 256 else 0).
Proof. byte_fact. Qed.
Lemma sx_eqb x y : (x < 256)%N -> (y < 256)%N -> (sx x =? sx y) = (x =? y)%N.
Proof.
  intros Hx Hy. rewrite (sx_val x Hx), (sx_val y Hy).
  destruct (N.leb_spec 128 x), (N.leb_spec 128 y), (N.eqb_spec x y);
    match goal with |- (?u =? ?v) = _ => destruct (Z.eqb_spec u v) end; try reflexivity; lia.
Qed.

Definition chr_loop : stmt :=
  match fn_body cf_ratom_match with SSeq (SIf _ (SSeq _ (SSeq _ (SSeq w _))) _) _ => w | _ => SSkip end.

Lemma chr_loop_ok call m bs bl a line p v0 v1 x4 x5 x6 x7 :
  str_at m bs a -> nonul a -> str_at m bl line -> bytes_lt256 line ->
  forall k i fuel, mism (skipn i a) (skipn (p + i) line) = k -> (i <= length a)%nat -> (p + i <= length line)%nat -> (k < fuel)%nat ->
  exec call fuel chr_loop (mkst [v0; v1; VPtr bs (Z.of_nat i); VPtr bl (Z.of_nat (p + i)); x4; x5; x6; x7] m)
  = ONormal (mkst [v0; v1; VPtr bs (Z.of_nat (i + k)); VPtr bl (Z.of_nat (p + i + k)); x4; x5; x6; x7] m).
Proof.
  intros Ha Hnn Hl H256. pose proof (nonul_lt256 a Hnn) as Ha256.
  induction k as [|k IH]; intros i fuel Hk Hi Hp Hf; (destruct fuel as [|fuel]; [lia|]);
    unfold chr_loop; cbn [fn_body cf_ratom_match]; rewrite exec_while; xstep;
    rewrite (load_str m bs a _ i Ha) by lia; xstep; fold_sx;
    pose proof (nthb_lt256 a i Ha256) as Hc; pose proof (nthb_lt256 line (p + i) H256) as Hd; rewrite (sx_eq_0 _ Hc).
  - destruct (Nat.eq_dec i (length a)) as [E|E].
    + rewrite nthb_end by lia. cbn [N.eqb negb]. rewrite !Nat.add_0_r. reflexivity.
    + rewrite nonul_nthb_nz by (auto; lia). cbn [negb].
      rewrite (load_str m bs a _ i Ha) by lia. xstep. rewrite (load_str m bl line _ (p + i)%nat Hl) by lia. xstep. fold_sx.
      rewrite (sx_eqb _ _ Hc Hd).
      rewrite (skipn_cons_nthb a i) in Hk by lia.
      destruct (Nat.eq_dec (p + i) (length line)) as [E'|E'].
      * rewrite (nthb_end line (p + i)) by lia. replace (nthb a i =? 0)%N with false by (symmetry; apply nonul_nthb_nz; auto; lia).
        cbn. rewrite !Nat.add_0_r. reflexivity.
      * rewrite (skipn_cons_nthb line (p + i)) in Hk by lia. cbn [mism] in Hk.
        destruct (nthb a i =? nthb line (p + i))%N; [discriminate|]. cbn. rewrite !Nat.add_0_r. reflexivity.
  - destruct (Nat.eq_dec i (length a)) as [E|E]; [rewrite skipn_end in Hk by lia; discriminate|].
    rewrite nonul_nthb_nz by (auto; lia). cbn [negb].
    rewrite (load_str m bs a _ i Ha) by lia. xstep. rewrite (load_str m bl line _ (p + i)%nat Hl) by lia. xstep. fold_sx.
    rewrite (sx_eqb _ _ Hc Hd).
    rewrite (skipn_cons_nthb a i) in Hk by lia.
    destruct (Nat.eq_dec (p + i) (length line)) as [E'|E']; [rewrite (skipn_end line) in Hk by lia; discriminate|].
    rewrite (skipn_cons_nthb line (p + i)) in Hk by lia. cbn [mism] in Hk.
    destruct (nthb a i =? nthb line (p + i))%N; [|discriminate]. injection Hk as Hk. cbn [b2z negb]. xstep.
    replace (Z.of_nat i + 1) with (Z.of_nat (S i)) by lia. replace (Z.of_nat (p + i) + 1) with (Z.of_nat (p + S i)) by lia.
    change (SWhile _ _) with chr_loop.
    rewrite (IH (S i) fuel) by (try lia; replace (p + S i)%nat with (S (p + i)) by lia; exact Hk).
    replace (S i + k)%nat with (i + S k)%nat by lia. replace (p + S i + k)%nat with (p + i + S k)%nat by lia. reflexivity.
Qed.

Lemma ucl_scan_ge k : forall r i, (i <= ucl_scan k r i)%nat.
Proof.
  induction k as [|k IH]; intros r i; cbn [ucl_scan]; [lia|]. destruct r as [|x r]; [lia|].
  destruct (x =? 0)%N; [lia|]. specialize (IH r (S i)). lia.
Qed.
Lemma re_uclen_at_pos (s : bytes) o : nthb s o <> 0%N -> (1 <= re_uclen_at s o)%nat.
Proof.
  intro H. pose proof (nthb_nz_lt s o H) as Hlt. unfold re_uclen_at. rewrite (skipn_cons_nthb s o) by lia. cbn [re_uclen].
  destruct (negb _); [destruct (N.eqb_spec (nthb s o) 0); [congruence|lia]|]. apply ucl_scan_ge.
Qed.
Lemma ct_arg_ok c : -1 <= c <= 255 -> ct_arg c = Ok c.
Proof. intro H. unfold ct_arg. destruct (Z.leb_spec (-1) c); [|lia]. destruct (Z.leb_spec c 255); [|lia]. reflexivity. Qed.
(* if (flg & REG_ICASE && c < 128 && isupper(c)) c = tolower(c); *)
Lemma fold_z (v : N) :
  (if (Z.of_N v <? 128) && ct_isupper (Z.of_N v) then Z.of_N v + 32 else Z.of_N v) = Z.of_N (fold true v).
Proof.
  unfold fold, isupper, ct_isupper. cbn [andb].
  destruct (Z.ltb_spec (Z.of_N v) 128), (Z.leb_spec 65 (Z.of_N v)), (Z.leb_spec (Z.of_N v) 90),
           (N.leb_spec 65 v), (N.leb_spec v 90); cbn [andb]; lia.
Qed.

Lemma N2Z_eqb x y : (Z.of_N x =? Z.of_N y) = (x =? y)%N.
Proof. destruct (Z.eqb_spec (Z.of_N x) (Z.of_N y)), (N.eqb_spec x y); try reflexivity; lia. Qed.
Lemma Nat2Z_eqb x y : (Z.of_nat x =? Z.of_nat y) = Nat.eqb x y.
Proof. destruct (Z.eqb_spec (Z.of_nat x) (Z.of_nat y)), (Nat.eqb_spec x y); try reflexivity; lia. Qed.

Definition icase_loop : stmt :=
  match fn_body cf_ratom_match with SSeq _ (SSeq (SIf _ (SSeq _ (SSeq w _)) _) _) => w | _ => SSkip end.
Definition icase_ret : stmt :=
  match fn_body cf_ratom_match with SSeq _ (SSeq (SIf _ (SSeq _ (SSeq _ r)) _) _) => r | _ => SSkip end.

Section RatomMatch.
  Variables (m : mem) (ba : nat) (oa : Z) (bs br bl : nat) (rs : list val) (line : bytes) (p : nat) (flg : Z) (d fuel : nat).
  Hypothesis Hr : nth_error m br = Some rs.
  Hypothesis Hr0 : nth_error rs 0 = Some (VPtr bl (Z.of_nat p)).
  Hypothesis Hr1 : nth_error rs 1 = Some (VPtr bl 0).
  Hypothesis Hrf : nth_error rs 131 = Some (VInt flg).
  Hypothesis Hl : str_at m bl line.
  Hypothesis H256 : bytes_lt256 line.
  Hypothesis Hp : (p <= length line)%nat.
  Hypothesis Hflg : -2147483648 <= flg <= 2147483647.
  Hypothesis Hf : (length line < fuel)%nat.
  Hypothesis Hf4 : (4 <= fuel)%nat.

  Definition ratom_result (r : ReSyntax.res (option nat)) : res (val * mem) :=
    match r with
    | ReSyntax.Ok None => Ok (VInt 1, m)
    | ReSyntax.Ok (Some p') => Ok (VInt 0, upd m br (upd rs 0 (VPtr bl (Z.of_nat p'))))
    | _ => Err EShape
    end.

  Let L_s : load m br 0 = Ok (VPtr bl (Z.of_nat p)). Proof. exact (load_cell m br _ 0 _ Hr Hr0 ltac:(lia)). Qed.
  Let L_o : load m br (0 + 1 * 1) = Ok (VPtr bl 0). Proof. exact (load_cell m br _ (0 + 1 * 1) _ Hr Hr1 ltac:(lia)). Qed.
  Let L_f : load m br (0 + 1 * 131) = Ok (VInt flg). Proof. exact (load_cell m br _ (0 + 1 * 131) _ Hr Hrf ltac:(lia)). Qed.
  Let Same : upd m br (upd rs 0 (VPtr bl (Z.of_nat p))) = m. Proof. exact (mem_same m br rs _ Hr Hr0). Qed.

  Ltac rstep L_ra :=
    repeat (progress (rewrite ?L_ra, ?L_s, ?L_o, ?L_f; xstep; wrap_const; zeqb_const; rewrite ?(wrap_I32_id flg Hflg);
                      cbn [b2z andb orb negb ptr_cmp]; rewrite ?Nat.eqb_refl)).

  Lemma ratom_match_beg : load m ba oa = Ok (VInt 94) ->
    callf cprog fuel (S (S (S d))) F_ratom_match [VPtr ba oa; VPtr br 0] m = ratom_result (ratom_match flg line ABeg p).
  Proof.
    intro L_ra.
    enter F_ratom_match cf_ratom_match. rstep L_ra.
    unfold ratom_match, ratom_result, has, REG_NOTBOL, REG_NEWLINE.
    destruct (Z.eqb_spec (Z.of_nat p) 0) as [E0|E0].
    { replace (Nat.eqb p 0) with true by (symmetry; apply Nat.eqb_eq; lia).
      destruct (Z.land flg 16 =? 0); cbn [negb b2z]; rewrite ?Same; reflexivity. }
    replace (Nat.eqb p 0) with false by (symmetry; apply Nat.eqb_neq; lia).
    rstep L_ra. destruct (Z.ltb_spec 0 (Z.of_nat p)); [|lia]. rstep L_ra.
    change (chk I32 (- (1))) with (@Ok Z (-1)). rstep L_ra.
    rewrite (load_str m bl line _ (p - 1)%nat Hl) by lia. rstep L_ra. fold_sx.
    rewrite (sx_eq_10 _ (nthb_lt256 line (p - 1) H256)).
    destruct (nthb line (p - 1) =? 10)%N; rstep L_ra; [|reflexivity].
    rewrite (rdk_in _ line p Hp). cbn [ReSyntax.bind].
    destruct (Z.land flg 8 =? 0) eqn:E8; cbn [negb andb]; rstep L_ra; [reflexivity|].
    replace (Z.of_nat p + 1 * 0) with (Z.of_nat p) by lia.
    rewrite (load_str m bl line _ p Hl) by lia. rstep L_ra. rewrite (cc_z0 _ (nthb_lt256 line p H256)).
    destruct (nthb line p =? 0)%N; cbn [negb b2z]; rstep L_ra; rewrite ?Same; reflexivity.
  Qed.

  Lemma ratom_match_end : load m ba oa = Ok (VInt 36) ->
    callf cprog fuel (S (S (S d))) F_ratom_match [VPtr ba oa; VPtr br 0] m = ratom_result (ratom_match flg line AEnd p).
  Proof.
    intro L_ra.
    enter F_ratom_match cf_ratom_match. rstep L_ra.
    unfold ratom_match, ratom_result, has, REG_NOTEOL, REG_NEWLINE.
    rewrite (rdk_in _ line p Hp). cbn [ReSyntax.bind].
    replace (Z.of_nat p + 1 * 0) with (Z.of_nat p) by lia.
    pose proof (nthb_lt256 line p H256) as Hc.
    rewrite (load_str m bl line _ p Hl) by lia. rstep L_ra. fold_sx. rewrite (sx_eq_0 _ Hc).
    destruct (nthb line p =? 0)%N eqn:E0; rstep L_ra.
    { destruct (Z.land flg 32 =? 0); cbn [negb b2z]; rewrite ?Same; reflexivity. }
    replace (Z.of_nat p + 1 * 0) with (Z.of_nat p) by lia.
    rewrite (load_str m bl line _ p Hl) by lia. rstep L_ra. fold_sx. rewrite (sx_eq_10 _ Hc).
    destruct (nthb line p =? 10)%N eqn:E10; rstep L_ra; [|reflexivity].
    destruct (Z.land flg 8 =? 0); cbn [negb b2z]; rewrite ?Same; reflexivity.
  Qed.

  (* isword(uc_beg(rs->o, rs->s - 1)) for p > 0 *)
  Lemma prev_word_call : (0 < p)%nat ->
    callf cprog fuel (S (S d)) F_re_uc_beg [VPtr bl 0; VPtr bl (Z.of_nat p + -1 * 1)] m
    = Ok (VPtr bl (Z.of_nat (ReVM.uc_beg line (p - 1))), m).
  Proof.
    intro H0. replace (Z.of_nat p + -1 * 1) with (Z.of_nat (p - 1)) by lia.
    apply tr_re_uc_beg_line; auto; lia.
  Qed.

  Lemma ratom_match_wbeg : load m ba oa = Ok (VInt 60) ->
    callf cprog fuel (S (S (S d))) F_ratom_match [VPtr ba oa; VPtr br 0] m = ratom_result (ratom_match flg line AWBeg p).
  Proof.
    intro L_ra.
    enter F_ratom_match cf_ratom_match. rstep L_ra.
    unfold ratom_match, ratom_result, prev_isword.
    rewrite (rdk_in _ line p Hp). cbn [ReSyntax.bind].
    pose proof (re_uc_beg_le line (p - 1)) as Hb.
    destruct (Z.eqb_spec (Z.of_nat p) 0) as [E0|E0]; rstep L_ra.
    - replace (Nat.eqb p 0) with true by (symmetry; apply Nat.eqb_eq; lia). cbn [orb andb].
      rewrite (tr_re_isword m bl line p (S d) fuel Hl H256 Hp). rstep L_ra.
      destruct (ReVM.isword (nthb line p)); cbn [negb b2z]; rewrite ?Same; reflexivity.
    - replace (Nat.eqb p 0) with false by (symmetry; apply Nat.eqb_neq; lia). cbn [orb].
      rewrite (prev_word_call ltac:(lia)). rstep L_ra.
      rewrite (tr_re_isword m bl line _ (S d) fuel Hl H256) by lia. rstep L_ra.
      destruct (ReVM.isword (nthb line (ReVM.uc_beg line (p - 1)))); cbn [negb b2z andb]; rstep L_ra; [reflexivity|].
      rewrite (tr_re_isword m bl line p (S d) fuel Hl H256 Hp). rstep L_ra.
      destruct (ReVM.isword (nthb line p)); cbn [negb b2z]; rewrite ?Same; reflexivity.
  Qed.

  Lemma ratom_match_wend : load m ba oa = Ok (VInt 62) ->
    callf cprog fuel (S (S (S d))) F_ratom_match [VPtr ba oa; VPtr br 0] m = ratom_result (ratom_match flg line AWEnd p).
  Proof.
    intro L_ra.
    enter F_ratom_match cf_ratom_match. rstep L_ra.
    unfold ratom_match, ratom_result, prev_isword.
    rewrite (rdk_in _ line p Hp). cbn [ReSyntax.bind].
    pose proof (re_uc_beg_le line (p - 1)) as Hb.
    destruct (Z.eqb_spec (Z.of_nat p) 0) as [E0|E0]; rstep L_ra.
    - replace (Nat.eqb p 0) with true by (symmetry; apply Nat.eqb_eq; lia). reflexivity.
    - replace (Nat.eqb p 0) with false by (symmetry; apply Nat.eqb_neq; lia). cbn [negb andb].
      rewrite (prev_word_call ltac:(lia)). rstep L_ra.
      rewrite (tr_re_isword m bl line _ (S d) fuel Hl H256) by lia. rstep L_ra.
      destruct (ReVM.isword (nthb line (ReVM.uc_beg line (p - 1)))); cbn [negb b2z andb]; rstep L_ra; [|reflexivity].
      replace (Z.of_nat p + 1 * 0) with (Z.of_nat p) by lia.
      rewrite (load_str m bl line _ p Hl) by lia. rstep L_ra. rewrite (cc_z0 _ (nthb_lt256 line p H256)).
      destruct (nthb line p =? 0)%N; cbn [negb b2z orb]; rstep L_ra; [rewrite ?Same; reflexivity|].
      rewrite (tr_re_isword m bl line p (S d) fuel Hl H256 Hp). rstep L_ra.
      destruct (ReVM.isword (nthb line p)); cbn [negb b2z]; rewrite ?Same; reflexivity.
  Qed.

  Lemma rs_len : (131 < length rs)%nat.
  Proof. apply nth_error_Some. rewrite Hrf. discriminate. Qed.

  Lemma ratom_match_any : load m ba oa = Ok (VInt 46) ->
    callf cprog fuel (S (S (S d))) F_ratom_match [VPtr ba oa; VPtr br 0] m = ratom_result (ratom_match flg line AAny p).
  Proof.
    intro L_ra.
    enter F_ratom_match cf_ratom_match. rstep L_ra.
    unfold ratom_match, ratom_result, has, REG_NEWLINE.
    rewrite (rdk_in _ line p Hp). cbn [ReSyntax.bind].
    pose proof (nthb_lt256 line p H256) as Hc. pose proof (re_uclen_at_in line p Hp) as Hin. pose proof rs_len as Hlen.
    replace (Z.of_nat p + 1 * 0) with (Z.of_nat p) by lia.
    rewrite (load_str m bl line _ p Hl) by lia. rstep L_ra. rewrite (cc_z0 _ Hc).
    destruct (nthb line p =? 0)%N eqn:E0; cbn [negb orb]; rstep L_ra; [reflexivity|].
    replace (Z.of_nat p + 1 * 0) with (Z.of_nat p) by lia.
    rewrite (load_str m bl line _ p Hl) by lia. rstep L_ra. fold_sx. rewrite (sx_eq_10 _ Hc).
    replace (Nat.leb (p + re_uclen_at line p) (length line)) with true by (symmetry; apply Nat.leb_le; lia).
    destruct (nthb line p =? 10)%N eqn:E10; cbn [andb]; rstep L_ra.
    - destruct (Z.land flg 8 =? 0) eqn:E8; cbn [negb b2z]; rstep L_ra; [|reflexivity].
      rewrite (tr_re_uc_len m bl line p (S d) fuel Hl H256 Hp Hf4). rstep L_ra.
      rewrite (store_ok m br rs 0 _ Hr) by lia. rstep L_ra.
      replace (Z.of_nat p + 1 * Z.of_nat (re_uclen_at line p)) with (Z.of_nat (p + re_uclen_at line p)) by lia.
      reflexivity.
    - rewrite (tr_re_uc_len m bl line p (S d) fuel Hl H256 Hp Hf4). rstep L_ra.
      rewrite (store_ok m br rs 0 _ Hr) by lia. rstep L_ra.
      replace (Z.of_nat p + 1 * Z.of_nat (re_uclen_at line p)) with (Z.of_nat (p + re_uclen_at line p)) by lia.
      reflexivity.
  Qed.

  Lemma ratom_match_chr_plain a : load m ba oa = Ok (VInt 0) -> load m ba (oa + 1 * 1) = Ok (VPtr bs 0) -> str_at m bs a -> nonul a ->
    has flg REG_ICASE = false ->
    callf cprog fuel (S (S (S d))) F_ratom_match [VPtr ba oa; VPtr br 0] m = ratom_result (ratom_match flg line (AChr a) p).
  Proof.
    intros L_ra L_as Hs Hnn Hic.
    pose proof (nonul_lt256 a Hnn) as Ha256. pose proof rs_len as Hlen.
    unfold has, REG_ICASE in Hic. apply negb_false_iff in Hic.
    enter F_ratom_match cf_ratom_match. rstep L_ra. rewrite Hic. cbn [negb b2z]. rstep L_ra. rewrite L_as. rstep L_ra.
    unfold ratom_match, ratom_result, has, REG_ICASE. rewrite Hic. cbn [negb].
    destruct (mism_le a (skipn p line)) as [M1 M2]. rewrite skipn_length in M2.
    pose proof (chr_loop_ok (callf cprog fuel (S (S d))) m bs bl a line p (VPtr ba oa) (VPtr br 0) VUndef VUndef VUndef VUndef
                  Hs Hnn Hl H256 _ 0%nat fuel eq_refl ltac:(lia) ltac:(lia) ltac:(rewrite Nat.add_0_r; cbn [skipn]; lia)) as X.
    cbn [skipn Nat.add Z.of_nat] in X. rewrite !Nat.add_0_r in X.
    unfold chr_loop in X; cbn [fn_body cf_ratom_match] in X. rewrite X. clear X. rstep L_ra.
    set (k := mism a (skipn p line)) in *.
    rewrite (load_str m bs a _ k Hs) by lia. rstep L_ra. rewrite (cc_z0 _ (nthb_lt256 a k Ha256)).
    rewrite prefixb_mism. fold k.
    destruct (Nat.eq_dec k (length a)) as [E|E].
    - rewrite nthb_end by lia. cbn [N.eqb negb]. rstep L_ra.
      rewrite (store_ok m br rs 0 _ Hr) by lia. rstep L_ra.
      replace (Nat.eqb k (length a)) with true by (symmetry; apply Nat.eqb_eq; lia). rewrite <- E. reflexivity.
    - rewrite nonul_nthb_nz by (auto; lia). cbn [negb]. rstep L_ra.
      replace (Nat.eqb k (length a)) with false by (symmetry; apply Nat.eqb_neq; lia). reflexivity.
  Qed.

  Definition fold5_stmt : stmt := match icase_loop with SWhile _ (SSeq _ (SSeq _ (SSeq f _))) => f | _ => SSkip end.
  Definition fold6_stmt : stmt := match icase_loop with SWhile _ (SSeq _ (SSeq _ (SSeq _ (SSeq f _)))) => f | _ => SSkip end.
  Lemma fold5_ok call lf x0 x2 x3 x4 v x6 x7 : (Z.land flg 4 =? 0) = false ->
    exec call lf fold5_stmt (mkst [x0; VPtr br 0; x2; x3; x4; VInt (Z.of_N v); x6; x7] m)
    = ONormal (mkst [x0; VPtr br 0; x2; x3; x4; VInt (Z.of_N (fold true v)); x6; x7] m).
  Proof.
    intro Hic'. unfold fold5_stmt, icase_loop; cbn [fn_body cf_ratom_match]. rewrite <- fold_z.
    xstep. rewrite L_f. xstep. rewrite (wrap_I32_id flg Hflg), Hic'. cbn [negb]. xstep.
    destruct (Z.ltb_spec (Z.of_N v) 128); cbn [andb]; xstep; [|reflexivity].
    cbn [do_builtin_m do_builtin bind]. rewrite ct_arg_ok by lia. cbn [bind]. xstep.
    destruct (ct_isupper (Z.of_N v)) eqn:Eu; cbn [b2z]; xstep; [|reflexivity].
    cbn [do_builtin_m do_builtin bind]. rewrite ct_arg_ok by lia. cbn [bind]. xstep. rewrite Eu. reflexivity.
  Qed.
  Lemma fold6_ok call lf x0 x2 x3 x4 x5 v x7 : (Z.land flg 4 =? 0) = false ->
    exec call lf fold6_stmt (mkst [x0; VPtr br 0; x2; x3; x4; x5; VInt (Z.of_N v); x7] m)
    = ONormal (mkst [x0; VPtr br 0; x2; x3; x4; x5; VInt (Z.of_N (fold true v)); x7] m).
  Proof.
    intro Hic'. unfold fold6_stmt, icase_loop; cbn [fn_body cf_ratom_match]. rewrite <- fold_z.
    xstep. rewrite L_f. xstep. rewrite (wrap_I32_id flg Hflg), Hic'. cbn [negb]. xstep.
    destruct (Z.ltb_spec (Z.of_N v) 128); cbn [andb]; xstep; [|reflexivity].
    cbn [do_builtin_m do_builtin bind]. rewrite ct_arg_ok by lia. cbn [bind]. xstep.
    destruct (ct_isupper (Z.of_N v)) eqn:Eu; cbn [b2z]; xstep; [|reflexivity].
    cbn [do_builtin_m do_builtin bind]. rewrite ct_arg_ok by lia. cbn [bind]. xstep. rewrite Eu. reflexivity.
  Qed.

  Lemma icase_tail_ok a fuel2 : load m ba oa = Ok (VInt 0) -> load m ba (oa + 1 * 1) = Ok (VPtr bs 0) -> str_at m bs a -> nonul a ->
    has flg REG_ICASE = true -> Z.of_nat (length a) <= 2147483647 ->
    forall k pos x5 x6 lf, (length a - pos < k)%nat -> (pos <= length a)%nat -> (p + pos <= length line)%nat -> (k <= lf)%nat ->
    match ratom_result (chr_icase flg line k a p pos) with
    | Ok (v, m') => exists st',
        match exec (callf cprog fuel (S (S d))) lf icase_loop
                (mkst [VPtr ba oa; VPtr br 0; VUndef; VUndef; VInt (Z.of_nat pos); x5; x6; VUndef] m) with
        | ONormal st1 => exec (callf cprog fuel (S (S d))) fuel2 icase_ret st1
        | o => o
        end = OReturn v st' /\ memm st' = m'
    | Err _ => False
    end.
  Proof.
    intros L_ra L_as Hs Hnn Hic Hmax.
    pose proof (nonul_lt256 a Hnn) as Ha256. pose proof rs_len as Hlen.
    assert (Hic' : (Z.land flg 4 =? 0) = false) by (unfold has, REG_ICASE in Hic; apply negb_true_iff in Hic; exact Hic).
    induction k as [|k IH]; intros pos x5 x6 lf Hk Hpos Hpp Hkf; [lia|].
    destruct lf as [|lf]; [lia|].
    unfold icase_loop, icase_ret; cbn [fn_body cf_ratom_match]; rewrite exec_while. rstep L_ra. rewrite L_as. rstep L_ra.
    replace (0 + 1 * Z.of_nat pos) with (Z.of_nat pos) by lia.
    rewrite (load_str m bs a _ pos Hs) by lia. rstep L_ra. rewrite (cc_z0 _ (nthb_lt256 a pos Ha256)).
    cbn [chr_icase].
    destruct (Nat.eq_dec pos (length a)) as [E|E].
    { rewrite nthb_end by lia. cbn [N.eqb negb]. rstep L_ra.
      replace (Nat.leb (p + pos) (length line)) with true by (symmetry; apply Nat.leb_le; lia). cbn [ratom_result].
      rewrite (store_ok m br rs 0 _ Hr) by lia. rstep L_ra.
      replace (Z.of_nat p + 1 * Z.of_nat pos) with (Z.of_nat (p + pos)) by lia. eexists; split; reflexivity. }
    rewrite nonul_nthb_nz by (auto; lia). cbn [negb]. rstep L_ra. rewrite L_as. rstep L_ra.
    replace (0 + 1 * Z.of_nat pos) with (Z.of_nat pos) by lia.
    destruct (tr_re_uc_dec m bs a pos d fuel Hs Ha256 ltac:(lia) Hf4) as [v1 [M1 C1]].
    destruct (tr_re_uc_dec m bl line (p + pos) d fuel Hl H256 ltac:(lia) Hf4) as [v2 [M2 C2]].
    rewrite M1, M2. cbn [ReSyntax.bind]. rewrite C1. xcbn.
    rewrite exec_seq, exec_expr. xcbn. rewrite L_s. xcbn.
    replace (Z.of_nat p + 1 * Z.of_nat pos) with (Z.of_nat (p + pos)) by lia. rewrite C2. xcbn.
    rewrite exec_seq. change (SIf (EAndAlso (EAndAlso _ (EBin OLt I32 (ELocal 5) _)) _) _ _) with fold5_stmt.
    rewrite fold5_ok by exact Hic'. rewrite exec_seq.
    change (SIf (EAndAlso (EAndAlso _ (EBin OLt I32 (ELocal 6) _)) _) _ _) with fold6_stmt.
    rewrite fold6_ok by exact Hic'. rewrite Hic. rstep L_ra.
    rewrite (N2Z_eqb (fold true v1) (fold true v2)).
    pose proof (re_uclen_at_in a pos ltac:(lia)) as Hin1. pose proof (re_uclen_at_in line (p + pos) ltac:(lia)) as Hin2.
    assert (Hnz : nthb a pos <> 0%N) by (apply N.eqb_neq; apply nonul_nthb_nz; auto; lia).
    pose proof (re_uclen_at_pos a pos Hnz) as Hpos1.
    destruct (fold true v1 =? fold true v2)%N eqn:Ef; cbn [negb andb]; rstep L_ra.
    2:{ cbn [ratom_result]. eexists; split; reflexivity. }
    rewrite L_as. rstep L_ra. replace (0 + 1 * Z.of_nat pos) with (Z.of_nat pos) by lia.
    rewrite (tr_re_uc_len m bs a pos (S d) fuel Hs Ha256 ltac:(lia) Hf4). rstep L_ra.
    replace (Z.of_nat p + 1 * Z.of_nat pos) with (Z.of_nat (p + pos)) by lia.
    rewrite (tr_re_uc_len m bl line (p + pos) (S d) fuel Hl H256 ltac:(lia) Hf4). rstep L_ra.
    rewrite (Nat2Z_eqb (re_uclen_at a pos) (re_uclen_at line (p + pos))).
    destruct (Nat.eqb_spec (re_uclen_at a pos) (re_uclen_at line (p + pos))) as [El|El]; cbn [negb b2z]; rstep L_ra.
    2:{ cbn [ratom_result]. eexists; split; reflexivity. }
    rewrite L_as. rstep L_ra. replace (0 + 1 * Z.of_nat pos) with (Z.of_nat pos) by lia.
    rewrite (tr_re_uc_len m bs a pos (S d) fuel Hs Ha256 ltac:(lia) Hf4). rstep L_ra.
    rewrite (chk_I32 (Z.of_nat pos + Z.of_nat (re_uclen_at a pos))) by lia. rstep L_ra.
    replace (Z.of_nat pos + Z.of_nat (re_uclen_at a pos)) with (Z.of_nat (pos + re_uclen_at a pos)) by lia.
    specialize (IH (pos + re_uclen_at a pos)%nat (VInt (Z.of_N (fold true v1))) (VInt (Z.of_N (fold true v2))) lf
                   ltac:(lia) ltac:(lia) ltac:(lia) ltac:(lia)).
    unfold icase_loop, icase_ret in IH; cbn [fn_body cf_ratom_match] in IH. exact IH.
  Qed.

  Lemma ratom_match_chr_icase a : load m ba oa = Ok (VInt 0) -> load m ba (oa + 1 * 1) = Ok (VPtr bs 0) -> str_at m bs a -> nonul a ->
    has flg REG_ICASE = true -> Z.of_nat (length a) <= 2147483647 -> (length a < fuel)%nat ->
    callf cprog fuel (S (S (S d))) F_ratom_match [VPtr ba oa; VPtr br 0] m = ratom_result (ratom_match flg line (AChr a) p).
  Proof.
    intros L_ra L_as Hs Hnn Hic Hmax Hfa.
    assert (Hic' : (Z.land flg 4 =? 0) = false) by (unfold has, REG_ICASE in Hic; apply negb_true_iff in Hic; exact Hic).
    enter F_ratom_match cf_ratom_match. rstep L_ra. rewrite Hic'. cbn [negb b2z]. rstep L_ra.
    unfold ratom_match. rewrite Hic. cbn [negb].
    pose proof (icase_tail_ok a fuel L_ra L_as Hs Hnn Hic Hmax (S (length a)) 0%nat VUndef VUndef fuel
                  ltac:(lia) ltac:(lia) ltac:(lia) ltac:(lia)) as T.
    destruct (ratom_result (chr_icase flg line (S (length a)) a p 0)) as [[v m']|]; [|contradiction].
    destruct T as [st' [X Y]]. unfold icase_loop, icase_ret in X; cbn [fn_body cf_ratom_match] in X.
    cbn [Z.of_nat] in X. rewrite X. cbn. rewrite Y. reflexivity.
  Qed.
End RatomMatch.

(* ------------------------------------------------------------------ all atoms without a bracket expression *)
(* the atom is read through the pointer (ba, oa): cell oa is the kind, cell oa + 1 the string -- the first two cells of a
   struct rinst inside the program array, or a struct ratom of its own (oa = 0) *)
Definition ratom_at_off (m : mem) (ba : nat) (oa : Z) (bs : nat) (a : atom) : Prop :=
  load m ba oa = Ok (VInt (ra_code a)) /\
  match ra_str a with Some s => load m ba (oa + 1 * 1) = Ok (VPtr bs 0) /\ str_at m bs s /\ nonul s | None => True end.

Theorem tr_ratom_match_at m ba oa bs br bl rs line a p flg d fuel :
  ratom_at_off m ba oa bs a -> rstate_at m br bl rs p flg -> str_at m bl line -> bytes_lt256 line -> (p <= length line)%nat ->
  -2147483648 <= flg <= 2147483647 -> (length line < fuel)%nat -> (4 <= fuel)%nat ->
  match ra_str a with Some s => (length s < fuel)%nat /\ Z.of_nat (length s) <= 2147483647 | None => True end ->
  (forall s, a <> ABrk s) ->
  callf cprog fuel (S (S (S d))) F_ratom_match [VPtr ba oa; VPtr br 0] m
  = ratom_result m br bl rs (ratom_match flg line a p).
Proof.
  intros [Ha Hsv] [Hr [Hr0 [Hr1 Hrf]]] Hl H256 Hp Hflg Hf Hf4 Hlen Hnb.
  destruct a as [s| |s| | | |]; cbn [ra_code ra_str] in *.
  - destruct Hsv as [Has [Hs Hnn]]. destruct Hlen as [Hl1 Hl2].
    destruct (has flg REG_ICASE) eqn:Hic.
    + eapply ratom_match_chr_icase; eauto.
    + eapply ratom_match_chr_plain; eauto.
  - eapply ratom_match_any; eauto.
  - exfalso. apply (Hnb s). reflexivity.
  - eapply ratom_match_beg; eauto.
  - eapply ratom_match_end; eauto.
  - eapply ratom_match_wbeg; eauto.
  - eapply ratom_match_wend; eauto.
Qed.

Theorem tr_ratom_match m ba bs br bl rs line a p flg d fuel :
  ratom_at m ba bs a -> rstate_at m br bl rs p flg -> str_at m bl line -> bytes_lt256 line -> (p <= length line)%nat ->
  -2147483648 <= flg <= 2147483647 -> (length line < fuel)%nat -> (4 <= fuel)%nat ->
  match ra_str a with Some s => (length s < fuel)%nat /\ Z.of_nat (length s) <= 2147483647 | None => True end ->
  (forall s, a <> ABrk s) ->
  callf cprog fuel (S (S (S d))) F_ratom_match [VPtr ba 0; VPtr br 0] m
  = ratom_result m br bl rs (ratom_match flg line a p).
Proof.
  intros [sv [Ha Hsv]]. apply (tr_ratom_match_at m ba 0 bs). split.
  - exact (load_cell m ba _ 0 _ Ha eq_refl ltac:(lia)).
  - destruct (ra_str a); [|exact I]. destruct Hsv as [-> Hs]. split; [|exact Hs].
    exact (load_cell m ba _ (0 + 1 * 1) _ Ha eq_refl ltac:(lia)).
Qed.
