(* CapDefs2.v -- C05, second part: the small fixed tables that a byte of input indexes or fills.
   No proofs here.  Same conventions as CapDefs.v: every access to a table is checked against the
   table's size (generated from /repo into GenCap.v / GenConsts.v) and an access outside is the
   distinct result OobRd / OobWr, never a default value.

     reg.c    REG(s) (ex.c), reg_get, reg_putraw, reg_put over bufs[REGSZ] / lnmode[LNMODESZ]
     lbuf.c   markidx (its special-character table is generated), lbuf_mark, lbuf_jump, lbuf_markcopy,
              lbuf_savepos/lbuf_loadpos, the NMARKS_BASE loop of lbuf_opt over mark[NMARKS]/mark_off[NMARKS]
     vi.c     vi_read / vi_back over vi_buf[VIBUFSZ] with the guard  vi_buflen < VIBUFGUARD;
              the copy of the recorded command into rep_cmd[REPCMDSZ]
     led.c    led_render: off[cend - cbeg] filled from the column table, and the indices it later hands to att[]/chrs[]
     ex.c     ex_pathexpand (static buf[PATHCAP], snprintf-style accounting, final clamp);
              bufs_findroom / bufs_init / bufs_switch / bufs_shift over bufs[NBUFS]

   ctype.h is modelled for the C locale (the editor never calls setlocale): isupper/islower/isalpha are
   the ASCII ranges and tolower is the identity outside 'A'..'Z' -- in particular on 128..255.         *)
From Coq Require Import List NArith ZArith Bool.
From NV Require Import Bytes GenConsts GenCap CapDefs.
Import ListNotations.
Local Open Scope Z_scope.

(* t[i] for a table of n cells: load / store *)
Definition ix (n i : Z) : res Z := if (0 <=? i) && (i <? n) then Ok i else OobRd.
Definition ixw (n i : Z) : res Z := if (0 <=? i) && (i <? n) then Ok i else OobWr.

Definition z_isupper (c : Z) : bool := (65 <=? c) && (c <=? 90).
Definition z_islower (c : Z) : bool := (97 <=? c) && (c <=? 122).
Definition z_isalpha (c : Z) : bool := z_isupper c || z_islower c.
Definition z_tolower (c : Z) : Z := if z_isupper c then c + 32 else c.

(* ---------------------------------------------------------------------------------------- *)
(* (1) registers                                                                             *)

(* #define REG(s) ((s)[0] != '\\' ? (unsigned char) (s)[0] : 0x80 | (unsigned char) (s)[1]) *)
Definition REG (s : bytes) : res Z :=
  do c0 <- rd s 0;
  if (c0 =? 92)%N then (do c1 <- rd s 1; Ok (Z.lor 128 (Z.of_N c1))) else Ok (Z.of_N c0).

Section Reg.
  Variable present : Z -> bool.                  (* bufs[i] != NULL before the call *)

  (* reg_getraw(c, &ln): lnmode[c], bufs[c]; the answer: is the register set *)
  Definition reg_getraw (c : Z) : res bool :=
    do _ <- ix LNMODESZ c; do i <- ix REGSZ c; Ok (present i).

  (* reg_get: the double quote (34) is register 0; ';' '#' '^' are answered from static buffers without touching the table *)
  Definition reg_get (c : Z) : res bool :=
    let c := if c =? 34 then 0 else c in
    if (c =? 59) || (c =? 35) || (c =? 94) then Ok true else reg_getraw c.

  (* reg_putraw: isupper(c) && bufs[tolower(c)], free(bufs[tolower(c)]), bufs[tolower(c)] = buf,
     lnmode[tolower(c)] = ln; the answer: the slot written *)
  Definition reg_putraw (c : Z) : res Z :=
    let t := z_tolower c in
    do _ <- (if z_isupper c then ix REGSZ t else Ok t);
    do _ <- ix REGSZ t;
    do i <- ixw REGSZ t;
    do _ <- ixw LNMODESZ t;
    Ok i.

  (* for (i = 8; i > 0; i--) if ((i_s = reg_get('0' + i, &i_ln))) reg_putraw('0' + i + 1, i_s, i_ln);
     (a slot is read before the pass writes it, so [present] is the state before the call) *)
  Fixpoint reg_shift (i : nat) (acc : list Z) : res (list Z) :=
    match i with
    | O => Ok acc
    | S j =>
      do p <- reg_get (48 + Z.of_nat i);
      do acc' <- (if p then (do w <- reg_putraw (48 + Z.of_nat i + 1); Ok (w :: acc)) else Ok acc);
      reg_shift j acc'
    end.

  (* reg_put(c, s, ln); lnnl = ln || strchr(s, '\n'); the answer: the slots written (last first) *)
  Definition reg_put (c : Z) (lnnl : bool) : res (list Z) :=
    do l <- (if lnnl && ((c =? 0) || z_isalpha c)
             then (do a <- reg_shift 8 []; do w <- reg_putraw 49; Ok (w :: a))
             else Ok []);
    do w <- reg_putraw c;
    Ok (w :: l).
End Reg.

(* ---------------------------------------------------------------------------------------- *)
(* (2) marks                                                                                 *)

Definition markidx (m : Z) : Z :=
  if z_islower m then m - markidx_lower_base else
  match find (fun p => fst p =? m) markidx_special with Some p => snd p | None => -1 end.

(* lbuf_mark: if (markidx(mark) >= 0) { mark[markidx(mark)] = pos; mark_off[markidx(mark)] = off; } *)
Definition lbuf_mark (m : Z) : res (list Z) :=
  if 0 <=? markidx m then (do i <- ixw NMARKS (markidx m); do j <- ixw NMARKS (markidx m); Ok [i; j]) else Ok [].

(* lbuf_jump: mk < 0 || mark[mk] < 0 -> 1; *pos = mark[mk]; if (off) *off = mark_off[mk] *)
Definition lbuf_jump (isset : Z -> bool) (m : Z) (want_off : bool) : res (option Z) :=
  let mk := markidx m in
  if mk <? 0 then Ok None else
  do i <- ix NMARKS mk;
  if negb (isset i) then Ok None else
  do _ <- (if want_off then ix NMARKS mk else Ok mk);
  Ok (Some i).

(* the unguarded uses, all with constant marks: lbuf_markcopy(lb, '*', '^'), mark[markidx('^')] *)
Definition lbuf_markcopy (dst src : Z) : res (Z * Z) :=
  do s <- ix NMARKS (markidx src); do d <- ixw NMARKS (markidx dst); Ok (d, s).
Definition lbuf_pos_marks : res (Z * Z) :=
  do _ <- ixw NMARKS (markidx 94); lbuf_markcopy 42 94.

(* for (i = 0; i < NMARKS_BASE; i++) ... lb->mark[i] ... lbuf_savemark(lb, lo, i): lo->mark is a block of sizeof(lb->mark) *)
Fixpoint mark_loop (n : nat) : res unit :=
  match n with
  | O => Ok tt
  | S k => do _ <- mark_loop k; do _ <- ixw NMARKS (Z.of_nat k); Ok tt
  end.
Definition lbuf_opt_marks : res unit := mark_loop (Z.to_nat NMARKS_BASE).

(* ---------------------------------------------------------------------------------------- *)
(* (3) vi_buf: the keys pushed back by vi_back and taken again by vi_read                     *)

Inductive vop : Type := VRead | VBack.

(* state: vi_buflen.  vi_read: vi_buflen ? vi_buf[--vi_buflen] : term_read()
                       vi_back: if (vi_buflen < GUARD) vi_buf[vi_buflen++] = c   (GUARD is what the code compares with) *)
Definition vb_step (n : Z) (o : vop) : res Z :=
  match o with
  | VRead => if n =? 0 then Ok 0 else (do _ <- ix VIBUFSZ (n - 1); Ok (n - 1))
  | VBack => if (0 <=? n) && (n <? VIBUFGUARD) then (do _ <- ixw VIBUFSZ n; Ok (n + 1)) else Ok n
  end.
Fixpoint vb_run (n : Z) (ops : list vop) : res Z :=
  match ops with
  | [] => Ok n
  | o :: r => do n' <- vb_step n o; vb_run n' r
  end.
(* the shape of every path through vi.c (signal handler apart): a key is pushed back only by the
   code that has just read one -- no two vi_back calls without a vi_read in between, and none before the first read *)
Fixpoint back_after_read (justread : bool) (ops : list vop) : bool :=
  match ops with
  | [] => true
  | VRead :: r => back_after_read true r
  | VBack :: r => justread && back_after_read false r
  end.

(* the recorded command copied for '.': if (n + 1 < sizeof(rep_cmd)) { memcpy(rep_cmd, cmd, n); rep_cmd[n] = '\0'; }
   cmd = icmd, n = what term_cmd returned *)
Definition rep_copy (n : Z) : res (option Z) :=
  if (0 <=? n + 1) && (n + 1 <? REPCMDSZ) then
    (if (n <? 0) || (ICMDSZ <? n) then OobRd else
     if REPCMDSZ <? n then OobWr else
     do i <- ixw REPCMDSZ n; Ok (Some i))
  else Ok None.

(* ---------------------------------------------------------------------------------------- *)
(* (4) led_render                                                                            *)

Definition led_pos (dir pos beg end_ : Z) : Z := if 0 <=? dir then pos - beg else end_ - pos - 1.

Definition aset (a : list Z) (i v : Z) : res (list Z) :=
  if (0 <=? i) && (i <? Z.of_nat (length a))
  then Ok (firstn (Z.to_nat i) a ++ v :: skipn (S (Z.to_nat i)) a) else OobWr.

Section Render.
  Variables ctx cbeg cend : Z.

  (* for (j = 0; j < curwid; j++) off[led_pos(ctx, pos[i] + j, cbeg, cend)] = i; *)
  Fixpoint fill_cells (n : nat) (j p i : Z) (off : list Z) : res (list Z) :=
    match n with
    | O => Ok off
    | S k => do off' <- aset off (led_pos ctx (p + j) cbeg cend) i; fill_cells k (j + 1) p i off'
    end.

  (* the loop over the characters: cols = (pos[i], ren_cwid(chrs[i], pos[i])) for i = 0..n-1;
     [strict] selects the guard of the code (both ends inside the window) or only its first half *)
  Fixpoint render_off (strict : bool) (cols : list (Z * Z)) (i : Z) (off : list Z) : res (list Z) :=
    match cols with
    | [] => Ok off
    | (p, w) :: r =>
      let curbeg := led_pos ctx p cbeg cend in
      let curend := led_pos ctx (p + w - 1) cbeg cend in
      let W := cend - cbeg in
      do off' <- (if (0 <=? curbeg) && (curbeg <? W) && (negb strict || ((0 <=? curend) && (curend <? W)))
                  then fill_cells (Z.to_nat w) 0 p i off else Ok off);
      render_off strict r (i + 1) off'
    end.

  Definition led_render_off (strict : bool) (cols : list (Z * Z)) : res (list Z) :=
    render_off strict cols 0 (repeat (-1) (Z.to_nat (cend - cbeg))).
End Render.

(* what the rest of led_render does with a cell o = off[i - cbeg] (cbeg <= i < cend by the loop conditions):
   if (o >= 0) att[o], chrs[o] -- two tables of n cells *)
Fixpoint cells_index (n : Z) (off : list Z) : res unit :=
  match off with
  | [] => Ok tt
  | o :: r => do _ <- (if 0 <=? o then ix n o else Ok o); cells_index n r
  end.

(* ---------------------------------------------------------------------------------------- *)
(* (5) ex_pathexpand and the buffer table                                                     *)

Record pst : Type := mkP { p_out : bytes; p_d : Z }.     (* bytes stored so far at buf[0..], dst - buf *)

(* *dst++ = b *)
Definition p_store (st : pst) (b : N) : res pst :=
  if (0 <=? p_d st) && (p_d st <? PATHCAP) then Ok (mkP (p_out st ++ [b]) (p_d st + 1)) else OobWr.

(* dst += snprintf(dst, end - dst, the string, p): at most size - 1 bytes and a terminator are stored, the full
   length is added; a negative size is a huge size_t *)
Definition p_snprintf (st : pst) (p : bytes) : res pst :=
  let size := PATHCAP - p_d st in
  let len := Z.of_nat (length p) in
  if size <? 0 then OobWr else
  if size =? 0 then Ok (mkP (p_out st) (p_d st + len)) else
  let k := Z.min len (size - 1) in
  if (p_d st <? 0) || (PATHCAP <? p_d st + k + 1) then OobWr else
  Ok (mkP (p_out st ++ firstn (Z.to_nat k) p) (p_d st + len)).

(* memcpy(dst, cur, len); dst += len; a negative len is a huge size_t *)
Definition p_memcpy (st : pst) (p : bytes) (len : Z) : res pst :=
  if (len <? 0) || (p_d st <? 0) || (PATHCAP <? p_d st + len) then OobWr else
  if Z.of_nat (length p) + 1 <? len then OobRd else
  Ok (mkP (p_out st ++ firstn (Z.to_nat len) p) (p_d st + len)).

(* strrchr(cur, '/') - cur *)
Fixpoint last_slash (p : bytes) (k : Z) (found : option Z) : option Z :=
  match p with
  | [] => found
  | b :: r => last_slash r (k + 1) (if (b =? 47)%N then Some k else found)
  end.

Section PathExpand.
  Variables cur alt : option bytes.              (* bufs[0].path, bufs[1].path (NULL = None) *)
  Variable spaceallowed : bool.

  Fixpoint pe_loop (fuel : nat) (s : bytes) (i : nat) (st : pst) : res (option pst) :=
    match fuel with
    | O => NoFuel
    | S f =>
      do c <- rd s i;
      if negb (p_d st + 1 <? PATHCAP) || (c =? 0)%N || (c =? 10)%N || (negb spaceallowed && ((c =? 32)%N || (c =? 9)%N))
      then Ok (Some st) else
      if (c =? 37)%N || (c =? 35)%N then
        match (if (c =? 35)%N then alt else cur) with
        | None => Ok None
        | Some p => do st' <- p_snprintf st (match p with [] => [47%N] | _ => p end); pe_loop f s (S i) st'
        end
      else if (p_d st =? 0) && (c =? 61)%N then
        do st' <- (match cur with
                   | Some p =>
                     match last_slash p 0 None with
                     | Some k => do st1 <- p_memcpy st p (Z.min k (PATHCAP - p_d st - 2)); p_store st1 47%N
                     | None => Ok st
                     end
                   | None => Ok st
                   end);
        pe_loop f s (S i) st'
      else
        do c1 <- (if (c =? 92)%N then rd s (S i) else Ok 0%N);
        let i1 := if (c =? 92)%N && negb (c1 =? 0)%N then S i else i in
        do b <- rd s i1;
        do st' <- p_store st b;
        pe_loop f s (S i1) st'
    end.

  (* [clamp]: with or without  if (dst + 1 >= end) dst = end - 1;  -- then *dst = '\0'; the answer is the C string in buf *)
  Definition ex_pathexpand_gen (clamp : bool) (s : bytes) : res (option bytes) :=
    do r <- pe_loop (S (length s)) s 0 (mkP [] 0);
    match r with
    | None => Ok None
    | Some st =>
      let d := if clamp && (PATHCAP <=? p_d st + 1) then PATHCAP - 1 else p_d st in
      do i <- ixw PATHCAP d;
      Ok (Some (firstn (Z.to_nat i) (p_out st)))
    end.
  Definition ex_pathexpand : bytes -> res (option bytes) := ex_pathexpand_gen true.
End PathExpand.

(* bufs[NBUFS]: a slot is in use when its lb is set *)
Definition bget (t : list bool) (i : Z) : res bool :=
  if (0 <=? i) && (i <? Z.of_nat (length t)) then Ok (nth (Z.to_nat i) t false) else OobRd.

(* for (i = 0; i < LEN(bufs) - last; i++) if (!bufs[i].lb) break; return i;   (last = 1 in the code) *)
Fixpoint findroom_from (fuel : nat) (last : Z) (t : list bool) (i : Z) : res Z :=
  match fuel with
  | O => NoFuel
  | S f =>
    if i <? Z.of_nat (length t) - last then
      (do u <- bget t i; if negb u then Ok i else findroom_from f last t (i + 1))
    else Ok i
  end.
Definition bufs_findroom_gen (last : Z) (t : list bool) : res Z := findroom_from (S (length t)) last t 0.
Definition bufs_findroom : list bool -> res Z := bufs_findroom_gen 1.

Definition bset (t : list bool) (i : Z) (v : bool) : res (list bool) :=
  if (0 <=? i) && (i <? Z.of_nat (length t))
  then Ok (firstn (Z.to_nat i) t ++ v :: skipn (S (Z.to_nat i)) t) else OobWr.

(* bufs_switch(idx): memcpy(&tmp, &bufs[idx]); memmove(&bufs[1], &bufs[0], sizeof(tmp) * idx); memcpy(&bufs[0], &tmp) *)
Definition bufs_switch (t : list bool) (idx : Z) : res (list bool) :=
  do u <- bget t idx;
  if (idx <? 0) || (Z.of_nat (length t) <? 1 + idx) then OobWr else
  Ok (u :: firstn (Z.to_nat idx) t ++ skipn (S (Z.to_nat idx)) t).

Inductive bop : Type :=
| BOpen                  (* bufs_switch(bufs_open(path)) *)
| BSwitch (idx : Z)      (* bufs_switch(idx) as called by ec_edit / ec_buffer / ex_next: 0 <= idx < LEN(bufs) *)
| BShift.                (* bufs_shift(): free slot 0, move the rest down, clear the last *)

Definition b_step_gen (last : Z) (t : list bool) (o : bop) : res (list bool) :=
  match o with
  | BOpen => do i <- bufs_findroom_gen last t; do t1 <- bset t i true; bufs_switch t1 i
  | BSwitch idx => bufs_switch t idx
  | BShift => match t with [] => OobWr | _ :: r => Ok (r ++ [false]) end
  end.
Fixpoint b_run_gen (last : Z) (t : list bool) (ops : list bop) : res (list bool) :=
  match ops with
  | [] => Ok t
  | o :: r => do t' <- b_step_gen last t o; b_run_gen last t' r
  end.
Definition b_run : list bool -> list bop -> res (list bool) := b_run_gen 1.
Definition b_init : list bool := repeat false (Z.to_nat NBUFS).
