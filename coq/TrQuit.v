(* TrQuit.v -- the GUARDS of C02 on the C text of /repo/ex.c: bufs_modified, ec_quit, and the "buffer modified" guard at the head of
   ec_edit / ec_exec / ec_make / in front of ec_buffer's bufs_switch, as the CLite terms tools/c2clite.py generates (GenCFuncs.v,
   whitelist tools/c2clite.d/87_quit.list), RUN on a memory that holds the table bufs[16] (TrBufs.tab_at: 16 * 41 cells) and, behind the lb
   pointer of every occupied slot, a struct lbuf (TrLbuf.lbuf_rep: 75 cells).  ex_show, lbuf_save, ec_write, reg_put, ex_pathexpand, ... are
   not translated: every theorem is about CLiteExt.callx for EVERY oracle, with a hypothesis about the oracle's answer on the calls that
   are reached. *)
From Coq Require Import List ZArith NArith Bool Lia.
From NV Require Import Bytes UndoDefs BufsDefs.
From NV Require Import CLite CLiteProps GenCFuncs CLiteTac CLiteExt TrLbufBase TrLbuf TrBufs TrBufsLbuf.
Import ListNotations.
Local Open Scope Z_scope.

Lemma x_ex_show_none : nth_error cprog X_ex_show = None.
Proof. vm_compute. reflexivity. Qed.
Lemma x_lbuf_save_none : nth_error cprog X_lbuf_save = None.
Proof. vm_compute. reflexivity. Qed.
Lemma x_ec_write_none : nth_error cprog X_ec_write = None.
Proof. vm_compute. reflexivity. Qed.

(* ------------------------------------------------------------------ bufs_modified(idx, msg) *)
(* the struct lbuf behind a slot's lb pointer: bl is neither the table nor the flag xaw *)
Definition bumped (blk : block) (lb : lbuf) : block := upd blk L_useq (VInt (useq lb + 1)).
Definition bump_mem (m : mem) (bl : nat) (blk : block) (lb : lbuf) : mem := upd m bl (bumped blk lb).

Lemma tab_at_bump m t bl blk lb : tab_at m t -> bl <> G_bufs -> (bl < length m)%nat -> tab_at (bump_mem m bl blk lb) t.
Proof. intros H Hne Hl. unfold bump_mem. apply tab_at_upd_other; [exact Hne|exact Hl|exact H]. Qed.
Lemma rep_lt m bl blk lb : lbuf_rep m bl blk lb -> (bl < length m)%nat.
Proof. intros [Rb _ _ _ _ _ _ _ _]. apply nth_error_Some. congruence. Qed.

(* the empty slot: nothing is called, 0 *)
Theorem tr_bufs_modified_null ext m t i msg d fuel : tab_at m t -> tab_ok t -> (i < 16)%nat -> cs_lb (nths t i) = VInt 0 ->
  callx ext cprog fuel (S d) F_bufs_modified [VInt (Z.of_nat i); msg] m = Ok (VInt 0, m).
Proof.
  intros Hm [Hl Hs] Hi Hlb. enterx F_bufs_modified cf_bufs_modified. xstep.
  slot_off i 1%nat. rewrite (tab_load m t i 1 (VInt 0) _ Hm Hs) by (try lia; cbn [cs_tail nth_error]; congruence). xstep. reflexivity.
Qed.

(* an occupied slot whose buffer lbuf_modified reports clean: the counter of that buffer is bumped, 0 *)
Theorem tr_bufs_modified_clean ext m t i bl blk lb msg d fuel : tab_at m t -> tab_ok t -> (i < 16)%nat ->
  cs_lb (nths t i) = VPtr bl 0 -> lbuf_rep m bl blk lb -> lbuf_ints lb -> useq lb < 2147483647 ->
  snd (lbuf_modified lb) = false ->
  callx ext cprog fuel (S (S (S d))) F_bufs_modified [VInt (Z.of_nat i); msg] m = Ok (VInt 0, bump_mem m bl blk lb).
Proof.
  intros Hm [Hl Hs] Hi Hlb R Hints Hmax Hfl. enterx F_bufs_modified cf_bufs_modified. xstep.
  slot_off i 1%nat. rewrite (tab_load m t i 1 (VPtr bl 0) _ Hm Hs) by (try lia; cbn [cs_tail nth_error]; congruence). xstep.
  slot_off i 1%nat. rewrite (tab_load m t i 1 (VPtr bl 0) _ Hm Hs) by (try lia; cbn [cs_tail nth_error]; congruence). xstep.
  destruct (tr_lbuf_modified m bl blk lb d fuel R Hints Hmax) as [Hc _].
  rewrite (callx_mono ext _ _ _ _ _ _ _ Hc). xstep. rewrite Hfl. cbn [b2z]. xstep. reflexivity.
Qed.

(* an occupied slot whose buffer is reported modified, autowrite off: the counter is bumped, the message (when there is one) goes to
   ex_show -- the oracle --, 1 *)
Definition show_call (ext : nat -> list val -> mem -> res (val * mem)) (msg : val) (m1 m2 : mem) : Prop :=
  if is_null msg then m2 = m1 else exists u, ext X_ex_show [msg] m1 = Ok (u, m2).

Theorem tr_bufs_modified_dirty ext m t i bl blk lb msg m2 d fuel : tab_at m t -> tab_ok t -> (i < 16)%nat ->
  cs_lb (nths t i) = VPtr bl 0 -> lbuf_rep m bl blk lb -> lbuf_ints lb -> useq lb < 2147483647 ->
  snd (lbuf_modified lb) = true -> bl <> G_xaw -> cell_at m G_xaw 0 -> ptr_val msg ->
  show_call ext msg (bump_mem m bl blk lb) m2 ->
  callx ext cprog fuel (S (S (S d))) F_bufs_modified [VInt (Z.of_nat i); msg] m = Ok (VInt 1, m2).
Proof.
  intros Hm [Hl Hs] Hi Hlb R Hints Hmax Hfl Hna Haw Hmsg Hshow. enterx F_bufs_modified cf_bufs_modified. xstep.
  slot_off i 1%nat. rewrite (tab_load m t i 1 (VPtr bl 0) _ Hm Hs) by (try lia; cbn [cs_tail nth_error]; congruence). xstep.
  slot_off i 1%nat. rewrite (tab_load m t i 1 (VPtr bl 0) _ Hm Hs) by (try lia; cbn [cs_tail nth_error]; congruence). xstep.
  destruct (tr_lbuf_modified m bl blk lb d fuel R Hints Hmax) as [Hc _].
  rewrite (callx_mono ext _ _ _ _ _ _ _ Hc). xstep. rewrite Hfl. cbn [b2z]. xstep.
  fold (bumped blk lb). fold (bump_mem m bl blk lb).
  assert (Haw1 : cell_at (bump_mem m bl blk lb) G_xaw 0).
  { unfold bump_mem. apply cell_at_upd_other; [exact (rep_lt _ _ _ _ R)|congruence|exact Haw]. }
  rewrite (load_cell _ G_xaw 0 Haw1). xstep. change (wrap I32 0) with 0. xstep. unfold show_call in Hshow.
  destruct Hmsg as [E|[b [o E]]]; rewrite E in *; cbn [is_null] in Hshow; xstep.
  - rewrite Hshow. reflexivity.
  - destruct Hshow as [u Hshow]. rewrite callx_S, x_ex_show_none, Hshow. xstep. reflexivity.
Qed.

(* autowrite (xaw != 0) on a buffer reported modified: a buffer WITH a path is handed to lbuf_save(b->lb, 0, -1, b->path, 0, b->mtime) -- the
   oracle.  A message: bufs_modified answers 1 and stores nothing (the memory is the save's).  NULL (since 37c81b2): lbuf_saved(b->lb, 0)
   runs -- the translated function, on the memory the save left --, then mtime(b->path) -- an oracle -- is stored into b->mtime (cell 40 of
   the slot, nothing else of the table changes) and bufs_modified answers 0.  A buffer whose path is "" is treated as with autowrite off *)
Definition set_cs_mtime (s : cslot) (x : Z) := mkcs (cs_ft s) (cs_path s) (cs_lb s) (cs_row s) (cs_off s) (cs_top s) (cs_left s) (cs_id s) (cs_td s) x.
Lemma x_mtime_none : nth_error cprog X_mtime = None.
Proof. reflexivity. Qed.
Theorem tr_bufs_modified_aw ext m t i bl blk lb msg a pb p m2 d fuel : tab_at m t -> tab_ok t -> (i < 16)%nat ->
  cs_lb (nths t i) = VPtr bl 0 -> lbuf_rep m bl blk lb -> lbuf_ints lb -> useq lb < 2147483647 ->
  snd (lbuf_modified lb) = true -> bl <> G_xaw -> bl <> G_bufs -> cell_at m G_xaw a -> int_ok a -> a <> 0 -> ptr_val msg ->
  cs_path (nths t i) = VPtr pb 0 -> str_at m pb p -> nonul p -> pb <> bl ->
  let m1 := bump_mem m bl blk lb in
  match p with
  | [] => show_call ext msg m1 m2 ->
          callx ext cprog fuel (S (S (S d))) F_bufs_modified [VInt (Z.of_nat i); msg] m = Ok (VInt 1, m2)
  | _ :: _ => forall r, ptr_val r ->
          ext X_lbuf_save [VPtr bl 0; VInt 0; VInt (-1); VPtr pb 0; VInt 0; VInt (wrap I64 (cs_mtime (nths t i)))] m1 = Ok (r, m2) ->
          if is_null r
          then forall u3 m3 ts m4, tab_at m2 t ->
                 callx ext cprog fuel (S (S d)) F_lbuf_saved [VPtr bl 0; VInt 0] m2 = Ok (u3, m3) -> tab_at m3 t ->
                 ext X_mtime [VPtr pb 0] m3 = Ok (VInt ts, m4) -> tab_at m4 t ->
                 callx ext cprog fuel (S (S (S d))) F_bufs_modified [VInt (Z.of_nat i); msg] m
                 = Ok (VInt 0, upd m4 G_bufs (tab_cells (upd t i (set_cs_mtime (nths t i) (wrap I64 ts)))))
          else callx ext cprog fuel (S (S (S d))) F_bufs_modified [VInt (Z.of_nat i); msg] m = Ok (VInt 1, m2)
  end.
Proof.
  intros Hm Ht Hi Hlb R Hints Hmax Hfl Hna Hnb Haw Ia Ha0 Hmsg Hpath Hp Np Hpb m1. pose proof Ht as [Hl Hs].
  assert (Hlt : (bl < length m)%nat) by exact (rep_lt _ _ _ _ R).
  assert (Hm1 : tab_at m1 t) by (apply tab_at_bump; assumption).
  assert (Haw1 : cell_at m1 G_xaw a) by (unfold m1, bump_mem; apply cell_at_upd_other; [exact Hlt|congruence|exact Haw]).
  assert (Hp1 : str_at m1 pb p) by (unfold m1, bump_mem; apply str_at_upd_other; [exact Hlt|exact Hpb|exact Hp]).
  destruct (tr_lbuf_modified m bl blk lb d fuel R Hints Hmax) as [Hc _].
  assert (Hhead : forall k, callx ext cprog fuel (S (S (S d))) F_bufs_modified [VInt (Z.of_nat i); msg] m = k <->
     match exec (callx ext cprog fuel (S (S d))) fuel
        (match fn_body cf_bufs_modified with SSeq _ (SSeq _ r) => r | _ => SSkip end)
        (mkst [VInt (Z.of_nat i); msg; VPtr G_bufs (0 + 41 * Z.of_nat i)] m1) with
     | OReturn v st => Ok (v, memm st) | ONormal st => Ok (VUndef, memm st) | OErr x => Err x | _ => Err EShape end = k).
  { intro k. enterx F_bufs_modified cf_bufs_modified. xstep.
    slot_off i 1%nat. rewrite (tab_load m t i 1 (VPtr bl 0) _ Hm Hs) by (try lia; cbn [cs_tail nth_error]; congruence). xstep.
    slot_off i 1%nat. rewrite (tab_load m t i 1 (VPtr bl 0) _ Hm Hs) by (try lia; cbn [cs_tail nth_error]; congruence). xstep.
    rewrite (callx_mono ext _ _ _ _ _ _ _ Hc). xstep. rewrite Hfl. cbn [b2z]. xstep. reflexivity. }
  destruct p as [|c p'].
  - intro Hshow. apply Hhead. cbn [fn_body cf_bufs_modified]. xstep.
    rewrite (load_cell _ G_xaw a Haw1). xstep. rewrite (wrap_int_ok a Ia). destruct (Z.eqb_spec a 0) as [E|_]; [contradiction|]. cbn [negb]. xstep.
    slot_off i 0%nat. rewrite (tab_load m1 t i 0 (VPtr pb 0) _ Hm1 Hs) by (try lia; cbn [cs_tail nth_error]; congruence). xstep.
    replace (0 + 1 * 0) with (Z.of_nat 0) by reflexivity. rewrite (load_str m1 pb [] _ 0 Hp1) by (try reflexivity; cbn [length]; lia). xstep.
    cbn [nthb nth]. change (wrap I32 (wrap I8 (Z.of_N 0))) with 0. xstep. unfold show_call in Hshow.
    destruct Hmsg as [E|[b [o E]]]; rewrite E in *; cbn [is_null] in Hshow; xstep.
    + rewrite Hshow. reflexivity.
    + destruct Hshow as [u Hshow]. rewrite callx_S, x_ex_show_none, Hshow. xstep. reflexivity.
  - intros r Hr Hsave.
    assert (Hpre : forall k,
      match exec (callx ext cprog fuel (S (S d))) fuel
        (match fn_body cf_bufs_modified with SSeq _ (SSeq _ r) => r | _ => SSkip end)
        (mkst [VInt (Z.of_nat i); msg; VPtr G_bufs (0 + 41 * Z.of_nat i)] m1) with
      | OReturn v st => Ok (v, memm st) | ONormal st => Ok (VUndef, memm st) | OErr x => Err x | _ => Err EShape end = k ->
      callx ext cprog fuel (S (S (S d))) F_bufs_modified [VInt (Z.of_nat i); msg] m = k) by (intros k Hk; apply Hhead; exact Hk).
    destruct Hr as [E|[b [o E]]]; rewrite E in *; cbn [is_null].
    + (* the save answered NULL *)
      intros u3 m3 ts m4 Hm2 Hsaved Hm3 Hmt Hm4. apply Hpre. cbn [fn_body cf_bufs_modified]. xstep.
      rewrite (load_cell _ G_xaw a Haw1). xstep. rewrite (wrap_int_ok a Ia). destruct (Z.eqb_spec a 0) as [E0|_]; [contradiction|]. cbn [negb]. xstep.
      slot_off i 0%nat. rewrite (tab_load m1 t i 0 (VPtr pb 0) _ Hm1 Hs) by (try lia; cbn [cs_tail nth_error]; congruence). xstep.
      replace (0 + 1 * 0) with (Z.of_nat 0) by reflexivity. rewrite (load_str m1 pb (c :: p') _ 0 Hp1) by (try reflexivity; cbn [length]; lia). xstep.
      cbn [nthb nth]. inversion Np as [|? ? [Hc0 Hc256] _]; subst.
      rewrite (sx_eq0 c Hc256). destruct (N.eqb_spec c 0) as [E1|_]; [lia|]. cbn [negb]. xstep.
      slot_off i 1%nat. rewrite (tab_load m1 t i 1 (VPtr bl 0) _ Hm1 Hs) by (try lia; cbn [cs_tail nth_error]; congruence). xstep.
      change (chk I32 (- (1))) with (@Ok Z (-1)). xstep.
      slot_off i 0%nat. rewrite (tab_load m1 t i 0 (VPtr pb 0) _ Hm1 Hs) by (try lia; cbn [cs_tail nth_error]; congruence). xstep.
      slot_off i 8%nat. rewrite (tab_load m1 t i 8 (VInt (cs_mtime (nths t i))) _ Hm1 Hs) by (try lia; reflexivity). xstep.
      rewrite callx_S, x_lbuf_save_none, Hsave. xstep.
      let v := eval cbv in (ptr_cmp ONe (VInt 0) (VInt 0)) in change (ptr_cmp ONe (VInt 0) (VInt 0)) with v. xstep.
      slot_off i 1%nat. rewrite (tab_load m2 t i 1 (VPtr bl 0) _ Hm2 Hs) by (try lia; cbn [cs_tail nth_error]; congruence). xstep.
      rewrite Hsaved. xstep.
      slot_off i 0%nat. rewrite (tab_load m3 t i 0 (VPtr pb 0) _ Hm3 Hs) by (try lia; cbn [cs_tail nth_error]; congruence). xstep.
      rewrite callx_S, x_mtime_none, Hmt. xstep.
      rewrite (tab_store_fld m4 t i 8 (VInt (wrap I64 ts)) _ (set_cs_mtime (nths t i) (wrap I64 ts)) Hm4 Ht Hi) by (try lia; reflexivity).
      xstep. reflexivity.
    + (* the save answered a message *)
      apply Hpre. cbn [fn_body cf_bufs_modified]. xstep.
      rewrite (load_cell _ G_xaw a Haw1). xstep. rewrite (wrap_int_ok a Ia). destruct (Z.eqb_spec a 0) as [E0|_]; [contradiction|]. cbn [negb]. xstep.
      slot_off i 0%nat. rewrite (tab_load m1 t i 0 (VPtr pb 0) _ Hm1 Hs) by (try lia; cbn [cs_tail nth_error]; congruence). xstep.
      replace (0 + 1 * 0) with (Z.of_nat 0) by reflexivity. rewrite (load_str m1 pb (c :: p') _ 0 Hp1) by (try reflexivity; cbn [length]; lia). xstep.
      cbn [nthb nth]. inversion Np as [|? ? [Hc0 Hc256] _]; subst.
      rewrite (sx_eq0 c Hc256). destruct (N.eqb_spec c 0) as [E1|_]; [lia|]. cbn [negb]. xstep.
      slot_off i 1%nat. rewrite (tab_load m1 t i 1 (VPtr bl 0) _ Hm1 Hs) by (try lia; cbn [cs_tail nth_error]; congruence). xstep.
      change (chk I32 (- (1))) with (@Ok Z (-1)). xstep.
      slot_off i 0%nat. rewrite (tab_load m1 t i 0 (VPtr pb 0) _ Hm1 Hs) by (try lia; cbn [cs_tail nth_error]; congruence). xstep.
      slot_off i 8%nat. rewrite (tab_load m1 t i 8 (VInt (cs_mtime (nths t i))) _ Hm1 Hs) by (try lia; reflexivity). xstep.
      rewrite callx_S, x_lbuf_save_none, Hsave. xstep.
      let v := eval cbv in (ptr_cmp ONe (VPtr b o) (VInt 0)) in change (ptr_cmp ONe (VPtr b o) (VInt 0)) with v. xstep. reflexivity.
Qed.

(* ------------------------------------------------------------------ the buffers behind the table: one struct lbuf per occupied slot *)
Definition hent : Type := (nat * block * lbuf)%type.      (* block index of the struct, its cells, the model state it represents *)
(* B: the bound on the command counters (lb->useq++ must not overflow: B <= INT_MAX for one bump, INT_MAX - 1 for the two a quit can make) *)
Definition slot_heap (B : Z) (m : mem) (cs : cslot) (h : option hent) : Prop :=
  match h with
  | None => cs_lb cs = VInt 0
  | Some (bl, blk, lb) => cs_lb cs = VPtr bl 0 /\ lbuf_rep m bl blk lb /\ lbuf_ints lb /\ useq lb < B
  end.
Definition heap_at (B : Z) (m : mem) (t : list cslot) (hp : list (option hent)) : Prop := Forall2 (slot_heap B m) t hp.
Fixpoint hblocks (l : list (option hent)) : list nat :=
  match l with [] => [] | None :: r => hblocks r | Some (bl, _, _) :: r => bl :: hblocks r end.
Definition hist_ptr (blk : block) (bh : nat) : Prop := nth_error blk L_hist = Some (VPtr bh 0).
(* separation: the structs are different blocks, none of them is one of the reserved blocks `res` (the table, the option and quit flags, the
   command string, ...), and no struct's log pointer points to a struct *)
Definition sep (res : list nat) (l : list (option hent)) : Prop :=
  NoDup (hblocks l) /\ (forall b, In b (hblocks l) -> ~ In b res) /\
  (forall bl blk lb bh, In (Some (bl, blk, lb)) l -> hist_ptr blk bh -> ~ In bh (hblocks l) /\ ~ In bh res).

Lemma hblocks_in l bl blk lb : In (Some (bl, blk, lb)) l -> In bl (hblocks l).
Proof.
  induction l as [|[[[b k] x]|] r IH]; intro H; [destruct H| |].
  - destruct H as [E|H]; [injection E as -> _ _; left; reflexivity|right; apply IH; exact H].
  - destruct H as [E|H]; [discriminate|apply IH; exact H].
Qed.
Lemma sep_tail res x l : sep res (x :: l) -> sep res l.
Proof.
  intros (Hn & Hr & Hh). destruct x as [[[bl blk] lb]|]; cbn [hblocks] in *.
  - split; [inversion Hn; assumption|]. split; [intros b Hb; apply Hr; right; exact Hb|].
    intros b k x bh Hin Hp. destruct (Hh b k x bh (or_intror Hin) Hp) as [H1 H2]. split; [intro Hc; apply H1; right; exact Hc|exact H2].
  - split; [exact Hn|]. split; [exact Hr|]. intros b k x bh Hin Hp. apply (Hh b k x bh); [right; exact Hin|exact Hp].
Qed.
(* a bump of one struct keeps what the other slots see *)
Lemma slot_heap_frame B m cs h bl blk lb : slot_heap B m cs h -> (bl < length m)%nat ->
  (forall b k x, h = Some (b, k, x) -> b <> bl /\ forall bh, hist_ptr k bh -> bh <> bl) ->
  slot_heap B (bump_mem m bl blk lb) cs h.
Proof.
  intros H Hlt Hsep. destruct h as [[[b k] x]|]; [|exact H]. destruct H as (Hc & R & Hi & Hu).
  destruct (Hsep b k x eq_refl) as [Hne Hh]. split; [exact Hc|]. split; [|split; assumption].
  apply (lbuf_rep_frame m _ b k x R).
  - unfold bump_mem. apply mem_upd_other; assumption.
  - intros bh hblk Hp Hb. unfold bump_mem. rewrite mem_upd_other; [exact Hb|exact Hlt|apply Hh; exact Hp].
Qed.
Lemma heap_tail_frame B res m ts l bl blk lb : Forall2 (slot_heap B m) ts l -> sep res (Some (bl, blk, lb) :: l) -> (bl < length m)%nat ->
  Forall2 (slot_heap B (bump_mem m bl blk lb)) ts l.
Proof.
  intros H (Hn & Hr & Hh) Hlt. cbn [hblocks] in *. inversion Hn as [|? ? Hnin Hn']; subst.
  assert (Hall : forall h, In h l -> forall b k x, h = Some (b, k, x) -> b <> bl /\ forall bh, hist_ptr k bh -> bh <> bl).
  { intros h Hin b k x ->. split.
    - intro E. subst b. apply Hnin. apply (hblocks_in l bl k x Hin).
    - intros bh Hp E. subst bh. destruct (Hh b k x bl (or_intror Hin) Hp) as [H1 _]. apply H1. left; reflexivity. }
  clear Hn Hr Hh Hnin Hn'. induction H as [|cs h ts l Hx Hrest IH]; constructor.
  - apply slot_heap_frame; [exact Hx|exact Hlt|apply Hall; left; reflexivity].
  - apply IH. intros h' Hin. apply Hall. right. exact Hin.
Qed.

(* ------------------------------------------------------------------ ec_quit *)
Notation G_bm := G_lit_627566666572206d6f646966696564_15.       (* "buffer modified" *)
Definition quit_loop : stmt := match fn_body cf_ec_quit with SSeq _ (SSeq (SSeq _ w) _) => w | _ => SSkip end.
Definition has_byte (c : N) (s : bytes) : bool := match find_byte c s with Some _ => true | None => false end.

Lemma strchr0 m b s c z : z = Z.of_N c -> str_at m b s -> nonul s -> (c < 256)%N -> c <> 0%N ->
  do_builtin_m BStrchr [VPtr b 0; VInt z] m = Ok (match find_byte c s with Some k => VPtr b (Z.of_nat k) | None => VInt 0 end, m).
Proof. intros -> H Hn Hc Hc0. exact (builtin_strchr m b s 0 c H Hn (Nat.le_0_l _) Hc Hc0). Qed.

(* the scan of the slots i .. 15 without `a` and `!`: every occupied slot's counter is bumped up to and including the first one reported
   modified; Some j = that slot *)
Fixpoint cq (l : list (option hent)) (i : nat) (m : mem) : mem * option nat :=
  match l with
  | [] => (m, None)
  | None :: r => cq r (S i) m
  | Some (bl, blk, lb) :: r =>
      if snd (lbuf_modified lb) then (bump_mem m bl blk lb, Some i) else cq r (S i) (bump_mem m bl blk lb)
  end.

Section Quit.
  Variable ext : nat -> list val -> mem -> res (val * mem).
  Variables (t : list cslot) (cb : nat) (cmd : bytes) (loc arg txt : val) (d fuel : nat).
  Hypothesis Ht : tab_ok t.
  Hypothesis Ncmd : nonul cmd.
  Variable B : Z.
  Hypothesis HB : B <= 2147483647.
  Let res := [G_bufs; G_xaw; G_xquit; cb].
  Let call := callx ext cprog fuel (S (S (S d))).

  Lemma quit_scan_ok : find_byte 97 cmd = None -> find_byte 33 cmd = None ->
    forall l ts i m fuel' l5 l6, skipn i t = ts -> Forall2 (slot_heap B m) ts l -> sep res l -> (i + length ts = 16)%nat -> (length ts < fuel')%nat ->
    tab_at m t -> cell_at m G_xaw 0 -> str_at m cb cmd ->
    match cq l i m with
    | (m1, None) => exec call fuel' quit_loop (mkst [loc; VPtr cb 0; arg; txt; VInt (Z.of_nat i); l5; l6] m)
                    = ONormal (mkst [loc; VPtr cb 0; arg; txt; VInt 16; l5; l6] m1)
    | (m1, Some j) => forall u1 m2 u2 m', ext X_ex_show [VPtr G_bm 0] m1 = Ok (u1, m2) ->
                    call F_bufs_switch [VInt (Z.of_nat j)] m2 = Ok (u2, m') ->
                    exec call fuel' quit_loop (mkst [loc; VPtr cb 0; arg; txt; VInt (Z.of_nat i); l5; l6] m)
                    = OReturn (VInt 0) (mkst [loc; VPtr cb 0; arg; txt; VInt (Z.of_nat j); l5; l6] m')
    end.
  Proof.
    intros Ha Hb. pose proof Ht as [Hl Hs]. unfold call.
    induction l as [|h l IH]; intros ts i m fuel' l5 l6 Hts Hh Hsep Hik Hf Hm Haw Hcmd;
      inversion Hh as [|cs h' ts' l' Hx Hrest]; subst; cbn [cq]; (destruct fuel' as [|fuel']; [cbn [length] in Hf; lia|]);
      unfold quit_loop; cbn [fn_body cf_ec_quit]; rewrite exec_for; xstep; len16; xstep;
      rewrite (wrap_U64_id (Z.of_nat i)) by lia; change (wrap U64 16) with 16.
    - (* i = 16 *)
      match goal with H : [] = skipn i t |- _ => symmetry in H; rename H into E end. rewrite E in Hik. cbn [length] in Hik.
      assert (i = 16%nat) by lia. subst i. change (Z.of_nat 16 <? 16) with false. xstep. reflexivity.
    - match goal with H : cs :: ts' = skipn i t |- _ => symmetry in H; rename H into E end. rewrite E in Hik, Hf. cbn [length] in Hik, Hf.
      assert (Hcs : nths t i = cs) by (rewrite (nths_skipn t i) in E by lia; congruence).
      assert (Ets : skipn (S i) t = ts') by (rewrite (nths_skipn t i) in E by lia; congruence).
      destruct (Z.ltb_spec (Z.of_nat i) 16); [|lia]. xstep.
      assert (Hnext : forall m' l5' l6', Forall2 (slot_heap B m') ts' l -> tab_at m' t -> cell_at m' G_xaw 0 -> str_at m' cb cmd ->
        match cq l (S i) m' with
        | (m1, None) => exec (callx ext cprog fuel (S (S (S d)))) fuel' quit_loop (mkst [loc; VPtr cb 0; arg; txt; VInt (Z.of_nat (S i)); l5'; l6'] m')
                        = ONormal (mkst [loc; VPtr cb 0; arg; txt; VInt 16; l5'; l6'] m1)
        | (m1, Some j) => forall u1 m2 u2 m'', ext X_ex_show [VPtr G_bm 0] m1 = Ok (u1, m2) ->
                        callx ext cprog fuel (S (S (S d))) F_bufs_switch [VInt (Z.of_nat j)] m2 = Ok (u2, m'') ->
                        exec (callx ext cprog fuel (S (S (S d)))) fuel' quit_loop (mkst [loc; VPtr cb 0; arg; txt; VInt (Z.of_nat (S i)); l5'; l6'] m')
                        = OReturn (VInt 0) (mkst [loc; VPtr cb 0; arg; txt; VInt (Z.of_nat j); l5'; l6'] m'')
        end).
      { intros m' l5' l6' Hh' Hm' Haw' Hcmd'. apply (IH ts' (S i) m' fuel' l5' l6' Ets Hh' (sep_tail _ _ _ Hsep)); try assumption; lia. }
      unfold quit_loop in Hnext; cbn [fn_body cf_ec_quit] in Hnext.
      slot_off i 1%nat. destruct h as [[[bl blk] lb]|]; cbn [slot_heap] in Hx.
      + (* an occupied slot *)
        destruct Hx as (Hlb & R & Hints & Hmax). rewrite <- Hcs in Hlb.
        rewrite (tab_load m t i 1 (VPtr bl 0) _ Hm Hs) by (try lia; cbn [cs_tail nth_error]; congruence). xstep.
        rewrite (strchr0 m cb cmd 97 97 eq_refl Hcmd Ncmd) by lia. rewrite Ha. xstep.
        rewrite (strchr0 m cb cmd 33 33 eq_refl Hcmd Ncmd) by lia. rewrite Hb. xstep.
        assert (Hlt : (bl < length m)%nat) by exact (rep_lt _ _ _ _ R).
        destruct Hsep as (Hn & Hr & Hh0). cbn [hblocks] in Hn, Hr.
        assert (Hnb : bl <> G_bufs) by (intro E0; apply (Hr bl (or_introl eq_refl)); subst bl; cbn; tauto).
        assert (Hna : bl <> G_xaw) by (intro E0; apply (Hr bl (or_introl eq_refl)); subst bl; cbn; tauto).
        assert (Hnc : bl <> cb) by (intro E0; apply (Hr bl (or_introl eq_refl)); subst bl; cbn; tauto).
        set (m1 := bump_mem m bl blk lb).
        assert (Hm1 : tab_at m1 t) by (apply tab_at_bump; assumption).
        assert (Haw1 : cell_at m1 G_xaw 0) by (unfold m1, bump_mem; apply cell_at_upd_other; [exact Hlt|congruence|exact Haw]).
        assert (Hcmd1 : str_at m1 cb cmd) by (unfold m1, bump_mem; apply str_at_upd_other; [exact Hlt|congruence|exact Hcmd]).
        destruct (snd (lbuf_modified lb)) eqn:Hfl.
        * (* reported modified: ex_show, bufs_switch(i), return 0 *)
          intros u1 m2 u2 m' Hshow Hsw.
          rewrite (tr_bufs_modified_dirty ext m t i bl blk lb (VPtr G_bm 0) m2 d fuel Hm Ht ltac:(lia) Hlb R Hints ltac:(lia) Hfl Hna Haw)
            by (try (right; eauto); unfold show_call; cbn [is_null]; eauto).
          xstep. rewrite Hsw. xstep. reflexivity.
        * rewrite (tr_bufs_modified_clean ext m t i bl blk lb (VPtr G_bm 0) d fuel Hm Ht ltac:(lia) Hlb R Hints ltac:(lia) Hfl).
          xstep. fold m1. rewrite (strchr0 m1 cb cmd 97 97 eq_refl Hcmd1 Ncmd) by lia. rewrite Ha. xstep.
          rewrite chk_I32 by lia. xstep. replace (Z.of_nat i + 1) with (Z.of_nat (S i)) by lia.
          assert (Hh1 : Forall2 (slot_heap B m1) ts' l) by (apply (heap_tail_frame B res m ts' l bl blk lb Hrest); [exact (conj Hn (conj Hr Hh0))|exact Hlt]).
          specialize (Hnext m1 l5 l6 Hh1 Hm1 Haw1 Hcmd1). destruct (cq l (S i) m1) as [m9 [j|]]; [intros u1 m2 u2 m' Hshow Hsw; apply (Hnext u1 m2 u2 m' Hshow Hsw)|exact Hnext].
      + (* an empty slot *)
        rewrite <- Hcs in Hx.
        rewrite (tab_load m t i 1 (VInt 0) _ Hm Hs) by (try lia; cbn [cs_tail nth_error]; congruence). xstep.
        rewrite chk_I32 by lia. xstep. replace (Z.of_nat i + 1) with (Z.of_nat (S i)) by lia.
        specialize (Hnext m l5 l6 Hrest Hm Haw Hcmd). destruct (cq l (S i) m) as [m9 [j|]]; [intros u1 m2 u2 m' Hshow Hsw; apply (Hnext u1 m2 u2 m' Hshow Hsw)|exact Hnext].
  Qed.

  (* with `!` (and without `a`) nothing is asked: the loop walks over the 16 slots and leaves the memory as it is *)
  Lemma quit_force_ok k : find_byte 97 cmd = None -> find_byte 33 cmd = Some k -> lbs_ok t ->
    forall n i m fuel' l5 l6, (i + n = 16)%nat -> (n < fuel')%nat -> tab_at m t -> str_at m cb cmd ->
    exec call fuel' quit_loop (mkst [loc; VPtr cb 0; arg; txt; VInt (Z.of_nat i); l5; l6] m)
    = ONormal (mkst [loc; VPtr cb 0; arg; txt; VInt 16; l5; l6] m).
  Proof.
    intros Ha Hb Hlbs. pose proof Ht as [Hl Hs]. unfold call.
    induction n as [|n IH]; intros i m fuel' l5 l6 Hik Hf Hm Hcmd; (destruct fuel' as [|fuel']; [lia|]);
      unfold quit_loop; cbn [fn_body cf_ec_quit]; rewrite exec_for; xstep; len16; xstep;
      rewrite (wrap_U64_id (Z.of_nat i)) by lia; change (wrap U64 16) with 16.
    - assert (i = 16%nat) by lia. subst i. change (Z.of_nat 16 <? 16) with false. xstep. reflexivity.
    - destruct (Z.ltb_spec (Z.of_nat i) 16); [|lia]. xstep.
      specialize (IH (S i) m fuel' l5 l6 ltac:(lia) ltac:(lia) Hm Hcmd). unfold quit_loop in IH; cbn [fn_body cf_ec_quit] in IH.
      slot_off i 1%nat. destruct (lbs_nth t i Hlbs ltac:(lia)) as [E|[b [o E]]].
      + rewrite (tab_load m t i 1 (VInt 0) _ Hm Hs) by (try lia; cbn [cs_tail nth_error]; congruence). xstep.
        rewrite chk_I32 by lia. xstep. replace (Z.of_nat i + 1) with (Z.of_nat (S i)) by lia. exact IH.
      + rewrite (tab_load m t i 1 (VPtr b o) _ Hm Hs) by (try lia; cbn [cs_tail nth_error]; congruence). xstep.
        rewrite (strchr0 m cb cmd 97 97 eq_refl Hcmd Ncmd) by lia. rewrite Ha. xstep.
        rewrite (strchr0 m cb cmd 33 33 eq_refl Hcmd Ncmd) by lia. rewrite Hb. xstep.
        rewrite (strchr0 m cb cmd 97 97 eq_refl Hcmd Ncmd) by lia. rewrite Ha. xstep.
        rewrite chk_I32 by lia. xstep. replace (Z.of_nat i + 1) with (Z.of_nat (S i)) by lia. exact IH.
  Qed.

  (* the scan touches the structs of the occupied slots only *)
  Lemma cq_other : forall l ts i m b, Forall2 (slot_heap B m) ts l -> sep res l -> ~ In b (hblocks l) ->
    nth_error (fst (cq l i m)) b = nth_error m b.
  Proof.
    induction l as [|h l IH]; intros ts i m b Hh Hsep Hnin; [reflexivity|].
    inversion Hh as [|cs h' ts' l' Hx Hrest]; subst. destruct h as [[[bl blk] lb]|]; cbn [cq hblocks] in *.
    - destruct Hx as (Hlb & R & Hints & Hmax). pose proof (rep_lt _ _ _ _ R) as Hlt.
      assert (Hb : nth_error (bump_mem m bl blk lb) b = nth_error m b) by (unfold bump_mem; apply mem_upd_other; [exact Hlt|intro E; apply Hnin; left; congruence]).
      destruct (snd (lbuf_modified lb)); cbn [fst]; [exact Hb|].
      rewrite (IH ts' (S i) (bump_mem m bl blk lb) b); [exact Hb|apply (heap_tail_frame B res m ts' l bl blk lb Hrest Hsep Hlt)|exact (sep_tail _ _ _ Hsep)|intro E; apply Hnin; right; exact E].
    - apply (IH ts' (S i) m b Hrest (sep_tail _ _ _ Hsep) Hnin).
  Qed.
End Quit.

(* ------------------------------------------------------------------ ec_quit(loc, cmd, arg, txt) *)
Definition is_wx (cmd : bytes) : bool := (nthb cmd 0 =? 119)%N || (nthb cmd 0 =? 120)%N.      (* wq, x, xa: ec_write first *)
(* the write part: for w... / x... the oracle for ec_write("", cmd, arg, NULL) answers r and leaves mw; else nothing happens *)
Definition write_part (ext : nat -> list val -> mem -> res (val * mem)) (cb : nat) (cmd : bytes) (arg : val) (m : mem) (r : Z) (mw : mem) : Prop :=
  if is_wx cmd then ext X_ec_write [VPtr G_lit__0 0; VPtr cb 0; arg; VInt 0] m = Ok (VInt r, mw) else (r = 0 /\ mw = m).
Definition quit_rest : stmt := match fn_body cf_ec_quit with SSeq _ r => r | _ => SSkip end.

Lemma sx_eq119 : forall c, (c < 256)%N -> (wrap I32 (wrap I8 (Z.of_N c)) =? 119) = (c =? 119)%N.
Proof. byte_fact. Qed.
Lemma sx_eq120 : forall c, (c < 256)%N -> (wrap I32 (wrap I8 (Z.of_N c)) =? 120) = (c =? 120)%N.
Proof. byte_fact. Qed.

(* the head of ec_quit: after it, either the function has returned 1 (the write part reported failure) or the rest runs on mw *)
Lemma quit_head ext m cb cmd loc arg txt r mw d fuel k : str_at m cb cmd -> nonul cmd -> ptr_val arg ->
  write_part ext cb cmd arg m r mw ->
  (callx ext cprog fuel (S (S (S (S d)))) F_ec_quit [loc; VPtr cb 0; arg; txt] m = k <->
   (if r =? 0 then
      match exec (callx ext cprog fuel (S (S (S d)))) fuel quit_rest (mkst [loc; VPtr cb 0; arg; txt; VUndef; VUndef; VUndef] mw) with
      | OReturn v st => Ok (v, memm st) | ONormal st => Ok (VUndef, memm st) | OErr x => Err x | _ => Err EShape end
    else Ok (VInt 1, mw)) = k).
Proof.
  intros Hcmd Ncmd Harg Hw. enterx F_ec_quit cf_ec_quit. rewrite exec_seq, exec_if. xcbn.
  replace (0 + 1 * 0) with (Z.of_nat 0) by reflexivity. rewrite (load_str m cb cmd _ 0 Hcmd) by (try reflexivity; lia). xcbn.
  assert (Hc : (nthb cmd 0 < 256)%N) by (apply nthb_lt256, nonul_lt256; exact Ncmd).
  rewrite (sx_eq119 _ Hc). unfold write_part, is_wx in Hw. unfold quit_rest. cbn [fn_body cf_ec_quit].
  assert (Hwr : forall st0, st0 = mkst [loc; VPtr cb 0; arg; txt; VUndef; VUndef; VUndef] m ->
    ext X_ec_write [VPtr G_lit__0 0; VPtr cb 0; arg; VInt 0] m = Ok (VInt r, mw) ->
    exec (callx ext cprog fuel (S (S (S d)))) fuel
      (SIf (ECall X_ec_write [EGlob G_lit__0; ELocal 1; ELocal 2; EConst 0]) (SReturn (Some (EConst 1))) SSkip) st0
    = if r =? 0 then ONormal (mkst [loc; VPtr cb 0; arg; txt; VUndef; VUndef; VUndef] mw)
      else OReturn (VInt 1) (mkst [loc; VPtr cb 0; arg; txt; VUndef; VUndef; VUndef] mw)).
  { intros st0 -> He. rewrite exec_if. xcbn. destruct Harg as [E|[b [o E]]]; rewrite E in *; xcbn;
      rewrite callx_S, x_ec_write_none, He; xcbn; destruct (r =? 0); xstep; reflexivity. }
  destruct (N.eqb_spec (nthb cmd 0) 119) as [E1|E1]; cbn [orb b2z negb Z.eqb] in *; xcbn.
  - rewrite (Hwr _ eq_refl Hw). destruct (r =? 0); [reflexivity|]. reflexivity.
  - replace (0 + 1 * 0) with (Z.of_nat 0) by reflexivity. rewrite (load_str m cb cmd _ 0 Hcmd) by (try reflexivity; lia). xcbn.
    rewrite (sx_eq120 _ Hc). destruct (N.eqb_spec (nthb cmd 0) 120) as [E2|E2]; cbn [orb b2z negb Z.eqb] in *; xcbn.
    + rewrite (Hwr _ eq_refl Hw). destruct (r =? 0); [reflexivity|]. reflexivity.
    + destruct Hw as [-> ->]. rewrite exec_skip. reflexivity.
Qed.

(* wq / x / xa whose write part reports failure: 1, xquit untouched (the memory is what ec_write left), the loop is not started *)
Theorem tr_ec_quit_write_fails ext m cb cmd loc arg txt r mw d fuel : str_at m cb cmd -> nonul cmd -> ptr_val arg ->
  is_wx cmd = true -> ext X_ec_write [VPtr G_lit__0 0; VPtr cb 0; arg; VInt 0] m = Ok (VInt r, mw) -> r <> 0 ->
  callx ext cprog fuel (S (S (S (S d)))) F_ec_quit [loc; VPtr cb 0; arg; txt] m = Ok (VInt 1, mw).
Proof.
  intros Hcmd Ncmd Harg Hwx He Hr.
  apply (quit_head ext m cb cmd loc arg txt r mw d fuel _ Hcmd Ncmd Harg); [unfold write_part; rewrite Hwx; exact He|].
  destruct (Z.eqb_spec r 0); [contradiction|reflexivity].
Qed.

(* q / wq / x without `!`, for EVERY table and every heap behind it (mw: the memory when the loop starts): the 16 slots are visited in
   order; every occupied slot's buffer is asked (its counter bumped) up to the first one reported modified -- cq --; if there is none,
   xquit = 1 is stored and 0 returned; if slot j is the first, "buffer modified" goes to ex_show, bufs_switch(j) runs, 0 is returned
   and xquit is NOT stored: the memory is exactly what bufs_switch left *)
Theorem tr_ec_quit_scan ext m mw t hp cb cmd loc arg txt q0 B d fuel : B <= 2147483647 -> str_at m cb cmd -> nonul cmd -> ptr_val arg ->
  write_part ext cb cmd arg m 0 mw ->
  tab_at mw t -> tab_ok t -> heap_at B mw t hp -> sep [G_bufs; G_xaw; G_xquit; cb] hp ->
  cell_at mw G_xaw 0 -> cell_at mw G_xquit q0 -> str_at mw cb cmd ->
  find_byte 97 cmd = None -> find_byte 33 cmd = None -> (16 < fuel)%nat ->
  match cq hp 0 mw with
  | (m1, None) => callx ext cprog fuel (S (S (S (S d)))) F_ec_quit [loc; VPtr cb 0; arg; txt] m = Ok (VInt 0, upd m1 G_xquit [VInt 1])
  | (m1, Some j) => forall u1 m2 u2 m', ext X_ex_show [VPtr G_bm 0] m1 = Ok (u1, m2) ->
      callx ext cprog fuel (S (S (S d))) F_bufs_switch [VInt (Z.of_nat j)] m2 = Ok (u2, m') ->
      callx ext cprog fuel (S (S (S (S d)))) F_ec_quit [loc; VPtr cb 0; arg; txt] m = Ok (VInt 0, m')
  end.
Proof.
  intros HB Hcmd Ncmd Harg Hw Hm Ht Hh Hsep Haw Hq Hcmdw Ha Hb Hf.
  pose proof (quit_scan_ok ext t cb cmd loc arg txt d fuel Ht Ncmd B HB Ha Hb hp t 0 mw fuel VUndef VUndef eq_refl Hh Hsep
                ltac:(destruct Ht as [Hl _]; cbn; lia) ltac:(destruct Ht as [Hl _]; lia) Hm Haw Hcmdw) as Hloop.
  pose proof (cq_other cb B hp t 0 mw G_xquit Hh Hsep) as Hoth.
  destruct (cq hp 0 mw) as [m1 [j|]].
  - intros u1 m2 u2 m' Hshow Hsw. specialize (Hloop u1 m2 u2 m' Hshow Hsw).
    apply (quit_head ext m cb cmd loc arg txt 0 mw d fuel _ Hcmd Ncmd Harg Hw). cbn [Z.eqb].
    unfold quit_rest. cbn [fn_body cf_ec_quit]. rewrite exec_seq, exec_seq, exec_expr. xcbn.
    unfold quit_loop in Hloop; cbn [fn_body cf_ec_quit] in Hloop. change (Z.of_nat 0) with 0 in Hloop. rewrite Hloop. reflexivity.
  - apply (quit_head ext m cb cmd loc arg txt 0 mw d fuel _ Hcmd Ncmd Harg Hw). cbn [Z.eqb].
    unfold quit_rest. cbn [fn_body cf_ec_quit]. rewrite exec_seq, exec_seq, exec_expr. xcbn.
    unfold quit_loop in Hloop; cbn [fn_body cf_ec_quit] in Hloop. change (Z.of_nat 0) with 0 in Hloop. rewrite Hloop. xstep.
    assert (Hq1 : cell_at m1 G_xquit q0).
    { unfold cell_at. cbn [fst] in Hoth. rewrite Hoth; [exact Hq|]. destruct Hsep as (_ & Hr & _). intro Hin. apply (Hr _ Hin). cbn; tauto. }
    change (wrap I32 1) with 1. rewrite (store_cell m1 G_xquit q0 1 Hq1). xstep. reflexivity.
Qed.

(* q! / wq! / x! (with `!`, without `a`): nothing is asked, xquit = 1 is stored whatever the buffers hold *)
Theorem tr_ec_quit_force ext m mw t cb cmd loc arg txt q0 k d fuel : str_at m cb cmd -> nonul cmd -> ptr_val arg ->
  write_part ext cb cmd arg m 0 mw ->
  tab_at mw t -> tab_ok t -> lbs_ok t -> cell_at mw G_xquit q0 -> str_at mw cb cmd ->
  find_byte 97 cmd = None -> find_byte 33 cmd = Some k -> (16 < fuel)%nat ->
  callx ext cprog fuel (S (S (S (S d)))) F_ec_quit [loc; VPtr cb 0; arg; txt] m = Ok (VInt 0, upd mw G_xquit [VInt 1]).
Proof.
  intros Hcmd Ncmd Harg Hw Hm Ht Hlbs Hq Hcmdw Ha Hb Hf.
  pose proof (quit_force_ok ext t cb cmd loc arg txt d fuel Ht Ncmd k Ha Hb Hlbs 16 0 mw fuel VUndef VUndef eq_refl Hf Hm Hcmdw) as Hloop.
  apply (quit_head ext m cb cmd loc arg txt 0 mw d fuel _ Hcmd Ncmd Harg Hw). cbn [Z.eqb].
  unfold quit_rest. cbn [fn_body cf_ec_quit]. rewrite exec_seq, exec_seq, exec_expr. xcbn.
  unfold quit_loop in Hloop; cbn [fn_body cf_ec_quit] in Hloop. change (Z.of_nat 0) with 0 in Hloop. rewrite Hloop. xstep.
  change (wrap I32 1) with 1. rewrite (store_cell mw G_xquit q0 1 Hq). xstep. reflexivity.
Qed.

(* ------------------------------------------------------------------ the heap after the scan; the scan against DirtyDefs.quit_tab *)
From NV Require DirtyDefs.
Definition hbump (h : option hent) : option hent :=
  match h with Some (bl, blk, lb) => Some (bl, bumped blk lb, UndoDefs.bump lb) | None => None end.
Definition hflag (h : option hent) : bool := match h with Some (_, _, lb) => snd (lbuf_modified lb) | None => false end.
(* the entries after the scan: bumped up to and including the first one reported modified *)
Fixpoint cq_hp (l : list (option hent)) : list (option hent) :=
  match l with
  | [] => []
  | h :: r => if hflag h then hbump h :: r else hbump h :: cq_hp r
  end.
Definition cq_idx (l : list (option hent)) : option nat := first_idx hflag l.

Lemma cq_snd l : forall i m, snd (cq l i m) = option_map (fun n => (i + n)%nat) (cq_idx l).
Proof.
  unfold cq_idx. induction l as [|[[[bl blk] lb]|] r IH]; intros i m; cbn [cq first_idx hflag]; [reflexivity| |].
  - destruct (snd (lbuf_modified lb)); cbn [snd option_map]; [f_equal; lia|].
    rewrite IH. destruct (first_idx hflag r); cbn [option_map]; [f_equal; lia|reflexivity].
  - rewrite IH. destruct (first_idx hflag r); cbn [option_map]; [f_equal; lia|reflexivity].
Qed.
Lemma hblocks_cq_hp l : hblocks (cq_hp l) = hblocks l.
Proof.
  induction l as [|[[[bl blk] lb]|] r IH]; cbn [cq_hp hflag hbump hblocks]; [reflexivity| |exact IH].
  destruct (snd (lbuf_modified lb)); cbn [hblocks]; [reflexivity|f_equal; exact IH].
Qed.
Lemma hist_ptr_bumped blk lb bh : length blk = LBUF_CELLS -> hist_ptr (bumped blk lb) bh -> hist_ptr blk bh.
Proof.
  intros Hl H. unfold hist_ptr, bumped in *. rewrite nth_error_upd_other in H; [exact H|rewrite Hl; unfold LBUF_CELLS, L_useq; lia|unfold L_hist, L_useq; lia].
Qed.
Lemma slot_heap_bump B m cs bl blk lb : B <= 2147483647 -> slot_heap B m cs (Some (bl, blk, lb)) ->
  slot_heap (B + 1) (bump_mem m bl blk lb) cs (Some (bl, bumped blk lb, UndoDefs.bump lb)).
Proof.
  intros HB (Hc & R & Hi & Hu). split; [exact Hc|].
  destruct (tr_lbuf_modified m bl blk lb 0 0 R Hi ltac:(lia)) as [_ R']. split; [exact R'|].
  destruct Hi as (Hu1 & Hz & Hl & Hs & Hcu & Hn). unfold lbuf_ints, i32 in *. cbn [UndoDefs.bump useq hist hist_u useq_zero useq_last].
  repeat split; try tauto; lia.
Qed.
Lemma sep_mono res res' l : sep res l -> (forall b, In b res' -> In b res) -> sep res' l.
Proof.
  intros (Hn & Hr & Hh) Hi. split; [exact Hn|]. split; [intros b Hb Hin; apply (Hr b Hb); apply Hi; exact Hin|].
  intros bl blk lb bh Hin Hp. destruct (Hh bl blk lb bh Hin Hp) as [H1 H2]. split; [exact H1|]. intro H. apply H2, Hi, H.
Qed.
Lemma slot_heap_mono B B' m cs h : B <= B' -> slot_heap B m cs h -> slot_heap B' m cs h.
Proof. intros HB H. destruct h as [[[bl blk] lb]|]; [|exact H]. destruct H as (Hc & R & Hi & Hu). split; [exact Hc|split; [exact R|split; [exact Hi|lia]]]. Qed.
Lemma cq_frame res B : forall l ts i m b, Forall2 (slot_heap B m) ts l -> sep res l -> ~ In b (hblocks l) ->
  nth_error (fst (cq l i m)) b = nth_error m b.
Proof.
  induction l as [|h l IH]; intros ts i m b Hh Hsep Hnin; [reflexivity|].
  inversion Hh as [|cs h' ts' l' Hx Hrest]; subst. destruct h as [[[bl blk] lb]|]; cbn [cq hblocks] in *.
  - destruct Hx as (Hlb & R & Hints & Hmax). pose proof (rep_lt _ _ _ _ R) as Hlt.
    assert (Hb : nth_error (bump_mem m bl blk lb) b = nth_error m b) by (unfold bump_mem; apply mem_upd_other; [exact Hlt|intro E; apply Hnin; left; congruence]).
    destruct (snd (lbuf_modified lb)); cbn [fst]; [exact Hb|].
    rewrite (IH ts' (S i) (bump_mem m bl blk lb) b); [exact Hb|apply (heap_tail_frame B res m ts' l bl blk lb Hrest Hsep Hlt)|exact (sep_tail _ _ _ Hsep)|intro E; apply Hnin; right; exact E].
  - apply (IH ts' (S i) m b Hrest (sep_tail _ _ _ Hsep) Hnin).
Qed.
Lemma cq_length res B : forall l ts i m, Forall2 (slot_heap B m) ts l -> sep res l -> length (fst (cq l i m)) = length m.
Proof.
  induction l as [|h l IH]; intros ts i m Hh Hsep; [reflexivity|].
  inversion Hh as [|cs h' ts' l' Hx Hrest]; subst. destruct h as [[[bl blk] lb]|]; cbn [cq] in *.
  - destruct Hx as (Hlb & R & Hints & Hmax). pose proof (rep_lt _ _ _ _ R) as Hlt.
    assert (Hb : length (bump_mem m bl blk lb) = length m) by (unfold bump_mem; apply upd_length; exact Hlt).
    destruct (snd (lbuf_modified lb)); cbn [fst]; [exact Hb|].
    rewrite (IH ts' (S i) (bump_mem m bl blk lb)); [exact Hb|apply (heap_tail_frame B res m ts' l bl blk lb Hrest Hsep Hlt)|exact (sep_tail _ _ _ Hsep)].
  - apply (IH ts' (S i) m Hrest (sep_tail _ _ _ Hsep)).
Qed.

(* after the scan: every slot's struct represents the entry of cq_hp (bumped up to the first modified one), with the bound B + 1 *)
Lemma cq_heap res B : B <= 2147483647 -> forall l ts i m, Forall2 (slot_heap B m) ts l -> sep res l ->
  Forall2 (slot_heap (B + 1) (fst (cq l i m))) ts (cq_hp l).
Proof.
  intro HB. induction l as [|h l IH]; intros ts i m Hh Hsep; inversion Hh as [|cs h' ts' l' Hx Hrest]; subst; [constructor|].
  destruct h as [[[bl blk] lb]|]; cbn [cq cq_hp hflag hbump].
  - pose proof Hx as (Hlb & R & Hints & Hmax). pose proof (rep_lt _ _ _ _ R) as Hlt.
    pose proof (heap_tail_frame B res m ts' l bl blk lb Hrest Hsep Hlt) as Hrest1.
    pose proof (slot_heap_bump B m cs bl blk lb HB Hx) as Hx1.
    destruct (snd (lbuf_modified lb)); cbn [fst].
    + constructor; [exact Hx1|]. clear -Hrest1. induction Hrest1; constructor; [eapply slot_heap_mono; [|eassumption]; lia|assumption].
    + constructor; [|apply IH; [exact Hrest1|exact (sep_tail _ _ _ Hsep)]].
      (* the head stays valid while the later structs are bumped *)
      destruct Hx1 as (Hc1 & R1 & Hi1 & Hu1). split; [exact Hc1|]. split; [|split; assumption].
      pose proof (sep_tail _ _ _ Hsep) as Hsep'.
      destruct Hsep as (Hn & Hr & Hh0). cbn [hblocks] in Hn. inversion Hn as [|? ? Hnin Hn']; subst.
      apply (lbuf_rep_frame _ _ bl _ _ R1).
      * apply (cq_frame res B l ts' (S i) _ bl Hrest1); [exact Hsep'|exact Hnin].
      * intros bh hblk Hp Hb. rewrite (cq_frame res B l ts' (S i) _ bh Hrest1); [exact Hb|exact Hsep'|].
        intro Hin. assert (Hp0 : hist_ptr blk bh) by (apply (hist_ptr_bumped blk lb bh); [destruct R; assumption|exact Hp]).
        destruct (Hh0 bl blk lb bh (or_introl eq_refl) Hp0) as [H1 _]. apply H1. right; exact Hin.
  - constructor; [exact Hx|]. apply IH; [exact Hrest|exact (sep_tail _ _ _ Hsep)].
Qed.

(* ---- DirtyDefs.quit_tab (the model of the loop) in closed form, and the heap entries against the model table *)
Section Model.
  Import DirtyDefs.
  Definition tflag (s : option ebuf) : bool := match s with Some e => snd (bufs_modified e) | None => false end.
  Definition bump0T (T : table) : table := match T with x :: r => bumpS x :: r | [] => [] end.
  Fixpoint tq (T : table) : table := match T with [] => [] | s :: r => if tflag s then bumpS s :: r else bumpS s :: tq r end.

  Lemma switch_tab_eq P b r : switch_tab P b r = switch (bump0T (P ++ Some b :: r)) (length P).
  Proof.
    destruct P as [|x p]; [reflexivity|]. cbn [switch_tab app bump0T length]. unfold switch. cbn [nth_error].
    rewrite nth_error_app2 by lia. rewrite Nat.sub_diag. cbn [nth_error]. f_equal.
    change (firstn (S (length p)) (bumpS x :: p ++ Some b :: r)) with (bumpS x :: firstn (length p) (p ++ Some b :: r)).
    change (skipn (S (S (length p))) (bumpS x :: p ++ Some b :: r)) with (skipn (S (length p)) (p ++ Some b :: r)).
    rewrite firstn_app, Nat.sub_diag, firstn_all, skipn_app. cbn [firstn]. rewrite app_nil_r.
    rewrite (skipn_all2 p) by lia. replace (S (length p) - length p)%nat with 1%nat by lia. reflexivity.
  Qed.
  Lemma quit_tab_spec : forall T pre, quit_tab pre T =
    match first_idx tflag T with
    | None => (rev pre ++ tq T, true)
    | Some n => (switch (bump0T (rev pre ++ tq T)) (length pre + n), false)
    end.
  Proof.
    induction T as [|s r IH]; intro pre; [cbn [quit_tab first_idx tq]; rewrite app_nil_r; reflexivity|].
    destruct s as [b|]; cbn [quit_tab first_idx tflag tq bumpS].
    - destruct (bufs_modified b) as [b' fl] eqn:Eb. assert (Eb' : b' = bumpE b) by (unfold bufs_modified in Eb; injection Eb as <- _; reflexivity).
      cbn [snd]. destruct fl.
      + rewrite Nat.add_0_r, switch_tab_eq, rev_length. subst b'. reflexivity.
      + rewrite IH. cbn [rev length]. subst b'. rewrite <- app_assoc. cbn [app].
        destruct (first_idx tflag r); cbn [option_map]; [|reflexivity]. do 2 f_equal. lia.
    - rewrite IH. cbn [rev length]. rewrite <- app_assoc. cbn [app].
      destruct (first_idx tflag r); cbn [option_map]; [|reflexivity]. do 2 f_equal. lia.
  Qed.

  (* the model table behind a heap: the same slots are empty, the occupied ones carry the state the struct represents (the ghost disk is free) *)
  Definition ent_tab (h : option hent) (s : option ebuf) : Prop :=
    match h, s with None, None => True | Some (_, _, lb0), Some e => lb e = lb0 | _, _ => False end.
  Definition heap_tab (hp : list (option hent)) (T : table) : Prop := Forall2 ent_tab hp T.
  Definition hbump0 (l : list (option hent)) : list (option hent) := match l with h :: r => hbump h :: r | [] => [] end.

  Lemma ent_tab_flag h s : ent_tab h s -> hflag h = tflag s.
  Proof. destruct h as [[[bl blk] x]|], s as [e|]; cbn; try tauto. intros <-. reflexivity. Qed.
  Lemma ent_tab_bump h s : ent_tab h s -> ent_tab (hbump h) (bumpS s).
  Proof. destruct h as [[[bl blk] x]|], s as [e|]; cbn; try tauto. intros <-. reflexivity. Qed.
  Lemma heap_tab_cq hp T : heap_tab hp T -> heap_tab (cq_hp hp) (tq T).
  Proof.
    induction 1 as [|h s hp T Hx Hr IH]; [constructor|]. cbn [cq_hp tq]. rewrite (ent_tab_flag h s Hx).
    destruct (tflag s); constructor; try (apply ent_tab_bump; exact Hx); assumption.
  Qed.
  Lemma heap_tab_bump0 hp T : heap_tab hp T -> heap_tab (hbump0 hp) (bump0T T).
  Proof. destruct 1 as [|h s hp T Hx Hr]; [constructor|]. constructor; [apply ent_tab_bump; exact Hx|exact Hr]. Qed.

  (* the scan of the C loop is DirtyDefs.ec_quit_tab without `!`: the same verdict, the same slot, and -- after the bufs_switch of the refusing
     case: slot 0's buffer bumped once more, slot j moved to the front -- the same table *)
  Theorem cq_is_quit_tab hp T : heap_tab hp T ->
    match cq_idx hp with
    | None => ec_quit_tab false T = (tq T, true) /\ heap_tab (cq_hp hp) (tq T)
    | Some j => snd (ec_quit_tab false T) = false /\ first_idx tflag T = Some j /\
                heap_tab (switch (hbump0 (cq_hp hp)) j) (fst (ec_quit_tab false T))
    end.
  Proof.
    intro H. unfold cq_idx, ec_quit_tab. rewrite quit_tab_spec. cbn [rev app length Nat.add].
    rewrite (first_idx_rel ent_tab hflag tflag hp T H ent_tab_flag).
    destruct (first_idx tflag T) as [j|]; cbn [fst snd].
    - split; [reflexivity|]. split; [reflexivity|]. apply Forall2_switch. apply heap_tab_bump0. apply heap_tab_cq. exact H.
    - split; [reflexivity|]. apply heap_tab_cq. exact H.
  Qed.
End Model.

(* ------------------------------------------------------------------ the refusing quit, composed with bufs_switch: the rotated table in memory *)
Lemma nth_error_upd_ne {A} (l : list A) n k x : k <> n -> (k < length l)%nat -> nth_error (upd l n x) k = nth_error l k.
Proof.
  intros Hne Hk. destruct (lt_dec n (length l)) as [L|L]; [apply nth_error_upd_other; assumption|].
  unfold upd. rewrite firstn_all2, skipn_all2 by lia. apply nth_error_app1. exact Hk.
Qed.
Lemma upd_length_ge {A} (l : list A) n x : (length l <= length (upd l n x))%nat.
Proof.
  destruct (lt_dec n (length l)) as [L|L]; [rewrite upd_length by exact L; lia|].
  unfold upd. rewrite firstn_all2, skipn_all2 by lia. rewrite app_length. lia.
Qed.
Ltac len_ge := repeat match goal with |- (_ < length (upd ?l _ _))%nat => apply (Nat.lt_le_trans _ (length l)); [|apply upd_length_ge] end.
Lemma set_globs_ne m r o tp l td b : (b < length m)%nat -> ~ In b [G_xrow; G_xoff; G_xtop; G_xleft; G_xtd] ->
  nth_error (set_globs m r o tp l td) b = nth_error m b.
Proof.
  intros Hb Hn. unfold set_globs.
  repeat (rewrite nth_error_upd_ne; [|intro E; apply Hn; subst b; cbn; tauto|len_ge; exact Hb]). reflexivity.
Qed.
Lemma first_idx_lt {A} (f : A -> bool) l j : first_idx f l = Some j -> (j < length l)%nat.
Proof.
  revert j; induction l as [|x l IH]; intros j H; [discriminate|]. cbn [first_idx] in H. destruct (f x); [injection H as <-; cbn; lia|].
  destruct (first_idx f l) as [n|]; [|discriminate]. injection H as <-. specialize (IH n eq_refl). cbn [length]. lia.
Qed.
Lemma cq_hp_in l e : In (Some e) (cq_hp l) ->
  In (Some e) l \/ exists bl blk lb, In (Some (bl, blk, lb)) l /\ e = (bl, bumped blk lb, UndoDefs.bump lb).
Proof.
  induction l as [|h r IH]; intro H; [destruct H|]. cbn [cq_hp] in H.
  assert (Hh : hbump h = Some e -> exists bl blk lb, h = Some (bl, blk, lb) /\ e = (bl, bumped blk lb, UndoDefs.bump lb)).
  { destruct h as [[[bl blk] lb]|]; cbn [hbump]; [|discriminate]. intro E. injection E as <-. eauto. }
  destruct (hflag h).
  - destruct H as [H|H]; [right; destruct (Hh H) as (bl & blk & lb & -> & ->); exists bl, blk, lb; split; [left; reflexivity|reflexivity]|left; right; exact H].
  - destruct H as [H|H]; [right; destruct (Hh H) as (bl & blk & lb & -> & ->); exists bl, blk, lb; split; [left; reflexivity|reflexivity]|].
    destruct (IH H) as [H1|(bl & blk & lb & H1 & ->)]; [left; right; exact H1|right; exists bl, blk, lb; split; [right; exact H1|reflexivity]].
Qed.
Lemma heap_in_len B m : forall ts l bl blk lb, Forall2 (slot_heap B m) ts l -> In (Some (bl, blk, lb)) l -> length blk = LBUF_CELLS.
Proof.
  intros ts l bl blk lb H. induction H as [|cs h ts l Hx Hr IH]; intro Hin; [destruct Hin|].
  destruct Hin as [->|Hin]; [destruct Hx as (_ & R & _); destruct R; assumption|apply IH; exact Hin].
Qed.
Lemma sep_cq_hp res B m ts l : Forall2 (slot_heap B m) ts l -> sep res l -> sep res (cq_hp l).
Proof.
  intros Hh (Hn & Hr & Hs). rewrite <- (hblocks_cq_hp l) in Hn, Hr. split; [exact Hn|]. split; [exact Hr|].
  intros bl blk lb bh Hin Hp. rewrite hblocks_cq_hp.
  destruct (cq_hp_in l _ Hin) as [H1|(bl0 & blk0 & lb0 & H1 & E)]; [apply (Hs bl blk lb bh H1 Hp)|].
  injection E as -> -> ->. apply (Hs bl0 blk0 lb0 bh H1). apply (hist_ptr_bumped blk0 lb0 bh); [exact (heap_in_len B m ts l bl0 blk0 lb0 Hh H1)|exact Hp].
Qed.
Lemma rep_transfer m m' bl blk lb : lbuf_rep m bl blk lb -> nth_error m' bl = nth_error m bl ->
  (forall bh, hist_ptr blk bh -> (bh < length m)%nat -> bh <> bl -> nth_error m' bh = nth_error m bh) -> lbuf_rep m' bl blk lb.
Proof.
  intros [Rb Rl Ru Rsz Rn Rhu Rz Rla Rh] Hbl Hbh. constructor; try assumption; [rewrite Hbl; exact Rb|].
  intro Hne. destruct (Rh Hne) as (bh & hblk & Hd & Hp & Hhb & Hcells). exists bh, hblk.
  split; [exact Hd|]. split; [exact Hp|]. split; [|exact Hcells].
  rewrite (Hbh bh Hp); [exact Hhb|apply nth_error_Some; congruence|exact Hd].
Qed.
Lemma m5_frame (mA : mem) n cells T r' o' tp' l' td' b : length mA = S n -> (b < n)%nat ->
  ~ In b [G_bufs; G_xrow; G_xoff; G_xtop; G_xleft; G_xtd] ->
  nth_error (set_globs (upd (upd mA n cells) G_bufs T) r' o' tp' l' td') b = nth_error mA b.
Proof.
  intros Hl Hb Hn. rewrite set_globs_ne; [|len_ge; lia|intro E; apply Hn; right; exact E].
  rewrite nth_error_upd_ne; [|intro E; apply Hn; left; congruence|len_ge; lia].
  apply nth_error_upd_ne; lia.
Qed.
Lemma m5_tab (mA : mem) n cells T r' o' tp' l' td' : length mA = S n -> (G_bufs < n)%nat ->
  nth_error (set_globs (upd (upd mA n cells) G_bufs T) r' o' tp' l' td') G_bufs = Some T.
Proof.
  intros Hl Hb. rewrite set_globs_ne; [|len_ge; lia|cbn; intuition discriminate].
  apply nth_error_upd_same. rewrite upd_length by lia. lia.
Qed.
Lemma Forall2_impl_in {A B} (P Q : A -> B -> Prop) a b : Forall2 P a b -> (forall x y, In y b -> P x y -> Q x y) -> Forall2 Q a b.
Proof. induction 1 as [|x y a b Hxy Hr IH]; intro H; constructor; [apply H; [left; reflexivity|exact Hxy]|apply IH; intros x' y' Hin; apply H; right; exact Hin]. Qed.

Definition RES (cb : nat) : list nat := [G_bufs; G_xaw; G_xquit; cb; G_xrow; G_xoff; G_xtop; G_xleft; G_xtd].

(* q / wq / x without `!` on a table with a buffer reported modified, with an ex_show that leaves this memory alone and a reg_put that
   answers: ec_quit returns 0; at its last call (reg_put, from bufs_load) the memory m5 holds the table rotated to the first
   modified slot j -- BufsDefs.switch of the table with the cursor saved into slot 0 --, every struct represents the entry of
   switch (hbump0 (cq_hp hp)) j (bumped up to slot j, slot 0 once more, rotated), and xquit is untouched *)
Theorem tr_ec_quit_rotates ext m mw t hp cb cmd loc arg txt q0 B r o tp l td m1 j d fuel :
  B <= 2147483646 -> str_at m cb cmd -> nonul cmd -> ptr_val arg -> write_part ext cb cmd arg m 0 mw ->
  tab_at mw t -> tab_ok t -> heap_at B mw t hp -> sep (RES cb) hp ->
  cell_at mw G_xaw 0 -> cell_at mw G_xquit q0 -> str_at mw cb cmd ->
  globs_at mw r o tp l td -> int_ok r -> int_ok o -> int_ok tp -> int_ok l -> int_ok td ->
  Forall slot_ints t -> Forall (fun s => ptr_val (cs_path s)) t ->
  find_byte 97 cmd = None -> find_byte 33 cmd = None -> (16 < fuel)%nat ->
  (forall mm, ext X_ex_show [VPtr G_bm 0] mm = Ok (VUndef, mm)) ->
  (forall a mm, exists u mm', ext X_reg_put [VInt 37; a; VInt 0] mm = Ok (u, mm')) ->
  cq hp 0 mw = (m1, Some j) ->
  let t2 := switch (save0 t r o tp l td) j in
  let hp2 := switch (hbump0 (cq_hp hp)) j in
  exists m5 u m',
    callx ext cprog fuel (S (S (S (S d)))) F_ec_quit [loc; VPtr cb 0; arg; txt] m = Ok (VInt 0, m') /\
    ext X_reg_put [VInt 37; path_arg (cs_path (nths t2 0)); VInt 0] m5 = Ok (u, m') /\
    tab_at m5 t2 /\ heap_at (B + 2) m5 t2 hp2 /\ cell_at m5 G_xquit q0.
Proof.
  intros HB Hcmd Ncmd Harg Hw Hm Ht Hh Hsep Haw Hq Hcmdw Hg Ir Io Itp Il Itd Hints Hpaths Ha Hb Hf Hshow Hreg Hcq t2 hp2.
  pose proof Ht as [Hl Hs].
  assert (Hsmall : sep [G_bufs; G_xaw; G_xquit; cb] hp) by (apply (sep_mono (RES cb)); [exact Hsep|unfold RES; cbn; tauto]).
  pose proof (tr_ec_quit_scan ext m mw t hp cb cmd loc arg txt q0 B d fuel ltac:(lia) Hcmd Ncmd Harg Hw Hm Ht Hh Hsmall Haw Hq Hcmdw Ha Hb Hf) as Hscan.
  rewrite Hcq in Hscan.
  (* the memory and the heap after the scan *)
  pose proof (cq_heap (RES cb) B ltac:(lia) hp t 0 mw Hh Hsep) as Hh1. rewrite Hcq in Hh1. cbn [fst] in Hh1.
  pose proof (sep_cq_hp (RES cb) B mw t hp Hh Hsep) as Hsep1.
  assert (Hfr : forall b, In b (RES cb) -> nth_error m1 b = nth_error mw b).
  { intros b Hin. pose proof (cq_frame (RES cb) B hp t 0 mw b Hh Hsep) as H. rewrite Hcq in H. apply H.
    destruct Hsep as (_ & Hr & _). intro Hb'. apply (Hr b Hb' Hin). }
  assert (Hlen : length m1 = length mw) by (pose proof (cq_length (RES cb) B hp t 0 mw Hh Hsep) as H; rewrite Hcq in H; exact H).
  assert (Hm1 : tab_at m1 t) by (unfold tab_at; rewrite Hfr by (unfold RES; cbn; tauto); exact Hm).
  assert (Hq1 : cell_at m1 G_xquit q0) by (unfold cell_at; rewrite Hfr by (unfold RES; cbn; tauto); exact Hq).
  assert (Hg1 : globs_at m1 r o tp l td) by (destruct Hg as [G1 G2 G3 G4 G5]; constructor; unfold cell_at; rewrite Hfr by (unfold RES; cbn; tauto); assumption).
  assert (Hlhp : length hp = 16%nat) by (rewrite <- (Forall2_len _ _ _ Hh); exact Hl).
  assert (Hj : (j < 16)%nat).
  { pose proof (cq_snd hp 0 mw) as H. rewrite Hcq in H. cbn [snd] in H. unfold cq_idx in H.
    destruct (first_idx hflag hp) as [n|] eqn:E; [|discriminate]. injection H as ->. rewrite <- Hlhp. apply (first_idx_lt _ _ _ E). }
  set (t1 := save0 t r o tp l td) in *. set (sx := nths t1 j).
  assert (Ht1 : tab_ok t1) by (apply tab_ok_save0; exact Ht).
  assert (Hl1 : length t1 = 16%nat) by (destruct Ht1; assumption).
  assert (Isx : slot_ints sx).
  { pose proof (save0_ints t r o tp l td Hints Ir Io Itp Il) as H. fold t1 in H. rewrite Forall_forall in H. apply H. apply nth_In. lia. }
  assert (Psx : ptr_val (cs_path sx)).
  { rewrite Forall_forall in Hpaths.
    assert (Hin : In (cs_path sx) (map cs_path t)) by (rewrite <- (save0_paths t r o tp l td); apply in_map; apply nth_In; fold t1; lia).
    apply in_map_iff in Hin. destruct Hin as [c [<- Hc]]. apply Hpaths. exact Hc. }
  assert (Hsx0 : nths t2 0 = sx) by (apply switch_nth0; lia).
  assert (Hgl : forall g, In g [G_bufs; G_xrow; G_xoff; G_xtop; G_xleft; G_xtd; G_xquit] -> (g < length m1)%nat).
  { intros g Hin. apply nth_error_Some. destruct Hg1 as [G1 G2 G3 G4 G5]. unfold cell_at, tab_at in *.
    destruct Hin as [<-|[<-|[<-|[<-|[<-|[<-|[<-|[]]]]]]]]; congruence. }
  set (n := length m1).
  (* everything that follows depends on the memory after the bump step of bufs_switch only through these facts *)
  assert (Hfin : forall mA h0' u m', length mA = S n ->
     (forall b, (b < n)%nat -> b <> G_bufs -> (forall bl blk lb, h0' = Some (bl, blk, lb) -> b <> bl) -> nth_error mA b = nth_error m1 b) ->
     (forall bl blk lb, h0' = Some (bl, blk, lb) -> nth_error mA bl = Some blk /\ lbuf_rep (upd m1 bl blk) bl blk lb /\ lbuf_ints lb /\ useq lb < B + 2 /\ cs_lb (nths t 0) = VPtr bl 0) ->
     (h0' = None -> cs_lb (nths t 0) = VInt 0) ->
     hbump0 (cq_hp hp) = h0' :: tl (cq_hp hp) ->
     let m5 := set_globs (upd (upd mA n (slot_cells sx)) G_bufs (tab_cells t2)) (cs_row sx) (cs_off sx) (cs_top sx) (cs_left sx) (cs_td sx) in
     ext X_reg_put [VInt 37; path_arg (cs_path sx); VInt 0] m5 = Ok (u, m') ->
     callx ext cprog fuel (S (S (S d))) F_bufs_switch [VInt (Z.of_nat j)] m1 = Ok (VUndef, m') ->
     exists m5 u m',
       callx ext cprog fuel (S (S (S (S d)))) F_ec_quit [loc; VPtr cb 0; arg; txt] m = Ok (VInt 0, m') /\
       ext X_reg_put [VInt 37; path_arg (cs_path (nths t2 0)); VInt 0] m5 = Ok (u, m') /\
       tab_at m5 t2 /\ heap_at (B + 2) m5 t2 hp2 /\ cell_at m5 G_xquit q0).
  { intros mA h0' u m' HlA HfrA Hhead Hnull Hhb m5 Hput Hsw. exists m5, u, m'.
    split; [exact (Hscan VUndef m1 VUndef m' (Hshow m1) Hsw)|]. split; [rewrite Hsx0; exact Hput|].
    assert (F5 : forall b, (b < n)%nat -> ~ In b [G_bufs; G_xrow; G_xoff; G_xtop; G_xleft; G_xtd] -> nth_error m5 b = nth_error mA b)
      by (intros b Hb' Hn'; apply m5_frame; assumption).
    split; [unfold tab_at; apply m5_tab; [exact HlA|apply Hgl; cbn; tauto]|].
    split.
    2:{ unfold cell_at. rewrite F5; [|apply Hgl; cbn; tauto|cbn; intuition discriminate].
        rewrite HfrA; [exact Hq1|apply Hgl; cbn; tauto|discriminate|].
        intros bl blk lb E. destruct (Hhead bl blk lb E) as (_ & _ & _ & _ & Hc0). intro E2. subst bl.
        (* G_xquit is reserved: it is not a struct *)
        destruct Hsep1 as (_ & Hr & _). apply (Hr G_xquit); [|unfold RES; cbn; tauto].
        destruct (cq_hp hp) as [|h0 hr] eqn:Ehp; [discriminate Hhb|]. cbn [hbump0 tl] in Hhb. injection Hhb as Hhb. subst h0'.
        destruct h0 as [[[b0 k0] x0]|]; cbn [hbump] in E; [|discriminate]. injection E as <- _ _. left; reflexivity. }
    (* the heap *)
    unfold heap_at, hp2, t2. apply Forall2_switch. rewrite Hhb.
    destruct (cq_hp hp) as [|h0 hr] eqn:Ehp; [discriminate Hhb|]. cbn [hbump0 tl] in Hhb |- *. injection Hhb as Hhb. subst h0'.
    destruct t as [|c0 trest]; [discriminate Hl|]. inversion Hh1 as [|? ? ? ? Hx0 Hrest]; subst x y l0 l'.
    destruct Hsep1 as (Hn1 & Hr1 & Hs1).
    assert (Hres : forall b, In b [G_bufs; G_xrow; G_xoff; G_xtop; G_xleft; G_xtd] -> In b (RES cb)) by (unfold RES; cbn; tauto).
    unfold t1. cbn [save0]. constructor.
    - (* slot 0 *)
      destruct h0 as [[[bl0 blk0] lb0]|]; cbn [hbump slot_heap].
      + destruct (Hhead bl0 (bumped blk0 lb0) (UndoDefs.bump lb0) eq_refl) as (HA & RA & IA & UA & Hc0).
        split; [exact Hc0|]. split; [|split; assumption].
        destruct Hx0 as (_ & R0 & _). pose proof (rep_lt _ _ _ _ R0) as Hlt0.
        assert (Hin0 : In bl0 (hblocks (Some (bl0, blk0, lb0) :: hr))) by (left; reflexivity).
        apply (rep_transfer (upd m1 bl0 (bumped blk0 lb0)) m5 bl0 _ _ RA).
        * rewrite F5; [rewrite HA; symmetry; apply mem_upd_same; exact Hlt0|exact Hlt0|intro Hin; apply (Hr1 bl0 Hin0), Hres, Hin].
        * intros bh Hp Hbh Hne. rewrite upd_length in Hbh by exact Hlt0.
          assert (Hp0 : hist_ptr blk0 bh) by (apply (hist_ptr_bumped blk0 lb0 bh); [destruct R0; assumption|exact Hp]).
          destruct (Hs1 bl0 blk0 lb0 bh (or_introl eq_refl) Hp0) as [Hb1 Hb2].
          rewrite F5; [|exact Hbh|intro Hin; apply Hb2, Hres, Hin].
          rewrite HfrA; [symmetry; apply mem_upd_other; assumption|exact Hbh|intro E; apply Hb2; subst bh; unfold RES; cbn; tauto|].
          intros bl blk lb E. injection E as <- _ _. exact Hne.
      + cbn [slot_heap] in Hx0. exact Hx0.
    - (* the other slots: their structs are where they were *)
      assert (Hall : forall h, In h hr -> forall b k x, h = Some (b, k, x) ->
                (forall b', hbump h0 = Some b' -> b <> fst (fst b')) /\ ~ In b (RES cb) /\ forall bh, hist_ptr k bh -> ~ In bh (hblocks (h0 :: hr)) /\ ~ In bh (RES cb)).
      { intros h Hin b k x ->. split; [|split].
        - intros [[b0 k0] x0] E. cbn [fst]. destruct h0 as [[[bl0 blk0] lb0]|]; cbn [hbump] in E; [|discriminate].
          injection E as <- _ _. cbn [hblocks] in Hn1. inversion Hn1 as [|? ? Hnin _]; subst.
          intro E. subst b. apply Hnin. apply (hblocks_in hr bl0 k x Hin).
        - apply Hr1. destruct h0 as [[[? ?] ?]|]; cbn [hblocks]; [right|]; apply (hblocks_in hr b k x Hin).
        - intros bh Hp. apply (Hs1 b k x bh); [right; exact Hin|exact Hp]. }
      apply (Forall2_impl_in _ _ _ _ Hrest). intros cs h Hinh Hx.
      + destruct h as [[[b k] x]|]; [|exact Hx]. destruct Hx as (Hc & R & Hi & Hu).
        destruct (Hall _ Hinh b k x eq_refl) as (Hd0 & Hdr & Hdh). pose proof (rep_lt _ _ _ _ R) as Hltb.
        assert (Hb5 : forall b', (b' < n)%nat -> ~ In b' (RES cb) -> (forall b'' , hbump h0 = Some b'' -> b' <> fst (fst b'')) -> nth_error m5 b' = nth_error m1 b').
        { intros b' Hb' Hnr Hn0. rewrite F5; [|exact Hb'|intro Hin; apply Hnr, Hres, Hin].
          apply HfrA; [exact Hb'|intro E; apply Hnr; subst b'; unfold RES; cbn; tauto|]. intros bl blk lb E. apply (Hn0 _ E). }
        split; [exact Hc|]. split; [|split; [exact Hi|lia]].
        apply (rep_transfer m1 m5 b k x R); [apply Hb5; assumption|].
        intros bh Hp Hbh Hne. destruct (Hdh bh Hp) as [Hh1' Hh2']. apply Hb5; [exact Hbh|exact Hh2'|].
        intros [[b0 k0] x0] E. cbn [fst]. destruct h0 as [[[bl0 blk0] lb0]|]; cbn [hbump] in E; [|discriminate].
        injection E as <- _ _. intro E. apply Hh1'. subst bh. left; reflexivity. }
  (* the two cases of slot 0 *)
  destruct (cq_hp hp) as [|h0 hr] eqn:Ehp.
  { exfalso. pose proof (Forall2_len _ _ _ Hh1) as E. rewrite Hl in E. discriminate E. }
  assert (Hx0 : slot_heap (B + 1) m1 (nths t 0) h0).
  { clear Hfin Hscan. destruct t as [|c0 trest]; [discriminate Hl|]. inversion Hh1 as [|? ? ? ? Hx Hr]. exact Hx. }
  destruct h0 as [[[bl0 blk0] lb0]|]; cbn [slot_heap] in Hx0.
  - destruct Hx0 as (Hc0 & R0 & I0 & U0). pose proof (rep_lt _ _ _ _ R0) as Hlt0.
    destruct Hsep1 as (Hn1 & Hr1 & Hs1). cbn [hblocks] in Hr1.
    assert (Hnin0 : ~ In bl0 [G_bufs; G_xrow; G_xoff; G_xtop; G_xleft; G_xtd]).
    { intro Hin. apply (Hr1 bl0 (or_introl eq_refl)). unfold RES. cbn in Hin |- *. tauto. }
    assert (Hhist0 : nth_error blk0 L_hist <> Some (VPtr G_bufs 0)).
    { intro E. destruct (Hs1 bl0 blk0 lb0 G_bufs (or_introl eq_refl) E) as [_ H2]. apply H2. unfold RES; cbn; tauto. }
    set (blk0' := upd blk0 L_useq (VInt (useq lb0 + 1))).
    set (mA := upd (upd (m1 ++ [repeat VUndef 41]) G_bufs (tab_cells t1)) bl0 blk0').
    set (m5 := set_globs (upd (upd mA n (slot_cells sx)) G_bufs (tab_cells t2)) (cs_row sx) (cs_off sx) (cs_top sx) (cs_left sx) (cs_td sx)).
    destruct (Hreg (path_arg (cs_path sx)) m5) as (u & m' & Hput).
    destruct (tr_bufs_switch_bump ext m1 t r o tp l td j bl0 blk0 lb0 u m' d fuel Hm1 Ht Hg1 Ir Io Itp Il Itd Hj Hc0 R0 I0 ltac:(lia) Hnin0 Hhist0 Isx Psx Hput) as [Hsw R0'].
    assert (Hl0 : length (m1 ++ [repeat VUndef 41]) = S n) by (rewrite app_length; cbn [length]; lia).
    assert (Hgb : (G_bufs < n)%nat) by (apply Hgl; cbn; tauto).
    assert (Hl0' : length (upd (m1 ++ [repeat VUndef 41]) G_bufs (tab_cells t1)) = S n) by (rewrite upd_length; lia).
    assert (HlA : length mA = S n) by (unfold mA; rewrite upd_length; fold n in Hlt0; lia).
    apply (Hfin mA (Some (bl0, bumped blk0 lb0, UndoDefs.bump lb0)) u m' HlA).
    + intros b Hb' Hnb Hn0. unfold mA. rewrite nth_error_upd_ne; [|apply (Hn0 _ _ _ eq_refl)|lia].
      rewrite nth_error_upd_ne; [|exact Hnb|lia]. apply nth_error_app1. exact Hb'.
    + intros bl blk lb E. injection E as <- <- <-. split; [|split; [|split; [|split; [cbn [UndoDefs.bump useq]; lia|exact Hc0]]]].
      * unfold mA. apply nth_error_upd_same. fold n in Hlt0. lia.
      * destruct (tr_lbuf_modified m1 bl0 blk0 lb0 0 0 R0 I0 ltac:(lia)) as [_ R']. exact R'.
      * destruct I0 as (Hu1 & Hz & Hla0 & Hs0 & Hcu & Hn0). unfold lbuf_ints, i32 in *. cbn [UndoDefs.bump useq hist hist_u useq_zero useq_last]. repeat split; try tauto; lia.
    + discriminate.
    + reflexivity.
    + exact Hput.
    + exact Hsw.
  - set (mA := upd (m1 ++ [repeat VUndef 41]) G_bufs (tab_cells t1)).
    set (m5 := set_globs (upd (upd mA n (slot_cells sx)) G_bufs (tab_cells t2)) (cs_row sx) (cs_off sx) (cs_top sx) (cs_left sx) (cs_td sx)).
    destruct (Hreg (path_arg (cs_path sx)) m5) as (u & m' & Hput).
    assert (Hl0 : length (m1 ++ [repeat VUndef 41]) = S n) by (rewrite app_length; cbn [length]; lia).
    assert (Hgb : (G_bufs < n)%nat) by (apply Hgl; cbn; tauto).
    assert (HlA : length mA = S n) by (unfold mA; rewrite upd_length; lia).
    assert (Hsw : callx ext cprog fuel (S (S (S d))) F_bufs_switch [VInt (Z.of_nat j)] m1 = Ok (VUndef, m')).
    { apply (tr_bufs_switch ext m1 t r o tp l td j mA u m' d fuel Hm1 Ht Hg1 Ir Io Itp Il Itd Hj); try assumption.
      - rewrite Hx0. left; reflexivity.
      - unfold bump_call. rewrite Hx0. cbn [is_null]. reflexivity.
      - reflexivity.
      - intros b _. reflexivity. }
    apply (Hfin mA None u m' HlA).
    + intros b Hb' Hnb _. unfold mA. rewrite nth_error_upd_ne; [|exact Hnb|lia]. apply nth_error_app1. exact Hb'.
    + discriminate.
    + intros _. exact Hx0.
    + reflexivity.
    + exact Hput.
    + exact Hsw.
Qed.
Print Assumptions tr_ec_quit_rotates.

(* ================================================================== the "buffer modified" guard of ec_exec / ec_make / ec_edit / ec_buffer
   ec_exec, ec_make:   if (!xwa && bufs_modified(0, "buffer modified")) return 1;                         (first statement)
   ec_edit:            if (!strchr(cmd, '!')) if (xb && !xwa && bufs_modified(0, "buffer modified")) return 1;   (first statement)
   ec_buffer:          if (!xwa && strchr(cmd, '!') == NULL) if (bufs_modified(0, ...)) return 1;  bufs_switch(idx);
   One lemma per statement shape (for every memory, table, oracle), one shape lemma per call site (the function's body IS: its local
   arrays, then the guard, then the rest -- by reflexivity on the translated text), one theorem per call site for the refusing case. *)
Lemma x_none_show : nth_error cprog X_ex_show = None. Proof. exact x_ex_show_none. Qed.
Definition bm_call : expr := ECall F_bufs_modified [EConst 0; EGlob G_bm].
Definition guard_xwa : stmt :=
  SIf (EAndAlso (ELNot (ELoad (Some I32) (EGlob G_xwa))) bm_call) (SReturn (Some (EConst 1))) SSkip.
Definition guard_edit : stmt :=
  SIf (ELNot (EBuiltin BStrchr [ELocal 1; EConst 33]))
      (SIf (EAndAlso (EAndAlso (ECall F_ex_lbuf []) (ELNot (ELoad (Some I32) (EGlob G_xwa)))) bm_call) (SReturn (Some (EConst 1))) SSkip) SSkip.
Definition guard_buffer (idx : nat) : stmt :=
  SSeq (SIf (EAndAlso (ELNot (ELoad (Some I32) (EGlob G_xwa))) (EPtrCmp OEq (EBuiltin BStrchr [ELocal 1; EConst 33]) (EConst 0)))
            (SIf bm_call (SReturn (Some (EConst 1))) SSkip) SSkip)
       (SExpr (ECall F_bufs_switch [ELocal idx])).

(* the call sites: the translated bodies have exactly this shape *)
Definition ec_exec_rest : stmt := match fn_body cf_ec_exec with SSeq _ (SSeq _ r) => r | _ => SSkip end.
Definition ec_make_rest : stmt := match fn_body cf_ec_make with SSeq _ (SSeq _ r) => r | _ => SSkip end.
Definition ec_edit_rest : stmt := match fn_body cf_ec_edit with SSeq _ (SSeq _ (SSeq _ r)) => r | _ => SSkip end.
Lemma ec_exec_shape : fn_body cf_ec_exec =
  SSeq (SSeq (SExpr (ESetLocal 4 (EBuiltin BMalloc [EConst 1]))) (SExpr (ESetLocal 5 (EBuiltin BMalloc [EConst 1])))) (SSeq guard_xwa ec_exec_rest).
Proof. reflexivity. Qed.
Lemma ec_make_shape : fn_body cf_ec_make = SSeq (SExpr (ESetLocal 4 (EBuiltin BMalloc [EConst 512]))) (SSeq guard_xwa ec_make_rest).
Proof. reflexivity. Qed.
Lemma ec_edit_shape : fn_body cf_ec_edit =
  SSeq (SExpr (ESetLocal 4 (EBuiltin BMalloc [EConst 512]))) (SSeq (SExpr (ESetLocal 5 (EBuiltin BMalloc [EConst 128]))) (SSeq guard_edit ec_edit_rest)).
Proof. reflexivity. Qed.
(* ec_buffer: the calls of bufs_switch in the body, and the statement the only one sits in *)
Fixpoint calls_e (f : nat) (e : expr) {struct e} : nat :=
  match e with
  | EConst _ | ELocal _ | EGlob _ | EIncLocal _ _ _ _ => 0
  | EUn _ _ a | ECast _ a | ELNot a | ELoad _ a | ESetLocal _ a | EIncMem _ _ _ a => calls_e f a
  | EBin _ _ a b | EPtrAdd _ a b | EPtrDiff _ a b | EPtrCmp _ a b | EAndAlso a b | EOrElse a b | EStore _ a b | EComma a b => calls_e f a + calls_e f b
  | ECond c a b => calls_e f c + calls_e f a + calls_e f b
  | ECall g args => (if Nat.eqb g f then 1 else 0) + (fix go (l : list expr) : nat := match l with [] => 0 | a :: r => calls_e f a + go r end) args
  | EBuiltin _ args => (fix go (l : list expr) : nat := match l with [] => 0 | a :: r => calls_e f a + go r end) args
  end%nat.
Definition calls_o (f : nat) (e : option expr) : nat := match e with Some a => calls_e f a | None => 0%nat end.
Fixpoint calls_s (f : nat) (s : stmt) {struct s} : nat :=
  match s with
  | SSkip | SBreak | SContinue => 0
  | SExpr e => calls_e f e
  | SSeq a b => calls_s f a + calls_s f b
  | SIf c a b => calls_e f c + calls_s f a + calls_s f b
  | SWhile c b | SDoWhile b c => calls_e f c + calls_s f b
  | SFor c st b => calls_o f c + calls_o f st + calls_s f b
  | SReturn e => calls_o f e
  | SSwitch e segs => calls_e f e + (fix go (l : list (list (option Z) * stmt)) : nat := match l with [] => 0 | (_, a) :: r => calls_s f a + go r end) segs
  end%nat.
Definition ec_buffer_sw : stmt :=
  match fn_body cf_ec_buffer with
  | SSeq _ (SSeq _ (SSeq (SIf _ _ (SIf _ _ (SIf _ _ (SSeq _ (SSeq _ (SSeq _ (SIf _ sw _))))))) _)) => sw
  | _ => SSkip
  end.
Lemma ec_buffer_shape : ec_buffer_sw = guard_buffer 10 /\ calls_s F_bufs_switch (fn_body cf_ec_buffer) = 1%nat /\ calls_s F_bufs_switch ec_buffer_sw = 1%nat.
Proof. split; [reflexivity|]. split; vm_compute; reflexivity. Qed.

Lemma eval_andalso call a b st : eval call (EAndAlso a b) st =
  (do (v, st1) <- eval call a st; do t <- truth v;
   if t then (do (w, st2) <- eval call b st1; do u <- truth w; Ok (VInt (b2z u), st2)) else Ok (VInt 0, st1)).
Proof. reflexivity. Qed.

Section Guards.
  Variable ext : nat -> list val -> mem -> res (val * mem).
  Variables (t : list cslot) (d fuel : nat).
  Hypothesis Ht : tab_ok t.
  Let call := callx ext cprog fuel (S (S (S d))).
  Variable B : Z.
  Hypothesis HB : B <= 2147483647.

  (* bufs_modified(0, "buffer modified") as an expression: what it answers and leaves, by the state of slot 0 *)
  Definition bm_spec (h : option hent) (m : mem) (v : Z) (m' : mem) : Prop :=
    match h with
    | None => v = 0 /\ m' = m
    | Some (bl, blk, lb) => if snd (lbuf_modified lb) then v = 1 /\ exists u, ext X_ex_show [VPtr G_bm 0] (bump_mem m bl blk lb) = Ok (u, m')
                            else v = 0 /\ m' = bump_mem m bl blk lb
    end.
  Lemma bm_call_ok h m v m' ls : tab_at m t -> slot_heap B m (nths t 0) h -> cell_at m G_xaw 0 ->
    (forall bl blk lb, h = Some (bl, blk, lb) -> bl <> G_xaw) -> bm_spec h m v m' ->
    eval call bm_call (mkst ls m) = Ok (VInt v, mkst ls m').
  Proof.
    intros Hm Hh Haw Hna Hsp. unfold bm_call, call. xcbn. change (VInt 0) with (VInt (Z.of_nat 0)).
    destruct h as [[[bl blk] lb]|]; cbn [slot_heap bm_spec] in *.
    - destruct Hh as (Hc & R & Hi & Hu). destruct (snd (lbuf_modified lb)) eqn:Hfl.
      + destruct Hsp as [-> [u Hshow]].
        rewrite (tr_bufs_modified_dirty ext m t 0 bl blk lb (VPtr G_bm 0) m' d fuel Hm Ht ltac:(lia) Hc R Hi ltac:(lia) Hfl (Hna _ _ _ eq_refl) Haw)
          by (try (right; eauto); unfold show_call; cbn [is_null]; eauto). reflexivity.
      + destruct Hsp as [-> ->].
        rewrite (tr_bufs_modified_clean ext m t 0 bl blk lb (VPtr G_bm 0) d fuel Hm Ht ltac:(lia) Hc R Hi ltac:(lia) Hfl). reflexivity.
    - destruct Hsp as [-> ->]. unfold call. change (S (S (S d))) with (S (S (S d))).
      rewrite (tr_bufs_modified_null ext m t 0 (VPtr G_bm 0) (S (S d)) fuel Hm Ht ltac:(lia) Hh). reflexivity.
  Qed.

  (* if (!xwa && bufs_modified(0, "buffer modified")) return 1;   -- ec_exec, ec_make *)
  Lemma guard_xwa_ok h m v m' ls fuel' : tab_at m t -> slot_heap B m (nths t 0) h -> cell_at m G_xaw 0 -> cell_at m G_xwa 0 ->
    (forall bl blk lb, h = Some (bl, blk, lb) -> bl <> G_xaw) -> bm_spec h m v m' ->
    exec call fuel' guard_xwa (mkst ls m) = if v =? 0 then ONormal (mkst ls m') else OReturn (VInt 1) (mkst ls m').
  Proof.
    intros Hm Hh Haw Hwa Hna Hsp. unfold guard_xwa. rewrite exec_if, eval_andalso.
    assert (Hx : eval call (ELNot (ELoad (Some I32) (EGlob G_xwa))) (mkst ls m) = Ok (VInt 1, mkst ls m)).
    { xcbn. rewrite (load_cell m G_xwa 0 Hwa). xcbn. reflexivity. }
    rewrite Hx. cbn [bind truth Z.eqb negb].
    rewrite (bm_call_ok h m v m' ls Hm Hh Haw Hna Hsp). cbn [bind truth]. destruct (v =? 0); cbn [negb b2z truth Z.eqb]; xstep; reflexivity.
  Qed.
  (* writeany: nothing is asked *)
  Lemma guard_xwa_wa m a ls fuel' : cell_at m G_xwa a -> int_ok a -> a <> 0 -> exec call fuel' guard_xwa (mkst ls m) = ONormal (mkst ls m).
  Proof.
    intros Hwa Ia Ha. unfold guard_xwa. rewrite exec_if. xcbn. rewrite (load_cell m G_xwa a Hwa). xcbn. rewrite (wrap_int_ok a Ia).
    destruct (Z.eqb_spec a 0) as [E|_]; [contradiction|]. cbn [negb b2z Z.eqb truth]. xstep. reflexivity.
  Qed.

  (* if (!strchr(cmd, '!')) if (xb && !xwa && bufs_modified(0, "buffer modified")) return 1;   -- ec_edit; local 1 is cmd *)
  Lemma guard_edit_ok h m v m' cb cmd l0 ltl fuel' : tab_at m t -> slot_heap B m (nths t 0) h -> cell_at m G_xaw 0 -> cell_at m G_xwa 0 ->
    (forall bl blk lb, h = Some (bl, blk, lb) -> bl <> G_xaw) -> bm_spec h m v m' ->
    str_at m cb cmd -> nonul cmd -> find_byte 33 cmd = None ->
    exec call fuel' guard_edit (mkst (l0 :: VPtr cb 0 :: ltl) m)
    = if v =? 0 then ONormal (mkst (l0 :: VPtr cb 0 :: ltl) m') else OReturn (VInt 1) (mkst (l0 :: VPtr cb 0 :: ltl) m').
  Proof.
    intros Hm Hh Haw Hwa Hna Hsp Hcmd Ncmd Hb. pose proof Ht as [Hl Hs]. unfold guard_edit. rewrite exec_if. xcbn.
    rewrite (strchr0 m cb cmd 33 33 eq_refl Hcmd Ncmd) by lia. rewrite Hb. xcbn. rewrite exec_if, eval_andalso, eval_andalso.
    set (ls := l0 :: VPtr cb 0 :: ltl).
    assert (Hxb : eval call (ECall F_ex_lbuf []) (mkst ls m) = Ok (cs_lb (nths t 0), mkst ls m)).
    { unfold call. xcbn. rewrite callx_S. cbn [nth_error cprog F_ex_lbuf cf_ex_lbuf fn_nparams fn_nlocals fn_body length Nat.eqb Nat.sub repeat app]. xstep.
      slot_off 0%nat 1%nat. rewrite (tab_load m t 0 1 (cs_lb (nths t 0)) _ Hm Hs) by (try lia; reflexivity).
      destruct h as [[[bl blk] lb]|]; cbn [slot_heap] in Hh; [destruct Hh as (-> & _)|rewrite Hh]; reflexivity. }
    rewrite Hxb. cbn [bind].
    destruct h as [[[bl blk] lb]|] eqn:Eh; cbn [slot_heap] in Hh.
    - destruct Hh as (Hc & Hrest). rewrite Hc. cbn [truth bind].
      assert (Hx : eval call (ELNot (ELoad (Some I32) (EGlob G_xwa))) (mkst ls m) = Ok (VInt 1, mkst ls m)).
      { xcbn. rewrite (load_cell m G_xwa 0 Hwa). xcbn. reflexivity. }
      rewrite Hx. cbn [bind truth Z.eqb negb b2z].
      rewrite (bm_call_ok (Some (bl, blk, lb)) m v m' ls Hm (conj Hc Hrest) Haw Hna Hsp). cbn [bind truth].
      destruct (v =? 0); cbn [negb b2z truth Z.eqb]; xstep; reflexivity.
    - (* no buffer at all (xb == NULL): nothing to lose *)
      rewrite Hh. cbn [truth bind Z.eqb negb b2z]. cbn [bm_spec] in Hsp. destruct Hsp as [-> ->]. xstep. reflexivity.
  Qed.
  Lemma guard_edit_bang m cb cmd k l0 ltl fuel' : str_at m cb cmd -> nonul cmd -> find_byte 33 cmd = Some k ->
    exec call fuel' guard_edit (mkst (l0 :: VPtr cb 0 :: ltl) m) = ONormal (mkst (l0 :: VPtr cb 0 :: ltl) m).
  Proof.
    intros Hcmd Ncmd Hb. unfold guard_edit. rewrite exec_if. xcbn.
    rewrite (strchr0 m cb cmd 33 33 eq_refl Hcmd Ncmd) by lia. rewrite Hb. xcbn. xstep. reflexivity.
  Qed.
  (* if (!xwa && strchr(cmd, '!') == NULL) if (bufs_modified(0, ...)) return 1;  bufs_switch(idx);   -- ec_buffer; local 1 is cmd *)
  Lemma guard_buffer_ok h m v m' cb cmd l0 ltl idx fuel' : tab_at m t -> slot_heap B m (nths t 0) h -> cell_at m G_xaw 0 -> cell_at m G_xwa 0 ->
    (forall bl blk lb, h = Some (bl, blk, lb) -> bl <> G_xaw) -> bm_spec h m v m' ->
    str_at m cb cmd -> nonul cmd -> find_byte 33 cmd = None ->
    exec call fuel' (guard_buffer idx) (mkst (l0 :: VPtr cb 0 :: ltl) m)
    = if v =? 0 then exec call fuel' (SExpr (ECall F_bufs_switch [ELocal idx])) (mkst (l0 :: VPtr cb 0 :: ltl) m')
      else OReturn (VInt 1) (mkst (l0 :: VPtr cb 0 :: ltl) m').
  Proof.
    intros Hm Hh Haw Hwa Hna Hsp Hcmd Ncmd Hb. unfold guard_buffer. rewrite exec_seq, exec_if, eval_andalso.
    set (ls := l0 :: VPtr cb 0 :: ltl).
    assert (Hx : eval call (ELNot (ELoad (Some I32) (EGlob G_xwa))) (mkst ls m) = Ok (VInt 1, mkst ls m)).
    { xcbn. rewrite (load_cell m G_xwa 0 Hwa). xcbn. reflexivity. }
    rewrite Hx. cbn [bind truth Z.eqb negb].
    assert (Hy : eval call (EPtrCmp OEq (EBuiltin BStrchr [ELocal 1; EConst 33]) (EConst 0)) (mkst ls m) = Ok (VInt 1, mkst ls m)).
    { unfold ls. xcbn. rewrite (strchr0 m cb cmd 33 33 eq_refl Hcmd Ncmd) by lia. rewrite Hb. xcbn. reflexivity. }
    rewrite Hy. cbn [bind truth Z.eqb negb b2z]. rewrite exec_if.
    rewrite (bm_call_ok h m v m' ls Hm Hh Haw Hna Hsp). cbn [truth]. destruct (v =? 0); cbn [negb]; xstep; reflexivity.
  Qed.
End Guards.

(* ---- the memory behind the local arrays of a function (malloc'ed blocks appended): what was there is still there *)
Lemma tab_at_app m x t : tab_at m t -> tab_at (m ++ x) t.
Proof. intro H. unfold tab_at in *. rewrite nth_error_app1; [exact H|apply nth_error_Some; congruence]. Qed.
Lemma cell_at_app m x g v : cell_at m g v -> cell_at (m ++ x) g v.
Proof. intro H. unfold cell_at in *. rewrite nth_error_app1; [exact H|apply nth_error_Some; congruence]. Qed.
Lemma str_at_app m x b s : str_at m b s -> str_at (m ++ x) b s.
Proof. intro H. unfold str_at in *. rewrite nth_error_app1; [exact H|apply nth_error_Some; congruence]. Qed.
Lemma slot_heap_app B m x cs h : slot_heap B m cs h -> slot_heap B (m ++ x) cs h.
Proof.
  destruct h as [[[bl blk] lb]|]; [|exact (fun H => H)]. intros (Hc & R & Hi & Hu). split; [exact Hc|]. split; [|split; assumption].
  apply (lbuf_rep_frame m _ bl blk lb R).
  - apply nth_error_app1. exact (rep_lt _ _ _ _ R).
  - intros bh hblk _ Hb. rewrite nth_error_app1; [exact Hb|apply nth_error_Some; congruence].
Qed.

Definition ret_of (o : outcome) : res (val * mem) :=
  match o with OReturn v st => Ok (v, memm st) | ONormal st => Ok (VUndef, memm st) | OErr x => Err x | _ => Err EShape end.

(* ec_exec(loc, cmd, arg, txt), for every table, heap and oracle (writeany off): behind its two local ints the guard runs -- bm_spec: v, m' --;
   when it answers non-zero (slot 0 holds a buffer reported modified) the function returns 1 at once: ex_pathexpand, cmd_exec, cmd_pipe,
   lbuf_edit are not reached; the rest of the function runs only on v = 0 *)
Theorem tr_ec_exec_head ext m t h loc cmd arg txt v m' B d fuel : B <= 2147483647 -> tab_at m t -> tab_ok t -> slot_heap B m (nths t 0) h ->
  cell_at m G_xaw 0 -> cell_at m G_xwa 0 -> (forall bl blk lb, h = Some (bl, blk, lb) -> bl <> G_xaw) ->
  let m0 := (m ++ [repeat VUndef 1]) ++ [repeat VUndef 1] in
  bm_spec ext h m0 v m' ->
  callx ext cprog fuel (S (S (S (S d)))) F_ec_exec [loc; cmd; arg; txt] m =
  if v =? 0 then ret_of (exec (callx ext cprog fuel (S (S (S d)))) fuel ec_exec_rest
                           (mkst [loc; cmd; arg; txt; VPtr (length m) 0; VPtr (S (length m)) 0; VUndef; VUndef; VUndef] m'))
  else Ok (VInt 1, m').
Proof.
  intros HB Hm Ht Hh Haw Hwa Hna m0 Hsp. rewrite callx_S. cbn [nth_error cprog F_ec_exec]. rewrite ec_exec_shape.
  cbn [fn_nparams fn_nlocals cf_ec_exec length Nat.eqb Nat.sub repeat app].
  rewrite exec_seq, exec_seq, exec_expr. xcbn. rewrite (malloc_ok m 1) by lia. xcbn. rewrite exec_expr. xcbn.
  rewrite (malloc_ok (m ++ [repeat VUndef (Z.to_nat 1)]) 1) by lia. xcbn. change (Z.to_nat 1) with 1%nat. fold m0.
  replace (length (m ++ [repeat VUndef 1])) with (S (length m)) by (rewrite app_length; cbn [length]; lia).
  rewrite exec_seq.
  rewrite (guard_xwa_ok ext t d fuel Ht B HB h m0 v m' _ fuel); try assumption;
    try (unfold m0; repeat first [apply tab_at_app | apply cell_at_app | apply slot_heap_app]; assumption).
  destruct (v =? 0); reflexivity.
Qed.

Theorem tr_ec_make_head ext m t h loc cmd arg txt v m' B d fuel : B <= 2147483647 -> tab_at m t -> tab_ok t -> slot_heap B m (nths t 0) h ->
  cell_at m G_xaw 0 -> cell_at m G_xwa 0 -> (forall bl blk lb, h = Some (bl, blk, lb) -> bl <> G_xaw) ->
  let m0 := m ++ [repeat VUndef 512] in
  bm_spec ext h m0 v m' ->
  callx ext cprog fuel (S (S (S (S d)))) F_ec_make [loc; cmd; arg; txt] m =
  if v =? 0 then ret_of (exec (callx ext cprog fuel (S (S (S d)))) fuel ec_make_rest (mkst [loc; cmd; arg; txt; VPtr (length m) 0; VUndef] m'))
  else Ok (VInt 1, m').
Proof.
  intros HB Hm Ht Hh Haw Hwa Hna m0 Hsp. rewrite callx_S. cbn [nth_error cprog F_ec_make]. rewrite ec_make_shape.
  cbn [fn_nparams fn_nlocals cf_ec_make length Nat.eqb Nat.sub repeat app].
  rewrite exec_seq, exec_expr. xcbn. rewrite (malloc_ok m 512) by lia. xcbn. change (Z.to_nat 512) with 512%nat. fold m0.
  rewrite exec_seq.
  rewrite (guard_xwa_ok ext t d fuel Ht B HB h m0 v m' _ fuel); try assumption;
    try (unfold m0; repeat first [apply tab_at_app | apply cell_at_app | apply slot_heap_app]; assumption).
  destruct (v =? 0); reflexivity.
Qed.

(* ec_edit(loc, cmd, arg, txt) without `!` in cmd: the guard is the FIRST thing behind the two local arrays -- before ex_plus and
   ex_pathexpand look at the argument, whatever the argument is (an empty one included) *)
Theorem tr_ec_edit_head ext m t h loc cb cmd arg txt v m' B d fuel : B <= 2147483647 -> tab_at m t -> tab_ok t -> slot_heap B m (nths t 0) h ->
  cell_at m G_xaw 0 -> cell_at m G_xwa 0 -> (forall bl blk lb, h = Some (bl, blk, lb) -> bl <> G_xaw) ->
  str_at m cb cmd -> nonul cmd -> find_byte 33 cmd = None ->
  let m0 := (m ++ [repeat VUndef 512]) ++ [repeat VUndef 128] in
  bm_spec ext h m0 v m' ->
  callx ext cprog fuel (S (S (S (S d)))) F_ec_edit [loc; VPtr cb 0; arg; txt] m =
  if v =? 0 then ret_of (exec (callx ext cprog fuel (S (S (S d)))) fuel ec_edit_rest
                           (mkst [loc; VPtr cb 0; arg; txt; VPtr (length m) 0; VPtr (S (length m)) 0; VUndef; VUndef; VUndef] m'))
  else Ok (VInt 1, m').
Proof.
  intros HB Hm Ht Hh Haw Hwa Hna Hcmd Ncmd Hb m0 Hsp. rewrite callx_S. cbn [nth_error cprog F_ec_edit]. rewrite ec_edit_shape.
  cbn [fn_nparams fn_nlocals cf_ec_edit length Nat.eqb Nat.sub repeat app].
  rewrite exec_seq, exec_expr. xcbn. rewrite (malloc_ok m 512) by lia. xcbn. rewrite exec_seq, exec_expr. xcbn.
  rewrite (malloc_ok (m ++ [repeat VUndef (Z.to_nat 512)]) 128) by lia. xcbn. change (Z.to_nat 512) with 512%nat. change (Z.to_nat 128) with 128%nat. fold m0.
  replace (length (m ++ [repeat VUndef 512])) with (S (length m)) by (rewrite app_length; cbn [length]; lia).
  rewrite exec_seq.
  rewrite (guard_edit_ok ext t d fuel Ht B HB h m0 v m' cb cmd loc _ fuel); try assumption;
    try (unfold m0; repeat first [apply tab_at_app | apply cell_at_app | apply slot_heap_app | apply str_at_app]; assumption).
  destruct (v =? 0); reflexivity.
Qed.
(* with `!`: no question is asked, the rest runs on the memory as it is *)
Theorem tr_ec_edit_bang ext m loc cb cmd arg txt k d fuel : str_at m cb cmd -> nonul cmd -> find_byte 33 cmd = Some k ->
  let m0 := (m ++ [repeat VUndef 512]) ++ [repeat VUndef 128] in
  callx ext cprog fuel (S (S (S (S d)))) F_ec_edit [loc; VPtr cb 0; arg; txt] m =
  ret_of (exec (callx ext cprog fuel (S (S (S d)))) fuel ec_edit_rest
            (mkst [loc; VPtr cb 0; arg; txt; VPtr (length m) 0; VPtr (S (length m)) 0; VUndef; VUndef; VUndef] m0)).
Proof.
  intros Hcmd Ncmd Hb m0. rewrite callx_S. cbn [nth_error cprog F_ec_edit]. rewrite ec_edit_shape.
  cbn [fn_nparams fn_nlocals cf_ec_edit length Nat.eqb Nat.sub repeat app].
  rewrite exec_seq, exec_expr. xcbn. rewrite (malloc_ok m 512) by lia. xcbn. rewrite exec_seq, exec_expr. xcbn.
  rewrite (malloc_ok (m ++ [repeat VUndef (Z.to_nat 512)]) 128) by lia. xcbn. change (Z.to_nat 512) with 512%nat. change (Z.to_nat 128) with 128%nat. fold m0.
  replace (length (m ++ [repeat VUndef 512])) with (S (length m)) by (rewrite app_length; cbn [length]; lia).
  rewrite exec_seq.
  rewrite (guard_edit_bang ext d fuel m0 cb cmd k loc _ fuel); [reflexivity| |exact Ncmd|exact Hb].
  unfold m0. repeat apply str_at_app. exact Hcmd.
Qed.

(* ec_buffer: the one call of bufs_switch in the function (ec_buffer_shape: calls_s = 1, and it sits in ec_buffer_sw) is behind the guard:
   without `!`, writeany off, on a buffer reported modified the statement returns 1 and bufs_switch is not reached *)
Theorem tr_ec_buffer_guard ext t h m v m' cb cmd l0 ltl B d fuel fuel' : tab_ok t -> B <= 2147483647 ->
  tab_at m t -> slot_heap B m (nths t 0) h -> cell_at m G_xaw 0 -> cell_at m G_xwa 0 ->
  (forall bl blk lb, h = Some (bl, blk, lb) -> bl <> G_xaw) -> bm_spec ext h m v m' ->
  str_at m cb cmd -> nonul cmd -> find_byte 33 cmd = None ->
  exec (callx ext cprog fuel (S (S (S d)))) fuel' ec_buffer_sw (mkst (l0 :: VPtr cb 0 :: ltl) m)
  = if v =? 0 then exec (callx ext cprog fuel (S (S (S d)))) fuel' (SExpr (ECall F_bufs_switch [ELocal 10])) (mkst (l0 :: VPtr cb 0 :: ltl) m')
    else OReturn (VInt 1) (mkst (l0 :: VPtr cb 0 :: ltl) m').
Proof.
  intros Ht HB Hm Hh Haw Hwa Hna Hsp Hcmd Ncmd Hb. destruct ec_buffer_shape as [-> _].
  apply (guard_buffer_ok ext t d fuel Ht B HB h m v m' cb cmd l0 ltl 10 fuel'); assumption.
Qed.
Print Assumptions tr_ec_edit_head.
Print Assumptions tr_ec_buffer_guard.

(* ------------------------------------------------------------------ bufs_modified(idx, msg) with autowrite off, all cases in one statement *)
Theorem tr_bufs_modified ext m t i h msg B d fuel : B <= 2147483647 -> tab_at m t -> tab_ok t -> (i < 16)%nat ->
  slot_heap B m (nths t i) h -> cell_at m G_xaw 0 -> ptr_val msg -> (forall bl blk lb, h = Some (bl, blk, lb) -> bl <> G_xaw) ->
  match h with
  | None => callx ext cprog fuel (S (S (S d))) F_bufs_modified [VInt (Z.of_nat i); msg] m = Ok (VInt 0, m)
  | Some (bl, blk, lb) =>
      if snd (lbuf_modified lb)
      then forall m2, show_call ext msg (bump_mem m bl blk lb) m2 ->
           callx ext cprog fuel (S (S (S d))) F_bufs_modified [VInt (Z.of_nat i); msg] m = Ok (VInt 1, m2)
      else callx ext cprog fuel (S (S (S d))) F_bufs_modified [VInt (Z.of_nat i); msg] m = Ok (VInt 0, bump_mem m bl blk lb)
  end.
Proof.
  intros HB Hm Ht Hi Hh Haw Hmsg Hna. destruct h as [[[bl blk] lb]|]; cbn [slot_heap] in Hh.
  - destruct Hh as (Hc & R & Hints & Hu). destruct (snd (lbuf_modified lb)) eqn:Hfl.
    + intros m2 Hshow. apply (tr_bufs_modified_dirty ext m t i bl blk lb msg m2 d fuel Hm Ht Hi Hc R Hints ltac:(lia) Hfl (Hna _ _ _ eq_refl) Haw Hmsg Hshow).
    + apply (tr_bufs_modified_clean ext m t i bl blk lb msg d fuel Hm Ht Hi Hc R Hints ltac:(lia) Hfl).
  - apply (tr_bufs_modified_null ext m t i msg (S (S d)) fuel Hm Ht Hi Hh).
Qed.
