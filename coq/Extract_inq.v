(* Extract_inq.v -- extraction of the C09 input-queue model and its token instance (ExtrOcamlBasic only). *)
From Coq Require Import List NArith ZArith Extraction ExtrOcamlBasic.
From NV Require Import InputQueue.
Definition all_types : nat * N * Z := (0%nat, 0%N, 0%Z).
Extraction "inq_model.ml" all_types tok_run capacity_pushes term_push term_push_append term_read step run.
