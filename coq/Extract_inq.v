(* Extract_inq.v -- extraction of the C09 input-queue model, its token instance and the raw-key
   tokenizer / interpreter of ViKeys.v (ExtrOcamlBasic only). *)
From Coq Require Import List NArith ZArith Extraction ExtrOcamlBasic.
From NV Require Import InputQueue MotDefs RegDefs ViDefs ViKeys.
Definition all_types : nat * N * Z := (0%nat, 0%N, 0%Z).
Extraction "inq_model.ml" all_types tok_run capacity_pushes term_push term_push_append term_read step run
  next_command tokens vi_exec vi_session vi_session_trace buf_of_bytes reg_get flat.
