(* DrawWinDefs.v -- the small window functions of vi.c / led.c next to DrawDefs.wfix (C19): the two scroll commands, the column flip
   of right-to-left lines (led_pos, vi_pos), the direction test led_offdir; and the TERMINAL LOG: the calls the drawing code of vi.c
   makes (term_pos, term_room, led_print, syn_context, vi_drawmsg, term_record, term_commit) as events, with `replay`, what a list of
   events does to the text rows of the window -- over the list operations of DrawDefs.v / TermEmu.v.  Executable; no proofs here
   (DrawWinProps.v, TrDraw*.v). *)
From Coq Require Import List ZArith NArith Bool.
From NV Require Import Bytes TermEmu DrawDefs.
Import ListNotations.
Local Open Scope Z_scope.

(* vi_scrollforward(cnt): (return value, xtop, xrow); len = lbuf_len(xb) *)
Definition scroll_fwd (len xtop xrow cnt : Z) : Z * Z * Z :=
  if len - 1 <=? xtop then (1, xtop, xrow)
  else let t := Z.min (len - 1) (xtop + cnt) in (0, t, Z.max xrow t).
(* vi_scrollbackward(cnt): h = xrows *)
Definition scroll_bwd (h xtop xrow cnt : Z) : Z * Z * Z :=
  if xtop =? 0 then (1, xtop, xrow)
  else let t := Z.max 0 (xtop - cnt) in (0, t, Z.min xrow (t + h - 1)).

(* led_pos(dir, pos, beg, end): the screen column of position pos in the window [beg, end): from the left edge for a left-to-right
   context, from the right edge for a right-to-left one *)
Definition flip_pos (dir pos b e : Z) : Z := if 0 <=? dir then pos - b else e - pos - 1.
(* vi_pos(s, pos) = led_pos(dir_context(s), pos, xleft, xleft + xcols) *)
Definition vi_pos (dir pos xleft cols : Z) : Z := flip_pos dir pos xleft (xleft + cols).
(* led_offdir(chrs, pos, i): +1 when character i+1 starts where character i ends, -1 when character i starts where character i+1
   ends, else 0; w i = ren_cwid(chrs[i], pos[i]) *)
Definition offdir (p0 w0 p1 w1 : Z) : Z :=
  if p0 + w0 =? p1 then 1 else if p1 + w1 =? p0 then -1 else 0.

(* ---------- the terminal log ---------- *)
Inductive tev :=
| TPos (r c : Z)                                   (* term_pos(r, c) *)
| TRoom (n : Z)                                    (* term_room(n) *)
| TPrint (s : bytes) (row left : Z) (syn : bytes)  (* led_print(s, row, left, syn): the text, the row, xleft, the file type name ("" when xhl is off) *)
| TCtx (c : Z)                                     (* syn_context(c) *)
| TMsg                                             (* vi_drawmsg() *)
| TRecord | TCommit.                               (* term_record() / term_commit() *)

(* a drawn row: the text, the left column, the syntax selector, the context attribute in force when it was drawn *)
Definition rowimg : Type := (bytes * Z * bytes * Z)%type.
Definition blank_img : rowimg := ([], 0, [], 0).
(* the screen: cursor row, context attribute, the h text rows *)
Record scr := mkScr { s_cur : Z; s_ctx : Z; s_rows : list rowimg }.

Definition step_ev (h : nat) (s : scr) (e : tev) : scr :=
  match e with
  | TPos r c => mkScr (if r <? 0 then s_cur s else r) (s_ctx s) (s_rows s)
  | TRoom n => mkScr (s_cur s) (s_ctx s) (term_room rowimg blank_img h n (Z.to_nat (s_cur s)) (s_rows s))
  | TPrint t row lft syn =>
      mkScr (if row <? 0 then s_cur s else row) (s_ctx s)
            (if (0 <=? row) && (row <? Z.of_nat h) then set_nth (Z.to_nat row) (t, lft, syn, s_ctx s) (s_rows s) else s_rows s)
  | TCtx c => mkScr (s_cur s) c (s_rows s)
  | TMsg | TRecord | TCommit => s
  end.
Definition replay (h : nat) (s : scr) (evs : list tev) : scr := fold_left (step_ev h) evs s.

(* every led_print of the log lands on a text row of the window (never on the message row, never above) *)
Definition print_inside (h : nat) (e : tev) : bool :=
  match e with TPrint _ row _ _ => (0 <=? row) && (row <? Z.of_nat h) | _ => true end.

(* ---------- what vi_drawrow draws ---------- *)
(* the text: the line, or the filler "~" past the end ("" on row 0 of the empty buffer) *)
Definition row_text (lines : list bytes) (i : Z) : bytes :=
  if (0 <=? i) && (i <? Z.of_nat (length lines)) then nth (Z.to_nat i) lines []
  else if i =? 0 then [] else [126%N].
(* the events of vi_drawrow(i): hl = conf_hlline(), ft = ex_filetype() *)
Definition drawrow_evs (lines : list bytes) (ft : bytes) (xtop xrow xleft xhll xhl hl : Z) (i : Z) : list tev :=
  (if negb (xhll =? 0) && (i =? xrow) then [TCtx hl] else []) ++
  [TPrint (row_text lines i) (i - xtop) xleft (if xhl =? 0 then [] else ft); TCtx 0].
(* the image of absolute row i *)
Definition row_img (lines : list bytes) (ft : bytes) (xrow xleft xhll xhl hl : Z) (i : nat) : rowimg :=
  (row_text lines (Z.of_nat i), xleft, (if xhl =? 0 then [] else ft),
   if negb (xhll =? 0) && (Z.of_nat i =? xrow) then hl else 0).
