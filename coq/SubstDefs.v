(* SubstDefs.v -- C14: executable model of ex.c's ec_substitute scan loop and replace(), of
   rset.c's re_read and of the delimiter counting of ex_arg for the s command; parametric in the
   matcher.  Spec vocabulary: segments (gap, matched text, replacement, stepped-over character).
   No proofs in this file. *)
From Coq Require Import List NArith ZArith Bool.
From NV Require Import Bytes UcDefs.
Import ListNotations.
Local Open Scope N_scope.

(* ------------------------------------------------------------------------------------------ *)
(* char *re_read(char **src): Some (text, rest) ; None when *src is the terminator *)
Fixpoint re_read_loop (delim : N) (s : bytes) : bytes * bytes :=
  match s with
  | [] => ([], [])                                            (* *s == 0: *src = s *)
  | c :: s1 =>
    if c =? delim then ([], s1)                               (* *src = s + 1 *)
    else if c =? 92 then
      match s1 with
      | [] => let (t, r) := re_read_loop delim s1 in (c :: t, r)       (* s[1] == 0: plain copy *)
      | d :: s2 =>                                            (* s[0] == '\\' && s[1] *)
        let (t, r) := re_read_loop delim s2 in
        if d =? delim then (d :: t, r) else (92 :: d :: t, r)          (* the backslash survives unless it escapes the delimiter *)
      end
    else let (t, r) := re_read_loop delim s1 in (c :: t, r)
  end.
Definition re_read (src : bytes) : option (bytes * bytes) :=
  match src with
  | [] => None
  | delim :: s => Some (re_read_loop delim s)
  end.

(* ec_substitute's argument handling:
     pat = re_read(&s); if (pat && *s) { s--; rep = re_read(&s); }
   the closing delimiter of the pattern is re-used as the opening delimiter of the replacement.
   Result: (pattern, replacement, what is left of the argument = the flags). *)
Definition subst_args (arg : bytes) : option bytes * option bytes * bytes :=
  match arg with
  | [] => (None, None, [])
  | delim :: s =>
    let (pat, rest) := re_read_loop delim s in
    match rest with
    | [] => (Some pat, None, [])
    | _ :: _ =>
      (* s-- : rest was reached either through the closing delimiter (then s[-1] is the delimiter)
         or, when the pattern ran to the end of the argument, rest is empty (handled above) *)
      let (rep, rest2) := re_read_loop delim rest in
      (Some pat, Some rep, rest2)
    end
  end.
Definition has_g (flags : bytes) : bool := existsb (N.eqb 103) flags.      (* strchr(s, 'g') *)

(* the remembered pattern and replacement (xkwd, xrep) *)
Record sstate := mk_sstate { st_kwd : option bytes; st_rep : bytes }.
(* what ec_substitute does with its argument: new state, and the pattern to compile (None = error return) *)
Definition subst_setup (st : sstate) (arg : bytes) : sstate * option bytes * bool :=
  let '(pat, rep, flags) := subst_args arg in
  let kwd := match pat with Some (c :: p) => Some (c :: p) | _ => st_kwd st end in     (* if (pat && pat[0]) ex_kwdset *)
  let xrep := match pat, rep with                                                      (* if (pat || rep) snprintf(xrep, ...) *)
              | None, None => st_rep st
              | _, Some r => r
              | _, None => []
              end in
  (mk_sstate kwd xrep, kwd, has_g flags).

(* ex_arg for the s command: copies the delimiter, then text up to and including the third
   delimiter (a backslash protects the next byte), then up to a bar, a double quote or newline.
   Result: (argument, rest of the command line) *)
Fixpoint ex_arg_tail (src : bytes) : bytes * bytes :=
  match src with
  | [] => ([], [])
  | c :: s1 =>
    if (c =? 10) || (c =? 124) then ([], s1)
    else if c =? 34 then ([], [])                 (* a comment runs to the end of the line (single-line commands only) *)
    else if c =? 92 then
      match s1 with
      | [] => let (a, r) := ex_arg_tail s1 in (c :: a, r)
      | d :: s2 => let (a, r) := ex_arg_tail s2 in (c :: d :: a, r)
      end
    else let (a, r) := ex_arg_tail s1 in (c :: a, r)
  end.
Fixpoint ex_arg_delims (delim : N) (cnt : nat) (src : bytes) : bytes * bytes :=
  match cnt with
  | O => ex_arg_tail src
  | S cnt' =>
    match src with
    | [] => ([], [])
    | c :: s1 =>
      if c =? 10 then ex_arg_tail src
      else
        let cnt1 := if c =? delim then cnt' else cnt in
        if c =? 92 then
          match s1 with
          | [] => let (a, r) := ex_arg_delims delim cnt1 s1 in (c :: a, r)
          | d :: s2 => let (a, r) := ex_arg_delims delim cnt1 s2 in (c :: d :: a, r)
          end
        else let (a, r) := ex_arg_delims delim cnt1 s1 in (c :: a, r)
    end
  end.
Fixpoint skip_blanks (s : bytes) : bytes :=
  match s with c :: s' => if (c =? 32) || (c =? 9) then skip_blanks s' else s | [] => [] end.
Definition ex_arg_s (src : bytes) : bytes * bytes :=
  let src := skip_blanks src in
  match src with
  | [] => ([], [])
  | delim :: s1 =>
    if (delim =? 10) || (delim =? 124) || (delim =? 92) || (delim =? 34) then ex_arg_tail src
    else let (a, r) := ex_arg_delims delim 2 s1 in (delim :: a, r)
  end.

(* ------------------------------------------------------------------------------------------ *)
Definition grp := (Z * Z)%type.
Definition unset : grp := ((-1)%Z, (-1)%Z).

(* sbuf_mem(dst, ln + so, eo - so): None = negative size or a range outside the string *)
Definition grp_text (ln : bytes) (g : grp) : option bytes :=
  let (so, eo) := g in
  let len := (eo - so)%Z in
  if (len <? 0)%Z then None
  else if (len =? 0)%Z then Some []
  else if (so <? 0)%Z || (Z.of_nat (length ln) <? eo)%Z then None
  else Some (firstn (Z.to_nat len) (skipn (Z.to_nat so) ln)).

Definition is_digit (c : N) : bool := (48 <=? c) && (c <=? 57).
Definition opt_app (a : bytes) (b : option bytes) : option bytes :=
  match b with Some x => Some (a ++ x) | None => None end.

(* static void replace(struct sbuf *dst, char *rep, char *ln, int *offs): the text appended *)
Fixpoint expand (rep ln : bytes) (offs : list grp) : option bytes :=
  match rep with
  | [] => Some []
  | c :: rep1 =>
    if c =? 92 then
      match rep1 with
      | [] => Some [c]                                              (* rep[1] == 0: an ordinary byte *)
      | d :: rep2 =>
        if is_digit d then
          match grp_text ln (nth (N.to_nat (d - 48)) offs unset) with
          | Some t => opt_app t (expand rep2 ln offs)
          | None => None
          end
        else opt_app [d] (expand rep2 ln offs)
      end
    else opt_app [c] (expand rep1 ln offs)
  end.

(* l = MAX(1, uc_len(ln)) bytes are copied after an empty match: (copied, rest); None = past the terminator *)
Definition step_char (ln : bytes) : option (bytes * bytes) :=
  let l := Nat.max 1 (uc_len ln) in
  if (length ln <? l)%nat then None else Some (firstn l ln, skipn l ln).

Inductive sres := Unchanged | Changed (new : bytes) | SOOB | SFuel.

Section Scan.
  (* rstr_find(re, ln, 16, offs, notbol ? RE_NOTBOL : 0) on a suffix of the line: the group
     offsets relative to that suffix, or None *)
  Variable find : bytes -> bool -> option (list grp).
  Variable rep : bytes.          (* xrep *)
  Variable gflag : bool.         (* strchr(s, 'g') *)

  (* one match on the suffix ln: (text appended to r, rest of the line); None = bad offsets *)
  Definition one_match (ln : bytes) (offs : list grp) : option (bytes * bytes) :=
    let (so, eo) := nth 0 offs unset in
    if (so <? 0)%Z || (eo <? so)%Z || (Z.of_nat (length ln) <? eo)%Z then None else
    match expand rep ln offs with
    | None => None
    | Some t =>
      let pre := firstn (Z.to_nat so) ln in                   (* sbuf_mem(r, ln, offs[0]) *)
      let ln1 := skipn (Z.to_nat eo) ln in                    (* ln += offs[1] *)
      if (eo <=? so)%Z then                                   (* if (offs[1] <= offs[0]): zero-length match *)
        match step_char ln1 with
        | None => None
        | Some (c, ln2) => Some (pre ++ t ++ c, ln2)
        end
      else Some (pre ++ t, ln1)
    end.

  Definition stops (ln : bytes) : bool :=                     (* !*ln || *ln == '\n' || !strchr(s, 'g') *)
    match ln with [] => true | c :: _ => (c =? 10) || negb gflag end.

  (* the while loop from a suffix: Some (rewritten suffix, number of replacements) *)
  Fixpoint scan (fuel : nat) (notbol : bool) (ln : bytes) : option (option (bytes * nat)) :=
    match fuel with
    | O => None                                               (* out of fuel *)
    | S f =>
      match find ln notbol with
      | None => Some (Some (ln, 0%nat))                       (* sbuf_str(r, ln) *)
      | Some offs =>
        match one_match ln offs with
        | None => Some None                                   (* out of bounds *)
        | Some (out, ln2) =>
          if stops ln2 then Some (Some (out ++ ln2, 1%nat))
          else match scan f true ln2 with
               | Some (Some (out2, k)) => Some (Some (out ++ out2, S k))
               | x => x
               end
        end
      end
    end.

  (* the body of  for (i = beg; i < end; i++)  for one line (with its newline) *)
  Definition subst_line (line : bytes) : sres :=
    match scan (S (length line)) false line with
    | None => SFuel
    | Some None => SOOB
    | Some (Some (_, O)) => Unchanged                         (* r == NULL: no lbuf_edit *)
    | Some (Some (new, S _)) => Changed new
    end.
End Scan.

(* ------------------------------------------------------------------------------------------ *)
(* the property's vocabulary: a segment is (gap before the match, matched text, its replacement,
   the character stepped over after an empty match) *)
Definition seg := (bytes * bytes * bytes * bytes)%type.
Definition seg_old (s : seg) : bytes := let '(g, m, _, c) := s in g ++ m ++ c.
Definition seg_new (s : seg) : bytes := let '(g, _, r, c) := s in g ++ r ++ c.
Definition flat_old (l : list seg) : bytes := flat_map seg_old l.
Definition flat_new (l : list seg) : bytes := flat_map seg_new l.

(* the successive matches of one scan: Chain notbol suffix segments tail *)
Section Chain.
  Variable find : bytes -> bool -> option (list grp).
  Variable rep : bytes.
  Variable gflag : bool.

  (* s is the segment cut off the suffix ln by the match offs; rest is what is searched next *)
  Definition match_seg (ln : bytes) (offs : list grp) (s : seg) (rest : bytes) : Prop :=
    exists so eo t c,
      nth 0 offs unset = (so, eo) /\ (0 <= so <= eo)%Z /\ (eo <= Z.of_nat (length ln))%Z /\
      expand rep ln offs = Some t /\
      s = (firstn (Z.to_nat so) ln, firstn (Z.to_nat (eo - so)) (skipn (Z.to_nat so) ln), t, c) /\
      skipn (Z.to_nat eo) ln = c ++ rest /\
      (* one character is stepped over exactly when the match is empty *)
      (if (eo <=? so)%Z then step_char (skipn (Z.to_nat eo) ln) = Some (c, rest) else c = []).

  Inductive Chain : bool -> bytes -> list seg -> bytes -> Prop :=
  | ChEnd : forall nb ln, find ln nb = None -> Chain nb ln [] ln
  | ChLast : forall nb ln offs s rest,
      find ln nb = Some offs -> match_seg ln offs s rest -> stops gflag rest = true -> Chain nb ln [s] rest
  | ChStep : forall nb ln offs s rest segs tail,
      find ln nb = Some offs -> match_seg ln offs s rest -> stops gflag rest = false ->
      Chain true rest segs tail ->                      (* every later search is made with RE_NOTBOL *)
      Chain nb ln (s :: segs) tail.
End Chain.
