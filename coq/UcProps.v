(* UcProps.v -- proofs for C16: the helpers of uc.c agree with code-point segmentation. *)
From Coq Require Import List NArith ZArith Lia Bool ZifyN ZifyBool ZifyNat.
From NV Require Import Bytes UcDefs UcSpec.
Import ListNotations.
Local Open Scope N_scope.
Ltac Zify.zify_post_hook ::= Z.div_mod_to_equations.

(* ---------- byte classes, by exhaustive computation over 0..255 ---------- *)
Definition cls_ascii_b (b : N) : bool :=
  implb (b <? 128) (negb (bit b 128) && negb (is_cont b) && negb (is_lead b) && negb (bit b 128 && bit b 64)).
Definition cls_cont_b (b : N) : bool :=
  implb ((128 <=? b) && (b <? 192))
        (bit b 128 && is_cont b && negb (is_lead b) && negb (bit b 128 && bit b 64) && (N.land b 63 =? b - 128)).
Definition cls_lead2_b (b : N) : bool :=
  implb ((192 <=? b) && (b <? 224))
        (bit b 128 && bit b 64 && negb (bit b 32) && is_lead b && negb (is_cont b) && (N.land b 31 =? b - 192)).
Definition cls_lead3_b (b : N) : bool :=
  implb ((224 <=? b) && (b <? 240))
        (bit b 128 && bit b 64 && bit b 32 && negb (bit b 16) && is_lead b && negb (is_cont b) && (N.land b 15 =? b - 224)).
Definition cls_lead4_b (b : N) : bool :=
  implb ((240 <=? b) && (b <? 248))
        (bit b 128 && bit b 64 && bit b 32 && bit b 16 && negb (bit b 8) && is_lead b && negb (is_cont b) && (N.land b 7 =? b - 240)).

Lemma cls_ascii b : b < 128 ->
  bit b 128 = false /\ is_cont b = false /\ is_lead b = false /\ (bit b 128 && bit b 64) = false.
Proof.
  intro H. assert (Hb : b < 256) by lia.
  pose proof (byte_sweep cls_ascii_b ltac:(vm_compute; reflexivity) b Hb) as K. unfold cls_ascii_b in K.
  assert (E : (b <? 128) = true) by (apply N.ltb_lt; lia). rewrite E in K. cbn [implb] in K.
  repeat (apply andb_prop in K; destruct K as [K ?]).
  repeat match goal with H : negb _ = true |- _ => apply negb_true_iff in H end. auto.
Qed.
Lemma cls_cont b : 128 <= b < 192 ->
  bit b 128 = true /\ is_cont b = true /\ is_lead b = false /\ (bit b 128 && bit b 64) = false /\ N.land b 63 = b - 128.
Proof.
  intro H. assert (Hb : b < 256) by lia.
  pose proof (byte_sweep cls_cont_b ltac:(vm_compute; reflexivity) b Hb) as K. unfold cls_cont_b in K.
  assert (E : ((128 <=? b) && (b <? 192)) = true) by lia. rewrite E in K. cbn [implb] in K.
  repeat (apply andb_prop in K; destruct K as [K ?]).
  repeat match goal with H : negb _ = true |- _ => apply negb_true_iff in H end.
  match goal with H : (_ =? _) = true |- _ => apply N.eqb_eq in H end. auto.
Qed.
Lemma cls_lead2 b : 192 <= b < 224 ->
  (bit b 128 && bit b 64) = true /\ bit b 32 = false /\ is_lead b = true /\ is_cont b = false /\ N.land b 31 = b - 192 /\ bit b 128 = true.
Proof.
  intro H. assert (Hb : b < 256) by lia.
  pose proof (byte_sweep cls_lead2_b ltac:(vm_compute; reflexivity) b Hb) as K. unfold cls_lead2_b in K.
  assert (E : ((192 <=? b) && (b <? 224)) = true) by lia. rewrite E in K. cbn [implb] in K.
  repeat (apply andb_prop in K; destruct K as [K ?]).
  repeat match goal with H : negb _ = true |- _ => apply negb_true_iff in H end.
  match goal with H : (_ =? _) = true |- _ => apply N.eqb_eq in H end.
  repeat split; auto. rewrite K. assumption.
Qed.
Lemma cls_lead3 b : 224 <= b < 240 ->
  (bit b 128 && bit b 64) = true /\ bit b 32 = true /\ bit b 16 = false /\ is_lead b = true /\ is_cont b = false /\ N.land b 15 = b - 224 /\ bit b 128 = true.
Proof.
  intro H. assert (Hb : b < 256) by lia.
  pose proof (byte_sweep cls_lead3_b ltac:(vm_compute; reflexivity) b Hb) as K. unfold cls_lead3_b in K.
  assert (E : ((224 <=? b) && (b <? 240)) = true) by lia. rewrite E in K. cbn [implb] in K.
  repeat (apply andb_prop in K; destruct K as [K ?]).
  repeat match goal with H : negb _ = true |- _ => apply negb_true_iff in H end.
  match goal with H : (_ =? _) = true |- _ => apply N.eqb_eq in H end.
  repeat split; auto. rewrite K. assumption.
Qed.
Lemma cls_lead4 b : 240 <= b < 248 ->
  (bit b 128 && bit b 64) = true /\ bit b 32 = true /\ bit b 16 = true /\ bit b 8 = false /\ is_lead b = true /\ is_cont b = false /\ N.land b 7 = b - 240 /\ bit b 128 = true.
Proof.
  intro H. assert (Hb : b < 256) by lia.
  pose proof (byte_sweep cls_lead4_b ltac:(vm_compute; reflexivity) b Hb) as K. unfold cls_lead4_b in K.
  assert (E : ((240 <=? b) && (b <? 248)) = true) by lia. rewrite E in K. cbn [implb] in K.
  repeat (apply andb_prop in K; destruct K as [K ?]).
  repeat match goal with H : negb _ = true |- _ => apply negb_true_iff in H end.
  match goal with H : (_ =? _) = true |- _ => apply N.eqb_eq in H end.
  repeat split; auto. rewrite K. assumption.
Qed.

(* ---------- the shape of an encoded scalar ---------- *)
Inductive enc_shape (c : N) : bytes -> Prop :=
| Enc1 : 0 < c < 128 -> enc_shape c [c]
| Enc2 l t : 128 <= c < 2048 -> l = 192 + c / 64 -> t = 128 + c mod 64 ->
    194 <= l < 224 -> 128 <= t < 192 -> enc_shape c [l; t]
| Enc3 l t1 t2 : 2048 <= c < 65536 -> l = 224 + c / 4096 -> t1 = 128 + (c / 64) mod 64 -> t2 = 128 + c mod 64 ->
    224 <= l < 240 -> 128 <= t1 < 192 -> 128 <= t2 < 192 -> enc_shape c [l; t1; t2]
| Enc4 l t1 t2 t3 : 65536 <= c <= 1114111 -> l = 240 + c / 262144 -> t1 = 128 + (c / 4096) mod 64 ->
    t2 = 128 + (c / 64) mod 64 -> t3 = 128 + c mod 64 ->
    240 <= l < 245 -> 128 <= t1 < 192 -> 128 <= t2 < 192 -> 128 <= t3 < 192 -> enc_shape c [l; t1; t2; t3].

Lemma encode_shape c : scalar c -> enc_shape c (encode c).
Proof.
  intros (H0 & H1 & _). unfold encode.
  destruct (c <? 128) eqn:E1. { apply Enc1. lia. }
  destruct (c <? 2048) eqn:E2. { eapply Enc2; try reflexivity; lia. }
  destruct (c <? 65536) eqn:E3. { eapply Enc3; try reflexivity; lia. }
  eapply Enc4; try reflexivity; lia.
Qed.

(* ---------- uc_len and uc_code on an encoded scalar followed by anything ---------- *)
Lemma uc_len_code_encode c rest : scalar c ->
  uc_len (encode c ++ rest) = length (encode c) /\ uc_code (encode c ++ rest) = c.
Proof.
  intro Hs. destruct (encode_shape c Hs) as [H | l t H El Et Hl Ht | l t1 t2 H El E1 E2 Hl H1 H2 | l t1 t2 t3 H El E1 E2 E3 Hl H1 H2 H3].
  - destruct (cls_ascii c ltac:(lia)) as (B1 & _ & _ & B2).
    unfold uc_len, uc_code, uc_len_b. cbn [app hd0 nthb nth length]. rewrite B2. cbn [negb].
    split; [|reflexivity]. destruct (0 <? c) eqn:E; [reflexivity|lia].
  - destruct (cls_lead2 l ltac:(lia)) as (B1 & B2 & _ & _ & B3 & _).
    destruct (cls_cont t ltac:(lia)) as (_ & _ & _ & _ & C1).
    unfold uc_len, uc_code, uc_len_b. cbn [app hd0 nthb nth length]. rewrite B1, B2. cbn [negb].
    split; [reflexivity|]. rewrite B3, C1.
    rewrite lor_shiftl_add by (change (2 ^ 6) with 64; lia). change (2 ^ 6) with 64. lia.
  - destruct (cls_lead3 l ltac:(lia)) as (B1 & B2 & B3 & _ & _ & B4 & _).
    destruct (cls_cont t1 ltac:(lia)) as (_ & _ & _ & _ & C1).
    destruct (cls_cont t2 ltac:(lia)) as (_ & _ & _ & _ & C2).
    unfold uc_len, uc_code, uc_len_b. cbn [app hd0 nthb nth length]. rewrite B1, B2, B3. cbn [negb].
    split; [reflexivity|]. rewrite B4, C1, C2.
    change 12 with (6 + 6). rewrite lor_shiftl_shiftl.
    rewrite (lor_shiftl_add (l - 224) (t1 - 128) 6) by (change (2 ^ 6) with 64; lia).
    rewrite lor_shiftl_add by (change (2 ^ 6) with 64; lia). change (2 ^ 6) with 64. lia.
  - destruct (cls_lead4 l ltac:(lia)) as (B1 & B2 & B3 & B4 & _ & _ & B5 & _).
    destruct (cls_cont t1 ltac:(lia)) as (_ & _ & _ & _ & C1).
    destruct (cls_cont t2 ltac:(lia)) as (_ & _ & _ & _ & C2).
    destruct (cls_cont t3 ltac:(lia)) as (_ & _ & _ & _ & C3).
    unfold uc_len, uc_code, uc_len_b. cbn [app hd0 nthb nth length]. rewrite B1, B2, B3, B4. cbn [negb].
    split; [reflexivity|]. rewrite B5, C1, C2, C3.
    change 18 with (6 + 12). rewrite lor_shiftl_shiftl.
    change 12 with (6 + 6). rewrite lor_shiftl_shiftl.
    rewrite (lor_shiftl_add (l - 240) (t1 - 128) 6) by (change (2 ^ 6) with 64; lia).
    rewrite (lor_shiftl_add _ (t2 - 128) 6) by (change (2 ^ 6) with 64; lia).
    rewrite lor_shiftl_add by (change (2 ^ 6) with 64; lia). change (2 ^ 6) with 64. lia.
Qed.
