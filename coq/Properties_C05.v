(* Properties_C05.v -- C05 (proved part): capacity arithmetic of the fixed-size buffers that input
   can reach, on the models of CapDefs.v (checked reads and writes: an access outside a buffer is a
   distinct result, never a default value).  Statements only; every proof is `exact <lemma>`;
   Print Assumptions under each.  What is NOT proved here -- that no command stream crashes the real
   process -- is explored under sanitizers by tools/props/c05.py and labelled as exploration. *)
From Coq Require Import List NArith ZArith.
From NV Require Import Bytes GenConsts GenCap GenExCmds CapDefs CapProps CapDefs2 CapProps2 CapDefs3 CapProps3.
Import ListNotations.

(* ex_loc, ex_cmd and ex_arg, each writing into a fresh buffer of EXLEN bytes, started at any
   position i of any byte string ln shorter than EXLEN (no assumption on its content), for any
   command name (c0, c1) handed to ex_arg: the result is a value -- so no byte was written at an
   index >= EXLEN, no byte was read beyond the terminator of ln and the loops ended --, the read
   position stays inside ln, and the bytes written (terminator included) number at most the bytes
   consumed plus one, hence at most EXLEN *)
Theorem C05_ex_parts_fit : forall ln i c0 c1, (Z.of_nat (length ln) < EXLEN)%Z -> (i <= length ln)%nat ->
  (exists i' w, ex_loc ln i (newbuf excap) = Ok (i', w) /\ (i <= i')%nat /\ (i' <= length ln)%nat /\
                (wlen w <= i' - i + 1)%nat /\ (Z.of_nat (wlen w) <= EXLEN)%Z) /\
  (exists i' w, ex_cmd ln i (newbuf excap) = Ok (i', w) /\ (i <= i')%nat /\ (i' <= length ln)%nat /\
                (wlen w <= i' - i + 1)%nat /\ (wlen w <= 18)%nat /\ (Z.of_nat (wlen w) <= EXLEN)%Z) /\
  (exists i' w, ex_arg ln i (newbuf excap) c0 c1 = Ok (i', w) /\ (i <= i')%nat /\ (i' <= length ln)%nat /\
                (wlen w <= i' - i + 1)%nat /\ (Z.of_nat (wlen w) <= EXLEN)%Z).
Proof. exact ex_parts_fit. Qed.
Print Assumptions C05_ex_parts_fit.

(* ex_exec rejects, without parsing, a command line of EXLEN bytes or more *)
Theorem C05_ex_exec_guard : forall ln, (EXLEN <= Z.of_nat (cstrlen ln))%Z -> ex_exec ln = TooLong.
Proof. exact ex_exec_guard. Qed.
Print Assumptions C05_ex_exec_guard.

(* the whole parse loop of ex_exec (ex_loc, ex_cmd, ex_idx, ex_arg, the scan of ex_txt, repeated
   until the end of the line) on any C string: rejected as too long, or parsed to the end with no
   out-of-bounds access, and the loop terminates (the fuel, length + 1 iterations, is not used up) *)
Theorem C05_ex_exec_safe : forall ln, nonul ln ->
  match ex_exec ln with
  | TooLong => (EXLEN <= Z.of_nat (length ln))%Z
  | Parsed r => (Z.of_nat (length ln) < EXLEN)%Z /\ exists l, r = Ok l
  end.
Proof. exact ex_exec_safe. Qed.
Print Assumptions C05_ex_exec_safe.

(* term.c: for every sequence of term_push (any non-negative length), term_read (any outcome of the
   one-byte refill) and term_cmd calls from the initial state, no store lands outside ibuf[IBUFSZ],
   no load outside its filled part, and the counters satisfy 0 <= pos <= cnt <= IBUFSZ *)
Theorem C05_term_push_bounded : forall ops, Forall op_ok ops ->
  exists t, t_run t_init ops = Ok t /\ (0 <= ibuf_pos t)%Z /\ (ibuf_pos t <= ibuf_cnt t)%Z /\ (ibuf_cnt t <= IBUFSZ)%Z.
Proof. exact term_push_bounded. Qed.
Print Assumptions C05_term_push_bounded.

(* a push inserts exactly min(n, room left) new bytes in front of the unread keys; the read position stays *)
Theorem C05_term_push_clipped : forall t n t', tinv t -> (0 <= n)%Z -> t_step t (TPush n) = Ok t' ->
  ibuf_pos t' = ibuf_pos t /\ ibuf_cnt t' = (ibuf_cnt t + Z.min n (IBUFSZ - ibuf_cnt t))%Z /\
  (ibuf_cnt t' <= IBUFSZ)%Z /\ icmd_pos t' = icmd_pos t.
Proof. exact term_push_clipped. Qed.
Print Assumptions C05_term_push_clipped.

(* recording into icmd[ICMDSZ] never stores past it, for the same operation sequences *)
Theorem C05_icmd_bounded : forall ops, Forall op_ok ops ->
  exists t, t_run t_init ops = Ok t /\ (0 <= icmd_pos t)%Z /\ (icmd_pos t <= ICMDSZ)%Z.
Proof. exact icmd_bounded. Qed.
Print Assumptions C05_icmd_bounded.

(* ex_region (as repaired: the address-less path checks xrow): for every address string, every
   current line xrow, every buffer length len >= 0 and ANY function in place of ex_lineno (any
   integer, any new position, even a failing one), a region that is not refused satisfies
   0 <= beg <= end <= len *)
Theorem C05_region_in_range : forall len, (0 <= len)%Z ->
  forall (lineno : Z -> bytes -> nat -> res (Z * nat)) loc xrow b e x,
  ex_region len lineno loc xrow = Ok (ROk b e, x) -> (0 <= b /\ b <= e /\ e <= len)%Z.
Proof. exact ex_region_range. Qed.
Print Assumptions C05_region_in_range.

(* ex_region reads the address string only up to its terminator and its loop terminates, provided
   ex_lineno leaves the position inside the string ... *)
Theorem C05_region_reads_safe : forall len (lineno : Z -> bytes -> nat -> res (Z * nat)),
  (forall xrow s i, (i <= length s)%nat ->
     exists n j, lineno xrow s i = Ok (n, j) /\ (i <= j)%nat /\ (j <= length s)%nat) ->
  forall loc xrow, exists r, ex_region len lineno loc xrow = Ok r.
Proof. exact ex_region_total. Qed.
Print Assumptions C05_region_reads_safe.

(* ... which the model of ex_lineno does, for any mark table that stores nothing under the
   terminator byte (markidx(0) = -1) and any search that reports a position inside the string *)
Theorem C05_lineno_stays_inside : forall len mark search, mark 0%N = None ->
  (forall xrow s i, (i < length s)%nat -> (i <= snd (search xrow s i))%nat /\ (snd (search xrow s i) <= length s)%nat) ->
  forall xrow s i, (i <= length s)%nat ->
  exists n j, ex_lineno len mark search xrow s i = Ok (n, j) /\ (i <= j)%nat /\ (j <= length s)%nat.
Proof. exact ex_lineno_ok. Qed.
Print Assumptions C05_lineno_stays_inside.

(* ec_set: tok[EXLEN] (cutword) and opt[EXLEN] (the three strcpy calls) hold what an argument
   shorter than EXLEN can put into them *)
Theorem C05_ec_set_fits : forall arg, (length arg < excap)%nat -> exists r, ec_set_bufs arg = Ok r.
Proof. exact ec_set_bufs_spec. Qed.
Print Assumptions C05_ec_set_fits.

(* cutword and ex_plus into any buffer with more room than what is left of the source *)
Theorem C05_cutword_fits : forall s i w, (i <= length s)%nat -> (length s < i + wroom w)%nat ->
  exists i' w', cutword s i w = Ok (i', w') /\ (i <= i')%nat /\ (i' <= length s)%nat /\
                (wlen w' <= wlen w + (i' - i) + 1)%nat /\ wcap w' = wcap w.
Proof. exact cutword_spec. Qed.
Print Assumptions C05_cutword_fits.

Theorem C05_ex_plus_fits : forall s i w, (i <= length s)%nat -> (length s < i + wroom w)%nat ->
  exists i' w', ex_plus s i w = Ok (i', w') /\ (i <= i')%nat /\ (i' <= length s)%nat /\
                (wlen w' <= wlen w + (i' - i) + 1)%nat.
Proof. exact ex_plus_spec. Qed.
Print Assumptions C05_ex_plus_fits.

(* non-vacuity: the hypotheses are satisfiable and the models compute on a literal command line *)
Example C05_nonvacuous :
  let ln := [49; 44; 50; 115; 47; 97; 47; 98; 47; 124; 112]%N in      (* 1,2s/a/b/|p *)
  (Z.of_nat (length ln) < EXLEN)%Z /\ nonul ln /\
  (match ex_exec ln with Parsed (Ok [p1; p2]) => p_loc p1 = [49; 44; 50]%N /\ p_cmd p1 = [115]%N /\ p_cmd p2 = [112]%N | _ => False end) /\
  Forall op_ok [TPush 5000; TRead None; TCmd; TRead (Some 1)]%Z /\
  ex_region 5 (ex_lineno 5 (fun _ => None) (fun _ _ i => (None, i))) [50; 44; 52]%N 0 = Ok (ROk 1 4, 0%Z).
Proof.
  cbv zeta. split; [reflexivity|]. split.
  { repeat constructor. }
  split; [vm_compute; repeat split; reflexivity|]. split; [|reflexivity].
  repeat constructor; cbn; try exact I; discriminate.
Qed.

(* the model has teeth: without the guard a line of EXLEN address bytes overflows loc[EXLEN]; without
   the clip a push overflows ibuf *)
Example C05_guard_needed : ex_exec_unguarded (repeat 49%N excap) = OobWr.
Proof. vm_compute. reflexivity. Qed.
Example C05_clip_needed : t_step_noclip t_init (TPush (IBUFSZ + 1)) = OobWr.
Proof. vm_compute. reflexivity. Qed.

(* ======================================================================================== *)
(* second part (CapDefs2.v): the small fixed tables that a byte of input indexes or fills     *)

(* (1) reg.c / ex.c REG(): for every string of bytes, REG(s) reads inside the string and yields a
   value in 0..255 (0x80 | c included) ... *)
Theorem C05_REG_is_a_byte : forall s, Forall (fun b => (b < 256)%N) s ->
  exists c, REG s = Ok c /\ (0 <= c < 256)%Z.
Proof. exact REG_byte. Qed.
Print Assumptions C05_REG_is_a_byte.

(* ... and for every register name c in 0..255 (what REG(), an (unsigned char) cast, 0x80 | key or a
   key read from the terminal can be), whatever registers are set and whether or not the text is
   line-wise, reg_put -- the shift of the numbered registers, the upper-case append, tolower() of the
   name -- and reg_get index bufs[REGSZ] and lnmode[LNMODESZ] only inside (no OobRd/OobWr);
   every slot written is inside both tables *)
Theorem C05_reg_index_in_range : forall (present : Z -> bool) c lnnl, (0 <= c < 256)%Z ->
  (exists l, reg_put present c lnnl = Ok l /\ Forall (fun i => (0 <= i < REGSZ)%Z /\ (0 <= i < LNMODESZ)%Z) l) /\
  (exists b, reg_get present c = Ok b).
Proof. intros p c l H. split; [exact (reg_put_in_range p c l H)|exact (reg_get_ok p c H)]. Qed.
Print Assumptions C05_reg_index_in_range.

(* (2) lbuf.c marks: markidx of ANY integer is -1 or inside mark[NMARKS]; lbuf_mark and lbuf_jump
   (which guard the -1) touch mark[]/mark_off[] only inside, for every mark character; the unguarded
   uses (constant marks '*' and '^', the NMARKS_BASE loop of lbuf_opt) are inside too *)
Theorem C05_markidx_in_range : forall m, markidx m = (-1)%Z \/ (0 <= markidx m < NMARKS)%Z.
Proof. exact markidx_range. Qed.
Print Assumptions C05_markidx_in_range.

Theorem C05_marks_in_range : forall (isset : Z -> bool) m want_off,
  (exists l, lbuf_mark m = Ok l /\ Forall (fun i => (0 <= i < NMARKS)%Z) l) /\
  (exists r, lbuf_jump isset m want_off = Ok r /\ match r with Some i => (0 <= i < NMARKS)%Z | None => True end) /\
  (exists d s, lbuf_pos_marks = Ok (d, s) /\ (0 <= d < NMARKS)%Z /\ (0 <= s < NMARKS)%Z) /\
  lbuf_opt_marks = Ok tt.
Proof.
  intros i m w. split; [exact (lbuf_mark_ok m)|]. split; [exact (lbuf_jump_ok i m w)|].
  split; [exact lbuf_pos_marks_ok|exact lbuf_opt_marks_ok].
Qed.
Print Assumptions C05_marks_in_range.

(* (3) vi.c vi_buf: in every sequence of vi_read / vi_back calls in which a key is pushed back only
   right after a key was read (the shape of every path through vi.c outside the signal handler), no
   access leaves vi_buf[VIBUFSZ] and at most ONE key is ever pending -- so the guard of vi_back
   (vi_buflen < VIBUFGUARD) is never the operative bound.  Holds for every prefix of the stream as well
   (a prefix of such a sequence is such a sequence). *)
Theorem C05_vi_buf_one_pending : forall ops, back_after_read false ops = true ->
  exists n, vb_run 0 ops = Ok n /\ (0 <= n <= 1)%Z.
Proof. exact vi_buf_one_pending. Qed.
Print Assumptions C05_vi_buf_one_pending.
Theorem C05_vi_buf_prefix_closed : forall a b, back_after_read false (a ++ b) = true -> back_after_read false a = true.
Proof. intros a b. exact (back_after_read_prefix a b false). Qed.
Print Assumptions C05_vi_buf_prefix_closed.

(* (6) vi.c rep_cmd: after every sequence of pushes, reads and term_cmd calls the recorded command of
   length icmd_pos is copied into rep_cmd[REPCMDSZ] (memcpy and terminator) only when it fits *)
Theorem C05_rep_cmd_fits : forall ops, Forall op_ok ops ->
  exists t r, t_run t_init ops = Ok t /\ rep_copy (icmd_pos t) = Ok r.
Proof. exact rep_copy_after_any_input. Qed.
Print Assumptions C05_rep_cmd_fits.

(* (4) led.c led_render: for every column table (any positions, any widths -- tabs, double-width and
   zero-width characters, characters straddling either edge), every window cbeg <= cend and both
   directions (ctx >= 0 / ctx < 0), off[cend - cbeg] is written only inside, and every cell holds -1
   or a character index below n, so att[o] / chrs[o] are inside their n cells *)
Theorem C05_led_render_in_range : forall ctx cbeg cend (cols : list (Z * Z)), (cbeg <= cend)%Z ->
  exists off, led_render_off ctx cbeg cend true cols = Ok off /\ Z.of_nat (length off) = (cend - cbeg)%Z /\
              cells_index (Z.of_nat (length cols)) off = Ok tt.
Proof. exact led_render_safe. Qed.
Print Assumptions C05_led_render_in_range.

(* (5) ex.c ex_pathexpand: for every argument string, every current/alternate path (unset, empty, of any
   length) and both modes, no store leaves buf[PATHCAP] -- the terminator included -- no read passes
   the terminator of the argument, the loop ends, and the result is shorter than PATHCAP *)
Theorem C05_pathexpand_in_range : forall cur alt spaceallowed s,
  exists r, ex_pathexpand cur alt spaceallowed s = Ok r /\
            match r with Some str => (Z.of_nat (length str) < PATHCAP)%Z | None => True end.
Proof. exact ex_pathexpand_safe. Qed.
Print Assumptions C05_pathexpand_in_range.

(* ex.c bufs[NBUFS]: every sequence of "open a new buffer" (bufs_findroom, bufs_init, bufs_switch),
   "switch to slot idx" (0 <= idx < NBUFS, as the callers check) and bufs_shift from the empty table
   stays inside the table: the slot search answers at most NBUFS - 1 and the memmove of bufs_switch
   ends at the last slot *)
Theorem C05_bufs_in_range : forall ops, Forall bop_ok ops ->
  exists t, b_run b_init ops = Ok t /\ Z.of_nat (length t) = NBUFS.
Proof. exact b_run_from_init. Qed.
Print Assumptions C05_bufs_in_range.

(* non-vacuity and teeth of the second part *)
Example C05_nonvacuous2 :
  REG [92; 233]%N = Ok 233%Z /\ reg_put (fun _ => true) 65 true = Ok [97; 49; 50; 51; 52; 53; 54; 55; 56; 57]%Z /\
  markidx 39 = 26%Z /\ markidx 0 = (-1)%Z /\
  back_after_read false [VRead; VBack; VRead; VRead; VBack; VRead] = true /\
  led_render_off 1 2 6 true [(0, 1); (1, 2); (3, 2); (5, 2)]%Z = Ok [-1; 2; 2; -1]%Z /\
  led_render_off (-1) 2 6 true [(0, 1); (1, 2); (3, 2); (5, 2)]%Z = Ok [-1; 2; 2; -1]%Z /\
  ex_pathexpand (Some [97; 47; 98]%N) None false [61; 37; 46; 99]%N = Ok (Some [97; 47; 97; 47; 98; 46; 99]%N) /\
  Forall bop_ok (repeat BOpen 20).
Proof. vm_compute. repeat split; try reflexivity; repeat constructor; congruence. Qed.

(* the models have teeth: an index of -1 (a key read at end of input) or 256 is outside the register
   tables; 129 pushes without a read pass the guard and overflow vi_buf (the guard compares with
   sizeof, not with the number of cells); the half guard of led_render writes outside; without the
   final clamp ex_pathexpand stores the terminator outside; a slot search up to LEN(bufs) makes
   bufs_switch move past the table with the 17th buffer *)
Example C05_reg_index_needed : reg_put (fun _ => false) (-1) false = OobRd /\ reg_get (fun _ => false) 256 = OobRd.
Proof. vm_compute. split; reflexivity. Qed.
Example C05_vi_buf_guard_is_not_the_bound : vb_run 0 (repeat VBack 129) = OobWr.
Proof. vm_compute. reflexivity. Qed.
Example C05_render_guard_needed : led_render_off 1 0 4 false [(3, 2)]%Z = OobWr.
Proof. vm_compute. reflexivity. Qed.
Example C05_clamp_needed : ex_pathexpand_gen (Some (repeat 97%N 2000)) None false false [37%N] = OobWr.
Proof. vm_compute. reflexivity. Qed.
Example C05_findroom_bound_needed : b_run_gen 0 b_init (repeat BOpen 17) = OobWr.
Proof. vm_compute. reflexivity. Qed.

(* ======================================================================================== *)
(* third part (CapDefs3.v): the stack buffers of the insert-mode helpers                      *)

(* (7) vi.c vi_help (^A in insert mode): for EVERY line typed so far -- any string of non-NUL bytes, so
   every word length and every mix of one- to four-byte characters, valid UTF-8 or not -- the scan for
   the last word ends inside the line (no read past the terminator, the loop terminates), end is never
   before beg, and the word handed to tag_find, cut by the code's byte guard, was copied into
   char tag[TAGSZ] together with its terminator without a store outside it: it is a segment of the
   line of fewer than TAGSZ bytes *)
Theorem C05_vi_help_tag_fits : forall ln, nonul ln ->
  exists r, vi_help_tag ln = Ok r /\
    match r with
    | None => True
    | Some t => (Z.of_nat (length t) < TAGSZ)%Z /\
                exists b, (b + length t <= length ln)%nat /\ t = firstn (length t) (skipn b ln)
    end.
Proof. exact vi_help_tag_fits. Qed.
Print Assumptions C05_vi_help_tag_fits.

(* (8) led.c led_input / led_line: for every number of leading blanks of the prefix and every sequence of
   ^T, ^D and finished lines (any number of leading blanks typed, prefix empty or not, ai option on or
   off), every store into char ai[AISZ] -- the fill loop, the terminators, the memcpy of the carried-over
   indentation -- is inside it and strlen(ai) stays below AISZ *)
Theorem C05_ai_bounded : forall k ops, Forall aiop_ok ops ->
  exists n len, ai_init k = Ok n /\ ai_run n ops = Ok len /\ (0 <= len)%Z /\ (len < AISZ)%Z.
Proof. exact ai_bounded. Qed.
Print Assumptions C05_ai_bounded.

(* non-vacuity and teeth of the third part: "ab \xc3\xa9x_1 " hands the word "\xc3\xa9x_1" to tag_find;
   without the guard a word of TAGSZ bytes overflows tag[]; with a guard that counts characters while the
   copy counts bytes a word of TAGSZ two-byte characters does; a ^T bounded by the size of ai[] instead of
   ai_max stores the terminator outside *)
Example C05_nonvacuous3 :
  nonul [97; 98; 32; 195; 169; 120; 95; 49; 32]%N /\
  vi_help_tag [97; 98; 32; 195; 169; 120; 95; 49; 32]%N = Ok (Some [195; 169; 120; 95; 49]%N) /\
  vi_help_tag [32; 43; 32]%N = Ok None /\
  (exists t, vi_help_tag (repeat 97%N (Z.to_nat (3 * TAGSZ))) = Ok (Some t) /\ Z.of_nat (length t) = (TAGSZ - 1)%Z) /\
  Forall aiop_ok [AiTab; AiLine 200 true true; AiTab; AiDel; AiLine 3 false false]%Z.
Proof.
  split; [repeat constructor|]. split; [vm_compute; reflexivity|]. split; [vm_compute; reflexivity|].
  split; [eexists; split; vm_compute; reflexivity|]. repeat constructor; cbn; discriminate.
Qed.
Example C05_tag_guard_needed : vi_help_tag_gen CutNone (repeat 97%N (Z.to_nat TAGSZ)) = OobWr.
Proof. vm_compute. reflexivity. Qed.
Example C05_tag_guard_must_count_bytes :
  vi_help_tag_gen CutChars (concat (repeat [195; 169]%N (Z.to_nat TAGSZ))) = OobWr /\
  (exists t, vi_help_tag_gen CutBytes (concat (repeat [195; 169]%N (Z.to_nat TAGSZ))) = Ok (Some t)).
Proof. split; [vm_compute; reflexivity|eexists; vm_compute; reflexivity]. Qed.
Example C05_ai_max_needed :
  (do n <- ai_init (2 * AISZ); do n' <- ai_step_loose n AiTab; ai_step_loose n' AiTab) = OobWr.
Proof. vm_compute. reflexivity. Qed.

(* ======================================================================================== *)
(* fourth part (TrEx.v): the scanners of the ex command line as C TEXT.  tools/c2clite.py translates
   ex_loc, ex_cmd and ex_arg of /repo's ex.c into terms of the checked C semantics CLite.v
   (GenCFuncs.v: every load and store outside its block is the error EOob, never a default value);
   the theorems below are about those terms, so a change of the C functions changes the statement
   that has to be proved.  They tie the models ex_loc / ex_cmd / ex_arg of CapDefs.v, about which
   C05_ex_parts_fit speaks, to the text by proof instead of by testing. *)
From NV Require CLite CLiteProps GenCFuncs TrEx.

(* ex_loc(src, loc) for EVERY memory m in which block bs holds a command line s shorter than EXLEN
   (any bytes) and its terminator, block bd -- the array loc -- has exactly EXLEN cells with any
   contents, and the address-character literal of ex_loc is where the program put it; from every
   start position i: the call returns a value -- every load was inside the line and its terminator and
   every store inside loc[EXLEN] --, the pointer returned is src + the count of the model, loc holds the
   model's output as a C string in front of its untouched cells, every other block is unchanged, and
   the output is no longer than what was consumed, hence shorter than EXLEN *)
Theorem C05_tr_ex_loc : forall (m : CLite.mem) bs bd s (blk : CLite.block) i d fuel,
  CLiteProps.str_at m bs s -> CLiteProps.bytes_lt256 s ->
  nth_error m bd = Some blk -> Z.of_nat (length blk) = EXLEN -> bs <> bd ->
  nth_error m TrEx.G_exloc = Some TrEx.gb_exloc -> TrEx.G_exloc <> bd ->
  (Z.of_nat (length s) < EXLEN)%Z -> (i <= length s)%nat -> (2 * S (length s) <= fuel)%nat ->
  exists i' w, ex_loc s i (newbuf excap) = Ok (i', w) /\
    CLite.callf GenCFuncs.cprog fuel (S d) GenCFuncs.F_ex_loc [CLite.VPtr bs (Z.of_nat i); CLite.VPtr bd 0%Z] m
    = CLite.Ok (CLite.VPtr bs (Z.of_nat i'),
                CLiteProps.upd m bd (TrEx.cstr_cells (wstr w) ++ skipn (S (length (wstr w))) blk)) /\
    (i <= i')%nat /\ (i' <= length s)%nat /\ (length (wstr w) <= i' - i)%nat /\ (length (wstr w) < length blk)%nat.
Proof. exact TrEx.ex_loc_safe. Qed.
Print Assumptions C05_tr_ex_loc.

(* ex_cmd(src, cmd): the same for cmd[EXLEN]; the name is at most 17 bytes *)
Theorem C05_tr_ex_cmd : forall (m : CLite.mem) bs bd s (blk : CLite.block) i d fuel,
  CLiteProps.str_at m bs s -> CLiteProps.bytes_lt256 s ->
  nth_error m bd = Some blk -> Z.of_nat (length blk) = EXLEN -> bs <> bd ->
  (Z.of_nat (length s) < EXLEN)%Z -> (i <= length s)%nat -> (S (length s) <= fuel)%nat ->
  exists i' w, ex_cmd s i (newbuf excap) = Ok (i', w) /\
    CLite.callf GenCFuncs.cprog fuel (S d) GenCFuncs.F_ex_cmd [CLite.VPtr bs (Z.of_nat i); CLite.VPtr bd 0%Z] m
    = CLite.Ok (CLite.VPtr bs (Z.of_nat i'),
                CLiteProps.upd m bd (TrEx.cstr_cells (wstr w) ++ skipn (S (length (wstr w))) blk)) /\
    (i <= i')%nat /\ (i' <= length s)%nat /\ (length (wstr w) <= i' - i)%nat /\ (length (wstr w) <= 17)%nat.
Proof. exact TrEx.ex_cmd_safe. Qed.
Print Assumptions C05_tr_ex_cmd.

(* ex_arg(src, arg, excmd): the same for arg[EXLEN], for every command name e in a third block (its
   first two bytes select the branch: shell commands, the s/&/~ delimiter rule, plain arguments) *)
Theorem C05_tr_ex_arg : forall (m : CLite.mem) bs bd be s e (blk : CLite.block) i d fuel,
  CLiteProps.str_at m bs s -> CLiteProps.bytes_lt256 s ->
  nth_error m bd = Some blk -> Z.of_nat (length blk) = EXLEN -> bs <> bd ->
  CLiteProps.str_at m be e -> CLiteProps.bytes_lt256 e -> be <> bd ->
  (Z.of_nat (length s) < EXLEN)%Z -> (i <= length s)%nat -> (S (length s) <= fuel)%nat ->
  exists i' w, ex_arg s i (newbuf excap) (ch0 e) (ch1 e) = Ok (i', w) /\
    CLite.callf GenCFuncs.cprog fuel (S d) GenCFuncs.F_ex_arg
      [CLite.VPtr bs (Z.of_nat i); CLite.VPtr bd 0%Z; CLite.VPtr be 0%Z] m
    = CLite.Ok (CLite.VPtr bs (Z.of_nat i'),
                CLiteProps.upd m bd (TrEx.cstr_cells (wstr w) ++ skipn (S (length (wstr w))) blk)) /\
    (i <= i')%nat /\ (i' <= length s)%nat /\ (length (wstr w) <= i' - i)%nat /\ (length (wstr w) < length blk)%nat.
Proof. exact TrEx.ex_arg_safe. Qed.
Print Assumptions C05_tr_ex_arg.

(* the tie itself, for a destination of ANY size and a line of any length: whenever the model, writing into
   a buffer as large as the destination block, returns a value (no OobRd, OobWr, NoFuel), the C text returns
   the model's position and has stored exactly the bytes the model recorded (as chars), nothing else *)
Theorem C05_tr_ex_scanners_refine_model : forall (m : CLite.mem) bs bd s (blk : CLite.block) i i' w d fuel,
  CLiteProps.str_at m bs s -> CLiteProps.bytes_lt256 s -> nth_error m bd = Some blk -> bs <> bd ->
  (2 * S (length s) <= fuel)%nat ->
  (nth_error m TrEx.G_exloc = Some TrEx.gb_exloc -> TrEx.G_exloc <> bd ->
   ex_loc s i (newbuf (length blk)) = Ok (i', w) ->
   CLite.callf GenCFuncs.cprog fuel (S d) GenCFuncs.F_ex_loc [CLite.VPtr bs (Z.of_nat i); CLite.VPtr bd 0%Z] m
   = CLite.Ok (CLite.VPtr bs (Z.of_nat i'), CLiteProps.upd m bd (TrEx.dblock w blk))) /\
  (ex_cmd s i (newbuf (length blk)) = Ok (i', w) ->
   CLite.callf GenCFuncs.cprog fuel (S d) GenCFuncs.F_ex_cmd [CLite.VPtr bs (Z.of_nat i); CLite.VPtr bd 0%Z] m
   = CLite.Ok (CLite.VPtr bs (Z.of_nat i'), CLiteProps.upd m bd (TrEx.dblock w blk))) /\
  (forall be e, CLiteProps.str_at m be e -> CLiteProps.bytes_lt256 e -> be <> bd ->
   ex_arg s i (newbuf (length blk)) (ch0 e) (ch1 e) = Ok (i', w) ->
   CLite.callf GenCFuncs.cprog fuel (S d) GenCFuncs.F_ex_arg
     [CLite.VPtr bs (Z.of_nat i); CLite.VPtr bd 0%Z; CLite.VPtr be 0%Z] m
   = CLite.Ok (CLite.VPtr bs (Z.of_nat i'), CLiteProps.upd m bd (TrEx.dblock w blk))).
Proof.
  intros m bs bd s blk i i' w d fuel Hs H256 Hd Hne Hf. split; [|split].
  - intros Hl Hg H. exact (TrEx.tr_ex_loc m bs bd s blk i i' w d fuel Hs H256 Hd Hne Hl Hg H Hf).
  - intros H. apply (TrEx.tr_ex_cmd m bs bd s blk i i' w d fuel Hs H256 Hd Hne H). apply (Nat.le_trans _ (2 * S (length s))); [|exact Hf]. apply Nat.le_add_r.
  - intros be e He He256 Hbe H. apply (TrEx.tr_ex_arg m bs bd be s e blk i i' w d fuel Hs H256 Hd Hne He He256 Hbe H). apply (Nat.le_trans _ (2 * S (length s))); [|exact Hf]. apply Nat.le_add_r.
Qed.
Print Assumptions C05_tr_ex_scanners_refine_model.

(* non-vacuity: a memory that satisfies the hypotheses (the program's global blocks, the line
   `1,$s/a|b/c/|p`, three arrays of EXLEN indeterminate cells, the name "s"), and the translated functions
   RUN on it one after the other as ex_exec calls them: loc = "1,$", cmd = "s", arg = "/a|b/c/" (the `|`
   inside the pattern is not a separator), the next command starts at offset 12 *)
Example C05_tr_runs :
  let ln := [49; 44; 36; 115; 47; 97; 124; 98; 47; 99; 47; 124; 112]%N in
  let G := length GenCFuncs.cglobals in
  let arr := repeat CLite.VUndef excap in
  let m0 := GenCFuncs.cglobals ++ [CLite.cstr_block (CLiteProps.zb ln); arr; arr; arr; CLite.cstr_block [115%Z]] in
  CLiteProps.str_at m0 G ln /\ CLiteProps.bytes_lt256 ln /\ (Z.of_nat (length ln) < EXLEN)%Z /\
  nth_error m0 (G + 1) = Some arr /\ Z.of_nat (length arr) = EXLEN /\
  nth_error m0 TrEx.G_exloc = Some TrEx.gb_exloc /\ TrEx.G_exloc <> (G + 1)%nat /\
  CLiteProps.str_at m0 (G + 4) [115%N] /\
  match CLite.callf GenCFuncs.cprog 100 1 GenCFuncs.F_ex_loc [CLite.VPtr G 0%Z; CLite.VPtr (G + 1) 0%Z] m0 with
  | CLite.Ok (CLite.VPtr _ o1, m1) =>
    match CLite.callf GenCFuncs.cprog 100 1 GenCFuncs.F_ex_cmd [CLite.VPtr G o1; CLite.VPtr (G + 2) 0%Z] m1 with
    | CLite.Ok (CLite.VPtr _ o2, m2) =>
      match CLite.callf GenCFuncs.cprog 100 1 GenCFuncs.F_ex_arg [CLite.VPtr G o2; CLite.VPtr (G + 3) 0%Z; CLite.VPtr (G + 4) 0%Z] m2 with
      | CLite.Ok (CLite.VPtr _ o3, m3) =>
          (o1, o2, o3) = (3, 4, 12)%Z /\ TrEx.str_of m3 (G + 1) = [49; 44; 36]%Z /\ TrEx.str_of m3 (G + 2) = [115]%Z /\
          TrEx.str_of m3 (G + 3) = [47; 97; 124; 98; 47; 99; 47]%Z
      | _ => False end
    | _ => False end
  | _ => False end.
Proof.
  cbv zeta. split; [reflexivity|]. split; [repeat constructor|]. split; [reflexivity|]. split; [reflexivity|].
  split; [reflexivity|]. split; [reflexivity|]. split; [vm_compute; discriminate|]. split; [reflexivity|].
  vm_compute. repeat split; reflexivity.
Qed.

(* the translated text has teeth: a line of EXLEN address bytes (which the guard of ex_exec refuses) makes the
   C text of ex_loc store outside loc[EXLEN] -- the checked semantics stops with EOob; one byte fewer fits *)
Example C05_tr_overflow_without_guard :
  let G := length GenCFuncs.cglobals in
  CLite.callf GenCFuncs.cprog 2000 1 GenCFuncs.F_ex_loc [CLite.VPtr G 0%Z; CLite.VPtr (G + 1) 0%Z]
    (GenCFuncs.cglobals ++ [CLite.cstr_block (repeat 49%Z excap); repeat CLite.VUndef excap]) = CLite.Err CLite.EOob /\
  exists m', CLite.callf GenCFuncs.cprog 2000 1 GenCFuncs.F_ex_loc [CLite.VPtr G 0%Z; CLite.VPtr (G + 1) 0%Z]
    (GenCFuncs.cglobals ++ [CLite.cstr_block (repeat 49%Z (excap - 1)); repeat CLite.VUndef excap])
    = CLite.Ok (CLite.VPtr G (EXLEN - 1)%Z, m').
Proof. cbv zeta. split; [vm_compute; reflexivity|]. eexists. vm_compute. reflexivity. Qed.

(* ex_plus(arg, pls) of ec_edit (":e +cmd file"), same technique: for every argument string shorter than
   EXLEN and pls[EXLEN] the translated C text returns Ok -- no load past the terminator, no store outside
   pls -- at the model's position; pls holds the bytes of the model behind the terminator that the C text
   stores at pls[0] before it looks for the '+' (which the model only checks room for) *)
Theorem C05_tr_ex_plus : forall (m : CLite.mem) bs bd s (blk : CLite.block) i d fuel,
  CLiteProps.str_at m bs s -> CLiteProps.bytes_lt256 s ->
  nth_error m bd = Some blk -> Z.of_nat (length blk) = EXLEN -> bs <> bd ->
  (Z.of_nat (length s) < EXLEN)%Z -> (i <= length s)%nat -> (S (length s) <= fuel)%nat ->
  exists i' w, ex_plus s i (newbuf excap) = Ok (i', w) /\
    CLite.callf GenCFuncs.cprog fuel (S d) GenCFuncs.F_ex_plus [CLite.VPtr bs (Z.of_nat i); CLite.VPtr bd 0%Z] m
    = CLite.Ok (CLite.VPtr bs (Z.of_nat i'),
                CLiteProps.upd m bd (TrEx.dblock w (CLiteProps.upd blk 0 (CLite.VInt 0)))) /\
    (i <= i')%nat /\ (i' <= length s)%nat /\ (wlen w <= i' - i + 1)%nat /\ (wlen w <= length blk)%nat.
Proof. exact TrEx.ex_plus_safe. Qed.
Print Assumptions C05_tr_ex_plus.

(* it runs: ` +/x\ y f` gives pls = "+/x y" (the backslash dropped) and stops at "f" *)
Example C05_tr_plus_runs :
  let arg := [32; 43; 47; 120; 92; 32; 121; 32; 102]%N in
  let G := length GenCFuncs.cglobals in
  let m0 := GenCFuncs.cglobals ++ [CLite.cstr_block (CLiteProps.zb arg); repeat CLite.VUndef excap] in
  match CLite.callf GenCFuncs.cprog 100 1 GenCFuncs.F_ex_plus [CLite.VPtr G 0%Z; CLite.VPtr (G + 1) 0%Z] m0 with
  | CLite.Ok (CLite.VPtr _ o, m1) => o = 8%Z /\ TrEx.str_of m1 (G + 1) = [43; 47; 120; 32; 121]%Z
  | _ => False end.
Proof. vm_compute. split; reflexivity. Qed.

(* cutword(arg, tok) of ec_set (":se opt=val"), same technique, for ASCII arguments: the C text calls
   isspace( *s) on a plain char, which <ctype.h> defines only for the values of unsigned char and EOF;
   for an argument shorter than EXLEN of bytes below 128 and tok[EXLEN] the translated text returns Ok at
   the model's position with the model's word in tok *)
Theorem C05_tr_cutword : forall (m : CLite.mem) bs bd s (blk : CLite.block) i d fuel,
  CLiteProps.str_at m bs s -> Forall (fun c => (c < 128)%N) s ->
  nth_error m bd = Some blk -> Z.of_nat (length blk) = EXLEN -> bs <> bd ->
  (Z.of_nat (length s) < EXLEN)%Z -> (i <= length s)%nat -> (S (length s) <= fuel)%nat ->
  exists i' w, cutword s i (newbuf excap) = Ok (i', w) /\
    CLite.callf GenCFuncs.cprog fuel (S d) GenCFuncs.F_cutword [CLite.VPtr bs (Z.of_nat i); CLite.VPtr bd 0%Z] m
    = CLite.Ok (CLite.VPtr bs (Z.of_nat i'),
                CLiteProps.upd m bd (TrEx.cstr_cells (wstr w) ++ skipn (S (length (wstr w))) blk)) /\
    (i <= i')%nat /\ (i' <= length s)%nat /\ (length (wstr w) <= i' - i)%nat /\ (length (wstr w) < length blk)%nat.
Proof. exact TrEx.cutword_safe. Qed.
Print Assumptions C05_tr_cutword.

(* it runs on " ic  x" (tok = "ic", stops at "x"); and the ASCII hypothesis is needed: on the first byte of
   a two-byte character (":se \xc3\xa9") the argument of isspace is -61 and the checked semantics stops with
   ECtype -- the C standard leaves that call undefined (glibc happens to tolerate it) *)
Example C05_tr_cutword_runs :
  let G := length GenCFuncs.cglobals in
  match CLite.callf GenCFuncs.cprog 100 1 GenCFuncs.F_cutword [CLite.VPtr G 0%Z; CLite.VPtr (G + 1) 0%Z]
          (GenCFuncs.cglobals ++ [CLite.cstr_block [32; 105; 99; 32; 32; 120]%Z; repeat CLite.VUndef excap]) with
  | CLite.Ok (CLite.VPtr _ o, m1) => o = 5%Z /\ TrEx.str_of m1 (G + 1) = [105; 99]%Z
  | _ => False end /\
  CLite.callf GenCFuncs.cprog 100 1 GenCFuncs.F_cutword [CLite.VPtr G 0%Z; CLite.VPtr (G + 1) 0%Z]
    (GenCFuncs.cglobals ++ [CLite.cstr_block [195; 169]%Z; repeat CLite.VUndef excap]) = CLite.Err CLite.ECtype.
Proof. vm_compute. repeat split; reflexivity. Qed.

(* ======================================================================================== *)
(* fifth part (TrTerm.v): the input queue of term.c as C TEXT.  tools/c2clite.py translates term_push,
   term_cmd and term_read and the statics  char ibuf[IBUFSZ]; int ibuf_pos, ibuf_cnt; char icmd[ICMDSZ];
   int icmd_pos;  (global blocks of GenCFuncs.v: ibuf and icmd have exactly sizeof cells, any access outside
   a block is the error EOob).  The theorems below are about those terms: they tie the counter model
   t_step of CapDefs.v, about which C05_term_push_bounded / C05_term_push_clipped / C05_icmd_bounded speak, to
   the text by proof, and they state the memory safety of the memmove / memcpy / stores themselves.
   TrTerm.term_at m pos cnt ib ip ic: in memory m the statics hold ibuf_pos = pos, ibuf_cnt = cnt, the cells ib,
   icmd_pos = ip, the cells ic, and 0 <= pos <= cnt <= IBUFSZ, 0 <= ip <= ICMDSZ (the invariant of the model). *)
From NV Require TrTerm.

(* term_push(s, n) for EVERY memory satisfying the invariant (any contents of ibuf) and every source of n >= 0
   cells at offset os of any other block: the call returns a value -- the memmove stayed inside ibuf, the memcpy
   inside ibuf and inside the n cells of s, no int overflowed --; the invariant holds again with
   ibuf_cnt + min(n, IBUFSZ - ibuf_cnt) and the same ibuf_pos; the read part ibuf[0 .. pos) and the cells behind the
   queue are untouched, no other block of the memory changed; and the counters moved as the model's TPush step *)
Theorem C05_tr_term_push : forall (m : CLite.mem) pos cnt ib ip ic bs os (sblk : CLite.block) n d fuel,
  TrTerm.term_at m pos cnt ib ip ic -> nth_error m bs = Some sblk -> bs <> GenCFuncs.G_ibuf ->
  (0 <= n <= 2147483647)%Z -> (0 <= os)%Z -> (os + n <= Z.of_nat (length sblk))%Z ->
  let k := Z.min n (IBUFSZ - cnt) in
  exists m' ib',
    CLite.callf GenCFuncs.cprog fuel (S d) GenCFuncs.F_term_push [CLite.VPtr bs os; CLite.VInt n] m = CLite.Ok (CLite.VUndef, m') /\
    TrTerm.term_at m' pos (cnt + k)%Z ib' ip ic /\
    firstn (Z.to_nat pos) ib' = firstn (Z.to_nat pos) ib /\
    skipn (Z.to_nat (cnt + k)) ib' = skipn (Z.to_nat (cnt + k)) ib /\
    length m' = length m /\
    (forall b, b <> GenCFuncs.G_ibuf -> b <> GenCFuncs.G_ibuf_cnt -> nth_error m' b = nth_error m b) /\
    t_step (mkT pos cnt ip) (TPush n) = Ok (mkT pos (cnt + k)%Z ip).
Proof.
  intros m pos cnt ib ip ic bs os sblk n d fuel H1 H2 H3 H4 H5 H6 k.
  destruct (TrTerm.term_push_refines m pos cnt ib ip ic bs os sblk n d fuel [] H1 H2 H3 H4 H5 H6)
    as (m' & ib' & A & B & _ & _ & E & F & G & H & I). exists m', ib'.
  split; [exact A|]. split; [exact B|]. split; [exact E|]. split; [exact F|]. split; [exact G|]. split; [exact H|exact I].
Qed.
Print Assumptions C05_tr_term_push.

(* term_cmd(&n), n any int cell outside the statics: *n = icmd_pos, icmd_pos = 0, the pointer returned is icmd *)
Theorem C05_tr_term_cmd : forall (m : CLite.mem) pos cnt ib ip ic bn on (nblk : CLite.block) d fuel,
  TrTerm.term_at m pos cnt ib ip ic -> nth_error m bn = Some nblk ->
  bn <> GenCFuncs.G_ibuf -> bn <> GenCFuncs.G_ibuf_pos -> bn <> GenCFuncs.G_ibuf_cnt -> bn <> GenCFuncs.G_icmd -> bn <> GenCFuncs.G_icmd_pos ->
  (0 <= on < Z.of_nat (length nblk))%Z ->
  exists m',
    CLite.callf GenCFuncs.cprog fuel (S d) GenCFuncs.F_term_cmd [CLite.VPtr bn on] m = CLite.Ok (CLite.VPtr GenCFuncs.G_icmd 0%Z, m') /\
    TrTerm.term_at m' pos cnt ib 0%Z ic /\ CLite.load m' bn on = CLite.Ok (CLite.VInt ip) /\
    t_step (mkT pos cnt ip) TCmd = Ok (mkT pos cnt 0%Z).
Proof.
  intros m pos cnt ib ip ic bn on nblk d fuel H1 H2 N1 N2 N3 N4 N5 H3.
  destruct (TrTerm.term_cmd_refines m pos cnt ib ip ic bn on nblk d fuel [] H1 H2 N1 N2 N3 N4 N5 H3) as (m' & A & B & C & _ & E).
  exists m'. split; [exact A|]. split; [exact B|]. split; [exact C|exact E].
Qed.
Print Assumptions C05_tr_term_cmd.

(* term_read() while a key is queued (ibuf_pos < ibuf_cnt; the other path calls poll() and read(), which are outside
   the translated subset): the load ibuf[ibuf_pos++] is inside ibuf, the store icmd[icmd_pos++] happens only while
   icmd_pos < ICMDSZ and is inside icmd; the invariant holds again; the counters moved as the model's TRead step
   (whatever the refill would have been) *)
Theorem C05_tr_term_read_queued : forall (m : CLite.mem) pos cnt ib ip ic z d fuel refill,
  TrTerm.term_at m pos cnt ib ip ic -> (pos < cnt)%Z -> nth_error ib (Z.to_nat pos) = Some (CLite.VInt z) -> (-128 <= z <= 127)%Z ->
  let ip' := if (ip <? ICMDSZ)%Z then (ip + 1)%Z else ip in
  let ic' := if (ip <? ICMDSZ)%Z then CLiteProps.upd ic (Z.to_nat ip) (CLite.VInt z) else ic in
  exists m',
    CLite.callf GenCFuncs.cprog fuel (S d) GenCFuncs.F_term_read [] m = CLite.Ok (CLite.VInt (z mod 256), m') /\
    TrTerm.term_at m' (pos + 1)%Z cnt ib ip' ic' /\
    t_step (mkT pos cnt ip) (TRead refill) = Ok (mkT (pos + 1)%Z cnt ip').
Proof.
  intros m pos cnt ib ip ic z d fuel refill H1 H2 H3 H4 ip' ic'.
  destruct (TrTerm.term_read_refines m pos cnt ib ip ic z d fuel [] refill H1 H2 H3 H4) as (m' & A & B & _ & D).
  exists m'. split; [exact A|]. split; [exact B|exact D].
Qed.
Print Assumptions C05_tr_term_read_queued.

(* non-vacuity: the zero-initialised statics satisfy the invariant, and the translated functions RUN from there:
   a push of IBUFSZ + 904 cells is clipped to IBUFSZ, a read takes the first key, a push into the full buffer adds nothing,
   a push "xy" after another start lands in front of "abc"; the counters in memory are those of the model run *)
Example C05_tr_term_runs :
  let G := length GenCFuncs.cglobals in
  let m0 := GenCFuncs.cglobals ++ [repeat (CLite.VInt 65%Z) (Z.to_nat (IBUFSZ + 904)); map CLite.VInt [97; 98; 99]%Z; map CLite.VInt [120; 121]%Z; [CLite.VUndef]] in
  let run f args m := CLite.callf GenCFuncs.cprog 10 1 f args m in
  let ctrs m := (TrTerm.peek1 m GenCFuncs.G_ibuf_pos, TrTerm.peek1 m GenCFuncs.G_ibuf_cnt, TrTerm.peek1 m GenCFuncs.G_icmd_pos) in
  let model ops := match t_run t_init ops with Ok t => (Some (ibuf_pos t), Some (ibuf_cnt t), Some (icmd_pos t)) | _ => (None, None, None) end in
  TrTerm.term_at m0 0%Z 0%Z GenCFuncs.gb_ibuf 0%Z GenCFuncs.gb_icmd /\
  match run GenCFuncs.F_term_push [CLite.VPtr G 0%Z; CLite.VInt (IBUFSZ + 904)%Z] m0 with
  | CLite.Ok (_, m1) =>
    ctrs m1 = (Some 0%Z, Some IBUFSZ, Some 0%Z) /\ ctrs m1 = model [TPush (IBUFSZ + 904)] /\
    match run GenCFuncs.F_term_read [] m1 with
    | CLite.Ok (c, m2) =>
      c = CLite.VInt 65%Z /\ ctrs m2 = model [TPush (IBUFSZ + 904); TRead None] /\
      match run GenCFuncs.F_term_push [CLite.VPtr (G + 1) 0%Z; CLite.VInt 3%Z] m2 with
      | CLite.Ok (_, m3) =>
        ctrs m3 = (Some 1%Z, Some IBUFSZ, Some 1%Z) /\ ctrs m3 = model [TPush (IBUFSZ + 904); TRead None; TPush 3] /\
        TrTerm.peek m3 GenCFuncs.G_ibuf (Z.to_nat (IBUFSZ + 904)) = repeat (CLite.VInt 65%Z) (Z.to_nat IBUFSZ) /\
        match run GenCFuncs.F_term_cmd [CLite.VPtr (G + 3) 0%Z] m3 with
        | CLite.Ok (_, m4) => ctrs m4 = model [TPush (IBUFSZ + 904); TRead None; TPush 3; TCmd] /\ TrTerm.peek m4 (G + 3) 1 = [CLite.VInt 1%Z]
        | _ => False end
      | _ => False end
    | _ => False end
  | _ => False end /\
  match run GenCFuncs.F_term_push [CLite.VPtr (G + 1) 0%Z; CLite.VInt 3%Z] m0 with
  | CLite.Ok (_, m1) =>
    match run GenCFuncs.F_term_push [CLite.VPtr (G + 2) 0%Z; CLite.VInt 2%Z] m1 with
    | CLite.Ok (_, m2) => TrTerm.peek m2 GenCFuncs.G_ibuf 6 = map CLite.VInt [120; 121; 97; 98; 99; 0]%Z /\ ctrs m2 = model [TPush 3; TPush 2]
    | _ => False end
  | _ => False end.
Proof. cbv zeta. split; [exact (TrTerm.term_at_start _)|]. vm_compute. repeat split; reflexivity. Qed.

(* the translated text has teeth: the checked semantics stops with EOob when term_push is handed a count larger than
   its source (the memcpy would read past s), and when the statics do not satisfy the invariant (ibuf_cnt above
   sizeof(ibuf): the clip turns into a huge unsigned count) *)
Example C05_tr_term_push_oob :
  let G := length GenCFuncs.cglobals in
  CLite.callf GenCFuncs.cprog 10 1 GenCFuncs.F_term_push [CLite.VPtr G 0%Z; CLite.VInt 4%Z]
    (GenCFuncs.cglobals ++ [map CLite.VInt [97; 98; 99]%Z]) = CLite.Err CLite.EOob /\
  CLite.callf GenCFuncs.cprog 10 1 GenCFuncs.F_term_push [CLite.VPtr G 0%Z; CLite.VInt 3%Z]
    (CLiteProps.upd GenCFuncs.cglobals GenCFuncs.G_ibuf_cnt [CLite.VInt (IBUFSZ + 1)%Z] ++ [map CLite.VInt [97; 98; 99]%Z]) = CLite.Err CLite.EOob.
Proof. cbv zeta. split; vm_compute; reflexivity. Qed.

(* ======================================================================================== *)
(* (9) uc.c uc_trim (a04410e), CapDefs3.v: what the editor keeps of a string that snprintf cut to the size of a fixed
   array (cmp[64] of led_line, vi_msg[512]).  For EVERY string of non-NUL bytes: the loop terminates, the terminator is
   stored inside the string's own bytes, the result is a prefix of the input (so never longer), it consists of whole
   characters as uc_len counts them (no lead byte without the bytes it announces: uc_code never reads past the end),
   it is the LONGEST such prefix (it is the whole input, or the next character announces more bytes than are left),
   and trimming it again changes nothing *)
Theorem C05_uc_trim_spec : forall s, nonul s ->
  exists i, uc_trim s = Ok (firstn i s) /\ (i <= length s)%nat /\ wholechars (firstn i s) /\
            (i = length s \/ (length s < i + UcDefs.uc_len (skipn i s))%nat) /\
            uc_trim (firstn i s) = Ok (firstn i s).
Proof. exact uc_trim_spec. Qed.
Print Assumptions C05_uc_trim_spec.

(* snprintf into an array of [size] bytes followed by uc_trim: of a string of whole characters, whole characters of that
   string are kept, fewer than [size] bytes *)
Theorem C05_cut_keeps_whole_chars : forall size s, nonul s -> wholechars s ->
  exists i, cut_store size s = Ok (firstn i s) /\ (i <= size - 1)%nat /\ (i <= length s)%nat /\ wholechars (firstn i s).
Proof. exact cut_store_spec. Qed.
Print Assumptions C05_cut_keeps_whole_chars.

(* non-vacuity and teeth: "ab" + two four-byte characters cut to 7 + 1 bytes keeps "ab" and the first character; the
   untrimmed cut "ab" f0 9f 98 80 f0 is not made of whole characters (what a04410e repaired) *)
Example C05_nonvacuous4 :
  let s := [97; 98; 240; 159; 152; 128; 240; 159; 152; 128]%N in
  nonul s /\ wholechars s /\ cut_store 8 s = Ok [97; 98; 240; 159; 152; 128]%N /\ ~ wholechars (firstn 7 s).
Proof.
  cbv zeta. split; [repeat constructor|]. split.
  { repeat (apply wc_cons; [discriminate|vm_compute; split; repeat constructor|cbn]). constructor. }
  split; [vm_compute; reflexivity|].
  intro W. pose proof (trim_at_whole 8 _ 0 W (le_n 8)) as H. vm_compute in H. discriminate H.
Qed.

(* ======================================================================================== *)
(* (10) ex.c ex_region / ex_lineno on the TRANSLATED C text (TrExAddr.v): the C text of C05_region_reads_safe and
   C05_lineno_stays_inside.  For every NUL-free address string s without '/' and '?' (ex_search is not translated; the
   body lemmas of TrExAddr.v hold for any search oracle that stays inside the string), any buffer length, current line and
   mark table inside int: CapDefs.ex_region returns a value (no OobRd: the model reads no byte behind the terminator), and
   when the numbers computed on the way fit into int (TrExAddr.region_fit: atoi(..), n += atoi(..), ex_lineno(..) + 1, ...)
   the translated ex_region returns Ok -- in CLite every load and store is checked, so every load of the address string was
   inside s and its terminator, and *beg, *end, xrow and the function's own two blocks are all it stored into -- with the
   model's answer.  A number outside int (`2147483648`, `2147483647+1`) is undefined behaviour of the C text (atoi / signed
   overflow; EOverflow in CLite, see C06_tr_addr_nonvacuous): not a read or write outside a buffer. *)
From NV Require TrLbufBase TrLbufMarks ExAddrDefs TrExAddr.
Theorem C05_tr_ex_region_reads_safe : forall m bs bb be bl s xrow len gbufs lblk vb0 e0 search d fuel,
  CLiteProps.str_at m bs s -> nonul s -> CLiteProps.cell_at m GenCFuncs.G_xrow xrow ->
  nth_error m bb = Some [vb0] -> nth_error m be = Some [CLite.VInt e0] ->
  nth_error m GenCFuncs.G_bufs = Some gbufs -> nth_error gbufs TrExAddr.BUFS_LB = Some (CLite.VPtr bl 0%Z) ->
  nth_error m bl = Some lblk -> nth_error lblk TrLbufBase.L_ln_n = Some (CLite.VInt len) -> TrLbufMarks.marks_ints lblk ->
  nth_error m GenCFuncs.G_lit_25_1 = Some GenCFuncs.gb_lit_25_1 -> TrExAddr.rdist bs bb be bl ->
  TrExAddr.int_ok xrow -> TrExAddr.int_ok len -> TrExAddr.int_ok e0 -> (2 * Z.of_nat (S (length s)) <= 2147483647)%Z ->
  ExAddrDefs.nosearch s -> (2 * S (length s) <= fuel)%nat ->
  exists reg xr, ex_region len (ex_lineno len (TrExAddr.mark_of lblk) search) s xrow = Ok (reg, xr) /\
    (TrExAddr.region_fit len (TrExAddr.mark_of lblk) search s xrow ->
     exists m', CLite.callf GenCFuncs.cprog fuel (S (S (S (S d)))) GenCFuncs.F_ex_region [CLite.VPtr bs 0%Z; CLite.VPtr bb 0%Z; CLite.VPtr be 0%Z] m
                = CLite.Ok (CLite.VInt (match reg with RFail => 1 | ROk _ _ => 0 end)%Z, m') /\
       match reg with
       | ROk b e => nth_error m' bb = Some [CLite.VInt b] /\ nth_error m' be = Some [CLite.VInt e]
       | RFail => True
       end /\ CLiteProps.cell_at m' GenCFuncs.G_xrow xr).
Proof. exact TrExAddr.tr_ex_region_safe. Qed.
Print Assumptions C05_tr_ex_region_reads_safe.

(* ======================================================================================== *)
(* (11) ex.c replace(): the replacement text of :s.  `\d` copies memcpy(.., ln + offs[2d], offs[2d+1] - offs[2d]): pointer and
   length are the offsets of group d as the matcher left them in int offs[32].  CapDefs4.replace reads offs[] and the line with
   checked loads (a negative length = a garbage size_t, a range outside the line and its terminator: OobRd).
   C05_replace_reads_safe: for EVERY replacement text, every line and every offs[32] in which each group is either unset
   (-1, -1) or lies inside the line (0 <= so <= eo <= length), replace returns a value -- no load outside offs[], none outside
   the line -- of at most |rep| * (1 + |ln|) bytes.
   C05_replace_needs_wellformed_offsets: the hypothesis is needed, group by group: a reference `\d` to a group whose offsets
   have eo <> so and (so < 0 or eo < so or eo beyond the terminator) -- e.g. a start mark left behind by an abandoned branch
   of the pattern, with end -1 -- is an out-of-bounds load.  That the matcher hands well-formed offsets to ec_substitute is
   checked on the real code (probe request `subst`, tools/props/c05.py) and stated for the model of the matcher by C10-C12. *)
From NV Require Import CapDefs4 CapProps4.
Theorem C05_replace_reads_safe : forall (ln : bytes) (offs : list Z), length offs = NOFFS -> offs_ok (Z.of_nat (length ln)) offs = true ->
  forall rep : bytes, exists out, replace rep ln offs = Ok out /\ (length out <= length rep * (1 + length ln))%nat.
Proof. exact replace_safe. Qed.
Print Assumptions C05_replace_reads_safe.
Theorem C05_replace_needs_wellformed_offsets : forall (ln : bytes) (offs : list Z) (d : nat) (so eo : Z) (rep' : bytes), (d < 10)%nat ->
  nth_error offs (2 * d) = Some so -> nth_error offs (S (2 * d)) = Some eo ->
  eo <> so -> (so < 0 \/ eo < so \/ Z.of_nat (length ln) + 1 < eo)%Z ->
  replace (92%N :: (48 + N.of_nat d)%N :: rep') ln offs = OobRd.
Proof. exact replace_needs_ok. Qed.
Print Assumptions C05_replace_needs_wellformed_offsets.
(* non-vacuity: `[\1]` on the line xby with the match 1..2 and group 1 unset gives `[]`; with group 1 = (1, -1) -- opened by
   an abandoned alternative and never closed -- the model reports the out-of-bounds load *)
Example C05_nonvacuous5 :
  let ln := [120; 98; 121]%N in
  let ok := ([1; 2; -1; -1] ++ repeat (-1) 28)%Z in
  let stale := ([1; 2; 1; -1] ++ repeat (-1) 28)%Z in
  length ok = NOFFS /\ offs_ok 3 ok = true /\ replace [91; 92; 49; 93]%N ln ok = Ok [91; 93]%N /\
  replace [92; 48; 92; 92; 92]%N ln ok = Ok [98; 92; 92]%N /\
  offs_ok 3 stale = false /\ replace [91; 92; 49; 93]%N ln stale = OobRd.
Proof. cbv zeta. repeat split; vm_compute; reflexivity. Qed.
