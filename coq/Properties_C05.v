(* Properties_C05.v -- C05 (proved part): capacity arithmetic of the fixed-size buffers that input
   can reach, on the models of CapDefs.v (checked reads and writes: an access outside a buffer is a
   distinct result, never a default value).  Statements only; every proof is `exact <lemma>`;
   Print Assumptions under each.  What is NOT proved here -- that no command stream crashes the real
   process -- is explored under sanitizers by tools/props/c05.py and labelled as exploration. *)
From Coq Require Import List NArith ZArith.
From NV Require Import Bytes GenConsts GenExCmds CapDefs CapProps.
Import ListNotations.

(* ex_loc, ex_cmd and ex_arg, each writing into a fresh buffer of EXLEN bytes, started at any
   position i of any byte string ln shorter than EXLEN (no assumption on its content), for any
   command name (c0, c1) handed to ex_arg: the result is a value -- so no byte was written at an
   index >= EXLEN, no byte was read beyond the terminator of ln and the loops ended --, the read
   position stays inside ln, and the bytes written (terminator included) number at most the bytes
   consumed plus one, hence at most EXLEN *)
Theorem C05_ex_parts_fit : forall ln i c0 c1, (Z.of_nat (length ln) < EXLEN)%Z -> (i <= length ln)%nat ->
  (exists i' w, ex_loc ln i (newbuf excap) = Ok (i', w) /\ (i <= i')%nat /\ (i' <= length ln)%nat /\
                (wlen w <= i' - i + 1)%nat /\ (Z.of_nat (wlen w) <= EXLEN)%Z) /\
  (exists i' w, ex_cmd ln i (newbuf excap) = Ok (i', w) /\ (i <= i')%nat /\ (i' <= length ln)%nat /\
                (wlen w <= i' - i + 1)%nat /\ (wlen w <= 18)%nat /\ (Z.of_nat (wlen w) <= EXLEN)%Z) /\
  (exists i' w, ex_arg ln i (newbuf excap) c0 c1 = Ok (i', w) /\ (i <= i')%nat /\ (i' <= length ln)%nat /\
                (wlen w <= i' - i + 1)%nat /\ (Z.of_nat (wlen w) <= EXLEN)%Z).
Proof. exact ex_parts_fit. Qed.
Print Assumptions C05_ex_parts_fit.

(* ex_exec rejects, without parsing, a command line of EXLEN bytes or more *)
Theorem C05_ex_exec_guard : forall ln, (EXLEN <= Z.of_nat (cstrlen ln))%Z -> ex_exec ln = TooLong.
Proof. exact ex_exec_guard. Qed.
Print Assumptions C05_ex_exec_guard.

(* the whole parse loop of ex_exec (ex_loc, ex_cmd, ex_idx, ex_arg, the scan of ex_txt, repeated
   until the end of the line) on any C string: rejected as too long, or parsed to the end with no
   out-of-bounds access, and the loop terminates (the fuel, length + 1 iterations, is not used up) *)
Theorem C05_ex_exec_safe : forall ln, nonul ln ->
  match ex_exec ln with
  | TooLong => (EXLEN <= Z.of_nat (length ln))%Z
  | Parsed r => (Z.of_nat (length ln) < EXLEN)%Z /\ exists l, r = Ok l
  end.
Proof. exact ex_exec_safe. Qed.
Print Assumptions C05_ex_exec_safe.

(* term.c: for every sequence of term_push (any non-negative length), term_read (any outcome of the
   one-byte refill) and term_cmd calls from the initial state, no store lands outside ibuf[IBUFSZ],
   no load outside its filled part, and the counters satisfy 0 <= pos <= cnt <= IBUFSZ *)
Theorem C05_term_push_bounded : forall ops, Forall op_ok ops ->
  exists t, t_run t_init ops = Ok t /\ (0 <= ibuf_pos t)%Z /\ (ibuf_pos t <= ibuf_cnt t)%Z /\ (ibuf_cnt t <= IBUFSZ)%Z.
Proof. exact term_push_bounded. Qed.
Print Assumptions C05_term_push_bounded.

(* a push inserts exactly min(n, room left) new bytes in front of the unread keys; the read position stays *)
Theorem C05_term_push_clipped : forall t n t', tinv t -> (0 <= n)%Z -> t_step t (TPush n) = Ok t' ->
  ibuf_pos t' = ibuf_pos t /\ ibuf_cnt t' = (ibuf_cnt t + Z.min n (IBUFSZ - ibuf_cnt t))%Z /\
  (ibuf_cnt t' <= IBUFSZ)%Z /\ icmd_pos t' = icmd_pos t.
Proof. exact term_push_clipped. Qed.
Print Assumptions C05_term_push_clipped.

(* recording into icmd[ICMDSZ] never stores past it, for the same operation sequences *)
Theorem C05_icmd_bounded : forall ops, Forall op_ok ops ->
  exists t, t_run t_init ops = Ok t /\ (0 <= icmd_pos t)%Z /\ (icmd_pos t <= ICMDSZ)%Z.
Proof. exact icmd_bounded. Qed.
Print Assumptions C05_icmd_bounded.

(* ex_region (as repaired: the address-less path checks xrow): for every address string, every
   current line xrow, every buffer length len >= 0 and ANY function in place of ex_lineno (any
   integer, any new position, even a failing one), a region that is not refused satisfies
   0 <= beg <= end <= len *)
Theorem C05_region_in_range : forall len, (0 <= len)%Z ->
  forall (lineno : Z -> bytes -> nat -> res (Z * nat)) loc xrow b e x,
  ex_region len lineno loc xrow = Ok (ROk b e, x) -> (0 <= b /\ b <= e /\ e <= len)%Z.
Proof. exact ex_region_range. Qed.
Print Assumptions C05_region_in_range.

(* ex_region reads the address string only up to its terminator and its loop terminates, provided
   ex_lineno leaves the position inside the string ... *)
Theorem C05_region_reads_safe : forall len (lineno : Z -> bytes -> nat -> res (Z * nat)),
  (forall xrow s i, (i <= length s)%nat ->
     exists n j, lineno xrow s i = Ok (n, j) /\ (i <= j)%nat /\ (j <= length s)%nat) ->
  forall loc xrow, exists r, ex_region len lineno loc xrow = Ok r.
Proof. exact ex_region_total. Qed.
Print Assumptions C05_region_reads_safe.

(* ... which the model of ex_lineno does, for any mark table that stores nothing under the
   terminator byte (markidx(0) = -1) and any search that reports a position inside the string *)
Theorem C05_lineno_stays_inside : forall len mark search, mark 0%N = None ->
  (forall xrow s i, (i < length s)%nat -> (i <= snd (search xrow s i))%nat /\ (snd (search xrow s i) <= length s)%nat) ->
  forall xrow s i, (i <= length s)%nat ->
  exists n j, ex_lineno len mark search xrow s i = Ok (n, j) /\ (i <= j)%nat /\ (j <= length s)%nat.
Proof. exact ex_lineno_ok. Qed.
Print Assumptions C05_lineno_stays_inside.

(* ec_set: tok[EXLEN] (cutword) and opt[EXLEN] (the three strcpy calls) hold what an argument
   shorter than EXLEN can put into them *)
Theorem C05_ec_set_fits : forall arg, (length arg < excap)%nat -> exists r, ec_set_bufs arg = Ok r.
Proof. exact ec_set_bufs_spec. Qed.
Print Assumptions C05_ec_set_fits.

(* cutword and ex_plus into any buffer with more room than what is left of the source *)
Theorem C05_cutword_fits : forall s i w, (i <= length s)%nat -> (length s < i + wroom w)%nat ->
  exists i' w', cutword s i w = Ok (i', w') /\ (i <= i')%nat /\ (i' <= length s)%nat /\
                (wlen w' <= wlen w + (i' - i) + 1)%nat /\ wcap w' = wcap w.
Proof. exact cutword_spec. Qed.
Print Assumptions C05_cutword_fits.

Theorem C05_ex_plus_fits : forall s i w, (i <= length s)%nat -> (length s < i + wroom w)%nat ->
  exists i' w', ex_plus s i w = Ok (i', w') /\ (i <= i')%nat /\ (i' <= length s)%nat /\
                (wlen w' <= wlen w + (i' - i) + 1)%nat.
Proof. exact ex_plus_spec. Qed.
Print Assumptions C05_ex_plus_fits.

(* non-vacuity: the hypotheses are satisfiable and the models compute on a literal command line *)
Example C05_nonvacuous :
  let ln := [49; 44; 50; 115; 47; 97; 47; 98; 47; 124; 112]%N in      (* 1,2s/a/b/|p *)
  (Z.of_nat (length ln) < EXLEN)%Z /\ nonul ln /\
  (match ex_exec ln with Parsed (Ok [p1; p2]) => p_loc p1 = [49; 44; 50]%N /\ p_cmd p1 = [115]%N /\ p_cmd p2 = [112]%N | _ => False end) /\
  Forall op_ok [TPush 5000; TRead None; TCmd; TRead (Some 1)]%Z /\
  ex_region 5 (ex_lineno 5 (fun _ => None) (fun _ _ i => (None, i))) [50; 44; 52]%N 0 = Ok (ROk 1 4, 0%Z).
Proof.
  cbv zeta. split; [reflexivity|]. split.
  { repeat constructor. }
  split; [vm_compute; repeat split; reflexivity|]. split; [|reflexivity].
  repeat constructor; cbn; try exact I; discriminate.
Qed.

(* the model has teeth: without the guard a line of EXLEN address bytes overflows loc[EXLEN]; without
   the clip a push overflows ibuf *)
Example C05_guard_needed : ex_exec_unguarded (repeat 49%N excap) = OobWr.
Proof. vm_compute. reflexivity. Qed.
Example C05_clip_needed : t_step_noclip t_init (TPush (IBUFSZ + 1)) = OobWr.
Proof. vm_compute. reflexivity. Qed.
