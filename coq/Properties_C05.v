(* Properties_C05.v -- C05 (proved part): capacity arithmetic of the fixed-size buffers that input
   can reach.  Statements only; every proof is `exact <lemma>`; Print Assumptions under each. *)
From Coq Require Import List NArith ZArith.
From NV Require Import Bytes GenConsts GenExCmds CapDefs CapProps.
Import ListNotations.

(* ex_exec rejects, without parsing, a command line of EXLEN bytes or more *)
Theorem C05_ex_exec_guard : forall ln, (EXLEN <= Z.of_nat (cstrlen ln))%Z -> ex_exec ln = TooLong.
Proof. exact ex_exec_guard. Qed.
Print Assumptions C05_ex_exec_guard.
