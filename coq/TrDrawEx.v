(* TrDrawEx.v -- a concrete memory on which the translated drawing functions of vi.c RUN (non-vacuity examples of Properties_C19.v). *)
From Coq Require Import List ZArith NArith Bool Lia.
From NV Require Import Bytes CLite CLiteProps GenCFuncs CLiteTac CLiteExt TrLbufBase DrawWinDefs TrDrawBase.
Import ListNotations.
Local Open Scope Z_scope.

(* ------------------------------------------------------------------ a concrete memory (for the examples of Properties_C19.v) *)
(* three lines "ab\n" "c\n" "d\n"; blocks behind the globals: the struct lbuf, its table ln, the three lines, the log *)
Definition ex_base : nat := length cglobals.
Definition ex_lines : list bytes := [[97; 98; 10]; [99; 10]; [100; 10]]%N.
Definition ex_lbuf_blk : block := repeat (VInt 0) 64 ++ [VPtr (ex_base + 1) 0; VInt 0; VInt 3; VInt 4] ++ repeat (VInt 0) 7.
Definition ex_mem (xtop xrow xhll : Z) : mem :=
  upd (upd (upd (upd cglobals G_bufs (upd gb_bufs BUFS_LB (VPtr ex_base 0))) G_xtop [VInt xtop]) G_xrow [VInt xrow]) G_xhll [VInt xhll]
  ++ [ex_lbuf_blk; [VPtr (ex_base + 2) 0; VPtr (ex_base + 3) 0; VPtr (ex_base + 4) 0; VUndef];
      cstr_block (zb (nth 0 ex_lines [])); cstr_block (zb (nth 1 ex_lines [])); cstr_block (zb (nth 2 ex_lines [])); []].
Definition ex_kl : nat := (ex_base + 5)%nat.
Definition ex_v (xtop xrow xhll : Z) : vst := mkV xrow xtop 0 0 xhll 1.
Lemma ex_draw_mem xtop xrow xhll : draw_mem (ex_mem xtop xrow xhll) ex_kl (ex_v xtop xrow xhll) ex_base (ex_base + 1) [ex_base + 2; ex_base + 3; ex_base + 4]%nat ex_lines [].
Proof.
  constructor; try reflexivity.
  - constructor; try reflexivity.
    + eexists. split; reflexivity.
    + eexists. split; [reflexivity|split; reflexivity].
    + eexists. split; [reflexivity|]. intros [|[|[|i]]] Hi; try reflexivity. cbn in Hi. lia.
    + intros [|[|[|i]]] Hi; try reflexivity. cbn in Hi. lia.
    + repeat constructor; unfold byte_ok; lia.
    + cbn. lia.
  - vm_compute. lia.
  - vm_compute. intuition congruence.
  - intros g Hg. vm_compute in Hg |- *. intuition congruence.
Qed.
