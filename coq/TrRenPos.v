(* TrRenPos.v -- uc_chop (uc.c), conf_placeholder (conf.c), ren_placeholder, ren_cwid and the FAST PATH of
   ren_position (ren.c): the hand-written models (UcDefs.uc_chop, RenDefs.ren_placeholder / ren_cwid / ren_fast)
   are what the C text says.  With ren_position proved, the theorems of TrRen2.v that are relative to a call of
   ren_position (ren_off, ren_pos, ren_next, ren_cursor) become unconditional for lines that are not reordered.
   Imports TrUc / TrUcTab (uc_slen, uc_next, uc_len, uc_code, find) and TrRen / TrRen2. *)
From Coq Require Import List ZArith NArith Bool Lia.
From NV Require Import Bytes UcDefs GenUcTables GenConf GenConsts RenDefs RenProps CLite CLiteProps GenCFuncs CLiteTac TrUc TrUcTab TrRen TrRen2.
Import ListNotations.
Local Open Scope Z_scope.

(* ------------------------------------------------------------------ generic list / memory facts *)
Lemma upd_app_l {A} (a r : list A) i x : (i < length a)%nat -> upd (a ++ r) i x = upd a i x ++ r.
Proof.
  intro H. unfold upd. rewrite firstn_app, skipn_app. replace (i - length a)%nat with 0%nat by lia.
  replace (S i - length a)%nat with 0%nat by lia. cbn [firstn skipn]. rewrite app_nil_r, <- app_assoc. reflexivity.
Qed.
Lemma upd_mid {A} (pre rest : list A) y x : upd (pre ++ y :: rest) (length pre) x = (pre ++ [x]) ++ rest.
Proof.
  unfold upd. rewrite firstn_app, Nat.sub_diag, firstn_all. cbn [firstn]. rewrite app_nil_r, <- app_assoc. f_equal.
  cbn [app]. f_equal. rewrite skipn_app, skipn_all2 by lia. replace (S (length pre) - length pre)%nat with 1%nat by lia. reflexivity.
Qed.
Lemma chk_I32' z : -2147483648 <= z <= 2147483647 -> chk I32 z = Ok z.
Proof. apply chk_I32. Qed.

(* ------------------------------------------------------------------ uc_chop *)
Definition chop_loop : stmt := match fn_body cf_uc_chop with SSeq _ (SSeq _ (SSeq (SSeq _ w) _)) => w | _ => SSkip end.
Definition cptr (b : nat) (k : nat) : val := VPtr b (Z.of_nat k).

Lemma uc_next_in t : (uc_next t <= length t)%nat.
Proof. apply uc_next_le. Qed.

Lemma chop_loop_ok F d m1 b s nb nblk no n : str_at m1 b s -> nonul s -> (length s < F)%nat ->
  nth_error m1 nb = Some nblk -> 0 <= no -> nth_error nblk (Z.to_nat no) = Some (VInt (Z.of_nat n)) ->
  Z.of_nat n < 2147483647 ->
  forall k i p pre fuel, (i + k = S n)%nat -> length pre = i -> (p <= length s)%nat -> (k < fuel)%nat ->
  exists p',
  exec (callf cprog F (S (S d))) fuel chop_loop
       (mkst [VPtr b (Z.of_nat p); VPtr nb no; VPtr (length m1) 0; VInt (Z.of_nat i)] (m1 ++ [pre ++ repeat VUndef k]))
  = ONormal (mkst [VPtr b p'; VPtr nb no; VPtr (length m1) 0; VInt (Z.of_nat (S n))]
                  (m1 ++ [pre ++ map (cptr b) (uc_chop_f k (skipn p s) p)])).
Proof.
  intros Hs Hnn HF Hnb Hno Hn Hmax. pose proof (nonul_lt256 s Hnn) as H256.
  assert (Hb : (b < length m1)%nat) by (apply nth_error_Some; unfold str_at in Hs; congruence).
  assert (Hnbl : (nb < length m1)%nat) by (apply nth_error_Some; congruence).
  assert (Hld : forall blk, load (m1 ++ [blk]) nb no = Ok (VInt (Z.of_nat n))).
  { intro blk. unfold load. rewrite nth_error_app1 by exact Hnbl. rewrite Hnb.
    destruct (Z.ltb_spec no 0); [lia|]. rewrite Hn. reflexivity. }
  induction k as [|k IH]; intros i p pre fuel Hik Hpre Hp Hf; (destruct fuel as [|fuel]; [lia|]);
    unfold chop_loop; cbn [fn_body cf_uc_chop]; rewrite exec_for; xstep; rewrite Hld; xstep;
    rewrite (wrap_I32_id (Z.of_nat n)) by lia; rewrite chk_I32 by lia; xstep.
  - destruct (Z.ltb_spec (Z.of_nat i) (Z.of_nat n + 1)); [lia|]. xstep.
    assert (Hi : i = S n) by lia. rewrite Hi. cbn [uc_chop_f map repeat]. eexists; reflexivity.
  - destruct (Z.ltb_spec (Z.of_nat i) (Z.of_nat n + 1)); [|lia]. xstep.
    replace (0 + 1 * Z.of_nat i) with (Z.of_nat (length pre)) by lia.
    cbn [repeat].
    rewrite (store_ok (m1 ++ [pre ++ VUndef :: repeat VUndef k]) (length m1) (pre ++ VUndef :: repeat VUndef k))
      by (try apply nth_error_app_new; rewrite app_length; cbn [length]; lia).
    xstep. rewrite Nat2Z.id, upd_app_new, upd_mid.
    assert (Hs' : forall blk, str_at (m1 ++ [blk]) b s) by (intro blk; unfold str_at; rewrite nth_error_app1 by exact Hb; exact Hs).
    rewrite (tr_uc_next _ b s p d F (Hs' _) H256 Hp HF). xstep.
    rewrite chk_I32 by lia. xstep.
    replace (Z.of_nat i + 1) with (Z.of_nat (S i)) by lia.
    pose proof (uc_next_in (skipn p s)) as Hnx. rewrite skipn_length in Hnx.
    destruct (IH (S i) (p + uc_next (skipn p s))%nat (pre ++ [VPtr b (Z.of_nat p)]) fuel) as [p' X];
      try lia; [rewrite app_length; cbn [length]; lia|].
    unfold chop_loop in X; cbn [fn_body cf_uc_chop] in X. exists p'. refine (eq_trans X _).
    cbn [uc_chop_f map]. rewrite skipn_skipn, <- app_assoc. cbn [app]. unfold cptr at 3.
    replace (uc_next (skipn p s) + p)%nat with (p + uc_next (skipn p s))%nat by lia. reflexivity.
Qed.

(* uc_chop(s, &n): *n = uc_slen(s); the result is a fresh block holding the n + 1 character-start pointers
   (the model's offsets into s; the last one is the terminator); nothing else changes *)
Theorem tr_uc_chop m b s nb nblk no d fuel : str_at m b s -> nonul s ->
  nth_error m nb = Some nblk -> 0 <= no < Z.of_nat (length nblk) -> nb <> b ->
  (S (length s) < fuel)%nat -> Z.of_nat (length s) < 2147483647 ->
  callf cprog fuel (S (S (S d))) F_uc_chop [VPtr b 0; VPtr nb no] m
  = Ok (VPtr (length m) 0,
        upd m nb (upd nblk (Z.to_nat no) (VInt (Z.of_nat (uc_slen s)))) ++ [map (cptr b) (uc_chop s)]).
Proof.
  intros Hs Hnn Hnb Hno Hne Hf Hmax. pose proof (uc_slen_le s) as Hn.
  assert (Hnbl : (nb < length m)%nat) by (apply nth_error_Some; congruence).
  enter F_uc_chop cf_uc_chop. xstep.
  pose proof (tr_uc_slen m b s 0 d fuel Hs Hnn ltac:(lia) ltac:(lia) ltac:(lia)) as E. change (Z.of_nat 0) with 0 in E.
  rewrite E; clear E. cbn [skipn]. xstep.
  rewrite (wrap_I32_id (Z.of_nat (uc_slen s))) by lia.
  rewrite (store_ok m nb nblk no _ Hnb Hno). xstep.
  set (n := uc_slen s) in *. set (m1 := upd m nb (upd nblk (Z.to_nat no) (VInt (Z.of_nat n)))).
  assert (Hnb1 : nth_error m1 nb = Some (upd nblk (Z.to_nat no) (VInt (Z.of_nat n)))) by (apply mem_upd_same; exact Hnbl).
  assert (Hs1 : str_at m1 b s) by (apply str_at_upd_other; [exact Hnbl|congruence|exact Hs]).
  assert (Hcell : nth_error (upd nblk (Z.to_nat no) (VInt (Z.of_nat n))) (Z.to_nat no) = Some (VInt (Z.of_nat n)))
    by (apply nth_error_upd_same; lia).
  unfold load. rewrite Hnb1. destruct (Z.ltb_spec no 0); [lia|]. rewrite Hcell. xstep.
  rewrite (wrap_I32_id (Z.of_nat n)) by lia. rewrite chk_I32 by lia. xstep.
  unfold wrap at 1. cbn [ity_bits ity_signed andb]. rewrite (Z.mod_small (Z.of_nat n + 1)) by (change (2 ^ 64) with 18446744073709551616; lia).
  unfold chk. cbn [ity_signed]. rewrite (wrap_U64_id ((Z.of_nat n + 1) * 8)) by lia. xstep.
  destruct (Z.eqb_spec 8 0); [lia|]. rewrite Z.quot_mul by lia. rewrite (wrap_U64_id (Z.of_nat n + 1)) by lia. xstep.
  rewrite malloc_ok by lia. xstep.
  assert (Hlen : length m1 = length m) by (unfold m1; apply upd_length; exact Hnbl).
  rewrite <- Hlen.
  destruct (chop_loop_ok fuel d m1 b s nb _ no n Hs1 Hnn ltac:(lia) Hnb1 ltac:(lia) Hcell ltac:(lia)
              (S n) 0%nat 0%nat [] fuel ltac:(lia) eq_refl ltac:(lia) ltac:(lia)) as [p' X].
  unfold chop_loop in X; cbn [fn_body cf_uc_chop] in X. cbn [app] in X.
  replace (Z.to_nat (Z.of_nat n + 1)) with (S n) by lia. change (Z.of_nat 0) with 0 in X. rewrite X. xstep.
  reflexivity.
Qed.
