(* TrRenPos.v -- uc_chop (uc.c), conf_placeholder (conf.c), ren_placeholder, ren_cwid and the FAST PATH of
   ren_position (ren.c): the hand-written models (UcDefs.uc_chop, RenDefs.ren_placeholder / ren_cwid / ren_fast)
   are what the C text says.  With ren_position proved, the theorems of TrRen2.v that are relative to a call of
   ren_position (ren_off, ren_pos, ren_next, ren_cursor) become unconditional for lines that are not reordered.
   Imports TrUc / TrUcTab (uc_slen, uc_next, uc_len, uc_code, find) and TrRen / TrRen2. *)
From Coq Require Import List ZArith NArith Bool Lia.
From NV Require Import Bytes UcDefs GenUcTables GenConf GenConsts RenDefs RenProps CLite CLiteProps GenCFuncs CLiteTac TrUc TrUcTab TrRen TrRen2.
Import ListNotations.
Local Open Scope Z_scope.

(* ------------------------------------------------------------------ generic list / memory facts *)
Lemma upd_app_l {A} (a r : list A) i x : (i < length a)%nat -> upd (a ++ r) i x = upd a i x ++ r.
Proof.
  intro H. unfold upd. rewrite firstn_app, skipn_app. replace (i - length a)%nat with 0%nat by lia.
  replace (S i - length a)%nat with 0%nat by lia. cbn [firstn skipn]. rewrite app_nil_r, <- app_assoc. reflexivity.
Qed.
Lemma upd_mid {A} (pre rest : list A) y x : upd (pre ++ y :: rest) (length pre) x = (pre ++ [x]) ++ rest.
Proof.
  unfold upd. rewrite firstn_app, Nat.sub_diag, firstn_all. cbn [firstn]. rewrite app_nil_r, <- app_assoc. f_equal.
  cbn [app]. f_equal. rewrite skipn_app, skipn_all2 by lia. replace (S (length pre) - length pre)%nat with 1%nat by lia. reflexivity.
Qed.
Lemma chk_I32' z : -2147483648 <= z <= 2147483647 -> chk I32 z = Ok z.
Proof. apply chk_I32. Qed.

(* ------------------------------------------------------------------ uc_chop *)
Definition chop_loop : stmt := match fn_body cf_uc_chop with SSeq _ (SSeq _ (SSeq (SSeq _ w) _)) => w | _ => SSkip end.
Definition cptr (b : nat) (k : nat) : val := VPtr b (Z.of_nat k).

Lemma uc_next_in t : (uc_next t <= length t)%nat.
Proof. apply uc_next_le. Qed.

Lemma chop_loop_ok F d m1 b s nb nblk no n : str_at m1 b s -> nonul s -> (length s < F)%nat ->
  nth_error m1 nb = Some nblk -> 0 <= no -> nth_error nblk (Z.to_nat no) = Some (VInt (Z.of_nat n)) ->
  Z.of_nat n < 2147483647 ->
  forall k i p pre fuel, (i + k = S n)%nat -> length pre = i -> (p <= length s)%nat -> (k < fuel)%nat ->
  exists p',
  exec (callf cprog F (S (S d))) fuel chop_loop
       (mkst [VPtr b (Z.of_nat p); VPtr nb no; VPtr (length m1) 0; VInt (Z.of_nat i)] (m1 ++ [pre ++ repeat VUndef k]))
  = ONormal (mkst [VPtr b p'; VPtr nb no; VPtr (length m1) 0; VInt (Z.of_nat (S n))]
                  (m1 ++ [pre ++ map (cptr b) (uc_chop_f k (skipn p s) p)])).
Proof.
  intros Hs Hnn HF Hnb Hno Hn Hmax. pose proof (nonul_lt256 s Hnn) as H256.
  assert (Hb : (b < length m1)%nat) by (apply nth_error_Some; unfold str_at in Hs; congruence).
  assert (Hnbl : (nb < length m1)%nat) by (apply nth_error_Some; congruence).
  assert (Hld : forall blk, load (m1 ++ [blk]) nb no = Ok (VInt (Z.of_nat n))).
  { intro blk. unfold load. rewrite nth_error_app1 by exact Hnbl. rewrite Hnb.
    destruct (Z.ltb_spec no 0); [lia|]. rewrite Hn. reflexivity. }
  induction k as [|k IH]; intros i p pre fuel Hik Hpre Hp Hf; (destruct fuel as [|fuel]; [lia|]);
    unfold chop_loop; cbn [fn_body cf_uc_chop]; rewrite exec_for; xstep; rewrite Hld; xstep;
    rewrite (wrap_I32_id (Z.of_nat n)) by lia; rewrite chk_I32 by lia; xstep.
  - destruct (Z.ltb_spec (Z.of_nat i) (Z.of_nat n + 1)); [lia|]. xstep.
    assert (Hi : i = S n) by lia. rewrite Hi. cbn [uc_chop_f map repeat]. eexists; reflexivity.
  - destruct (Z.ltb_spec (Z.of_nat i) (Z.of_nat n + 1)); [|lia]. xstep.
    replace (0 + 1 * Z.of_nat i) with (Z.of_nat (length pre)) by lia.
    cbn [repeat].
    rewrite (store_ok (m1 ++ [pre ++ VUndef :: repeat VUndef k]) (length m1) (pre ++ VUndef :: repeat VUndef k))
      by (try apply nth_error_app_new; rewrite app_length; cbn [length]; lia).
    xstep. rewrite Nat2Z.id, upd_app_new, upd_mid.
    assert (Hs' : forall blk, str_at (m1 ++ [blk]) b s) by (intro blk; unfold str_at; rewrite nth_error_app1 by exact Hb; exact Hs).
    rewrite (tr_uc_next _ b s p d F (Hs' _) H256 Hp HF). xstep.
    rewrite chk_I32 by lia. xstep.
    replace (Z.of_nat i + 1) with (Z.of_nat (S i)) by lia.
    pose proof (uc_next_in (skipn p s)) as Hnx. rewrite skipn_length in Hnx.
    destruct (IH (S i) (p + uc_next (skipn p s))%nat (pre ++ [VPtr b (Z.of_nat p)]) fuel) as [p' X];
      try lia; [rewrite app_length; cbn [length]; lia|].
    unfold chop_loop in X; cbn [fn_body cf_uc_chop] in X. exists p'. refine (eq_trans X _).
    cbn [uc_chop_f map]. rewrite skipn_skipn, <- app_assoc. cbn [app]. unfold cptr at 3.
    replace (uc_next (skipn p s) + p)%nat with (p + uc_next (skipn p s))%nat by lia. reflexivity.
Qed.

(* uc_chop(s, &n): *n = uc_slen(s); the result is a fresh block holding the n + 1 character-start pointers
   (the model's offsets into s; the last one is the terminator); nothing else changes *)
Theorem tr_uc_chop m b s nb nblk no d fuel : str_at m b s -> nonul s ->
  nth_error m nb = Some nblk -> 0 <= no < Z.of_nat (length nblk) -> nb <> b ->
  (S (length s) < fuel)%nat -> Z.of_nat (length s) < 2147483647 ->
  callf cprog fuel (S (S (S d))) F_uc_chop [VPtr b 0; VPtr nb no] m
  = Ok (VPtr (length m) 0,
        upd m nb (upd nblk (Z.to_nat no) (VInt (Z.of_nat (uc_slen s)))) ++ [map (cptr b) (uc_chop s)]).
Proof.
  intros Hs Hnn Hnb Hno Hne Hf Hmax. pose proof (uc_slen_le s) as Hn.
  assert (Hnbl : (nb < length m)%nat) by (apply nth_error_Some; congruence).
  enter F_uc_chop cf_uc_chop. xstep.
  pose proof (tr_uc_slen m b s 0 d fuel Hs Hnn ltac:(lia) ltac:(lia) ltac:(lia)) as E. change (Z.of_nat 0) with 0 in E.
  rewrite E; clear E. cbn [skipn]. xstep.
  rewrite (wrap_I32_id (Z.of_nat (uc_slen s))) by lia.
  rewrite (store_ok m nb nblk no _ Hnb Hno). xstep.
  set (n := uc_slen s) in *. set (m1 := upd m nb (upd nblk (Z.to_nat no) (VInt (Z.of_nat n)))).
  assert (Hnb1 : nth_error m1 nb = Some (upd nblk (Z.to_nat no) (VInt (Z.of_nat n)))) by (apply mem_upd_same; exact Hnbl).
  assert (Hs1 : str_at m1 b s) by (apply str_at_upd_other; [exact Hnbl|congruence|exact Hs]).
  assert (Hcell : nth_error (upd nblk (Z.to_nat no) (VInt (Z.of_nat n))) (Z.to_nat no) = Some (VInt (Z.of_nat n)))
    by (apply nth_error_upd_same; lia).
  unfold load. rewrite Hnb1. destruct (Z.ltb_spec no 0); [lia|]. rewrite Hcell. xstep.
  rewrite (wrap_I32_id (Z.of_nat n)) by lia. rewrite chk_I32 by lia. xstep.
  unfold wrap at 1. cbn [ity_bits ity_signed andb]. rewrite (Z.mod_small (Z.of_nat n + 1)) by (change (2 ^ 64) with 18446744073709551616; lia).
  unfold chk. cbn [ity_signed]. rewrite (wrap_U64_id ((Z.of_nat n + 1) * 8)) by lia. xstep.
  destruct (Z.eqb_spec 8 0); [lia|]. rewrite Z.quot_mul by lia. rewrite (wrap_U64_id (Z.of_nat n + 1)) by lia. xstep.
  rewrite malloc_ok by lia. xstep.
  assert (Hlen : length m1 = length m) by (unfold m1; apply upd_length; exact Hnbl).
  rewrite <- Hlen.
  destruct (chop_loop_ok fuel d m1 b s nb _ no n Hs1 Hnn ltac:(lia) Hnb1 ltac:(lia) Hcell ltac:(lia)
              (S n) 0%nat 0%nat [] fuel ltac:(lia) eq_refl ltac:(lia) ltac:(lia)) as [p' X].
  unfold chop_loop in X; cbn [fn_body cf_uc_chop] in X. cbn [app] in X.
  replace (Z.to_nat (Z.of_nat n + 1)) with (S n) by lia. change (Z.of_nat 0) with 0 in X. rewrite X. xstep.
  reflexivity.
Qed.

(* ------------------------------------------------------------------ the read-only data ren_cwid uses *)
(* globals_at fixes EVERY global at its initial value; ren_placeholder changes its static `bits`, and xorder / xlim
   are options.  What the functions below need is weaker: the range tables of uc.c, the placeholder table with
   its string literals, the "" of uc_chr and the bell glyph are where the program put them. *)
Definition ph_ptr_g (v : val) : list nat := match v with VPtr g _ => [g] | _ => [] end.
Definition ren_ro : list nat :=
  [G_dwchars; G_zwchars; G_bchars; G_placeholders; G_lit__0; G_lit_efbfbd_3] ++ flat_map ph_ptr_g gb_placeholders.
Definition ro_g (g : nat) : bool := existsb (Nat.eqb g) ren_ro.
Definition ro_at (m : mem) : Prop := forall g, ro_g g = true -> nth_error m g = nth_error cglobals g.
Definition G_bits : nat := G_ren_placeholder__bits.

Lemma ro_at_globals m : globals_at m -> ro_at m.
Proof.
  intros H g Hg. destruct (nth_error cglobals g) as [blk|] eqn:E; [apply H; exact E|].
  exfalso. unfold ro_g in Hg. apply existsb_exists in Hg. destruct Hg as [x [Hin Hx]]. apply Nat.eqb_eq in Hx. subst x.
  apply nth_error_None in E. revert Hin. generalize g E. clear.
  assert (Forall (fun x => (x < length cglobals)%nat) ren_ro) as F
    by (apply Forall_forall; intros x Hx; apply Nat.ltb_lt; revert x Hx; apply forallb_forall; vm_compute; reflexivity).
  rewrite Forall_forall in F. intros g E Hin. specialize (F g Hin). lia.
Qed.
Lemma ro_lt m g : ro_at m -> ro_g g = true -> (g < length m)%nat.
Proof.
  intros H Hg. apply nth_error_Some. rewrite (H g Hg). apply nth_error_Some.
  unfold ro_g in Hg. apply existsb_exists in Hg. destruct Hg as [x [Hin Hx]]. apply Nat.eqb_eq in Hx. subst x.
  revert g Hin. apply Forall_forall. apply Forall_forall. intros x Hx. apply Nat.ltb_lt. revert x Hx. apply forallb_forall.
  vm_compute. reflexivity.
Qed.

(* uc_isdw / uc_iszw / uc_wid / uc_isbell once more, under ro_at instead of globals_at (same proofs as TrUcTab.v) *)
Lemma ro_dw m : ro_at m -> nth_error m G_dwchars = Some (tab_block dwchars).
Proof. intro H. rewrite (H G_dwchars eq_refl), <- gb_dwchars_eq. reflexivity. Qed.
Lemma ro_zw m : ro_at m -> nth_error m G_zwchars = Some (tab_block zwchars).
Proof. intro H. rewrite (H G_zwchars eq_refl), <- gb_zwchars_eq. reflexivity. Qed.
Lemma ro_bc m : ro_at m -> nth_error m G_bchars = Some (tab_block bchars).
Proof. intro H. rewrite (H G_bchars eq_refl), <- gb_bchars_eq. reflexivity. Qed.

Theorem tr_uc_isdw_ro m c d fuel : ro_at m -> int_ok c -> (length dwchars < fuel)%nat ->
  callf cprog fuel (S (S d)) F_uc_isdw [VInt c] m = Ok (VInt (b2z (uc_isdw c)), m).
Proof.
  intros Hg Hc Hf. enter F_uc_isdw cf_uc_isdw. xstep. unfold uc_isdw.
  unfold dw_min. match goal with |- context [?k <=? c] => destruct (k <=? c) end; xstep; [|reflexivity].
  eval_len dwchars.
  destruct tables_sorted as [S1 _].
  rewrite (tr_find m G_dwchars dwchars c (RenDefs.mem dwchars c) d fuel); try assumption.
  - xstep. unfold find_b. rewrite (tfind_is_membership _ _ S1). destruct (RenDefs.mem dwchars c); reflexivity.
  - apply ro_dw. exact Hg.
  - apply tab_okb_sound. vm_compute. reflexivity.
  - vm_compute. lia.
  - vm_compute. discriminate.
  - apply tfind_is_membership. exact S1.
Qed.
Theorem tr_uc_iszw_ro m c d fuel : ro_at m -> int_ok c -> (length zwchars < fuel)%nat ->
  callf cprog fuel (S (S d)) F_uc_iszw [VInt c] m = Ok (VInt (b2z (uc_iszw c)), m).
Proof.
  intros Hg Hc Hf. enter F_uc_iszw cf_uc_iszw. xstep. unfold uc_iszw.
  unfold zw_min. match goal with |- context [?k <=? c] => destruct (k <=? c) end; xstep; [|reflexivity].
  eval_len zwchars.
  destruct tables_sorted as [_ [S2 _]].
  rewrite (tr_find m G_zwchars zwchars c (RenDefs.mem zwchars c) d fuel); try assumption.
  - xstep. unfold find_b. rewrite (tfind_is_membership _ _ S2). destruct (RenDefs.mem zwchars c); reflexivity.
  - apply ro_zw. exact Hg.
  - apply tab_okb_sound. vm_compute. reflexivity.
  - vm_compute. lia.
  - vm_compute. discriminate.
  - apply tfind_is_membership. exact S2.
Qed.
Theorem tr_uc_wid_ro m b s o d fuel : ro_at m ->
  str_at m b s -> bytes_lt256 s -> (o + uc_len_b (nthb s o) - 1 <= length s)%nat -> (o <= length s)%nat ->
  (fuel_tabs <= fuel)%nat ->
  callf cprog fuel (S (S (S d))) F_uc_wid [VPtr b (Z.of_nat o)] m = Ok (VInt (uc_wid (skipn o s)), m).
Proof.
  intros Hg Hs H256 Hlen Ho Hf. unfold fuel_tabs in Hf. enter F_uc_wid cf_uc_wid. xstep.
  rewrite (tr_uc_code m b s o (S d) fuel Hs H256 Hlen Ho). xstep.
  pose proof (uc_code_int_ok (skipn o s) (Forall_skipn' _ o s H256)) as Hc.
  rewrite (tr_uc_iszw_ro m _ d fuel Hg Hc) by lia. xstep. unfold uc_wid.
  destruct (uc_iszw (Z.of_N (uc_code (skipn o s)))); xstep; [reflexivity|].
  rewrite (tr_uc_isdw_ro m _ d fuel Hg Hc) by lia. xstep.
  destruct (uc_isdw (Z.of_N (uc_code (skipn o s)))); xstep; reflexivity.
Qed.
Theorem tr_uc_isbell_ro m b s o d fuel : ro_at m ->
  str_at m b s -> bytes_lt256 s -> (o + uc_len_b (nthb s o) - 1 <= length s)%nat -> (o <= length s)%nat ->
  (fuel_tabs <= fuel)%nat ->
  callf cprog fuel (S (S (S d))) F_uc_isbell [VPtr b (Z.of_nat o)] m = Ok (VInt (b2z (uc_isbell (skipn o s))), m).
Proof.
  intros Hg Hs H256 Hlen Ho Hf. unfold fuel_tabs in Hf. enter F_uc_isbell cf_uc_isbell. xstep.
  xload Hs H256 o. unfold uc_isbell. rewrite hd0_skipn, (plain_ascii_z _ (nthb_lt256 s o H256)).
  pose proof (uc_code_int_ok (skipn o s) (Forall_skipn' _ o s H256)) as Hc.
  destruct tables_sorted as [_ [_ [S3 _]]].
  xif; cbn [orb andb]; try reflexivity;
  (rewrite (tr_uc_code m b s o (S d) fuel Hs H256 Hlen Ho); xstep;
   rewrite (tr_uc_iszw_ro m _ d fuel Hg Hc) by lia; xstep;
   destruct (uc_iszw (Z.of_N (uc_code (skipn o s)))); xstep; [reflexivity|];
   eval_len bchars;
   rewrite (tr_find m G_bchars bchars _ (RenDefs.mem bchars (Z.of_N (uc_code (skipn o s)))) (S d) fuel); try assumption;
   [ xstep; unfold find_b; rewrite (tfind_is_membership _ _ S3); cbn [orb];
     destruct (RenDefs.mem bchars (Z.of_N (uc_code (skipn o s)))); reflexivity
   | apply ro_bc; exact Hg
   | apply tab_okb_sound; vm_compute; reflexivity
   | vm_compute; lia
   | vm_compute; discriminate
   | apply tfind_is_membership; exact S3 ]).
Qed.

(* ------------------------------------------------------------------ the placeholder table in memory *)
Definition ph_dflt : bytes * bytes * Z := ([], [], 0).
Definition nph : nat := length placeholders.
Definition ph_src (i : nat) : bytes := fst (fst (nth i placeholders ph_dflt)).
Definition ph_dst (i : nat) : bytes := snd (fst (nth i placeholders ph_dflt)).
Definition ph_w (i : nat) : Z := snd (nth i placeholders ph_dflt).
Definition ph_src_g (i : nat) : nat := match nth (3 * i) gb_placeholders VUndef with VPtr g _ => g | _ => O end.
Definition ph_dst_g (i : nat) : nat := match nth (3 * i + 1) gb_placeholders VUndef with VPtr g _ => g | _ => O end.
Definition byte_okb (c : N) : bool := ((0 <? c) && (c <? 256))%N.
(* row i of the C initializer (three cells: two pointers to string literals and the width) is row i of the
   table tools/translate.py dumped, the literals are read-only data, the source character is complete *)
Definition ph_row_ok (i : nat) : Prop :=
  nth_error gb_placeholders (3 * i) = Some (VPtr (ph_src_g i) 0) /\
  nth_error gb_placeholders (3 * i + 1) = Some (VPtr (ph_dst_g i) 0) /\
  nth_error gb_placeholders (3 * i + 2) = Some (VInt (ph_w i)) /\
  nth_error cglobals (ph_src_g i) = Some (cstr_block (zb (ph_src i))) /\
  nth_error cglobals (ph_dst_g i) = Some (cstr_block (zb (ph_dst i))) /\
  ro_g (ph_src_g i) = true /\ ro_g (ph_dst_g i) = true /\
  forallb byte_okb (ph_src i) = true /\ forallb byte_okb (ph_dst i) = true /\
  (uc_len_b (nthb (ph_src i) 0) - 1 <=? length (ph_src i))%nat = true /\
  ((-2147483648 <=? ph_w i) && (ph_w i <=? 2147483647)) = true.
Lemma ph_rows : Forall ph_row_ok (seq 0 nph).
Proof.
  let l := eval vm_compute in (seq 0 nph) in change (seq 0 nph) with l.
  repeat (apply Forall_cons; [unfold ph_row_ok; repeat split; vm_compute; reflexivity|]). apply Forall_nil.
Qed.
Lemma ph_row i : (i < nph)%nat -> ph_row_ok i.
Proof. intro H. pose proof ph_rows as F. rewrite Forall_forall in F. apply F. apply in_seq. lia. Qed.
Lemma ph_len : length gb_placeholders = (3 * nph)%nat.
Proof. vm_compute. reflexivity. Qed.
Lemma byte_okb_nonul s : forallb byte_okb s = true -> nonul s.
Proof.
  intro H. unfold nonul. apply Forall_forall. intros x Hx. rewrite forallb_forall in H. specialize (H x Hx).
  unfold byte_okb in H. apply andb_prop in H. destruct H as [A B]. apply N.ltb_lt in A, B. split; assumption.
Qed.

(* ------------------------------------------------------------------ conf_placeholder *)
Ltac eval_div :=
  match goal with
  | |- context [if ?a =? 0 then Err EDivZero else chk U64 (?x ÷ ?a)] =>
      let v := eval vm_compute in (if a =? 0 then @Err Z EDivZero else chk U64 (x ÷ a)) in
      change (if a =? 0 then Err EDivZero else chk U64 (x ÷ a)) with v
  end; xstep;
  match goal with |- context [?k <=? wrap U64 ?i] => change k with (Z.of_nat nph) end.

Lemma load_ptr_cell (m : mem) g (blk : block) o v : nth_error m g = Some blk -> 0 <= o -> nth_error blk (Z.to_nat o) = Some v ->
  load m g o = Ok v.
Proof. intros Hm Ho Hv. unfold load. rewrite Hm. destruct (Z.ltb_spec o 0); [lia|]. rewrite Hv. reflexivity. Qed.

(* an index outside the table: 1, nothing stored *)
Theorem tr_conf_placeholder_out m idx sv dv wv d fuel : -2147483648 <= idx <= 2147483647 ->
  (idx < 0 \/ Z.of_nat nph <= idx) ->
  callf cprog fuel (S d) F_conf_placeholder [VInt idx; sv; dv; wv] m = Ok (VInt 1, m).
Proof.
  intros Hi Hout. enter F_conf_placeholder cf_conf_placeholder. xstep.
  destruct (Z.ltb_spec idx 0); xstep; [reflexivity|].
  eval_div. rewrite wrap_U64_id by lia.
  destruct (Z.leb_spec (Z.of_nat nph) idx); [|lia]. xstep. reflexivity.
Qed.

(* row i: *s, *d, *wid (three one-cell objects, all different) receive the row *)
Theorem tr_conf_placeholder_in m i sb db wb vs vd vw d fuel : nth_error m G_placeholders = Some gb_placeholders ->
  (i < nph)%nat -> nth_error m sb = Some [vs] -> nth_error m db = Some [vd] -> nth_error m wb = Some [vw] ->
  sb <> db -> sb <> wb -> db <> wb -> sb <> G_placeholders -> db <> G_placeholders ->
  callf cprog fuel (S d) F_conf_placeholder [VInt (Z.of_nat i); VPtr sb 0; VPtr db 0; VPtr wb 0] m
  = Ok (VInt 0, upd (upd (upd m sb [VPtr (ph_src_g i) 0]) db [VPtr (ph_dst_g i) 0]) wb [VInt (ph_w i)]).
Proof.
  intros Hg Hi Hsb Hdb Hwb N1 N2 N3 N4 N5.
  destruct (ph_row i Hi) as [R0 [R1 [R2 [_ [_ [_ [_ [_ [_ [_ Rw]]]]]]]]]].
  apply andb_prop in Rw. destruct Rw as [Rw1 Rw2]. apply Z.leb_le in Rw1, Rw2.
  assert (Hnp : Z.of_nat nph <= 2147483647) by (vm_compute; discriminate).
  assert (Lsb : (sb < length m)%nat) by (apply nth_error_Some; congruence).
  assert (Ldb : (db < length m)%nat) by (apply nth_error_Some; congruence).
  enter F_conf_placeholder cf_conf_placeholder. xstep.
  destruct (Z.ltb_spec (Z.of_nat i) 0); [lia|]. xstep.
  eval_div. rewrite wrap_U64_id by lia.
  destruct (Z.leb_spec (Z.of_nat nph) (Z.of_nat i)); [lia|]. xstep.
  rewrite (load_ptr_cell m G_placeholders gb_placeholders (0 + 3 * Z.of_nat i) (VPtr (ph_src_g i) 0) Hg);
    [|lia|replace (Z.to_nat (0 + 3 * Z.of_nat i)) with (3 * i)%nat by lia; exact R0]. xstep.
  rewrite (store_ok m sb [vs] 0 _ Hsb) by (cbn; lia). xstep. change (upd [vs] (Z.to_nat 0) ?x) with [x].
  set (m1 := upd m sb [VPtr (ph_src_g i) 0]).
  assert (Hg1 : nth_error m1 G_placeholders = Some gb_placeholders) by (unfold m1; rewrite mem_upd_other by auto; exact Hg).
  rewrite (load_ptr_cell m1 G_placeholders gb_placeholders (0 + 3 * Z.of_nat i + 1 * 1) (VPtr (ph_dst_g i) 0) Hg1);
    [|lia|replace (Z.to_nat (0 + 3 * Z.of_nat i + 1 * 1)) with (3 * i + 1)%nat by lia; exact R1]. xstep.
  assert (Hdb1 : nth_error m1 db = Some [vd]) by (unfold m1; rewrite mem_upd_other by auto; exact Hdb).
  rewrite (store_ok m1 db [vd] 0 _ Hdb1) by (cbn; lia). xstep. change (upd [vd] (Z.to_nat 0) ?x) with [x].
  set (m2 := upd m1 db [VPtr (ph_dst_g i) 0]).
  assert (L1 : length m1 = length m) by (apply upd_length; exact Lsb).
  assert (Hg2 : nth_error m2 G_placeholders = Some gb_placeholders) by (unfold m2; rewrite mem_upd_other by (auto; lia); exact Hg1).
  rewrite (load_ptr_cell m2 G_placeholders gb_placeholders (0 + 3 * Z.of_nat i + 1 * 2) (VInt (ph_w i)) Hg2);
    [|lia|replace (Z.to_nat (0 + 3 * Z.of_nat i + 1 * 2)) with (3 * i + 2)%nat by lia; exact R2]. xstep.
  assert (Hwb2 : nth_error m2 wb = Some [vw]).
  { unfold m2. rewrite mem_upd_other by (auto; lia). unfold m1. rewrite mem_upd_other by auto. exact Hwb. }
  rewrite !(wrap_I32_id (ph_w i)) by lia.
  rewrite (store_ok m2 wb [vw] 0 _ Hwb2) by (cbn; lia). xstep. reflexivity.
Qed.

(* ------------------------------------------------------------------ ren_placeholder *)
Definition fbits (bv : N) (p : bytes * bytes * Z) : N := N.land bv (hd0 (fst (fst p))).
Lemma ph_bits_fold : ph_bits = fold_left fbits placeholders 65535%N.
Proof. reflexivity. Qed.
Definition bits_ok (m : mem) : Prop := cell_at m G_bits 65535 \/ cell_at m G_bits (Z.of_N ph_bits).

(* the memory while ren_placeholder runs, against the memory m0 after its two mallocs: only the cells of
   src (block sb), dst (db), *wid (wb) and the static bits differ *)
Definition phst (m0 M : mem) (sb db wb : nat) (vs vd vw : val) (bv : Z) : Prop :=
  length M = length m0 /\
  (forall g, g <> sb -> g <> db -> g <> wb -> g <> G_bits -> nth_error M g = nth_error m0 g) /\
  nth_error M sb = Some [vs] /\ nth_error M db = Some [vd] /\ nth_error M wb = Some [vw] /\ cell_at M G_bits bv.
Definition phdist (sb db wb : nat) : Prop :=
  sb <> db /\ sb <> wb /\ db <> wb /\ sb <> G_bits /\ db <> G_bits /\ wb <> G_bits /\
  ro_g sb = false /\ ro_g db = false /\ ro_g wb = false.
Lemma ro_bits : ro_g G_bits = false.
Proof. vm_compute. reflexivity. Qed.

Lemma phst_lt m0 M sb db wb vs vd vw bv : phst m0 M sb db wb vs vd vw bv ->
  (sb < length M)%nat /\ (db < length M)%nat /\ (wb < length M)%nat /\ (G_bits < length M)%nat.
Proof.
  intros [_ [_ [A [B [C D]]]]]. unfold cell_at in D.
  repeat split; apply nth_error_Some; congruence.
Qed.
Lemma phst_upd3 m0 M sb db wb vs vd vw bv x y z : phdist sb db wb -> phst m0 M sb db wb vs vd vw bv ->
  phst m0 (upd (upd (upd M sb [x]) db [y]) wb [z]) sb db wb x y z bv.
Proof.
  intros [N1 [N2 [N3 [N4 [N5 [N6 _]]]]]] H. destruct (phst_lt _ _ _ _ _ _ _ _ _ H) as [L1 [L2 [L3 L4]]].
  destruct H as [HL [HO [A [B [C D]]]]].
  assert (E1 : length (upd M sb [x]) = length M) by (apply upd_length; exact L1).
  assert (E2 : length (upd (upd M sb [x]) db [y]) = length M) by (rewrite upd_length; lia).
  unfold phst, cell_at in *. repeat split.
  - rewrite upd_length; lia.
  - intros g G1 G2 G3 G4. rewrite !mem_upd_other by (auto; lia). apply HO; assumption.
  - rewrite mem_upd_other by (auto; lia). rewrite mem_upd_other by (auto; lia). apply mem_upd_same. exact L1.
  - rewrite mem_upd_other by (auto; lia). apply mem_upd_same. lia.
  - apply mem_upd_same. lia.
  - rewrite !mem_upd_other by (auto; lia). exact D.
Qed.
Lemma phst_updw m0 M sb db wb vs vd vw bv z : phdist sb db wb -> phst m0 M sb db wb vs vd vw bv ->
  phst m0 (upd M wb [z]) sb db wb vs vd z bv.
Proof.
  intros [N1 [N2 [N3 [N4 [N5 [N6 _]]]]]] H. destruct (phst_lt _ _ _ _ _ _ _ _ _ H) as [L1 [L2 [L3 L4]]].
  destruct H as [HL [HO [A [B [C D]]]]]. unfold phst, cell_at in *. repeat split.
  - rewrite upd_length; lia.
  - intros g G1 G2 G3 G4. rewrite !mem_upd_other by (auto; lia). apply HO; assumption.
  - rewrite mem_upd_other by (auto; lia). exact A.
  - rewrite mem_upd_other by (auto; lia). exact B.
  - apply mem_upd_same. lia.
  - rewrite !mem_upd_other by (auto; lia). exact D.
Qed.
Lemma phst_updb m0 M sb db wb vs vd vw bv z : phdist sb db wb -> phst m0 M sb db wb vs vd vw bv ->
  phst m0 (upd M G_bits [VInt z]) sb db wb vs vd vw z.
Proof.
  intros [N1 [N2 [N3 [N4 [N5 [N6 _]]]]]] H. destruct (phst_lt _ _ _ _ _ _ _ _ _ H) as [L1 [L2 [L3 L4]]].
  destruct H as [HL [HO [A [B [C D]]]]]. unfold phst, cell_at in *. repeat split.
  - rewrite upd_length; lia.
  - intros g G1 G2 G3 G4. rewrite !mem_upd_other by (auto; lia). apply HO; assumption.
  - rewrite mem_upd_other by (auto; lia). exact A.
  - rewrite mem_upd_other by (auto; lia). exact B.
  - rewrite mem_upd_other by (auto; lia). exact C.
  - apply mem_upd_same. lia.
Qed.
Lemma phst_ro m0 M sb db wb vs vd vw bv : phdist sb db wb -> phst m0 M sb db wb vs vd vw bv -> ro_at m0 -> ro_at M.
Proof.
  intros [_ [_ [_ [_ [_ [_ [R1 [R2 R3]]]]]]]] [_ [HO _]] Hro g Hg. rewrite <- (Hro g Hg). apply HO; intro E; subst g; try congruence.
  rewrite ro_bits in Hg. discriminate.
Qed.
Lemma phst_str m0 M sb db wb vs vd vw bv g s : phst m0 M sb db wb vs vd vw bv -> str_at m0 g s ->
  g <> sb -> g <> db -> g <> wb -> g <> G_bits -> str_at M g s.
Proof. intros [_ [HO _]] Hs G1 G2 G3 G4. unfold str_at in *. rewrite HO by assumption. exact Hs. Qed.
Lemma ro_str_src M i : ro_at M -> (i < nph)%nat -> str_at M (ph_src_g i) (ph_src i).
Proof. intros Hro Hi. destruct (ph_row i Hi) as [_ [_ [_ [A [_ [R _]]]]]]. unfold str_at. rewrite (Hro _ R). exact A. Qed.
Lemma ro_str_dst M i : ro_at M -> (i < nph)%nat -> str_at M (ph_dst_g i) (ph_dst i).
Proof. intros Hro Hi. destruct (ph_row i Hi) as [_ [_ [_ [_ [A [_ [R _]]]]]]]. unfold str_at. rewrite (Hro _ R). exact A. Qed.
Lemma ro_ph M : ro_at M -> nth_error M G_placeholders = Some gb_placeholders.
Proof. intro H. rewrite (H G_placeholders eq_refl). reflexivity. Qed.

Lemma hd0_nthb s : hd0 s = nthb s 0.
Proof. destruct s; reflexivity. Qed.
Lemma land_byte_lt a c : (c < 256)%N -> (N.land a c < 256)%N.
Proof.
  intro H. replace c with (N.land c (N.ones 8)) by (rewrite N.land_ones; apply N.mod_small; exact H).
  rewrite N.land_assoc. apply (land_mask_lt _ 8).
Qed.
Lemma sx_id : forall c, (c < 256)%N -> wrap I32 (wrap I8 (Z.of_N c)) = wrap I8 (Z.of_N c).
Proof. byte_fact. Qed.
Lemma sx_eqb x c : (x < 256)%N -> (c < 256)%N ->
  (wrap I32 (wrap I8 (Z.of_N x)) =? wrap I32 (wrap I8 (Z.of_N c))) = (x =? c)%N.
Proof. intros Hx Hc. rewrite !sx_id by assumption. apply wrap_I8_inj; assumption. Qed.
Lemma of_N_eqb a b : (Z.of_N a =? Z.of_N b) = (a =? b)%N.
Proof. destruct (Z.eqb_spec (Z.of_N a) (Z.of_N b)); destruct (N.eqb_spec a b); try reflexivity; lia. Qed.
Lemma skipn_cons_nth {A} (l : list A) i d : (i < length l)%nat -> skipn i l = nth i l d :: skipn (S i) l.
Proof.
  revert l; induction i as [|i IH]; intros [|x l] H; cbn in H; try lia; [reflexivity|].
  cbn [skipn nth]. apply IH. lia.
Qed.

Definition ph_loop1 : stmt := match fn_body cf_ren_placeholder with SSeq _ (SSeq (SIf _ (SSeq _ w) _) _) => w | _ => SSkip end.
Definition ph_loop2 : stmt := match fn_body cf_ren_placeholder with SSeq _ (SSeq _ (SSeq (SIf _ (SSeq _ w) _) _)) => w | _ => SSkip end.
Definition ph_tail : stmt := match fn_body cf_ren_placeholder with SSeq _ (SSeq _ t) => t | _ => SSkip end.

Section Placeholder.
  Variables (F : nat) (d : nat) (m0 : mem) (sb db wb : nat).
  Hypothesis Hdist : phdist sb db wb.
  Hypothesis Hro0 : ro_at m0.
  Let call := callf cprog F (S (S (S d))).

  Lemma nph_int : Z.of_nat nph < 2147483647.
  Proof. vm_compute. reflexivity. Qed.

  (* the first loop: bits &= (unsigned char) *src over the whole table *)
  Lemma ph_loop1_ok sv : forall k i M vs vd vw bv fuel, (i + k = nph)%nat ->
    phst m0 M sb db wb vs vd vw (Z.of_N bv) -> (bv <= 65535)%N -> (k < fuel)%nat ->
    exists M' vs' vd' vw',
      exec call fuel ph_loop1 (mkst [sv; VPtr wb 0; VPtr sb 0; VPtr db 0; VInt (Z.of_nat i)] M)
      = ONormal (mkst [sv; VPtr wb 0; VPtr sb 0; VPtr db 0; VInt (Z.of_nat nph)] M') /\
      phst m0 M' sb db wb vs' vd' vw' (Z.of_N (fold_left fbits (skipn i placeholders) bv)).
  Proof.
    pose proof nph_int as Hnp.
    induction k as [|k IH]; intros i M vs vd vw bv fuel Hik Hst Hbv Hf; (destruct fuel as [|fuel]; [lia|]);
      unfold ph_loop1; cbn [fn_body cf_ren_placeholder]; rewrite exec_for; xstep; unfold call.
    - rewrite tr_conf_placeholder_out by lia. xstep.
      assert (i = nph) by lia. subst i. rewrite skipn_all2 by (unfold nph; lia). cbn [fold_left].
      exists M, vs, vd, vw. split; [reflexivity|exact Hst].
    - assert (Hi : (i < nph)%nat) by lia.
      destruct Hdist as [N1 [N2 [N3 [N4 [N5 [N6 [R1 [R2 R3]]]]]]]].
      pose proof (phst_ro _ _ _ _ _ _ _ _ _ Hdist Hst Hro0) as HroM.
      destruct Hst as [HL [HO [A [B [C D]]]]] eqn:EHst. clear EHst.
      rewrite (tr_conf_placeholder_in M i sb db wb vs vd vw _ F (ro_ph M HroM) Hi A B C); try assumption;
        try (intro E; rewrite E in *; discriminate).
      xstep.
      pose proof (phst_upd3 m0 M sb db wb vs vd vw (Z.of_N bv) (VPtr (ph_src_g i) 0) (VPtr (ph_dst_g i) 0) (VInt (ph_w i)) Hdist
                    (conj HL (conj HO (conj A (conj B (conj C D)))))) as Hst1.
      set (M1 := upd (upd (upd M sb [VPtr (ph_src_g i) 0]) db [VPtr (ph_dst_g i) 0]) wb [VInt (ph_w i)]) in *.
      pose proof (phst_ro _ _ _ _ _ _ _ _ _ Hdist Hst1 Hro0) as HroM1.
      destruct Hst1 as [HL1 [HO1 [A1 [B1 [C1 D1]]]]] eqn:EH. clear EH.
      rewrite (load_cell M1 G_ren_placeholder__bits _ D1). xstep.
      rewrite (load_ptr_cell M1 sb _ 0 _ A1 ltac:(lia) eq_refl). xstep.
      pose proof (ro_str_src M1 i HroM1 Hi) as Hsrc.
      destruct (ph_row i Hi) as [_ [_ [_ [_ [_ [_ [_ [Rs _]]]]]]]].
      pose proof (nonul_lt256 _ (byte_okb_nonul _ Rs)) as Hs256.
      rewrite (load_str M1 _ (ph_src i) 0 0%nat Hsrc) by (cbn; lia). xstep.
      rewrite wrap_byte_chain by (apply nthb_lt256; exact Hs256).
      rewrite (wrap_I32_id (Z.of_N bv)) by lia. rewrite of_N_land.
      pose proof (land_byte_lt bv (nthb (ph_src i) 0) (nthb_lt256 _ 0 Hs256)) as Hland.
      rewrite (wrap_I32_id (Z.of_N _)) by lia.
      rewrite (store_cell M1 G_ren_placeholder__bits _ _ D1). xstep.
      rewrite chk_I32 by lia. xstep. replace (Z.of_nat i + 1) with (Z.of_nat (S i)) by lia.
      pose proof (phst_updb m0 M1 sb db wb _ _ _ _ (Z.of_N (N.land bv (nthb (ph_src i) 0))) Hdist
                    (conj HL1 (conj HO1 (conj A1 (conj B1 (conj C1 D1)))))) as Hst2.
      destruct (IH (S i) _ _ _ _ (N.land bv (nthb (ph_src i) 0)) fuel ltac:(lia) Hst2 ltac:(lia) ltac:(lia))
        as [M' [vs' [vd' [vw' [X Y]]]]].
      exists M', vs', vd', vw'. split.
      + unfold ph_loop1 in X; cbn [fn_body cf_ren_placeholder] in X. refine (eq_trans X _). reflexivity.
      + rewrite (skipn_cons_nth placeholders i ph_dflt) by exact Hi. cbn [fold_left]. unfold fbits at 2.
        rewrite hd0_nthb. exact Y.
  Qed.
End Placeholder.

Lemma ph_lookup_step i t : (i < nph)%nat ->
  ph_lookup (skipn i placeholders) t =
  if ((hd0 (ph_src i) =? hd0 t) && (uc_code (ph_src i) =? uc_code t))%N then Some (ph_dst i, ph_w i)
  else ph_lookup (skipn (S i) placeholders) t.
Proof.
  intro H. rewrite (skipn_cons_nth placeholders i ph_dflt) by exact H. unfold ph_src, ph_dst, ph_w.
  destruct (nth i placeholders ph_dflt) as [[a b'] c]. reflexivity.
Qed.
Definition ph_fin : stmt := match ph_tail with SSeq _ f => f | _ => SSkip end.
Lemma bell_lit : nth_error cglobals G_lit_efbfbd_3 = Some (cstr_block (zb bell_glyph)).
Proof. reflexivity. Qed.

Section Placeholder2.
  Variables (F : nat) (d : nat) (m0 : mem) (sb db wb : nat) (b : nat) (s : bytes) (o : nat).
  Hypothesis Hdist : phdist sb db wb.
  Hypothesis Hro0 : ro_at m0.
  Hypothesis Hs0 : str_at m0 b s.
  Hypothesis Hb : b <> sb /\ b <> db /\ b <> wb /\ b <> G_bits.
  Hypothesis H256 : bytes_lt256 s.
  Hypothesis Hlen : (o + uc_len_b (nthb s o) - 1 <= length s)%nat.
  Hypothesis Ho : (o <= length s)%nat.
  Let call := callf cprog F (S (S (S d))).
  Let t := skipn o s.
  Local Notation sv := (VPtr b (Z.of_nat o)).

  (* the second loop: the first row whose source has the same first byte and the same code, or none *)
  Lemma ph_loop2_ok bvz : forall k i M vs vd vw fuel, (i + k = nph)%nat ->
    phst m0 M sb db wb vs vd vw bvz -> (k < fuel)%nat ->
    exists M' vs' vd' vw' loc',
      phst m0 M' sb db wb vs' vd' vw' bvz /\
      match ph_lookup (skipn i placeholders) t with
      | Some (dm, w) => exists j, (j < nph)%nat /\ ph_dst j = dm /\ vw' = VInt w /\
          exec call fuel ph_loop2 (mkst [sv; VPtr wb 0; VPtr sb 0; VPtr db 0; VInt (Z.of_nat i)] M)
          = OReturn (VPtr (ph_dst_g j) 0) (mkst loc' M')
      | None =>
          exec call fuel ph_loop2 (mkst [sv; VPtr wb 0; VPtr sb 0; VPtr db 0; VInt (Z.of_nat i)] M)
          = ONormal (mkst [sv; VPtr wb 0; VPtr sb 0; VPtr db 0; VInt (Z.of_nat nph)] M')
      end.
  Proof.
    pose proof nph_int as Hnp. destruct Hb as [B1 [B2 [B3 B4]]].
    induction k as [|k IH]; intros i M vs vd vw fuel Hik Hst Hf; (destruct fuel as [|fuel]; [lia|]);
      unfold ph_loop2; cbn [fn_body cf_ren_placeholder]; rewrite exec_for; xstep; unfold call.
    - rewrite tr_conf_placeholder_out by lia. xstep.
      assert (i = nph) by lia. subst i. rewrite skipn_all2 by (unfold nph; lia). cbn [ph_lookup].
      exists M, vs, vd, vw, []. split; [exact Hst|reflexivity].
    - assert (Hi : (i < nph)%nat) by lia.
      destruct Hdist as [N1 [N2 [N3 [N4 [N5 [N6 [R1 [R2 R3]]]]]]]].
      pose proof (phst_ro _ _ _ _ _ _ _ _ _ Hdist Hst Hro0) as HroM.
      destruct Hst as [HL [HO [A [B [C D]]]]] eqn:EHst. clear EHst.
      rewrite (tr_conf_placeholder_in M i sb db wb vs vd vw _ F (ro_ph M HroM) Hi A B C); try assumption;
        try (intro E; rewrite E in *; discriminate).
      xstep.
      pose proof (phst_upd3 m0 M sb db wb vs vd vw bvz (VPtr (ph_src_g i) 0) (VPtr (ph_dst_g i) 0) (VInt (ph_w i)) Hdist
                    (conj HL (conj HO (conj A (conj B (conj C D)))))) as Hst1.
      set (M1 := upd (upd (upd M sb [VPtr (ph_src_g i) 0]) db [VPtr (ph_dst_g i) 0]) wb [VInt (ph_w i)]) in *.
      pose proof (phst_ro _ _ _ _ _ _ _ _ _ Hdist Hst1 Hro0) as HroM1.
      pose proof (phst_str _ _ _ _ _ _ _ _ _ _ _ Hst1 Hs0 B1 B2 B3 B4) as Hs1.
      pose proof Hst1 as [HL1 [HO1 [A1 [B1' [C1 D1]]]]].
      pose proof (ro_str_src M1 i HroM1 Hi) as Hsrc.
      destruct (ph_row i Hi) as [_ [_ [_ [_ [_ [_ [_ [Rs [_ [Rl _]]]]]]]]]].
      pose proof (nonul_lt256 _ (byte_okb_nonul _ Rs)) as Hs256. apply Nat.leb_le in Rl.
      rewrite (ph_lookup_step i t Hi).
      rewrite (load_ptr_cell M1 sb _ 0 _ A1 ltac:(lia) eq_refl). xstep.
      rewrite (load_str M1 _ (ph_src i) _ 0%nat Hsrc) by (cbn; lia). xstep.
      rewrite (load_str M1 b s _ o Hs1) by lia. xstep.
      rewrite (sx_eqb _ _ (nthb_lt256 _ 0 Hs256) (nthb_lt256 _ o H256)).
      unfold t at 1. rewrite hd0_skipn, hd0_nthb.
      assert (Hnext : forall Mx, Mx = M1 ->
        exists (M' : mem) (vs' vd' vw' : val) (loc' : list val),
          phst m0 M' sb db wb vs' vd' vw' bvz /\
          match ph_lookup (skipn (S i) placeholders) t with
          | Some (dm, w) => exists j : nat, (j < nph)%nat /\ ph_dst j = dm /\ vw' = VInt w /\
              match eval call (EIncLocal true 4 (Some I32) 1)
                      (mkst [sv; VPtr wb 0; VPtr sb 0; VPtr db 0; VInt (Z.of_nat i)] Mx) with
              | Ok (_, st3) => exec call fuel ph_loop2 st3
              | Err x => OErr x
              end = OReturn (VPtr (ph_dst_g j) 0) (mkst loc' M')
          | None =>
              match eval call (EIncLocal true 4 (Some I32) 1)
                      (mkst [sv; VPtr wb 0; VPtr sb 0; VPtr db 0; VInt (Z.of_nat i)] Mx) with
              | Ok (_, st3) => exec call fuel ph_loop2 st3
              | Err x => OErr x
              end = ONormal (mkst [sv; VPtr wb 0; VPtr sb 0; VPtr db 0; VInt (Z.of_nat nph)] M')
          end).
      { intros Mx ->. xstep. rewrite chk_I32 by lia. xstep. replace (Z.of_nat i + 1) with (Z.of_nat (S i)) by lia.
        apply (IH (S i) M1 _ _ _ fuel ltac:(lia) Hst1 ltac:(lia)). }
      unfold ph_loop2 in Hnext; cbn [fn_body cf_ren_placeholder] in Hnext.
      destruct (nthb (ph_src i) 0 =? nthb s o)%N; xstep; cbn [andb]; [|apply Hnext; reflexivity].
      rewrite (load_ptr_cell M1 sb _ 0 _ A1 ltac:(lia) eq_refl). xstep. unfold call.
      pose proof (tr_uc_code M1 _ (ph_src i) 0 (S (S d)) F Hsrc Hs256 ltac:(lia) ltac:(lia)) as E.
      change (Z.of_nat 0) with 0 in E. rewrite E; clear E. xstep.
      rewrite (tr_uc_code M1 b s o (S (S d)) F Hs1 H256 Hlen Ho). xstep.
      rewrite of_N_eqb. cbn [skipn]. fold t.
      destruct (uc_code (ph_src i) =? uc_code t)%N; xstep; [|apply Hnext; reflexivity].
      rewrite (load_ptr_cell M1 db _ 0 _ B1' ltac:(lia) eq_refl). xstep.
      exists M1, (VPtr (ph_src_g i) 0), (VPtr (ph_dst_g i) 0), (VInt (ph_w i)), [sv; VPtr wb 0; VPtr sb 0; VPtr db 0; VInt (Z.of_nat i)].
      split; [exact Hst1|]. exists i. repeat split; try reflexivity. exact Hi.
  Qed.

  (* if (wid) *wid = 1; if (uc_isbell(s)) return "�"; return NULL; *)
  Lemma ph_fin_ok bvz M vs vd vw iv fuel : phst m0 M sb db wb vs vd vw bvz -> (fuel_tabs <= F)%nat ->
    exists M' loc',
      exec call fuel ph_fin (mkst [sv; VPtr wb 0; VPtr sb 0; VPtr db 0; iv] M)
      = OReturn (if uc_isbell t then VPtr G_lit_efbfbd_3 0 else VInt 0) (mkst loc' M') /\
      phst m0 M' sb db wb vs vd (VInt 1) bvz.
  Proof.
    intros Hst HF. destruct Hb as [B1 [B2 [B3 B4]]].
    unfold ph_fin, ph_tail; cbn [fn_body cf_ren_placeholder]. xstep.
    pose proof Hst as [HL [HO [A [B [C D]]]]].
    rewrite (store_ok M wb [vw] 0 _ C) by (cbn; lia). xstep. change (upd [vw] (Z.to_nat 0) ?x) with [x].
    change (wrap I32 1) with 1.
    pose proof (phst_updw m0 M sb db wb vs vd vw bvz (VInt 1) Hdist Hst) as Hst1.
    set (M1 := upd M wb [VInt 1]) in *.
    pose proof (phst_ro _ _ _ _ _ _ _ _ _ Hdist Hst1 Hro0) as HroM1.
    pose proof (phst_str _ _ _ _ _ _ _ _ _ _ _ Hst1 Hs0 B1 B2 B3 B4) as Hs1.
    unfold call. rewrite (tr_uc_isbell_ro M1 b s o d F HroM1 Hs1 H256 Hlen Ho HF). xstep. fold t.
    destruct (uc_isbell t); xstep; eexists; eexists; (split; [reflexivity|exact Hst1]).
  Qed.

  Lemma ph_bits_int : Z.of_N ph_bits <= 255.
  Proof. vm_compute. discriminate. Qed.

  (* from the test of the common bits to the return *)
  Lemma ph_tail_ok M vs vd vw iv fuel : phst m0 M sb db wb vs vd vw (Z.of_N ph_bits) -> (nph < fuel)%nat -> (fuel_tabs <= F)%nat ->
    exists v M' vs' vd' loc',
      exec call fuel ph_tail (mkst [sv; VPtr wb 0; VPtr sb 0; VPtr db 0; iv] M) = OReturn v (mkst loc' M') /\
      phst m0 M' sb db wb vs' vd' (VInt (snd (ren_placeholder t))) (Z.of_N ph_bits) /\
      match fst (ren_placeholder t) with
      | Some dm => exists g, v = VPtr g 0 /\ ro_g g = true /\ nth_error cglobals g = Some (cstr_block (zb dm))
      | None => v = VInt 0
      end.
  Proof.
    intros Hst Hf HF. pose proof ph_bits_int as Hpb. destruct Hb as [B1 [B2 [B3 B4]]].
    pose proof (phst_str _ _ _ _ _ _ _ _ _ _ _ Hst Hs0 B1 B2 B3 B4) as Hs1.
    pose proof Hst as [HL [HO [A [B [C D]]]]].
    unfold ph_tail; cbn [fn_body cf_ren_placeholder]. rewrite exec_seq, exec_if. xcbn.
    rewrite (load_str M b s _ o Hs1) by lia. xcbn.
    rewrite wrap_byte_chain by (apply nthb_lt256; exact H256).
    rewrite (load_cell M G_ren_placeholder__bits _ D). xcbn.
    rewrite (load_cell M G_ren_placeholder__bits _ D). xcbn.
    rewrite !(wrap_I32_id (Z.of_N ph_bits)) by lia. rewrite of_N_land, of_N_eqb, nb2z.
    unfold ren_placeholder. assert (Hhd : hd0 t = nthb s o) by (unfold t; apply hd0_skipn). rewrite !Hhd.
    assert (Hfin : forall M2 vs2 vd2 vw2 iv2, phst m0 M2 sb db wb vs2 vd2 vw2 (Z.of_N ph_bits) ->
      exists v M' vs' vd' loc',
        exec call fuel ph_fin (mkst [sv; VPtr wb 0; VPtr sb 0; VPtr db 0; iv2] M2) = OReturn v (mkst loc' M') /\
        phst m0 M' sb db wb vs' vd' (VInt (snd (if uc_isbell t then Some bell_glyph else None, 1))) (Z.of_N ph_bits) /\
        match fst (if uc_isbell t then Some bell_glyph else None, 1) with
        | Some dm => exists g, v = VPtr g 0 /\ ro_g g = true /\ nth_error cglobals g = Some (cstr_block (zb dm))
        | None => v = VInt 0
        end).
    { intros M2 vs2 vd2 vw2 iv2 H2. destruct (ph_fin_ok _ M2 vs2 vd2 vw2 iv2 fuel H2 HF) as [M' [loc' [X Y]]].
      exists (if uc_isbell t then VPtr G_lit_efbfbd_3 0 else VInt 0), M', vs2, vd2, loc'.
      split; [exact X|]. split; [exact Y|]. cbn [fst snd].
      destruct (uc_isbell t); [|reflexivity]. exists G_lit_efbfbd_3. repeat split. }
    unfold ph_fin, ph_tail in Hfin; cbn [fn_body cf_ren_placeholder] in Hfin.
    destruct (N.land (nthb s o) ph_bits =? ph_bits)%N.
    - rewrite exec_seq, exec_expr. xcbn.
      destruct (ph_loop2_ok (Z.of_N ph_bits) nph 0%nat M vs vd vw fuel ltac:(lia) Hst Hf) as [M' [vs' [vd' [vw' [loc' [Hst' X]]]]]].
      unfold ph_loop2 in X; cbn [fn_body cf_ren_placeholder] in X. cbn [skipn] in X. change (Z.of_nat 0) with 0 in X.
      destruct (ph_lookup placeholders t) as [[dm w]|].
      + destruct X as [j [Hj [Hd [Hw X]]]]. rewrite X. subst vw'.
        exists (VPtr (ph_dst_g j) 0), M', vs', vd', loc'. split; [reflexivity|]. split; [exact Hst'|].
        cbv iota. cbn [fst]. exists (ph_dst_g j). destruct (ph_row j Hj) as [_ [_ [_ [_ [P [_ [Q _]]]]]]].
        rewrite <- Hd. repeat split; assumption.
      + rewrite X. apply (Hfin M' vs' vd' vw' _ Hst').
    - rewrite exec_skip. apply (Hfin M vs vd vw iv Hst).
  Qed.
End Placeholder2.

Lemma ro_false_ge m g : ro_at m -> (length m <= g)%nat -> ro_g g = false.
Proof. intros H Hg. destruct (ro_g g) eqn:E; [|reflexivity]. pose proof (ro_lt m g H E). lia. Qed.
Lemma ro_at_app m r : ro_at m -> ro_at (m ++ r).
Proof. intros H g Hg. rewrite nth_error_app1 by (apply (ro_lt m g H Hg)). apply H. exact Hg. Qed.
Lemma ph_bits_ne : (Z.of_N ph_bits =? 65535) = false.
Proof. vm_compute. reflexivity. Qed.
Lemma str_bits_ne m b s : str_at m b s -> bits_ok m -> b <> G_bits.
Proof.
  intros Hs Hb E. subst b. unfold str_at in Hs. unfold bits_ok, cell_at in Hb.
  destruct Hb as [Hb|Hb]; rewrite Hs in Hb; destruct s as [|x s]; cbn in Hb; try discriminate;
    destruct s; discriminate.
Qed.

Theorem tr_ren_placeholder m b s o wb vw0 d fuel :
  ro_at m -> bits_ok m -> str_at m b s -> bytes_lt256 s -> (o + uc_len_b (nthb s o) - 1 <= length s)%nat -> (o <= length s)%nat ->
  nth_error m wb = Some [vw0] -> wb <> G_bits -> ro_g wb = false -> wb <> b ->
  (nph < fuel)%nat -> (fuel_tabs <= fuel)%nat ->
  exists v M, callf cprog fuel (S (S (S (S d)))) F_ren_placeholder [VPtr b (Z.of_nat o); VPtr wb 0] m = Ok (v, M) /\
    length M = (length m + 2)%nat /\
    (forall g, (g < length m)%nat -> g <> wb -> g <> G_bits -> nth_error M g = nth_error m g) /\
    nth_error M wb = Some [VInt (snd (ren_placeholder (skipn o s)))] /\
    cell_at M G_bits (Z.of_N ph_bits) /\
    match fst (ren_placeholder (skipn o s)) with
    | Some dm => exists g, v = VPtr g 0 /\ str_at M g dm
    | None => v = VInt 0
    end.
Proof.
  intros Hro Hbits Hs H256 Hlen Ho Hwb Nwb Rwb Nwbb Hf HF.
  pose proof (str_bits_ne m b s Hs Hbits) as Nbb.
  assert (Lwb : (wb < length m)%nat) by (apply nth_error_Some; congruence).
  assert (Lb : (b < length m)%nat) by (apply nth_error_Some; unfold str_at in Hs; congruence).
  assert (Lbits : (G_bits < length m)%nat) by (apply nth_error_Some; destruct Hbits as [H|H]; unfold cell_at in H; congruence).
  enter F_ren_placeholder cf_ren_placeholder.
  rewrite exec_seq. rewrite exec_seq. rewrite exec_expr. xcbn.
  rewrite malloc_ok by lia. xcbn. change (repeat VUndef (Z.to_nat 1)) with [VUndef].
  rewrite exec_expr. xcbn.
  rewrite malloc_ok by lia. xcbn. change (repeat VUndef (Z.to_nat 1)) with [VUndef].
  rewrite app_length. cbn [length]. rewrite <- app_assoc. cbn [app].
  set (sb := length m). set (db := (sb + 1)%nat).
  match goal with |- context [mkst _ ?M] => remember M as m0 eqn:Em0 end.
  assert (Hdist : phdist sb db wb).
  { unfold phdist, db, sb. repeat split; try lia; try exact Nwb; try exact Rwb; apply (ro_false_ge m); try exact Hro; lia. }
  assert (Hro0 : ro_at m0) by (rewrite Em0; apply ro_at_app; exact Hro).
  assert (Hs0 : str_at m0 b s) by (unfold str_at; rewrite Em0; rewrite nth_error_app1 by exact Lb; exact Hs).
  assert (Hbd : b <> sb /\ b <> db /\ b <> wb /\ b <> G_bits) by (unfold db, sb; repeat split; try lia; congruence).
  assert (Hst0 : forall bv, cell_at m G_bits bv -> phst m0 m0 sb db wb VUndef VUndef vw0 bv).
  { intros bv Hc. unfold phst, db, sb, cell_at. rewrite Em0. repeat split.
    - rewrite nth_error_app2 by lia. rewrite Nat.sub_diag. reflexivity.
    - rewrite nth_error_app2 by lia. replace (length m + 1 - length m)%nat with 1%nat by lia. reflexivity.
    - rewrite nth_error_app1 by exact Lwb. exact Hwb.
    - rewrite nth_error_app1 by exact Lbits. exact Hc. }
  assert (Hend : forall M vs vd vw iv, phst m0 M sb db wb vs vd vw (Z.of_N ph_bits) ->
    exists v M',
      match exec (callf cprog fuel (S (S (S d)))) fuel ph_tail (mkst [VPtr b (Z.of_nat o); VPtr wb 0; VPtr sb 0; VPtr db 0; iv] M) with
      | ONormal st => Ok (VUndef, memm st)
      | OReturn v st => Ok (v, memm st)
      | OErr x => Err x
      | _ => Err EShape
      end = Ok (v, M') /\
      length M' = (length m + 2)%nat /\
      (forall g, (g < length m)%nat -> g <> wb -> g <> G_bits -> nth_error M' g = nth_error m g) /\
      nth_error M' wb = Some [VInt (snd (ren_placeholder (skipn o s)))] /\
      cell_at M' G_bits (Z.of_N ph_bits) /\
      match fst (ren_placeholder (skipn o s)) with
      | Some dm => exists g, v = VPtr g 0 /\ str_at M' g dm
      | None => v = VInt 0
      end).
  { intros M vs vd vw iv Hst.
    destruct (ph_tail_ok fuel d m0 sb db wb b s o Hdist Hro0 Hs0 Hbd H256 Hlen Ho M vs vd vw iv fuel Hst Hf HF)
      as [v [M' [vs' [vd' [loc' [X [Hst' Hv]]]]]]].
    exists v, M'. rewrite X. split; [reflexivity|].
    pose proof (phst_ro _ _ _ _ _ _ _ _ _ Hdist Hst' Hro0) as HroM'.
    destruct Hst' as [HL [HO [A [B [C D]]]]].
    split; [rewrite HL, Em0, app_length; reflexivity|].
    split; [intros g Hg G1 G2; rewrite HO by (unfold db, sb; lia || assumption); rewrite Em0; apply nth_error_app1; exact Hg|].
    split; [exact C|]. split; [exact D|].
    destruct (fst (ren_placeholder (skipn o s))) as [dm|]; [|exact Hv].
    destruct Hv as [g [E1 [E2 E3]]]. exists g. split; [exact E1|]. unfold str_at. rewrite (HroM' g E2). exact E3. }
  unfold ph_tail in Hend; cbn [fn_body cf_ren_placeholder] in Hend.
  rewrite exec_seq, exec_if. xcbn.
  destruct Hbits as [Hc|Hc]; pose proof (Hst0 _ Hc) as Hst; pose proof Hst as [_ [_ [_ [_ [_ D]]]]];
    rewrite (load_cell m0 G_ren_placeholder__bits _ D); xcbn.
  - change (wrap I32 65535 =? 65535) with true. xcbn. rewrite exec_seq, exec_expr. xcbn.
    destruct (ph_loop1_ok fuel d m0 sb db wb Hdist Hro0 (VPtr b (Z.of_nat o)) nph 0%nat m0 VUndef VUndef vw0 65535%N fuel
                ltac:(lia) Hst ltac:(lia) Hf) as [M1 [vs1 [vd1 [vw1 [X Hst1]]]]].
    unfold ph_loop1 in X; cbn [fn_body cf_ren_placeholder] in X. change (Z.of_nat 0) with 0 in X. rewrite X.
    cbn [skipn] in Hst1. rewrite <- ph_bits_fold in Hst1. apply (Hend M1 vs1 vd1 vw1 _ Hst1).
  - rewrite (wrap_I32_id (Z.of_N ph_bits)) by (pose proof ph_bits_int; lia). rewrite ph_bits_ne. xcbn. rewrite exec_skip.
    apply (Hend m0 VUndef VUndef vw0 _ Hst).
Qed.

(* ------------------------------------------------------------------ ren_cwid *)
(* what a call of ren_cwid (and of ren_position) may do to the memory: new blocks are appended (the semantics
   never reclaims the address-taken locals wid, src, dst), the static bits of ren_placeholder goes from 0xffff
   to the common bits; every other block that existed before is untouched *)
Definition ren_frame (m M : mem) : Prop :=
  (length m <= length M)%nat /\
  (forall g, (g < length m)%nat -> g <> G_bits -> nth_error M g = nth_error m g) /\ bits_ok M.
Lemma ren_frame_refl m : bits_ok m -> ren_frame m m.
Proof. intro H. split; [lia|]. split; [reflexivity|exact H]. Qed.
Lemma ren_frame_trans m1 m2 m3 : ren_frame m1 m2 -> ren_frame m2 m3 -> ren_frame m1 m3.
Proof.
  intros [L1 [O1 _]] [L2 [O2 B2]]. split; [lia|]. split; [|exact B2].
  intros g Hg Ng. rewrite O2 by (lia || assumption). apply O1; assumption.
Qed.
Lemma bits_lt m : bits_ok m -> (G_bits < length m)%nat.
Proof. intros [H|H]; apply nth_error_Some; unfold cell_at in H; congruence. Qed.
Lemma ren_frame_ro m M : ren_frame m M -> ro_at m -> ro_at M.
Proof.
  intros [_ [O _]] H g Hg. rewrite O; [apply H; exact Hg|apply (ro_lt m g H Hg)|].
  intro E. subst g. rewrite ro_bits in Hg. discriminate.
Qed.
Lemma ren_frame_str m M b s : ren_frame m M -> bits_ok m -> str_at m b s -> str_at M b s.
Proof.
  intros [_ [O _]] Hb Hs. unfold str_at. rewrite O; [exact Hs|apply nth_error_Some; unfold str_at in Hs; congruence|].
  apply (str_bits_ne m b s Hs Hb).
Qed.
Lemma ren_frame_cell m M g v : ren_frame m M -> cell_at m g v -> g <> G_bits -> cell_at M g v.
Proof. intros [_ [O _]] Hc Ng. unfold cell_at in *. rewrite O; [exact Hc|apply nth_error_Some; congruence|exact Ng]. Qed.

Lemma cc_tab : forall c, (c < 256)%N -> (wrap I32 (wrap I8 (Z.of_N c)) =? 9) = (c =? 9)%N.
Proof. byte_fact. Qed.
Lemma land7 p : 0 <= Z.land p 7 <= 7.
Proof. change 7 with (Z.ones 3) at 1 2. rewrite Z.land_ones by lia. pose proof (Z.mod_pos_bound p (2 ^ 3) ltac:(lia)). change (2 ^ 3) with 8 in *. lia. Qed.

Theorem tr_ren_cwid m b s o pos d fuel :
  ro_at m -> bits_ok m -> str_at m b s -> bytes_lt256 s -> (o + uc_len_b (nthb s o) - 1 <= length s)%nat -> (o <= length s)%nat ->
  (nph < fuel)%nat -> (fuel_tabs <= fuel)%nat ->
  exists M, callf cprog fuel (S (S (S (S (S d))))) F_ren_cwid [VPtr b (Z.of_nat o); VInt pos] m
            = Ok (VInt (ren_cwid (skipn o s) pos), M) /\ ren_frame m M.
Proof.
  intros Hro Hbits Hs H256 Hlen Ho Hf HF.
  pose proof (bits_lt m Hbits) as Lbits.
  assert (Lb : (b < length m)%nat) by (apply nth_error_Some; unfold str_at in Hs; congruence).
  enter F_ren_cwid cf_ren_cwid. xstep.
  rewrite malloc_ok by lia. xstep. change (repeat VUndef (Z.to_nat 1)) with [VUndef].
  match goal with |- context [mkst _ ?M] => remember M as m0 eqn:Em0 end.
  assert (Hs0 : str_at m0 b s) by (unfold str_at; rewrite Em0, nth_error_app1 by exact Lb; exact Hs).
  assert (Hfr0 : ren_frame m m0).
  { rewrite Em0. split; [rewrite app_length; lia|]. split; [intros g Hg _; apply nth_error_app1; exact Hg|].
    destruct Hbits as [H|H]; [left|right]; unfold cell_at in *; rewrite nth_error_app1 by exact Lbits; exact H. }
  replace (Z.of_nat o + 1 * 0) with (Z.of_nat o) by lia.
  rewrite (load_str m0 b s _ o Hs0) by lia. xstep.
  rewrite (cc_tab _ (nthb_lt256 s o H256)). unfold ren_cwid. rewrite hd0_skipn.
  destruct (nthb s o =? 9)%N eqn:E9; xstep.
  - unfold TABSTOP, TABMASK. pose proof (land7 pos). rewrite chk_I32 by lia. xstep. exists m0. split; [reflexivity|exact Hfr0].
  - assert (Hro0 : ro_at m0) by (apply (ren_frame_ro m); assumption).
    assert (Hb0 : bits_ok m0) by (destruct Hfr0 as [_ [_ H]]; exact H).
    assert (Hwb : nth_error m0 (length m) = Some [VUndef]) by (rewrite Em0; apply nth_error_app_new).
    destruct (tr_ren_placeholder m0 b s o (length m) VUndef d fuel Hro0 Hb0 Hs0 H256 Hlen Ho Hwb ltac:(lia)
                (ro_false_ge m (length m) Hro (le_n _)) ltac:(lia) Hf HF) as [v [M [X [HL [HO [HW [HB Hv]]]]]]].
    rewrite X. xstep.
    assert (Hfr : ren_frame m M).
    { split; [rewrite HL, Em0, app_length; cbn [length]; lia|]. split; [|right; exact HB].
      intros g Hg Ng. rewrite HO by (try (rewrite Em0, app_length; cbn [length]); lia || assumption).
      rewrite Em0. apply nth_error_app1. exact Hg. }
    pose proof (ren_cwid_range (skipn o s) 0 ltac:(lia)) as Hrange. unfold ren_cwid in Hrange. rewrite hd0_skipn, E9 in Hrange.
    destruct (ren_placeholder (skipn o s)) as [[dm|] w]; cbn [fst snd] in *.
    + destruct Hv as [g [-> _]]. xstep.
      rewrite (load_ptr_cell M (length m) _ 0 _ HW ltac:(lia) eq_refl). xstep.
      rewrite wrap_I32_id by lia. exists M. split; [reflexivity|exact Hfr].
    + subst v. xstep.
      rewrite (tr_uc_wid_ro M b s o (S d) fuel (ren_frame_ro _ _ Hfr Hro) (ren_frame_str _ _ _ _ Hfr Hbits Hs) H256 Hlen Ho HF).
      xstep. exists M. split; [reflexivity|exact Hfr].
Qed.
