(* MotCountProps.v -- C07: the count in front of a motion (proofs about MotCountDefs.v).
   1. vi_prefix consumes EVERY digit of a count of any length; the value is the decimal value of the first nine digits.
   2. parse_motion (digits ++ key :: rest) = (that count, the motion, rest).
   3. vi_cnt of one count is the count.
   4. do_motion_z (the loops over a binary counter) is do_motion whenever it answers.
   5. count_beyond_clamps: counts beyond the edge of the buffer / line / window all land where the edge is. *)
From Coq Require Import List NArith ZArith Bool Lia.
From NV Require Import Bytes UcDefs MotDefs MotProps MotColProps MotWordProps MotCountDefs.
Import ListNotations.
Local Open Scope Z_scope.

(* ------------------------------------------------------------------ 1. the digits *)
Definition digits (ds : list N) : Prop := Forall (fun c => is_digit c = true) ds.
(* the key after the count: none, or a key that is no digit *)
Definition stops (rest : list N) : Prop := match rest with [] => True | c :: _ => is_digit c = false end.

Lemma is_digit_range c : is_digit c = true <-> (48 <= c <= 57)%N.
Proof. unfold is_digit. rewrite andb_true_iff, !N.leb_le. tauto. Qed.
Lemma is_19_digit c : is_19 c = true -> is_digit c = true.
Proof. unfold is_19, is_digit. rewrite !andb_true_iff, !N.leb_le. lia. Qed.

Lemma prefix_loop_digits : forall ds n rest, digits ds -> stops rest ->
  prefix_loop n (ds ++ rest) = (fold_left add_digit ds n, rest).
Proof.
  induction ds as [|c ds IH]; intros n rest Hd Hr.
  - cbn [app fold_left]. destruct rest as [|c r]; [reflexivity|]. cbn [prefix_loop]. cbn in Hr. rewrite Hr. reflexivity.
  - inversion Hd as [|? ? H1 H2]; subst. cbn [app prefix_loop fold_left]. rewrite H1. apply IH; assumption.
Qed.

(* every digit is consumed, whatever their number; the key that ends the count is the next key *)
Theorem vi_prefix_digits c0 ds rest : is_19 c0 = true -> digits ds -> stops rest ->
  vi_prefix ((c0 :: ds) ++ rest) = (sat_count (c0 :: ds), rest).
Proof.
  intros H0 Hd Hr. unfold vi_prefix. cbn [app]. rewrite H0.
  change (c0 :: ds ++ rest) with ((c0 :: ds) ++ rest).
  apply prefix_loop_digits; [constructor; [apply is_19_digit; exact H0|exact Hd]|exact Hr].
Qed.
(* no count: a key that is not 1..9 (also `0`, the motion) is left where it is *)
Theorem vi_prefix_none c rest : is_19 c = false -> vi_prefix (c :: rest) = (0, c :: rest).
Proof. intro H. unfold vi_prefix. rewrite H. reflexivity. Qed.

Lemma sat_stays : forall ds n, 100000000 <= n -> fold_left add_digit ds n = n.
Proof.
  induction ds as [|c ds IH]; intros n H; [reflexivity|]. cbn [fold_left].
  replace (add_digit n c) with n; [apply IH; exact H|]. unfold add_digit. destruct (Z.ltb_spec n 100000000); [lia|reflexivity].
Qed.

Lemma dec_mono : forall ds n, digits ds -> 0 <= n -> n <= fold_left dec_step ds n.
Proof.
  induction ds as [|c ds IH]; intros n Hd Hn; [cbn; lia|]. inversion Hd as [|? ? H1 H2]; subst. apply is_digit_range in H1.
  cbn [fold_left]. assert (H : 0 <= dec_step n c) by (unfold dec_step; lia).
  specialize (IH (dec_step n c) H2 H). unfold dec_step in *. lia.
Qed.

Lemma sat_is_dec : forall ds n, digits ds -> 0 <= n -> fold_left dec_step ds n < 1000000000 ->
  fold_left add_digit ds n = fold_left dec_step ds n.
Proof.
  induction ds as [|c ds IH]; intros n Hd Hn Hlt; [reflexivity|]. inversion Hd as [|? ? H1 H2]; subst.
  pose proof H1 as R. apply is_digit_range in R. cbn [fold_left] in *.
  assert (H : 0 <= dec_step n c) by (unfold dec_step; lia).
  pose proof (dec_mono ds (dec_step n c) H2 H) as M.
  assert (E : add_digit n c = dec_step n c).
  { unfold add_digit, dec_step in *. destruct (Z.ltb_spec n 100000000); [reflexivity|lia]. }
  rewrite E. apply IH; assumption.
Qed.

Lemma dec_bounds : forall ds n, digits ds -> 0 <= n ->
  n * 10 ^ Z.of_nat (length ds) <= fold_left dec_step ds n < (n + 1) * 10 ^ Z.of_nat (length ds).
Proof.
  induction ds as [|c ds IH]; intros n Hd Hn.
  - cbn [fold_left length]. change (10 ^ Z.of_nat 0) with 1. lia.
  - inversion Hd as [|? ? H1 H2]; subst. apply is_digit_range in H1. cbn [fold_left length].
    rewrite Nat2Z.inj_succ, Z.pow_succ_r by lia.
    assert (H : 0 <= dec_step n c) by (unfold dec_step; lia).
    specialize (IH (dec_step n c) H2 H).
    assert (P : 0 < 10 ^ Z.of_nat (length ds)) by (apply Z.pow_pos_nonneg; lia).
    unfold dec_step in *. nia.
Qed.

(* the count of a digit string: up to nine digits their decimal value ... *)
Theorem sat_count_short ds : digits ds -> (length ds <= 9)%nat -> sat_count ds = dec_value ds.
Proof.
  intros Hd Hl. unfold sat_count, dec_value. apply sat_is_dec; [exact Hd|lia|].
  pose proof (dec_bounds ds 0 Hd ltac:(lia)) as [_ B].
  assert (10 ^ Z.of_nat (length ds) <= 10 ^ 9) by (apply Z.pow_le_mono_r; lia).
  change (10 ^ 9) with 1000000000 in *. lia.
Qed.

(* ... from nine digits on the value of the first nine (a number of nine digits: no more is added), whatever follows *)
Theorem sat_count_long c0 ds : is_19 c0 = true -> digits ds -> (8 <= length ds)%nat ->
  sat_count (c0 :: ds) = dec_value (c0 :: firstn 8 ds) /\ 100000000 <= sat_count (c0 :: ds) < 1000000000.
Proof.
  intros H0 Hd Hl.
  assert (D0 : is_digit c0 = true) by (apply is_19_digit; exact H0).
  assert (R0 : (49 <= c0 <= 57)%N) by (unfold is_19 in H0; rewrite andb_true_iff, !N.leb_le in H0; exact H0).
  assert (Hf : digits (firstn 8 ds)) by (apply Forall_firstn'; exact Hd).
  assert (Lf : length (firstn 8 ds) = 8%nat) by (rewrite firstn_length; lia).
  assert (Hd9 : digits (c0 :: firstn 8 ds)) by (constructor; assumption).
  pose proof (sat_count_short (c0 :: firstn 8 ds) Hd9 ltac:(cbn [length]; lia)) as S9.
  assert (B : 100000000 <= dec_value (c0 :: firstn 8 ds) < 1000000000).
  { unfold dec_value. cbn [fold_left]. pose proof (dec_bounds (firstn 8 ds) (dec_step 0 c0) Hf ltac:(unfold dec_step; lia)) as B.
    rewrite Lf in B. change (10 ^ Z.of_nat 8) with 100000000 in B. unfold dec_step in *. lia. }
  assert (E : sat_count (c0 :: ds) = dec_value (c0 :: firstn 8 ds)).
  { rewrite <- S9. unfold sat_count. rewrite <- (firstn_skipn 8 ds) at 1.
    change (c0 :: firstn 8 ds ++ skipn 8 ds) with ((c0 :: firstn 8 ds) ++ skipn 8 ds).
    rewrite fold_left_app. apply sat_stays. fold (sat_count (c0 :: firstn 8 ds)). rewrite S9. lia. }
  split; [exact E|rewrite E; exact B].
Qed.

Theorem sat_count_range c0 ds : is_19 c0 = true -> digits ds -> 1 <= sat_count (c0 :: ds) < 1000000000.
Proof.
  intros H0 Hd. destruct (Nat.le_gt_cases 8 (length ds)) as [L|L].
  - pose proof (sat_count_long c0 ds H0 Hd L) as [_ B]. lia.
  - assert (D : digits (c0 :: ds)) by (constructor; [apply is_19_digit; exact H0|exact Hd]).
    rewrite (sat_count_short _ D) by (cbn [length]; lia).
    assert (R0 : (49 <= c0 <= 57)%N) by (unfold is_19 in H0; rewrite andb_true_iff, !N.leb_le in H0; exact H0).
    unfold dec_value. cbn [fold_left].
    pose proof (dec_mono ds (dec_step 0 c0) Hd ltac:(unfold dec_step; lia)) as M.
    pose proof (dec_bounds (c0 :: ds) 0 D ltac:(lia)) as [_ B]. cbn [fold_left] in B.
    assert (10 ^ Z.of_nat (length (c0 :: ds)) <= 10 ^ 9) by (apply Z.pow_le_mono_r; cbn [length]; lia).
    change (10 ^ 9) with 1000000000 in *. unfold dec_step in *. lia.
Qed.

(* ------------------------------------------------------------------ 2. count + key *)
Lemma is_find_cases c : is_find c = true -> (c = 102 \/ c = 70 \/ c = 116 \/ c = 84)%N.
Proof. unfold is_find. rewrite !orb_true_iff, !N.eqb_eq. tauto. Qed.
Lemma plain_not_find c mk : plain_key c = Some mk -> is_find c = false.
Proof.
  intro H. destruct (is_find c) eqn:E; [|reflexivity]. exfalso.
  destruct (is_find_cases c E) as [-> | [-> | [-> | ->]]]; cbn in H; discriminate.
Qed.

Theorem parse_motion_count c0 ds key mk rest : is_19 c0 = true -> digits ds -> is_digit key = false ->
  plain_key key = Some mk ->
  parse_motion ((c0 :: ds) ++ key :: rest) = Some (sat_count (c0 :: ds), mk, rest).
Proof.
  intros H0 Hd Hk Hp. unfold parse_motion. rewrite (vi_prefix_digits c0 ds (key :: rest) H0 Hd Hk).
  rewrite (plain_not_find key mk Hp), Hp. reflexivity.
Qed.
Theorem parse_motion_nocount key mk rest : is_19 key = false -> plain_key key = Some mk ->
  parse_motion (key :: rest) = Some (0, mk, rest).
Proof.
  intros Hk Hp. unfold parse_motion. rewrite (vi_prefix_none key rest Hk).
  rewrite (plain_not_find key mk Hp), Hp. reflexivity.
Qed.
(* f F t T: the character that follows (one UTF-8 sequence by its lead byte) belongs to the command *)
Theorem parse_motion_count_find c0 ds key a0 a rest : is_19 c0 = true -> digits ds -> is_find key = true ->
  let k := Nat.max 1 (uc_len (a0 :: a)) in
  exists mk, find_key key (firstn k (a0 :: a ++ rest)) = Some mk /\
  (uc_len (a0 :: a ++ rest) = uc_len (a0 :: a)) /\
  parse_motion ((c0 :: ds) ++ key :: a0 :: a ++ rest) = Some (sat_count (c0 :: ds), mk, skipn k (a0 :: a ++ rest)).
Proof.
  intros H0 Hd Hf k.
  assert (Hk : is_digit key = false) by (destruct (is_find_cases key Hf) as [-> | [-> | [-> | ->]]]; reflexivity).
  assert (exists mk, find_key key (firstn k (a0 :: a ++ rest)) = Some mk) as [mk Hm]
    by (destruct (is_find_cases key Hf) as [-> | [-> | [-> | ->]]]; eexists; reflexivity).
  exists mk. split; [exact Hm|]. split; [reflexivity|].
  unfold parse_motion. rewrite (vi_prefix_digits c0 ds (key :: a0 :: a ++ rest) H0 Hd Hk). rewrite Hf.
  change (uc_len (a0 :: a ++ rest)) with (uc_len (a0 :: a)). fold k. rewrite Hm. reflexivity.
Qed.

(* ------------------------------------------------------------------ 3. vi_cnt *)
Theorem vi_cnt_range a1 a2 : 1 <= vi_cnt a1 a2 <= 1073741824.
Proof. unfold vi_cnt. destruct (0 <? _) eqn:A; destruct (_ <? 1073741824) eqn:B; cbn [andb]; lia. Qed.
Theorem vi_cnt_product a1 a2 : 0 < m_cnt a1 a2 < 1073741824 -> vi_cnt a1 a2 = m_cnt a1 a2.
Proof. unfold vi_cnt, m_cnt. intro H. destruct (Z.ltb_spec 0 ((if a1 =? 0 then 1 else a1) * (if a2 =? 0 then 1 else a2))); [|lia].
  destruct (Z.ltb_spec ((if a1 =? 0 then 1 else a1) * (if a2 =? 0 then 1 else a2)) 1073741824); [reflexivity|lia]. Qed.
(* one count as vi_prefix returns it (below 10^9 < 2^30): the count itself, 1 when there is none *)
Theorem vi_cnt_single n : 0 <= n < 1000000000 -> vi_cnt n 0 = m_cnt n 0 /\ m_cnt n 0 = Z.max 1 n.
Proof.
  intro H. assert (E : m_cnt n 0 = Z.max 1 n) by (unfold m_cnt; cbn; destruct (Z.eqb_spec n 0); lia).
  split; [apply vi_cnt_product; lia|exact E].
Qed.

(* ------------------------------------------------------------------ 4. the loops over a binary counter *)
Lemma iter_break_fix {A} : forall n (step : A -> option (bool * A)) x, step x = Some (false, x) -> iter_break n step x = Some x.
Proof. induction n as [|n IH]; intros step x H; [reflexivity|]. cbn [iter_break]. rewrite H. apply IH. exact H. Qed.

Lemma pos_eqb_eq p q : pos_eqb p q = true -> p = q.
Proof. destruct p, q. unfold pos_eqb. cbn [fst snd]. rewrite andb_true_iff, !Z.eqb_eq. intros [-> ->]. reflexivity. Qed.

Lemma iter_break_z_sound : forall fuel n step x r, iter_break_z fuel n step x = Some r -> iter_break (Z.to_nat n) step x = r.
Proof.
  induction fuel as [|f IH]; intros n step x r; cbn [iter_break_z]; destruct (Z.leb_spec n 0) as [L|L].
  - intros [= <-]. replace (Z.to_nat n) with 0%nat by lia. reflexivity.
  - discriminate.
  - intros [= <-]. replace (Z.to_nat n) with 0%nat by lia. reflexivity.
  - replace (Z.to_nat n) with (S (Z.to_nat (n - 1))) by lia. cbn [iter_break].
    destruct (step x) as [[[|] y]|] eqn:E.
    + intros [= <-]. reflexivity.
    + destruct (pos_eqb y x) eqn:P.
      * intros [= <-]. apply pos_eqb_eq in P. subst y. apply iter_break_fix. exact E.
      * apply IH.
    + intros [= <-]. reflexivity.
Qed.

Lemma key_step_motion b rows top cl cc pc has cnt k row off step : key_step b k = Some step ->
  vi_motion b rows top cl cc pc has cnt k row off =
  match iter_break (Z.to_nat cnt) step (row, off) with Some (r, o) => MvOk r o cl cc pc | None => MvFuel end.
Proof. destruct k; cbn [key_step]; intro H; try discriminate H; injection H as <-; reflexivity. Qed.

Lemma find_nth_short cs : forall l n i, (length l < n)%nat -> find_nth cs n l i = None.
Proof.
  induction l as [|c r IH]; intros n i H; [reflexivity|]. cbn [length] in H. cbn [find_nth].
  destruct (N.eqb (code c) (code cs)).
  - destruct n as [|[|n']]; [lia|lia|]. apply IH. lia.
  - apply IH. lia.
Qed.

Lemma findchar_far b cs cmd n r o : row_len b r < Z.abs n -> lbuf_findchar b cs cmd n r o = None.
Proof.
  unfold lbuf_findchar, row_len. destruct (getl b r) as [l|]; [|reflexivity]. intro H. unfold slen in H. cbv zeta.
  assert (F : forall L i, (length L <= length l)%nat -> find_nth cs (Z.to_nat (Z.abs n)) L i = None)
    by (intros L i HL; apply find_nth_short; lia).
  rewrite !F by (rewrite ?rev_length, ?firstn_length, ?skipn_length; lia).
  destruct (Z.eqb_spec (Z.abs n) 0); [lia|].
  destruct (0 <? _); reflexivity.
Qed.

Theorem vi_motion_z_sound b rows top cl cc pc has cnt k row off r :
  vi_motion_z b rows top cl cc pc has cnt k row off = Some r -> vi_motion b rows top cl cc pc has cnt k row off = r.
Proof.
  unfold vi_motion_z. destruct (is_linekey_c has k) eqn:L; [intros [= <-]; reflexivity|].
  destruct (key_step b k) as [step|] eqn:K.
  - rewrite (key_step_motion b rows top cl cc pc has cnt k row off step K).
    destruct (iter_break_z (S (mfuel b)) cnt step (row, off)) as [[[r0 o0]|]|] eqn:I; try discriminate;
      intros [= <-]; rewrite (iter_break_z_sound _ _ _ _ _ I); reflexivity.
  - destruct k; try discriminate K; try discriminate L; intros [= <-]; try reflexivity.
    all: try (destruct has; [discriminate L|reflexivity]).
    all: unfold vi_motion; cbn [vi_motionln]; destruct (Z.ltb_spec (row_len b row) cnt) as [B|B]; try reflexivity.
    all: try (destruct cl; [reflexivity|]).
    all: rewrite !findchar_far by lia; reflexivity.
Qed.

Lemma do_motion_land b rows a1 a2 k s : do_motion b rows a1 a2 k s =
  land b rows k s (vi_motion b rows (v_top s) (v_cl s) (v_cc s) (v_pcol s) (m_has a1 a2) (m_cnt a1 a2) k (v_row s)
                              (ren_noeol (getl b (v_row s)) (v_off s))).
Proof. reflexivity. Qed.

Theorem do_motion_z_sound b rows a1 a2 k s r : do_motion_z b rows a1 a2 k s = Some r -> do_motion b rows a1 a2 k s = r.
Proof.
  rewrite do_motion_land. unfold do_motion_z. fold (m_cnt a1 a2). fold (m_has a1 a2).
  destruct (vi_motion_z _ _ _ _ _ _ _ _ _ _ _) as [mv|] eqn:V; [|discriminate]. intros [= <-].
  rewrite (vi_motion_z_sound _ _ _ _ _ _ _ _ _ _ _ _ V). reflexivity.
Qed.

(* the typed keys of one motion command: the count is read by vi_prefix, the motion runs with that count *)
Theorem step_keys_sound b rows ks s s' rest : step_keys b rows ks s = KOk s' rest ->
  exists n k, parse_motion ks = Some (n, k, rest) /\ do_motion b rows n 0 k s = Some s'.
Proof.
  unfold step_keys. destruct (parse_motion ks) as [[[n k] rest0]|]; [|discriminate].
  destruct (do_motion_z b rows n 0 k s) as [[s1|]|] eqn:D; try discriminate. intros [= <- <-].
  exists n, k. split; [reflexivity|]. apply do_motion_z_sound. exact D.
Qed.

(* ------------------------------------------------------------------ 5. counts beyond the edge *)
(* beyond this count no line motion of the buffer can tell counts apart (lines, window height, window top, 100 for N%) *)
Definition count_cap (b : buf) (rows top : Z) : Z := blen b + Z.abs rows + Z.abs top + 101.

(* + - _ j k G H L M N%: the target row (or the failure of N% above 100) is the same for all counts from count_cap on;
   for the keys that are no line motion both sides are None *)
Theorem line_count_beyond b rows top k row c1 c2 : 0 <= row < Z.max 1 (blen b) ->
  count_cap b rows top <= c1 -> count_cap b rows top <= c2 ->
  vi_motionln b rows top true c1 k row = vi_motionln b rows top true c2 k row.
Proof.
  unfold count_cap. intros Hr H1 H2. pose proof (Zle_0_nat (length b)) as Hb.
  unfold vi_motionln; destruct k; try reflexivity; cbv zeta; unfold blen in *.
  all: try (f_equal; f_equal;
    match goal with |- (if ?A <? 0 then 0 else _) = (if ?B <? 0 then 0 else _) =>
      destruct (Z.ltb_spec A 0); destruct (Z.ltb_spec B 0); lia end).
  destruct (Z.ltb_spec 100 c1); destruct (Z.ltb_spec 100 c2); try lia. reflexivity.
Qed.

(* ... where that is: j + _ G and H end on the last line, k - and L on the first one *)
Theorem line_count_beyond_target b rows top k row c : 0 <= row < Z.max 1 (blen b) -> count_cap b rows top <= c ->
  is_linekey k = true ->
  line_target b rows top true c k row =
  match k with
  | Kj | Kplus | Kunder | KG | KH => Z.max 0 (blen b - 1)
  | KM => line_target b rows top true 1 k row
  | _ => 0
  end.
Proof.
  unfold count_cap, line_target. intros Hr H1 Hk. pose proof (Zle_0_nat (length b)) as Hb. unfold blen in *.
  destruct k; try discriminate Hk; cbv zeta; lia.
Qed.

(* the whole command: the same state for all counts from count_cap on *)
Theorem do_motion_line_count_beyond b rows k s c1 c2 : is_linekey k = true \/ k = Kpct ->
  0 <= v_row s < Z.max 1 (blen b) ->
  count_cap b rows (v_top s) <= c1 -> count_cap b rows (v_top s) <= c2 ->
  do_motion b rows c1 0 k s = do_motion b rows c2 0 k s.
Proof.
  intros Hk Hr H1 H2. rewrite !do_motion_land.
  assert (P1 : 101 <= c1) by (unfold count_cap in H1; pose proof (Zle_0_nat (length b)); unfold blen in *; lia).
  assert (P2 : 101 <= c2) by (unfold count_cap in H2; pose proof (Zle_0_nat (length b)); unfold blen in *; lia).
  assert (M : forall c, 101 <= c -> m_has c 0 = true /\ m_cnt c 0 = c).
  { intros c Hc. unfold m_has, m_cnt. destruct (Z.eqb_spec c 0); [lia|]. cbn. split; [reflexivity|lia]. }
  destruct (M c1 P1) as [-> ->]. destruct (M c2 P2) as [-> ->].
  f_equal. unfold vi_motion.
  rewrite (line_count_beyond b rows (v_top s) k (v_row s) c1 c2 Hr H1 H2).
  destruct (vi_motionln b rows (v_top s) true c2 k (v_row s)) as [[r|]|] eqn:E; try reflexivity.
  exfalso. destruct Hk as [Hk | ->].
  - rewrite (vi_motionln_target _ _ _ _ _ _ _ Hk) in E. discriminate.
  - cbn in E. destruct (100 <? c2); discriminate.
Qed.

(* h l: from the length of the line on, every count lands on the first / last character *)
Theorem hl_count_beyond b rows top cl cc pc has c row off l : buf_wf b -> getl b row = Some l -> 0 <= off < slen l -> slen l <= c ->
  vi_motion b rows top cl cc pc has c Kh row off = MvOk row 0 cl cc pc /\
  vi_motion b rows top cl cc pc has c Kl row off = MvOk row (Z.max off (slen l - 2)) cl cc pc.
Proof.
  intros HW El Ho Hc. destruct (hl_motion_spec b rows top cl cc pc has c row off l HW El Ho) as [-> ->].
  split; f_equal; lia.
Qed.

(* f F t T ; , : a count above the length of the line fails (the cursor stays); f F t T still record the character *)
Definition is_findkey (k : mkey) : bool :=
  match k with Kf _ | KF _ | Kt _ | KT _ | Ksemi | Kcomma => true | _ => false end.
Theorem find_count_beyond b rows top cl cc pc has c k row off : is_findkey k = true -> row_len b row < c ->
  exists cl' cc', vi_motion b rows top cl cc pc has c k row off = MvFail cl' cc'.
Proof.
  intros Hk Hc. destruct k; try discriminate Hk; unfold vi_motion; cbn [vi_motionln].
  all: try (destruct cl; [eexists; eexists; reflexivity|]).
  all: rewrite findchar_far by lia; eexists; eexists; reflexivity.
Qed.

(* N| : from the column of the terminator on, every count goes to the end of the line *)
Theorem bar_count_beyond l p : 0 < slen l -> 0 <= p -> ren_pos l (slen l - 1) <= p -> ren_off l p = slen l - 1.
Proof. intros Hl Hp Hc. apply ren_off_unique; try lia. Qed.

(* the loops (h l w b e W B E { } space backspace): once a count reaches a position where one more step stays in place --
   the step reports the edge (breaks) or simply does not move -- every larger count lands on that position *)
Lemma iter_break_more {A} : forall n (step : A -> option (bool * A)) x y, iter_break n step x = Some y ->
  (step y = Some (true, y) \/ step y = Some (false, y)) -> forall m, (n <= m)%nat -> iter_break m step x = Some y.
Proof.
  induction n as [|n IH]; intros step x y H E m L; cbn [iter_break] in H.
  - injection H as <-. destruct E as [E|E]; [|apply iter_break_fix; exact E].
    destruct m; [reflexivity|]. cbn [iter_break]. rewrite E. reflexivity.
  - destruct m as [|m]; [lia|]. cbn [iter_break]. destruct (step x) as [[[|] z]|]; [exact H| |discriminate].
    apply (IH step z y H E). lia.
Qed.

Theorem loop_count_beyond b rows top cl cc pc has k row off step n r o : key_step b k = Some step ->
  0 <= n -> vi_motion b rows top cl cc pc has n k row off = MvOk r o cl cc pc ->
  (step (r, o) = Some (true, (r, o)) \/ step (r, o) = Some (false, (r, o))) ->
  forall c, n <= c -> vi_motion b rows top cl cc pc has c k row off = MvOk r o cl cc pc.
Proof.
  intros K Hn M E c Hc. rewrite (key_step_motion b rows top cl cc pc has n k row off step K) in M.
  rewrite (key_step_motion b rows top cl cc pc has c k row off step K).
  destruct (iter_break (Z.to_nat n) step (row, off)) as [[r0 o0]|] eqn:I; [|discriminate].
  injection M as <- <-. rewrite (iter_break_more _ _ _ _ I E (Z.to_nat c)) by lia. reflexivity.
Qed.
