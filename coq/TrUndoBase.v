(* TrUndoBase.v -- the undo bookkeeping of /repo/lbuf.c (C04) on the translated C text: the representation of the edit log
   in memory and the helpers every logged edit / undo / redo goes through.

   struct lbuf = block bl of 75 cells (TrLbufBase.v); lb->hist = block bh of 9 * hist_sz cells, record i in cells 9i .. 9i+8:
   ins 0, del 1, pos 2, n_ins 3, n_del 4, pos_off 5, seq 6, mark 7, mark_off 8.  A record REPRESENTS a model entry
   (UndoDefs.lopt) when ins/del are NULL for None or point to the start of a live block that reads the model's text up to a
   terminator (`cstr_from`: the block may be longer, as the buffers sbuf_done hands out are), the three ints are the
   model's, seq is the model's, pos_off is some int, and mark/mark_off are both NULL or point to two distinct live blocks
   of 32 cells (`marr`: every mark cell an int, and where it is >= 0 the offset cell is an int too -- what lbuf_savemark
   establishes and lbuf_loadmark relies on).  The blocks the log owns (`log_blocks`) are pairwise distinct and distinct
   from the struct and the hist array (NoDup): that is what makes the frees of lopt_done legal.
   The line table (ln, ln_glob, ln_n, ln_sz and what they point to) belongs to lbuf_replace, which is an ORACLE here:
   `T m cells fp t` is any predicate "the four table cells of the struct and the blocks fp hold the text t" that
   depends on the memory only through the blocks fp (T_frame); fp is disjoint from what the log owns.

   This file: the definitions, frame lemmas, and the mark helpers lbuf_markcopy, lbuf_savepos, lbuf_loadpos,
   lbuf_loadmark, lbuf_savemark; uc_dup. *)
From Coq Require Import List ZArith NArith Bool Lia.
From NV Require Import Bytes GenConsts CLite CLiteProps GenCFuncs CLiteTac CLiteExt TrLbufBase UndoDefs.
From NV Require TrLbuf TrLbufMarks CapDefs2.
Import ListNotations.
Local Open Scope Z_scope.

Definition i31 (n : nat) : Prop := Z.of_nat n <= 2147483647.
Definition ints_upto (blk : block) (n : nat) : Prop := forall j, (j < n)%nat -> exists z, nth_error blk j = Some (VInt z).

(* ------------------------------------------------------------------ the struct block: marks change, the rest stays *)
Definition mk_eq (blk blk' : block) : Prop :=
  length blk' = length blk /\ ints_upto blk' 64 /\ forall j, (64 <= j)%nat -> nth_error blk' j = nth_error blk j.
Lemma mk_eq_refl blk : ints_upto blk 64 -> mk_eq blk blk.
Proof. intro H. split; [reflexivity|]. split; [exact H|]. reflexivity. Qed.
Lemma mk_eq_trans a b c : mk_eq a b -> mk_eq b c -> mk_eq a c.
Proof.
  intros (L1 & I1 & E1) (L2 & I2 & E2). split; [congruence|]. split; [exact I2|]. intros j Hj. rewrite E2, E1 by exact Hj. reflexivity.
Qed.
Lemma mk_eq_upd blk j z : length blk = LBUF_CELLS -> ints_upto blk 64 -> (j < 64)%nat -> mk_eq blk (upd blk j (VInt z)).
Proof.
  intros L I Hj. assert (Hl : (j < length blk)%nat) by (rewrite L; unfold LBUF_CELLS; lia).
  split; [apply upd_length; exact Hl|]. split.
  - intros k Hk. destruct (Nat.eq_dec k j) as [->|Hne]; [exists z; apply nth_error_upd_same; exact Hl|].
    rewrite nth_error_upd_other by assumption. apply I. exact Hk.
  - intros k Hk. apply nth_error_upd_other; [exact Hl|lia].
Qed.
Lemma mk_eq_len a b : mk_eq a b -> length a = LBUF_CELLS -> length b = LBUF_CELLS.
Proof. intros (L & _) H. congruence. Qed.
Lemma mk_eq_ints a b : mk_eq a b -> ints_upto b 64.
Proof. intros (_ & I & _). exact I. Qed.
Lemma mk_eq_cell a b j v : mk_eq a b -> (64 <= j)%nat -> nth_error a j = Some v -> nth_error b j = Some v.
Proof. intros (_ & _ & E) Hj H. rewrite E by exact Hj. exact H. Qed.

Lemma markidx_caret : CapDefs2.markidx 94 = 30. Proof. reflexivity. Qed.
Lemma markidx_star : CapDefs2.markidx 42 = 27. Proof. reflexivity. Qed.

Lemma fld_store_upd (m : mem) bl (b : block) i v z : (bl < length m)%nat -> (i < length b)%nat -> z = Z.of_nat i ->
  store (upd m bl b) bl z v = Ok (upd m bl (upd b i v)).
Proof.
  intros Hbl Hi Hz. rewrite (fld_store (upd m bl b) bl b i v z) by (try assumption; apply mem_upd_same; exact Hbl).
  f_equal. apply upd_upd. exact Hbl.
Qed.
Lemma fld_load_upd (m : mem) bl (b : block) i v z : (bl < length m)%nat -> nth_error b i = Some v -> z = Z.of_nat i ->
  load (upd m bl b) bl z = Ok v.
Proof. intros Hbl Hi Hz. apply (fld_load (upd m bl b) bl b i v z); try assumption. apply mem_upd_same. exact Hbl. Qed.

(* ------------------------------------------------------------------ lbuf_markcopy(lb, '*', '^') *)
Theorem tr_markcopy (m : mem) bl (blk : block) d fuel : nth_error m bl = Some blk -> length blk = LBUF_CELLS -> ints_upto blk 64 ->
  exists blk', callf cprog fuel (S (S d)) F_lbuf_markcopy [VPtr bl 0; VInt 42; VInt 94] m = Ok (VUndef, upd m bl blk') /\ mk_eq blk blk'.
Proof.
  intros Hb L I. destruct (I 30%nat ltac:(lia)) as [z30 C30]. destruct (I 62%nat ltac:(lia)) as [z62 C62].
  assert (Hbl : (bl < length m)%nat) by (apply nth_error_Some; congruence).
  set (b1 := upd blk 27 (VInt (wrap I32 (wrap I32 z30)))).
  assert (E1 : mk_eq blk b1) by (apply mk_eq_upd; try assumption; lia).
  assert (L1 : length b1 = LBUF_CELLS) by (apply (mk_eq_len _ _ E1 L)).
  exists (upd b1 59 (VInt (wrap I32 (wrap I32 z62)))). split.
  - enter F_lbuf_markcopy cf_lbuf_markcopy. xstep.
    rewrite (TrLbufMarks.tr_markidx m 42 d fuel ltac:(lia)), markidx_star. xstep.
    rewrite (TrLbufMarks.tr_markidx m 94 d fuel ltac:(lia)), markidx_caret. xstep.
    rewrite (fld_load m bl blk 30 _ _ Hb C30) by reflexivity. xstep.
    rewrite (fld_store m bl blk 27 _ _ Hb) by (try reflexivity; rewrite L; unfold LBUF_CELLS; lia). xstep. fold b1.
    rewrite (TrLbufMarks.tr_markidx _ 42 d fuel ltac:(lia)), markidx_star. xstep.
    rewrite (TrLbufMarks.tr_markidx _ 94 d fuel ltac:(lia)), markidx_caret. xstep.
    assert (C62' : nth_error b1 62 = Some (VInt z62)) by (unfold b1; rewrite nth_error_upd_other by (try lia; rewrite L; unfold LBUF_CELLS; lia); exact C62).
    rewrite (fld_load_upd m bl b1 62 _ _ Hbl C62') by reflexivity. xstep.
    rewrite (fld_store_upd m bl b1 59 _ _ Hbl) by (try reflexivity; rewrite L1; unfold LBUF_CELLS; lia). reflexivity.
  - apply (mk_eq_trans _ _ _ E1). apply mk_eq_upd; [exact L1|apply (mk_eq_ints _ _ E1)|lia].
Qed.

(* ------------------------------------------------------------------ strings, mark arrays, log records *)
Definition cstr_from (m : mem) (b : nat) (o : Z) (t : bytes) : Prop :=
  exists blk, nth_error m b = Some blk /\ 0 <= o /\ firstn (S (length t)) (skipn (Z.to_nat o) blk) = cstr_block (zb t).
(* a string argument: NULL, or a pointer to a terminated text somewhere in a live block *)
Definition sarg (m : mem) (v : val) (s : option bytes) : Prop :=
  match s with
  | None => v = VInt 0
  | Some t => nonul t /\ exists b o, v = VPtr b o /\ cstr_from m b o t
  end.
(* a string the log owns: NULL, or a pointer to the START of a live block (so that free() accepts it) *)
Definition sown (m : mem) (v : val) (s : option bytes) : Prop :=
  match s with
  | None => v = VInt 0
  | Some t => nonul t /\ exists b, v = VPtr b 0 /\ cstr_from m b 0 t
  end.
Lemma sown_sarg m v s : sown m v s -> sarg m v s.
Proof. destruct s as [t|]; [|auto]. intros (Hn & b & -> & H). split; [exact Hn|]. exists b, 0. auto. Qed.

Definition marr (m : mem) (bm bo : nat) : Prop :=
  bm <> bo /\ exists mb ob, nth_error m bm = Some mb /\ nth_error m bo = Some ob /\ length mb = 32%nat /\ length ob = 32%nat /\
  forall j, (j < 32)%nat -> exists z, nth_error mb j = Some (VInt z) /\ i32 z /\ (0 <= z -> exists w, nth_error ob j = Some (VInt w)).

Definition hc (hblk : block) (k : nat) : val := nth k hblk VUndef.
Lemma hc_load m bh hblk k z : nth_error m bh = Some hblk -> (k < length hblk)%nat -> z = Z.of_nat k -> load m bh z = Ok (hc hblk k).
Proof. intros Hm Hk ->. apply (fld_load m bh hblk k); [exact Hm|apply nth_error_nth'; exact Hk|reflexivity]. Qed.

Definition mark_part (m : mem) (hblk : block) (i : nat) : Prop :=
  (hc hblk (9 * i + 7) = VInt 0 /\ hc hblk (9 * i + 8) = VInt 0) \/
  (exists bm bo, hc hblk (9 * i + 7) = VPtr bm 0 /\ hc hblk (9 * i + 8) = VPtr bo 0 /\ marr m bm bo).

Record ent_rep (m : mem) (hblk : block) (i : nat) (lo : lopt) : Prop := mk_ent_rep {
  er_ins : sown m (hc hblk (9 * i)) (ins lo);
  er_del : sown m (hc hblk (9 * i + 1)) (del lo);
  er_pos : hc hblk (9 * i + 2) = VInt (Z.of_nat (pos lo));
  er_nins : hc hblk (9 * i + 3) = VInt (Z.of_nat (n_ins lo));
  er_ndel : hc hblk (9 * i + 4) = VInt (Z.of_nat (n_del lo));
  er_off : exists z, hc hblk (9 * i + 5) = VInt z;
  er_seq : hc hblk (9 * i + 6) = VInt (seq lo);
  er_mark : mark_part m hblk i;
  er_rng : i31 (pos lo) /\ i31 (n_ins lo) /\ i31 (n_del lo) /\ i32 (seq lo)
}.

(* the blocks a record owns: those of its four pointers *)
Definition ptr_block (v : val) : list nat := match v with VPtr b _ => [b] | _ => [] end.
Definition ent_blocks (hblk : block) (i : nat) : list nat := flat_map ptr_block (TrLbuf.ent_ptrs hblk i).
Definition log_blocks (hblk : block) (i k : nat) : list nat := flat_map (ent_blocks hblk) (List.seq i k).
Definition keeps (bs : list nat) (m m' : mem) : Prop := forall b, In b bs -> nth_error m' b = nth_error m b.
Lemma keeps_refl bs m : keeps bs m m. Proof. intros b _. reflexivity. Qed.
Lemma keeps_trans bs m1 m2 m3 : keeps bs m1 m2 -> keeps bs m2 m3 -> keeps bs m1 m3.
Proof. intros H1 H2 b Hb. rewrite (H2 b Hb). apply H1. exact Hb. Qed.
Lemma keeps_sub bs bs' m m' : keeps bs m m' -> (forall b, In b bs' -> In b bs) -> keeps bs' m m'.
Proof. intros H S b Hb. apply H. apply S. exact Hb. Qed.

Lemma ent_blocks_eq hblk i : ent_blocks hblk i =
  ptr_block (hc hblk (9 * i)) ++ ptr_block (hc hblk (9 * i + 1)) ++ ptr_block (hc hblk (9 * i + 7)) ++ ptr_block (hc hblk (9 * i + 8)).
Proof. unfold ent_blocks, TrLbuf.ent_ptrs, hc. cbn [flat_map]. rewrite app_nil_r. reflexivity. Qed.

Lemma cstr_from_keeps m m' b o t : cstr_from m b o t -> nth_error m' b = nth_error m b -> cstr_from m' b o t.
Proof. intros (blk & H1 & H2 & H3) E. exists blk. rewrite E. auto. Qed.
Lemma sown_keeps m m' v s : sown m v s -> keeps (ptr_block v) m m' -> sown m' v s.
Proof.
  destruct s as [t|]; [|auto]. intros (Hn & b & -> & H) K. split; [exact Hn|]. exists b. split; [reflexivity|].
  apply (cstr_from_keeps m m'); [exact H|]. apply K. left. reflexivity.
Qed.
Lemma marr_keeps m m' bm bo : marr m bm bo -> nth_error m' bm = nth_error m bm -> nth_error m' bo = nth_error m bo -> marr m' bm bo.
Proof. intros (Hne & mb & ob & H1 & H2 & R) E1 E2. split; [exact Hne|]. exists mb, ob. rewrite E1, E2. auto. Qed.
Lemma mark_part_keeps m m' hblk i : mark_part m hblk i ->
  keeps (ptr_block (hc hblk (9 * i + 7)) ++ ptr_block (hc hblk (9 * i + 8))) m m' -> mark_part m' hblk i.
Proof.
  intros [H|(bm & bo & H7 & H8 & H)] K; [left; exact H|]. right. exists bm, bo. split; [exact H7|]. split; [exact H8|].
  rewrite H7, H8 in K. apply (marr_keeps m m'); [exact H| |]; apply K; cbn; auto.
Qed.
Lemma ent_rep_keeps m m' hblk i lo : ent_rep m hblk i lo -> keeps (ent_blocks hblk i) m m' -> ent_rep m' hblk i lo.
Proof.
  intros [H0 H1 H2 H3 H4 H5 H6 H7 H8] K. rewrite ent_blocks_eq in K. constructor; try assumption.
  - apply (sown_keeps m m' _ _ H0). intros b Hb. apply K. apply in_or_app. left. exact Hb.
  - apply (sown_keeps m m' _ _ H1). intros b Hb. apply K. apply in_or_app. right. apply in_or_app. left. exact Hb.
  - apply (mark_part_keeps m m' _ _ H7). intros b Hb. apply K. apply in_or_app. right. apply in_or_app. right. exact Hb.
Qed.
(* a record only reads its own nine cells *)
Lemma ent_rep_cells m hblk hblk' i lo : ent_rep m hblk i lo -> (forall k, (k < 9)%nat -> hc hblk' (9 * i + k) = hc hblk (9 * i + k)) ->
  ent_rep m hblk' i lo.
Proof.
  intros [H0 H1 H2 H3 H4 H5 H6 H7 H8] E.
  pose proof (E 0%nat ltac:(lia)) as E0. rewrite Nat.add_0_r in E0.
  constructor; try assumption; rewrite ?E0, ?(E 1%nat), ?(E 2%nat), ?(E 3%nat), ?(E 4%nat), ?(E 5%nat), ?(E 6%nat) by lia; try assumption.
  unfold mark_part in *. rewrite (E 7%nat), (E 8%nat) by lia. exact H7.
Qed.
Lemma ent_blocks_cells hblk hblk' i : (forall k, (k < 9)%nat -> hc hblk' (9 * i + k) = hc hblk (9 * i + k)) -> ent_blocks hblk' i = ent_blocks hblk i.
Proof.
  intro E. rewrite !ent_blocks_eq. pose proof (E 0%nat ltac:(lia)) as E0. rewrite Nat.add_0_r in E0.
  rewrite E0, (E 1%nat), (E 7%nat), (E 8%nat) by lia. reflexivity.
Qed.

(* ------------------------------------------------------------------ lbuf_loadpos(lb, lo): mark '^' = (lo->pos, lo->pos_off); '*' = '^' *)
Theorem tr_loadpos (m : mem) bl bh (blk hblk : block) i p off d fuel : nth_error m bl = Some blk -> length blk = LBUF_CELLS -> ints_upto blk 64 ->
  bh <> bl -> nth_error m bh = Some hblk -> (9 * i + 9 <= length hblk)%nat ->
  hc hblk (9 * i + 2) = VInt p -> hc hblk (9 * i + 5) = VInt off ->
  exists blk', callf cprog fuel (S (S (S d))) F_lbuf_loadpos [VPtr bl 0; VPtr bh (Z.of_nat (9 * i))] m = Ok (VUndef, upd m bl blk') /\ mk_eq blk blk'.
Proof.
  intros Hb L I Hne Hh Hlen Hp Ho.
  assert (Hbl : (bl < length m)%nat) by (apply nth_error_Some; congruence).
  set (b1 := upd blk 30 (VInt (wrap I32 (wrap I32 p)))).
  assert (E1 : mk_eq blk b1) by (apply mk_eq_upd; try assumption; lia).
  assert (L1 : length b1 = LBUF_CELLS) by (apply (mk_eq_len _ _ E1 L)).
  set (b2 := upd b1 62 (VInt (wrap I32 (wrap I32 off)))).
  assert (E2 : mk_eq b1 b2) by (apply mk_eq_upd; [exact L1|apply (mk_eq_ints _ _ E1)|lia]).
  assert (L2 : length b2 = LBUF_CELLS) by (apply (mk_eq_len _ _ E2 L1)).
  destruct (tr_markcopy (upd m bl b2) bl b2 d fuel (mem_upd_same m bl b2 Hbl) L2 (mk_eq_ints _ _ E2)) as (blk' & C & E3).
  exists blk'. split; [|apply (mk_eq_trans _ _ _ E1), (mk_eq_trans _ _ _ E2), E3].
  enter F_lbuf_loadpos cf_lbuf_loadpos. xstep.
  rewrite (TrLbufMarks.tr_markidx m 94 (S d) fuel ltac:(lia)), markidx_caret. xstep.
  rewrite (hc_load m bh hblk (9 * i + 2) _ Hh) by lia. rewrite Hp. xstep.
  rewrite (fld_store m bl blk 30 _ _ Hb) by (try reflexivity; rewrite L; unfold LBUF_CELLS; lia). xstep. fold b1.
  rewrite (TrLbufMarks.tr_markidx _ 94 (S d) fuel ltac:(lia)), markidx_caret. xstep.
  rewrite load_upd_other_block by assumption.
  rewrite (hc_load m bh hblk (9 * i + 5) _ Hh) by lia. rewrite Ho. xstep.
  rewrite (fld_store_upd m bl b1 62 _ _ Hbl) by (try reflexivity; rewrite L1; unfold LBUF_CELLS; lia). xstep. fold b2.
  rewrite C. xstep. rewrite upd_upd by exact Hbl. reflexivity.
Qed.

(* ------------------------------------------------------------------ lbuf_savepos(lb, lo): lo->pos_off = offset of '^' if '^' is set; '*' = '^' *)
Theorem tr_savepos (m : mem) bl bh (blk hblk : block) i d fuel : nth_error m bl = Some blk -> length blk = LBUF_CELLS -> ints_upto blk 64 ->
  bh <> bl -> nth_error m bh = Some hblk -> (9 * i + 9 <= length hblk)%nat ->
  exists blk' hblk', callf cprog fuel (S (S (S d))) F_lbuf_savepos [VPtr bl 0; VPtr bh (Z.of_nat (9 * i))] m
                     = Ok (VUndef, upd (upd m bh hblk') bl blk') /\ mk_eq blk blk' /\
                     (hblk' = hblk \/ exists z, hblk' = upd hblk (9 * i + 5) (VInt z)).
Proof.
  intros Hb L I Hne Hh Hlen.
  assert (Hbl : (bl < length m)%nat) by (apply nth_error_Some; congruence).
  assert (Hbh : (bh < length m)%nat) by (apply nth_error_Some; congruence).
  destruct (I 30%nat ltac:(lia)) as [z30 C30]. destruct (I 62%nat ltac:(lia)) as [z62 C62].
  enter F_lbuf_savepos cf_lbuf_savepos. xstep.
  rewrite (TrLbufMarks.tr_markidx m 94 (S d) fuel ltac:(lia)), markidx_caret. xstep.
  rewrite (fld_load m bl blk 30 _ _ Hb C30) by reflexivity. xstep.
  destruct (Z.leb_spec 0 (wrap I32 z30)) as [G|G]; xstep.
  - rewrite (TrLbufMarks.tr_markidx m 94 (S d) fuel ltac:(lia)), markidx_caret. xstep.
    rewrite (fld_load m bl blk 62 _ _ Hb C62) by reflexivity. xstep.
    rewrite (fld_store m bh hblk (9 * i + 5) _ _ Hh) by lia. xstep.
    set (h1 := upd hblk (9 * i + 5) _).
    assert (Hb1 : nth_error (upd m bh h1) bl = Some blk) by (rewrite mem_upd_other by (try assumption; congruence); exact Hb).
    destruct (tr_markcopy (upd m bh h1) bl blk d fuel Hb1 L I) as (blk' & C & E). rewrite C. xstep.
    exists blk', h1. split; [reflexivity|]. split; [exact E|]. right. eexists. reflexivity.
  - destruct (tr_markcopy m bl blk d fuel Hb L I) as (blk' & C & E). rewrite C. xstep.
    exists blk', hblk. split; [|split; [exact E|left; reflexivity]].
    rewrite (upd_self m bh hblk Hh). reflexivity.
Qed.

(* ------------------------------------------------------------------ lbuf_loadmark(lb, lo, j) *)
Definition mark_blocks (hblk : block) (i : nat) : list nat := ptr_block (hc hblk (9 * i + 7)) ++ ptr_block (hc hblk (9 * i + 8)).
Theorem tr_loadmark (m : mem) bl bh (blk hblk : block) i j d fuel : nth_error m bl = Some blk -> length blk = LBUF_CELLS -> ints_upto blk 64 ->
  bh <> bl -> nth_error m bh = Some hblk -> (9 * i + 9 <= length hblk)%nat -> mark_part m hblk i -> ~ In bl (mark_blocks hblk i) ->
  (j < 32)%nat ->
  exists blk', callf cprog fuel (S d) F_lbuf_loadmark [VPtr bl 0; VPtr bh (Z.of_nat (9 * i)); VInt (Z.of_nat j)] m = Ok (VUndef, upd m bl blk') /\ mk_eq blk blk'.
Proof.
  intros Hb L I Hne Hh Hlen Hm Hnb Hj.
  assert (Hbl : (bl < length m)%nat) by (apply nth_error_Some; congruence).
  enter F_lbuf_loadmark cf_lbuf_loadmark. xstep.
  rewrite (hc_load m bh hblk (9 * i + 7) _ Hh) by lia.
  destruct Hm as [[H7 H8]|(bm & bo & H7 & H8 & Hne2 & mb & ob & Hmb & Hob & Lm & Lo & R)].
  - rewrite H7. xstep. exists blk. split; [rewrite (upd_self m bl blk Hb); reflexivity|apply mk_eq_refl; exact I].
  - unfold mark_blocks in Hnb. rewrite H7, H8 in Hnb. cbn [ptr_block app In] in Hnb.
    assert (Nbm : bm <> bl) by tauto. assert (Nbo : bo <> bl) by tauto.
    rewrite H7. xstep. rewrite (hc_load m bh hblk (9 * i + 7) _ Hh) by lia. rewrite H7. xstep.
    destruct (R j Hj) as (z & Cz & Iz & Hw).
    rewrite (fld_load m bm mb j _ _ Hmb Cz) by lia. xstep. rewrite (wrap_I32_id _ Iz).
    destruct (Z.leb_spec 0 z) as [G|G]; xstep.
    + destruct (Hw G) as (w & Cw).
      rewrite (hc_load m bh hblk (9 * i + 7) _ Hh) by lia. rewrite H7. xstep.
      rewrite (fld_load m bm mb j _ _ Hmb Cz) by lia. xstep.
      rewrite (fld_store m bl blk j _ _ Hb) by (try lia; rewrite L; unfold LBUF_CELLS; lia). xstep.
      set (b1 := upd blk j _).
      assert (E1 : mk_eq blk b1) by (apply mk_eq_upd; try assumption; lia).
      assert (L1 : length b1 = LBUF_CELLS) by (apply (mk_eq_len _ _ E1 L)).
      rewrite load_upd_other_block by assumption.
      rewrite (hc_load m bh hblk (9 * i + 8) _ Hh) by lia. rewrite H8. xstep.
      rewrite load_upd_other_block by assumption.
      rewrite (fld_load m bo ob j _ _ Hob Cw) by lia. xstep.
      rewrite (fld_store_upd m bl b1 (32 + j) _ _ Hbl) by (try lia; rewrite L1; unfold LBUF_CELLS; lia). xstep.
      eexists. split; [reflexivity|]. apply (mk_eq_trans _ _ _ E1). apply mk_eq_upd; [exact L1|apply (mk_eq_ints _ _ E1)|lia].
    + exists blk. split; [rewrite (upd_self m bl blk Hb); reflexivity|apply mk_eq_refl; exact I].
Qed.

(* ------------------------------------------------------------------ lbuf_savemark(lb, lo, j) *)
Lemma memseti_ok (m : mem) bd od v n (dblk : block) : nth_error m bd = Some dblk -> 0 <= n -> 0 <= od ->
  od + n <= Z.of_nat (length dblk) ->
  do_builtin_m BMemsetI [VPtr bd od; VInt v; VInt n] m
  = Ok (VPtr bd od, upd m bd (put_cells dblk (Z.to_nat od) (repeat (VInt v) (Z.to_nat n)))).
Proof.
  intros Hd Hn Hod Hl. cbn [do_builtin_m]. destruct (Z.ltb_spec n 0); [lia|].
  rewrite (write_cells_ok m bd dblk); [reflexivity|exact Hd|exact Hod|]. rewrite repeat_length. lia.
Qed.
Lemma upd_app2_old {A} (m : list A) x y b z : (b < length m)%nat -> upd ((m ++ [x]) ++ [y]) b z = (upd m b z ++ [x]) ++ [y].
Proof. intro H. rewrite upd_app_old by (rewrite app_length; cbn; lia). rewrite upd_app_old by exact H. reflexivity. Qed.
Lemma upd_app2_mid {A} (m : list A) x y z : upd ((m ++ [x]) ++ [y]) (length m) z = (m ++ [z]) ++ [y].
Proof. rewrite upd_app_old by (rewrite app_length; cbn; lia). rewrite upd_app_new. reflexivity. Qed.
Lemma upd_app2_new {A} (m : list A) x y z : upd ((m ++ [x]) ++ [y]) (S (length m)) z = (m ++ [x]) ++ [z].
Proof. replace (S (length m)) with (length (m ++ [x])) by (rewrite app_length; cbn; lia). apply upd_app_new. Qed.
Lemma upd_app2_mid' {A} (m : list A) x y z n : n = length m -> upd ((m ++ [x]) ++ [y]) n z = (m ++ [z]) ++ [y].
Proof. intros ->. apply upd_app2_mid. Qed.
Lemma upd_app2_new' {A} (m : list A) x y z n : n = S (length m) -> upd ((m ++ [x]) ++ [y]) n z = (m ++ [x]) ++ [z].
Proof. intros ->. apply upd_app2_new. Qed.
Lemma nth_app2_old {A} (m : list A) x y b : (b < length m)%nat -> nth_error ((m ++ [x]) ++ [y]) b = nth_error m b.
Proof. intro H. rewrite nth_error_app_old by (rewrite app_length; cbn; lia). apply nth_error_app_old. exact H. Qed.
Lemma nth_app2_mid {A} (m : list A) x y : nth_error ((m ++ [x]) ++ [y]) (length m) = Some x.
Proof. rewrite nth_error_app_old by (rewrite app_length; cbn; lia). apply nth_error_app_new. Qed.
Lemma nth_app2_new {A} (m : list A) x y : nth_error ((m ++ [x]) ++ [y]) (S (length m)) = Some y.
Proof. replace (S (length m)) with (length (m ++ [x])) by (rewrite app_length; cbn; lia). apply nth_error_app_new. Qed.

Lemma nth_app2_mid' {A} (m : list A) x y n : n = length m -> nth_error ((m ++ [x]) ++ [y]) n = Some x.
Proof. intros ->. apply nth_app2_mid. Qed.
Lemma nth_app2_new' {A} (m : list A) x y n : n = S (length m) -> nth_error ((m ++ [x]) ++ [y]) n = Some y.
Proof. intros ->. apply nth_app2_new. Qed.
Definition U32 : block := repeat VUndef 32.
Definition N32 : block := repeat (VInt (-1)) 32.
Ltac div32 := change (if 4 =? 0 then Err EDivZero else chk U64 (128 ÷ 4)) with (@Ok Z 32).

(* the memory lbuf_savemark leaves when it has to allocate the two arrays *)
Definition savemark_new (m : mem) bh (hblk : block) i j (z w : Z) : mem :=
  (upd m bh (upd (upd hblk (9 * i + 7) (VPtr (length m) 0)) (9 * i + 8) (VPtr (S (length m)) 0))
   ++ [upd N32 j (VInt z)]) ++ [upd U32 j (VInt w)].

Lemma savemark_new_ok (m : mem) bl bh (blk hblk : block) i j zj wj d fuel : nth_error m bl = Some blk ->
  bh <> bl -> nth_error m bh = Some hblk -> (9 * i + 9 <= length hblk)%nat ->
  hc hblk (9 * i + 7) = VInt 0 -> (j < 32)%nat ->
  nth_error blk j = Some (VInt zj) -> nth_error blk (32 + j) = Some (VInt wj) -> 0 <= wrap I32 zj ->
  callf cprog fuel (S d) F_lbuf_savemark [VPtr bl 0; VPtr bh (Z.of_nat (9 * i)); VInt (Z.of_nat j)] m
  = Ok (VUndef, savemark_new m bh hblk i j (wrap I32 (wrap I32 zj)) (wrap I32 (wrap I32 wj))).
Proof.
  intros Hb Hne Hh Hlen H7 Hj Cj Cwj G.
  assert (Hbl : (bl < length m)%nat) by (apply nth_error_Some; congruence).
  assert (Hbh : (bh < length m)%nat) by (apply nth_error_Some; congruence).
  enter F_lbuf_savemark cf_lbuf_savemark. xstep.
  rewrite (fld_load m bl blk j _ _ Hb Cj) by lia. xstep.
  destruct (Z.leb_spec 0 (wrap I32 zj)) as [_|G']; [|lia]. xstep.
  rewrite (hc_load m bh hblk (9 * i + 7) _ Hh) by lia. rewrite H7. xstep.
  div32. xstep. rewrite malloc_ok by lia. xstep. change (repeat VUndef (Z.to_nat 32)) with U32.
  rewrite (fld_store (m ++ [U32]) bh hblk (9 * i + 7)) by (try lia; rewrite nth_error_app_old by exact Hbh; exact Hh). xstep.
  rewrite upd_app_old by exact Hbh.
  set (h1 := upd hblk (9 * i + 7) (VPtr (length m) 0)). set (M1 := upd m bh h1).
  assert (LM1 : length M1 = length m) by (apply upd_length; exact Hbh).
  assert (Lh1 : length h1 = length hblk) by (apply upd_length; lia).
  div32. xstep. rewrite malloc_ok by lia. xstep. change (repeat VUndef (Z.to_nat 32)) with U32.
  replace (length (M1 ++ [U32])) with (S (length m)) by (rewrite app_length, LM1; cbn; lia).
  assert (HM1 : nth_error M1 bh = Some h1) by (apply mem_upd_same; exact Hbh).
  rewrite (fld_store ((M1 ++ [U32]) ++ [U32]) bh h1 (9 * i + 8)) by (try lia; rewrite nth_app2_old by lia; exact HM1). xstep.
  rewrite upd_app2_old by lia.
  set (h2 := upd h1 (9 * i + 8) (VPtr (S (length m)) 0)). set (M2 := upd m bh h2).
  replace (upd M1 bh h2) with M2 by (unfold M1, M2; symmetry; apply upd_upd; exact Hbh).
  assert (LM2 : length M2 = length m) by (apply upd_length; exact Hbh).
  assert (HM2 : nth_error M2 bh = Some h2) by (apply mem_upd_same; exact Hbh).
  assert (Lh2 : length h2 = length hblk) by (unfold h2; rewrite upd_length by lia; exact Lh1).
  assert (C7 : nth_error h2 (9 * i + 7) = Some (VPtr (length m) 0)).
  { unfold h2. rewrite nth_error_upd_other by lia. apply nth_error_upd_same. lia. }
  assert (C8 : nth_error h2 (9 * i + 8) = Some (VPtr (S (length m)) 0)) by (apply nth_error_upd_same; lia).
  assert (HB : forall x y, nth_error ((M2 ++ [x]) ++ [y]) bh = Some h2) by (intros; rewrite nth_app2_old by lia; exact HM2).
  assert (HL : forall x y, nth_error ((M2 ++ [x]) ++ [y]) bl = Some blk).
  { intros. rewrite nth_app2_old by lia. unfold M2. rewrite mem_upd_other by (try assumption; congruence). exact Hb. }
  rewrite (fld_load _ bh h2 (9 * i + 7) _ _ (HB _ _) C7) by lia. xstep. div32. xstep.
  rewrite (memseti_ok _ (length m) 0 (-1) 32 U32) by (try lia; try (cbn; lia); rewrite <- LM2; apply nth_app2_mid). xstep.
  rewrite (upd_app2_mid' M2 _ _ _ (length m)) by (symmetry; exact LM2). change (put_cells U32 (Z.to_nat 0) (repeat (VInt (-1)) (Z.to_nat 32))) with N32.
  rewrite (fld_load _ bh h2 (9 * i + 7) _ _ (HB _ _) C7) by lia. xstep.
  rewrite (fld_load _ bl blk j _ _ (HL _ _) Cj) by lia. xstep.
  rewrite (fld_store ((M2 ++ [N32]) ++ [U32]) (length m) N32 j) by (try lia; try (cbn; lia); rewrite <- LM2; apply nth_app2_mid). xstep.
  rewrite (upd_app2_mid' M2 _ _ _ (length m)) by (symmetry; exact LM2).
  rewrite (fld_load _ bh h2 (9 * i + 8) _ _ (HB _ _) C8) by lia. xstep.
  rewrite (fld_load _ bl blk (32 + j) _ _ (HL _ _) Cwj) by lia. xstep.
  rewrite (fld_store ((M2 ++ [upd N32 j _]) ++ [U32]) (S (length m)) U32 j) by (try lia; try (cbn; lia); rewrite <- LM2; apply nth_app2_new). xstep.
  rewrite (upd_app2_new' M2 _ _ _ (S (length m))) by (rewrite LM2; reflexivity). reflexivity.
Qed.

Lemma wrap_I32_range z : i32 (wrap I32 z).
Proof.
  unfold i32, wrap. cbn [ity_bits ity_signed andb]. change (2 ^ 32) with 4294967296. change (2 ^ (32 - 1)) with 2147483648.
  pose proof (Z.mod_pos_bound z 4294967296 ltac:(lia)). destruct (Z.leb_spec 2147483648 (z mod 4294967296)); lia.
Qed.
Lemma wrap_I32_idem z : wrap I32 (wrap I32 z) = wrap I32 z.
Proof. apply wrap_I32_id. apply wrap_I32_range. Qed.

(* the two arrays exist: two stores *)
Lemma savemark_old_ok (m : mem) bl bh (blk hblk mb ob : block) bm bo i j zj wj d fuel : nth_error m bl = Some blk ->
  nth_error m bh = Some hblk -> (9 * i + 9 <= length hblk)%nat ->
  hc hblk (9 * i + 7) = VPtr bm 0 -> hc hblk (9 * i + 8) = VPtr bo 0 -> bm <> bo -> bm <> bl -> bm <> bh -> bo <> bl -> bo <> bh ->
  nth_error m bm = Some mb -> nth_error m bo = Some ob -> length mb = 32%nat -> length ob = 32%nat -> (j < 32)%nat ->
  nth_error blk j = Some (VInt zj) -> nth_error blk (32 + j) = Some (VInt wj) -> 0 <= wrap I32 zj ->
  callf cprog fuel (S d) F_lbuf_savemark [VPtr bl 0; VPtr bh (Z.of_nat (9 * i)); VInt (Z.of_nat j)] m
  = Ok (VUndef, upd (upd m bm (upd mb j (VInt (wrap I32 (wrap I32 zj))))) bo (upd ob j (VInt (wrap I32 (wrap I32 wj))))).
Proof.
  intros Hb Hh Hlen H7 H8 N1 N2 N3 N4 N5 Hmb Hob Lm Lo Hj Cj Cwj G.
  assert (Hbm : (bm < length m)%nat) by (apply nth_error_Some; congruence).
  enter F_lbuf_savemark cf_lbuf_savemark. xstep.
  rewrite (fld_load m bl blk j _ _ Hb Cj) by lia. xstep.
  destruct (Z.leb_spec 0 (wrap I32 zj)) as [_|G']; [|lia]. xstep.
  rewrite (hc_load m bh hblk (9 * i + 7) _ Hh) by lia. rewrite H7. xstep.
  rewrite (hc_load m bh hblk (9 * i + 7) _ Hh) by lia. rewrite H7. xstep.
  rewrite (fld_load m bl blk j _ _ Hb Cj) by lia. xstep.
  rewrite (fld_store m bm mb j _ _ Hmb) by lia. xstep.
  rewrite load_upd_other_block by (try assumption; congruence).
  rewrite (hc_load m bh hblk (9 * i + 8) _ Hh) by lia. rewrite H8. xstep.
  rewrite load_upd_other_block by (try assumption; congruence).
  rewrite (fld_load m bl blk (32 + j) _ _ Hb Cwj) by lia. xstep.
  rewrite (fld_store _ bo ob j) by (try lia; rewrite mem_upd_other by (try assumption; congruence); exact Hob). reflexivity.
Qed.

Lemma nth_error_repeat {A} (x : A) n k : (k < n)%nat -> nth_error (repeat x n) k = Some x.
Proof. revert k; induction n as [|n IH]; intros k H; [lia|]. destruct k as [|k]; [reflexivity|]. cbn [repeat nth_error]. apply IH. lia. Qed.

(* lbuf_savemark(lb, lo, j) as a whole: only the record's two mark cells, its mark arrays and fresh blocks change; the record's
   mark part is valid afterwards *)
Theorem tr_savemark (m : mem) bl bh (blk hblk : block) i j d fuel : nth_error m bl = Some blk -> length blk = LBUF_CELLS -> ints_upto blk 64 ->
  bh <> bl -> nth_error m bh = Some hblk -> (9 * i + 9 <= length hblk)%nat -> mark_part m hblk i ->
  ~ In bl (mark_blocks hblk i) -> ~ In bh (mark_blocks hblk i) -> (j < 32)%nat ->
  exists m' hblk', callf cprog fuel (S d) F_lbuf_savemark [VPtr bl 0; VPtr bh (Z.of_nat (9 * i)); VInt (Z.of_nat j)] m = Ok (VUndef, m') /\
    nth_error m' bh = Some hblk' /\ length hblk' = length hblk /\
    (forall k, k <> (9 * i + 7)%nat -> k <> (9 * i + 8)%nat -> hc hblk' k = hc hblk k) /\
    mark_part m' hblk' i /\ (length m <= length m')%nat /\
    (forall b, (b < length m)%nat -> b <> bh -> ~ In b (mark_blocks hblk i) -> nth_error m' b = nth_error m b) /\
    (forall b, In b (mark_blocks hblk' i) -> In b (mark_blocks hblk i) \/ (length m <= b < length m')%nat).
Proof.
  intros Hb L I Hne Hh Hlen Hm Hnb Hnh Hj.
  assert (Hbl : (bl < length m)%nat) by (apply nth_error_Some; congruence).
  assert (Hbh : (bh < length m)%nat) by (apply nth_error_Some; congruence).
  destruct (I j ltac:(lia)) as [zj Cj]. destruct (I (32 + j)%nat ltac:(lia)) as [wj Cwj].
  destruct (Z.leb_spec 0 (wrap I32 zj)) as [G|G].
  2:{ (* the mark is not set: nothing happens *)
    exists m, hblk. split.
    - enter F_lbuf_savemark cf_lbuf_savemark. xstep. rewrite (fld_load m bl blk j _ _ Hb Cj) by lia. xstep.
      destruct (Z.leb_spec 0 (wrap I32 zj)); [lia|]. xstep. reflexivity.
    - repeat split; auto; try lia. }
  destruct Hm as [[H7 H8]|(bm & bo & H7 & H8 & Hne2 & mb & ob & Hmb & Hob & Lm & Lo & R)].
  - exists (savemark_new m bh hblk i j (wrap I32 (wrap I32 zj)) (wrap I32 (wrap I32 wj))),
           (upd (upd hblk (9 * i + 7) (VPtr (length m) 0)) (9 * i + 8) (VPtr (S (length m)) 0)).
    split; [apply (savemark_new_ok m bl bh blk hblk i j zj wj d fuel); assumption|].
    set (h2 := upd (upd hblk (9 * i + 7) (VPtr (length m) 0)) (9 * i + 8) (VPtr (S (length m)) 0)).
    assert (Lh1 : length (upd hblk (9 * i + 7) (VPtr (length m) 0)) = length hblk) by (apply upd_length; lia).
    assert (Lh2 : length h2 = length hblk) by (unfold h2; rewrite upd_length by lia; exact Lh1).
    assert (LM2 : length (upd m bh h2) = length m) by (apply upd_length; exact Hbh).
    assert (C7 : hc h2 (9 * i + 7) = VPtr (length m) 0).
    { unfold hc, h2. rewrite nth_upd by lia. replace (9 * i + 7 =? 9 * i + 8)%nat with false by (symmetry; apply Nat.eqb_neq; lia).
      rewrite nth_upd by lia. rewrite Nat.eqb_refl. reflexivity. }
    assert (C8 : hc h2 (9 * i + 8) = VPtr (S (length m)) 0) by (unfold hc, h2; rewrite nth_upd by lia; rewrite Nat.eqb_refl; reflexivity).
    unfold savemark_new. fold h2. split; [rewrite nth_app2_old by lia; apply mem_upd_same; exact Hbh|]. split; [exact Lh2|].
    split.
    { intros k K7 K8. unfold hc, h2. rewrite nth_upd by lia. replace (k =? 9 * i + 8)%nat with false by (symmetry; apply Nat.eqb_neq; lia).
      rewrite nth_upd by lia. replace (k =? 9 * i + 7)%nat with false by (symmetry; apply Nat.eqb_neq; lia). reflexivity. }
    split.
    { right. exists (length m), (S (length m)). split; [exact C7|]. split; [exact C8|]. split; [lia|].
      exists (upd N32 j (VInt (wrap I32 (wrap I32 zj)))), (upd U32 j (VInt (wrap I32 (wrap I32 wj)))).
      split; [apply nth_app2_mid'; symmetry; exact LM2|]. split; [apply nth_app2_new'; rewrite LM2; reflexivity|].
      split; [rewrite upd_length; cbn; lia|]. split; [rewrite upd_length; cbn; lia|].
      intros k Hk. destruct (Nat.eq_dec k j) as [->|Hkj].
      - exists (wrap I32 (wrap I32 zj)). split; [apply nth_error_upd_same; cbn; lia|]. split; [apply wrap_I32_range|].
        intros _. eexists. apply nth_error_upd_same. cbn. lia.
      - exists (-1). split; [rewrite nth_error_upd_other by (try assumption; cbn; lia); apply nth_error_repeat; exact Hk|].
        split; [unfold i32; lia|lia]. }
    split; [rewrite !app_length, LM2; cbn; lia|].
    split.
    { intros b Hb' Nb _. rewrite nth_app2_old by lia. apply mem_upd_other; assumption. }
    intros b Hin. right. unfold mark_blocks in Hin. rewrite C7, C8 in Hin. rewrite !app_length, LM2. cbn in Hin |- *. lia.
  - unfold mark_blocks in Hnb, Hnh. rewrite H7, H8 in Hnb, Hnh. cbn [ptr_block app In] in Hnb, Hnh.
    assert (Hbm : (bm < length m)%nat) by (apply nth_error_Some; congruence).
    assert (Hbo : (bo < length m)%nat) by (apply nth_error_Some; congruence).
    eexists. exists hblk. split.
    { apply (savemark_old_ok m bl bh blk hblk mb ob bm bo i j zj wj d fuel); try assumption; try tauto; intro; subst; tauto. }
    set (mb' := upd mb j (VInt (wrap I32 (wrap I32 zj)))). set (ob' := upd ob j (VInt (wrap I32 (wrap I32 wj)))).
    assert (L1 : length (upd m bm mb') = length m) by (apply upd_length; exact Hbm).
    split; [rewrite !mem_upd_other by (try rewrite L1; try assumption; intro; subst; tauto); exact Hh|]. split; [reflexivity|].
    split; [reflexivity|]. split.
    { right. exists bm, bo. split; [exact H7|]. split; [exact H8|]. split; [exact Hne2|]. exists mb', ob'.
      split; [rewrite mem_upd_other by (rewrite ?L1; assumption); apply mem_upd_same; exact Hbm|].
      split; [apply mem_upd_same; rewrite L1; exact Hbo|].
      split; [unfold mb'; rewrite upd_length; lia|]. split; [unfold ob'; rewrite upd_length; lia|].
      intros k Hk. destruct (Nat.eq_dec k j) as [->|Hkj].
      - exists (wrap I32 (wrap I32 zj)). split; [apply nth_error_upd_same; lia|]. split; [apply wrap_I32_range|].
        intros _. eexists. apply nth_error_upd_same. lia.
      - destruct (R k Hk) as (z & Cz & Iz & Hw). exists z. split; [unfold mb'; rewrite nth_error_upd_other by (try assumption; lia); exact Cz|].
        split; [exact Iz|]. intro Hz. destruct (Hw Hz) as (w & Cw). exists w. unfold ob'. rewrite nth_error_upd_other by (try assumption; lia). exact Cw. }
    split; [rewrite upd_length by (rewrite L1; exact Hbo); lia|].
    split.
    { intros b Hb' Nb Nin. unfold mark_blocks in Nin. rewrite H7, H8 in Nin. cbn [ptr_block app In] in Nin.
      rewrite !mem_upd_other by (rewrite ?L1; try assumption; intro; subst; tauto). reflexivity. }
    intros b Hin. left. exact Hin.
Qed.

(* ------------------------------------------------------------------ the whole representation *)
(* the four line-table cells of the struct: ln, ln_glob, ln_n, ln_sz *)
Definition tcells (blk : block) : list val := [hc blk 64; hc blk 65; hc blk 66; hc blk 67].
Definition Tpred : Type := mem -> list val -> list nat -> text -> Prop.
(* the table predicate reads the memory only through the blocks of its footprint *)
Definition T_frame (T : Tpred) : Prop := forall m m' cs fp t, T m cs fp t -> keeps fp m m' -> T m' cs fp t.

Definition owned (bl bh : nat) (hblk : block) (n : nat) : list nat := bl :: bh :: log_blocks hblk 0 n.

Record urep (T : Tpred) (m : mem) (bl : nat) (blk : block) (bh : nat) (hblk : block) (lb : lbuf) : Prop := mk_urep {
  u_blk : nth_error m bl = Some blk;
  u_len : length blk = LBUF_CELLS;
  u_marks : ints_upto blk 64;
  u_lnn : nth_error blk L_ln_n = Some (VInt (Z.of_nat (length (ln lb))));
  u_lnr : i31 (length (ln lb));
  u_useq : nth_error blk L_useq = Some (VInt (useq lb));
  u_hist : nth_error blk L_hist = Some (VPtr bh 0);
  u_sz : nth_error blk L_hist_sz = Some (VInt (Z.of_nat (hist_sz lb)));
  u_n : nth_error blk L_hist_n = Some (VInt (Z.of_nat (length (hist lb))));
  u_u : nth_error blk L_hist_u = Some (VInt (Z.of_nat (hist_u lb)));
  u_zero : nth_error blk L_useq_zero = Some (VInt (useq_zero lb));
  u_last : nth_error blk L_useq_last = Some (VInt (useq_last lb));
  u_rng : i32 (useq lb) /\ (hist_u lb <= length (hist lb) <= hist_sz lb)%nat /\ (0 < hist_sz lb)%nat /\ i31 (hist_sz lb);
  u_hblk : nth_error m bh = Some hblk;
  u_hlen : length hblk = (9 * hist_sz lb)%nat;
  u_ents : forall i, (i < length (hist lb))%nat -> ent_rep m hblk i (nth i (hist lb) dflt);
  u_own : NoDup (owned bl bh hblk (length (hist lb)));
  u_tab : exists fp, T m (tcells blk) fp (ln lb) /\ (forall b, In b fp -> ~ In b (owned bl bh hblk (length (hist lb))) /\ (b < length m)%nat)
}.

Lemma in_log_blocks hblk i n b : (i < n)%nat -> In b (ent_blocks hblk i) -> In b (log_blocks hblk 0 n).
Proof. intros Hi Hb. unfold log_blocks. apply in_flat_map. exists i. split; [apply in_seq; lia|exact Hb]. Qed.
Lemma mark_blocks_ent hblk i b : In b (mark_blocks hblk i) -> In b (ent_blocks hblk i).
Proof. intro H. rewrite ent_blocks_eq. apply in_or_app. right. apply in_or_app. right. exact H. Qed.

Lemma hc_eq (a b : block) j v : nth_error a j = Some v -> nth_error b j = nth_error a j -> hc b j = hc a j.
Proof. intros H E. unfold hc. rewrite (nth_error_nth a j VUndef H). apply nth_error_nth. rewrite E. exact H. Qed.
Lemma tcells_eq (a b : block) : length a = LBUF_CELLS -> (forall j, (64 <= j < 68)%nat -> nth_error b j = nth_error a j) -> tcells b = tcells a.
Proof.
  intros L E. unfold tcells.
  assert (X : forall j, (64 <= j < 68)%nat -> hc b j = hc a j).
  { intros j Hj. destruct (nth_error a j) as [v|] eqn:C; [apply (hc_eq a b j v C); rewrite E by exact Hj; reflexivity|].
    apply nth_error_None in C. rewrite L in C. unfold LBUF_CELLS in C. lia. }
  rewrite !X by lia. reflexivity.
Qed.

(* the struct block changes in its marks and in hist_u only: the representation follows with the new cursor *)
Lemma urep_struct T (m : mem) bl (blk blk' : block) bh hblk lb u : T_frame T -> urep T m bl blk bh hblk lb ->
  length blk' = LBUF_CELLS -> ints_upto blk' 64 ->
  (forall j, (64 <= j)%nat -> j <> L_hist_u -> nth_error blk' j = nth_error blk j) ->
  nth_error blk' L_hist_u = Some (VInt (Z.of_nat u)) -> (u <= length (hist lb))%nat ->
  urep T (upd m bl blk') bl blk' bh hblk (set_hu lb u).
Proof.
  intros TF [Hb L I Cn Rn Cq Ch Csz Cnn Cu Cz Cl Rg Hh Hl He Ho (fp & Ht & Hfp)] L' I' E Cu' Hu.
  assert (Hbl : (bl < length m)%nat) by (apply nth_error_Some; congruence).
  assert (Nhl : bh <> bl) by (intro X; subst; inversion Ho as [|? ? Hn _]; apply Hn; left; reflexivity).
  assert (K : forall bs, ~ In bl bs -> keeps bs m (upd m bl blk')).
  { intros bs Hn b Hb'. apply mem_upd_other; [exact Hbl|]. intro X; subst. contradiction. }
  constructor; cbn [set_hu ln hist hist_u hist_sz useq useq_zero useq_last];
    try (rewrite E by (unfold L_hist_u, L_ln_n, L_useq, L_hist, L_hist_sz, L_hist_n, L_useq_zero, L_useq_last; lia); assumption); try assumption.
  - apply mem_upd_same. exact Hbl.
  - destruct Rg as (R1 & (R2a & R2b) & R3 & R4). split; [exact R1|]. split; [split; [exact Hu|exact R2b]|]. split; assumption.
  - rewrite mem_upd_other by assumption. exact Hh.
  - intros i Hi. apply (ent_rep_keeps m); [apply He; exact Hi|]. apply K. intro X.
    inversion Ho as [|? ? Hn _]. apply Hn. right. apply (in_log_blocks hblk i); assumption.
  - exists fp. split; [|intros b Hb'; rewrite upd_length by exact Hbl; exact (Hfp b Hb')].
    rewrite (tcells_eq blk blk' L) by (intros j Hj; apply E; unfold L_hist_u; lia).
    apply (TF m); [exact Ht|]. apply K. intro X. apply (proj1 (Hfp bl X)). left. reflexivity.
Qed.
Lemma set_hu_same lb : set_hu lb (hist_u lb) = lb.
Proof. destruct lb; reflexivity. Qed.
(* only mark cells of the struct changed *)
Lemma urep_marks T (m : mem) bl (blk blk' : block) bh hblk lb : T_frame T -> urep T m bl blk bh hblk lb -> mk_eq blk blk' ->
  urep T (upd m bl blk') bl blk' bh hblk lb.
Proof.
  intros TF R (L & I & E). rewrite <- (set_hu_same lb). pose proof R as [Hb L0 I0 Cn Rn Cq Ch Csz Cnn Cu Cz Cl Rg Hh Hl He Ho Ht].
  apply (urep_struct T m bl blk blk' bh hblk lb (hist_u lb) TF R); try assumption; try congruence.
  - intros j Hj _. apply E. exact Hj.
  - rewrite E by (unfold L_hist_u; lia). exact Cu.
  - lia.
Qed.
