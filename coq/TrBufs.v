(* TrBufs.v -- the buffer table of /repo/ex.c (C20) on the C text: static struct buf bufs[16], the cursor globals
   xrow xoff xtop xleft xtd, bufs_cnt.  For each function, running the CLite term tools/c2clite.py generated from ex.c
   (GenCFuncs.v) on a memory whose block G_bufs holds ANY table gives the value / the memory stated here.

   struct buf is 41 cells: ft[32] 0..31, path 32, lb 33, row 34, off 35, top 36, left 37, id 38 (short), td 39 (short),
   mtime 40 (long); the table is the 16 * 41 = 656 cells of block G_bufs; a slot is the record `cslot` (the 32 ft cells
   hold anything; path and lb are NULL or pointers; the integer fields are arbitrary integers).

   bufs_find, bufs_findroom, bufs_save, bufs_number, ex_path, ex_filetype: theorems about callf (no untranslated callee).
   bufs_load calls reg_put, bufs_free calls lbuf_free (untranslated): their theorems, and those of bufs_shift and
   bufs_switch, are about CLiteExt.callx for EVERY oracle, under a hypothesis that says what the oracle answers on the
   one call that is reached.  The lbuf_modified(bufs[0].lb) call of bufs_switch (repo commit 75e4c2f) is a hypothesis
   of the same kind about the translated lbuf_modified (TrBufsLbuf.v discharges it with TrLbuf.tr_lbuf_modified). *)
From Coq Require Import List ZArith NArith Bool Lia.
From NV Require Import Bytes BufsDefs.
From NV Require Import CLite CLiteProps GenCFuncs CLiteTac CLiteExt.
Import ListNotations.
Local Open Scope Z_scope.

(* ------------------------------------------------------------------ generic list facts *)
Lemma upd_app_l {A} (a b : list A) n x : (n < length a)%nat -> upd (a ++ b) n x = upd a n x ++ b.
Proof.
  intro H. unfold upd. rewrite firstn_app, skipn_app. replace (n - length a)%nat with 0%nat by lia.
  replace (S n - length a)%nat with 0%nat by lia. cbn [firstn skipn]. rewrite app_nil_r, <- app_assoc. reflexivity.
Qed.
Lemma upd_app_r {A} (a b : list A) n x : (length a <= n)%nat -> upd (a ++ b) n x = a ++ upd b (n - length a) x.
Proof.
  intro H. unfold upd. rewrite firstn_app, skipn_app, firstn_all2 by lia. rewrite (skipn_all2 a) by lia.
  replace (S n - length a)%nat with (S (n - length a)) by lia. rewrite <- app_assoc. reflexivity.
Qed.

(* a list of chunks of equal length n, flattened: cell n * i + j is cell j of chunk i *)
Section Chunks.
  Context {A B : Type} (f : A -> list B) (n : nat).
  Definition chunks_ok (l : list A) : Prop := Forall (fun a => length (f a) = n) l.
  Lemma chunks_length l : chunks_ok l -> length (flat_map f l) = (n * length l)%nat.
  Proof. induction 1 as [|a l Ha Hl IH]; cbn [flat_map length]; [lia|]. rewrite app_length, IH, Ha. lia. Qed.
  Lemma chunks_nth l : chunks_ok l -> forall i j a, nth_error l i = Some a -> (j < n)%nat ->
    nth_error (flat_map f l) (n * i + j) = nth_error (f a) j.
  Proof.
    induction 1 as [|x l Hx Hl IH]; intros i j a Hi Hj; [destruct i; discriminate|].
    cbn [flat_map]. destruct i as [|i].
    - cbn in Hi. injection Hi as ->. rewrite Nat.mul_0_r, nth_error_app1 by lia. reflexivity.
    - cbn [nth_error] in Hi. rewrite nth_error_app2 by lia. rewrite Hx.
      replace (n * S i + j - n)%nat with (n * i + j)%nat by lia. apply IH; assumption.
  Qed.
  Lemma chunks_firstn l : chunks_ok l -> forall k, firstn (n * k) (flat_map f l) = flat_map f (firstn k l).
  Proof.
    induction 1 as [|x l Hx Hl IH]; intro k; [rewrite !firstn_nil; reflexivity|].
    destruct k as [|k]; [rewrite Nat.mul_0_r; reflexivity|]. cbn [flat_map firstn].
    rewrite firstn_app, Hx. replace (n * S k - n)%nat with (n * k)%nat by lia. rewrite IH.
    rewrite firstn_all2 by lia. reflexivity.
  Qed.
  Lemma chunks_skipn l : chunks_ok l -> forall k, skipn (n * k) (flat_map f l) = flat_map f (skipn k l).
  Proof.
    induction 1 as [|x l Hx Hl IH]; intro k; [rewrite !skipn_nil; reflexivity|].
    destruct k as [|k]; [rewrite Nat.mul_0_r; reflexivity|]. cbn [flat_map skipn].
    rewrite skipn_app, Hx. replace (n * S k - n)%nat with (n * k)%nat by lia. rewrite IH.
    rewrite skipn_all2 by lia. reflexivity.
  Qed.
  (* whole chunks written over whole chunks *)
  Lemma chunks_put l u i : chunks_ok l -> chunks_ok u -> (i + length u <= length l)%nat ->
    put_cells (flat_map f l) (n * i) (flat_map f u) = flat_map f (firstn i l ++ u ++ skipn (i + length u) l).
  Proof.
    intros Hl Hu Hi. unfold put_cells. rewrite (chunks_length u Hu), !flat_map_app.
    rewrite chunks_firstn by exact Hl. replace (n * i + n * length u)%nat with (n * (i + length u))%nat by lia.
    rewrite chunks_skipn by exact Hl. reflexivity.
  Qed.
End Chunks.

(* ------------------------------------------------------------------ struct buf and the table as cells *)
Record cslot := mkcs {
  cs_ft : list val; cs_path : val; cs_lb : val;
  cs_row : Z; cs_off : Z; cs_top : Z; cs_left : Z; cs_id : Z; cs_td : Z; cs_mtime : Z }.
Definition cs_tail (s : cslot) : list val :=
  [cs_path s; cs_lb s; VInt (cs_row s); VInt (cs_off s); VInt (cs_top s); VInt (cs_left s); VInt (cs_id s); VInt (cs_td s); VInt (cs_mtime s)].
Definition slot_cells (s : cslot) : list val := cs_ft s ++ cs_tail s.
Definition tab_cells (t : list cslot) : list val := flat_map slot_cells t.
Definition slot_ok (s : cslot) : Prop := length (cs_ft s) = 32%nat.
Definition tab_ok (t : list cslot) : Prop := length t = 16%nat /\ Forall slot_ok t.
(* block G_bufs of m is the table t *)
Definition tab_at (m : mem) (t : list cslot) : Prop := nth_error m G_bufs = Some (tab_cells t).
Definition cs_zero : cslot := mkcs (repeat (VInt 0) 32) (VInt 0) (VInt 0) 0 0 0 0 0 0 0.
Definition nths (t : list cslot) (i : nat) : cslot := nth i t cs_zero.

Lemma slot_len s : slot_ok s -> length (slot_cells s) = 41%nat.
Proof. intro H. unfold slot_cells. rewrite app_length, H. reflexivity. Qed.
Lemma tab_chunks t : Forall slot_ok t -> chunks_ok slot_cells 41 t.
Proof. apply Forall_impl. intros s. apply slot_len. Qed.
Lemma tab_len t : tab_ok t -> length (tab_cells t) = 656%nat.
Proof. intros [Hl Hs]. unfold tab_cells. rewrite (chunks_length slot_cells 41 t (tab_chunks t Hs)), Hl. reflexivity. Qed.
(* cell 32 + k of slot i (k < 9): the k-th of the nine scalar fields *)
Lemma tab_fld t i k : Forall slot_ok t -> (i < length t)%nat -> (k < 9)%nat ->
  nth_error (tab_cells t) (41 * i + (32 + k)) = nth_error (cs_tail (nths t i)) k.
Proof.
  intros Hs Hi Hk. unfold tab_cells.
  rewrite (chunks_nth slot_cells 41 t (tab_chunks t Hs) i (32 + k) (nths t i)) by (try lia; apply nth_error_nth'; exact Hi).
  unfold slot_cells. assert (H32 : slot_ok (nths t i)) by (rewrite Forall_forall in Hs; apply Hs, nth_In; exact Hi).
  rewrite nth_error_app2 by (rewrite H32; lia). rewrite H32. f_equal. lia.
Qed.
Lemma tab_load m t i k v z : tab_at m t -> Forall slot_ok t -> (i < length t)%nat -> (k < 9)%nat ->
  nth_error (cs_tail (nths t i)) k = Some v -> z = Z.of_nat (41 * i + (32 + k)) -> load m G_bufs z = Ok v.
Proof.
  intros Hm Hs Hi Hk Hv ->. unfold load. rewrite Hm. destruct (Z.ltb_spec (Z.of_nat (41 * i + (32 + k))) 0); [lia|].
  rewrite Nat2Z.id, tab_fld by assumption. rewrite Hv. reflexivity.
Qed.

(* ------------------------------------------------------------------ strcmp on two C strings in memory *)
Fixpoint str_cmp (a b : bytes) : Z :=
  match a, b with
  | [], [] => 0
  | [], _ :: _ => -1
  | _ :: _, [] => 1
  | x :: a', y :: b' => if (x <? y)%N then -1 else if (y <? x)%N then 1 else str_cmp a' b'
  end.
Lemma wrap_u8_byte : forall c, (c < 256)%N -> wrap U8 (Z.of_N c) = Z.of_N c.
Proof. byte_fact. Qed.
Lemma cmp_cells_cstr (a : bytes) : nonul a -> forall (b : bytes) n, nonul b -> (Nat.min (length a) (length b) < n)%nat ->
  cmp_cells (cstr_block (zb a)) (cstr_block (zb b)) n = Ok (str_cmp a b).
Proof.
  intro Ha. induction a as [|x a IH]; intros b n Hb Hn; (destruct n as [|n]; [cbn in Hn; lia|]).
  - destruct b as [|y b]; [reflexivity|]. inversion Hb as [|? ? [Hy0 Hy] Hb']; subst.
    cbn [cstr_block zb map app cmp_cells str_cmp]. rewrite (wrap_u8_byte y Hy). change (wrap U8 0) with 0.
    destruct (Z.ltb_spec 0 (Z.of_N y)); [reflexivity|lia].
  - inversion Ha as [|? ? [Hx0 Hx] Ha']; subst. destruct b as [|y b].
    + cbn [cstr_block zb map app cmp_cells str_cmp]. rewrite (wrap_u8_byte x Hx). change (wrap U8 0) with 0.
      destruct (Z.ltb_spec (Z.of_N x) 0); [lia|]. destruct (Z.ltb_spec 0 (Z.of_N x)); [reflexivity|lia].
    + inversion Hb as [|? ? [Hy0 Hy] Hb']; subst. cbn [cstr_block zb map app cmp_cells str_cmp].
      rewrite (wrap_u8_byte x Hx), (wrap_u8_byte y Hy).
      destruct (Z.ltb_spec (Z.of_N x) (Z.of_N y)); destruct (N.ltb_spec x y); try lia; [reflexivity|].
      destruct (Z.ltb_spec (Z.of_N y) (Z.of_N x)); destruct (N.ltb_spec y x); try lia; [reflexivity|].
      destruct (Z.eqb_spec (Z.of_N x) 0); [lia|]. apply (IH Ha' b n Hb'). cbn [length] in Hn. lia.
Qed.
Lemma str_cmp_eqb a b : (str_cmp a b =? 0) = path_eqb a b.
Proof.
  revert b; induction a as [|x a IH]; intros [|y b]; try reflexivity. cbn [str_cmp path_eqb].
  destruct (N.ltb_spec x y); [destruct (N.eqb_spec x y); [lia|reflexivity]|].
  destruct (N.ltb_spec y x); [destruct (N.eqb_spec x y); [lia|reflexivity]|].
  destruct (N.eqb_spec x y); [apply IH|lia].
Qed.
Lemma builtin_strcmp m b1 s1 b2 s2 : str_at m b1 s1 -> str_at m b2 s2 -> nonul s1 -> nonul s2 ->
  do_builtin_m BStrcmp [VPtr b1 0; VPtr b2 0] m = Ok (VInt (str_cmp s1 s2), m).
Proof.
  intros H1 H2 N1 N2. cbn [do_builtin_m do_builtin].
  change 0 with (Z.of_nat 0). rewrite (blk_from_str m b1 s1 0 H1) by lia. rewrite (blk_from_str m b2 s2 0 H2) by lia. cbn [bind skipn].
  rewrite cmp_cells_cstr; [reflexivity|assumption|assumption|].
  unfold cstr_block, zb. rewrite !app_length, !map_length. cbn [length]. lia.
Qed.

(* ------------------------------------------------------------------ paths: a path cell is NULL or points to a C string *)
Inductive path_is (m : mem) : val -> option bytes -> Prop :=
| path_null : path_is m (VInt 0) None
| path_str pb s : str_at m pb s -> nonul s -> path_is m (VPtr pb 0) (Some s).
(* ps lists what the 16 path cells point to *)
Definition paths_at (m : mem) (t : list cslot) (ps : list (option bytes)) : Prop := Forall2 (path_is m) (map cs_path t) ps.
Definition path_hit (q : bytes) (p : option bytes) : bool := match p with Some s => path_eqb s q | None => false end.
Definition idx_z (r : option nat) : Z := match r with Some i => Z.of_nat i | None => -1 end.

Lemma paths_nth m t ps i : paths_at m t ps -> (i < length t)%nat -> path_is m (cs_path (nths t i)) (nth i ps None).
Proof.
  unfold paths_at, nths. revert ps i. induction t as [|s t IH]; intros ps i H Hi; cbn [length] in Hi; [lia|].
  inversion H as [|? p ? ps' Hp Hr]; subst. destruct i as [|i]; [exact Hp|]. cbn [nth]. apply IH; [exact Hr|lia].
Qed.
Lemma paths_len m t ps : paths_at m t ps -> length ps = length t.
Proof.
  unfold paths_at. revert ps; induction t as [|s t IH]; intros ps H; inversion H; subst; [reflexivity|].
  cbn [length]. f_equal. apply IH. assumption.
Qed.
Lemma skipn_cons_nth {A} (l : list A) i d : (i < length l)%nat -> skipn i l = nth i l d :: skipn (S i) l.
Proof.
  revert l; induction i as [|i IH]; intros [|x l] H; cbn in H; try lia; [reflexivity|]. cbn [skipn nth]. apply IH. lia.
Qed.

(* ------------------------------------------------------------------ bufs_find *)
Definition find_loop : stmt := match fn_body cf_bufs_find with SSeq _ (SSeq (SSeq _ w) _) => w | _ => SSkip end.

Ltac len16 :=
  match goal with
  | |- context [if ?a =? 0 then Err EDivZero else chk U64 (?x ÷ ?a)] =>
      let v := eval vm_compute in (if a =? 0 then @Err Z EDivZero else chk U64 (x ÷ a)) in
      change (if a =? 0 then Err EDivZero else chk U64 (x ÷ a)) with v
  end.
Ltac slot_off i k :=
  match goal with |- context [load ?m G_bufs ?z] => replace z with (Z.of_nat (41 * i + (32 + k))) by lia end.

Lemma find_loop_ok call m t ps qb q : tab_at m t -> tab_ok t -> paths_at m t ps -> str_at m qb q -> nonul q ->
  forall k i fuel, (i + k = 16)%nat -> (k < fuel)%nat ->
  exec call fuel find_loop (mkst [VPtr qb 0; VInt (Z.of_nat i)] m) =
  match first_idx (path_hit q) (skipn i ps) with
  | Some j => OReturn (VInt (Z.of_nat (i + j))) (mkst [VPtr qb 0; VInt (Z.of_nat (i + j))] m)
  | None => ONormal (mkst [VPtr qb 0; VInt 16] m)
  end.
Proof.
  intros Hm [Hl Hs] Hp Hq Nq. pose proof (paths_len m t ps Hp) as Hpl.
  induction k as [|k IH]; intros i fuel Hik Hf; (destruct fuel as [|fuel]; [lia|]);
    unfold find_loop; cbn [fn_body cf_bufs_find]; rewrite exec_for; xstep; len16; xstep;
    rewrite wrap_U64_id by lia; change (wrap U64 16) with 16.
  - assert (i = 16%nat) by lia. subst i. change (Z.of_nat 16 <? 16) with false. xstep.
    rewrite skipn_all2 by lia. reflexivity.
  - destruct (Z.ltb_spec (Z.of_nat i) 16); [|lia]. xstep.
    rewrite (skipn_cons_nth ps i None) by lia. cbn [first_idx].
    pose proof (paths_nth m t ps i Hp ltac:(lia)) as Hpi.
    assert (Hnext : exec call fuel find_loop (mkst [VPtr qb 0; VInt (Z.of_nat (S i))] m) =
                    match first_idx (path_hit q) (skipn (S i) ps) with
                    | Some j => OReturn (VInt (Z.of_nat (S i + j))) (mkst [VPtr qb 0; VInt (Z.of_nat (S i + j))] m)
                    | None => ONormal (mkst [VPtr qb 0; VInt 16] m) end) by (apply IH; lia).
    unfold find_loop in Hnext; cbn [fn_body cf_bufs_find] in Hnext.
    slot_off i 0%nat. inversion Hpi as [Hv Hn|pb s Hsa Hsn Hv Hn].
    + rewrite (tab_load m t i 0 (VInt 0) _ Hm Hs) by (try lia; cbn [cs_tail nth_error]; congruence). xstep.
      cbn [path_hit]. rewrite chk_I32 by lia. xstep. replace (Z.of_nat i + 1) with (Z.of_nat (S i)) by lia. rewrite Hnext.
      destruct (first_idx (path_hit q) (skipn (S i) ps)); cbn [option_map]; [|reflexivity].
      replace (i + S n)%nat with (S i + n)%nat by lia. reflexivity.
    + rewrite (tab_load m t i 0 (VPtr pb 0) _ Hm Hs) by (try lia; cbn [cs_tail nth_error]; congruence). xstep.
      slot_off i 0%nat.
      rewrite (tab_load m t i 0 (VPtr pb 0) _ Hm Hs) by (try lia; cbn [cs_tail nth_error]; congruence). xstep.
      rewrite (builtin_strcmp m pb s qb q Hsa Hq Hsn Nq). xstep.
      cbn [path_hit]. rewrite <- str_cmp_eqb. destruct (str_cmp s q =? 0); xstep.
      * rewrite Nat.add_0_r. reflexivity.
      * rewrite chk_I32 by lia. xstep. replace (Z.of_nat i + 1) with (Z.of_nat (S i)) by lia. rewrite Hnext.
        destruct (first_idx (path_hit q) (skipn (S i) ps)); cbn [option_map]; [|reflexivity].
        replace (i + S n)%nat with (S i + n)%nat by lia. reflexivity.
Qed.

Lemma sx_eq47 : forall c, (c < 256)%N -> (wrap I32 (wrap I8 (Z.of_N c)) =? 47) = (c =? 47)%N.
Proof. byte_fact. Qed.
Lemma sx_eq0 : forall c, (c < 256)%N -> (wrap I32 (wrap I8 (Z.of_N c)) =? 0) = (c =? 0)%N.
Proof. byte_fact. Qed.

(* bufs_find(path): the index of the first slot whose path is not NULL and equals path -- "/" standing for "" -- or -1;
   for ANY table, any path string; memory unchanged.  (canon p = if p = "/" then "" else p, BufsDefs.) *)
Theorem tr_bufs_find m t ps pb p d fuel : tab_at m t -> tab_ok t -> paths_at m t ps ->
  str_at m pb p -> nonul p -> str_at m G_lit__0 [] -> (16 < fuel)%nat ->
  callf cprog fuel (S d) F_bufs_find [VPtr pb 0] m = Ok (VInt (idx_z (first_idx (path_hit (canon p)) ps)), m).
Proof.
  intros Hm Ht Hp Hs Np H0 Hf. enter F_bufs_find cf_bufs_find. rewrite exec_seq, exec_expr.
  assert (H256 : bytes_lt256 p) by (apply nonul_lt256; exact Np).
  match goal with |- context [eval ?c (ESetLocal 0 ?e) ?st] =>
    assert (Hcanon : exists qb, str_at m qb (canon p) /\ eval c (ESetLocal 0 e) st = Ok (VPtr qb 0, mkst [VPtr qb 0; VUndef] m)) end.
  { xcbn. replace (0 + 1 * 0) with (Z.of_nat 0) by reflexivity. rewrite (load_str m pb p _ 0 Hs) by (try reflexivity; lia). xcbn.
    unfold canon. destruct p as [|c p'].
    - exists pb. split; [exact Hs|]. reflexivity.
    - inversion Np as [|? ? [Hc0 Hc] Np']; subst. cbn [nthb nth]. cbn [path_eqb].
      rewrite (sx_eq47 c Hc). destruct (N.eqb_spec c 47) as [->|Hne]; cbn [andb b2z Z.eqb negb].
      + replace (0 + 1 * 1) with (Z.of_nat 1) by reflexivity. rewrite (load_str m pb _ _ 1 Hs) by (try reflexivity; cbn [length]; lia). xstep.
        destruct p' as [|c2 p2].
        * cbn [nthb nth path_eqb]. exists G_lit__0. split; [exact H0|]. reflexivity.
        * inversion Np' as [|? ? [Hd0 Hd] _]; subst. cbn [nthb nth path_eqb].
          rewrite (sx_eq0 c2 Hd). destruct (N.eqb_spec c2 0); [lia|]. exists pb. split; [exact Hs|]. reflexivity.
      + exists pb. split; [exact Hs|]. reflexivity. }
  destruct Hcanon as [qb [Hq Hev]]. rewrite Hev. cbn [bind set_local locals memm set_nth].
  rewrite exec_seq, exec_seq, exec_expr. xcbn.
  assert (Nq : nonul (canon p)) by (unfold canon; destruct (path_eqb p [47%N]); [constructor|exact Np]).
  pose proof (find_loop_ok (callf cprog fuel d) m t ps qb (canon p) Hm Ht Hp Hq Nq 16 0 fuel ltac:(lia) Hf) as Hloop.
  unfold find_loop in Hloop; cbn [fn_body cf_bufs_find] in Hloop. change (Z.of_nat 0) with 0 in Hloop. rewrite Hloop.
  cbn [skipn]. destruct (first_idx (path_hit (canon p)) ps) as [j|]; cbn [idx_z]; [reflexivity|].
  xstep. reflexivity.
Qed.

(* ------------------------------------------------------------------ bufs_findroom *)
Definition ptr_val (v : val) : Prop := v = VInt 0 \/ exists b o, v = VPtr b o.
Definition is_null (v : val) : bool := match v with VInt 0 => true | _ => false end.
Definition lbs_ok (t : list cslot) : Prop := Forall (fun s => ptr_val (cs_lb s)) t.
Definition room_of (t : list cslot) : nat :=
  match first_idx (fun s => is_null (cs_lb s)) (firstn 15 t) with Some i => i | None => 15%nat end.
Definition room_loop : stmt := match fn_body cf_bufs_findroom with SSeq (SSeq _ w) _ => w | _ => SSkip end.

Lemma nths_skipn t i : (i < length t)%nat -> skipn i t = nths t i :: skipn (S i) t.
Proof. apply skipn_cons_nth. Qed.
Lemma lbs_nth t i : lbs_ok t -> (i < length t)%nat -> ptr_val (cs_lb (nths t i)).
Proof. intros H Hi. unfold lbs_ok in H. rewrite Forall_forall in H. apply H. apply nth_In. exact Hi. Qed.

Lemma room_loop_ok call m t : tab_at m t -> tab_ok t -> lbs_ok t ->
  forall k i fuel, (i + k = 15)%nat -> (k < fuel)%nat ->
  exec call fuel room_loop (mkst [VInt (Z.of_nat i)] m) =
  ONormal (mkst [VInt (Z.of_nat (match first_idx (fun s => is_null (cs_lb s)) (skipn i (firstn 15 t)) with Some j => i + j | None => 15 end))] m).
Proof.
  intros Hm [Hl Hs] Hlb.
  induction k as [|k IH]; intros i fuel Hik Hf; (destruct fuel as [|fuel]; [lia|]);
    unfold room_loop; cbn [fn_body cf_bufs_findroom]; rewrite exec_for; xstep; len16; xstep;
    rewrite (wrap_U64_id (Z.of_nat i)) by lia; change (wrap U64 16) with 16; change (wrap U64 1) with 1; change (chk U64 (16 - 1)) with (@Ok Z 15); xstep.
  - assert (i = 15%nat) by lia. subst i. change (Z.of_nat 15 <? 15) with false. xstep.
    rewrite skipn_all2 by (rewrite firstn_length; lia). reflexivity.
  - destruct (Z.ltb_spec (Z.of_nat i) 15); [|lia]. xstep.
    rewrite (skipn_cons_nth (firstn 15 t) i cs_zero) by (rewrite firstn_length; lia). cbn [first_idx].
    replace (nth i (firstn 15 t) cs_zero) with (nths t i).
    2:{ unfold nths. rewrite <- (firstn_skipn 15 t) at 1. rewrite app_nth1 by (rewrite firstn_length; lia). reflexivity. }
    slot_off i 1%nat.
    destruct (lbs_nth t i Hlb ltac:(lia)) as [E|[b [o E]]].
    + rewrite (tab_load m t i 1 (VInt 0) _ Hm Hs) by (try lia; cbn [cs_tail nth_error]; congruence). xstep.
      rewrite E. cbn [is_null]. rewrite Nat.add_0_r. reflexivity.
    + rewrite (tab_load m t i 1 (VPtr b o) _ Hm Hs) by (try lia; cbn [cs_tail nth_error]; congruence). xstep.
      rewrite E. cbn [is_null]. rewrite chk_I32 by lia. xstep. replace (Z.of_nat i + 1) with (Z.of_nat (S i)) by lia.
      specialize (IH (S i) fuel ltac:(lia) ltac:(lia)). unfold room_loop in IH; cbn [fn_body cf_bufs_findroom] in IH. rewrite IH.
      destruct (first_idx (fun s => is_null (cs_lb s)) (skipn (S i) (firstn 15 t))); cbn [option_map]; [|reflexivity].
      replace (i + S n)%nat with (S i + n)%nat by lia. reflexivity.
Qed.

(* bufs_findroom(): the first of the slots 0..14 whose lb is NULL, else 15; for ANY table; memory unchanged *)
Theorem tr_bufs_findroom m t d fuel : tab_at m t -> tab_ok t -> lbs_ok t -> (15 < fuel)%nat ->
  callf cprog fuel (S d) F_bufs_findroom [] m = Ok (VInt (Z.of_nat (room_of t)), m).
Proof.
  intros Hm Ht Hlb Hf. enter F_bufs_findroom cf_bufs_findroom. rewrite exec_seq, exec_seq, exec_expr. xcbn.
  pose proof (room_loop_ok (callf cprog fuel d) m t Hm Ht Hlb 15 0 fuel ltac:(lia) Hf) as Hloop.
  unfold room_loop in Hloop; cbn [fn_body cf_bufs_findroom] in Hloop. change (Z.of_nat 0) with 0 in Hloop. rewrite Hloop.
  xstep. reflexivity.
Qed.

(* ------------------------------------------------------------------ stores into a field of a slot *)
Lemma wrap_I16_range z : -32768 <= wrap I16 z <= 32767.
Proof.
  unfold wrap. cbn [ity_bits ity_signed andb]. change (2 ^ 16) with 65536. change (2 ^ (16 - 1)) with 32768.
  pose proof (Z.mod_pos_bound z 65536 ltac:(lia)). destruct (Z.leb_spec 32768 (z mod 65536)); lia.
Qed.
Lemma wrap_I16_id z : -32768 <= z <= 32767 -> wrap I16 z = z.
Proof.
  intro H. unfold wrap. cbn [ity_bits ity_signed andb]. change (2 ^ 16) with 65536. change (2 ^ (16 - 1)) with 32768.
  destruct (Z.leb_spec 32768 (z mod 65536)) as [L|L].
  - assert (z < 0) by (destruct (Z.lt_ge_cases z 0); [assumption|rewrite Z.mod_small in L by lia; lia]).
    rewrite <- (Z.mod_add z 1 65536) by lia. rewrite Z.mod_small by lia. lia.
  - assert (0 <= z) by (destruct (Z.lt_ge_cases z 0); [|assumption]; exfalso;
      rewrite <- (Z.mod_add z 1 65536) in L by lia; rewrite Z.mod_small in L by lia; lia).
    apply Z.mod_small. lia.
Qed.
Lemma wrap_I16_idem z : wrap I16 (wrap I16 z) = wrap I16 z.
Proof. apply wrap_I16_id. apply wrap_I16_range. Qed.
Lemma wrap_I16_I32 z : wrap I32 (wrap I16 z) = wrap I16 z.
Proof. apply wrap_I32_id. pose proof (wrap_I16_range z). lia. Qed.

Lemma tab_split t i : (i < length t)%nat -> tab_cells t = tab_cells (firstn i t) ++ slot_cells (nths t i) ++ tab_cells (skipn (S i) t).
Proof.
  intro H. rewrite <- (firstn_skipn i t) at 1. rewrite (nths_skipn t i H). unfold tab_cells. rewrite flat_map_app. reflexivity.
Qed.
(* replacing cell j of slot i replaces slot i *)
Lemma tab_upd_cell t i j v s' : Forall slot_ok t -> (i < length t)%nat -> (j < 41)%nat ->
  slot_cells s' = upd (slot_cells (nths t i)) j v ->
  upd (tab_cells t) (41 * i + j) v = tab_cells (upd t i s').
Proof.
  intros Hs Hi Hj Hs'. rewrite (tab_split t i Hi).
  assert (Hlen : length (tab_cells (firstn i t)) = (41 * i)%nat).
  { unfold tab_cells. rewrite (chunks_length slot_cells 41); [rewrite firstn_length; lia|]. apply tab_chunks. apply Forall_firstn'. exact Hs. }
  assert (Hsi : slot_ok (nths t i)) by (rewrite Forall_forall in Hs; apply Hs, nth_In; exact Hi).
  rewrite upd_app_r by lia. rewrite Hlen. replace (41 * i + j - 41 * i)%nat with j by lia.
  rewrite upd_app_l by (rewrite slot_len by exact Hsi; lia). rewrite <- Hs'.
  unfold upd. unfold tab_cells. rewrite flat_map_app. reflexivity.
Qed.
Lemma tab_store m t i j v z t' : tab_at m t -> tab_ok t -> (i < 16)%nat -> (j < 41)%nat -> z = Z.of_nat (41 * i + j) ->
  upd (tab_cells t) (41 * i + j) v = tab_cells t' -> store m G_bufs z v = Ok (upd m G_bufs (tab_cells t')).
Proof.
  intros Hm Ht Hi Hj -> Hu. rewrite (store_ok m G_bufs (tab_cells t)); [|exact Hm|rewrite (tab_len t Ht); lia].
  rewrite Nat2Z.id, Hu. reflexivity.
Qed.
Lemma tab_at_upd m t t' : tab_at m t -> tab_at (upd m G_bufs (tab_cells t')) t'.
Proof. intro H. unfold tab_at. apply mem_upd_same. apply nth_error_Some. unfold tab_at in H. congruence. Qed.
Lemma tab_ok_upd t i s' : tab_ok t -> slot_ok s' -> (i < 16)%nat -> tab_ok (upd t i s').
Proof.
  intros [Hl Hs] H' Hi. split; [rewrite upd_length; lia|]. unfold upd. apply Forall_app. split; [apply Forall_firstn'; exact Hs|].
  constructor; [exact H'|apply Forall_skipn'; exact Hs].
Qed.

(* the field setters and what they do to the cells of the slot *)
Definition set_cs_row (s : cslot) (x : Z) := mkcs (cs_ft s) (cs_path s) (cs_lb s) x (cs_off s) (cs_top s) (cs_left s) (cs_id s) (cs_td s) (cs_mtime s).
Definition set_cs_off (s : cslot) (x : Z) := mkcs (cs_ft s) (cs_path s) (cs_lb s) (cs_row s) x (cs_top s) (cs_left s) (cs_id s) (cs_td s) (cs_mtime s).
Definition set_cs_top (s : cslot) (x : Z) := mkcs (cs_ft s) (cs_path s) (cs_lb s) (cs_row s) (cs_off s) x (cs_left s) (cs_id s) (cs_td s) (cs_mtime s).
Definition set_cs_left (s : cslot) (x : Z) := mkcs (cs_ft s) (cs_path s) (cs_lb s) (cs_row s) (cs_off s) (cs_top s) x (cs_id s) (cs_td s) (cs_mtime s).
Definition set_cs_id (s : cslot) (x : Z) := mkcs (cs_ft s) (cs_path s) (cs_lb s) (cs_row s) (cs_off s) (cs_top s) (cs_left s) x (cs_td s) (cs_mtime s).
Definition set_cs_td (s : cslot) (x : Z) := mkcs (cs_ft s) (cs_path s) (cs_lb s) (cs_row s) (cs_off s) (cs_top s) (cs_left s) (cs_id s) x (cs_mtime s).
Definition set_cs_view (s : cslot) (r o tp l td : Z) := mkcs (cs_ft s) (cs_path s) (cs_lb s) r o tp l (cs_id s) td (cs_mtime s).

Lemma slot_upd_tail s k v s' : slot_ok s -> cs_ft s' = cs_ft s -> cs_tail s' = upd (cs_tail s) k v ->
  slot_cells s' = upd (slot_cells s) (32 + k) v.
Proof.
  intros H Hf Ht. unfold slot_cells. rewrite upd_app_r by (rewrite H; lia). rewrite H, Hf, Ht. f_equal. f_equal. lia.
Qed.
(* a store into scalar field k (cell 32 + k) of slot i *)
Lemma tab_store_fld m t i k v z s' : tab_at m t -> tab_ok t -> (i < 16)%nat -> (k < 9)%nat -> z = Z.of_nat (41 * i + (32 + k)) ->
  cs_ft s' = cs_ft (nths t i) -> cs_tail s' = upd (cs_tail (nths t i)) k v ->
  store m G_bufs z v = Ok (upd m G_bufs (tab_cells (upd t i s'))).
Proof.
  intros Hm Ht Hi Hk Hz Hf Htl. pose proof Ht as [Hl Hs].
  apply (tab_store m t i (32 + k) v z); try assumption; try lia.
  apply tab_upd_cell; try assumption; try lia.
  apply slot_upd_tail; try assumption. rewrite Forall_forall in Hs. apply Hs, nth_In. lia.
Qed.

(* ------------------------------------------------------------------ the cursor globals *)
Record globs_at (m : mem) (r o tp l td : Z) : Prop := mk_globs {
  g_row : cell_at m G_xrow r; g_off : cell_at m G_xoff o; g_top : cell_at m G_xtop tp;
  g_left : cell_at m G_xleft l; g_td : cell_at m G_xtd td }.
Lemma globs_upd_bufs m blk r o tp l td : (G_bufs < length m)%nat -> globs_at m r o tp l td -> globs_at (upd m G_bufs blk) r o tp l td.
Proof. intros Hb [H1 H2 H3 H4 H5]. constructor; apply cell_at_upd_other; try assumption; discriminate. Qed.

(* ------------------------------------------------------------------ bufs_save *)
Definition save0 (t : list cslot) (r o tp l td : Z) : list cslot :=
  match t with s :: rest => set_cs_view s r o tp l (wrap I16 td) :: rest | [] => [] end.

Ltac slot0_off k :=
  match goal with |- context [store ?m G_bufs ?z ?v] => replace z with (Z.of_nat (41 * 0 + (32 + k))) by lia end.

(* bufs_save(): the five cursor globals are copied into row, off, top, left, td of slot 0 (td is a short: the value is
   converted); nothing else changes.  For any table and any int values of the globals. *)
Theorem tr_bufs_save m t r o tp l td d fuel : tab_at m t -> tab_ok t -> globs_at m r o tp l td ->
  int_ok r -> int_ok o -> int_ok tp -> int_ok l -> int_ok td ->
  callf cprog fuel (S d) F_bufs_save [] m = Ok (VUndef, upd m G_bufs (tab_cells (save0 t r o tp l td))).
Proof.
  intros Hm Ht Hg Ir Io Itp Il Itd. pose proof Ht as [Hl Hs]. destruct t as [|s rest]; [discriminate Hl|].
  assert (Hb : (G_bufs < length m)%nat) by (apply nth_error_Some; unfold tab_at in Hm; congruence).
  enter F_bufs_save cf_bufs_save. xstep.
  (* row *)
  rewrite (load_cell m G_xrow r (g_row _ _ _ _ _ _ Hg)). xstep. rewrite !(wrap_int_ok r Ir). slot0_off 2%nat.
  rewrite (tab_store_fld m (s :: rest) 0 2 (VInt r) _ (set_cs_row s r) Hm Ht) by (try lia; reflexivity). xstep.
  cbn [upd firstn skipn app]. set (s1 := set_cs_row s r).
  pose proof (tab_at_upd m (s :: rest) (s1 :: rest) Hm) as Hm1.
  assert (Ht1 : tab_ok (s1 :: rest)) by (apply (tab_ok_upd (s :: rest) 0 s1 Ht); [inversion Hs; assumption|lia]).
  pose proof (globs_upd_bufs m (tab_cells (s1 :: rest)) _ _ _ _ _ Hb Hg) as Hg1.
  (* off *)
  rewrite (load_cell _ G_xoff o (g_off _ _ _ _ _ _ Hg1)). xstep. rewrite !(wrap_int_ok o Io). slot0_off 3%nat.
  rewrite (tab_store_fld _ (s1 :: rest) 0 3 (VInt o) _ (set_cs_off s1 o) Hm1 Ht1) by (try lia; reflexivity). xstep.
  rewrite upd_upd by exact Hb. cbn [upd firstn skipn app]. set (s2 := set_cs_off s1 o).
  pose proof (tab_at_upd m (s :: rest) (s2 :: rest) Hm) as Hm2.
  assert (Ht2 : tab_ok (s2 :: rest)) by (apply (tab_ok_upd (s :: rest) 0 s2 Ht); [inversion Hs; assumption|lia]).
  pose proof (globs_upd_bufs m (tab_cells (s2 :: rest)) _ _ _ _ _ Hb Hg) as Hg2.
  (* top *)
  rewrite (load_cell _ G_xtop tp (g_top _ _ _ _ _ _ Hg2)). xstep. rewrite !(wrap_int_ok tp Itp). slot0_off 4%nat.
  rewrite (tab_store_fld _ (s2 :: rest) 0 4 (VInt tp) _ (set_cs_top s2 tp) Hm2 Ht2) by (try lia; reflexivity). xstep.
  rewrite upd_upd by exact Hb. cbn [upd firstn skipn app]. set (s3 := set_cs_top s2 tp).
  pose proof (tab_at_upd m (s :: rest) (s3 :: rest) Hm) as Hm3.
  assert (Ht3 : tab_ok (s3 :: rest)) by (apply (tab_ok_upd (s :: rest) 0 s3 Ht); [inversion Hs; assumption|lia]).
  pose proof (globs_upd_bufs m (tab_cells (s3 :: rest)) _ _ _ _ _ Hb Hg) as Hg3.
  (* left *)
  rewrite (load_cell _ G_xleft l (g_left _ _ _ _ _ _ Hg3)). xstep. rewrite !(wrap_int_ok l Il). slot0_off 5%nat.
  rewrite (tab_store_fld _ (s3 :: rest) 0 5 (VInt l) _ (set_cs_left s3 l) Hm3 Ht3) by (try lia; reflexivity). xstep.
  rewrite upd_upd by exact Hb. cbn [upd firstn skipn app]. set (s4 := set_cs_left s3 l).
  pose proof (tab_at_upd m (s :: rest) (s4 :: rest) Hm) as Hm4.
  assert (Ht4 : tab_ok (s4 :: rest)) by (apply (tab_ok_upd (s :: rest) 0 s4 Ht); [inversion Hs; assumption|lia]).
  pose proof (globs_upd_bufs m (tab_cells (s4 :: rest)) _ _ _ _ _ Hb Hg) as Hg4.
  (* td *)
  rewrite (load_cell _ G_xtd td (g_td _ _ _ _ _ _ Hg4)). xstep. rewrite !(wrap_int_ok td Itd), wrap_I16_idem. slot0_off 7%nat.
  rewrite (tab_store_fld _ (s4 :: rest) 0 7 (VInt (wrap I16 td)) _ (set_cs_td s4 (wrap I16 td)) Hm4 Ht4) by (try lia; reflexivity). xstep.
  rewrite upd_upd by exact Hb. reflexivity.
Qed.

(* ------------------------------------------------------------------ ex_path, ex_filetype: slot 0's path cell, the address of slot 0's ft *)
Theorem tr_ex_path m t d fuel : tab_at m t -> tab_ok t -> ptr_val (cs_path (nths t 0)) ->
  callf cprog fuel (S d) F_ex_path [] m = Ok (cs_path (nths t 0), m).
Proof.
  intros Hm [Hl Hs] Hp. enter F_ex_path cf_ex_path. xstep. slot_off 0%nat 0%nat.
  rewrite (tab_load m t 0 0 (cs_path (nths t 0)) _ Hm Hs) by (try lia; reflexivity). xstep.
  destruct Hp as [E|[b [o E]]]; rewrite E; reflexivity.
Qed.
Theorem tr_ex_filetype m d fuel : callf cprog fuel (S d) F_ex_filetype [] m = Ok (VPtr G_bufs 0, m).
Proof. enter F_ex_filetype cf_ex_filetype. xstep. reflexivity. Qed.

(* ------------------------------------------------------------------ bufs_load (calls the untranslated reg_put: relative to the oracle) *)
Definition set_globs (m : mem) (r o tp l td : Z) : mem :=
  upd (upd (upd (upd (upd m G_xrow [VInt r]) G_xoff [VInt o]) G_xtop [VInt tp]) G_xleft [VInt l]) G_xtd [VInt td].
Definition short_ok (z : Z) : Prop := -32768 <= z <= 32767.
(* the integer fields of a slot are inside their C types *)
Definition slot_ints (s : cslot) : Prop :=
  int_ok (cs_row s) /\ int_ok (cs_off s) /\ int_ok (cs_top s) /\ int_ok (cs_left s) /\ short_ok (cs_id s) /\ short_ok (cs_td s).
Definition path_arg (v : val) : val := if is_null v then VPtr G_lit__0 0 else v.

Lemma tab_at_upd_other m g blk t : g <> G_bufs -> (g < length m)%nat -> tab_at m t -> tab_at (upd m g blk) t.
Proof. intros Hne Hg H. unfold tab_at in *. rewrite mem_upd_other by (try assumption; congruence). exact H. Qed.
Lemma cell_lt m g v : cell_at m g v -> (g < length m)%nat.
Proof. intro H. apply nth_error_Some. unfold cell_at in H. congruence. Qed.
Lemma x_reg_put_none : nth_error cprog X_reg_put = None.
Proof. vm_compute. reflexivity. Qed.
Lemma x_lbuf_free_none : nth_error cprog X_lbuf_free = None.
Proof. vm_compute. reflexivity. Qed.
Ltac enterx f cf :=
  rewrite callx_S; cbn [nth_error cprog f cf fn_nparams fn_nlocals fn_body length Nat.eqb Nat.sub repeat app].

Lemma globs_set m r0 o0 tp0 l0 td0 r o tp l td : globs_at m r0 o0 tp0 l0 td0 -> globs_at (set_globs m r o tp l td) r o tp l td.
Proof.
  intros [H1 H2 H3 H4 H5]. unfold set_globs.
  pose proof (cell_lt _ _ _ H1). pose proof (cell_lt _ _ _ H2). pose proof (cell_lt _ _ _ H3). pose proof (cell_lt _ _ _ H4). pose proof (cell_lt _ _ _ H5).
  constructor; unfold cell_at;
    repeat first [ rewrite mem_upd_same by (rewrite ?upd_length; rewrite ?upd_length; rewrite ?upd_length; rewrite ?upd_length; assumption); reflexivity
                 | rewrite mem_upd_other by (try discriminate; rewrite ?upd_length; rewrite ?upd_length; rewrite ?upd_length; rewrite ?upd_length; assumption) ].
Qed.
Lemma set_globs_other m r o tp l td r0 o0 tp0 l0 td0 b : globs_at m r0 o0 tp0 l0 td0 ->
  b <> G_xrow -> b <> G_xoff -> b <> G_xtop -> b <> G_xleft -> b <> G_xtd ->
  nth_error (set_globs m r o tp l td) b = nth_error m b.
Proof.
  intros [H1 H2 H3 H4 H5] N1 N2 N3 N4 N5. unfold set_globs.
  pose proof (cell_lt _ _ _ H1). pose proof (cell_lt _ _ _ H2). pose proof (cell_lt _ _ _ H3). pose proof (cell_lt _ _ _ H4). pose proof (cell_lt _ _ _ H5).
  repeat (rewrite mem_upd_other by (try assumption; rewrite ?upd_length; rewrite ?upd_length; rewrite ?upd_length; rewrite ?upd_length; assumption)).
  reflexivity.
Qed.

(* bufs_load(): xrow xoff xtop xleft xtd := the fields of slot 0; then reg_put('%', bufs[0].path ? bufs[0].path : "", 0).
   The memory handed to reg_put is explicit; what reg_put does with it is the oracle's answer. *)
Theorem tr_bufs_load ext m t r0 o0 tp0 l0 td0 u m' d fuel : tab_at m t -> tab_ok t -> globs_at m r0 o0 tp0 l0 td0 ->
  slot_ints (nths t 0) -> ptr_val (cs_path (nths t 0)) ->
  let s := nths t 0 in
  ext X_reg_put [VInt 37; path_arg (cs_path s); VInt 0] (set_globs m (cs_row s) (cs_off s) (cs_top s) (cs_left s) (cs_td s)) = Ok (u, m') ->
  callx ext cprog fuel (S (S d)) F_bufs_load [] m = Ok (VUndef, m').
Proof.
  intros Hm Ht Hg Hints Hp s Hext. fold s in Hints, Hp. destruct Hints as (Ir & Io & Itp & Il & Iid & Itd).
  pose proof Ht as [Hl Hs]. pose proof Hg as [G1 G2 G3 G4 G5].
  pose proof (cell_lt _ _ _ G1) as L1. pose proof (cell_lt _ _ _ G2) as L2. pose proof (cell_lt _ _ _ G3) as L3.
  pose proof (cell_lt _ _ _ G4) as L4. pose proof (cell_lt _ _ _ G5) as L5.
  enterx F_bufs_load cf_bufs_load. xstep.
  (* xrow *)
  slot_off 0%nat 2%nat. rewrite (tab_load m t 0 2 (VInt (cs_row s)) _ Hm Hs) by (try lia; reflexivity). xstep.
  rewrite !(wrap_int_ok _ Ir). rewrite (store_cell m G_xrow r0 _ G1). xstep.
  set (m1 := upd m G_xrow [VInt (cs_row s)]).
  assert (Hm1 : tab_at m1 t) by (apply tab_at_upd_other; [discriminate|exact L1|exact Hm]).
  assert (G2' : cell_at m1 G_xoff o0) by (apply cell_at_upd_other; [exact L1|discriminate|exact G2]).
  (* xoff *)
  slot_off 0%nat 3%nat. rewrite (tab_load m1 t 0 3 (VInt (cs_off s)) _ Hm1 Hs) by (try lia; reflexivity). xstep.
  rewrite !(wrap_int_ok _ Io). rewrite (store_cell m1 G_xoff o0 _ G2'). xstep.
  set (m2 := upd m1 G_xoff [VInt (cs_off s)]).
  assert (L1' : (G_xoff < length m1)%nat) by (unfold m1; rewrite upd_length by exact L1; exact L2).
  assert (Hm2 : tab_at m2 t) by (apply tab_at_upd_other; [discriminate|exact L1'|exact Hm1]).
  assert (G3' : cell_at m2 G_xtop tp0) by (apply cell_at_upd_other; [exact L1'|discriminate|apply cell_at_upd_other; [exact L1|discriminate|exact G3]]).
  (* xtop *)
  slot_off 0%nat 4%nat. rewrite (tab_load m2 t 0 4 (VInt (cs_top s)) _ Hm2 Hs) by (try lia; reflexivity). xstep.
  rewrite !(wrap_int_ok _ Itp). rewrite (store_cell m2 G_xtop tp0 _ G3'). xstep.
  set (m3 := upd m2 G_xtop [VInt (cs_top s)]).
  assert (L2' : (G_xtop < length m2)%nat) by (unfold m2; rewrite upd_length by exact L1'; unfold m1; rewrite upd_length by exact L1; exact L3).
  assert (Hm3 : tab_at m3 t) by (apply tab_at_upd_other; [discriminate|exact L2'|exact Hm2]).
  assert (G4' : cell_at m3 G_xleft l0).
  { apply cell_at_upd_other; [exact L2'|discriminate|]. apply cell_at_upd_other; [exact L1'|discriminate|]. apply cell_at_upd_other; [exact L1|discriminate|exact G4]. }
  (* xleft *)
  slot_off 0%nat 5%nat. rewrite (tab_load m3 t 0 5 (VInt (cs_left s)) _ Hm3 Hs) by (try lia; reflexivity). xstep.
  rewrite !(wrap_int_ok _ Il). rewrite (store_cell m3 G_xleft l0 _ G4'). xstep.
  set (m4 := upd m3 G_xleft [VInt (cs_left s)]).
  assert (L3' : (G_xleft < length m3)%nat).
  { unfold m3; rewrite upd_length by exact L2'; unfold m2; rewrite upd_length by exact L1'; unfold m1; rewrite upd_length by exact L1; exact L4. }
  assert (Hm4 : tab_at m4 t) by (apply tab_at_upd_other; [discriminate|exact L3'|exact Hm3]).
  assert (G5' : cell_at m4 G_xtd td0).
  { apply cell_at_upd_other; [exact L3'|discriminate|]. apply cell_at_upd_other; [exact L2'|discriminate|].
    apply cell_at_upd_other; [exact L1'|discriminate|]. apply cell_at_upd_other; [exact L1|discriminate|exact G5]. }
  (* xtd *)
  slot_off 0%nat 7%nat. rewrite (tab_load m4 t 0 7 (VInt (cs_td s)) _ Hm4 Hs) by (try lia; reflexivity). xstep.
  rewrite (wrap_I16_id _ Itd). rewrite !(wrap_int_ok (cs_td s)) by (unfold int_ok, short_ok in *; lia).
  rewrite (store_cell m4 G_xtd td0 _ G5'). xstep.
  set (m5 := upd m4 G_xtd [VInt (cs_td s)]).
  assert (L4' : (G_xtd < length m4)%nat).
  { unfold m4; rewrite upd_length by exact L3'; unfold m3; rewrite upd_length by exact L2'; unfold m2; rewrite upd_length by exact L1';
    unfold m1; rewrite upd_length by exact L1; exact L5. }
  assert (Hm5 : tab_at m5 t) by (apply tab_at_upd_other; [discriminate|exact L4'|exact Hm4]).
  (* reg_put *)
  slot_off 0%nat 0%nat. rewrite (tab_load m5 t 0 0 (cs_path s) _ Hm5 Hs) by (try lia; reflexivity).
  change m5 with (set_globs m (cs_row s) (cs_off s) (cs_top s) (cs_left s) (cs_td s)) in *.
  destruct Hp as [E|[b [o E]]]; rewrite E in *; xstep.
  - rewrite callx_S, x_reg_put_none. cbn [path_arg is_null] in Hext. rewrite Hext. reflexivity.
  - slot_off 0%nat 0%nat. rewrite (tab_load _ t 0 0 (cs_path s) _ Hm5 Hs) by (try lia; reflexivity). rewrite E. xstep.
    rewrite callx_S, x_reg_put_none. cbn [path_arg is_null] in Hext. rewrite Hext. reflexivity.
Qed.

(* ------------------------------------------------------------------ whole slots: memcpy / memmove of struct buf objects *)
Lemma tab_slice t i : Forall slot_ok t -> (i < length t)%nat -> firstn 41 (skipn (41 * i) (tab_cells t)) = slot_cells (nths t i).
Proof.
  intros Hs Hi. unfold tab_cells. rewrite (chunks_skipn slot_cells 41 t (tab_chunks t Hs)). rewrite (nths_skipn t i Hi).
  cbn [flat_map]. assert (H : slot_ok (nths t i)) by (rewrite Forall_forall in Hs; apply Hs, nth_In; exact Hi).
  rewrite firstn_app, (slot_len _ H), Nat.sub_diag, firstn_O, app_nil_r. apply firstn_all2. rewrite (slot_len _ H). lia.
Qed.
Lemma switch_nth0 (t : list cslot) i : (i < length t)%nat -> nths (switch t i) 0 = nths t i.
Proof. intro H. unfold switch, nths. rewrite (nth_error_nth' t cs_zero H). reflexivity. Qed.
Lemma switch_eq (t : list cslot) i : (i < length t)%nat -> switch t i = nths t i :: firstn i t ++ skipn (S i) t.
Proof. intro H. unfold switch, nths. rewrite (nth_error_nth' t cs_zero H). reflexivity. Qed.
Lemma tab_ok_switch t i : tab_ok t -> (i < 16)%nat -> tab_ok (switch t i).
Proof.
  intros [Hl Hs] Hi. rewrite switch_eq by lia. split.
  - cbn [length]. rewrite app_length, firstn_length, skipn_length. lia.
  - constructor; [rewrite Forall_forall in Hs; apply Hs, nth_In; lia|]. apply Forall_app. split; [apply Forall_firstn'|apply Forall_skipn']; exact Hs.
Qed.
Lemma tab_ok_save0 t r o tp l td : tab_ok t -> tab_ok (save0 t r o tp l td).
Proof. intros [Hl Hs]. destruct t as [|s rest]; [discriminate|]. split; [exact Hl|]. inversion Hs; subst. constructor; assumption. Qed.
Lemma save0_lb t r o tp l td : cs_lb (nths (save0 t r o tp l td) 0) = cs_lb (nths t 0).
Proof. destruct t; reflexivity. Qed.

Lemma put_whole {A} (l vs : list A) : length vs = length l -> put_cells l 0 vs = vs.
Proof. intro H. rewrite put_cells_0, skipn_all2 by lia. apply app_nil_r. Qed.
(* memmove(&bufs[1], &bufs[0], idx slots); memcpy(&bufs[0], the old slot idx): the rotation BufsDefs.switch *)
Lemma switch_cells t i : tab_ok t -> (i < 16)%nat ->
  put_cells (put_cells (tab_cells t) 41 (firstn (41 * i) (tab_cells t))) 0 (slot_cells (nths t i)) = tab_cells (switch t i).
Proof.
  intros [Hl Hs] Hi. pose proof (tab_chunks t Hs) as Hc. unfold tab_cells.
  rewrite (chunks_firstn slot_cells 41 t Hc).
  assert (Hc1 : chunks_ok slot_cells 41 (firstn i t)) by (apply tab_chunks, Forall_firstn'; exact Hs).
  change 41%nat with (41 * 1)%nat at 1. rewrite (chunks_put slot_cells 41 t (firstn i t) 1 Hc Hc1) by (rewrite firstn_length; lia).
  rewrite firstn_length, Nat.min_l by lia.
  set (mid := firstn 1 t ++ firstn i t ++ skipn (1 + i) t).
  assert (Hsi : slot_ok (nths t i)) by (rewrite Forall_forall in Hs; apply Hs, nth_In; lia).
  assert (Hcm : chunks_ok slot_cells 41 mid).
  { apply tab_chunks. unfold mid. repeat (apply Forall_app; split); try apply Forall_firstn'; try apply Forall_skipn'; exact Hs. }
  assert (Hc2 : chunks_ok slot_cells 41 [nths t i]) by (apply tab_chunks; constructor; [exact Hsi|constructor]).
  replace (slot_cells (nths t i)) with (flat_map slot_cells [nths t i]) by (cbn [flat_map]; apply app_nil_r).
  change 0%nat with (41 * 0)%nat. rewrite (chunks_put slot_cells 41 mid [nths t i] 0 Hcm Hc2).
  2:{ unfold mid. rewrite !app_length, !firstn_length, skipn_length. cbn [length]. lia. }
  f_equal. rewrite switch_eq by lia. cbn [firstn app length Nat.add]. f_equal.
  unfold mid. destruct t as [|x rest]; [discriminate Hl|]. reflexivity.
Qed.

(* ------------------------------------------------------------------ bufs_switch *)
Definition same_on (bs : list nat) (m1 m2 : mem) : Prop := forall b, In b bs -> nth_error m2 b = nth_error m1 b.
(* if (bufs[0].lb) lbuf_modified(bufs[0].lb): nothing for NULL, else the translated lbuf_modified runs on that pointer and leaves m2 *)
Definition bump_call ext fuel d (v : val) (m1 m2 : mem) : Prop :=
  if is_null v then m2 = m1 else exists u, callx ext cprog fuel (S (S d)) F_lbuf_modified [v] m1 = Ok (u, m2).

Theorem tr_bufs_switch ext m t r o tp l td i m2 u m' d fuel :
  tab_at m t -> tab_ok t -> globs_at m r o tp l td -> int_ok r -> int_ok o -> int_ok tp -> int_ok l -> int_ok td ->
  (i < 16)%nat -> ptr_val (cs_lb (nths t 0)) ->
  let t1 := save0 t r o tp l td in
  let m1 := upd (m ++ [repeat VUndef 41]) G_bufs (tab_cells t1) in
  bump_call ext fuel d (cs_lb (nths t 0)) m1 m2 -> length m2 = length m1 ->
  same_on [G_bufs; length m; G_xrow; G_xoff; G_xtop; G_xleft; G_xtd] m1 m2 ->
  let sx := nths t1 i in
  slot_ints sx -> ptr_val (cs_path sx) ->
  let m4 := upd (upd m2 (length m) (slot_cells sx)) G_bufs (tab_cells (switch t1 i)) in
  ext X_reg_put [VInt 37; path_arg (cs_path sx); VInt 0] (set_globs m4 (cs_row sx) (cs_off sx) (cs_top sx) (cs_left sx) (cs_td sx)) = Ok (u, m') ->
  callx ext cprog fuel (S (S (S d))) F_bufs_switch [VInt (Z.of_nat i)] m = Ok (VUndef, m').
Proof.
  intros Hm Ht Hg Ir Io Itp Il Itd Hi Hlb t1 m1 Hbump Hlen Hsame sx Hints Hpx m4 Hext.
  pose proof Ht as [Hl Hs]. pose proof Hg as [G1 G2 G3 G4 G5].
  assert (Hb : (G_bufs < length m)%nat) by (apply nth_error_Some; unfold tab_at in Hm; congruence).
  set (m0 := m ++ [repeat VUndef 41]).
  assert (Hm0 : tab_at m0 t) by (unfold tab_at, m0; rewrite nth_error_app_old by exact Hb; exact Hm).
  assert (Hg0 : globs_at m0 r o tp l td).
  { constructor; unfold cell_at, m0; rewrite nth_error_app_old; try assumption; eapply cell_lt; eassumption. }
  assert (Ht1 : tab_ok t1) by (apply tab_ok_save0; exact Ht).
  enterx F_bufs_switch cf_bufs_switch. xstep. rewrite (malloc_ok m 41) by lia. xstep. change (Z.to_nat 41) with 41%nat. fold m0.
  rewrite (callx_mono ext cprog fuel (S (S d)) F_bufs_save [] m0 _ (tr_bufs_save m0 t r o tp l td (S d) fuel Hm0 Ht Hg0 Ir Io Itp Il Itd)).
  xcbn. fold t1. change (upd m0 G_bufs (tab_cells t1)) with m1. rewrite exec_seq.
  assert (Hl0 : length m0 = S (length m)) by (unfold m0; rewrite app_length; cbn [length]; lia).
  assert (Hl1 : length m1 = S (length m)) by (unfold m1; fold m0; rewrite upd_length by lia; exact Hl0).
  assert (Hm1 : tab_at m1 t1) by (apply (tab_at_upd m0 t t1 Hm0)).
  assert (Hm2 : tab_at m2 t1) by (unfold tab_at; rewrite (Hsame G_bufs) by (left; reflexivity); exact Hm1).
  assert (Htmp2 : nth_error m2 (length m) = Some (repeat VUndef 41)).
  { rewrite (Hsame (length m)) by (right; left; reflexivity). unfold m1. fold m0. rewrite mem_upd_other by lia. apply nth_error_app_new. }
  pose proof Ht1 as [Hl1' Hs1].
  (* if (bufs[0].lb) lbuf_modified(bufs[0].lb) *)
  match goal with |- context [exec ?c ?f (SIf ?e ?a ?b) ?st] =>
    assert (Hif : exec c f (SIf e a b) st = ONormal (mkst [VInt (Z.of_nat i); VPtr (length m) 0] m2)) end.
  { xstep. slot_off 0%nat 1%nat. rewrite (tab_load m1 t1 0 1 (cs_lb (nths t1 0)) _ Hm1 Hs1) by (try lia; reflexivity).
    unfold t1. rewrite save0_lb. fold t1. unfold bump_call in Hbump.
    destruct Hlb as [E|[b [ob E]]]; rewrite E in *; cbn [is_null] in Hbump; xstep.
    - rewrite Hbump. reflexivity.
    - slot_off 0%nat 1%nat. rewrite (tab_load m1 t1 0 1 (cs_lb (nths t1 0)) _ Hm1 Hs1) by (try lia; reflexivity).
      unfold t1. rewrite save0_lb, E. fold t1. xstep. destruct Hbump as [u0 Hbump]. rewrite Hbump. reflexivity. }
  rewrite Hif. clear Hif. xstep.
  (* memcpy(&tmp, &bufs[idx], sizeof(tmp)) *)
  change (chk U64 (80 * 41)) with (@Ok Z 3280). xstep.
  change (if 80 =? 0 then Err EDivZero else chk U64 (3280 ÷ 80)) with (@Ok Z 41). xstep.
  rewrite (memcpy_ok m2 (length m) 0 G_bufs (0 + 41 * Z.of_nat i) 41 _ _ Htmp2 Hm2) by (rewrite ?repeat_length, ?(tab_len t1 Ht1); lia).
  xstep. change (Z.to_nat 41) with 41%nat. change (Z.to_nat 0) with 0%nat. replace (Z.to_nat (0 + 41 * Z.of_nat i)) with (41 * i)%nat by lia.
  rewrite (tab_slice t1 i Hs1) by lia. fold sx.
  assert (Hsx : slot_ok sx) by (unfold sx; rewrite Forall_forall in Hs1; apply Hs1, nth_In; lia).
  rewrite put_whole by (rewrite repeat_length; apply slot_len; exact Hsx).
  set (m3 := upd m2 (length m) (slot_cells sx)).
  assert (Hl2 : (length m < length m2)%nat) by lia.
  assert (Hm3 : tab_at m3 t1) by (apply tab_at_upd_other; [lia|exact Hl2|exact Hm2]).
  assert (Htmp3 : nth_error m3 (length m) = Some (slot_cells sx)) by (apply mem_upd_same; exact Hl2).
  (* memmove(&bufs[1], &bufs[0], sizeof(tmp) * idx) *)
  rewrite (wrap_U64_id (Z.of_nat i)) by lia. rewrite (chk_U64 (80 * Z.of_nat i)) by lia. xstep.
  rewrite (chk_U64 (80 * Z.of_nat i * 41)) by lia. xstep. change (80 =? 0) with false. cbv iota.
  replace (80 * Z.of_nat i * 41 ÷ 80) with (41 * Z.of_nat i) by (replace (80 * Z.of_nat i * 41) with (41 * Z.of_nat i * 80) by lia; rewrite Z.quot_mul by lia; reflexivity).
  rewrite (chk_U64 (41 * Z.of_nat i)) by lia. xstep.
  rewrite (memmove_ok m3 G_bufs (0 + 41 * 1) G_bufs (0 + 41 * 0) (41 * Z.of_nat i) _ _ Hm3 Hm3) by (rewrite ?(tab_len t1 Ht1); lia).
  xstep. change (Z.to_nat (0 + 41 * 1)) with 41%nat. change (Z.to_nat (0 + 41 * 0)) with 0%nat. replace (Z.to_nat (41 * Z.of_nat i)) with (41 * i)%nat by lia.
  cbn [skipn].
  (* memcpy(&bufs[0], &tmp, sizeof(tmp)) *)
  change (chk U64 (80 * 41)) with (@Ok Z 3280). xstep.
  change (if 80 =? 0 then Err EDivZero else chk U64 (3280 ÷ 80)) with (@Ok Z 41). xstep.
  set (Tmid := put_cells (tab_cells t1) 41 (firstn (41 * i) (tab_cells t1))).
  assert (Hb3 : (G_bufs < length m3)%nat) by (unfold m3; rewrite upd_length by exact Hl2; lia).
  assert (HTmid : length Tmid = 656%nat).
  { unfold Tmid. rewrite put_cells_length; rewrite ?firstn_length, ?(tab_len t1 Ht1); lia. }
  rewrite (memcpy_ok (upd m3 G_bufs Tmid) G_bufs (0 + 41 * 0) (length m) 0 41 Tmid (slot_cells sx)).
  2:{ apply mem_upd_same. exact Hb3. }
  2:{ rewrite mem_upd_other by (try exact Hb3; lia). exact Htmp3. }
  2-6: rewrite ?HTmid, ?(slot_len sx Hsx); lia.
  xstep. change (Z.to_nat (0 + 41 * 0)) with 0%nat. change (Z.to_nat 0) with 0%nat. change (Z.to_nat 41) with 41%nat. cbn [skipn].
  rewrite (firstn_all2 (slot_cells sx)) by (rewrite (slot_len sx Hsx); lia).
  rewrite upd_upd by exact Hb3. unfold Tmid. unfold sx at 1. rewrite (switch_cells t1 i Ht1 Hi). fold sx.
  change (upd m3 G_bufs (tab_cells (switch t1 i))) with m4.
  (* bufs_load() *)
  assert (Hm4 : tab_at m4 (switch t1 i)) by (unfold m4, tab_at; apply mem_upd_same; exact Hb3).
  assert (Hg4 : globs_at m4 r o tp l td).
  { assert (Hx : forall g v, In g [G_xrow; G_xoff; G_xtop; G_xleft; G_xtd] -> cell_at m g v -> cell_at m4 g v).
    { intros g v Hin Hc. pose proof (cell_lt _ _ _ Hc) as Lg. unfold cell_at, m4.
      rewrite mem_upd_other by (try exact Hb3; destruct Hin as [<-|[<-|[<-|[<-|[<-|[]]]]]]; discriminate).
      unfold m3. rewrite mem_upd_other by (try exact Hl2; lia).
      rewrite (Hsame g) by (right; right; exact Hin). unfold m1. fold m0.
      rewrite mem_upd_other by (try lia; destruct Hin as [<-|[<-|[<-|[<-|[<-|[]]]]]]; discriminate).
      unfold m0. rewrite nth_error_app_old by exact Lg. exact Hc. }
    constructor; apply Hx; try assumption; cbn; tauto. }
  pose proof (tab_ok_switch t1 i Ht1 Hi) as Ht4.
  assert (Hs0 : nths (switch t1 i) 0 = sx) by (apply switch_nth0; lia).
  rewrite (tr_bufs_load ext m4 (switch t1 i) r o tp l td u m' d fuel Hm4 Ht4 Hg4); rewrite ?Hs0; try assumption.
  reflexivity.
Qed.

(* ------------------------------------------------------------------ bufs_number *)
Fixpoint c_renum (l : list cslot) (n : Z) : list cslot * Z :=
  match l with
  | [] => ([], n)
  | s :: r => if is_null (cs_lb s) then (let (r', n') := c_renum r n in (s :: r', n'))
              else (let (r', n') := c_renum r (n + 1) in (set_cs_id s (n + 1) :: r', n'))
  end.
Definition num_loop : stmt := match fn_body cf_bufs_number with SSeq _ (SSeq (SSeq _ w) _) => w | _ => SSkip end.

Lemma c_renum_bound l : forall n, n <= snd (c_renum l n) <= n + Z.of_nat (length l).
Proof.
  induction l as [|s r IH]; intro n; cbn [c_renum length]; [cbn; lia|].
  destruct (is_null (cs_lb s)).
  - specialize (IH n). destruct (c_renum r n). cbn [snd] in *. lia.
  - specialize (IH (n + 1)). destruct (c_renum r (n + 1)). cbn [snd] in *. lia.
Qed.
Lemma lbs_ok_upd t i s' : lbs_ok t -> ptr_val (cs_lb s') -> lbs_ok (upd t i s').
Proof.
  intros H H'. unfold lbs_ok, upd in *. apply Forall_app. split; [apply Forall_firstn'; exact H|].
  constructor; [exact H'|apply Forall_skipn'; exact H].
Qed.
Lemma upd_split {A} (l : list A) i x : (i < length l)%nat -> firstn i (upd l i x) = firstn i l /\ skipn (S i) (upd l i x) = skipn (S i) l /\ nth_error (upd l i x) i = Some x.
Proof.
  intro H. unfold upd. split; [|split].
  - rewrite firstn_app, firstn_firstn, Nat.min_id, firstn_length, Nat.min_l, Nat.sub_diag by lia. cbn [firstn]. apply app_nil_r.
  - rewrite skipn_app, firstn_length, Nat.min_l by lia. rewrite skipn_all2 by (rewrite firstn_length; lia).
    replace (S i - i)%nat with 1%nat by lia. reflexivity.
  - rewrite nth_error_app2 by (rewrite firstn_length; lia). rewrite firstn_length, Nat.min_l, Nat.sub_diag by lia. reflexivity.
Qed.

Lemma firstn_S_nth {A} (l : list A) i d : (i < length l)%nat -> firstn (S i) l = firstn i l ++ [nth i l d].
Proof.
  revert l; induction i as [|i IH]; intros [|x l] H; cbn [length] in H; try lia; [reflexivity|].
  cbn [firstn nth app]. f_equal. apply IH. lia.
Qed.

Lemma num_loop_ok call : forall k i fuel m t n, tab_at m t -> tab_ok t -> lbs_ok t -> (i + k = 16)%nat -> (k < fuel)%nat -> 0 <= n <= Z.of_nat i ->
  exec call fuel num_loop (mkst [VInt n; VInt (Z.of_nat i)] m) =
  ONormal (mkst [VInt (snd (c_renum (skipn i t) n)); VInt 16] (upd m G_bufs (tab_cells (firstn i t ++ fst (c_renum (skipn i t) n))))).
Proof.
  induction k as [|k IH]; intros i fuel m t n Hm Ht Hlb Hik Hf Hn; pose proof Ht as [Hl Hs]; (destruct fuel as [|fuel]; [lia|]);
    unfold num_loop; cbn [fn_body cf_bufs_number]; rewrite exec_for; xstep; len16; xstep;
    rewrite (wrap_U64_id (Z.of_nat i)) by lia; change (wrap U64 16) with 16.
  - assert (i = 16%nat) by lia. subst i. change (Z.of_nat 16 <? 16) with false. xstep.
    rewrite skipn_all2 by lia. cbn [c_renum fst snd]. rewrite firstn_all2, app_nil_r by lia.
    unfold tab_at in Hm. rewrite (upd_self m G_bufs _ Hm). reflexivity.
  - destruct (Z.ltb_spec (Z.of_nat i) 16); [|lia]. xstep.
    rewrite (nths_skipn t i) by lia. cbn [c_renum].
    slot_off i 1%nat.
    assert (Hb : (G_bufs < length m)%nat) by (apply nth_error_Some; unfold tab_at in Hm; congruence).
    destruct (lbs_nth t i Hlb ltac:(lia)) as [E|[b [o E]]].
    + rewrite (tab_load m t i 1 (VInt 0) _ Hm Hs) by (try lia; cbn [cs_tail nth_error]; congruence). xstep. cbn [ptr_cmp]. xstep.
      rewrite E. cbn [is_null]. rewrite chk_I32 by lia. xstep. replace (Z.of_nat i + 1) with (Z.of_nat (S i)) by lia.
      specialize (IH (S i) fuel m t n Hm Ht Hlb ltac:(lia) ltac:(lia) ltac:(lia)).
      unfold num_loop in IH; cbn [fn_body cf_bufs_number] in IH. rewrite IH.
      destruct (c_renum (skipn (S i) t) n) as [r' n'] eqn:Er. cbn [fst snd].
      rewrite (firstn_S_nth t i cs_zero) by lia. rewrite <- app_assoc. reflexivity.
    + rewrite (tab_load m t i 1 (VPtr b o) _ Hm Hs) by (try lia; cbn [cs_tail nth_error]; congruence). xstep. cbn [ptr_cmp]. xstep.
      rewrite E. cbn [is_null]. rewrite chk_I32 by lia. xstep.
      rewrite (wrap_I16_id (n + 1)) by lia. rewrite (wrap_I16_id (n + 1)) by lia.
      match goal with |- context [store m G_bufs ?z ?v] => replace z with (Z.of_nat (41 * i + (32 + 6))) by lia end.
      rewrite (tab_store_fld m t i 6 (VInt (n + 1)) _ (set_cs_id (nths t i) (n + 1)) Hm Ht) by (try lia; reflexivity). xstep.
      rewrite chk_I32 by lia. xstep. replace (Z.of_nat i + 1) with (Z.of_nat (S i)) by lia.
      set (t' := upd t i (set_cs_id (nths t i) (n + 1))).
      assert (Hsi : slot_ok (nths t i)) by (rewrite Forall_forall in Hs; apply Hs, nth_In; lia).
      assert (Ht' : tab_ok t') by (apply tab_ok_upd; [exact Ht|exact Hsi|lia]).
      assert (Hlb' : lbs_ok t') by (apply lbs_ok_upd; [exact Hlb|cbn [set_cs_id cs_lb]; rewrite E; right; eauto]).
      specialize (IH (S i) fuel (upd m G_bufs (tab_cells t')) t' (n + 1) (tab_at_upd m t t' Hm) Ht' Hlb' ltac:(lia) ltac:(lia) ltac:(lia)).
      unfold num_loop in IH; cbn [fn_body cf_bufs_number] in IH. rewrite IH. rewrite upd_upd by exact Hb.
      destruct (upd_split t i (set_cs_id (nths t i) (n + 1)) ltac:(lia)) as (F1 & F2 & F3). fold t' in F1, F2, F3.
      rewrite F2. destruct (c_renum (skipn (S i) t) (n + 1)) as [r' n'] eqn:Er. cbn [fst snd].
      assert (Hl' : length t' = 16%nat) by (destruct Ht'; assumption).
      rewrite (firstn_S_nth t' i cs_zero) by lia. rewrite F1, (nth_error_nth t' i cs_zero F3), <- app_assoc. reflexivity.
Qed.

(* bufs_number(): the occupied slots (lb != NULL) get the ids 1, 2, ... in slot order, bufs_cnt their number; every other cell of
   the table is kept.  For any table. *)
Theorem tr_bufs_number m t c0 d fuel : tab_at m t -> tab_ok t -> lbs_ok t -> cell_at m G_bufs_cnt c0 -> (16 < fuel)%nat ->
  callf cprog fuel (S d) F_bufs_number [] m
  = Ok (VUndef, upd (upd m G_bufs (tab_cells (fst (c_renum t 0)))) G_bufs_cnt [VInt (snd (c_renum t 0))]).
Proof.
  intros Hm Ht Hlb Hc Hf. enter F_bufs_number cf_bufs_number. rewrite exec_seq, exec_expr. xcbn. rewrite exec_seq, exec_seq, exec_expr. xcbn.
  pose proof (num_loop_ok (callf cprog fuel d) 16 0 fuel m t 0 Hm Ht Hlb ltac:(lia) Hf ltac:(lia)) as Hloop.
  unfold num_loop in Hloop; cbn [fn_body cf_bufs_number] in Hloop. change (Z.of_nat 0) with 0 in Hloop. rewrite Hloop. cbn [skipn firstn app].
  xstep. pose proof (c_renum_bound t 0) as Hbd. destruct Ht as [Hl Hs]. rewrite Hl in Hbd.
  rewrite wrap_I32_id by lia.
  assert (Hb : (G_bufs < length m)%nat) by (apply nth_error_Some; unfold tab_at in Hm; congruence).
  rewrite (store_cell _ G_bufs_cnt c0); [reflexivity|]. apply cell_at_upd_other; [exact Hb|discriminate|exact Hc].
Qed.

(* ------------------------------------------------------------------ bufs_free (free(path); lbuf_free(lb) -- untranslated; memset of the slot) *)
Lemma free_other v m u m1 g : do_builtin_m BFree [v] m = Ok (u, m1) -> v <> VPtr g 0 -> nth_error m1 g = nth_error m g.
Proof.
  intros H Hne. destruct v as [|z|b o]; cbn [do_builtin_m] in H; [discriminate| |].
  - destruct z; try discriminate. injection H as _ <-. reflexivity.
  - destruct o; try discriminate. destruct (nth_error m b) as [[|c blk]|] eqn:E; try discriminate.
    destruct (CLite.set_nth m b []) as [m'|] eqn:E2; [|discriminate]. injection H as _ <-.
    assert (Hb : (b < length m)%nat) by (apply nth_error_Some; congruence).
    rewrite set_nth_upd in E2 by exact Hb. injection E2 as <-. apply nth_error_upd_other; [exact Hb|]. intro Eq. subst g. apply Hne. reflexivity.
Qed.
Lemma slot_zero_cells : slot_cells cs_zero = repeat (VInt 0) 41.
Proof. reflexivity. Qed.
Lemma zero_slot_ok : slot_ok cs_zero.
Proof. reflexivity. Qed.
(* memset(&bufs[i], 0, sizeof(bufs[i])) on the cells *)
Lemma zero_cells t i : tab_ok t -> (i < 16)%nat -> put_cells (tab_cells t) (41 * i) (repeat (VInt 0) 41) = tab_cells (upd t i cs_zero).
Proof.
  intros [Hl Hs] Hi. rewrite <- slot_zero_cells. replace (slot_cells cs_zero) with (flat_map slot_cells [cs_zero]) by (cbn [flat_map]; apply app_nil_r).
  unfold tab_cells. rewrite (chunks_put slot_cells 41 t [cs_zero] i (tab_chunks t Hs)); [unfold upd; cbn [length app]; replace (i + 1)%nat with (S i) by lia; reflexivity| |cbn [length]; lia].
  apply tab_chunks. constructor; [exact zero_slot_ok|constructor].
Qed.

(* what bufs_free(i) does to the memory: nothing when lb is NULL; else free(path) must be legal (heap hypothesis) and not hit
   the table, the oracle for lbuf_free answers mb and keeps the table block, and the slot is zeroed *)
Definition freed (ext : nat -> list val -> mem -> res (val * mem)) (t : list cslot) (i : nat) (m mc : mem) : Prop :=
  if is_null (cs_lb (nths t i)) then mc = m
  else exists uf ma ul mb, do_builtin_m BFree [cs_path (nths t i)] m = Ok (uf, ma) /\ cs_path (nths t i) <> VPtr G_bufs 0 /\
         ext X_lbuf_free [cs_lb (nths t i)] ma = Ok (ul, mb) /\ nth_error mb G_bufs = nth_error ma G_bufs /\
         mc = upd mb G_bufs (tab_cells (upd t i cs_zero)).

Theorem tr_bufs_free ext m t i mc d fuel : tab_at m t -> tab_ok t -> (i < 16)%nat ->
  ptr_val (cs_lb (nths t i)) -> ptr_val (cs_path (nths t i)) -> freed ext t i m mc ->
  callx ext cprog fuel (S (S d)) F_bufs_free [VInt (Z.of_nat i)] m = Ok (VUndef, mc).
Proof.
  intros Hm Ht Hi Hlb Hp Hfr. pose proof Ht as [Hl Hs]. unfold freed in Hfr.
  enterx F_bufs_free cf_bufs_free. xstep. slot_off i 1%nat.
  rewrite (tab_load m t i 1 (cs_lb (nths t i)) _ Hm Hs) by (try lia; reflexivity).
  destruct Hlb as [E|[bl [ol E]]]; rewrite E in *; cbn [is_null] in Hfr; xstep; [rewrite Hfr; reflexivity|].
  destruct Hfr as (uf & ma & ul & mb & Hf1 & Hne & Hf2 & Hfr2 & ->).
  slot_off i 0%nat. rewrite (tab_load m t i 0 (cs_path (nths t i)) _ Hm Hs) by (try lia; reflexivity).
  assert (Hma : tab_at ma t) by (unfold tab_at; rewrite (free_other _ _ _ _ G_bufs Hf1 Hne); exact Hm).
  assert (Hmb : tab_at mb t) by (unfold tab_at; rewrite Hfr2; exact Hma).
  destruct Hp as [Ep|[pb [op Ep]]]; rewrite Ep in *; xstep; rewrite Hf1; xstep;
    (slot_off i 1%nat; rewrite (tab_load ma t i 1 (cs_lb (nths t i)) _ Hma Hs) by (try lia; reflexivity); rewrite E; xstep;
     rewrite callx_S, x_lbuf_free_none, Hf2; xstep;
     change (chk U64 (80 * 41)) with (@Ok Z 3280); xstep;
     change (if 80 =? 0 then Err EDivZero else chk U64 (3280 ÷ 80)) with (@Ok Z 41); xstep;
     rewrite (memset_ok mb G_bufs (0 + 41 * Z.of_nat i) 0 41 _ Hmb) by (rewrite ?(tab_len t Ht); lia);
     xstep; change (Z.to_nat 41) with 41%nat; change (wrap U8 0) with 0; replace (Z.to_nat (0 + 41 * Z.of_nat i)) with (41 * i)%nat by lia;
     rewrite (zero_cells t i Ht Hi); reflexivity).
Qed.

(* ------------------------------------------------------------------ bufs_shift *)
Lemma shift_cells t : tab_ok t ->
  put_cells (put_cells (tab_cells t) (41 * 0) (firstn (41 * 15) (skipn (41 * 1) (tab_cells t)))) (41 * 15) (repeat (VInt 0) 41) = tab_cells (tl t ++ [cs_zero]).
Proof.
  intros [Hl Hs]. pose proof (tab_chunks t Hs) as Hc. unfold tab_cells.
  rewrite (chunks_skipn slot_cells 41 t Hc).
  assert (Hc1 : chunks_ok slot_cells 41 (skipn 1 t)) by (apply tab_chunks, Forall_skipn'; exact Hs).
  rewrite (chunks_firstn slot_cells 41 (skipn 1 t) Hc1).
  rewrite (firstn_all2 (skipn 1 t)) by (rewrite skipn_length; lia).
  rewrite (chunks_put slot_cells 41 t (skipn 1 t) 0 Hc Hc1) by (rewrite skipn_length; lia).
  rewrite skipn_length, Hl. cbn [firstn app Nat.add Nat.sub].
  set (mid := skipn 1 t ++ skipn 15 t).
  assert (Hcm : chunks_ok slot_cells 41 mid) by (apply tab_chunks; unfold mid; apply Forall_app; split; apply Forall_skipn'; exact Hs).
  rewrite <- slot_zero_cells. replace (slot_cells cs_zero) with (flat_map slot_cells [cs_zero]) by (cbn [flat_map]; apply app_nil_r).
  rewrite (chunks_put slot_cells 41 mid [cs_zero] 15 Hcm).
  2:{ apply tab_chunks. constructor; [exact zero_slot_ok|constructor]. }
  2:{ unfold mid. rewrite app_length, !skipn_length. cbn [length]. lia. }
  f_equal. unfold mid. destruct t as [|x rest]; [discriminate Hl|]. cbn [tl]. cbn [length] in Hl.
  change (skipn 1 (x :: rest)) with rest.
  rewrite firstn_app. rewrite (firstn_all2 rest) by lia. replace (15 - length rest)%nat with 0%nat by lia. rewrite firstn_O, app_nil_r.
  cbn [length]. rewrite (skipn_all2 (rest ++ skipn 15 (x :: rest))) by (rewrite app_length, skipn_length; cbn [length]; lia). rewrite app_nil_r. reflexivity.
Qed.

(* bufs_shift(): bufs_free(0) (its effect: mc with table t', see tr_bufs_free), the slots 1..15 move down by one, slot 15 is
   zeroed, bufs_load().  Relative to what bufs_free left and to the reg_put oracle. *)
Theorem tr_bufs_shift ext m mc t' r0 o0 tp0 l0 td0 uf u m' d fuel :
  callx ext cprog fuel (S (S d)) F_bufs_free [VInt 0] m = Ok (uf, mc) ->
  tab_at mc t' -> tab_ok t' -> globs_at mc r0 o0 tp0 l0 td0 ->
  let t2 := tl t' ++ [cs_zero] in
  let sx := nths t2 0 in
  slot_ints sx -> ptr_val (cs_path sx) ->
  ext X_reg_put [VInt 37; path_arg (cs_path sx); VInt 0]
      (set_globs (upd mc G_bufs (tab_cells t2)) (cs_row sx) (cs_off sx) (cs_top sx) (cs_left sx) (cs_td sx)) = Ok (u, m') ->
  callx ext cprog fuel (S (S (S d))) F_bufs_shift [] m = Ok (VUndef, m').
Proof.
  intros Hfree Hm Ht Hg t2 sx Hints Hp Hext. pose proof Ht as [Hl Hs].
  assert (Hb : (G_bufs < length mc)%nat) by (apply nth_error_Some; unfold tab_at in Hm; congruence).
  enterx F_bufs_shift cf_bufs_shift. xstep. rewrite Hfree. xstep.
  change (chk U64 (1280 - 80)) with (@Ok Z 1200). xstep. change (chk U64 (1200 * 41)) with (@Ok Z 49200). xstep.
  change (if 80 =? 0 then Err EDivZero else chk U64 (49200 ÷ 80)) with (@Ok Z 615). xstep.
  rewrite (memmove_ok mc G_bufs (0 + 41 * 0) G_bufs (0 + 41 * 1) 615 _ _ Hm Hm) by (rewrite ?(tab_len t' Ht); lia).
  xstep. change (Z.to_nat (0 + 41 * 0)) with (41 * 0)%nat. change (Z.to_nat (0 + 41 * 1)) with (41 * 1)%nat. change (Z.to_nat 615) with (41 * 15)%nat.
  len16. xstep. change (wrap U64 1) with 1. change (chk U64 (16 - 1)) with (@Ok Z 15). xstep.
  change (chk U64 (80 * 41)) with (@Ok Z 3280). xstep.
  change (if 80 =? 0 then Err EDivZero else chk U64 (3280 ÷ 80)) with (@Ok Z 41). xstep.
  set (Tmid := put_cells (tab_cells t') (41 * 0) (firstn (41 * 15) (skipn (41 * 1) (tab_cells t')))).
  assert (HTmid : length Tmid = 656%nat).
  { unfold Tmid. rewrite put_cells_length; rewrite ?firstn_length, ?skipn_length, ?(tab_len t' Ht); lia. }
  rewrite (memset_ok (upd mc G_bufs Tmid) G_bufs (0 + 41 * 15) 0 41 Tmid) by (try (apply mem_upd_same; exact Hb); rewrite ?HTmid; lia).
  xstep. change (Z.to_nat 41) with 41%nat. change (wrap U8 0) with 0. change (Z.to_nat (0 + 41 * 15)) with (41 * 15)%nat.
  rewrite upd_upd by exact Hb. unfold Tmid. rewrite (shift_cells t' Ht). fold t2.
  set (m2 := upd mc G_bufs (tab_cells t2)) in *.
  assert (Hm2 : tab_at m2 t2) by (apply (tab_at_upd mc t' t2 Hm)).
  assert (Ht2 : tab_ok t2).
  { unfold t2. destruct t' as [|x rest]; [discriminate Hl|]. cbn [tl]. cbn [length] in Hl. split; [rewrite app_length; cbn [length]; lia|].
    inversion Hs; subst. apply Forall_app. split; [assumption|]. constructor; [exact zero_slot_ok|constructor]. }
  pose proof (globs_upd_bufs mc (tab_cells t2) _ _ _ _ _ Hb Hg) as Hg2. fold m2 in Hg2.
  rewrite (tr_bufs_load ext m2 t2 r0 o0 tp0 l0 td0 u m' d fuel Hm2 Ht2 Hg2); try assumption. reflexivity.
Qed.

(* ================================================================== the C table against the model table of BufsDefs.v
   A model slot is None (lb == NULL) or Some buf; the C slot represents it when: None -- path and lb are NULL and the saved
   view is zero (a slot zeroed by memset / never used); Some b -- path points to the C string b_path b, lb is a pointer,
   row/off/top/left/td = b_view b, id = b_id b, mtime = b_mtime b.  The line buffer behind lb is NOT related here (the model's
   payload L is abstract): what lbuf_modified does to it is TrLbuf's theorem. *)
Section Rep.
  Context {L : Type}.
  Definition view_of (s : cslot) : view := mkview (cs_row s) (cs_off s) (cs_top s) (cs_left s) (cs_td s).
  Definition slot_rep (m : mem) (cs : cslot) (x : slot L) : Prop :=
    match x with
    | None => cs_path cs = VInt 0 /\ cs_lb cs = VInt 0 /\ view_of cs = viewz
    | Some b => path_is m (cs_path cs) (Some (b_path b)) /\ (exists bl ol, cs_lb cs = VPtr bl ol) /\
                view_of cs = b_view b /\ cs_id cs = b_id b /\ cs_mtime cs = b_mtime b
    end.
  Definition tab_rep (m : mem) (t : list cslot) (l : list (slot L)) : Prop := Forall2 (slot_rep m) t l.
  Definition spath (x : slot L) : option bytes := match x with Some b => Some (b_path b) | None => None end.

  Lemma rep_paths m t l : tab_rep m t l -> paths_at m t (map spath l).
  Proof.
    unfold tab_rep, paths_at. induction 1 as [|cs x t l H Hr IH]; cbn [map]; constructor; [|exact IH].
    destruct x as [b|]; cbn [slot_rep spath] in *; [tauto|]. destruct H as (-> & _). constructor.
  Qed.
  Lemma rep_lbs m t l : tab_rep m t l -> lbs_ok t.
  Proof.
    unfold tab_rep, lbs_ok. induction 1 as [|cs x t l H Hr IH]; constructor; [|exact IH].
    destruct x as [b|]; cbn [slot_rep] in H; [destruct H as (_ & (bl & ol & ->) & _); right; eauto|destruct H as (_ & -> & _); left; reflexivity].
  Qed.
  Lemma first_idx_rel {A B} (R : A -> B -> Prop) (f : A -> bool) (g : B -> bool) a b :
    Forall2 R a b -> (forall x y, R x y -> f x = g y) -> first_idx f a = first_idx g b.
  Proof.
    intros H Hfg. induction H as [|x y a b Hxy Hr IH]; [reflexivity|]. cbn [first_idx]. rewrite (Hfg x y Hxy), IH. reflexivity.
  Qed.
  Lemma first_idx_map {A B} (f : B -> bool) (g : A -> B) l : first_idx f (map g l) = first_idx (fun x => f (g x)) l.
  Proof. induction l as [|x l IH]; [reflexivity|]. cbn [map first_idx]. rewrite IH. reflexivity. Qed.
  Lemma Forall2_firstn {A B} (R : A -> B -> Prop) n : forall a b, Forall2 R a b -> Forall2 R (firstn n a) (firstn n b).
  Proof. induction n as [|n IH]; intros a b H; [constructor|]. destruct H; cbn [firstn]; constructor; auto. Qed.
  Lemma Forall2_skipn {A B} (R : A -> B -> Prop) n : forall a b, Forall2 R a b -> Forall2 R (skipn n a) (skipn n b).
  Proof. induction n as [|n IH]; intros a b H; [exact H|]. destruct H; cbn [skipn]; [constructor|auto]. Qed.
  Lemma Forall2_nth {A B} (R : A -> B -> Prop) a b i x : Forall2 R a b -> nth_error a i = Some x -> exists y, nth_error b i = Some y /\ R x y.
  Proof.
    intro H. revert i. induction H as [|x0 y0 a b Hxy Hr IH]; intros i Hi; [destruct i; discriminate|].
    destruct i as [|i]; [injection Hi as <-; exists y0; split; [reflexivity|exact Hxy]|apply IH; exact Hi].
  Qed.
  Lemma Forall2_len {A B} (R : A -> B -> Prop) a b : Forall2 R a b -> length a = length b.
  Proof. induction 1; cbn [length]; congruence. Qed.
  Lemma Forall2_switch {A B} (R : A -> B -> Prop) a b i : Forall2 R a b -> Forall2 R (switch a i) (switch b i).
  Proof.
    intro H. unfold switch. destruct (nth_error a i) as [x|] eqn:E.
    - destruct (Forall2_nth R a b i x H E) as [y [Ey Rxy]]. rewrite Ey. constructor; [exact Rxy|].
      apply Forall2_app; [apply Forall2_firstn|apply Forall2_skipn]; exact H.
    - replace (nth_error b i) with (@None B); [exact H|]. symmetry. apply nth_error_None. apply nth_error_None in E.
      rewrite <- (Forall2_len R a b H). exact E.
  Qed.

  (* bufs_find: the C scan computes the model's bufs_find *)
  Lemma rep_find m t (s : st L) p : tab_rep m t (bufs s) ->
    first_idx (path_hit (canon p)) (map spath (bufs s)) = bufs_find s p.
  Proof.
    intros _. unfold bufs_find. rewrite first_idx_map.
    apply (first_idx_rel eq); [clear; induction (bufs s); constructor; auto|]. intros x y <-. destruct x; reflexivity.
  Qed.
  (* bufs_findroom *)
  Lemma rep_findroom m t (s : st L) : tab_rep m t (bufs s) -> room_of t = bufs_findroom s.
  Proof.
    intro H. unfold room_of, bufs_findroom. change (NB - 1)%nat with 15%nat.
    rewrite (first_idx_rel (slot_rep m) (fun c => is_null (cs_lb c)) is_free (firstn 15 t) (firstn 15 (bufs s))); [reflexivity|apply Forall2_firstn; exact H|].
    intros cs x Hx. destruct x as [b|]; cbn [slot_rep is_free] in *; [destruct Hx as (_ & (bl & ol & ->) & _); reflexivity|destruct Hx as (_ & -> & _); reflexivity].
  Qed.
  (* bufs_save (slot 0 occupied: on an empty slot 0 the C code writes the view into the empty slot, the model does nothing) *)
  Lemma rep_save m t (s : st L) r o tp l td b0 : tab_rep m t (bufs s) -> xv s = mkview r o tp l td -> short_ok td ->
    nth_error (bufs s) 0 = Some (Some b0) -> tab_rep m (save0 t r o tp l td) (bufs (bufs_save s)).
  Proof.
    intros H Hv Htd H0. unfold bufs_save. cbn [bufs set_bufs]. unfold tab_rep in *.
    destruct H as [|cs x t' l' Hx Hr]; [discriminate H0|]. cbn in H0. injection H0 as ->.
    cbn [save0 upd0 upd_slot]. constructor; [|exact Hr]. cbn [slot_rep] in *. destruct Hx as (Hp & Hl & Hvw & Hid & Hmt).
    cbn [set_cs_view cs_path cs_lb cs_id cs_mtime set_view b_path b_view b_id b_mtime]. repeat split; try assumption.
    unfold view_of. cbn [cs_row cs_off cs_top cs_left cs_td]. rewrite (wrap_I16_id td Htd), Hv. reflexivity.
  Qed.
  (* bufs_load: the values the globals get *)
  Lemma rep_load m t (s : st L) : tab_rep m t (bufs s) -> (0 < length t)%nat -> xv (bufs_load s) = view_of (nths t 0).
  Proof.
    intros H Hl. unfold bufs_load, slot0. unfold tab_rep in H. destruct H as [|cs x t' l' Hx Hr]; [cbn in Hl; lia|].
    unfold nths. cbn [nth]. destruct x as [b|]; cbn [slot_rep] in Hx; cbn [xv set_pct set_xv].
    - destruct Hx as (_ & _ & -> & _). reflexivity.
    - destruct Hx as (_ & _ & ->). reflexivity.
  Qed.
  Lemma load_xv (s : st L) : xv (bufs_load s) = match slot0 s with Some b => b_view b | None => viewz end.
  Proof. unfold bufs_load. destruct (slot0 s); reflexivity. Qed.
  Lemma load_slot0 (s : st L) : slot0 (bufs_load s) = slot0 s.
  Proof. unfold bufs_load. destruct (slot0 s) eqn:E; unfold slot0 in *; cbn [bufs set_pct set_xv]; exact E. Qed.
  Lemma load_load_xv (s : st L) : xv (bufs_load s) = xv (bufs_load (bufs_load s)).
  Proof. rewrite (load_xv (bufs_load s)), load_slot0. apply load_xv. Qed.
  (* bufs_switch: the C rotation of the saved table is the model's table after bufs_switch, and the globals are loaded alike *)
  Lemma rep_switch {Op Out} (Lo : lops L Op Out) m t (s : st L) r o tp l td b0 i : tab_rep m t (bufs s) -> xv s = mkview r o tp l td -> short_ok td ->
    nth_error (bufs s) 0 = Some (Some b0) ->
    let t2 := switch (save0 t r o tp l td) i in
    tab_rep m t2 (bufs (bufs_switch Lo s i)) /\ xv (bufs_switch Lo s i) = view_of (nths t2 0).
  Proof.
    intros H Hv Htd H0 t2.
    assert (Hb : bufs (bufs_switch Lo s i) = switch (upd0 (bump Lo) (bufs (bufs_save s))) i).
    { unfold bufs_switch, bufs_load. destruct (slot0 _); reflexivity. }
    assert (Hrep : tab_rep m t2 (bufs (bufs_switch Lo s i))).
    { rewrite Hb. unfold t2. apply Forall2_switch. pose proof (rep_save m t s r o tp l td b0 H Hv Htd H0) as Hs.
      unfold tab_rep in *. destruct Hs as [|cs x t' l' Hx Hr]; [constructor|]. cbn [upd0]. constructor; [|exact Hr].
      destruct x as [b|]; cbn [upd_slot slot_rep] in *; [|exact Hx]. exact Hx. }
    split; [exact Hrep|].
    assert (Hl2 : (0 < length t2)%nat).
    { pose proof (Forall2_len _ _ _ H) as E. unfold t2, switch. destruct t as [|c t']; [destruct (bufs s); [discriminate H0|discriminate E]|].
      cbn [save0]. destruct (nth_error _ i); cbn [length]; lia. }
    assert (Hx : xv (bufs_switch Lo s i) = xv (bufs_load (bufs_switch Lo s i))) by (unfold bufs_switch; apply load_load_xv).
    rewrite Hx. apply (rep_load m t2 _ Hrep Hl2).
  Qed.
  (* bufs_shift: the table *)
  Lemma rep_shift m t (s : st L) : tab_rep m t (bufs s) ->
    let t2 := tl t ++ [cs_zero] in tab_rep m t2 (bufs (bufs_shift s)) /\ xv (bufs_shift s) = view_of (nths t2 0).
  Proof.
    intros H t2.
    assert (Hb : bufs (bufs_shift s) = tl (bufs s) ++ [None]) by (unfold bufs_shift, bufs_load; destruct (slot0 _); reflexivity).
    assert (Hrep : tab_rep m t2 (bufs (bufs_shift s))).
    { rewrite Hb. unfold t2, tab_rep in *. apply Forall2_app; [destruct H; [constructor|assumption]|]. constructor; [|constructor].
      cbn [slot_rep]. repeat split. }
    split; [exact Hrep|].
    assert (Hx : xv (bufs_shift s) = xv (bufs_load (bufs_shift s))) by (unfold bufs_shift; apply load_load_xv).
    rewrite Hx. apply (rep_load m t2 _ Hrep). unfold t2. rewrite app_length. cbn [length]. lia.
  Qed.
  (* bufs_number: ids and counter *)
  Lemma rep_renum m : forall t (l : list (slot L)) n, tab_rep m t l ->
    tab_rep m (fst (c_renum t n)) (fst (renum l n)) /\ snd (c_renum t n) = snd (renum l n).
  Proof.
    intros t l n H. revert n. induction H as [|cs x t l Hx Hr IH]; intro n; [split; [constructor|reflexivity]|].
    cbn [c_renum renum]. destruct x as [b|]; cbn [slot_rep] in Hx.
    - destruct Hx as (Hp & (bl & ol & Hl) & Hv & Hid & Hmt). rewrite Hl. cbn [is_null].
      specialize (IH (n + 1)). destruct (c_renum t (n + 1)) as [t' n1]. destruct (renum l (n + 1)) as [l' n2]. cbn [fst snd] in *.
      destruct IH as [IH1 IH2]. split; [|exact IH2]. constructor; [|exact IH1].
      cbn [slot_rep set_cs_id cs_path cs_lb cs_id cs_mtime set_id b_path b_view b_id b_mtime]. repeat split; try assumption. exists bl, ol. exact Hl.
    - destruct Hx as (Hp & Hl & Hv). rewrite Hl. cbn [is_null].
      specialize (IH n). destruct (c_renum t n) as [t' n1]. destruct (renum l n) as [l' n2]. cbn [fst snd] in *.
      destruct IH as [IH1 IH2]. split; [|exact IH2]. constructor; [|exact IH1]. cbn [slot_rep]. repeat split; assumption.
  Qed.
  Lemma rep_number m t (s : st L) : tab_rep m t (bufs s) ->
    tab_rep m (fst (c_renum t 0)) (bufs (bufs_number s)) /\ snd (c_renum t 0) = cnt (bufs_number s).
  Proof.
    intro H. unfold bufs_number. destruct (rep_renum m t (bufs s) 0 H) as [H1 H2]. destruct (renum (bufs s) 0) as [l' n']. exact (conj H1 H2).
  Qed.
  (* the representation only reads the path strings: it survives every change of memory that keeps them *)
  Lemma rep_mem m m' t (l : list (slot L)) : (forall pb p, str_at m pb p -> str_at m' pb p) -> tab_rep m t l -> tab_rep m' t l.
  Proof.
    intros Hk H. unfold tab_rep in *. induction H as [|cs x t l Hx Hr IH]; constructor; [|exact IH].
    destruct x as [b|]; cbn [slot_rep] in *; [|exact Hx]. destruct Hx as (Hp & Hrest). split; [|exact Hrest].
    inversion Hp as [|pb p Hs Hn Hv Hq]; subst. constructor; [apply Hk; exact Hs|exact Hn].
  Qed.
End Rep.

(* ------------------------------------------------------------------ the translated functions compute the model's functions *)
Theorem tr_bufs_find_model {L} m t (s : st L) pb p d fuel : tab_at m t -> tab_ok t -> tab_rep m t (bufs s) ->
  str_at m pb p -> nonul p -> str_at m G_lit__0 [] -> (16 < fuel)%nat ->
  callf cprog fuel (S d) F_bufs_find [VPtr pb 0] m = Ok (VInt (idx_z (bufs_find s p)), m).
Proof.
  intros Hm Ht Hr Hs Np H0 Hf. rewrite <- (rep_find m t s p Hr).
  apply (tr_bufs_find m t (map spath (bufs s)) pb p d fuel Hm Ht (rep_paths m t _ Hr) Hs Np H0 Hf).
Qed.
Theorem tr_bufs_findroom_model {L} m t (s : st L) d fuel : tab_at m t -> tab_ok t -> tab_rep m t (bufs s) -> (15 < fuel)%nat ->
  callf cprog fuel (S d) F_bufs_findroom [] m = Ok (VInt (Z.of_nat (bufs_findroom s)), m).
Proof.
  intros Hm Ht Hr Hf. rewrite <- (rep_findroom m t s Hr). apply (tr_bufs_findroom m t d fuel Hm Ht (rep_lbs m t _ Hr) Hf).
Qed.

(* ------------------------------------------------------------------ bufs_switch against the model (C20_switch_permutes on the C text) *)
Lemma save0_ints t r o tp l td : Forall slot_ints t -> int_ok r -> int_ok o -> int_ok tp -> int_ok l -> Forall slot_ints (save0 t r o tp l td).
Proof.
  intros H Ir Io Itp Il. destruct t as [|s rest]; [constructor|]. inversion H as [|? ? Hs Hr]; subst. cbn [save0]. constructor; [|exact Hr].
  destruct Hs as (_ & _ & _ & _ & Hid & _). unfold slot_ints. cbn [set_cs_view cs_row cs_off cs_top cs_left cs_id cs_td].
  split; [exact Ir|]. split; [exact Io|]. split; [exact Itp|]. split; [exact Il|]. split; [exact Hid|]. apply wrap_I16_range.
Qed.
Lemma rep_path_ptr {L} m t (l : list (slot L)) : tab_rep m t l -> Forall (fun s => ptr_val (cs_path s)) t.
Proof.
  unfold tab_rep. induction 1 as [|cs x t l H Hr IH]; constructor; [|exact IH].
  destruct x as [b|]; cbn [slot_rep] in H.
  - destruct H as (Hp & _). inversion Hp; subst. right. eauto.
  - destruct H as (-> & _). left. reflexivity.
Qed.
Lemma save0_paths t r o tp l td : map cs_path (save0 t r o tp l td) = map cs_path t.
Proof. destruct t; reflexivity. Qed.

Theorem tr_bufs_switch_model {L Op Out} (Lo : lops L Op Out) ext m t (s : st L) i b0 m2 u m' d fuel :
  tab_at m t -> tab_ok t -> tab_rep m t (bufs s) -> Forall slot_ints t ->
  let r := v_row (xv s) in let o := v_off (xv s) in let tp := v_top (xv s) in let l := v_left (xv s) in let td := v_td (xv s) in
  globs_at m r o tp l td -> int_ok r -> int_ok o -> int_ok tp -> int_ok l -> short_ok td ->
  (i < 16)%nat -> nth_error (bufs s) 0 = Some (Some b0) ->
  let t1 := save0 t r o tp l td in
  let m1 := upd (m ++ [repeat VUndef 41]) G_bufs (tab_cells t1) in
  bump_call ext fuel d (cs_lb (nths t 0)) m1 m2 -> length m2 = length m1 ->
  same_on [G_bufs; length m; G_xrow; G_xoff; G_xtop; G_xleft; G_xtd] m1 m2 ->
  let s' := bufs_switch Lo s i in
  let t2 := switch t1 i in
  let m5 := set_globs (upd (upd m2 (length m) (slot_cells (nths t1 i))) G_bufs (tab_cells t2))
                      (v_row (xv s')) (v_off (xv s')) (v_top (xv s')) (v_left (xv s')) (v_td (xv s')) in
  ext X_reg_put [VInt 37; path_arg (cs_path (nths t2 0)); VInt 0] m5 = Ok (u, m') ->
  callx ext cprog fuel (S (S (S d))) F_bufs_switch [VInt (Z.of_nat i)] m = Ok (VUndef, m') /\
  tab_at m5 t2 /\ tab_rep m t2 (bufs s') /\
  globs_at m5 (v_row (xv s')) (v_off (xv s')) (v_top (xv s')) (v_left (xv s')) (v_td (xv s')) /\
  (forall b, (b < length m)%nat -> ~ In b [G_bufs; G_xrow; G_xoff; G_xtop; G_xleft; G_xtd] -> nth_error m5 b = nth_error m2 b).
Proof.
  intros Hm Ht Hrep Hints r o tp l td Hg Ir Io Itp Il Itd Hi H0 t1 m1 Hbump Hlen Hsame s' t2 m5 Hext.
  assert (Hv : xv s = mkview r o tp l td) by (destruct (xv s); reflexivity).
  destruct (rep_switch Lo m t s r o tp l td b0 i Hrep Hv Itd H0) as [Hrep2 Hxv]. fold t1 in Hrep2, Hxv. fold t2 in Hrep2, Hxv. fold s' in Hrep2, Hxv.
  pose proof Ht as [Hl Hs].
  assert (Ht1 : tab_ok t1) by (apply tab_ok_save0; exact Ht).
  assert (Hl1 : length t1 = 16%nat) by (destruct Ht1; assumption).
  assert (Hsx : nths t2 0 = nths t1 i) by (apply switch_nth0; lia).
  set (sx := nths t1 i) in *.
  assert (Hvx : view_of sx = xv s') by (rewrite Hxv, Hsx; reflexivity).
  assert (Isx : slot_ints sx).
  { pose proof (save0_ints t r o tp l td Hints Ir Io Itp Il) as H. fold t1 in H. rewrite Forall_forall in H. apply H. apply nth_In. lia. }
  assert (Psx : ptr_val (cs_path sx)).
  { pose proof (rep_path_ptr m t _ Hrep) as H. rewrite Forall_forall in H.
    assert (Hin : In (cs_path sx) (map cs_path t)) by (rewrite <- (save0_paths t r o tp l td); apply in_map; apply nth_In; fold t1; lia).
    apply in_map_iff in Hin. destruct Hin as [c [<- Hc]]. apply H. exact Hc. }
  assert (Itd' : int_ok td) by (unfold int_ok, short_ok in *; lia).
  assert (Hlb : ptr_val (cs_lb (nths t 0))).
  { pose proof (rep_lbs m t _ Hrep) as H. apply (lbs_nth t 0 H). lia. }
  assert (Hm5 : m5 = set_globs (upd (upd m2 (length m) (slot_cells sx)) G_bufs (tab_cells t2)) (cs_row sx) (cs_off sx) (cs_top sx) (cs_left sx) (cs_td sx)).
  { unfold m5. rewrite <- Hvx. reflexivity. }
  rewrite Hsx, Hm5 in Hext.
  split; [apply (tr_bufs_switch ext m t r o tp l td i m2 u m' d fuel Hm Ht Hg Ir Io Itp Il Itd' Hi Hlb Hbump Hlen Hsame Isx Psx Hext)|].
  (* what the memory handed to reg_put holds *)
  assert (Hb : (G_bufs < length m)%nat) by (apply nth_error_Some; unfold tab_at in Hm; congruence).
  assert (Hl2 : length m2 = S (length m)).
  { rewrite Hlen. unfold m1. rewrite upd_length by (rewrite app_length; cbn [length]; lia). rewrite app_length. cbn [length]. lia. }
  set (m4 := upd (upd m2 (length m) (slot_cells sx)) G_bufs (tab_cells t2)) in *.
  assert (Hb3 : (G_bufs < length (upd m2 (length m) (slot_cells sx)))%nat) by (rewrite upd_length by lia; lia).
  assert (Hg4 : globs_at m4 r o tp l td).
  { assert (Hx : forall g v, In g [G_xrow; G_xoff; G_xtop; G_xleft; G_xtd] -> cell_at m g v -> cell_at m4 g v).
    { intros g v Hin Hc. pose proof (cell_lt _ _ _ Hc) as Lg. unfold cell_at, m4.
      rewrite mem_upd_other by (try exact Hb3; destruct Hin as [<-|[<-|[<-|[<-|[<-|[]]]]]]; discriminate).
      rewrite mem_upd_other by (try lia).
      rewrite (Hsame g) by (right; right; exact Hin). unfold m1.
      rewrite mem_upd_other by (try (rewrite app_length; cbn [length]; lia); destruct Hin as [<-|[<-|[<-|[<-|[<-|[]]]]]]; discriminate).
      rewrite nth_error_app_old by exact Lg. exact Hc. }
    destruct Hg as [G1 G2 G3 G4 G5]. constructor; apply Hx; try assumption; cbn; tauto. }
  rewrite Hm5. rewrite <- Hvx. cbn [view_of v_row v_off v_top v_left v_td].
  split; [|split; [exact Hrep2|split; [apply (globs_set m4 r o tp l td); exact Hg4|]]].
  - unfold tab_at. rewrite (set_globs_other m4 _ _ _ _ _ r o tp l td G_bufs Hg4) by discriminate. unfold m4. apply mem_upd_same. exact Hb3.
  - intros b Hbl Hnin. rewrite (set_globs_other m4 _ _ _ _ _ r o tp l td b Hg4) by (intro E; apply Hnin; subst b; cbn; tauto).
    unfold m4. rewrite mem_upd_other by (try exact Hb3; intro E; apply Hnin; subst b; cbn; tauto).
    rewrite mem_upd_other by lia. reflexivity.
Qed.
