(* TrRsetMake.v -- rset_make of /repo/rset.c on the translated C text (GenCFuncs.v: cf_rset_make; whitelist tools/c2clite.d/96a_rsetfind.list),
   RELATIVE to the oracle of regcomp (CLiteExt.callx, X_regcomp: regcomp itself is tied to its model in TrRegexComp*.v).
   For EVERY array re[0..n-1] of pattern strings (NULL entries allowed) in memory:
   * the wrapper STRING handed to regcomp -- "(" "(p0)" "|" "(p1)" ... ")" built in an sbuf with sbuf_chr / sbuf_str (the translated sbuf.c,
     TrSbuf.v) -- is RsetDefs.rset_pattern res, NUL-terminated inside its allocation;
   * grp[] / setgrpcnt[] / grpcnt, filled through re_groupcount (TrRset.tr_re_groupcount), are the tables of RsetDefs.rset_build (the tables
     C10_rset_index_all speaks about), grp[n] = grpcnt, rs->n = n;
   * the compile flags are REG_EXTENDED | (flg & RE_ICASE ? REG_ICASE : 0);
   * a set with a pattern that is not self-contained (re_groupcount == -1) is rejected WITHOUT calling regcomp; a set regcomp rejects is
     rejected; in both cases grp[], setgrpcnt[], the struct and the sbuf (struct and data) are freed and NULL is returned;
   * an accepted set: the sbuf is freed, the struct is returned.
   The C-faithful fold cbuild mirrors the loop (setgrpcnt[i] = -1 and grpcnt += 0 for a bad pattern); cbuild_model: while no pattern is
   bad it is RsetDefs.rset_build. *)
From Coq Require Import List ZArith NArith Bool Lia.
From NV Require Import Bytes GenConsts IoDefs IoProps ReSyntax RsetDefs CLite CLiteProps CLiteExt GenCFuncs CLiteTac TrSbuf TrRset.
Import ListNotations.
Local Open Scope Z_scope.

(* ------------------------------------------------------------------ the sbuf of rset_make: struct at index S (length m0) *)
Definition mk_inv (m0 mm : mem) (cs : list Z) : Prop :=
  exists sz, sbuf_rep mm (S (length m0)) cs sz /\ sz_small (Z.of_nat (length cs)) sz /\
    match sbuf_datab mm (S (length m0)) with Some bd => (length m0 + 4 <= bd)%nat | None => True end /\
    (length m0 + 4 <= length mm)%nat.
(* the blocks below length m0 + 4 other than the sbuf struct are untouched *)
Definition mk_keep (m0 mm mm' : mem) : Prop :=
  (length mm <= length mm')%nat /\
  forall b', (b' < length m0 + 4)%nat -> b' <> S (length m0) -> nth_error mm' b' = nth_error mm b'.
Lemma mk_keep_refl m0 mm : mk_keep m0 mm mm.
Proof. split; [lia|reflexivity]. Qed.
Lemma mk_keep_trans m0 m1 m2 m3 : mk_keep m0 m1 m2 -> mk_keep m0 m2 m3 -> mk_keep m0 m1 m3.
Proof. intros [L1 F1] [L2 F2]. split; [lia|]. intros b' Hb Hp. rewrite F2, F1 by assumption. reflexivity. Qed.

Lemma mk_step m0 mm mm' cs cs' sz sz' : mk_inv m0 mm cs -> sbuf_rep mm (S (length m0)) cs sz ->
  sbuf_rep mm' (S (length m0)) cs' sz' -> sz_small (Z.of_nat (length cs')) sz' -> sbuf_step mm mm' (S (length m0)) ->
  mk_inv m0 mm' cs' /\ mk_keep m0 mm mm'.
Proof.
  intros (sz0 & R0 & _ & Hd & Hl) R R' Hsm (L & D & F). split.
  - exists sz'. split; [exact R'|]. split; [exact Hsm|]. split; [|lia].
    destruct D as [D|(bn & D & Hbn)]; rewrite D; [exact Hd|lia].
  - split; [exact L|]. intros b' Hb Hp. apply F; [lia|exact Hp|]. intro E. rewrite E in Hd. lia.
Qed.

Notation MK_BOUND := 500000000 (only parsing).

Lemma mk_chr m0 mm cs c d fuel : mk_inv m0 mm cs -> 0 <= c <= 127 -> Z.of_nat (length cs) < MK_BOUND ->
  exists mm', callf cprog fuel (S (S d)) F_sbuf_chr [VPtr (S (length m0)) 0; VInt c] mm = Ok (VUndef, mm') /\
    mk_inv m0 mm' (cs ++ [c]) /\ mk_keep m0 mm mm'.
Proof.
  intros I Hc Hb. pose proof I as (sz & R & Hsm & Hd & Hl).
  destruct (tr_sbuf_chr mm (S (length m0)) cs sz c d fuel R) as (mm' & E & R' & _ & S').
  { apply (fits_small (Z.of_nat (length cs))); [exact Hsm|lia|lia]. }
  exists mm'. split; [exact E|].
  assert (Ew : wrap I8 c = c) by (unfold wrap; cbn [ity_bits ity_signed andb]; change (2 ^ 8) with 256; change (2 ^ (8 - 1)) with 128;
                                   rewrite Z.mod_small by lia; destruct (Z.leb_spec 128 c); [lia|reflexivity]).
  rewrite Ew in R'. rewrite chr_sz_model in R'.
  apply (mk_step m0 mm mm' cs (cs ++ [c]) sz _ I R R'); [|exact S'].
  rewrite app_length. cbn [length]. rewrite Nat2Z.inj_add. apply chr_sz_small. exact Hsm.
Qed.

Lemma mk_str m0 mm cs bs (s : bytes) d fuel : mk_inv m0 mm cs -> str_at mm bs s -> (bs < length m0)%nat -> nonul s ->
  Z.of_nat (length cs) + Z.of_nat (length s) < MK_BOUND ->
  exists mm', callf cprog fuel (S (S (S d))) F_sbuf_str [VPtr (S (length m0)) 0; VPtr bs 0] mm = Ok (VUndef, mm') /\
    mk_inv m0 mm' (cs ++ zb s) /\ mk_keep m0 mm mm'.
Proof.
  intros I Hs Hbs Hnn Hb. pose proof I as (sz & R & Hsm & Hd & Hl).
  destruct (tr_sbuf_str mm (S (length m0)) cs sz bs s 0 d fuel R ltac:(lia)) as (mm' & E & R' & _ & S'); try assumption; try lia.
  { intro E. rewrite E in Hd. lia. }
  { cbn [skipn]. apply (fits_small (Z.of_nat (length cs))); [exact Hsm|lia|lia]. }
  change (Z.of_nat 0) with 0 in E. cbn [skipn] in E, R'. exists mm'. split; [exact E|].
  apply (mk_step m0 mm mm' cs (cs ++ zb s) sz _ I R R'); [|exact S'].
  unfold IoDefs.sbuf_mem, sb_model. cbn [sb_sz sb_n sb_data]. rewrite Z.geb_leb, app_length. unfold zb. rewrite map_length, Nat2Z.inj_add.
  apply mem_sz_small; [exact Hsm|lia].
Qed.

Lemma mk_len m0 mm cs d fuel : mk_inv m0 mm cs ->
  callf cprog fuel (S d) F_sbuf_len [VPtr (S (length m0)) 0] mm = Ok (VInt (Z.of_nat (length cs)), mm).
Proof. intros (sz & R & _). exact (tr_sbuf_len mm _ cs sz d fuel R). Qed.

(* a store into one of rset_make's own blocks (or any block below length m0 + 4 other than the sbuf struct) keeps the sbuf *)
Lemma mk_upd m0 mm cs bb (blk : block) : mk_inv m0 mm cs -> (bb < length m0 + 4)%nat -> bb <> S (length m0) ->
  mk_inv m0 (upd mm bb blk) cs.
Proof.
  intros (sz & R & Hsm & Hd & Hl) Hbb Hne.
  destruct (rep_upd_other mm (S (length m0)) cs sz bb blk R Hne) as (R' & D'); [|lia|].
  { intro E. rewrite E in Hd. lia. }
  exists sz. split; [exact R'|]. split; [exact Hsm|]. rewrite D'. split; [exact Hd|]. rewrite upd_length by lia. exact Hl.
Qed.

(* sbuf_buf: the terminated string *)
Lemma mk_buf m0 mm cs d fuel : mk_inv m0 mm cs -> (0 < length cs)%nat ->
  exists bd mm' rest sz', callf cprog fuel (S (S d)) F_sbuf_buf [VPtr (S (length m0)) 0] mm = Ok (VPtr bd 0, mm') /\
    nth_error mm' bd = Some (map VInt cs ++ VInt 0 :: rest) /\ sbuf_rep mm' (S (length m0)) cs sz' /\ sbuf_datab mm' (S (length m0)) = Some bd /\
    (length m0 + 4 <= bd)%nat /\ mk_keep m0 mm mm'.
Proof.
  intros I Hpos. pose proof I as (sz & R & Hsm & Hd & Hl).
  destruct (tr_sbuf_buf mm (S (length m0)) cs sz d fuel R) as (bd & mm' & rest & E & R' & D' & Hbd & _ & _ & S' & W).
  exists bd, mm', rest, (sb_sz (IoDefs.sbuf_buf (sb_model cs sz))). split; [exact E|]. split; [exact Hbd|]. split; [exact R'|]. split; [exact D'|].
  assert (Hbd4 : (length m0 + 4 <= bd)%nat) by (destruct W as [W|W]; [rewrite W in Hd; exact Hd|lia]).
  split; [exact Hbd4|]. destruct S' as (L & _ & F). split; [exact L|].
  intros b' Hb Hp. apply F; [lia|exact Hp|]. intro E'. rewrite E' in Hd. lia.
Qed.

(* ------------------------------------------------------------------ the loop of rset_make as a fold over re[] *)
Definition gc_z (p : bytes) : Z := match re_groupcount_opt p with Some k => Z.of_nat k | None => -1 end.
Fixpoint cbuild (res : list (option bytes)) (sb : bytes) (gc : Z) (bad : bool) : bytes * list Z * list Z * Z * bool :=
  match res with
  | [] => (sb, [], [], gc, bad)
  | None :: rest =>
    let '(sb', g, sg, gc', bad') := cbuild rest sb gc bad in (sb', (-1) :: g, 0 :: sg, gc', bad')
  | Some p :: rest =>
    let sb1 := (if Nat.ltb 1 (length sb) then sb ++ [124%N] else sb) ++ [40%N] ++ p ++ [41%N] in
    let '(sb', g, sg, gc', bad') := cbuild rest sb1 (gc + 1 + gc_z p) (bad || (gc_z p <? 0)) in (sb', gc :: g, gc_z p :: sg, gc', bad')
  end.
Definition any_bad (res : list (option bytes)) : bool :=
  existsb (fun p => match re_groupcount_opt p with None => true | Some _ => false end) (somes res).

(* while no pattern is bad, the fold is the model's rset_build *)
Lemma cbuild_model : forall res sb gc, any_bad res = false ->
  let '(sb', g, sg, gc') := rset_build res sb gc in
  cbuild res sb (Z.of_nat gc) false = (sb', g, map Z.of_nat sg, Z.of_nat gc', false).
Proof.
  induction res as [|[p|] res IH]; intros sb gc Hb; cbn [rset_build cbuild].
  - reflexivity.
  - unfold any_bad in Hb. cbn [somes existsb] in Hb. apply orb_false_iff in Hb. destruct Hb as [Hp Hb].
    unfold gc_z, re_groupcount. destruct (re_groupcount_opt p) as [k|]; [|discriminate].
    specialize (IH ((if Nat.ltb 1 (length sb) then sb ++ [124%N] else sb) ++ [40%N] ++ p ++ [41%N]) (gc + 1 + k)%nat Hb).
    destruct (rset_build res _ (gc + 1 + k)%nat) as [[[sb' g] sg] gc'].
    replace (Z.of_nat gc + 1 + Z.of_nat k) with (Z.of_nat (gc + 1 + k)) by lia.
    replace (Z.of_nat k <? 0) with false by (symmetry; apply Z.ltb_ge; lia). cbn [orb]. rewrite IH. reflexivity.
  - specialize (IH sb gc Hb). destruct (rset_build res sb gc) as [[[sb' g] sg] gc']. rewrite IH. reflexivity.
Qed.
Lemma cbuild_bad : forall res sb gc bad, snd (cbuild res sb gc bad) = bad || any_bad res.
Proof.
  induction res as [|[p|] res IH]; intros sb gc bad; cbn [cbuild].
  - cbn. rewrite orb_false_r. reflexivity.
  - specialize (IH ((if Nat.ltb 1 (length sb) then sb ++ [124%N] else sb) ++ [40%N] ++ p ++ [41%N]) (gc + 1 + gc_z p) (bad || (gc_z p <? 0))).
    destruct (cbuild res _ _ _) as [[[[sb' g] sg] gc'] bad']. cbn [snd] in *. rewrite IH.
    unfold any_bad. cbn [somes existsb]. fold (any_bad res). unfold gc_z. destruct (re_groupcount_opt p) as [k|].
    + replace (Z.of_nat k <? 0) with false by (symmetry; apply Z.ltb_ge; lia). cbn [orb]. rewrite orb_false_r. reflexivity.
    + cbn [Z.ltb Z.compare orb]. rewrite orb_true_r. reflexivity.
  - specialize (IH sb gc bad). destruct (cbuild res sb gc bad) as [[[[sb' g] sg] gc'] bad']. cbn [snd] in *. exact IH.
Qed.

(* ------------------------------------------------------------------ bounds: a group needs its '(' *)
Lemma gcount_le : forall s skip n dep r, gcount s skip n dep = Some r -> (r <= n + length s)%nat.
Proof.
  induction s as [|c s IH]; intros skip n dep r H; cbn [gcount length] in *.
  - destruct (Nat.eqb dep 0); [injection H as <-; lia|discriminate].
  - destruct skip as [|k]; [|specialize (IH _ _ _ _ H); lia].
    destruct (c =? 92)%N; [destruct s; [discriminate|specialize (IH _ _ _ _ H); lia]|].
    destruct (c =? 91)%N; [destruct (brk_closed (c :: s)); [specialize (IH _ _ _ _ H); lia|discriminate]|].
    destruct (c =? 40)%N; [specialize (IH _ _ _ _ H); lia|].
    destruct (c =? 41)%N; [destruct dep; [discriminate|specialize (IH _ _ _ _ H); lia]|].
    specialize (IH _ _ _ _ H). lia.
Qed.
Lemma gc_z_range p : -1 <= gc_z p <= Z.of_nat (length p).
Proof. unfold gc_z, re_groupcount_opt. destruct (gcount p 0 0 0) as [k|] eqn:E; [apply gcount_le in E; lia|lia]. Qed.

(* the bytes the loop still appends / the groups it still counts: at most length p + 3 per pattern *)
Fixpoint pats_total (res : list (option bytes)) : Z :=
  match res with [] => 0 | None :: r => pats_total r | Some p :: r => Z.of_nat (length p) + 3 + pats_total r end.
Lemma pats_total_nonneg res : 0 <= pats_total res.
Proof. induction res as [|[p|] r IH]; cbn [pats_total]; lia. Qed.

(* ------------------------------------------------------------------ re[] in memory *)
Definition re_at (m0 : mem) (ba : nat) (res : list (option bytes)) : Prop :=
  exists cells, nth_error m0 ba = Some cells /\ (length res <= length cells)%nat /\
    forall i, (i < length res)%nat ->
      match nth i res None with
      | None => nth_error cells i = Some (VInt 0)
      | Some p => exists bi, nth_error cells i = Some (VPtr bi 0) /\ str_at m0 bi p /\ nonul p
      end.

Lemma upd_fill (G : list Z) k v : upd (map VInt G ++ repeat VUndef (S k)) (length G) (VInt v) = map VInt (G ++ [v]) ++ repeat VUndef k.
Proof.
  unfold upd. rewrite firstn_app, skipn_app, !map_length. rewrite firstn_all2, skipn_all2 by (rewrite map_length; lia).
  rewrite Nat.sub_diag. replace (S (length G) - length G)%nat with 1%nat by lia. cbn [firstn skipn repeat app].
  rewrite app_nil_r. rewrite map_app, <- app_assoc. reflexivity.
Qed.

Lemma ld5 (m : mem) b c0 c1 c2 c3 c4 : nth_error m b = Some [c0; c1; c2; c3; c4] ->
  load m b 0 = Ok c0 /\ load m b (0 + 1 * 1) = Ok c1 /\ load m b (0 + 1 * 2) = Ok c2 /\ load m b (0 + 1 * 3) = Ok c3 /\ load m b (0 + 1 * 4) = Ok c4.
Proof. intro H. unfold load. rewrite H. repeat split. Qed.
Lemma st5 (m : mem) b c0 c1 c2 c3 c4 v : nth_error m b = Some [c0; c1; c2; c3; c4] ->
  store m b 0 v = Ok (upd m b [v; c1; c2; c3; c4]) /\ store m b (0 + 1 * 1) v = Ok (upd m b [c0; v; c2; c3; c4]) /\
  store m b (0 + 1 * 2) v = Ok (upd m b [c0; c1; v; c3; c4]) /\ store m b (0 + 1 * 3) v = Ok (upd m b [c0; c1; c2; v; c4]) /\
  store m b (0 + 1 * 4) v = Ok (upd m b [c0; c1; c2; c3; v]).
Proof. intro H. repeat split; rewrite (store_ok m b [c0; c1; c2; c3; c4]) by (try exact H; cbn; lia); reflexivity. Qed.

Definition mk_loop : stmt :=
  match fn_body cf_rset_make with
  | SSeq _ (SSeq _ (SSeq _ (SSeq _ (SSeq _ (SSeq _ (SSeq _ (SSeq _ (SSeq _ (SSeq _ (SSeq (SSeq _ w) _)))))))))) => w | _ => SSkip end.
Definition mk_body : stmt := match mk_loop with SFor _ _ b => b | _ => SSkip end.
Lemma mk_loop_eq : mk_loop = SFor (Some (EBin OLt I32 (ELocal 6) (ELocal 0))) (Some (EIncLocal true 6 (Some I32) 1)) mk_body.
Proof. reflexivity. Qed.
Definition mk_null : stmt := match mk_body with SSeq (SIf _ a _) _ => a | _ => SSkip end.
Definition mk_some : stmt := match mk_body with SSeq _ b => b | _ => SSkip end.
Lemma mk_body_eq : mk_body = SSeq (SIf (ELNot (ELoad None (EPtrAdd 1 (ELocal 1) (ELocal 6)))) mk_null SSkip) mk_some.
Proof. reflexivity. Qed.

Section MkLoop.
  Variable call : nat -> list val -> mem -> res (val * mem).
  Variables (fuel d : nat).
  Hypothesis Hcall : call_le (callf cprog fuel (S (S (S d)))) call.
  Variables (m0 : mem) (ba : nat) (n flg cflg : Z).
  Hypothesis Hn : 0 <= n < 2147483647.
  Let rsb := length m0.
  Let psb := S (length m0).
  Let gb := (length m0 + 2)%nat.
  Let sgb := (length m0 + 3)%nat.

  (* the memory while the loop runs: the sbuf holds cs, rs->grpcnt = gc, grp[] / setgrpcnt[] are filled up to G / SG *)
  Definition mk_st (mm : mem) (cs : list Z) (gc : Z) (G SG : list Z) : Prop :=
    mk_inv m0 mm cs /\
    nth_error mm rsb = Some [VInt 0; VInt n; VPtr gb 0; VPtr sgb 0; VInt gc] /\
    nth_error mm gb = Some (map VInt G ++ repeat VUndef (S (Z.to_nat n) - length G)) /\
    nth_error mm sgb = Some (map VInt SG ++ repeat VUndef (S (Z.to_nat n) - length SG)) /\
    (forall b', (b' < length m0)%nat -> nth_error mm b' = nth_error m0 b').

  Lemma mk_st_len mm cs gc G SG : mk_st mm cs gc G SG -> (length m0 + 4 <= length mm)%nat.
  Proof. intros ((sz & _ & _ & _ & L) & _). exact L. Qed.

  (* after an sbuf operation *)
  Lemma mk_st_keep mm mm' cs cs' gc G SG : mk_st mm cs gc G SG -> mk_inv m0 mm' cs' -> mk_keep m0 mm mm' -> mk_st mm' cs' gc G SG.
  Proof.
    intros (_ & A & B & C & F) I' (_ & K). split; [exact I'|].
    unfold rsb, gb, sgb, psb in *. rewrite !K by lia. split; [exact A|]. split; [exact B|]. split; [exact C|].
    intros b' Hb. rewrite K by lia. apply F. exact Hb.
  Qed.
  (* after a store into one of the three blocks *)
  Lemma mk_st_gc mm cs gc G SG gc' : mk_st mm cs gc G SG -> mk_st (upd mm rsb [VInt 0; VInt n; VPtr gb 0; VPtr sgb 0; VInt gc']) cs gc' G SG.
  Proof.
    intros St. pose proof (mk_st_len _ _ _ _ _ St) as L. destruct St as (I & A & B & C & F). unfold rsb, gb, sgb in *.
    split; [apply mk_upd; [exact I|lia|lia]|]. rewrite mem_upd_same by lia. rewrite !mem_upd_other by lia.
    split; [reflexivity|]. split; [exact B|]. split; [exact C|]. intros b' Hb. rewrite mem_upd_other by lia. apply F. exact Hb.
  Qed.
  Lemma mk_st_grp mm cs gc G SG (blk : block) G' : mk_st mm cs gc G SG ->
    blk = map VInt G' ++ repeat VUndef (S (Z.to_nat n) - length G') -> mk_st (upd mm gb blk) cs gc G' SG.
  Proof.
    intros St ->. pose proof (mk_st_len _ _ _ _ _ St) as L. destruct St as (I & A & B & C & F). unfold rsb, gb, sgb in *.
    split; [apply mk_upd; [exact I|lia|lia]|]. rewrite mem_upd_same by lia. rewrite !mem_upd_other by lia.
    split; [exact A|]. split; [reflexivity|]. split; [exact C|]. intros b' Hb. rewrite mem_upd_other by lia. apply F. exact Hb.
  Qed.
  Lemma mk_st_sgc mm cs gc G SG (blk : block) SG' : mk_st mm cs gc G SG ->
    blk = map VInt SG' ++ repeat VUndef (S (Z.to_nat n) - length SG') -> mk_st (upd mm sgb blk) cs gc G SG'.
  Proof.
    intros St ->. pose proof (mk_st_len _ _ _ _ _ St) as L. destruct St as (I & A & B & C & F). unfold rsb, gb, sgb in *.
    split; [apply mk_upd; [exact I|lia|lia]|]. rewrite mem_upd_same by lia. rewrite !mem_upd_other by lia.
    split; [exact A|]. split; [exact B|]. split; [reflexivity|]. intros b' Hb. rewrite mem_upd_other by lia. apply F. exact Hb.
  Qed.

  Definition mk_locals (i : Z) (bad : bool) : list val :=
    [VInt n; VPtr ba 0; VInt flg; VPtr rsb 0; VPtr psb 0; VInt cflg; VInt i; VInt (b2z bad)].

  (* if (!re[i]) { rs->grp[i] = -1; rs->setgrpcnt[i] = 0; continue; } *)
  Lemma mk_null_ok f2 mm cs gc G SG i bad : mk_st mm cs gc G SG -> Z.of_nat (length G) = i -> length SG = length G -> 0 <= i < n ->
    exists mm', exec call f2 mk_null (mkst (mk_locals i bad) mm) = OContinue (mkst (mk_locals i bad) mm') /\
                mk_st mm' cs gc (G ++ [-1]) (SG ++ [0]).
  Proof.
    intros St Hi Hsg Hin. pose proof St as (I & A & B & C & F).
    unfold mk_null, mk_body, mk_loop, mk_locals; cbn [fn_body cf_rset_make]. xs.
    destruct (ld5 _ _ _ _ _ _ _ A) as (_ & _ & LA2 & LA3 & LA4). rewrite LA2. xs.
    change (wrap I32 (-1)) with (-1).
    replace (S (Z.to_nat n) - length G)%nat with (S (Z.to_nat n - length G)) in B by lia.
    rewrite (store_ok mm gb _ (0 + 1 * i) _ B) by (rewrite app_length, map_length, repeat_length; lia). xs.
    replace (Z.to_nat (0 + 1 * i)) with (length G) by lia. rewrite upd_fill.
    set (mm1 := upd mm gb _).
    assert (S1 : mk_st mm1 cs gc (G ++ [-1]) SG).
    { apply (mk_st_grp mm cs gc G SG _ _ St). rewrite app_length. cbn [length]. do 2 f_equal. lia. }
    pose proof S1 as (I1 & A1 & B1 & C1 & F1).
    destruct (ld5 _ _ _ _ _ _ _ A1) as (_ & _ & _ & LB3 & _). rewrite LB3. xs.
    replace (S (Z.to_nat n) - length SG)%nat with (S (Z.to_nat n - length SG)) in C1 by lia.
    change (wrap I32 0) with 0.
    rewrite (store_ok mm1 sgb _ (0 + 1 * i) _ C1) by (rewrite app_length, map_length, repeat_length; lia). xs.
    replace (Z.to_nat (0 + 1 * i)) with (length SG) by lia. rewrite upd_fill.
    eexists. split; [reflexivity|].
    apply (mk_st_sgc mm1 cs gc (G ++ [-1]) SG _ _ S1). rewrite app_length. cbn [length]. do 2 f_equal. lia.
  Qed.

  Lemma load_fill (mm : mem) b (L : list Z) k o j : nth_error mm b = Some (map VInt L ++ repeat VUndef k) -> o = Z.of_nat j -> (j < length L)%nat ->
    load mm b o = Ok (VInt (nth j L 0)).
  Proof.
    intros Hm -> Hj. unfold load. rewrite Hm. destruct (Z.ltb_spec (Z.of_nat j) 0); [lia|]. rewrite Nat2Z.id.
    rewrite nth_error_app1 by (rewrite map_length; exact Hj). rewrite nth_error_map, (nth_error_nth' L 0 Hj). reflexivity.
  Qed.
  Lemma zb_app a b : zb (a ++ b) = zb a ++ zb b.
  Proof. apply map_app. Qed.
  Lemma zb_length a : length (zb a) = length a.
  Proof. apply map_length. Qed.

  Definition mk_bar : stmt := match mk_some with SSeq a _ => a | _ => SSkip end.
  Definition mk_rest : stmt := match mk_some with SSeq _ b => b | _ => SSkip end.
  Lemma mk_some_eq : mk_some = SSeq mk_bar mk_rest.
  Proof. reflexivity. Qed.

  (* if (sbuf_len(sb) > 1) sbuf_chr(sb, '|'); *)
  Lemma mk_bar_ok f2 mm (sb : bytes) gc G SG i bad : mk_st mm (zb sb) gc G SG -> Z.of_nat (length sb) + 1 < MK_BOUND ->
    exists mm', exec call f2 mk_bar (mkst (mk_locals i bad) mm) = ONormal (mkst (mk_locals i bad) mm') /\
                mk_st mm' (zb (if Nat.ltb 1 (length sb) then sb ++ [124%N] else sb)) gc G SG.
  Proof.
    intros St Hb. pose proof St as (I & _).
    unfold mk_bar, mk_some, mk_body, mk_loop, mk_locals; cbn [fn_body cf_rset_make]. unfold psb. xs.
    rewrite (Hcall _ _ _ _ (mk_len m0 mm (zb sb) (S (S d)) fuel I)). xs. rewrite zb_length.
    destruct (Nat.ltb_spec 1 (length sb)) as [L|L]; (destruct (Z.ltb_spec 1 (Z.of_nat (length sb))); [|try lia]; try lia); xs.
    - destruct (mk_chr m0 mm (zb sb) 124 (S d) fuel I ltac:(lia) ltac:(rewrite zb_length; lia)) as (mm' & E & I' & K).
      rewrite (Hcall _ _ _ _ E). xs. exists mm'. split; [reflexivity|]. rewrite zb_app. exact (mk_st_keep _ _ _ _ _ _ _ St I' K).
    - exists mm. split; [reflexivity|exact St].
  Qed.

  (* sbuf_chr(sb, '('); sbuf_str(sb, re[i]); sbuf_chr(sb, ')'); rs->grp[i] = rs->grpcnt; rs->setgrpcnt[i] = re_groupcount(re[i]);
     if (rs->setgrpcnt[i] < 0) bad = 1; rs->grpcnt += 1 + rs->setgrpcnt[i]; *)
  Lemma mk_rest_ok f2 mm (sb : bytes) gc G SG i bad (cells : block) bi (p : bytes) :
    mk_st mm (zb sb) gc G SG -> Z.of_nat (length G) = i -> length SG = length G -> 0 <= i < n ->
    nth_error m0 ba = Some cells -> nth_error cells (Z.to_nat i) = Some (VPtr bi 0) -> str_at m0 bi p -> nonul p ->
    Z.of_nat (length sb) + Z.of_nat (length p) + 2 < MK_BOUND -> 0 <= gc -> gc + Z.of_nat (length p) + 1 <= 2147483647 -> (length p < fuel)%nat ->
    exists mm', exec call f2 mk_rest (mkst (mk_locals i bad) mm) = ONormal (mkst (mk_locals i (bad || (gc_z p <? 0))) mm') /\
                mk_st mm' (zb (sb ++ [40%N] ++ p ++ [41%N])) (gc + 1 + gc_z p) (G ++ [gc]) (SG ++ [gc_z p]).
  Proof.
    intros St Hi Hsg Hin Hcells Hcell Hstr Hnn Hb Hgc0 Hgc Hf.
    assert (Lba : (ba < length m0)%nat) by (apply nth_error_Some; congruence).
    assert (Lbi : (bi < length m0)%nat) by (apply nth_error_Some; unfold str_at in Hstr; congruence).
    assert (Ld : forall mx cx gx Gx SGx, mk_st mx cx gx Gx SGx -> load mx ba (0 + 1 * i) = Ok (VPtr bi 0) /\ str_at mx bi p).
    { intros mx cx gx Gx SGx (_ & _ & _ & _ & Fx). split.
      - unfold load. rewrite Fx by exact Lba. rewrite Hcells. destruct (Z.ltb_spec (0 + 1 * i) 0); [lia|].
        replace (Z.to_nat (0 + 1 * i)) with (Z.to_nat i) by lia. rewrite Hcell. reflexivity.
      - unfold str_at. rewrite Fx by exact Lbi. exact Hstr. }
    pose proof (gc_z_range p) as Hk.
    unfold mk_rest, mk_some, mk_body, mk_loop, mk_locals; cbn [fn_body cf_rset_make]. unfold psb. xs.
    (* sbuf_chr(sb, '(') *)
    pose proof St as (I & _).
    destruct (mk_chr m0 mm (zb sb) 40 (S d) fuel I ltac:(lia) ltac:(rewrite zb_length; lia)) as (mm1 & E1 & I1 & K1).
    rewrite (Hcall _ _ _ _ E1). xs. pose proof (mk_st_keep _ _ _ _ _ _ _ St I1 K1) as St1. clear E1.
    (* sbuf_str(sb, re[i]) *)
    destruct (Ld _ _ _ _ _ St1) as [L1 S1]. rewrite L1. xs.
    destruct (mk_str m0 mm1 (zb sb ++ [40]) bi p d fuel I1 S1 Lbi Hnn ltac:(rewrite app_length, zb_length; cbn [length]; lia)) as (mm2 & E2 & I2 & K2).
    rewrite (Hcall _ _ _ _ E2). xs. pose proof (mk_st_keep _ _ _ _ _ _ _ St1 I2 K2) as St2. clear E2.
    (* sbuf_chr(sb, ')') *)
    destruct (mk_chr m0 mm2 ((zb sb ++ [40]) ++ zb p) 41 (S d) fuel I2 ltac:(lia) ltac:(rewrite !app_length, !zb_length; cbn [length]; lia)) as (mm3 & E3 & I3 & K3).
    rewrite (Hcall _ _ _ _ E3). xs. pose proof (mk_st_keep _ _ _ _ _ _ _ St2 I3 K3) as St3. clear E3.
    assert (Ecs : ((zb sb ++ [40]) ++ zb p) ++ [41] = zb (sb ++ [40%N] ++ p ++ [41%N])).
    { rewrite !zb_app. rewrite <- !app_assoc. reflexivity. }
    rewrite Ecs in St3. clear I I1 I2 I3 K1 K2 K3 St St1 St2 L1 S1.
    (* rs->grp[i] = rs->grpcnt *)
    pose proof St3 as (_ & A & B & C & _).
    destruct (ld5 _ _ _ _ _ _ _ A) as (_ & _ & LA2 & LA3 & LA4). rewrite LA2. xs. rewrite LA4. xs.
    rewrite !(CLiteProps.wrap_I32_id gc) by lia.
    replace (S (Z.to_nat n) - length G)%nat with (S (Z.to_nat n - length G)) in B by lia.
    rewrite (store_ok mm3 gb _ (0 + 1 * i) _ B) by (rewrite app_length, map_length, repeat_length; lia). xs.
    replace (Z.to_nat (0 + 1 * i)) with (length G) by lia. rewrite upd_fill.
    set (mm4 := upd mm3 gb _).
    assert (St4 : mk_st mm4 (zb (sb ++ [40%N] ++ p ++ [41%N])) gc (G ++ [gc]) SG).
    { apply (mk_st_grp mm3 _ gc G SG _ _ St3). rewrite app_length. cbn [length]. do 2 f_equal. lia. }
    (* rs->setgrpcnt[i] = re_groupcount(re[i]) *)
    pose proof St4 as (_ & A4 & _ & C4 & _).
    destruct (ld5 _ _ _ _ _ _ _ A4) as (_ & _ & _ & LB3 & _). rewrite LB3. xs.
    destruct (Ld _ _ _ _ _ St4) as [L4 S4]. rewrite L4. xs.
    rewrite (Hcall _ _ _ _ (tr_re_groupcount mm4 bi p (S (S d)) fuel S4 Hnn ltac:(lia) Hf)). xs. fold (gc_z p).
    rewrite !(CLiteProps.wrap_I32_id (gc_z p)) by lia.
    replace (S (Z.to_nat n) - length SG)%nat with (S (Z.to_nat n - length SG)) in C4 by lia.
    rewrite (store_ok mm4 sgb _ (0 + 1 * i) _ C4) by (rewrite app_length, map_length, repeat_length; lia). xs.
    replace (Z.to_nat (0 + 1 * i)) with (length SG) by lia. rewrite upd_fill.
    set (mm5 := upd mm4 sgb _).
    assert (St5 : mk_st mm5 (zb (sb ++ [40%N] ++ p ++ [41%N])) gc (G ++ [gc]) (SG ++ [gc_z p])).
    { apply (mk_st_sgc mm4 _ gc (G ++ [gc]) SG _ _ St4). rewrite app_length. cbn [length]. do 2 f_equal. lia. }
    (* if (rs->setgrpcnt[i] < 0) bad = 1 *)
    pose proof St5 as (_ & A5 & _ & C5 & _).
    destruct (ld5 _ _ _ _ _ _ _ A5) as (_ & _ & _ & LC3 & LC4). rewrite LC3. xs.
    assert (Lk : load mm5 sgb (0 + 1 * i) = Ok (VInt (gc_z p))).
    { rewrite (load_fill mm5 sgb _ _ _ (length SG) C5) by (rewrite ?app_length; cbn [length]; lia).
      rewrite app_nth2 by lia. rewrite Nat.sub_diag. reflexivity. }
    rewrite Lk. xs. rewrite !(CLiteProps.wrap_I32_id (gc_z p)) by lia.
    assert (Hfin : mk_st (upd mm5 rsb [VInt 0; VInt n; VPtr gb 0; VPtr sgb 0; VInt (gc + (1 + gc_z p))])
                     (zb (sb ++ [40%N] ++ p ++ [41%N])) (gc + 1 + gc_z p) (G ++ [gc]) (SG ++ [gc_z p])).
    { replace (gc + 1 + gc_z p) with (gc + (1 + gc_z p)) by lia. apply (mk_st_gc mm5 _ gc _ _ _ St5). }
    destruct (st5 _ _ _ _ _ _ _ (VInt (gc + (1 + gc_z p))) A5) as (_ & _ & _ & _ & SC4).
    destruct (Z.ltb_spec (gc_z p) 0) as [Lz|Lz]; xs;
      (rewrite LC4; xs; rewrite LC3; xs; rewrite Lk; xs;
       rewrite !(CLiteProps.wrap_I32_id gc) by lia; rewrite !(CLiteProps.wrap_I32_id (gc_z p)) by lia;
       rewrite (chk_I32 (1 + gc_z p)) by lia; xs; rewrite (chk_I32 (gc + (1 + gc_z p))) by lia; xs;
       rewrite !(CLiteProps.wrap_I32_id (gc + (1 + gc_z p))) by lia; rewrite SC4; xs;
       eexists; split; [rewrite ?orb_true_r, ?orb_false_r; reflexivity|exact Hfin]).
  Qed.

  (* re[i ..] as the remaining list *)
  Definition re_rest (cells : block) (i : nat) (rest : list (option bytes)) : Prop :=
    forall j, (j < length rest)%nat ->
      match nth j rest None with
      | None => nth_error cells (i + j) = Some (VInt 0)
      | Some p => exists bi, nth_error cells (i + j) = Some (VPtr bi 0) /\ str_at m0 bi p /\ nonul p /\ (length p < fuel)%nat
      end.
  Lemma re_rest_tl cells i x rest : re_rest cells i (x :: rest) -> re_rest cells (S i) rest.
  Proof. intros H j Hj. specialize (H (S j) ltac:(cbn [length]; lia)). cbn [nth] in H. replace (S i + j)%nat with (i + S j)%nat by lia. exact H. Qed.

  (* for (i = 0; i < n; i++) { ... } : the loop is the fold cbuild *)
  Lemma mk_loop_ok (cells : block) : nth_error m0 ba = Some cells ->
    forall rest sb gc bad G SG mm i f2,
    re_rest cells (Z.to_nat i) rest -> mk_st mm (zb sb) gc G SG -> Z.of_nat (length G) = i -> length SG = length G ->
    i + Z.of_nat (length rest) = n -> Z.of_nat (length sb) + pats_total rest < MK_BOUND -> 0 <= gc -> gc + pats_total rest <= 2147483647 ->
    (length rest < f2)%nat ->
    exists mm', exec call f2 mk_loop (mkst (mk_locals i bad) mm)
                = ONormal (mkst (mk_locals n (snd (cbuild rest sb gc bad))) mm') /\
      let '(sb', g, sg, gc', _) := cbuild rest sb gc bad in mk_st mm' (zb sb') gc' (G ++ g) (SG ++ sg).
  Proof.
    intro Hcells. induction rest as [|x rest IH]; intros sb gc bad G SG mm i f2 Hre St Hi Hsg Hlen Hb Hgc0 Hgc Hf;
      (destruct f2 as [|f2]; [lia|]); rewrite mk_loop_eq, exec_for; unfold mk_locals at 1; xs.
    - cbn [length] in Hlen. destruct (Z.ltb_spec i n); [lia|]. xs. cbn [cbuild snd]. rewrite !app_nil_r.
      exists mm. split; [unfold mk_locals; repeat f_equal; lia|exact St].
    - cbn [length] in Hlen, Hf. destruct (Z.ltb_spec i n); [|lia]. xs.
      pose proof (Hre 0%nat ltac:(cbn [length]; lia)) as H0. cbn [nth] in H0. rewrite Nat.add_0_r in H0.
      pose proof (re_rest_tl _ _ _ _ Hre) as Hre'. replace (S (Z.to_nat i)) with (Z.to_nat (i + 1)) in Hre' by lia.
      assert (Lba : (ba < length m0)%nat) by (apply nth_error_Some; congruence).
      pose proof St as (_ & _ & _ & _ & Fm).
      assert (Lcell : forall v, nth_error cells (Z.to_nat i) = Some v -> load mm ba (0 + 1 * i) = Ok v).
      { intros v Hv. unfold load. rewrite Fm by exact Lba. rewrite Hcells. destruct (Z.ltb_spec (0 + 1 * i) 0); [lia|].
        replace (Z.to_nat (0 + 1 * i)) with (Z.to_nat i) by lia. rewrite Hv. reflexivity. }
      rewrite mk_body_eq. rewrite exec_seq, exec_if. xs.
      pose proof (pats_total_nonneg rest) as Hpt.
      destruct x as [p|]; cbn [cbuild pats_total] in *.
      + (* a pattern *)
        destruct H0 as (bi & Hcell & Hstr & Hnn & Hpf). rewrite (Lcell _ Hcell). xs. rewrite mk_some_eq, exec_seq.
        fold (mk_locals i bad).
        destruct (mk_bar_ok (S f2) mm sb gc G SG i bad St ltac:(lia)) as (mm1 & E1 & St1). rewrite E1. clear E1.
        set (sbA := if Nat.ltb 1 (length sb) then sb ++ [124%N] else sb) in *.
        assert (LA : (length sbA <= length sb + 1)%nat) by (unfold sbA; destruct (Nat.ltb 1 (length sb)); rewrite ?app_length; cbn [length]; lia).
        pose proof (gc_z_range p) as Hk.
        destruct (mk_rest_ok (S f2) mm1 sbA gc G SG i bad cells bi p St1 Hi Hsg ltac:(lia) Hcells Hcell Hstr Hnn ltac:(lia) Hgc0 ltac:(lia) Hpf)
          as (mm2 & E2 & St2). rewrite E2. clear E2. unfold mk_locals at 1. xs.
        rewrite (chk_I32 (i + 1)) by lia. xs. change (SFor _ _ _) with mk_loop. fold (mk_locals (i + 1) (bad || (gc_z p <? 0))).
        destruct (IH (sbA ++ [40%N] ++ p ++ [41%N]) (gc + 1 + gc_z p) (bad || (gc_z p <? 0)) (G ++ [gc]) (SG ++ [gc_z p]) mm2 (i + 1) f2 Hre' St2)
          as (mm' & E & Q); try (rewrite ?app_length; cbn [length]; lia).
        exists mm'. destruct (cbuild rest _ _ _) as [[[[sb' g] sg] gc'] bad'] eqn:Ecb. cbn [snd] in *.
        split; [exact E|]. rewrite <- !app_assoc in Q. exact Q.
      + (* a NULL entry *)
        rewrite (Lcell _ H0). xs. fold (mk_locals i bad).
        destruct (mk_null_ok (S f2) mm (zb sb) gc G SG i bad St Hi Hsg ltac:(lia)) as (mm1 & E1 & St1). rewrite E1. clear E1.
        unfold mk_locals at 1. xs. rewrite (chk_I32 (i + 1)) by lia. xs. change (SFor _ _ _) with mk_loop. fold (mk_locals (i + 1) bad).
        destruct (IH sb gc bad (G ++ [-1]) (SG ++ [0]) mm1 (i + 1) f2 Hre' St1) as (mm' & E & Q); try (rewrite ?app_length; cbn [length]; lia).
        exists mm'. destruct (cbuild rest sb gc bad) as [[[[sb' g] sg] gc'] bad'] eqn:Ecb. cbn [snd] in *.
        split; [exact E|]. rewrite <- !app_assoc in Q. exact Q.
  Qed.
End MkLoop.

Lemma cbuild_facts : forall res sb gc bad,
  let '(sb', g, sg, gc', _) := cbuild res sb gc bad in
  length g = length res /\ length sg = length res /\ gc <= gc' <= gc + pats_total res /\
  (length sb <= length sb')%nat /\ Z.of_nat (length sb') <= Z.of_nat (length sb) + pats_total res.
Proof.
  induction res as [|[p|] res IH]; intros sb gc bad; cbn [cbuild pats_total].
  - cbn [length]. lia.
  - specialize (IH ((if Nat.ltb 1 (length sb) then sb ++ [124%N] else sb) ++ [40%N] ++ p ++ [41%N]) (gc + 1 + gc_z p) (bad || (gc_z p <? 0))).
    destruct (cbuild res _ _ _) as [[[[sb' g] sg] gc'] bad']. pose proof (gc_z_range p). cbn [length].
    assert (L : (length ((if Nat.ltb 1 (length sb) then sb ++ [124%N] else sb) ++ [40%N] ++ p ++ [41%N]) <= length sb + length p + 3)%nat /\
                (length sb <= length ((if Nat.ltb 1 (length sb) then sb ++ [124%N] else sb) ++ [40%N] ++ p ++ [41%N]))%nat).
    { destruct (Nat.ltb 1 (length sb)); rewrite !app_length; cbn [length]; lia. }
    lia.
  - specialize (IH sb gc bad). destruct (cbuild res sb gc bad) as [[[[sb' g] sg] gc'] bad']. cbn [length]. lia.
Qed.

(* ------------------------------------------------------------------ the part before the loop *)
Ltac enterx f cf :=
  rewrite callx_S; cbn [nth_error cprog f cf fn_nparams fn_nlocals fn_body length Nat.eqb Nat.sub repeat app].
Lemma x_regcomp_none : nth_error cprog X_regcomp = None.
Proof. vm_compute. reflexivity. Qed.
Lemma nth_app_at {A} (m t : list A) k : nth_error (m ++ t) (length m + k) = nth_error t k.
Proof. rewrite nth_error_app2 by lia. f_equal. lia. Qed.
Lemma upd_app_at {A} (m t : list A) k x : upd (m ++ t) (length m + k) x = m ++ upd t k x.
Proof.
  unfold upd. rewrite firstn_app, skipn_app. rewrite firstn_all2, skipn_all2 by lia.
  replace (length m + k - length m)%nat with k by lia. replace (S (length m + k) - length m)%nat with (S k) by lia.
  cbn [app]. rewrite <- app_assoc. reflexivity.
Qed.

(* the compile flags: REG_EXTENDED | (flg & RE_ICASE ? REG_ICASE : 0) *)
Definition cflg_of (flg : Z) : Z := Z.lor 1 (if has flg RE_ICASE then REG_ICASE else 0).
Definition mk_from_loop : stmt :=
  match fn_body cf_rset_make with
  | SSeq _ (SSeq _ (SSeq _ (SSeq _ (SSeq _ (SSeq _ (SSeq _ (SSeq _ (SSeq _ (SSeq _ t))))))))) => t | _ => SSkip end.

Section MkMain.
  Variable ext : nat -> list val -> mem -> res (val * mem).
  Variables (fuel d : nat).
  Notation call := (callx ext cprog fuel (S (S (S d)))).
  Lemma mk_call_le : call_le (callf cprog fuel (S (S (S d)))) call.
  Proof. intros f a m r H. apply callx_mono. exact H. Qed.

  Variables (m0 : mem) (ba : nat) (n flg : Z).
  Hypothesis Hn : 0 <= n < 2147483647.

  Lemma mk_head_ok :
    exists M1, exec call fuel (fn_body cf_rset_make) (mkst [VInt n; VPtr ba 0; VInt flg; VUndef; VUndef; VUndef; VUndef; VUndef] m0)
               = exec call fuel mk_from_loop
                   (mkst [VInt n; VPtr ba 0; VInt flg; VPtr (length m0) 0; VPtr (S (length m0)) 0; VInt (cflg_of flg); VUndef; VInt 0] M1) /\
               mk_st m0 n M1 (zb [40%N]) 2 [] [].
  Proof.
    set (RS := [VInt 0; VInt n; VPtr (length m0 + 2) 0; VPtr (length m0 + 3) 0; VInt 2]).
    set (M0 := m0 ++ [RS; [VInt 0; VInt 0; VInt 0]; repeat VUndef (S (Z.to_nat n)); repeat VUndef (S (Z.to_nat n))]).
    assert (St0 : mk_st m0 n M0 [] 2 [] []).
    { assert (L0 : length M0 = (length m0 + 4)%nat) by (unfold M0; rewrite app_length; cbn [length]; lia).
      split; [|split; [|split; [|split]]].
      - exists 0. split; [left; split; [reflexivity|]; split; [reflexivity|]; unfold M0; rewrite <- (Nat.add_1_r (length m0)), nth_app_at; reflexivity|].
        split; [apply make_small|]. split; [|lia].
        rewrite (datab_null M0 _ (VInt 0) (VInt 0)); [exact I|]. unfold M0. rewrite <- (Nat.add_1_r (length m0)), nth_app_at. reflexivity.
      - unfold M0. rewrite <- (Nat.add_0_r (length m0)) at 1. rewrite nth_app_at. reflexivity.
      - unfold M0. rewrite nth_app_at. cbn [nth_error map app length]. rewrite Nat.sub_0_r. reflexivity.
      - unfold M0. rewrite nth_app_at. cbn [nth_error map app length]. rewrite Nat.sub_0_r. reflexivity.
      - intros b' Hb. unfold M0. apply nth_error_app1. exact Hb. }
    pose proof St0 as (I0 & _).
    destruct (mk_chr m0 M0 [] 40 (S d) fuel I0 ltac:(lia) ltac:(cbn [length]; lia)) as (M1 & E1 & I1 & K1).
    exists M1. split; [|exact (mk_st_keep m0 n _ _ _ _ _ _ _ St0 I1 K1)].
    unfold mk_from_loop. cbn [fn_body cf_rset_make]. xs.
    rewrite (malloc_ok m0 5) by lia. xs.
    rewrite (mk_call_le _ _ _ _ (tr_sbuf_make (m0 ++ [repeat VUndef (Z.to_nat 5)]) (S (S d)) fuel)). xs.
    rewrite app_length. cbn [length]. rewrite <- !app_assoc. cbn [app].
    assert (Hm0 : forall (x : block) (L : list block), nth_error (m0 ++ x :: L) (length m0) = Some x)
      by (intros x L; rewrite nth_error_app2 by lia; rewrite Nat.sub_diag; reflexivity).
    assert (Hu0 : forall (x y : block) (L : list block), upd (m0 ++ x :: L) (length m0) y = m0 ++ y :: L).
    { intros x y L. rewrite <- (Nat.add_0_r (length m0)) at 1. rewrite upd_app_at. reflexivity. }
    destruct (Z.land flg 1 =? 0) eqn:Eic; cbn [negb]; xs.
    - rewrite (memset_ok _ (length m0) 0 0 5 (repeat VUndef (Z.to_nat 5))) by (try apply Hm0; rewrite ?repeat_length; lia). xs.
      rewrite Hu0.
      change (put_cells (repeat VUndef (Z.to_nat 5)) (Z.to_nat 0) (repeat (VInt (wrap U8 0)) (Z.to_nat 5))) with [VInt 0; VInt 0; VInt 0; VInt 0; VInt 0].
      (* rs->grp = malloc((n + 1) * sizeof(rs->grp[0])) *)
      rewrite (chk_I32 (n + 1)) by lia. xs. rewrite (wrap_U64_id (n + 1)) by lia. rewrite (chk_U64 ((n + 1) * 4)) by lia. xs.
      change (4 =? 0) with false. cbv iota. rewrite Z.quot_mul by lia. rewrite (chk_U64 (n + 1)) by lia. xs.
      rewrite (malloc_ok _ (n + 1)) by lia. xs. rewrite app_length. cbn [length]. rewrite <- app_assoc. cbn [app].
      rewrite (store_ok _ (length m0) _ (0 + 1 * 2) _ (Hm0 _ _)) by (cbn [length]; lia). xs. rewrite Hu0.
      change (Z.to_nat (0 + 1 * 2)) with 2%nat. unfold upd at 1. cbn [firstn skipn app].
      (* rs->setgrpcnt = malloc(...) *)
      rewrite (chk_I32 (n + 1)) by lia. xs. rewrite (wrap_U64_id (n + 1)) by lia. rewrite (chk_U64 ((n + 1) * 4)) by lia. xs.
      change (4 =? 0) with false. cbv iota. rewrite Z.quot_mul by lia. rewrite (chk_U64 (n + 1)) by lia. xs.
      rewrite (malloc_ok _ (n + 1)) by lia. xs. rewrite app_length. cbn [length]. rewrite <- app_assoc. cbn [app].
      rewrite (store_ok _ (length m0) _ (0 + 1 * 3) _ (Hm0 _ _)) by (cbn [length]; lia). xs. rewrite Hu0.
      change (Z.to_nat (0 + 1 * 3)) with 3%nat. unfold upd at 1. cbn [firstn skipn app].
      (* rs->grpcnt = 2; rs->n = n *)
      change (wrap I32 2) with 2.
      rewrite (store_ok _ (length m0) _ (0 + 1 * 4) _ (Hm0 _ _)) by (cbn [length]; lia). xs. rewrite Hu0.
      change (Z.to_nat (0 + 1 * 4)) with 4%nat. unfold upd at 1. cbn [firstn skipn app].
      rewrite (CLiteProps.wrap_I32_id n) by lia.
      rewrite (store_ok _ (length m0) _ (0 + 1 * 1) _ (Hm0 _ _)) by (cbn [length]; lia). xs. rewrite Hu0.
      change (Z.to_nat (0 + 1 * 1)) with 1%nat. unfold upd at 1. cbn [firstn skipn app].
      replace (Z.to_nat (n + 1)) with (S (Z.to_nat n)) by lia. replace (length m0 + 1)%nat with (S (length m0)) by lia.
      match goal with |- context [callx ext cprog fuel _ F_sbuf_chr _ ?M] => change M with M0 end.
      rewrite (mk_call_le _ _ _ _ E1). xs.
      unfold cflg_of, has. change RE_ICASE with 1. rewrite Eic. reflexivity.
    - rewrite (memset_ok _ (length m0) 0 0 5 (repeat VUndef (Z.to_nat 5))) by (try apply Hm0; rewrite ?repeat_length; lia). xs.
      rewrite Hu0.
      change (put_cells (repeat VUndef (Z.to_nat 5)) (Z.to_nat 0) (repeat (VInt (wrap U8 0)) (Z.to_nat 5))) with [VInt 0; VInt 0; VInt 0; VInt 0; VInt 0].
      (* rs->grp = malloc((n + 1) * sizeof(rs->grp[0])) *)
      rewrite (chk_I32 (n + 1)) by lia. xs. rewrite (wrap_U64_id (n + 1)) by lia. rewrite (chk_U64 ((n + 1) * 4)) by lia. xs.
      change (4 =? 0) with false. cbv iota. rewrite Z.quot_mul by lia. rewrite (chk_U64 (n + 1)) by lia. xs.
      rewrite (malloc_ok _ (n + 1)) by lia. xs. rewrite app_length. cbn [length]. rewrite <- app_assoc. cbn [app].
      rewrite (store_ok _ (length m0) _ (0 + 1 * 2) _ (Hm0 _ _)) by (cbn [length]; lia). xs. rewrite Hu0.
      change (Z.to_nat (0 + 1 * 2)) with 2%nat. unfold upd at 1. cbn [firstn skipn app].
      (* rs->setgrpcnt = malloc(...) *)
      rewrite (chk_I32 (n + 1)) by lia. xs. rewrite (wrap_U64_id (n + 1)) by lia. rewrite (chk_U64 ((n + 1) * 4)) by lia. xs.
      change (4 =? 0) with false. cbv iota. rewrite Z.quot_mul by lia. rewrite (chk_U64 (n + 1)) by lia. xs.
      rewrite (malloc_ok _ (n + 1)) by lia. xs. rewrite app_length. cbn [length]. rewrite <- app_assoc. cbn [app].
      rewrite (store_ok _ (length m0) _ (0 + 1 * 3) _ (Hm0 _ _)) by (cbn [length]; lia). xs. rewrite Hu0.
      change (Z.to_nat (0 + 1 * 3)) with 3%nat. unfold upd at 1. cbn [firstn skipn app].
      (* rs->grpcnt = 2; rs->n = n *)
      change (wrap I32 2) with 2.
      rewrite (store_ok _ (length m0) _ (0 + 1 * 4) _ (Hm0 _ _)) by (cbn [length]; lia). xs. rewrite Hu0.
      change (Z.to_nat (0 + 1 * 4)) with 4%nat. unfold upd at 1. cbn [firstn skipn app].
      rewrite (CLiteProps.wrap_I32_id n) by lia.
      rewrite (store_ok _ (length m0) _ (0 + 1 * 1) _ (Hm0 _ _)) by (cbn [length]; lia). xs. rewrite Hu0.
      change (Z.to_nat (0 + 1 * 1)) with 1%nat. unfold upd at 1. cbn [firstn skipn app].
      replace (Z.to_nat (n + 1)) with (S (Z.to_nat n)) by lia. replace (length m0 + 1)%nat with (S (length m0)) by lia.
      match goal with |- context [callx ext cprog fuel _ F_sbuf_chr _ ?M] => change M with M0 end.
      rewrite (mk_call_le _ _ _ _ E1). xs.
      unfold cflg_of, has. change RE_ICASE with 1. rewrite Eic. reflexivity.
  Qed.

  Let rsb := length m0.
  Let psb := S (length m0).
  Let gb := (length m0 + 2)%nat.
  Let sgb := (length m0 + 3)%nat.

  Definition mk_reject : stmt := match mk_from_loop with SSeq _ (SSeq _ (SSeq _ (SSeq (SIf _ a _) _))) => a | _ => SSkip end.

  (* free(rs->grp); free(rs->setgrpcnt); free(rs); sbuf_free(sb); return NULL; *)
  Lemma mk_reject_ok f2 (mm : mem) lc0 lc1 lc2 lc5 lc6 lc7 c0 gc (Gb Sb : block) cs sz :
    nth_error mm rsb = Some [c0; VInt n; VPtr gb 0; VPtr sgb 0; VInt gc] -> nth_error mm gb = Some Gb -> Gb <> [] ->
    nth_error mm sgb = Some Sb -> Sb <> [] -> sbuf_rep mm psb cs sz ->
    match sbuf_datab mm psb with Some bd => (length m0 + 4 <= bd)%nat | None => True end ->
    exists st', exec call f2 mk_reject (mkst [lc0; lc1; lc2; VPtr rsb 0; VPtr psb 0; lc5; lc6; lc7] mm) = OReturn (VInt 0) st' /\
      nth_error (memm st') rsb = Some [] /\ nth_error (memm st') gb = Some [] /\ nth_error (memm st') sgb = Some [] /\
      nth_error (memm st') psb = Some [] /\ (forall bo, sbuf_datab mm psb = Some bo -> nth_error (memm st') bo = Some []) /\
      forall b', b' <> rsb -> b' <> gb -> b' <> sgb -> b' <> psb -> sbuf_datab mm psb <> Some b' -> nth_error (memm st') b' = nth_error mm b'.
  Proof.
    intros A B HB C HC R Hd. unfold rsb, psb, gb, sgb in *.
    assert (Lr : (length m0 < length mm)%nat) by (apply nth_error_Some; congruence).
    assert (Lg : (length m0 + 2 < length mm)%nat) by (apply nth_error_Some; congruence).
    assert (Ls : (length m0 + 3 < length mm)%nat) by (apply nth_error_Some; congruence).
    unfold mk_reject, mk_from_loop; cbn [fn_body cf_rset_make]. xs.
    destruct (ld5 _ _ _ _ _ _ _ A) as (_ & _ & LA2 & _). rewrite LA2. xs.
    rewrite (free_ok mm _ Gb B HB). xs.
    set (m1 := upd mm (length m0 + 2) []).
    assert (A1 : nth_error m1 (length m0) = Some [c0; VInt n; VPtr (length m0 + 2) 0; VPtr (length m0 + 3) 0; VInt gc])
      by (unfold m1; rewrite mem_upd_other by lia; exact A).
    destruct (ld5 _ _ _ _ _ _ _ A1) as (_ & _ & _ & LA3 & _). rewrite LA3. xs.
    assert (C1 : nth_error m1 (length m0 + 3) = Some Sb) by (unfold m1; rewrite mem_upd_other by lia; exact C).
    rewrite (free_ok m1 _ Sb C1 HC). xs.
    set (m2 := upd m1 (length m0 + 3) []).
    assert (L1 : length m1 = length mm) by (unfold m1; apply upd_length; lia).
    assert (L2 : length m2 = length mm) by (unfold m2; rewrite upd_length by lia; exact L1).
    assert (A2 : nth_error m2 (length m0) = Some [c0; VInt n; VPtr (length m0 + 2) 0; VPtr (length m0 + 3) 0; VInt gc])
      by (unfold m2; rewrite mem_upd_other by lia; exact A1).
    rewrite (free_ok m2 _ _ A2) by discriminate. xs.
    set (m3 := upd m2 (length m0) []).
    assert (L3 : length m3 = length mm) by (unfold m3; rewrite upd_length by lia; exact L2).
    assert (Hnd : forall bb, (bb < length m0 + 4)%nat -> sbuf_datab mm (S (length m0)) <> Some bb) by (intros bb Hbb E; rewrite E in Hd; lia).
    destruct (rep_upd_other mm (S (length m0)) cs sz (length m0 + 2) [] R ltac:(lia) (Hnd (length m0 + 2)%nat ltac:(lia)) Lg) as (R1 & D1). fold m1 in R1, D1.
    destruct (rep_upd_other m1 (S (length m0)) cs sz (length m0 + 3) [] R1 ltac:(lia) ltac:(rewrite D1; apply Hnd; lia) ltac:(lia)) as (R2 & D2). fold m2 in R2, D2.
    destruct (rep_upd_other m2 (S (length m0)) cs sz (length m0) [] R2 ltac:(lia) ltac:(rewrite D2, D1; apply Hnd; lia) ltac:(lia)) as (R3 & D3). fold m3 in R3, D3.
    destruct (tr_sbuf_free m3 (S (length m0)) cs sz (S (S d)) fuel R3) as (m4 & E4 & F1 & F2 & F3 & F4).
    rewrite (mk_call_le _ _ _ _ E4). xs. eexists. split; [reflexivity|]. cbn [memm].
    assert (D : sbuf_datab m3 (S (length m0)) = sbuf_datab mm (S (length m0))) by (rewrite D3, D2, D1; reflexivity).
    split; [rewrite F4 by (try lia; rewrite D; apply Hnd; lia); unfold m3; apply mem_upd_same; lia|].
    split; [rewrite F4 by (try lia; rewrite D; apply Hnd; lia); unfold m3; rewrite mem_upd_other by lia; unfold m2; rewrite mem_upd_other by lia;
            unfold m1; apply mem_upd_same; lia|].
    split; [rewrite F4 by (try lia; rewrite D; apply Hnd; lia); unfold m3; rewrite mem_upd_other by lia; unfold m2; apply mem_upd_same; lia|].
    split; [exact F1|]. split; [intros bo Hbo; apply F2; rewrite D; exact Hbo|].
    intros b' N1 N2 N3 N4 N5. rewrite F4 by (try assumption; rewrite D; exact N5).
    unfold m3. rewrite mem_upd_other by lia. unfold m2. rewrite mem_upd_other by lia. unfold m1. rewrite mem_upd_other by lia. reflexivity.
  Qed.

  Definition mk_branch : stmt := match mk_from_loop with SSeq _ (SSeq _ (SSeq _ t)) => t | _ => SSkip end.

  Variable res : list (option bytes).
  Hypothesis Hre : re_at m0 ba res.
  Hypothesis Hpf : Forall (fun p => (length p < fuel)%nat) (somes res).
  Hypothesis Hlen : Z.of_nat (length res) = n.
  Hypothesis Htot : pats_total res + 4 < MK_BOUND.
  Hypothesis Hfuel : (length res < fuel)%nat.

  Lemma somes_nth (l : list (option bytes)) j p : nth j l None = Some p -> In p (somes l).
  Proof.
    revert j; induction l as [|[q|] l IH]; intros [|j] H; cbn [nth somes] in *; try discriminate.
    - injection H as ->. left. reflexivity.
    - right. exact (IH _ H).
    - exact (IH _ H).
  Qed.

  (* everything up to `if (bad || regcomp(...))`: the loop is cbuild, grp[n] = grpcnt, the closing parenthesis *)
  Lemma mk_common_ok :
    exists M2, exec call fuel (fn_body cf_rset_make) (mkst [VInt n; VPtr ba 0; VInt flg; VUndef; VUndef; VUndef; VUndef; VUndef] m0)
               = exec call fuel mk_branch (mkst (mk_locals m0 ba n flg (cflg_of flg) n (snd (cbuild res [40%N] 2 false))) M2) /\
      let '(sb', g, sg, gc', _) := cbuild res [40%N] 2 false in
      mk_st m0 n M2 (zb (sb' ++ [41%N])) gc' (g ++ [gc']) sg.
  Proof.
    destruct mk_head_ok as (M1 & EH & St1). rewrite EH. clear EH.
    destruct Hre as (cells & Hcells & Hcl & Hcs).
    assert (Hrest : re_rest fuel m0 cells (Z.to_nat 0) res).
    { intros j Hj. specialize (Hcs j Hj). change (Z.to_nat 0 + j)%nat with j. destruct (nth j res None) as [p|] eqn:Ep; [|exact Hcs].
      destruct Hcs as (bi & X1 & X2 & X3). exists bi. split; [exact X1|]. split; [exact X2|]. split; [exact X3|].
      rewrite Forall_forall in Hpf. apply Hpf. exact (somes_nth _ _ _ Ep). }
    pose proof (pats_total_nonneg res) as Hpt.
    destruct (mk_loop_ok call fuel d mk_call_le m0 ba n flg (cflg_of flg) Hn cells Hcells res [40%N] 2 false [] [] M1 0 fuel Hrest St1 eq_refl eq_refl
                ltac:(lia) ltac:(cbn [length]; lia) ltac:(lia) ltac:(lia) Hfuel) as (mmL & EL & Q).
    pose proof (cbuild_facts res [40%N] 2 false) as Fc.
    destruct (cbuild res [40%N] 2 false) as [[[[sb' g] sg] gc'] bad'] eqn:Ecb. cbn [snd] in *. cbn [app] in Q.
    destruct Fc as (Lg & Lsg & Hgc & Lsb1 & Lsb2). cbn [length] in Lsb1, Lsb2.
    unfold mk_from_loop; cbn [fn_body cf_rset_make]. xs.
    unfold mk_loop, mk_locals in EL; cbn [fn_body cf_rset_make b2z] in EL. rewrite EL. clear EL. xs.
    (* rs->grp[n] = rs->grpcnt *)
    pose proof Q as (_ & A & B & _).
    destruct (ld5 _ _ _ _ _ _ _ A) as (_ & _ & LA2 & _ & LA4). rewrite LA2. xs. rewrite LA4. xs.
    rewrite !(CLiteProps.wrap_I32_id gc') by lia.
    replace (S (Z.to_nat n) - length g)%nat with 1%nat in B by lia.
    rewrite (store_ok mmL _ _ (0 + 1 * n) _ B) by (rewrite app_length, map_length, repeat_length; lia). xs.
    replace (Z.to_nat (0 + 1 * n)) with (length g) by lia. rewrite (upd_fill g 0 gc').
    set (mm2 := upd mmL _ _).
    assert (St2 : mk_st m0 n mm2 (zb sb') gc' (g ++ [gc']) sg).
    { apply (mk_st_grp m0 n mmL (zb sb') gc' g sg _ _ Q). rewrite app_length. cbn [length]. do 2 f_equal. lia. }
    (* sbuf_chr(sb, ')') *)
    pose proof St2 as (I2 & _).
    destruct (mk_chr m0 mm2 (zb sb') 41 (S d) fuel I2 ltac:(lia) ltac:(rewrite zb_length; lia)) as (M2 & E2 & I3 & K3).
    rewrite (mk_call_le _ _ _ _ E2). xs.
    exists M2. split.
    - unfold mk_branch, mk_from_loop, mk_locals; cbn [fn_body cf_rset_make]. xs. reflexivity.
    - rewrite zb_app. exact (mk_st_keep m0 n _ _ _ _ _ _ _ St2 I3 K3).
  Qed.

  Lemma mk_branch_eq : mk_branch =
    SSeq (SIf (EOrElse (ELocal 7) (ECall X_regcomp [ELocal 3; ECall F_sbuf_buf [ELocal 4]; ELocal 5])) mk_reject SSkip)
         (SSeq (SExpr (ECall F_sbuf_free [ELocal 4])) (SReturn (Some (ELocal 3)))).
  Proof. reflexivity. Qed.

  Lemma rep_same (m m' : mem) p cs sz : sbuf_rep m p cs sz -> nth_error m' p = nth_error m p ->
    (forall b, sbuf_datab m p = Some b -> nth_error m' b = nth_error m b) -> sbuf_rep m' p cs sz /\ sbuf_datab m' p = sbuf_datab m p.
  Proof.
    intros R Hp Hd. split; [|unfold sbuf_datab; rewrite Hp; reflexivity].
    destruct R as [(-> & -> & H)|(b & rest & Hb & H1 & H2 & H3)].
    - left. split; [reflexivity|]. split; [reflexivity|]. rewrite Hp. exact H.
    - right. exists b, rest. split; [exact Hb|]. rewrite Hp. split; [exact H1|]. rewrite (Hd b) by (eapply datab_of; exact H1). auto.
  Qed.

  (* a pattern that is not self-contained (re_groupcount == -1): rset_make returns NULL WITHOUT calling regcomp (the theorem holds for
     every oracle), and grp[], setgrpcnt[], the struct and the sbuf (struct and data block) are freed; the blocks of the caller are untouched *)
  Theorem tr_rset_make_bad : any_bad res = true ->
    exists m' bd, callx ext cprog fuel (S (S (S (S d)))) F_rset_make [VInt n; VPtr ba 0; VInt flg] m0 = Ok (VInt 0, m') /\
      nth_error m' rsb = Some [] /\ nth_error m' gb = Some [] /\ nth_error m' sgb = Some [] /\ nth_error m' psb = Some [] /\
      (length m0 + 4 <= bd)%nat /\ nth_error m' bd = Some [] /\
      forall b', (b' < length m0)%nat -> nth_error m' b' = nth_error m0 b'.
  Proof.
    intro Hbad. destruct mk_common_ok as (M2 & EC & Q).
    pose proof (cbuild_bad res [40%N] 2 false) as Hb. rewrite Hbad in Hb. cbn [orb] in Hb.
    destruct (cbuild res [40%N] 2 false) as [[[[sb' g] sg] gc'] bad'] eqn:Ecb. cbn [snd] in *. subst bad'.
    enterx F_rset_make cf_rset_make. cbn [fn_body cf_rset_make] in EC. rewrite EC. clear EC. rewrite mk_branch_eq. unfold mk_locals. cbn [b2z]. xs.
    destruct Q as ((sz & R & Hsm & Hd & Hl) & A & B & C & F).
    assert (Hg : length g = length res) by (pose proof (cbuild_facts res [40%N] 2 false) as X; rewrite Ecb in X; tauto).
    assert (Hsg : length sg = length res) by (pose proof (cbuild_facts res [40%N] 2 false) as X; rewrite Ecb in X; tauto).
    destruct (mk_reject_ok fuel M2 (VInt n) (VPtr ba 0) (VInt flg) (VInt (cflg_of flg)) (VInt n) (VInt 1) (VInt 0) gc' _ _ _ sz A B
                ltac:(destruct g; discriminate) C ltac:(rewrite <- Hlen, <- Hsg; replace (S (Z.to_nat (Z.of_nat (length sg))) - length sg)%nat with 1%nat by lia;
                                                          intro E; apply app_eq_nil in E; destruct E; discriminate) R Hd)
      as (st' & ER & F1 & F2 & F3 & F4 & F5 & F6).
    unfold rsb, psb in ER. rewrite ER. xs.
    assert (Hdat : exists bd, sbuf_datab M2 (S (length m0)) = Some bd).
    { destruct R as [(_ & E & _)|(b & rest & _ & H1 & _)]; [unfold zb in E; apply map_eq_nil in E; apply app_eq_nil in E; destruct E; discriminate|].
      exists b. eapply datab_of. exact H1. }
    destruct Hdat as (bd & Hbd). rewrite Hbd in Hd.
    exists (memm st'), bd. split; [reflexivity|]. split; [exact F1|]. split; [exact F2|]. split; [exact F3|]. split; [exact F4|].
    split; [exact Hd|]. split; [apply F5; exact Hbd|].
    intros b' Hb'. rewrite F6; [apply F; exact Hb'| | | | |]; unfold rsb, gb, sgb, psb; try lia. rewrite Hbd. intro E. injection E as E. lia.
  Qed.

  (* no pattern is bad: the wrapper string, the tables and the flags handed to regcomp are the model's; then regcomp decides *)
  Theorem tr_rset_make_ok : any_bad res = false ->
    let '(sbm, g, sg, gc) := rset_build res [40%N] 2 in
    exists M bd rest,
      nth_error M bd = Some (map VInt (zb (sbm ++ [41%N])) ++ VInt 0 :: rest) /\ (length m0 + 4 <= bd)%nat /\
      nth_error M rsb = Some [VInt 0; VInt n; VPtr gb 0; VPtr sgb 0; VInt (Z.of_nat gc)] /\
      nth_error M gb = Some (map VInt (g ++ [Z.of_nat gc])) /\
      nth_error M sgb = Some (map VInt (map Z.of_nat sg) ++ [VUndef]) /\
      (forall b', (b' < length m0)%nat -> nth_error M b' = nth_error m0 b') /\
      forall r M', ext X_regcomp [VPtr rsb 0; VPtr bd 0; VInt (cflg_of flg)] M = Ok (VInt r, M') ->
        nth_error M' gb = nth_error M gb -> nth_error M' sgb = nth_error M sgb -> nth_error M' psb = nth_error M psb ->
        nth_error M' bd = nth_error M bd ->
        (exists c0, nth_error M' rsb = Some [c0; VInt n; VPtr gb 0; VPtr sgb 0; VInt (Z.of_nat gc)]) ->
        exists m', callx ext cprog fuel (S (S (S (S d)))) F_rset_make [VInt n; VPtr ba 0; VInt flg] m0
                   = Ok ((if r =? 0 then VPtr rsb 0 else VInt 0), m') /\
          nth_error m' psb = Some [] /\ nth_error m' bd = Some [] /\
          if r =? 0 then forall b', b' <> psb -> b' <> bd -> nth_error m' b' = nth_error M' b'
          else nth_error m' rsb = Some [] /\ nth_error m' gb = Some [] /\ nth_error m' sgb = Some [] /\
               forall b', b' <> rsb -> b' <> gb -> b' <> sgb -> b' <> psb -> b' <> bd -> nth_error m' b' = nth_error M' b'.
  Proof.
    intro Hbad. pose proof (cbuild_model res [40%N] 2%nat Hbad) as Hcm.
    destruct (rset_build res [40%N] 2) as [[[sbm g] sg] gc]. change (Z.of_nat 2) with 2 in Hcm.
    destruct mk_common_ok as (M2 & EC & Q). rewrite Hcm in EC, Q. cbn [snd] in EC.
    pose proof (cbuild_facts res [40%N] 2 false) as Fc. rewrite Hcm in Fc. destruct Fc as (Lg & Lsg & _ & Lsb & _). rewrite map_length in Lsg.
    pose proof Q as (I & A & B & C & F).
    destruct (mk_buf m0 M2 _ (S d) fuel I ltac:(rewrite zb_length, app_length; cbn [length]; lia)) as (bd & mmB & rest & sz' & EB & HB & RB & DB & LB & (KL & KB)).
    exists mmB, bd, rest. unfold rsb, psb, gb, sgb in *.
    assert (B' : nth_error M2 (length m0 + 2) = Some (map VInt (g ++ [Z.of_nat gc]))).
    { rewrite B. rewrite app_length. cbn [length]. replace (S (Z.to_nat n) - (length g + 1))%nat with 0%nat by lia. cbn [repeat]. rewrite app_nil_r. reflexivity. }
    assert (C' : nth_error M2 (length m0 + 3) = Some (map VInt (map Z.of_nat sg) ++ [VUndef])).
    { rewrite C. rewrite map_length. replace (S (Z.to_nat n) - length sg)%nat with 1%nat by lia. reflexivity. }
    split; [exact HB|]. split; [exact LB|]. split; [rewrite KB by lia; exact A|]. split; [rewrite KB by lia; exact B'|].
    split; [rewrite KB by lia; exact C'|]. split; [intros b' Hb'; rewrite KB by lia; apply F; exact Hb'|].
    intros r M' Hx Eg Es Ep Ed (c0 & Er).
    rewrite KB in Eg, Es by lia. rewrite B' in Eg. rewrite C' in Es.
    destruct (rep_same mmB M' (S (length m0)) _ sz' RB Ep) as (RM & DM).
    { intros b Hb. rewrite DB in Hb. injection Hb as <-. exact Ed. }
    rewrite DB in DM.
    enterx F_rset_make cf_rset_make. cbn [fn_body cf_rset_make] in EC. rewrite EC. clear EC. rewrite mk_branch_eq. unfold mk_locals. cbn [b2z]. xs.
    rewrite (mk_call_le _ _ _ _ EB). xs. rewrite callx_S, x_regcomp_none, Hx. xs.
    destruct (Z.eqb_spec r 0) as [->|Hr].
    - (* accepted *)
      xs. destruct (tr_sbuf_free M' (S (length m0)) _ sz' (S (S d)) fuel RM) as (m4 & E4 & F1 & F2 & F3 & F4).
      rewrite (mk_call_le _ _ _ _ E4). xs. exists m4. split; [reflexivity|]. split; [exact F1|]. split; [apply F2; exact DM|].
      intros b' N1 N2. apply F4; [exact N1|]. rewrite DM. congruence.
    - (* rejected by regcomp *)
      replace (r =? 0) with false by (symmetry; apply Z.eqb_neq; exact Hr). cbn [negb]. xs.
      destruct (mk_reject_ok fuel M' (VInt n) (VPtr ba 0) (VInt flg) (VInt (cflg_of flg)) (VInt n) (VInt 0) c0 (Z.of_nat gc) _ _ _ sz' Er Eg
                  ltac:(destruct g; discriminate) Es ltac:(intro E; apply app_eq_nil in E; destruct E; discriminate) RM ltac:(unfold psb; rewrite DM; exact LB))
        as (st' & ER & F1 & F2 & F3 & F4 & F5 & F6).
      unfold rsb, psb in ER. rewrite ER. xs. exists (memm st'). split; [reflexivity|]. split; [exact F4|]. split; [apply F5; exact DM|].
      split; [exact F1|]. split; [exact F2|]. split; [exact F3|]. intros b' N1 N2 N3 N4 N5. apply F6; try assumption. unfold psb. rewrite DM. congruence.
  Qed.
End MkMain.
Print Assumptions tr_rset_make_bad.
Print Assumptions tr_rset_make_ok.

(* ------------------------------------------------------------------ against RsetDefs.rset_make *)
(* For every set the MODEL's rset_make accepts (so: no bad pattern, and the model's regcomp accepts the wrapper): at the call of the regcomp
   oracle the memory holds the wrapper string RsetDefs.rset_pattern res (NUL-terminated inside its block), the struct with n and grpcnt,
   grp[] = rs_grp rs (n + 1 ints, grp[n] = grpcnt) and setgrpcnt[] = rs_setgrpcnt rs -- the tables C10_rset_index_all speaks about --
   and the flags are REG_EXTENDED | rs_cflg rs; whatever the oracle answers (it must leave the tables, the sbuf and cells 1..4 of the
   struct alone): 0 -> the struct is returned and the sbuf freed; non-zero -> NULL and everything freed. *)
Theorem tr_rset_make_model ext fuel d (m0 : mem) ba n flg res rs :
  0 <= n < 2147483647 -> re_at m0 ba res -> Forall (fun p => (length p < fuel)%nat) (somes res) -> Z.of_nat (length res) = n ->
  pats_total res + 4 < MK_BOUND -> (length res < fuel)%nat -> rset_make res flg = ReSyntax.Ok (Some rs) ->
  let rsb := length m0 in let psb := S (length m0) in let gb := (length m0 + 2)%nat in let sgb := (length m0 + 3)%nat in
  exists M bd rest,
    nth_error M bd = Some (map VInt (zb (rset_pattern res)) ++ VInt 0 :: rest) /\ (length m0 + 4 <= bd)%nat /\
    nth_error M rsb = Some [VInt 0; VInt (Z.of_nat (rs_n rs)); VPtr gb 0; VPtr sgb 0; VInt (Z.of_nat (rs_grpcnt rs))] /\
    nth_error M gb = Some (map VInt (rs_grp rs)) /\
    nth_error M sgb = Some (map VInt (map Z.of_nat (rs_setgrpcnt rs)) ++ [VUndef]) /\
    cflg_of flg = Z.lor 1 (rs_cflg rs) /\
    (forall b', (b' < length m0)%nat -> nth_error M b' = nth_error m0 b') /\
    forall r M', ext X_regcomp [VPtr rsb 0; VPtr bd 0; VInt (cflg_of flg)] M = Ok (VInt r, M') ->
      nth_error M' gb = nth_error M gb -> nth_error M' sgb = nth_error M sgb -> nth_error M' psb = nth_error M psb ->
      nth_error M' bd = nth_error M bd ->
      (exists c0, nth_error M' rsb = Some [c0; VInt n; VPtr gb 0; VPtr sgb 0; VInt (Z.of_nat (rs_grpcnt rs))]) ->
      exists m', callx ext cprog fuel (S (S (S (S d)))) F_rset_make [VInt n; VPtr ba 0; VInt flg] m0
                 = Ok ((if r =? 0 then VPtr rsb 0 else VInt 0), m') /\
        nth_error m' psb = Some [] /\ nth_error m' bd = Some [] /\
        if r =? 0 then forall b', b' <> psb -> b' <> bd -> nth_error m' b' = nth_error M' b'
        else nth_error m' rsb = Some [] /\ nth_error m' gb = Some [] /\ nth_error m' sgb = Some [] /\
             forall b', b' <> rsb -> b' <> gb -> b' <> sgb -> b' <> psb -> b' <> bd -> nth_error m' b' = nth_error M' b'.
Proof.
  intros Hn Hre Hpf Hlen Htot Hfuel Hmk rsb psb gb sgb.
  unfold rset_make in Hmk. unfold rset_pattern.
  destruct (rset_build res [40%N] 2) as [[[sbm g] sg] gc] eqn:Eb.
  destruct (existsb _ (somes res)) eqn:Hbad; [discriminate|]. fold (any_bad res) in Hbad.
  destruct (ReEmit.regcomp (sbm ++ [41%N])) as [[pr|]| |]; try discriminate. cbn [ReSyntax.bind] in Hmk. injection Hmk as <-.
  cbn [rs_n rs_grp rs_setgrpcnt rs_grpcnt rs_cflg].
  pose proof (tr_rset_make_ok ext fuel d m0 ba n flg Hn res Hre Hpf Hlen Htot Hfuel Hbad) as T. rewrite Eb in T.
  destruct T as (M & bd & rest & T1 & T2 & T3 & T4 & T5 & T6 & T7).
  exists M, bd, rest. rewrite Hlen. split; [exact T1|]. split; [exact T2|]. split; [exact T3|]. split; [exact T4|]. split; [exact T5|].
  split; [reflexivity|]. split; [exact T6|exact T7].
Qed.
Print Assumptions tr_rset_make_model.
