(* CLiteSim.v -- a run that returns Ok does not depend on cells appended behind its blocks.

   Every load and store of CLite is bounds-checked (outside its block: Err EOob).  So a run that returns Ok on a
   memory m never looked behind the end of a block, and the same run on a memory m' that is m with extra cells
   appended behind some (non-empty) blocks returns the same value and leaves "the same" memory, the extra cells
   still appended.  X gives, per block index, the cells appended behind that block.

   * mem_sim X m m'     m' is m with X i appended behind every non-empty block i (X i = [] from length m on);
   * callx_sim          the simulation for callx ext prog, for an oracle that itself has the property;
   * callf_sim          the simulation for callf (no builtin, no statement form is excluded);
   * mem_sim_same, mem_sim_one   what users need to start and to read the result. *)
From Coq Require Import List ZArith Bool Lia.
From NV Require Import CLite CLiteProps CLiteExt.
Import ListNotations.
Local Open Scope Z_scope.

Definition ext_blk (x a : block) : block := a ++ match a with [] => [] | _ :: _ => x end.
(* m' is m with X i appended behind every NON-EMPTY block i; X is [] from length m on *)
Definition mem_sim (X : nat -> list val) (m m' : mem) : Prop :=
  length m' = length m /\
  (forall i a, nth_error m i = Some a -> nth_error m' i = Some (ext_blk (X i) a)) /\
  (forall i, (length m <= i)%nat -> X i = []).

(* ---- the extended memory as a function of the short one *)
Fixpoint extm (X : nat -> list val) (m : mem) : mem :=
  match m with [] => [] | a :: r => ext_blk (X O) a :: extm (fun i => X (S i)) r end.

Lemma extm_length X m : length (extm X m) = length m.
Proof. revert X; induction m as [|a r IH]; intro X; cbn [extm length]; [reflexivity|]. rewrite IH. reflexivity. Qed.
Lemma nth_error_extm X m i : nth_error (extm X m) i = option_map (ext_blk (X i)) (nth_error m i).
Proof.
  revert X i; induction m as [|a r IH]; intros X i; cbn [extm]; [destruct i; reflexivity|].
  destruct i as [|i]; [reflexivity|]. cbn [nth_error]. apply (IH (fun i => X (S i))).
Qed.
Lemma ext_blk_nil_l a : ext_blk [] a = a.
Proof. unfold ext_blk. destruct a; apply app_nil_r. Qed.
Lemma ext_blk_nil_r x : ext_blk x [] = [].
Proof. reflexivity. Qed.
Lemma ext_blk_cons x c a : ext_blk x (c :: a) = c :: a ++ x.
Proof. reflexivity. Qed.
Lemma extm_app X m a : extm X (m ++ [a]) = extm X m ++ [ext_blk (X (length m)) a].
Proof.
  revert X; induction m as [|c r IH]; intro X; [reflexivity|]. cbn [app extm length]. rewrite (IH (fun i => X (S i))). reflexivity.
Qed.
Lemma list_ext {A} (l l' : list A) : (forall i, nth_error l i = nth_error l' i) -> l = l'.
Proof.
  revert l'; induction l as [|a r IH]; intros l' H.
  - destruct l' as [|b r']; [reflexivity|]. discriminate (H O).
  - destruct l' as [|b r']; [discriminate (H O)|]. pose proof (H O) as H0. cbn in H0. injection H0 as ->.
    f_equal. apply IH. intro i. exact (H (S i)).
Qed.
Lemma mem_sim_extm X m m' : mem_sim X m m' <-> (m' = extm X m /\ forall i, (length m <= i)%nat -> X i = []).
Proof.
  split.
  - intros (Hl & Hn & Hx). split; [|exact Hx]. apply list_ext. intro i. rewrite nth_error_extm.
    destruct (nth_error m i) as [a|] eqn:E; cbn [option_map]; [exact (Hn _ _ E)|].
    apply nth_error_None. rewrite Hl. apply nth_error_None. exact E.
  - intros (-> & Hx). split; [apply extm_length|]. split; [|exact Hx].
    intros i a E. rewrite nth_error_extm, E. reflexivity.
Qed.

(* ---- cells *)
Lemma set_nth_app {A} (l : list A) n v l' x : set_nth l n v = Some l' -> set_nth (l ++ x) n v = Some (l' ++ x).
Proof.
  revert n l'; induction l as [|a r IH]; intros n l' H; [discriminate H|].
  destruct n as [|n]; cbn [set_nth app] in *; [injection H as <-; reflexivity|].
  destruct (set_nth r n v) as [r'|] eqn:E; [|discriminate H]. injection H as <-. rewrite (IH _ _ E). reflexivity.
Qed.
Lemma set_nth_length {A} (l : list A) n v l' : set_nth l n v = Some l' -> length l' = length l.
Proof.
  revert n l'; induction l as [|a r IH]; intros n l' H; [discriminate H|].
  destruct n as [|n]; cbn [set_nth] in *; [injection H as <-; reflexivity|].
  destruct (set_nth r n v) as [r'|] eqn:E; [|discriminate H]. injection H as <-. cbn [length]. rewrite (IH _ _ E). reflexivity.
Qed.
Lemma set_nth_ext_blk (a : block) n v a' x : set_nth a n v = Some a' -> set_nth (ext_blk x a) n v = Some (ext_blk x a').
Proof.
  intro H. pose proof (set_nth_length _ _ _ _ H) as L.
  destruct a as [|c a]; [discriminate H|]. destruct a' as [|c' a']; [discriminate L|].
  rewrite !ext_blk_cons. exact (set_nth_app (c :: a) n v (c' :: a') x H).
Qed.
Lemma set_nth_extm X (m : mem) b a m1 : set_nth m b a = Some m1 -> set_nth (extm X m) b (ext_blk (X b) a) = Some (extm X m1).
Proof.
  revert X b m1; induction m as [|c r IH]; intros X b m1 H; [discriminate H|].
  destruct b as [|b]; cbn [set_nth extm] in *; [injection H as <-; reflexivity|].
  destruct (set_nth r b a) as [r'|] eqn:E; [|discriminate H]. injection H as <-.
  rewrite (IH (fun i => X (S i)) _ _ E). reflexivity.
Qed.
Lemma nth_error_ext_blk (a : block) n v x : nth_error a n = Some v -> nth_error (ext_blk x a) n = Some v.
Proof. intro H. unfold ext_blk. rewrite nth_error_app1; [exact H|]. apply nth_error_Some. congruence. Qed.

Lemma load_ext X m b o v : load m b o = Ok v -> load (extm X m) b o = Ok v.
Proof.
  unfold load. rewrite nth_error_extm. destruct (nth_error m b) as [blk|]; cbn [option_map]; [|discriminate].
  destruct (o <? 0); [discriminate|]. destruct (nth_error blk (Z.to_nat o)) as [c|] eqn:E; [|discriminate].
  rewrite (nth_error_ext_blk _ _ _ _ E). auto.
Qed.
Lemma store_ext X m b o v m1 : store m b o v = Ok m1 -> store (extm X m) b o v = Ok (extm X m1) /\ length m1 = length m.
Proof.
  unfold store. rewrite nth_error_extm. destruct (nth_error m b) as [blk|]; cbn [option_map]; [|discriminate].
  destruct (o <? 0); [discriminate|]. destruct (set_nth blk (Z.to_nat o) v) as [blk'|] eqn:E; [|discriminate].
  destruct (set_nth m b blk') as [m2|] eqn:E2; [|discriminate]. intro H; injection H as <-.
  rewrite (set_nth_ext_blk _ _ _ _ _ E), (set_nth_extm _ _ _ _ _ E2). split; [reflexivity|]. exact (set_nth_length _ _ _ _ E2).
Qed.
Lemma blk_from_ext X m b o l : blk_from m b o = Ok l -> exists x, blk_from (extm X m) b o = Ok (l ++ x).
Proof.
  unfold blk_from. rewrite nth_error_extm. destruct (nth_error m b) as [blk|]; cbn [option_map]; [|discriminate].
  unfold ext_blk. set (t := match blk with [] => [] | _ :: _ => X b end).
  destruct (Z.ltb_spec o 0); cbn [orb]; [discriminate|].
  destruct (Z.ltb_spec (Z.of_nat (length blk)) o); [discriminate|]. intro HH; injection HH as <-.
  exists t. rewrite app_length. destruct (Z.ltb_spec (Z.of_nat (length blk + length t)) o); [lia|].
  rewrite skipn_app. replace (Z.to_nat o - length blk)%nat with O by lia. reflexivity.
Qed.

Lemma scan0_app l x : forall n r, scan0 l n = Ok r -> scan0 (l ++ x) n = Ok r.
Proof.
  induction l as [|a l IH]; intros n r H; [discriminate H|]. cbn [scan0 app] in *.
  destruct a as [|z|]; try discriminate H. destruct z; auto.
Qed.
Lemma scan0_lt l : forall k n, scan0 l k = Ok n -> (k <= n < k + length l)%nat.
Proof.
  induction l as [|a l IH]; intros k n H; [discriminate H|]. cbn [scan0 length] in *.
  destruct a as [|z|]; try discriminate H. destruct z; [injection H as <-; lia|apply IH in H; lia|apply IH in H; lia].
Qed.
Lemma scanc_app l x c : forall n r, scanc l c n = Ok r -> scanc (l ++ x) c n = Ok r.
Proof.
  induction l as [|a l IH]; intros n r H; [discriminate H|]. cbn [scanc app] in *.
  destruct a as [|z|]; try discriminate H. destruct (wrap I8 z =? c); [exact H|]. destruct (z =? 0); auto.
Qed.
Lemma scanlast_app l x c : forall n last r, scanlast l c n last = Ok r -> scanlast (l ++ x) c n last = Ok r.
Proof.
  induction l as [|a l IH]; intros n last r H; [discriminate H|]. cbn [scanlast app] in *.
  destruct a as [|z|]; try discriminate H. destruct (z =? 0); auto.
Qed.
Lemma atoi_digits_app l x : forall acc r, atoi_digits l acc = Ok r -> atoi_digits (l ++ x) acc = Ok r.
Proof.
  induction l as [|a l IH]; intros acc r H; [discriminate H|]. cbn [atoi_digits app] in *.
  destruct a as [|z|]; try discriminate H. destruct (ct_isdigit (wrap U8 z)); auto.
Qed.
Lemma atoi_cells_app l x : forall r, atoi_cells l = Ok r -> atoi_cells (l ++ x) = Ok r.
Proof.
  induction l as [|a l IH]; intros r H; [discriminate H|]. cbn [atoi_cells app] in *.
  destruct a as [|z|]; try discriminate H. destruct (ct_isspace (wrap U8 z)); [auto|].
  destruct (wrap U8 z =? 45).
  { destruct (atoi_digits l 0) as [v|] eqn:E; [|discriminate H]. rewrite (atoi_digits_app _ x _ _ E). exact H. }
  destruct (wrap U8 z =? 43); [apply atoi_digits_app; exact H|].
  exact (atoi_digits_app (VInt z :: l) x _ _ H).
Qed.
Lemma cmp_cells_O a b : cmp_cells a b 0 = Ok 0.
Proof. destruct a; reflexivity. Qed.
Lemma cmp_cells_S a b k : cmp_cells a b (S k) =
  match a, b with
  | VInt x :: a', VInt y :: b' =>
      let x' := wrap U8 x in let y' := wrap U8 y in
      if x' <? y' then Ok (-1) else if y' <? x' then Ok 1 else if x' =? 0 then Ok 0 else cmp_cells a' b' k
  | [], _ | _, [] => Err EOob
  | VUndef :: _, _ | _, VUndef :: _ => Err EUndef
  | _, _ => Err EType
  end.
Proof. destruct a; reflexivity. Qed.
Lemma cmp_cells_app n : forall a b r x y, cmp_cells a b n = Ok r -> cmp_cells (a ++ x) (b ++ y) n = Ok r.
Proof.
  induction n as [|n IH]; intros a b r x y H; [rewrite cmp_cells_O in *; exact H|]. rewrite cmp_cells_S in *.
  destruct a as [|[|xa|] a]; try discriminate H; destruct b as [|[|yb|] b]; try discriminate H. cbn [app]. cbv zeta in *.
  destruct (wrap U8 xa <? wrap U8 yb); [exact H|]. destruct (wrap U8 yb <? wrap U8 xa); [exact H|].
  destruct (wrap U8 xa =? 0); auto.
Qed.
Lemma cmp_cells_app_fuel n : forall a b r, cmp_cells a b n = Ok r -> (length a < n)%nat ->
  forall x y n', (n <= n')%nat -> cmp_cells (a ++ x) (b ++ y) n' = Ok r.
Proof.
  induction n as [|n IH]; intros a b r H L x y n' Hn; [lia|]. destruct n' as [|n']; [lia|]. rewrite cmp_cells_S in *.
  destruct a as [|[|xa|] a]; try discriminate H; destruct b as [|[|yb|] b]; try discriminate H. cbn [app]. cbv zeta in *.
  destruct (wrap U8 xa <? wrap U8 yb); [exact H|]. destruct (wrap U8 yb <? wrap U8 xa); [exact H|].
  destruct (wrap U8 xa =? 0); [exact H|]. cbn [length] in L. apply IH; [exact H|lia|lia].
Qed.
Lemma read_cells_ext (blk : block) x n : forall o vs, read_cells blk o n = Ok vs -> read_cells (ext_blk x blk) o n = Ok vs.
Proof.
  induction n as [|n IH]; intros o vs H; [exact H|]. cbn [read_cells] in *.
  destruct (nth_error blk o) as [v|] eqn:E; [|discriminate H]. rewrite (nth_error_ext_blk _ _ _ _ E).
  destruct (read_cells blk (S o) n) as [r|] eqn:E2; [|discriminate H]. rewrite (IH _ _ E2). exact H.
Qed.
Lemma write_cells_ext X b vs : forall m o m1, write_cells m b o vs = Ok m1 ->
  write_cells (extm X m) b o vs = Ok (extm X m1) /\ length m1 = length m.
Proof.
  induction vs as [|v r IH]; intros m o m1 H; cbn [write_cells] in *; [injection H as <-; auto|].
  destruct (store m b o v) as [m2|] eqn:E; [|discriminate H]. cbn [bind] in *.
  destruct (store_ext X _ _ _ _ _ E) as [E' L]. rewrite E'. cbn [bind]. destruct (IH _ _ _ H) as [H' L']. split; [exact H'|congruence].
Qed.

Section Sim.
  Variable X : nat -> list val.

  (* no cells are appended behind blocks that do not exist yet (malloc appends the same block to both memories) *)
  Definition wfm (m : mem) : Prop := forall i, (length m <= i)%nat -> X i = [].
  Lemma wfm_le m m1 : wfm m -> (length m <= length m1)%nat -> wfm m1.
  Proof. intros W L i Hi. apply W. lia. Qed.
  Definition extst (st : state) : state := mkst (locals st) (extm X (memm st)).
  Lemma memm_extst st : memm (extst st) = extm X (memm st).
  Proof. reflexivity. Qed.
  Lemma locals_extst st : locals (extst st) = locals st.
  Proof. reflexivity. Qed.

  Ltac bf H :=
    match type of H with
    | bind (blk_from ?m ?b ?o) _ = _ =>
        let l := fresh "l" in let E := fresh "E" in let x := fresh "x" in let E' := fresh "E" in
        destruct (blk_from m b o) as [l|] eqn:E; [|discriminate H];
        destruct (blk_from_ext X _ _ _ _ E) as [x E']; rewrite E'; clear E'; cbn [bind] in H |- *
    end.

  Ltac wc H :=
    match type of H with
    | bind (write_cells ?m ?b ?o ?vs) _ = _ =>
        let m2 := fresh "m" in let E := fresh "E" in let L := fresh "L" in let E' := fresh "E" in
        destruct (write_cells m b o vs) as [m2|] eqn:E; [|discriminate H];
        destruct (write_cells_ext X _ _ _ _ _ E) as [E' L]; rewrite E'; cbn [bind] in H |- *;
        injection H as <- <-; split; [reflexivity|match goal with W : wfm ?m |- _ => apply (wfm_le _ _ W); lia end]
    end.

  Lemma do_builtin_ext f args m v : do_builtin f args m = Ok v -> do_builtin f args (extm X m) = Ok v.
  Proof.
    intro H. unfold do_builtin in *.
    destruct f;
      repeat match type of H with
             | match ?x with _ => _ end = _ => is_var x; destruct x; try discriminate H
             end; try exact H.
    - (* strlen *) bf H. destruct (scan0 l 0) as [n|] eqn:E2; [|discriminate H]. rewrite (scan0_app _ _ _ _ E2). exact H.
    - (* strchr *) bf H. destruct (scanc l _ 0) as [n|] eqn:E2; [|discriminate H]. rewrite (scanc_app _ _ _ _ _ E2). exact H.
    - (* strcmp *) bf H. bf H. destruct (cmp_cells l l0 _) as [r|] eqn:E2; [|discriminate H].
      rewrite (cmp_cells_app_fuel _ _ _ _ E2); [exact H|lia|]. rewrite !app_length. lia.
    - (* strncmp *) destruct (z <? 0); [discriminate H|]. bf H. bf H.
      destruct (cmp_cells l l0 _) as [r|] eqn:E2; [|discriminate H]. rewrite (cmp_cells_app _ _ _ _ _ _ E2). exact H.
    - (* strrchr *) bf H. destruct (scanlast l _ 0 None) as [n|] eqn:E2; [|discriminate H]. rewrite (scanlast_app _ _ _ _ _ _ E2). exact H.
    - (* atoi *) bf H. destruct (atoi_cells l) as [n|] eqn:E2; [|discriminate H]. rewrite (atoi_cells_app _ _ _ E2). exact H.
  Qed.

  Lemma do_builtin_m_ext f args m v m1 : do_builtin_m f args m = Ok (v, m1) -> wfm m ->
    do_builtin_m f args (extm X m) = Ok (v, extm X m1) /\ wfm m1.
  Proof.
    intros H W. unfold do_builtin_m in *.
    destruct f;
      repeat match type of H with
             | match ?x with _ => _ end = _ => is_var x; destruct x; try discriminate H
             end.
    all: try (match type of H with bind (do_builtin ?f ?a ?mm) _ = _ =>
                let E := fresh "E" in
                destruct (do_builtin f a mm) as [v0|] eqn:E; [|discriminate H]; rewrite (do_builtin_ext _ _ _ _ E);
                cbn [bind] in *; injection H as <- <-; split; [reflexivity|exact W] end).
    - (* malloc *) destruct (z <? 0); [discriminate H|]. injection H as <- <-.
      rewrite extm_length, extm_app, (W (length m) (le_n _)). rewrite ext_blk_nil_l. split; [reflexivity|].
      apply (wfm_le _ _ W). rewrite app_length. lia.
    - (* free NULL *) injection H as <- <-. split; [reflexivity|exact W].
    - (* free *) rewrite nth_error_extm. destruct (nth_error m b) as [[|c blk]|]; try discriminate H. cbn [option_map]. rewrite ext_blk_cons.
      destruct (set_nth m b []) as [m2|] eqn:E; [|discriminate H]. injection H as <- <-.
      pose proof (set_nth_extm X _ _ _ _ E) as E'. rewrite ext_blk_nil_r in E'. rewrite E'. split; [reflexivity|].
      apply (wfm_le _ _ W). rewrite (set_nth_length _ _ _ _ E). lia.
    - (* memcpy *) destruct ((z <? 0) || (o0 <? 0)); [discriminate H|]. rewrite nth_error_extm.
      destruct (nth_error m b0) as [blk|]; [|discriminate H]. cbn [option_map].
      destruct (read_cells blk _ _) as [vs|] eqn:E; [|discriminate H]. rewrite (read_cells_ext _ _ _ _ _ E). cbn [bind] in *. wc H.
    - (* memmove *) destruct ((z <? 0) || (o0 <? 0)); [discriminate H|]. rewrite nth_error_extm.
      destruct (nth_error m b0) as [blk|]; [|discriminate H]. cbn [option_map].
      destruct (read_cells blk _ _) as [vs|] eqn:E; [|discriminate H]. rewrite (read_cells_ext _ _ _ _ _ E). cbn [bind] in *. wc H.
    - (* memset *) destruct (z0 <? 0); [discriminate H|]. wc H.
    - (* strcpy *) bf H. destruct (scan0 l 0) as [n|] eqn:E2; [|discriminate H]. rewrite (scan0_app _ _ _ _ E2). cbn [bind] in *.
      apply scan0_lt in E2. rewrite firstn_app. replace (S n - length l)%nat with O by lia. rewrite firstn_O, app_nil_r. wc H.
    - (* strcat *) bf H. destruct (scan0 l 0) as [k|] eqn:E1; [|discriminate H]. rewrite (scan0_app _ _ _ _ E1). cbn [bind] in *.
      bf H. destruct (scan0 l0 0) as [n|] eqn:E2; [|discriminate H]. rewrite (scan0_app _ _ _ _ E2). cbn [bind] in *.
      apply scan0_lt in E2. rewrite firstn_app. replace (S n - length l0)%nat with O by lia. rewrite firstn_O, app_nil_r. wc H.
    - (* memset on integers *) destruct (z0 <? 0); [discriminate H|]. wc H.
  Qed.

  Lemma set_local_ext st x v s1 : set_local st x v = Ok s1 -> set_local (extst st) x v = Ok (extst s1) /\ memm s1 = memm st.
  Proof.
    unfold set_local. rewrite locals_extst. destruct (set_nth (locals st) x v) as [l|]; [|discriminate].
    intro H; injection H as <-. split; reflexivity.
  Qed.
  Lemma get_local_ext st x : get_local (extst st) x = get_local st x.
  Proof. reflexivity. Qed.

  Definition call_sim (c1 c2 : nat -> list val -> mem -> res (val * mem)) : Prop :=
    forall f a m r m1, c1 f a m = Ok (r, m1) -> wfm m -> c2 f a (extm X m) = Ok (r, extm X m1) /\ wfm m1.

  Section Eval.
  Variables c1 c2 : nat -> list val -> mem -> res (val * mem).
  Hypothesis Hc : call_sim c1 c2.

  Ltac fin H :=
    injection H as <- <-; split;
    [reflexivity|first [assumption|match goal with L : memm _ = memm _ |- _ => rewrite L; assumption end|cbn [memm]; match goal with W : wfm ?m |- _ => apply (wfm_le _ _ W); lia end]].

  Ltac sim IH :=
    repeat (cbn [bind] in *; rewrite ?memm_extst, ?locals_extst, ?get_local_ext;
      match goal with
      | H : Err _ = Ok _ |- _ => discriminate H
      | H : context [eval c1 ?a ?s], W : wfm (memm ?s) |- context [eval c2 ?a (extst ?s)] =>
          let E := fresh "E" in let E' := fresh "E" in let W' := fresh "W" in
          destruct (eval c1 a s) as [[? ?]|?] eqn:E; [destruct (IH a _ _ _ E W) as [E' W']; rewrite E'; clear E'|discriminate H]
      | H : context [load (memm ?s) ?b ?o] |- context [load (extm X (memm ?s)) ?b ?o] =>
          let E := fresh "E" in
          destruct (load (memm s) b o) eqn:E; [rewrite (load_ext X _ _ _ _ E)|discriminate H]
      | H : context [store (memm ?s) ?b ?o ?w] |- context [store (extm X (memm ?s)) ?b ?o ?w] =>
          let E := fresh "E" in let E' := fresh "E" in let L := fresh "L" in
          destruct (store (memm s) b o w) eqn:E; [destruct (store_ext X _ _ _ _ _ E) as [E' L]; rewrite E'; clear E'|discriminate H]
      | H : context [set_local ?s ?x ?w] |- context [set_local (extst ?s) ?x ?w] =>
          let E := fresh "E" in let E' := fresh "E" in let L := fresh "L" in
          destruct (set_local s x w) eqn:E; [destruct (set_local_ext _ _ _ _ E) as [E' L]; rewrite E'; clear E'|discriminate H]
      | H : bind ?x _ = Ok _ |- _ => destruct x eqn:?
      | H : (if ?x then _ else _) = Ok _ |- _ => destruct x eqn:?
      | H : match ?x with _ => _ end = Ok _ |- _ => destruct x eqn:?
      end).

  Fixpoint eval_sim (e : expr) : forall st v st1, eval c1 e st = Ok (v, st1) -> wfm (memm st) ->
    eval c2 e (extst st) = Ok (v, extst st1) /\ wfm (memm st1).
  Proof.
    destruct e; intros st v st1 H W; cbn [eval] in H |- *.
    - fin H.
    - sim eval_sim. fin H.
    - fin H.
    - sim eval_sim; fin H.
    - sim eval_sim; fin H.
    - sim eval_sim; fin H.
    - sim eval_sim; fin H.
    - sim eval_sim; fin H.
    - sim eval_sim; fin H.
    - sim eval_sim; fin H.
    - sim eval_sim; fin H.
    - (* ECond *)
      destruct (eval c1 e1 st) as [[v0 s]|?] eqn:E; [|discriminate H]. destruct (eval_sim e1 _ _ _ E W) as [E' W']. rewrite E'. cbn [bind] in *.
      destruct (truth v0) as [[|]|?]; cbn [bind] in *; [exact (eval_sim e2 _ _ _ H W')|exact (eval_sim e3 _ _ _ H W')|discriminate H].
    - (* EAndAlso *)
      destruct (eval c1 e1 st) as [[v0 s]|?] eqn:E; [|discriminate H]. destruct (eval_sim e1 _ _ _ E W) as [E' W']. rewrite E'. cbn [bind] in *.
      destruct (truth v0) as [[|]|?]; cbn [bind] in *; [|fin H|discriminate H]. sim eval_sim; fin H.
    - (* EOrElse *)
      destruct (eval c1 e1 st) as [[v0 s]|?] eqn:E; [|discriminate H]. destruct (eval_sim e1 _ _ _ E W) as [E' W']. rewrite E'. cbn [bind] in *.
      destruct (truth v0) as [[|]|?]; cbn [bind] in *; [fin H| |discriminate H]. sim eval_sim; fin H.
    - sim eval_sim; fin H.
    - sim eval_sim; fin H.
    - sim eval_sim; fin H.
    - (* ECall *)
      match type of H with bind (?ev args st) _ = _ => set (ev1 := ev) in * end.
      match goal with |- bind (?ev args (extst st)) _ = _ /\ _ => set (ev2 := ev) in * end.
      assert (Hl : forall st vs s1, ev1 args st = Ok (vs, s1) -> wfm (memm st) -> ev2 args (extst st) = Ok (vs, extst s1) /\ wfm (memm s1)).
      { clear H W. induction args as [|a l IHl]; intros st0 vs0 s0 H0 W0; cbn in H0 |- *; [fin H0|].
        destruct (eval c1 a st0) as [[v0 s]|?] eqn:E; [|discriminate H0]. destruct (eval_sim a _ _ _ E W0) as [E' W']. rewrite E'. cbn [bind] in *.
        fold ev1 in H0. fold ev2. destruct (ev1 l s) as [[vs s2]|?] eqn:E2; [|discriminate H0].
        destruct (IHl _ _ _ E2 W') as [E2' W2]. rewrite E2'. cbn [bind] in *. fin H0. }
      destruct (ev1 args st) as [[vs s]|?] eqn:E; [|discriminate H]. destruct (Hl _ _ _ E W) as [E' W']. rewrite E'. cbn [bind] in *.
      rewrite memm_extst, locals_extst.
      destruct (c1 f vs (memm s)) as [[v0 m']|?] eqn:E2; [|discriminate H]. destruct (Hc _ _ _ _ _ E2 W') as [E2' W2]. rewrite E2'. cbn [bind] in *. fin H.
    - (* EBuiltin *)
      match type of H with bind (?ev args st) _ = _ => set (ev1 := ev) in * end.
      match goal with |- bind (?ev args (extst st)) _ = _ /\ _ => set (ev2 := ev) in * end.
      assert (Hl : forall st vs s1, ev1 args st = Ok (vs, s1) -> wfm (memm st) -> ev2 args (extst st) = Ok (vs, extst s1) /\ wfm (memm s1)).
      { clear H W. induction args as [|a l IHl]; intros st0 vs0 s0 H0 W0; cbn in H0 |- *; [fin H0|].
        destruct (eval c1 a st0) as [[v0 s]|?] eqn:E; [|discriminate H0]. destruct (eval_sim a _ _ _ E W0) as [E' W']. rewrite E'. cbn [bind] in *.
        fold ev1 in H0. fold ev2. destruct (ev1 l s) as [[vs s2]|?] eqn:E2; [|discriminate H0].
        destruct (IHl _ _ _ E2 W') as [E2' W2]. rewrite E2'. cbn [bind] in *. fin H0. }
      destruct (ev1 args st) as [[vs s]|?] eqn:E; [|discriminate H]. destruct (Hl _ _ _ E W) as [E' W']. rewrite E'. cbn [bind] in *.
      rewrite memm_extst, locals_extst.
      destruct (do_builtin_m f vs (memm s)) as [[v0 m']|?] eqn:E2; [|discriminate H]. destruct (do_builtin_m_ext _ _ _ _ _ E2 W') as [E2' W2]. rewrite E2'. cbn [bind] in *. fin H.
    - sim eval_sim; fin H.
    - sim eval_sim; fin H.
  Qed.
  End Eval.

  Definition exto (o : outcome) : outcome :=
    match o with
    | ONormal st => ONormal (extst st) | OBreak st => OBreak (extst st) | OContinue st => OContinue (extst st)
    | OReturn v st => OReturn v (extst st) | OErr e => OErr e
    end.
  Definition wfo (o : outcome) : Prop :=
    match o with
    | ONormal st | OBreak st | OContinue st | OReturn _ st => wfm (memm st) | OErr _ => True
    end.

  Section Exec.
  Variables c1 c2 : nat -> list val -> mem -> res (val * mem).
  Hypothesis Hc : call_sim c1 c2.

  Lemma eval_opt_sim e st v st1 : eval_opt c1 e st = Ok (v, st1) -> wfm (memm st) ->
    eval_opt c2 e (extst st) = Ok (v, extst st1) /\ wfm (memm st1).
  Proof.
    destruct e; cbn [eval_opt]; [apply (eval_sim c1 c2 Hc)|]. intros H W. injection H as <- <-. split; [reflexivity|exact W].
  Qed.

  Definition stmt_sim (go1 go2 : stmt -> state -> outcome) (s : stmt) : Prop :=
    forall st o, go1 s st = o -> ok_out o -> wfm (memm st) -> go2 s (extst st) = exto o /\ wfo o.

  Lemma swx_run_sim (go1 go2 : stmt -> state -> outcome) hit l :
    Forall (fun seg => stmt_sim go1 go2 (snd seg)) l ->
    forall started st o, swx_run go1 hit l started st = o -> ok_out o -> wfm (memm st) ->
      swx_run go2 hit l started (extst st) = exto o /\ wfo o.
  Proof.
    induction 1 as [|[labs s0] r Hx Hr IH]; intros started st o H Ho W; [subst o; split; [reflexivity|exact W]|].
    cbn [swx_run snd] in *. destruct (started || hit labs); [|exact (IH _ _ _ H Ho W)].
    destruct (go1 s0 st) eqn:E; [| | | |subst o; destruct Ho];
      (destruct (Hx st _ E I W) as [E' W']; rewrite E'; cbn [exto wfo] in *;
       first [exact (IH _ _ _ H Ho W')|subst o; split; [reflexivity|exact W']]).
  Qed.

  (* a statement that ends without an error on the short memory ends in the same way on the long one *)
  Lemma exec_sim : forall fuel s, stmt_sim (exec c1 fuel) (exec c2 fuel) s.
  Proof.
    unfold stmt_sim.
    induction fuel as [|f IHf].
    - fix IHs 1. intros s st o H Ho W. destruct s as [|e|s1 s2|c sa sb|c sb|sb c|c stp sb|oe| | |e segs].
      + rewrite exec_skip in H |- *. subst o; split; [reflexivity|exact W].
      + rewrite exec_expr in H |- *. destruct (eval c1 e st) as [[v s]|?] eqn:E; [|subst o; destruct Ho].
        destruct (eval_sim c1 c2 Hc _ _ _ _ E W) as [E' W']. rewrite E'. subst o; split; [reflexivity|exact W'].
      + rewrite exec_seq in H |- *. destruct (exec c1 0 s1 st) eqn:E; [| | | |subst o; destruct Ho];
          (destruct (IHs s1 st _ E I W) as [E' W']; rewrite E'; cbn [exto wfo] in *;
           first [exact (IHs _ _ _ H Ho W')|subst o; split; [reflexivity|exact W']]).
      + rewrite exec_if in H |- *. destruct (eval c1 c st) as [[v s]|?] eqn:E; [|subst o; destruct Ho].
        destruct (eval_sim c1 c2 Hc _ _ _ _ E W) as [E' W']. rewrite E'.
        destruct (truth v) as [[|]|?]; [exact (IHs _ _ _ H Ho W')|exact (IHs _ _ _ H Ho W')|subst o; destruct Ho].
      + rewrite exec_while_O in H. subst o; destruct Ho.
      + rewrite exec_dowhile_O in H. subst o; destruct Ho.
      + rewrite exec_for_O in H. subst o; destruct Ho.
      + destruct oe as [e|]; [|rewrite exec_return_none in H |- *; subst o; split; [reflexivity|exact W]]. rewrite exec_return in H |- *.
        destruct (eval c1 e st) as [[v s]|?] eqn:E; [|subst o; destruct Ho].
        destruct (eval_sim c1 c2 Hc _ _ _ _ E W) as [E' W']. rewrite E'. subst o; split; [reflexivity|exact W'].
      + rewrite exec_break in H |- *. subst o; split; [reflexivity|exact W].
      + rewrite exec_continue in H |- *. subst o; split; [reflexivity|exact W].
      + rewrite exec_switchx in H |- *. destruct (eval c1 e st) as [[v s]|?] eqn:E; [|subst o; destruct Ho].
        destruct (eval_sim c1 c2 Hc _ _ _ _ E W) as [E' W']. rewrite E'.
        destruct (as_int v) as [z|?]; [|subst o; destruct Ho].
        refine (swx_run_sim _ _ _ _ _ _ _ _ H Ho W'). clear H.
        induction segs as [|[labs s0] r IHr]; constructor; [intros st0 o0; apply IHs|exact IHr].
    - fix IHs 1. intros s st o H Ho W. destruct s as [|e|s1 s2|c sa sb|c sb|sb c|c stp sb|oe| | |e segs].
      + rewrite exec_skip in H |- *. subst o; split; [reflexivity|exact W].
      + rewrite exec_expr in H |- *. destruct (eval c1 e st) as [[v s]|?] eqn:E; [|subst o; destruct Ho].
        destruct (eval_sim c1 c2 Hc _ _ _ _ E W) as [E' W']. rewrite E'. subst o; split; [reflexivity|exact W'].
      + rewrite exec_seq in H |- *. destruct (exec c1 (S f) s1 st) eqn:E; [| | | |subst o; destruct Ho];
          (destruct (IHs s1 st _ E I W) as [E' W']; rewrite E'; cbn [exto wfo] in *;
           first [exact (IHs _ _ _ H Ho W')|subst o; split; [reflexivity|exact W']]).
      + rewrite exec_if in H |- *. destruct (eval c1 c st) as [[v s]|?] eqn:E; [|subst o; destruct Ho].
        destruct (eval_sim c1 c2 Hc _ _ _ _ E W) as [E' W']. rewrite E'.
        destruct (truth v) as [[|]|?]; [exact (IHs _ _ _ H Ho W')|exact (IHs _ _ _ H Ho W')|subst o; destruct Ho].
      + (* SWhile *)
        rewrite exec_while in H |- *. destruct (eval c1 c st) as [[v s]|?] eqn:E; [|subst o; destruct Ho].
        destruct (eval_sim c1 c2 Hc _ _ _ _ E W) as [E' W']. rewrite E'.
        destruct (truth v) as [[|]|?]; [|subst o; split; [reflexivity|exact W']|subst o; destruct Ho].
        destruct (exec c1 (S f) sb s) eqn:E2; [| | | |subst o; destruct Ho];
          (destruct (IHs sb s _ E2 I W') as [E2' W2]; rewrite E2'; cbn [exto wfo] in *;
           first [exact (IHf _ _ _ H Ho W2)|subst o; split; [reflexivity|exact W2]]).
      + (* SDoWhile *)
        rewrite exec_dowhile in H |- *.
        destruct (exec c1 (S f) sb st) eqn:E2; [| | | |subst o; destruct Ho];
          (destruct (IHs sb st _ E2 I W) as [E2' W2]; rewrite E2'; cbn [exto wfo] in *);
          try (subst o; split; [reflexivity|exact W2]);
          (destruct (eval c1 c st0) as [[v s]|?] eqn:E; [|subst o; destruct Ho]);
          (destruct (eval_sim c1 c2 Hc _ _ _ _ E W2) as [E' W']; rewrite E');
          (destruct (truth v) as [[|]|?]; [exact (IHf _ _ _ H Ho W')|subst o; split; [reflexivity|exact W']|subst o; destruct Ho]).
      + (* SFor *)
        rewrite exec_for in H |- *. destruct (eval_opt c1 c st) as [[v s]|?] eqn:E; [|subst o; destruct Ho].
        destruct (eval_opt_sim _ _ _ _ E W) as [E' W']. rewrite E'.
        destruct (truth v) as [[|]|?]; [|subst o; split; [reflexivity|exact W']|subst o; destruct Ho].
        destruct (exec c1 (S f) sb s) eqn:E2; [| | | |subst o; destruct Ho];
          (destruct (IHs sb s _ E2 I W') as [E2' W2]; rewrite E2'; cbn [exto wfo] in *);
          try (subst o; split; [reflexivity|exact W2]);
          (destruct stp as [stp|]; [|exact (IHf _ _ _ H Ho W2)]);
          (destruct (eval c1 stp st0) as [[v' s']|?] eqn:E3; [|subst o; destruct Ho]);
          (destruct (eval_sim c1 c2 Hc _ _ _ _ E3 W2) as [E3' W3]; rewrite E3'; exact (IHf _ _ _ H Ho W3)).
      + destruct oe as [e|]; [|rewrite exec_return_none in H |- *; subst o; split; [reflexivity|exact W]]. rewrite exec_return in H |- *.
        destruct (eval c1 e st) as [[v s]|?] eqn:E; [|subst o; destruct Ho].
        destruct (eval_sim c1 c2 Hc _ _ _ _ E W) as [E' W']. rewrite E'. subst o; split; [reflexivity|exact W'].
      + rewrite exec_break in H |- *. subst o; split; [reflexivity|exact W].
      + rewrite exec_continue in H |- *. subst o; split; [reflexivity|exact W].
      + rewrite exec_switchx in H |- *. destruct (eval c1 e st) as [[v s]|?] eqn:E; [|subst o; destruct Ho].
        destruct (eval_sim c1 c2 Hc _ _ _ _ E W) as [E' W']. rewrite E'.
        destruct (as_int v) as [z|?]; [|subst o; destruct Ho].
        refine (swx_run_sim _ _ _ _ _ _ _ _ H Ho W'). clear H.
        induction segs as [|[labs s0] r IHr]; constructor; [intros st0 o0; apply IHs|exact IHr].
  Qed.
  End Exec.

  Lemma callx_sim_d ext prog fuel : call_sim ext ext -> forall d, call_sim (callx ext prog fuel d) (callx ext prog fuel d).
  Proof.
    intro Hext. induction d as [|d IH]; intros f args m r m1 H W; [discriminate H|].
    rewrite callx_S in H |- *. destruct (nth_error prog f) as [fn|]; [|exact (Hext _ _ _ _ _ H W)].
    destruct (Nat.eqb (length args) (fn_nparams fn)); [|discriminate H].
    destruct (exec (callx ext prog fuel d) fuel (fn_body fn) (mkst (args ++ repeat VUndef (fn_nlocals fn - fn_nparams fn)) m)) eqn:E;
      try discriminate H;
      (destruct (exec_sim _ _ IH _ _ _ _ E I W) as [E' W']; unfold extst in E'; cbn [locals memm] in E'; rewrite E';
       cbn [exto wfo memm] in *; injection H as <- <-; split; [reflexivity|exact W']).
  Qed.
End Sim.

Lemma mem_sim_wfm X m m' : mem_sim X m m' <-> (m' = extm X m /\ wfm X m).
Proof. apply mem_sim_extm. Qed.

Definition ext_sim (X : nat -> list val) (ext : nat -> list val -> mem -> res (val * mem)) : Prop :=
  forall f args m m' r m1, mem_sim X m m' -> ext f args m = Ok (r, m1) ->
    exists m1', ext f args m' = Ok (r, m1') /\ mem_sim X m1 m1'.

Lemma ext_none_sim X : ext_sim X ext_none.
Proof. intros f args m m' r m1 _ H. discriminate H. Qed.

(* calls relative to an oracle: the oracle must have the property itself *)
Theorem callx_sim ext prog fuel X : ext_sim X ext -> forall d f args m m' r m1,
  mem_sim X m m' -> callx ext prog fuel d f args m = Ok (r, m1) ->
  exists m1', callx ext prog fuel d f args m' = Ok (r, m1') /\ mem_sim X m1 m1'.
Proof.
  intros Hext d f args m m' r m1 Hs H. apply mem_sim_wfm in Hs. destruct Hs as [-> W].
  assert (Hc : call_sim X ext ext).
  { intros f0 a0 m0 r0 m2 H0 W0. destruct (Hext f0 a0 m0 (extm X m0) r0 m2) as (m2' & H2 & S2); [apply mem_sim_wfm; auto|exact H0|].
    apply mem_sim_wfm in S2. destruct S2 as [-> W2]. auto. }
  destruct (callx_sim_d X ext prog fuel Hc d _ _ _ _ _ H W) as [H' W'].
  exists (extm X m1). split; [exact H'|]. apply mem_sim_wfm. auto.
Qed.

(* a call that returns Ok on m returns the same value on m', and leaves the extra cells appended *)
Theorem callf_sim prog fuel X : forall d f args m m' r m1,
  mem_sim X m m' -> callf prog fuel d f args m = Ok (r, m1) ->
  exists m1', callf prog fuel d f args m' = Ok (r, m1') /\ mem_sim X m1 m1'.
Proof. rewrite callf_callx0. apply callx_sim. apply ext_none_sim. Qed.

(* blocks that the short run left alone are left alone by the long run *)
Lemma mem_sim_same X m m' m1 m1' b : mem_sim X m m' -> mem_sim X m1 m1' ->
  nth_error m1 b = nth_error m b -> (b < length m)%nat -> nth_error m1' b = nth_error m' b.
Proof.
  intros (_ & Hn & _) (_ & Hn1 & _) E L. destruct (nth_error m b) as [a|] eqn:Ea; [|apply nth_error_None in Ea; lia].
  rewrite (Hn _ _ Ea), (Hn1 _ _ E). reflexivity.
Qed.

(* the starting relation: m' = m with `rest` appended behind the one non-empty block b *)
Lemma mem_sim_one (m : mem) b a rest : nth_error m b = Some a -> a <> [] ->
  mem_sim (fun i => if Nat.eqb i b then rest else []) m (upd m b (a ++ rest)).
Proof.
  intros Hb Ha. assert (L : (b < length m)%nat) by (apply nth_error_Some; congruence).
  split; [apply upd_length; exact L|]. split.
  - intros i c Hi. destruct (Nat.eqb_spec i b) as [->|Hne].
    + rewrite nth_error_upd_same by exact L. rewrite Hb in Hi. injection Hi as <-.
      destruct a as [|c a]; [congruence|]. reflexivity.
    + rewrite nth_error_upd_other by assumption. rewrite Hi, ext_blk_nil_l. reflexivity.
  - intros i Hi. destruct (Nat.eqb_spec i b); [lia|reflexivity].
Qed.

Print Assumptions callx_sim.
Print Assumptions callf_sim.
