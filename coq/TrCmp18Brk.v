(* TrCmp18Brk.v -- copy of TrRegexBrk.v (C10) with globals_at weakened to the blocks the regex engine reads; made for the C18 composition because C18's memories have dir_rslr/dir_rsrl/dir_rsctx/xtd set *)
(* TrRegexBrk.v -- brk_match of /repo/regex.c (bracket expressions: ranges, negation, [:class:] items through the table
   brk_classes with strncmp/strlen and the recursive call on the class body, REG_ICASE folding) as printed by
   tools/c2clite.py (GenCFuncs.cf_brk_match) is the model ReVM.brk_match, for every model depth, every NUL-free bracket
   text in memory, every character code and flag word; and with it the RA_BRK case of ratom_match.
   The table brk_classes in memory (pointer cells into string-literal blocks, read by c2clite.py from the initializer in
   regex.c) is shown equal to GenConsts.brk_classes (dumped by translate.py): cls_at_globals. *)
From Coq Require Import List ZArith NArith Bool Lia.
From NV Require Import Bytes GenConsts ReSyntax ReParse ReVM CLite CLiteProps GenCFuncs CLiteTac TrRegex TrRegexAtom.
From NV Require ReProps11.
Import ListNotations.
Local Open Scope Z_scope.

(* ------------------------------------------------------------------ the weakened hypothesis about the globals *)
(* the global blocks the regex engine reads: the class table and the literals it points to; every other global cell may hold anything *)
Definition rx_globals : list nat :=
  G_brk_classes :: flat_map (fun v => match v with VPtr g _ => [g] | _ => [] end) gb_brk_classes.
Definition globals_at (m : mem) : Prop :=
  (length cglobals <= length m)%nat /\ forall g blk, In g rx_globals -> nth_error cglobals g = Some blk -> nth_error m g = Some blk.
(* the hypothesis of TrRegexBrk / TrRegexRec / TrRsetFindRx (every global block unchanged) implies this one *)
Lemma globals_at_weaker m : CLiteTac.globals_at m -> globals_at m.
Proof.
  intro Hg. split; [|intros g blk _ Hn; apply Hg; exact Hn].
  destruct (Nat.le_gt_cases (length cglobals) (length m)) as [L|L]; [exact L|exfalso].
  destruct (nth_error cglobals (length m)) as [blk|] eqn:E; [|apply nth_error_None in E; lia].
  pose proof (Hg _ _ E) as X. assert (length m < length m)%nat by (apply nth_error_Some; congruence). lia.
Qed.
Lemma in_rx_globals g : existsb (Nat.eqb g) rx_globals = true -> In g rx_globals.
Proof. intro H. apply existsb_exists in H. destruct H as [x [Hx E]]. apply Nat.eqb_eq in E. subst x. exact Hx. Qed.

(* ------------------------------------------------------------------ strlen / strncmp on C strings in memory *)
Lemma blk_from_str m b (s : bytes) (o : nat) : str_at m b s -> (o <= length s)%nat ->
  blk_from m b (Z.of_nat o) = Ok (cstr_block (zb (skipn o s))).
Proof.
  intros H Ho. unfold blk_from. rewrite H. unfold cstr_block, zb. rewrite app_length, !map_length. cbn [length].
  destruct (Z.ltb_spec (Z.of_nat o) 0); [lia|]. destruct (Z.ltb_spec (Z.of_nat (length s + 1)) (Z.of_nat o)); [lia|].
  cbn [orb]. rewrite Nat2Z.id. rewrite skipn_app, !map_length. replace (o - length s)%nat with 0%nat by lia.
  rewrite !skipn_map. reflexivity.
Qed.
Lemma scan0_str (s : bytes) n : nonul s -> scan0 (cstr_block (zb s)) n = Ok (n + length s)%nat.
Proof.
  revert n; induction s as [|c s IH]; intros n H; cbn [cstr_block zb map app scan0 length]; [rewrite Nat.add_0_r; reflexivity|].
  inversion H as [|? ? [Hc _] Hs]; subst. destruct c as [|pc]; [lia|]. cbn [Z.of_N].
  change (map VInt (map Z.of_N s) ++ [VInt 0]) with (cstr_block (zb s)). rewrite IH by exact Hs. f_equal. lia.
Qed.
Lemma strlen_str m b (s : bytes) : str_at m b s -> nonul s ->
  do_builtin BStrlen [VPtr b 0] m = Ok (VInt (Z.of_nat (length s))).
Proof.
  intros H Hn. cbn [do_builtin]. change 0 with (Z.of_nat 0). rewrite (blk_from_str m b s 0 H) by lia. cbn [bind skipn].
  rewrite scan0_str by exact Hn. reflexivity.
Qed.
Lemma wrap_u8_byte : forall c, (c < 256)%N -> wrap U8 (Z.of_N c) = Z.of_N c.
Proof. byte_fact. Qed.
(* strncmp(a, l, |a|) == 0 iff a is a prefix of l *)
Lemma cmp_cells_prefix (a : bytes) : nonul a -> forall l : bytes, bytes_lt256 l ->
  exists r, cmp_cells (cstr_block (zb a)) (cstr_block (zb l)) (length a) = Ok r /\ (r =? 0) = prefixb a l.
Proof.
  intro Ha. induction a as [|x a IH]; intros l Hl; [exists 0; split; reflexivity|].
  inversion Ha as [|? ? [Hx0 Hx] Ha']; subst. cbn [length cmp_cells].
  destruct l as [|y l].
  - cbn [cstr_block zb map app cmp_cells Z.of_N]. rewrite (wrap_u8_byte x Hx). change (wrap U8 0) with 0.
    destruct (Z.ltb_spec (Z.of_N x) 0); [lia|]. destruct (Z.ltb_spec 0 (Z.of_N x)); [|lia].
    exists 1. split; reflexivity.
  - inversion Hl as [|? ? Hy Hl']; subst. cbn [cstr_block zb map app prefixb cmp_cells].
    rewrite (wrap_u8_byte x Hx), (wrap_u8_byte y Hy).
    destruct (Z.ltb_spec (Z.of_N x) (Z.of_N y)).
    { exists (-1). split; [reflexivity|]. destruct (N.eqb_spec x y); [lia|reflexivity]. }
    destruct (Z.ltb_spec (Z.of_N y) (Z.of_N x)).
    { exists 1. split; [reflexivity|]. destruct (N.eqb_spec x y); [lia|reflexivity]. }
    destruct (Z.eqb_spec (Z.of_N x) 0); [lia|].
    destruct (IH Ha' l Hl') as [r [R1 R2]]. exists r.
    change (map VInt (map Z.of_N a) ++ [VInt 0]) with (cstr_block (zb a)).
    change (map VInt (map Z.of_N l) ++ [VInt 0]) with (cstr_block (zb l)).
    split; [exact R1|]. rewrite R2. destruct (N.eqb_spec x y); [reflexivity|lia].
Qed.
Lemma strncmp_str m b1 (a : bytes) b2 (s : bytes) (o : nat) : str_at m b1 a -> nonul a -> str_at m b2 s -> bytes_lt256 s ->
  (o <= length s)%nat ->
  exists r, do_builtin BStrncmp [VPtr b1 0; VPtr b2 (Z.of_nat o); VInt (Z.of_nat (length a))] m = Ok (VInt r) /\
            (r =? 0) = prefixb a (skipn o s).
Proof.
  intros H1 Ha H2 Hs Ho. cbn [do_builtin]. destruct (Z.ltb_spec (Z.of_nat (length a)) 0); [lia|].
  change (blk_from m b1 0) with (blk_from m b1 (Z.of_nat 0)). rewrite (blk_from_str m b1 a 0 H1) by lia. rewrite (blk_from_str m b2 s o H2 Ho). cbn [bind skipn]. rewrite Nat2Z.id.
  destruct (cmp_cells_prefix a Ha (skipn o s) (Forall_skipn' _ o s Hs)) as [r [R1 R2]]. exists r. rewrite R1. split; [reflexivity|exact R2].
Qed.

(* ------------------------------------------------------------------ the table brk_classes in memory *)
Definition cls_at (m : mem) : Prop := forall j, (j < length brk_classes)%nat ->
  exists g1 g2, load m G_brk_classes (Z.of_nat (2 * j)) = Ok (VPtr g1 0) /\ load m G_brk_classes (Z.of_nat (2 * j + 1)) = Ok (VPtr g2 0) /\
    str_at m g1 (fst (nth j brk_classes ([], []))) /\ str_at m g2 (snd (nth j brk_classes ([], []))).
(* the initializer c2clite.py read from regex.c is the table translate.py dumped (GenConsts.brk_classes) *)
Lemma cls_at_globals m : globals_at m -> cls_at m.
Proof.
  intros [_ Hg] j Hj. pose proof (Hg G_brk_classes gb_brk_classes (or_introl eq_refl) eq_refl) as Hb.
  change (length brk_classes) with 11%nat in Hj.
  do 11 (destruct j as [|j];
    [ eexists _, _; split; [apply (load_cell m G_brk_classes _ _ _ Hb); [reflexivity|lia]|];
      split; [apply (load_cell m G_brk_classes _ _ _ Hb); [reflexivity|lia]|];
      split; (apply Hg; [apply in_rx_globals; vm_compute; reflexivity|reflexivity]) |]).
  lia.
Qed.
Lemma classes_nonul : Forall (fun cl => nonul (fst cl) /\ nonul (snd cl) /\ Z.of_nat (length (snd cl)) < 2147483647) brk_classes.
Proof. unfold nonul, byte_ok. repeat constructor. Qed.

(* ------------------------------------------------------------------ model-side facts *)
Lemma rdk_skipn w (s : bytes) q k : (q <= length s)%nat -> rdk w (skipn q s) k = rdk w s (q + k).
Proof.
  intro H. unfold rdk. rewrite nth_error_skipn_add, skipn_length.
  destruct (nth_error s (q + k)); [reflexivity|].
  destruct (Nat.eqb_spec k (length s - q)), (Nat.eqb_spec (q + k) (length s)); try reflexivity; lia.
Qed.
Lemma re_uclen_at_skipn (s : bytes) q k : re_uclen_at (skipn q s) k = re_uclen_at s (q + k).
Proof. unfold re_uclen_at. rewrite skipn_skipn. reflexivity. Qed.
Lemma re_ucdec_skipn (s : bytes) q k : (q <= length s)%nat -> re_ucdec (skipn q s) k = re_ucdec s (q + k).
Proof.
  intro H. unfold re_ucdec. rewrite !rdk_skipn, re_uclen_at_skipn by exact H.
  rewrite !Nat.add_assoc. reflexivity.
Qed.
Lemma wrap_u64_small z : 0 <= z < 18446744073709551616 -> wrap U64 z = z.
Proof. intro H. unfold wrap. cbn [ity_bits ity_signed andb]. change (2 ^ 64) with 18446744073709551616. apply Z.mod_small. exact H. Qed.
Lemma N2Z_leb x y : (Z.of_N x <=? Z.of_N y) = (x <=? y)%N.
Proof. destruct (Z.leb_spec (Z.of_N x) (Z.of_N y)), (N.leb_spec x y); try reflexivity; lia. Qed.
(* if (flg & REG_ICASE && c < 128 && isupper(c)) c = tolower(c);  for either value of the flag *)
Lemma fold_zi (ic : bool) (v : N) :
  (if ic && (Z.of_N v <? 128) && ct_isupper (Z.of_N v) then Z.of_N v + 32 else Z.of_N v) = Z.of_N (fold ic v).
Proof. destruct ic; [apply fold_z|reflexivity]. Qed.

Lemma sx_eq_45 : forall c, (c < 256)%N -> (sx c =? 45) = (c =? 45)%N.  Proof. byte_fact. Qed.

Lemma tl_skipn {A} (l : list A) q : tl (skipn q l) = skipn (S q) l.
Proof. revert l; induction q as [|q IH]; intros [|x l]; try reflexivity. cbn [skipn]. apply IH. Qed.

(* symbolic execution by conversion only (no propositional rewriting): the goal stays convertible with its unevaluated form *)
Ltac xstep0 := repeat (progress (xrw; xcbn)).

Lemma brk_len_ge1 p : (1 <= brk_len p)%nat.
Proof. unfold brk_len. destruct (nthb p 1 =? 94)%N; destruct (nthb p _ =? 93)%N; destruct (nthb p _ =? 93)%N; lia. Qed.

Definition brk_main_loop : stmt :=
  match fn_body cf_brk_match with SSeq _ (SSeq _ (SSeq _ (SSeq _ (SSeq w _)))) => w | _ => SSkip end.
Definition brk_ret : stmt :=
  match fn_body cf_brk_match with SSeq _ (SSeq _ (SSeq _ (SSeq _ (SSeq _ r)))) => r | _ => SSkip end.
Definition brk_fold_c : stmt :=
  match fn_body cf_brk_match with SSeq _ (SSeq _ (SSeq _ (SSeq f _))) => f | _ => SSkip end.
Definition brk_body : stmt := match brk_main_loop with SWhile _ bd => bd | _ => SSkip end.
Definition brk_plain : stmt := match brk_body with SSeq _ r => r | _ => SSkip end.
Definition brk_fold3 : stmt := match brk_plain with SSeq _ (SSeq _ (SSeq _ (SSeq _ (SSeq f _)))) => f | _ => SSkip end.
Definition brk_fold4 : stmt := match brk_plain with SSeq _ (SSeq _ (SSeq _ (SSeq _ (SSeq _ (SSeq f _))))) => f | _ => SSkip end.
Definition brk_cmp_rest : stmt := match brk_plain with SSeq _ (SSeq _ (SSeq _ (SSeq _ r))) => r | _ => SSkip end.
Definition cls_for : stmt :=
  match brk_main_loop with SWhile _ (SSeq (SIf _ (SSeq (SSeq _ f) _) _) _) => f | _ => SSkip end.

Section FoldLocal.
  Variables (m : mem) (flg : Z) (icase : bool).
  Hypothesis Hic : has flg REG_ICASE = icase.
  Ltac fold_local_tac Hic :=
    xstep; unfold has, REG_ICASE in Hic; rewrite <- Hic;
    match goal with |- context [Z.of_N (fold _ ?v)] => rewrite <- (fold_zi _ v) end;
    destruct (Z.land _ 4 =? 0); cbn [negb andb]; xstep; [reflexivity|];
    match goal with |- context [Z.of_N ?v <? 128] => destruct (Z.ltb_spec (Z.of_N v) 128) end; cbn [andb]; xstep; [|reflexivity];
    cbn [do_builtin_m do_builtin bind]; rewrite ct_arg_ok by lia; cbn [bind]; xstep;
    let Eu := fresh "Eu" in
    match goal with |- context [ct_isupper ?z] => destruct (ct_isupper z) eqn:Eu end; cbn [b2z]; xstep; [|reflexivity];
    cbn [do_builtin_m do_builtin bind]; rewrite ct_arg_ok by lia; cbn [bind]; xstep; rewrite Eu; reflexivity.

  Lemma brk_fold_c_ok call lf x0 (v : N) x3 x4 x5 x6 x7 x8 x9 x10 :
    exec call lf brk_fold_c (mkst [x0; VInt (Z.of_N v); VInt flg; x3; x4; x5; x6; x7; x8; x9; x10] m)
    = ONormal (mkst [x0; VInt (Z.of_N (fold icase v)); VInt flg; x3; x4; x5; x6; x7; x8; x9; x10] m).
  Proof. unfold brk_fold_c; cbn [fn_body cf_brk_match]. fold_local_tac Hic. Qed.
  Lemma brk_fold3_ok call lf x0 x1 (v : N) x4 x5 x6 x7 x8 x9 x10 :
    exec call lf brk_fold3 (mkst [x0; x1; VInt flg; VInt (Z.of_N v); x4; x5; x6; x7; x8; x9; x10] m)
    = ONormal (mkst [x0; x1; VInt flg; VInt (Z.of_N (fold icase v)); x4; x5; x6; x7; x8; x9; x10] m).
  Proof. unfold brk_fold3, brk_plain, brk_body, brk_main_loop; cbn [fn_body cf_brk_match]. fold_local_tac Hic. Qed.
  Lemma brk_fold4_ok call lf x0 x1 x3 (v : N) x5 x6 x7 x8 x9 x10 :
    exec call lf brk_fold4 (mkst [x0; x1; VInt flg; x3; VInt (Z.of_N v); x5; x6; x7; x8; x9; x10] m)
    = ONormal (mkst [x0; x1; VInt flg; x3; VInt (Z.of_N (fold icase v)); x5; x6; x7; x8; x9; x10] m).
  Proof. unfold brk_fold4, brk_plain, brk_body, brk_main_loop; cbn [fn_body cf_brk_match]. fold_local_tac Hic. Qed.


End FoldLocal.

Section BrkMatch.
  Variables (m : mem) (fuel dep : nat) (flg : Z) (icase : bool) (d' : nat).
  Hypothesis Hg : globals_at m.
  Hypothesis Hflg : -2147483648 <= flg <= 2147483647.
  Hypothesis Hic : has flg REG_ICASE = icase.
  Hypothesis Hf12 : (12 <= fuel)%nat.
  (* the recursive call on a class body, at model depth d' *)
  Hypothesis Hrec : forall g (cp : bytes) (c : N) r, str_at m g cp -> nonul cp -> (length cp + 13 <= fuel)%nat ->
    Z.of_nat (length cp) < 2147483647 ->
    ReVM.brk_match d' icase cp c = ReSyntax.Ok r ->
    callf cprog fuel dep F_brk_match [VPtr g 0; VInt (Z.of_N c); VInt flg] m = Ok (VInt (b2z r), m).
  Hypothesis Hclsfuel : Forall (fun cl => (length (snd cl) + 13 <= fuel)%nat) brk_classes.

  Variables (b : nat) (s : bytes) (c : N) (nt : bool).
  Hypothesis Hs : str_at m b s.
  Hypothesis Hnn : nonul s.

  Let Hcls := cls_at_globals m Hg.

  Lemma cls_for_ok v0 x3 x4 q q0 : (q < length s)%nat ->
    forall cl j, skipn j brk_classes = cl -> (j <= length brk_classes)%nat ->
    forall hit, cls_hit (fun cp => ReVM.brk_match d' icase cp c) cl (skipn (S q) s) = ReSyntax.Ok hit ->
    forall x9 x10 lf, (length cl < lf)%nat ->
    exists st', 
      exec (callf cprog fuel dep) lf cls_for
        (mkst [v0; VInt (Z.of_N c); VInt flg; x3; x4; VInt (Z.of_nat j); VInt (b2z nt); VPtr b (Z.of_nat q); q0; x9; x10] m)
      = (if hit then OReturn (VInt (b2z nt)) st' else ONormal st') /\ memm st' = m /\
      (hit = false -> exists y9 y10, locals st' = [v0; VInt (Z.of_N c); VInt flg; x3; x4; VInt (Z.of_nat (length brk_classes)); VInt (b2z nt); VPtr b (Z.of_nat q); q0; y9; y10]).
  Proof.
    intros Hq. pose proof (nonul_lt256 s Hnn) as H256.
    induction cl as [|[cc cp] cl IH]; intros j Hj Hjl hit Hhit x9 x10 lf Hlf; (destruct lf as [|lf]; [lia|]);
      unfold cls_for, brk_main_loop; cbn [fn_body cf_brk_match]; rewrite exec_for; xstep;
      change (if 16 =? 0 then Err EDivZero else chk U64 (176 ÷ 16)) with (@Ok Z 11); xstep;
      change (length brk_classes) with 11%nat in *;
      rewrite (wrap_u64_small (Z.of_nat j)) by lia;
      assert (Hlen : (length (skipn j brk_classes) = 11 - j)%nat) by (rewrite skipn_length; reflexivity);
      rewrite Hj in Hlen; cbn [length] in Hlen.
    - assert (j = 11%nat) as -> by lia. cbn [cls_hit] in Hhit. injection Hhit as <-.
      change (Z.of_nat 11 <? 11) with false. xstep. eexists. split; [reflexivity|]. split; [reflexivity|].
      intros _. eexists _, _. reflexivity.
    - destruct (Z.ltb_spec (Z.of_nat j) 11); [|lia]. xstep.
      assert (Hnth : nth j brk_classes ([], []) = (cc, cp)).
      { rewrite <- (firstn_skipn j brk_classes) at 1. rewrite Hj. rewrite app_nth2 by (rewrite firstn_length; change (length brk_classes) with 11%nat; lia).
        rewrite firstn_length. change (length brk_classes) with 11%nat. replace (j - Nat.min j 11)%nat with 0%nat by lia. reflexivity. }
      destruct (Hcls j ltac:(change (length brk_classes) with 11%nat; lia)) as [g1 [g2 [L1 [L2 [S1 S2]]]]].
      rewrite Hnth in S1, S2. cbn [fst snd] in S1, S2.
      replace (0 + 2 * Z.of_nat j + 1 * 0) with (Z.of_nat (2 * j)) by lia. rewrite L1. xstep.
      replace (0 + 2 * Z.of_nat j + 1 * 1) with (Z.of_nat (2 * j + 1)) by lia. rewrite L2. xstep.
      assert (Hcn : nonul cc /\ nonul cp /\ (length cp + 13 <= fuel)%nat /\ Z.of_nat (length cp) < 2147483647).
      { pose proof classes_nonul as A. pose proof Hclsfuel as B. rewrite Forall_forall in A, B.
        assert (In (cc, cp) brk_classes) as Hin by (rewrite <- Hnth; apply nth_In; change (length brk_classes) with 11%nat; lia).
        destruct (A _ Hin) as [A1 [A2 A3]]. specialize (B _ Hin). cbn [fst snd] in *. auto. }
      destruct Hcn as [Hcc [Hcp [Hcpf Hcpi]]].
      assert (Hnext : skipn (S j) brk_classes = cl).
      { replace (S j) with (j + 1)%nat by lia. rewrite <- skipn_skipn. rewrite Hj. reflexivity. }
      cbn [do_builtin_m]. rewrite (strlen_str m g1 cc S1 Hcc). cbn [bind]. xstep.
      replace (Z.of_nat q + 1 * 1) with (Z.of_nat (S q)) by lia.
      destruct (strncmp_str m g1 cc b s (S q) S1 Hcc Hs H256 ltac:(lia)) as [r [R1 R2]].
      cbn [do_builtin_m]. rewrite R1. cbn [bind]. xstep. rewrite R2.
      cbn [cls_hit] in Hhit.
      (* what happens after the body of one iteration: i++ and the rest of the loop *)
      assert (Rest : forall hit' y9 y10, cls_hit (fun cp => ReVM.brk_match d' icase cp c) cl (skipn (S q) s) = ReSyntax.Ok hit' ->
        exists st', 
        match
          (do v <- get_local (mkst [v0; VInt (Z.of_N c); VInt flg; x3; x4; VInt (Z.of_nat j); VInt (b2z nt); VPtr b (Z.of_nat q); q0; y9; y10] m) 5;
           do w <- match v with VInt z => do r <- chk I32 (z + 1); Ok (VInt r) | _ => Err EType end;
           do st1 <- set_local (mkst [v0; VInt (Z.of_N c); VInt flg; x3; x4; VInt (Z.of_nat j); VInt (b2z nt); VPtr b (Z.of_nat q); q0; y9; y10] m) 5 w; Ok (v, st1))
        with
        | Ok (_, st3) => exec (callf cprog fuel dep) lf cls_for st3
        | Err x => OErr x
        end = (if hit' then OReturn (VInt (b2z nt)) st' else ONormal st') /\ memm st' = m /\
        (hit' = false -> exists z9 z10, locals st' = [v0; VInt (Z.of_N c); VInt flg; x3; x4; VInt (Z.of_nat 11); VInt (b2z nt); VPtr b (Z.of_nat q); q0; z9; z10])).
      { intros hit' y9 y10 Hh. cbn [length] in Hlf. xstep. rewrite (chk_I32 (Z.of_nat j + 1)) by lia. xstep.
        replace (Z.of_nat j + 1) with (Z.of_nat (S j)) by lia.
        exact (IH (S j) Hnext ltac:(lia) hit' Hh y9 y10 lf ltac:(lia)). }
      unfold cls_for, brk_main_loop in Rest; cbn [fn_body cf_brk_match] in Rest.
      destruct (prefixb cc (skipn (S q) s)) eqn:Epre; cbn [negb b2z]; xstep.
      + destruct (ReVM.brk_match d' icase cp c) as [r'| |] eqn:Er; cbn [ReSyntax.bind] in Hhit; try discriminate.
        rewrite (Hrec g2 cp c r' S2 Hcp Hcpf Hcpi Er). xstep.
        destruct r'; cbn [negb b2z] in *; xstep.
        * exact (Rest hit (VPtr g1 0) (VPtr g2 0) Hhit).
        * injection Hhit as <-. eexists. split; [reflexivity|]. split; [reflexivity|]. discriminate.
      + exact (Rest hit (VPtr g1 0) (VPtr g2 0) Hhit).
  Qed.

  Hypothesis Hfs : (length s < fuel)%nat.
  Hypothesis Hmax : Z.of_nat (length s) < 2147483647.
  Hypothesis Hf4 : (4 <= fuel)%nat.
  Variable dep' : nat.
  Hypothesis Hdep : dep = S (S dep').

  Lemma Ulen o : (o <= length s)%nat ->
    callf cprog fuel dep F_re_uc_len [VPtr b (Z.of_nat o)] m = Ok (VInt (Z.of_nat (re_uclen_at s o)), m).
  Proof. intro H. rewrite Hdep. apply tr_re_uc_len; auto. apply nonul_lt256; exact Hnn. Qed.
  Lemma Udec o : (o <= length s)%nat -> exists v, re_ucdec s o = ReSyntax.Ok v /\
    callf cprog fuel dep F_re_uc_dec [VPtr b (Z.of_nat o)] m = Ok (VInt (Z.of_N v), m).
  Proof. intro H. rewrite Hdep. apply tr_re_uc_dec; auto. apply nonul_lt256; exact Hnn. Qed.
  Lemma Blen o : (o < length s)%nat ->
    callf cprog fuel dep F_brk_len [VPtr b (Z.of_nat o)] m = Ok (VInt (Z.of_nat (brk_len (skipn o s))), m).
  Proof. intro H. rewrite Hdep. apply tr_brk_len; auto. Qed.

  Lemma brk_loop_ok v0 q0 fuel2 : forall k q isp0 r x3 x4 x5 x9 x10 lf,
    brk_loop icase c (fun cp => ReVM.brk_match d' icase cp c) k (skipn q s) isp0 nt = ReSyntax.Ok r ->
    (q0 <= q <= length s)%nat -> isp0 = Nat.eqb q q0 -> (k + 12 <= lf)%nat ->
    exists st',
      match exec (callf cprog fuel dep) lf brk_main_loop
              (mkst [v0; VInt (Z.of_N c); VInt flg; x3; x4; x5; VInt (b2z nt); VPtr b (Z.of_nat q); VPtr b (Z.of_nat q0); x9; x10] m) with
      | ONormal st1 => exec (callf cprog fuel dep) fuel2 brk_ret st1
      | o => o
      end = OReturn (VInt (b2z r)) st' /\ memm st' = m.
  Proof.
    pose proof (nonul_lt256 s Hnn) as H256.
    induction k as [|k IH]; intros q isp0 r x3 x4 x5 x9 x10 lf Hm Hq Hisp Hlf; [discriminate|].
    destruct lf as [|lf]; [lia|]. cbn [brk_loop] in Hm. rewrite hd0_skipn, nthb_skipn in Hm.
    unfold brk_main_loop, brk_ret; cbn [fn_body cf_brk_match]; rewrite exec_while. xstep.
    rewrite (load_str m b s _ q Hs) by lia. xstep. fold_sx.
    pose proof (nthb_lt256 s q H256) as Hc. rewrite (sx_eq_0 _ Hc).
    destruct (nthb s q =? 0)%N eqn:E0; cbn [negb orb] in *; xstep.
    { injection Hm as <-. destruct fuel2; xstep; eexists; split; reflexivity. }
    assert (Hlt : (q < length s)%nat) by (apply nthb_nz_lt; intro Z0; rewrite Z0 in E0; discriminate).
    pose proof (nthb_lt256 s (q + 1) H256) as Hc1.
    assert (Hnz : nthb s q <> 0%N) by (intro Z0; rewrite Z0 in E0; discriminate).
    pose proof (re_uclen_at_pos s q Hnz) as Hn1. pose proof (re_uclen_at_in s q ltac:(lia)) as Hin1.
    (* the rest of the loop once the body has moved p to q' > q *)
    assert (Next : forall q' r y3 y4 y5 y9 y10, (q < q' <= length s)%nat ->
      brk_loop icase c (fun cp => ReVM.brk_match d' icase cp c) k (skipn q' s) false nt = ReSyntax.Ok r ->
      exists st',
        match exec (callf cprog fuel dep) lf brk_main_loop
                (mkst [v0; VInt (Z.of_N c); VInt flg; y3; y4; y5; VInt (b2z nt); VPtr b (Z.of_nat q'); VPtr b (Z.of_nat q0); y9; y10] m) with
        | ONormal st1 => exec (callf cprog fuel dep) fuel2 brk_ret st1
        | o => o
        end = OReturn (VInt (b2z r)) st' /\ memm st' = m).
    { intros q' r' y3 y4 y5 y9 y10 Hq' Hm'. apply (IH q' false r' y3 y4 y5 y9 y10 lf Hm'); [lia| |lia].
      symmetry. apply Nat.eqb_neq. lia. }
    unfold brk_main_loop, brk_ret in Next; cbn [fn_body cf_brk_match] in Next.
    (* the branch of the body that reads one character or one range *)
    assert (Plain : forall r,
      ReSyntax.bind (re_ucdec (skipn q s) 0) (fun b0 =>
            ReSyntax.bind (adv SUcLen (skipn q s) (re_uclen (skipn q s))) (fun p1 =>
            ReSyntax.bind (if (hd0 p1 =? 45)%N && negb (nthb p1 1 =? 0)%N && negb (nthb p1 1 =? 93)%N
                           then let p2 := tl p1 in
                                ReSyntax.bind (re_ucdec p2 0) (fun e => ReSyntax.bind (adv SUcLen p2 (re_uclen p2)) (fun p3 => ReSyntax.Ok (e, p3)))
                           else ReSyntax.Ok (b0, p1))
              (fun ep => let '(e, p4) := ep in
                         if (fold icase b0 <=? c)%N && (c <=? fold icase e)%N then ReSyntax.Ok nt
                         else brk_loop icase c (fun cp => ReVM.brk_match d' icase cp c) k p4 false nt))) = ReSyntax.Ok r ->
      exists st',
        match
          match exec (callf cprog fuel dep) (S lf) brk_plain
                  (mkst [v0; VInt (Z.of_N c); VInt flg; x3; x4; x5; VInt (b2z nt); VPtr b (Z.of_nat q); VPtr b (Z.of_nat q0); x9; x10] m) with
          | ONormal st2 | OContinue st2 => exec (callf cprog fuel dep) lf brk_main_loop st2
          | OBreak st2 => ONormal st2
          | o => o
          end
        with
        | ONormal st1 => exec (callf cprog fuel dep) fuel2 brk_ret st1
        | o => o
        end = OReturn (VInt (b2z r)) st' /\ memm st' = m).
    { clear Hm r. intros r Hm.
      rewrite re_ucdec_skipn, Nat.add_0_r in Hm by lia.
      destruct (Udec q ltac:(lia)) as [bv [M1 C1]].
      rewrite M1 in Hm. cbn [ReSyntax.bind] in Hm.
      change (re_uclen (skipn q s)) with (re_uclen_at s q) in Hm. unfold adv in Hm. rewrite skipn_length in Hm.
      replace (Nat.leb (re_uclen_at s q) (length s - q)) with true in Hm by (symmetry; apply Nat.leb_le; lia).
      cbn [ReSyntax.bind] in Hm. rewrite skipn_skipn in Hm.
      set (q1 := (q + re_uclen_at s q)%nat) in *.
      rewrite hd0_skipn, nthb_skipn in Hm.
      unfold brk_plain, brk_body, brk_main_loop, brk_ret; cbn [fn_body cf_brk_match]. xstep.
      rewrite C1. xstep. rewrite (Ulen q) by lia. xstep.
      replace (Z.of_nat q + 1 * Z.of_nat (re_uclen_at s q)) with (Z.of_nat q1) by (unfold q1; lia).
      replace (Z.of_nat q1 + 1 * 0) with (Z.of_nat q1) by lia.
      (* fold beg and end, compare, return or go round *)
      assert (Cmp : forall ev q4, (q < q4 <= length s)%nat ->
        (if (fold icase bv <=? c)%N && (c <=? fold icase ev)%N then ReSyntax.Ok nt
         else brk_loop icase c (fun cp => ReVM.brk_match d' icase cp c) k (skipn q4 s) false nt) = ReSyntax.Ok r ->
        exists st',
          match
            match exec (callf cprog fuel dep) (S lf) brk_cmp_rest
                    (mkst [v0; VInt (Z.of_N c); VInt flg; VInt (Z.of_N bv); VInt (Z.of_N ev); x5; VInt (b2z nt); VPtr b (Z.of_nat q4); VPtr b (Z.of_nat q0); x9; x10] m) with
            | ONormal st2 | OContinue st2 => exec (callf cprog fuel dep) lf brk_main_loop st2
            | OBreak st2 => ONormal st2
            | o => o
            end
          with
          | ONormal st1 => exec (callf cprog fuel dep) fuel2 brk_ret st1
          | o => o
          end = OReturn (VInt (b2z r)) st' /\ memm st' = m).
      { intros ev q4 Hq4 Hm4. unfold brk_cmp_rest, brk_plain, brk_body. unfold brk_main_loop at 1. cbn [fn_body cf_brk_match].
        rewrite exec_seq. change (SIf (EAndAlso (EAndAlso _ (EBin OLt I32 (ELocal 3) _)) _) _ _) with brk_fold3.
        rewrite (brk_fold3_ok m flg icase Hic). rewrite exec_seq.
        change (SIf (EAndAlso (EAndAlso _ (EBin OLt I32 (ELocal 4) _)) _) _ _) with brk_fold4.
        rewrite (brk_fold4_ok m flg icase Hic). xstep. rewrite !N2Z_leb.
        destruct (fold icase bv <=? c)%N; cbn [andb b2z] in *; xstep.
        - destruct (c <=? fold icase ev)%N; cbn [b2z] in *; xstep.
          + injection Hm4 as <-. eexists; split; reflexivity.
          + exact (Next q4 r _ _ _ _ _ Hq4 Hm4).
        - exact (Next q4 r _ _ _ _ _ Hq4 Hm4). }
      unfold brk_cmp_rest, brk_plain, brk_body in Cmp. unfold brk_main_loop at 1 in Cmp. cbn [fn_body cf_brk_match] in Cmp.
      unfold brk_main_loop, brk_ret in Cmp; cbn [fn_body cf_brk_match] in Cmp.
      rewrite (load_str m b s _ q1 Hs) by lia. xstep. fold_sx. rewrite (sx_eq_45 _ (nthb_lt256 s q1 H256)).
      destruct (nthb s q1 =? 45)%N eqn:E45; cbn [andb] in Hm.
      2:{ xstep0. cbn [ReSyntax.bind] in Hm. exact (Cmp bv q1 ltac:(unfold q1; lia) Hm). }
      xstep.
      assert (Hq1 : (q1 < length s)%nat) by (apply nthb_nz_lt; intro Z0; rewrite Z0 in E45; discriminate).
      replace (Z.of_nat q1 + 1 * 1) with (Z.of_nat (q1 + 1)) by lia.
      pose proof (nthb_lt256 s (q1 + 1) H256) as Hc2.
      rewrite (load_str m b s _ (q1 + 1)%nat Hs) by lia. xstep. fold_sx. rewrite (sx_eq_0 _ Hc2).
      destruct (nthb s (q1 + 1) =? 0)%N eqn:E10; cbn [negb andb] in Hm |- *.
      { xstep0. cbn [ReSyntax.bind] in Hm. exact (Cmp bv q1 ltac:(unfold q1; lia) Hm). }
      xstep.
      replace (Z.of_nat q1 + 1 * 1) with (Z.of_nat (q1 + 1)) by lia.
      rewrite (load_str m b s _ (q1 + 1)%nat Hs) by lia. xstep. fold_sx. rewrite (sx_eq_93 _ Hc2).
      destruct (nthb s (q1 + 1) =? 93)%N eqn:E193; cbn [negb andb b2z] in Hm |- *.
      { xstep0. cbn [ReSyntax.bind] in Hm. exact (Cmp bv q1 ltac:(unfold q1; lia) Hm). }
      xstep0.
      replace (Z.of_nat q1 + 1) with (Z.of_nat (S q1)) by lia.
      cbv zeta in Hm. rewrite tl_skipn, re_ucdec_skipn, Nat.add_0_r in Hm by lia.
      destruct (Udec (S q1) ltac:(lia)) as [ev [M2 C2]]. rewrite M2 in Hm. cbn [ReSyntax.bind] in Hm.
      change (re_uclen (skipn (S q1) s)) with (re_uclen_at s (S q1)) in Hm. unfold adv in Hm. rewrite skipn_length in Hm.
      pose proof (re_uclen_at_in s (S q1) ltac:(lia)) as Hin2.
      replace (Nat.leb (re_uclen_at s (S q1)) (length s - S q1)) with true in Hm by (symmetry; apply Nat.leb_le; lia).
      cbn [ReSyntax.bind] in Hm. rewrite skipn_skipn in Hm.
      rewrite C2. xstep0. rewrite (Ulen (S q1)) by lia. xstep0.
      replace (Z.of_nat (S q1) + 1 * Z.of_nat (re_uclen_at s (S q1))) with (Z.of_nat (S q1 + re_uclen_at s (S q1))) by lia.
      exact (Cmp ev (S q1 + re_uclen_at s (S q1))%nat ltac:(unfold q1 in *; lia) Hm). }
    (* one run of the loop body, then the rest of the loop, then the final return *)
    assert (Body : forall r,
      (if (nthb s q =? 91)%N && (nthb s (q + 1) =? 58)%N
       then ReSyntax.bind (cls_hit (fun cp => ReVM.brk_match d' icase cp c) brk_classes (tl (skipn q s)))
              (fun hit => if hit then ReSyntax.Ok nt
                          else ReSyntax.bind (adv SOther (skipn q s) (brk_len (skipn q s)))
                                 (fun p' => brk_loop icase c (fun cp => ReVM.brk_match d' icase cp c) k p' false nt))
       else ReSyntax.bind (re_ucdec (skipn q s) 0) (fun b0 =>
            ReSyntax.bind (adv SUcLen (skipn q s) (re_uclen (skipn q s))) (fun p1 =>
            ReSyntax.bind (if (hd0 p1 =? 45)%N && negb (nthb p1 1 =? 0)%N && negb (nthb p1 1 =? 93)%N
                           then let p2 := tl p1 in
                                ReSyntax.bind (re_ucdec p2 0) (fun e => ReSyntax.bind (adv SUcLen p2 (re_uclen p2)) (fun p3 => ReSyntax.Ok (e, p3)))
                           else ReSyntax.Ok (b0, p1))
              (fun ep => let '(e, p4) := ep in
                         if (fold icase b0 <=? c)%N && (c <=? fold icase e)%N then ReSyntax.Ok nt
                         else brk_loop icase c (fun cp => ReVM.brk_match d' icase cp c) k p4 false nt)))) = ReSyntax.Ok r ->
      exists st',
        match
          match exec (callf cprog fuel dep) (S lf) brk_body
                  (mkst [v0; VInt (Z.of_N c); VInt flg; x3; x4; x5; VInt (b2z nt); VPtr b (Z.of_nat q); VPtr b (Z.of_nat q0); x9; x10] m) with
          | ONormal st2 | OContinue st2 => exec (callf cprog fuel dep) lf brk_main_loop st2
          | OBreak st2 => ONormal st2
          | o => o
          end
        with
        | ONormal st1 => exec (callf cprog fuel dep) fuel2 brk_ret st1
        | o => o
        end = OReturn (VInt (b2z r)) st' /\ memm st' = m).
    { clear Hm r. intros r Hm. unfold brk_body, brk_main_loop; cbn [fn_body cf_brk_match]. xstep.
      replace (Z.of_nat q + 1 * 0) with (Z.of_nat q) by lia.
      rewrite (load_str m b s _ q Hs) by lia. xstep0. fold_sx. rewrite (sx_eq_91 _ Hc).
      unfold brk_plain, brk_body, brk_main_loop, brk_ret in Plain; cbn [fn_body cf_brk_match] in Plain.
      destruct (nthb s q =? 91)%N eqn:E91; cbn [andb] in Hm.
      2:{ xstep0. exact (Plain r Hm). }
      xstep0. replace (Z.of_nat q + 1 * 1) with (Z.of_nat (q + 1)) by lia.
      rewrite (load_str m b s _ (q + 1)%nat Hs) by lia. xstep0. fold_sx. rewrite (sx_eq_58 _ Hc1).
      destruct (nthb s (q + 1) =? 58)%N eqn:E58.
      2:{ xstep0. exact (Plain r Hm). }
      xstep. rewrite tl_skipn in Hm.
      destruct (cls_hit (fun cp => ReVM.brk_match d' icase cp c) brk_classes (skipn (S q) s)) as [hit| |] eqn:Hhit;
        cbn [ReSyntax.bind] in Hm; try discriminate.
      destruct (cls_for_ok v0 x3 x4 q (VPtr b (Z.of_nat q0)) Hlt brk_classes 0%nat eq_refl ltac:(lia) hit Hhit x9 x10 (S lf)
                  ltac:(change (length brk_classes) with 11%nat; lia)) as [stf [X [Y Z]]].
      unfold cls_for, brk_main_loop in X; cbn [fn_body cf_brk_match] in X. cbn [Z.of_nat] in X. rewrite X. clear X.
      destruct hit.
      { injection Hm as <-. eexists; split; [reflexivity|exact Y]. }
      destruct (Z eq_refl) as [y9 [y10 L]]. destruct stf as [ls ms]. cbn [locals memm] in Y, L. subst ls ms.
      xstep. rewrite (Blen q Hlt). xstep.
      unfold adv in Hm. rewrite skipn_length in Hm.
      destruct (Nat.leb_spec (brk_len (skipn q s)) (length s - q)) as [Hbl|Hbl]; cbn [ReSyntax.bind] in Hm; [|discriminate].
      rewrite skipn_skipn in Hm. pose proof (brk_len_ge1 (skipn q s)) as Hb1.
      replace (Z.of_nat q + 1 * Z.of_nat (brk_len (skipn q s))) with (Z.of_nat (q + brk_len (skipn q s))) by lia.
      exact (Next (q + brk_len (skipn q s))%nat r _ _ _ _ _ ltac:(lia) Hm). }
    unfold brk_body, brk_main_loop, brk_ret in Body; cbn [fn_body cf_brk_match] in Body.
    cbn [ptr_cmp]. rewrite Nat.eqb_refl. xstep0. rewrite Nat2Z_eqb, <- Hisp.
    destruct isp0; cbn [negb andb orb b2z Z.eqb] in Hm |- *; xstep0.
    { exact (Body r Hm). }
    rewrite (load_str m b s _ q Hs) by lia. xstep0. fold_sx. rewrite (sx_eq_93 _ Hc).
    destruct (nthb s q =? 93)%N eqn:E93; cbn [negb andb orb b2z Z.eqb] in Hm |- *; xstep0.
    { injection Hm as <-. destruct fuel2; xstep; eexists; split; reflexivity. }
    exact (Body r Hm).
  Qed.
End BrkMatch.

(* ------------------------------------------------------------------ one activation of brk_match *)
Lemma brk_match_call m fuel dep' flg d' :
  globals_at m -> -2147483648 <= flg <= 2147483647 -> (12 <= fuel)%nat -> (4 <= fuel)%nat ->
  Forall (fun cl => (length (snd cl) + 13 <= fuel)%nat) brk_classes ->
  (forall g (cp : bytes) (c : N) r, str_at m g cp -> nonul cp -> (length cp + 13 <= fuel)%nat -> Z.of_nat (length cp) < 2147483647 ->
     ReVM.brk_match d' (has flg REG_ICASE) cp c = ReSyntax.Ok r ->
     callf cprog fuel (S (S dep')) F_brk_match [VPtr g 0; VInt (Z.of_N c); VInt flg] m = Ok (VInt (b2z r), m)) ->
  forall b (s : bytes) o (c : N) r, str_at m b s -> nonul s -> (o <= length s)%nat -> (length s + 13 <= fuel)%nat ->
  Z.of_nat (length s) < 2147483647 ->
  ReVM.brk_match (S d') (has flg REG_ICASE) (skipn o s) c = ReSyntax.Ok r ->
  callf cprog fuel (S (S (S dep'))) F_brk_match [VPtr b (Z.of_nat o); VInt (Z.of_N c); VInt flg] m = Ok (VInt (b2z r), m).
Proof.
  intros Hg Hflg Hf12 Hf4 Hcf Hrec b s o c r Hs Hnn Ho Hf Hmax Hm.
  pose proof (nonul_lt256 s Hnn) as H256. pose proof (nthb_lt256 s o H256) as Hc.
  cbn [ReVM.brk_match] in Hm. rewrite hd0_skipn in Hm.
  enter F_brk_match cf_brk_match.
  rewrite exec_seq, exec_expr. xcbn.
  replace (Z.of_nat o + 1 * 0) with (Z.of_nat o) by lia.
  rewrite (load_str m b s _ o Hs) by lia. xcbn. fold_sx. rewrite (sx_eq_94 _ Hc).
  set (icase := has flg REG_ICASE) in *.
  assert (Loop : forall q0 (nt : bool), (o <= q0 <= length s)%nat ->
    brk_loop icase (fold icase c) (fun cp => ReVM.brk_match d' icase cp (fold icase c)) (S (length (skipn q0 s))) (skipn q0 s) true nt = ReSyntax.Ok r ->
    exists st',
      match exec (callf cprog fuel (S (S dep'))) fuel brk_main_loop
              (mkst [VPtr b (Z.of_nat o); VInt (Z.of_N (fold icase c)); VInt flg; VUndef; VUndef; VUndef; VInt (b2z nt);
                     VPtr b (Z.of_nat q0); VPtr b (Z.of_nat q0); VUndef; VUndef] m) with
      | ONormal st1 => exec (callf cprog fuel (S (S dep'))) fuel brk_ret st1
      | o => o
      end = OReturn (VInt (b2z r)) st' /\ memm st' = m).
  { intros q0 nt Hq0 Hl.
    apply (brk_loop_ok m fuel (S (S dep')) flg icase d' Hg eq_refl Hf12 Hrec Hcf b s (fold icase c) nt Hs Hnn
             ltac:(lia) Hmax Hf4 dep' eq_refl _ q0 fuel _ q0 true r _ _ _ _ _ fuel Hl); [lia|symmetry; apply Nat.eqb_refl|].
    rewrite skipn_length. lia. }
  unfold brk_main_loop, brk_ret in Loop; cbn [fn_body cf_brk_match] in Loop.
  destruct (nthb s o =? 94)%N eqn:E94; cbn [b2z] in *.
  all: rewrite exec_seq, exec_expr; xcbn; try change (1 =? 0) with false; try change (0 =? 0) with true; xcbn;
    rewrite exec_seq, exec_expr; xcbn; rewrite exec_seq;
    change (SIf (EAndAlso (EAndAlso _ (EBin OLt I32 (ELocal 1) _)) _) _ _) with brk_fold_c;
    rewrite (brk_fold_c_ok m flg icase eq_refl); rewrite exec_seq.
  - assert (o < length s)%nat by (apply nthb_nz_lt; intro Z0; rewrite Z0 in E94; discriminate).
    rewrite tl_skipn in Hm.
    replace (Z.of_nat o + 1 * 1) with (Z.of_nat (S o)) by lia.
    destruct (Loop (S o) true ltac:(lia) Hm) as [st' [X Y]]. change (b2z true) with 1 in X. rewrite X, Y. reflexivity.
  - destruct (Loop o false ltac:(lia) Hm) as [st' [X Y]]. change (b2z false) with 0 in X. rewrite X, Y. reflexivity.
Qed.

(* ------------------------------------------------------------------ brk_match, all depths of the model *)
(* enough loop fuel for the class bodies of the table: 13 + the longest body *)
Definition cls_fuel : nat := 13 + fold_right Nat.max 0%nat (map (fun cl => length (snd cl)) brk_classes).
Lemma cls_fuel_ok fuel : (cls_fuel <= fuel)%nat -> Forall (fun cl => (length (snd cl) + 13 <= fuel)%nat) brk_classes.
Proof.
  unfold cls_fuel. generalize brk_classes. induction l as [|cl l IH]; intro H; constructor; cbn [map fold_right] in H; [lia|apply IH; lia].
Qed.

Theorem tr_brk_match d : forall e m fuel flg, globals_at m -> -2147483648 <= flg <= 2147483647 -> (cls_fuel <= fuel)%nat ->
  forall b (s : bytes) o (c : N) r, str_at m b s -> nonul s -> (o <= length s)%nat -> (length s + 13 <= fuel)%nat ->
  Z.of_nat (length s) < 2147483647 ->
  ReVM.brk_match d (has flg REG_ICASE) (skipn o s) c = ReSyntax.Ok r ->
  callf cprog fuel (S (S (S (d + e)))) F_brk_match [VPtr b (Z.of_nat o); VInt (Z.of_N c); VInt flg] m = Ok (VInt (b2z r), m).
Proof.
  induction d as [|d IH]; intros e m fuel flg Hg Hflg Hcf b s o c r Hs Hnn Ho Hf Hmax Hm; [discriminate|].
  pose proof (cls_fuel_ok fuel Hcf) as Hcl. assert (13 <= fuel)%nat by (unfold cls_fuel in Hcf; lia).
  replace (S (S (S (S d + e)))) with (S (S (S (S (d + e))))) by lia.
  refine (brk_match_call m fuel (S (d + e)) flg d Hg Hflg ltac:(lia) ltac:(lia) Hcl _ b s o c r Hs Hnn Ho Hf Hmax Hm).
  intros g cp c0 r0 Hcp Hcn Hlf Hli Hb.
  pose proof (IH e m fuel flg Hg Hflg Hcf g cp 0%nat c0 r0 Hcp Hcn ltac:(lia) Hlf Hli Hb) as T. exact T.
Qed.

(* ------------------------------------------------------------------ ratom_match on a bracket expression *)
(* the C text stores the advanced position BEFORE it asks brk_match: when the bracket expression then refuses the
   character, 1 is returned with rs->s already moved (re_rec discards or restores the state after a failed atom) *)
Definition brk_advanced (flg : Z) (line : bytes) (p : nat) : bool :=
  match re_ucdec line p with
  | ReSyntax.Ok c => negb ((c =? 0)%N || ((c =? 10)%N && has flg REG_NEWLINE))
  | _ => false
  end.

Lemma globals_at_upd m br blk : globals_at m -> (length cglobals <= br)%nat -> (br < length m)%nat -> globals_at (upd m br blk).
Proof.
  intros [HL Hg] Hb Hl. split; [rewrite upd_length by exact Hl; exact HL|].
  intros g blk' Hin Hn. rewrite mem_upd_other; [apply Hg; assumption|exact Hl|].
  assert (g < length cglobals)%nat by (apply nth_error_Some; congruence). lia.
Qed.

Theorem tr_ratom_match_brk_at m ba oa bs br bl rs line sb p flg e fuel :
  load m ba oa = Ok (VInt 91) -> load m ba (oa + 1 * 1) = Ok (VPtr bs 0) -> str_at m bs sb -> nonul sb -> sb <> [] ->
  rstate_at m br bl rs p flg -> str_at m bl line -> bytes_lt256 line -> (p <= length line)%nat ->
  globals_at m -> (length cglobals <= br)%nat -> br <> bs -> ba <> br ->
  -2147483648 <= flg <= 2147483647 -> (length line < fuel)%nat -> (cls_fuel <= fuel)%nat -> (length sb + 13 <= fuel)%nat ->
  Z.of_nat (length sb) < 2147483647 ->
  callf cprog fuel (S (S (S (S (S (S e)))))) F_ratom_match [VPtr ba oa; VPtr br 0] m =
  match ratom_match flg line (ABrk sb) p with
  | ReSyntax.Ok (Some p') => Ok (VInt 0, upd m br (upd rs 0 (VPtr bl (Z.of_nat p'))))
  | ReSyntax.Ok None =>
      Ok (VInt 1, if brk_advanced flg line p then upd m br (upd rs 0 (VPtr bl (Z.of_nat (p + re_uclen_at line p)))) else m)
  | _ => Err EShape
  end.
Proof.
  intros L_ra L_as Hs Hnn Hne [Hr [Hr0 [Hr1 Hrf]]] Hl H256 Hp Hg Hbr Hbs Hba Hflg Hf Hcf Hfs Hmax.
  assert (Hf4 : (4 <= fuel)%nat) by (unfold cls_fuel in Hcf; lia).
  pose proof (load_cell m br _ 0 _ Hr Hr0 ltac:(lia)) as L_s.
  pose proof (load_cell m br _ (0 + 1 * 131) _ Hr Hrf ltac:(lia)) as L_f.
  assert (Hlen : (131 < length rs)%nat) by (apply nth_error_Some; rewrite Hrf; discriminate).
  pose proof (re_uclen_at_in line p Hp) as Hin.
  enter F_ratom_match cf_ratom_match.
  repeat (progress (rewrite ?L_ra, ?L_s, ?L_f; xstep; wrap_const; zeqb_const; rewrite ?(wrap_I32_id flg Hflg); cbn [b2z andb orb negb])).
  destruct (tr_re_uc_dec m bl line p (S (S (S e))) fuel Hl H256 Hp Hf4) as [cv [M1 C1]].
  rewrite C1. unfold ratom_match, brk_advanced. rewrite M1. cbn [ReSyntax.bind]. unfold has at 1 3, REG_NEWLINE.
  xstep.
  change (Z.of_N cv =? 0) with (Z.of_N cv =? Z.of_N 0). rewrite N2Z_eqb.
  change (Z.of_N cv =? 10) with (Z.of_N cv =? Z.of_N 10). rewrite N2Z_eqb.
  set (skip := ((cv =? 0)%N || ((cv =? 10)%N && negb (Z.land flg 8 =? 0)))).
  match goal with
  | |- context [if negb (negb (cv =? 0)%N) then ?A else ?B] =>
      assert (Cond : (if negb (negb (cv =? 0)%N) then A else B)
                     = Ok (VInt (b2z skip), mkst [VPtr ba oa; VPtr br 0; VUndef; VUndef; VUndef; VUndef; VUndef; VInt (Z.of_N cv)] m))
  end.
  { unfold skip. destruct (cv =? 0)%N; cbn [negb orb andb]; [reflexivity|].
    destruct (cv =? 10)%N; cbn [negb orb andb]; xstep; [|reflexivity].
    rewrite L_f. xstep. rewrite (wrap_I32_id flg Hflg). destruct (Z.land flg 8 =? 0); reflexivity. }
  rewrite Cond. clear Cond. xstep.
  destruct skip eqn:Esk; xstep; [reflexivity|].
  (* rs->s += uc_len(rs->s), then the bracket expression is asked in the memory after the store *)
  repeat (progress (rewrite ?L_s; xstep)). rewrite (tr_re_uc_len m bl line p (S (S (S (S e)))) fuel Hl H256 Hp Hf4). xstep.
  rewrite (store_ok m br rs 0 _ Hr) by lia. xstep.
  replace (Z.of_nat p + 1 * Z.of_nat (re_uclen_at line p)) with (Z.of_nat (p + re_uclen_at line p)) by lia.
  assert (Hbrm : (br < length m)%nat).
  { apply (proj1 (nth_error_Some m br)). intro X. assert (Some rs = None) as Y by (rewrite <- Hr; exact X). discriminate Y. }
  rewrite (load_upd_other_block m br _ ba _ Hbrm Hba), L_as. xstep.
  rewrite (load_upd_other_cell m br rs 0 (0 + 1 * 131) _ Hr) by lia. rewrite L_f. xstep.
  rewrite (wrap_I32_id flg Hflg).
  match goal with |- context [callf _ _ _ F_brk_match _ ?mm] => set (m1 := mm) in * end.
  destruct (ReProps11.brk_match2_ok (has flg REG_ICASE) (tl sb) cv) as [r Hbm].
  assert (G1 : globals_at m1) by (apply globals_at_upd; assumption).
  assert (S1 : str_at m1 bs sb) by (apply str_at_upd_other; [exact Hbrm|intro X; apply Hbs; symmetry; exact X|exact Hs]).
  assert (Hsb1 : (1 <= length sb)%nat) by (destruct sb; [congruence|cbn; lia]).
  change (callf cprog fuel (S (S (S (S (S e))))) F_brk_match [VPtr bs (0 + 1 * 1); VInt (Z.of_N cv); VInt flg] m1)
    with (callf cprog fuel (S (S (S (S (S e))))) F_brk_match [VPtr bs (Z.of_nat 1); VInt (Z.of_N cv); VInt flg] m1).
  pose proof (tr_brk_match 2 e m1 fuel flg G1 Hflg Hcf bs sb 1%nat cv r S1 Hnn Hsb1 Hfs Hmax Hbm) as T.
  cbn [Nat.add] in T. rewrite T. xstep.
  rewrite (rdk_in _ line p Hp). cbn [ReSyntax.bind].
  replace (Nat.leb (p + re_uclen_at line p) (length line)) with true by (symmetry; apply Nat.leb_le; lia). cbn [negb].
  rewrite Hbm. cbn [ReSyntax.bind].
  destruct r; reflexivity.
Qed.

Theorem tr_ratom_match_brk m ba bs br bl rs line sb p flg e fuel :
  nth_error m ba = Some [VInt 91; VPtr bs 0] -> str_at m bs sb -> nonul sb -> sb <> [] ->
  rstate_at m br bl rs p flg -> str_at m bl line -> bytes_lt256 line -> (p <= length line)%nat ->
  globals_at m -> (length cglobals <= br)%nat -> br <> bs -> ba <> br ->
  -2147483648 <= flg <= 2147483647 -> (length line < fuel)%nat -> (cls_fuel <= fuel)%nat -> (length sb + 13 <= fuel)%nat ->
  Z.of_nat (length sb) < 2147483647 ->
  callf cprog fuel (S (S (S (S (S (S e)))))) F_ratom_match [VPtr ba 0; VPtr br 0] m =
  match ratom_match flg line (ABrk sb) p with
  | ReSyntax.Ok (Some p') => Ok (VInt 0, upd m br (upd rs 0 (VPtr bl (Z.of_nat p'))))
  | ReSyntax.Ok None =>
      Ok (VInt 1, if brk_advanced flg line p then upd m br (upd rs 0 (VPtr bl (Z.of_nat (p + re_uclen_at line p)))) else m)
  | _ => Err EShape
  end.
Proof.
  intro Ha. apply tr_ratom_match_brk_at.
  - exact (load_cell m ba _ 0 _ Ha eq_refl ltac:(lia)).
  - exact (load_cell m ba _ (0 + 1 * 1) _ Ha eq_refl ltac:(lia)).
Qed.
