(* DirtyIoDefs.v -- C02 with writes that can FAIL (round e/f).
   DirtyDefs.v treats a write as atomic and successful (DSaveWhole / DSaveOwn / DSaveOther).  Here the saved-state
   bookkeeping of DirtyDefs (lbuf_saved / lbuf_unsaved through write_own, the ghost `disk`) is put behind the write
   machinery of IoDefs.v (C03): lbuf_save = mtime guards, open, lbuf_wr + write_fully, close, under a fault schedule with
   one outcome per open/write/close call.  ec_write touches the bookkeeping only when lbuf_save returned NULL; the
   close() of the written file is the last call that can make it fail.
   Mirrors ex.c: ec_write (:w, :b,ew, :w path, :x and the write part of :wq / :x), ec_quit for q / wq / x / xa with or
   without `!` over the table of buffers, with bufs_modified (counter bump) and bufs_switch (bump of the buffer left).
   No proofs here (DirtyIoProps.v). *)
From Coq Require Import List Arith NArith ZArith Bool.
From NV Require Import Bytes GenConsts UndoDefs DirtyDefs.
From NV Require IoDefs.
Import ListNotations.

(* one entry of bufs[]: the line buffer with its ghost disk, the path, the recorded time stamp *)
Record fbuf := { fe : ebuf; fpath : nat; fts : Z }.
Definition set_fe (f : fbuf) (e : ebuf) : fbuf := {| fe := e; fpath := fpath f; fts := fts f |}.

(* ec_write(loc, cmd, arg): rng = None when no address was given; isx = cmd[0] == 'x'; force = '!' in cmd *)
Definition fwrite (now : Z) (isx force : bool) (rng : option (nat * nat)) (path : nat) (f : fbuf)
                  (fs : IoDefs.fsys) (sch : list IoDefs.outcome)
  : IoDefs.status * fbuf * IoDefs.fsys * list IoDefs.outcome :=
  let e1 := if isx then fst (bufs_modified (fe f)) else fe f in          (* cmd[0] == 'x' && !lbuf_modified(xb): the call bumps *)
  if isx && negb (dirty_flag (fe f)) then (IoDefs.SOk, set_fe f e1, fs, sch)
  else
    let n := length (ln (lb e1)) in
    let '(b, en) := match rng with Some r => r | None => (0, n) end in
    let own := Nat.eqb (fpath f) path in
    let ts := if own then fts f else 0%Z in
    let '(st, fs', r) := IoDefs.lbuf_save now (ln (lb e1)) b en path force ts fs sch in
    match st with
    | IoDefs.SOk =>                                                      (* err == NULL: "[w]", lbuf_saved / lbuf_unsaved, mtime *)
        (IoDefs.SOk,
         (if own then {| fe := write_own e1 b en; fpath := fpath f; fts := IoDefs.fs_mtime fs' path |} else set_fe f e1),
         fs', r)
    | _ => (st, set_fe f e1, fs', r)                                     (* ex_show(err); return 1 *)
    end.

(* bufs_switch on entries *)
Definition fbump (f : fbuf) : fbuf := set_fe f (bumpE (fe f)).
Definition fswitch (pre : list fbuf) (b : fbuf) (r : list fbuf) : list fbuf :=
  match pre with
  | [] => fbump b :: r
  | x :: p => b :: fbump x :: p ++ r
  end.

(* the loop of ec_quit: (xquit, status shown, bufs[], file system, unused schedule) *)
Fixpoint fquit_loop (now : Z) (all bang : bool) (pre l : list fbuf) (fs : IoDefs.fsys) (sch : list IoDefs.outcome)
  : bool * IoDefs.status * list fbuf * IoDefs.fsys * list IoDefs.outcome :=
  match l with
  | [] => (true, IoDefs.SOk, rev pre, fs, sch)
  | f :: r =>
    let chk := negb all && negb bang in                                  (* !strchr(cmd, 'a') && !strchr(cmd, '!') *)
    let f1 := if chk then set_fe f (fst (bufs_modified (fe f))) else f in
    if chk && dirty_flag (fe f) then (false, IoDefs.SRefused, fswitch (rev pre) f1 r, fs, sch)   (* "buffer modified" *)
    else if all then
      match IoDefs.lbuf_save now (ln (lb (fe f1))) 0 (length (ln (lb (fe f1)))) (fpath f1) bang (fts f1) fs sch with
      | (IoDefs.SOk, fs', r') => fquit_loop now all bang (f1 :: pre) r fs' r'
      | (st, fs', r') => (false, st, fswitch (rev pre) f1 r, fs', r')    (* bufs_switch(i); ex_show(err); return 0 *)
      end
    else fquit_loop now all bang (f1 :: pre) r fs sch
  end.

(* ec_quit for q, q!, wq [path], wq!, x [path], x!, xa, xa!   (wr = cmd[0] is w or x; path = the argument or the own path) *)
Definition fec_quit (now : Z) (wr isx all bang : bool) (path : nat) (t : list fbuf) (fs : IoDefs.fsys) (sch : list IoDefs.outcome)
  : bool * IoDefs.status * list fbuf * IoDefs.fsys * list IoDefs.outcome :=
  match t with
  | [] => (true, IoDefs.SOk, t, fs, sch)
  | f0 :: rest =>
    if wr then
      match fwrite now isx bang None path f0 fs sch with
      | (IoDefs.SOk, f0', fs', r) => fquit_loop now all bang [] (f0' :: rest) fs' r
      | (st, f0', fs', r) => (false, st, f0' :: rest, fs', r)            (* if (ec_write(...)) return 1 *)
      end
    else fquit_loop now all bang [] t fs sch
  end.

(* histories of one buffer: everything of DirtyDefs (a DSave* there is a write that went through) interleaved with
   writes under arbitrary fault schedules *)
Inductive fop :=
| FD (o : dop)
| FW (now : Z) (isx force : bool) (rng : option (nat * nat)) (path : nat) (sch : list IoDefs.outcome).
Record fstate := { fb : fbuf; ffs : IoDefs.fsys }.
Definition frun_op (s : fstate) (o : fop) : fstate :=
  match o with
  | FD d => {| fb := set_fe (fb s) (run_dop (fe (fb s)) d); ffs := ffs s |}
  | FW now isx force rng path sch =>
      match fwrite now isx force rng path (fb s) (ffs s) sch with
      | (_, f', fs', _) => {| fb := f'; ffs := fs' |}
      end
  end.
Fixpoint frun (s : fstate) (ops : list fop) : fstate :=
  match ops with [] => s | o :: r => frun (frun_op s o) r end.
Definition fopen (c : list N) (p : nat) (ts : Z) (fs : IoDefs.fsys) : fstate :=
  {| fb := {| fe := ebuf_open c; fpath := p; fts := ts |}; ffs := fs |}.
