(* TrRsetFind.v -- rset_find of /repo/rset.c (the CLite term cf_rset_find that tools/c2clite.py printed from clang's AST, whitelist
   tools/c2clite.d/96a_rsetfind.list) is the model RsetDefs.rset_find_d, RELATIVE to the answer of the one call of regexec it makes.

   struct rset { regex_t regex; int n; int *grp; int *setgrpcnt; int grpcnt; } is a block of 5 cells (regex_t = one pointer cell);
   grp[] and setgrpcnt[] are int arrays in blocks of their own; subs = malloc(grpcnt * sizeof(regmatch_t)) is a fresh block of
   2 * grpcnt cells (regmatch_t = rm_so, rm_eo); the caller's grps[] is a block of at least 2 * n cells.
   The theorem quantifies over the result of the call regexec(&rs->regex, s, rs->grpcnt, subs, regex_flg) on exactly the memory
   rset_find built (regexec_ans: the value r, the subs block holding the model's marks when r == 0, the blocks that existed at
   the call unchanged) and says: the index returned is the one the model picks from regexec's answer (rset_pick = the body of
   RsetDefs.rset_find_d behind its call of regexec_d), grps[] holds the model's groups (the groups of that alternative, renumbered
   from 0, -1 beyond its count), subs is freed, every other block is what regexec left.  Every load and store is inside its block
   (CLite checks them), no int operation overflows, the flag word handed to regexec is REG_NEWLINE | (RE_NOTBOL -> REG_NOTBOL) |
   (RE_NOTEOL -> REG_NOTEOL), i.e. the model's.
   Nothing here depends on the proofs about regex.c: the composition with TrRegexRec.tr_regexec_model is in TrRsetFindRx.v. *)
From Coq Require Import List ZArith NArith Bool Lia.
From NV Require Import Bytes GenConsts ReSyntax ReEmit ReVM RsetDefs CLite CLiteProps GenCFuncs CLiteTac.
Import ListNotations.
Local Open Scope Z_scope.

(* ------------------------------------------------------------------ the model behind the call of regexec *)
Definition neg1 : Z * Z := (-1, -1).
(* what rset_find_d does with regexec's answer subs *)
Definition rset_pick (n_rs : nat) (grp : list Z) (sgc : list nat) (subs : list (Z * Z)) (n : nat) : Z * list (Z * Z) :=
  let set := rset_which (firstn n_rs grp) subs 0 (-1) in
  if set <? 0 then (set, [])
  else
    let base := Z.to_nat (nth (Z.to_nat set) grp 0) in
    let cnt := nth (Z.to_nat set) sgc O in
    (set, map (fun i => if Nat.ltb i (cnt + 1) then nth (base + i) subs neg1 else neg1) (seq 0 n)).
Definition rset_answer (n_rs : nat) (grp : list Z) (sgc : list nat) (osubs : option (list (Z * Z))) (n : nat) : Z * list (Z * Z) :=
  match osubs with Some subs => rset_pick n_rs grp sgc subs n | None => (-1, []) end.
(* the flag word rset_find hands to regexec *)
Definition eflg_of (flg : Z) : Z :=
  Z.lor REG_NEWLINE (Z.lor (if has flg RE_NOTBOL then REG_NOTBOL else 0) (if has flg RE_NOTEOL then REG_NOTEOL else 0)).

(* RsetDefs.rset_find_d is: the guard on grpcnt, the call of regexec_d with eflg_of flg, rset_answer *)
Lemma rset_find_d_answer d (rs : rset) line n flg :
  rset_find_d d rs line n flg =
  if Nat.leb (rs_grpcnt rs) 2 then (ReSyntax.Ok (-1, []), 0%N)
  else match regexec_d d (rs_prog rs) (rs_cflg rs) line (rs_grpcnt rs) (eflg_of flg) with
       | (ReSyntax.Ok osubs, c) => (ReSyntax.Ok (rset_answer (rs_n rs) (rs_grp rs) (rs_setgrpcnt rs) osubs n), c)
       | (ReSyntax.OOB w, c) => (ReSyntax.OOB w, c)
       | (ReSyntax.NoFuel, c) => (ReSyntax.NoFuel, c)
       end.
Proof.
  unfold rset_find_d, eflg_of. destruct (Nat.leb (rs_grpcnt rs) 2); [reflexivity|].
  destruct (regexec_d d (rs_prog rs) (rs_cflg rs) line (rs_grpcnt rs) _) as [[[subs|]| |] c]; try reflexivity.
  unfold rset_answer, rset_pick. fold neg1. destruct (_ <? 0); reflexivity.
Qed.

(* ------------------------------------------------------------------ generic facts *)
Lemma rf_load_arr (m : mem) b (l : list Z) (rest : block) o i : nth_error m b = Some (map VInt l ++ rest) -> o = i ->
  0 <= i < Z.of_nat (length l) -> load m b o = Ok (VInt (nthz l i)).
Proof.
  intros Hm -> Hi. unfold load. rewrite Hm. destruct (Z.ltb_spec i 0); [lia|].
  rewrite nth_error_app1 by (rewrite map_length; lia). rewrite nth_error_map, (nth_error_nth' l 0) by lia. reflexivity.
Qed.
Lemma rf_load_cell (m : mem) b (blk : block) o v : nth_error m b = Some blk -> nth_error blk (Z.to_nat o) = Some v -> 0 <= o ->
  load m b o = Ok v.
Proof. intros Hm Hv Ho. unfold load. rewrite Hm. destruct (Z.ltb_spec o 0); [lia|]. rewrite Hv. reflexivity. Qed.
Lemma rf_load_tab (m : mem) b (tab : list (Z * Z)) o g : nth_error m b = Some (tab_block tab) -> 0 <= g < Z.of_nat (length tab) ->
  (o = 2 * g -> load m b o = Ok (VInt (fst (nth (Z.to_nat g) tab neg1)))) /\
  (o = 2 * g + 1 -> load m b o = Ok (VInt (snd (nth (Z.to_nat g) tab neg1)))).
Proof.
  intros Hm Hg. destruct (nth_error_tab_block tab (Z.to_nat g) ltac:(lia)) as [A B].
  rewrite (nth_indep tab (0, 0) neg1) in A, B by lia.
  split; intros ->; apply (rf_load_cell m b _ _ _ Hm); try lia.
  - replace (Z.to_nat (2 * g)) with (2 * Z.to_nat g)%nat by lia. exact A.
  - replace (Z.to_nat (2 * g + 1)) with (2 * Z.to_nat g + 1)%nat by lia. exact B.
Qed.
Lemma rf_wrap_I64 z : int_ok z -> wrap I64 z = z.
Proof.
  intro H. unfold int_ok in H. unfold wrap. cbn [ity_bits ity_signed andb].
  change (2 ^ 64) with 18446744073709551616. change (2 ^ (64 - 1)) with 9223372036854775808.
  destruct (Z.leb_spec 9223372036854775808 (z mod 18446744073709551616)) as [L|L].
  - assert (z < 0) by (destruct (Z.lt_ge_cases z 0); [assumption|rewrite Z.mod_small in L by lia; lia]).
    rewrite <- (Z.mod_add z 1 18446744073709551616) by lia. rewrite Z.mod_small by lia. lia.
  - assert (0 <= z) by (destruct (Z.lt_ge_cases z 0); [|assumption]; exfalso;
      rewrite <- (Z.mod_add z 1 18446744073709551616) in L by lia; rewrite Z.mod_small in L by lia; lia).
    apply Z.mod_small. lia.
Qed.
Lemma rf_upd_mid {A} (a b : list A) x y n : length a = n -> upd (a ++ x :: b) n y = a ++ y :: b.
Proof.
  intros <-. unfold upd. rewrite firstn_app, Nat.sub_diag, firstn_all. cbn [firstn]. rewrite app_nil_r. f_equal. f_equal.
  rewrite skipn_app, skipn_all2 by lia. replace (S (length a) - length a)%nat with 1%nat by lia. reflexivity.
Qed.
Lemma rf_tab_block_app a b : tab_block (a ++ b) = tab_block a ++ tab_block b.
Proof. apply flat_map_app. Qed.
Lemma rf_tab_block_length a : length (tab_block a) = (2 * length a)%nat.
Proof. induction a as [|x a IH]; [reflexivity|]. unfold tab_block in *. cbn [flat_map app length]. rewrite IH. lia. Qed.
Lemma rf_tab_nth_ok (tab : list (Z * Z)) i : tab_ok tab -> int_ok (fst (nth i tab neg1)) /\ int_ok (snd (nth i tab neg1)).
Proof.
  intro H. destruct (Nat.lt_ge_cases i (length tab)) as [L|L].
  - unfold tab_ok in H. rewrite Forall_forall in H. apply H. apply nth_In. exact L.
  - rewrite nth_overflow by exact L. unfold neg1, int_ok. cbn. lia.
Qed.
Lemma rf_skipn_cons {A} (l : list A) i d : (i < length l)%nat -> skipn i l = nth i l d :: skipn (S i) l.
Proof.
  revert l; induction i as [|i IH]; intros [|x l] H; cbn [length] in H; try lia; [reflexivity|].
  cbn [skipn nth]. apply IH. lia.
Qed.
Lemma rf_seq_S a n : seq a (S n) = seq a n ++ [(a + n)%nat].
Proof. revert a; induction n as [|n IH]; intro a; [cbn; f_equal; lia|]. cbn [seq app] in *. f_equal. rewrite IH. do 2 f_equal. lia. Qed.

(* ------------------------------------------------------------------ the pieces of the C text *)
Definition rf_loop1 : stmt :=
  match fn_body cf_rset_find with
  | SSeq _ (SSeq _ (SSeq _ (SSeq _ (SSeq _ (SSeq _ (SSeq _ (SSeq (SSeq _ w) _))))))) => w | _ => SSkip end.
Definition rf_loop2 : stmt :=
  match fn_body cf_rset_find with
  | SSeq _ (SSeq _ (SSeq _ (SSeq _ (SSeq _ (SSeq _ (SSeq _ (SSeq _ (SSeq (SIf _ (SSeq _ w) _) _)))))))) => w | _ => SSkip end.

(* the tables of a set: what rset_find needs of them to stay inside subs[] and inside int *)
Definition rset_tabs_ok (n_rs grpcnt : Z) (grp : list Z) (sgc : list nat) : Prop :=
  0 <= n_rs <= 2147483647 /\ (Z.to_nat n_rs <= length grp)%nat /\ (Z.to_nat n_rs <= length sgc)%nat /\ ints_ok grp /\
  forall i, 0 <= i < n_rs -> nthz grp i < grpcnt /\ (0 <= nthz grp i -> nthz grp i + Z.of_nat (nth (Z.to_nat i) sgc O) < grpcnt).

Section RsetFind.
  Variables (rb bre bg bsg sb gb : nat) (n_rs grpcnt : Z) (grp : list Z) (sgc : list nat) (restg rests : block) (subs : list (Z * Z)).
  Hypothesis Hgb1 : gb <> rb.
  Hypothesis Hgb2 : gb <> bg.
  Hypothesis Hgb3 : gb <> bsg.
  Hypothesis Hgb4 : gb <> sb.
  Hypothesis Htabs : rset_tabs_ok n_rs grpcnt grp sgc.
  Hypothesis Hsubs_len : Z.of_nat (length subs) = grpcnt.
  Hypothesis Hsubs_ok : tab_ok subs.
  Hypothesis Hgc : 2 < grpcnt <= 2147483647.

  (* the blocks rset_find reads while it writes grps[] *)
  Definition rf_view (mm : mem) : Prop :=
    nth_error mm rb = Some [VPtr bre 0; VInt n_rs; VPtr bg 0; VPtr bsg 0; VInt grpcnt] /\
    nth_error mm bg = Some (map VInt grp ++ restg) /\
    nth_error mm bsg = Some (map VInt (map Z.of_nat sgc) ++ rests) /\
    nth_error mm sb = Some (tab_block subs).
  Lemma rf_view_upd mm B : rf_view mm -> (gb < length mm)%nat -> rf_view (upd mm gb B).
  Proof. intros (A1 & A2 & A3 & A4) L. unfold rf_view. rewrite !mem_upd_other by (auto; congruence). auto. Qed.

  Lemma rf_ld_n mm : rf_view mm -> load mm rb (0 + 1 * 1) = Ok (VInt n_rs).
  Proof. intros (A & _). unfold load. rewrite A. reflexivity. Qed.
  Lemma rf_ld_grp mm : rf_view mm -> load mm rb (0 + 1 * 2) = Ok (VPtr bg 0).
  Proof. intros (A & _). unfold load. rewrite A. reflexivity. Qed.
  Lemma rf_ld_sgc mm : rf_view mm -> load mm rb (0 + 1 * 3) = Ok (VPtr bsg 0).
  Proof. intros (A & _). unfold load. rewrite A. reflexivity. Qed.

  Let n_int : wrap I32 n_rs = n_rs. Proof. apply wrap_I32_id. destruct Htabs as (A & _). lia. Qed.

  (* for (i = 0; found && i < rs->n; i++) if (rs->grp[i] >= 0 && subs[rs->grp[i]].rm_so >= 0) set = i;   with found = 1 *)
  Lemma rf_loop1_ok call mm sv nv gpv fv ef l10 : rf_view mm ->
    forall k i set fuel, k = Z.to_nat (n_rs - i) -> 0 <= i <= n_rs -> (k < fuel)%nat ->
    exec call fuel rf_loop1 (mkst [VPtr rb 0; sv; nv; gpv; fv; VPtr sb 0; VInt 1; VInt i; VInt set; ef; l10] mm)
    = ONormal (mkst [VPtr rb 0; sv; nv; gpv; fv; VPtr sb 0; VInt 1; VInt n_rs;
                     VInt (rset_which (skipn (Z.to_nat i) (firstn (Z.to_nat n_rs) grp)) subs i set); ef; l10] mm).
  Proof.
    intro V. pose proof V as (V1 & V2 & V3 & V4). destruct Htabs as (Hn & Hlg & Hls & Hig & Hb).
    induction k as [|k IH]; intros i set fuel Hk Hi Hf; (destruct fuel as [|fuel]; [lia|]);
      unfold rf_loop1; cbn [fn_body cf_rset_find]; rewrite exec_for; xstep; rewrite (rf_ld_n mm V); xstep; rewrite n_int.
    - destruct (Z.ltb_spec i n_rs); [lia|]. xstep. assert (i = n_rs) as -> by lia.
      rewrite skipn_all2 by (rewrite firstn_length; lia). reflexivity.
    - destruct (Z.ltb_spec i n_rs); [|lia]. xstep.
      rewrite (rf_ld_grp mm V). xstep.
      rewrite (rf_load_arr mm bg grp restg _ i V2) by lia. xstep.
      pose proof (nthz_ok grp i Hig) as Hgi. rewrite (wrap_I32_id (nthz grp i) Hgi).
      destruct (Hb i ltac:(lia)) as [Hlt Hsum].
      rewrite (rf_skipn_cons (firstn (Z.to_nat n_rs) grp) (Z.to_nat i) 0) by (rewrite firstn_length; lia).
      replace (nth (Z.to_nat i) (firstn (Z.to_nat n_rs) grp) 0) with (nthz grp i)
        by (symmetry; apply (nthz_firstn grp (Z.to_nat n_rs) i); lia).
      cbn [rset_which]. fold neg1.
      assert (Next : forall set',
        match exec call (S fuel) SSkip (mkst [VPtr rb 0; sv; nv; gpv; fv; VPtr sb 0; VInt 1; VInt i; VInt set'; ef; l10] mm) with
        | ONormal st2 | OContinue st2 =>
            match eval call (EIncLocal true 7 (Some I32) 1) st2 with
            | Ok (_, st3) => exec call fuel rf_loop1 st3
            | Err x => OErr x
            end
        | OBreak st2 => ONormal st2
        | o => o
        end = ONormal (mkst [VPtr rb 0; sv; nv; gpv; fv; VPtr sb 0; VInt 1; VInt n_rs;
                             VInt (rset_which (skipn (S (Z.to_nat i)) (firstn (Z.to_nat n_rs) grp)) subs (i + 1) set'); ef; l10] mm)).
      { intro set'. xstep. rewrite (chk_I32 (i + 1)) by lia. xstep.
        rewrite (IH (i + 1) set' fuel) by lia. replace (Z.to_nat (i + 1)) with (S (Z.to_nat i)) by lia. reflexivity. }
      unfold rf_loop1 in Next; cbn [fn_body cf_rset_find] in Next.
      destruct (Z.leb_spec 0 (nthz grp i)) as [G0|G0]; cbn [b2z andb]; xstep.
      + rewrite (rf_ld_grp mm V). xstep.
        rewrite (rf_load_arr mm bg grp restg _ i V2) by lia. xstep. rewrite (wrap_I32_id (nthz grp i) Hgi).
        destruct (rf_load_tab mm sb subs (0 + 2 * nthz grp i) (nthz grp i) V4 ltac:(lia)) as [Ld _]. rewrite Ld by lia. xstep.
        destruct (rf_tab_nth_ok subs (Z.to_nat (nthz grp i)) Hsubs_ok) as [Ok1 _].
        rewrite (rf_wrap_I64 _ Ok1). change (wrap I64 0) with 0.
        destruct (Z.leb_spec 0 (fst (nth (Z.to_nat (nthz grp i)) subs neg1))); cbn [b2z]; xstep.
        * exact (Next i).
        * exact (Next set).
      + exact (Next set).
  Qed.

  (* the groups of alternative `set`, renumbered from 0 *)
  Variable set : Z.
  Hypothesis Hset : 0 <= set < n_rs.
  Hypothesis Hbase : 0 <= nthz grp set.
  Let base := Z.to_nat (nth (Z.to_nat set) grp 0).
  Let cnt := nth (Z.to_nat set) sgc O.
  Definition rf_grp_of (i : nat) : Z * Z := if Nat.ltb i (cnt + 1) then nth (base + i) subs neg1 else neg1.

  Definition rf_body2 : stmt := match rf_loop2 with SFor _ _ b => b | _ => SSkip end.
  Lemma rf_loop2_eq : rf_loop2 = SFor (Some (EBin OLt I32 (ELocal 7) (ELocal 2))) (Some (EIncLocal true 7 (Some I32) 1)) rf_body2.
  Proof. reflexivity. Qed.

  (* int grp = rs->grp[set] + i; if (i < rs->setgrpcnt[set] + 1) { grps[i * 2] = subs[grp].rm_so; grps[i * 2 + 1] = subs[grp].rm_eo; }
     else { grps[i * 2 + 0] = -1; grps[i * 2 + 1] = -1; } *)
  Lemma rf_body2_ok call fuel sv n fv ef i mm l10 (pre : block) x y rest :
    n * 2 <= 2147483647 -> grpcnt + n <= 2147483647 -> 0 <= i < n -> rf_view mm ->
    nth_error mm gb = Some (pre ++ x :: y :: rest) -> length pre = (2 * Z.to_nat i)%nat ->
    exec call fuel rf_body2 (mkst [VPtr rb 0; sv; VInt n; VPtr gb 0; fv; VPtr sb 0; VInt 1; VInt i; VInt set; ef; l10] mm)
    = ONormal (mkst [VPtr rb 0; sv; VInt n; VPtr gb 0; fv; VPtr sb 0; VInt 1; VInt i; VInt set; ef; VInt (nthz grp set + i)]
                    (upd mm gb (pre ++ VInt (fst (rf_grp_of (Z.to_nat i))) :: VInt (snd (rf_grp_of (Z.to_nat i))) :: rest))).
  Proof.
    intros Hn2 Hgn Hi V Hm Lpre. destruct Htabs as (Hn & Hlg & Hls & Hig & Hb).
    pose proof V as (V1 & V2 & V3 & V4).
    assert (Hgbl : (gb < length mm)%nat) by (apply nth_error_Some; congruence).
    unfold rf_body2, rf_loop2; cbn [fn_body cf_rset_find]. xstep.
    rewrite (rf_ld_grp mm V). xstep. rewrite (rf_load_arr mm bg grp restg _ set V2) by lia. xstep.
    pose proof (nthz_ok grp set Hig) as Hgi. rewrite (wrap_I32_id (nthz grp set) Hgi).
    destruct (Hb set Hset) as [Hlt Hsum]. specialize (Hsum Hbase).
    rewrite (chk_I32 (nthz grp set + i)) by lia. xstep.
    rewrite (rf_ld_sgc mm V). xstep.
    rewrite (rf_load_arr mm bsg (map Z.of_nat sgc) rests _ set V3) by (rewrite ?map_length; lia). xstep.
    assert (Ecnt : nthz (map Z.of_nat sgc) set = Z.of_nat cnt).
    { unfold nthz, cnt. change 0 with (Z.of_nat 0). apply map_nth. }
    rewrite Ecnt. fold cnt in Hsum.
    rewrite (wrap_I32_id (Z.of_nat cnt)) by lia. rewrite (chk_I32 (Z.of_nat cnt + 1)) by lia. xstep.
    unfold rf_grp_of.
    assert (Hci : (Z.to_nat i <? cnt + 1)%nat = (i <? Z.of_nat cnt + 1)).
    { destruct (Nat.ltb_spec (Z.to_nat i) (cnt + 1)); destruct (Z.ltb_spec i (Z.of_nat cnt + 1)); try reflexivity; lia. }
    rewrite Hci.
    destruct (Z.ltb_spec i (Z.of_nat cnt + 1)) as [Lc|Lc]; cbn [b2z]; xstep.
    - (* grps[i * 2] = subs[grp].rm_so;  grps[i * 2 + 1] = subs[grp].rm_eo; *)
      rewrite (chk_I32 (i * 2)) by lia. xstep.
      destruct (rf_load_tab mm sb subs (0 + 2 * (nthz grp set + i)) (nthz grp set + i) V4 ltac:(lia)) as [Ld0 _]. rewrite Ld0 by lia. xstep.
      replace (Z.to_nat (nthz grp set + i)) with (base + Z.to_nat i)%nat by (unfold base, nthz in *; lia).
      destruct (rf_tab_nth_ok subs (base + Z.to_nat i) Hsubs_ok) as [Ok1 Ok2].
      rewrite (rf_wrap_I64 _ Ok1), !(wrap_I32_id _ Ok1).
      rewrite (store_ok mm gb _ (0 + 1 * (i * 2)) _ Hm) by (rewrite app_length, Lpre; cbn [length]; lia).
      rewrite (rf_upd_mid pre _ x) by lia. xstep.
      rewrite (chk_I32 (i * 2)) by lia. xstep. rewrite (chk_I32 (i * 2 + 1)) by lia. xstep.
      assert (V' : rf_view (upd mm gb (pre ++ VInt (fst (nth (base + Z.to_nat i) subs neg1)) :: y :: rest))) by (apply rf_view_upd; assumption).
      pose proof V' as (_ & _ & _ & V4').
      destruct (rf_load_tab _ sb subs (0 + 2 * (nthz grp set + i) + 1 * 1) (nthz grp set + i) V4' ltac:(lia)) as [_ Ld1]. rewrite Ld1 by lia. xstep.
      replace (Z.to_nat (nthz grp set + i)) with (base + Z.to_nat i)%nat by (unfold base, nthz in *; lia).
      rewrite (rf_wrap_I64 _ Ok2), !(wrap_I32_id _ Ok2).
      rewrite (store_ok _ gb (pre ++ VInt (fst (nth (base + Z.to_nat i) subs neg1)) :: y :: rest) (0 + 1 * (i * 2 + 1)))
        by (try (apply mem_upd_same; exact Hgbl); rewrite app_length, Lpre; cbn [length]; lia).
      replace (pre ++ VInt (fst (nth (base + Z.to_nat i) subs neg1)) :: y :: rest)
        with ((pre ++ [VInt (fst (nth (base + Z.to_nat i) subs neg1))]) ++ y :: rest) by (rewrite <- app_assoc; reflexivity).
      rewrite (rf_upd_mid _ rest y) by (rewrite app_length, Lpre; cbn [length]; lia).
      rewrite upd_upd by exact Hgbl. rewrite <- app_assoc. cbn [app]. xstep. reflexivity.
    - (* grps[i * 2 + 0] = -1;  grps[i * 2 + 1] = -1; *)
      rewrite (chk_I32 (i * 2)) by lia. xstep. rewrite (chk_I32 (i * 2 + 0)) by lia. xstep.
      rewrite (chk_I32 (- (1))) by lia. xstep. change (wrap I32 (- (1))) with (-1).
      rewrite (store_ok mm gb _ (0 + 1 * (i * 2 + 0)) _ Hm) by (rewrite app_length, Lpre; cbn [length]; lia).
      rewrite (rf_upd_mid pre _ x) by lia. xstep.
      rewrite (chk_I32 (i * 2)) by lia. xstep. rewrite (chk_I32 (i * 2 + 1)) by lia. xstep.
      rewrite (chk_I32 (- (1))) by lia. xstep. change (wrap I32 (- (1))) with (-1).
      rewrite (store_ok _ gb (pre ++ VInt (-1) :: y :: rest) (0 + 1 * (i * 2 + 1)))
        by (try (apply mem_upd_same; exact Hgbl); rewrite app_length, Lpre; cbn [length]; lia).
      replace (pre ++ VInt (-1) :: y :: rest) with ((pre ++ [VInt (-1)]) ++ y :: rest) by (rewrite <- app_assoc; reflexivity).
      rewrite (rf_upd_mid _ rest y) by (rewrite app_length, Lpre; cbn [length]; lia).
      rewrite upd_upd by exact Hgbl. rewrite <- app_assoc. cbn [app]. xstep. reflexivity.
  Qed.

  (* for (i = 0; i < n; i++) { ... } *)
  Lemma rf_loop2_ok call sv n fv ef gold : n * 2 <= 2147483647 -> grpcnt + n <= 2147483647 -> (2 * Z.to_nat n <= length gold)%nat ->
    forall k i mm fuel l10, rf_view mm -> k = Z.to_nat (n - i) -> 0 <= i -> (i <= n \/ k = 0%nat) ->
    nth_error mm gb = Some (tab_block (map rf_grp_of (seq 0 (Z.to_nat i))) ++ skipn (2 * Z.to_nat i) gold) -> (k < fuel)%nat ->
    exists l10',
    exec call fuel rf_loop2 (mkst [VPtr rb 0; sv; VInt n; VPtr gb 0; fv; VPtr sb 0; VInt 1; VInt i; VInt set; ef; l10] mm)
    = ONormal (mkst [VPtr rb 0; sv; VInt n; VPtr gb 0; fv; VPtr sb 0; VInt 1; VInt (i + Z.of_nat k); VInt set; ef; l10']
                    (upd mm gb (tab_block (map rf_grp_of (seq 0 (Z.to_nat i + k))) ++ skipn (2 * (Z.to_nat i + k)) gold))).
  Proof.
    intros Hn2 Hgn Hgold.
    induction k as [|k IH]; intros i mm fuel l10 V Hk Hi Hin Hm Hf; (destruct fuel as [|fuel]; [lia|]);
      rewrite rf_loop2_eq, exec_for; xstep.
    - destruct (Z.ltb_spec i n); [lia|]. xstep. exists l10. rewrite !Nat.add_0_r, Z.add_0_r. rewrite upd_self by exact Hm. reflexivity.
    - destruct (Z.ltb_spec i n); [|lia]. xstep.
      assert (Hgbl : (gb < length mm)%nat) by (apply nth_error_Some; congruence).
      set (pre := tab_block (map rf_grp_of (seq 0 (Z.to_nat i)))) in *.
      assert (Lpre : length pre = (2 * Z.to_nat i)%nat) by (unfold pre; rewrite rf_tab_block_length, map_length, seq_length; reflexivity).
      assert (Lrest : (2 <= length (skipn (2 * Z.to_nat i) gold))%nat) by (rewrite skipn_length; lia).
      destruct (skipn (2 * Z.to_nat i) gold) as [|x [|y rest]] eqn:Erest; try (cbn [length] in Lrest; lia).
      assert (Erest' : skipn (2 * (Z.to_nat i + 1)) gold = rest).
      { replace (2 * (Z.to_nat i + 1))%nat with (2 * Z.to_nat i + 2)%nat by lia. rewrite <- skipn_skipn, Erest. reflexivity. }
      rewrite (rf_body2_ok call (S fuel) sv n fv ef i mm l10 pre x y rest Hn2 Hgn ltac:(lia) V Hm Lpre). xstep.
      rewrite (chk_I32 (i + 1)) by lia. xstep. rewrite <- rf_loop2_eq.
      destruct (IH (i + 1) (upd mm gb (pre ++ VInt (fst (rf_grp_of (Z.to_nat i))) :: VInt (snd (rf_grp_of (Z.to_nat i))) :: rest)) fuel
                  (VInt (nthz grp set + i))) as [l10' X]; try lia.
      + apply rf_view_upd; assumption.
      + rewrite mem_upd_same by exact Hgbl. replace (Z.to_nat (i + 1)) with (Z.to_nat i + 1)%nat by lia.
        rewrite Erest'. rewrite Nat.add_1_r, rf_seq_S, map_app, rf_tab_block_app. cbn [map tab_block flat_map app Nat.add].
        fold pre. rewrite <- app_assoc. reflexivity.
      + exists l10'. rewrite X. rewrite upd_upd by exact Hgbl.
        replace (Z.to_nat (i + 1) + k)%nat with (Z.to_nat i + S k)%nat by lia.
        replace (i + 1 + Z.of_nat k) with (i + Z.of_nat (S k)) by lia. reflexivity.
  Qed.
End RsetFind.

(* ------------------------------------------------------------------ which alternative: facts about the model's scan *)
Lemma rset_which_spec subs : forall l i set,
  let r := rset_which l subs i set in
  r = set \/ (i <= r < i + Z.of_nat (length l) /\ 0 <= nth (Z.to_nat (r - i)) l 0).
Proof.
  induction l as [|g l IH]; intros i set; cbn [rset_which]; [left; reflexivity|].
  cbv zeta in IH. cbn [length].
  destruct (IH (i + 1) (if (0 <=? g) && (0 <=? fst (nth (Z.to_nat g) subs (-1, -1))) then i else set)) as [E|[E1 E2]].
  - rewrite E. destruct (Z.leb_spec 0 g) as [G|G]; cbn [andb]; [|left; reflexivity].
    destruct (0 <=? fst _); [|left; reflexivity]. right. rewrite Z.sub_diag. cbn [Z.to_nat nth]. lia.
  - right. split; [lia|].
    replace (Z.to_nat (rset_which l subs (i + 1) (if (0 <=? g) && (0 <=? fst (nth (Z.to_nat g) subs (-1, -1))) then i else set) - i))
      with (S (Z.to_nat (rset_which l subs (i + 1) (if (0 <=? g) && (0 <=? fst (nth (Z.to_nat g) subs (-1, -1))) then i else set) - (i + 1)))) by lia.
    exact E2.
Qed.

(* ------------------------------------------------------------------ the answer of the one call of regexec *)
(* m = the memory at the call of rset_find, sb = the block of subs[] (the first block allocated after the call), m2 = the memory
   regexec leaves: r == 0 and subs[] holds grpcnt pairs of ints, or r != 0 and subs[] is still allocated; the blocks that existed
   at the call of rset_find are unchanged *)
Definition regexec_ans (m m2 : mem) (sb : nat) (grpcnt r : Z) (osubs : option (list (Z * Z))) : Prop :=
  (forall b, (b < length m)%nat -> nth_error m2 b = nth_error m b) /\
  match osubs with
  | Some subs => r = 0 /\ nth_error m2 sb = Some (tab_block subs) /\ Z.of_nat (length subs) = grpcnt /\ tab_ok subs
  | None => r <> 0 /\ exists blk, nth_error m2 sb = Some blk /\ blk <> []
  end.

Definition rf_tail : stmt :=
  match fn_body cf_rset_find with SSeq _ (SSeq _ (SSeq _ (SSeq _ (SSeq _ t)))) => t | _ => SSkip end.

(* set = -1; regex_flg = REG_NEWLINE; the guard; the two flag tests *)
Lemma rf_head_ok call fuel (m : mem) rb (blk : block) grpcnt sv nv gpv flg :
  nth_error m rb = Some blk -> nth_error blk 4 = Some (VInt grpcnt) -> -2147483648 <= grpcnt <= 2147483647 ->
  exec call fuel (fn_body cf_rset_find) (mkst [VPtr rb 0; sv; nv; gpv; VInt flg; VUndef; VUndef; VUndef; VUndef; VUndef; VUndef] m)
  = if grpcnt <=? 2 then OReturn (VInt (-1)) (mkst [VPtr rb 0; sv; nv; gpv; VInt flg; VUndef; VUndef; VUndef; VInt (-1); VInt 8; VUndef] m)
    else exec call fuel rf_tail (mkst [VPtr rb 0; sv; nv; gpv; VInt flg; VUndef; VUndef; VUndef; VInt (-1); VInt (eflg_of flg); VUndef] m).
Proof.
  intros Hm Hc Hg. unfold rf_tail. cbn [fn_body cf_rset_find]. unfold eflg_of, has. change RE_NOTBOL with 2. change RE_NOTEOL with 4.
  xstep. rewrite (chk_I32 (- (1))) by lia. xstep.
  rewrite !(rf_load_cell m rb blk (0 + 1 * 4) _ Hm Hc) by lia. xstep. rewrite !wrap_I32_id by exact Hg.
  destruct (grpcnt <=? 2); xstep; [rewrite (chk_I32 (- (1))) by lia; reflexivity|].
  destruct (Z.land flg 2 =? 0) eqn:E2; destruct (Z.land flg 4 =? 0) eqn:E4;
    repeat (progress (rewrite ?E2, ?E4; cbn [negb]; xstep; rewrite ?(rf_load_cell m rb blk (0 + 1 * 4) _ Hm Hc) by lia; rewrite ?wrap_I32_id by exact Hg));
    reflexivity.
Qed.

Lemma rf_msize grpcnt : 0 <= grpcnt <= 2147483647 ->
  (do a <- chk U64 (wrap U64 grpcnt * 16); do b <- chk U64 (a * 2); if 16 =? 0 then Err EDivZero else chk U64 (b ÷ 16)) = Ok (2 * grpcnt).
Proof.
  intro H. rewrite (wrap_U64_id grpcnt) by lia. rewrite (chk_U64 (grpcnt * 16)) by lia. cbn [bind].
  rewrite (chk_U64 (grpcnt * 16 * 2)) by lia. cbn [bind]. change (16 =? 0) with false. cbv iota.
  replace (grpcnt * 16 * 2) with (2 * grpcnt * 16) by lia. rewrite Z.quot_mul by lia. apply chk_U64. lia.
Qed.

(* THE THEOREM (relative to regexec).  For EVERY struct rset in memory (block rb: regex, n, grp, setgrpcnt, grpcnt; the two tables in
   blocks bg and bsg; rset_tabs_ok: the entries of grp[0..n-1] index subs[] and grp[i] + setgrpcnt[i] stays below grpcnt), every line
   pointer, every n and flag word, every block gb of at least 2 * n cells for grps[] (its old contents are arbitrary), and EVERY answer
   of the call regexec(&rs->regex, s, rs->grpcnt, subs, REG_NEWLINE | ...) on the memory with the fresh subs block (regexec_ans):
   rset_find returns the index the model computes from that answer and leaves the model's groups in grps[]; subs is freed (its
   block is empty afterwards), every other block is as regexec left it.  With grpcnt <= 2 (an empty set) the result is -1 and
   nothing is allocated. *)
Theorem tr_rset_find_rel (m : mem) rb bre bg bsg gb n_rs grpcnt grp sgc restg rests bl o n flg (gold : block) D fuel r osubs m2 :
  nth_error m rb = Some [VPtr bre 0; VInt n_rs; VPtr bg 0; VPtr bsg 0; VInt grpcnt] ->
  nth_error m bg = Some (map VInt grp ++ restg) -> nth_error m bsg = Some (map VInt (map Z.of_nat sgc) ++ rests) ->
  nth_error m gb = Some gold -> gb <> rb -> gb <> bg -> gb <> bsg ->
  rset_tabs_ok n_rs grpcnt grp sgc -> 2 < grpcnt <= 2147483647 ->
  n * 2 <= 2147483647 -> grpcnt + n <= 2147483647 -> (2 * Z.to_nat n <= length gold)%nat ->
  (Z.to_nat n_rs < fuel)%nat -> (Z.to_nat n < fuel)%nat ->
  let sb := length m in
  callf cprog fuel D F_regexec [VPtr rb 0; VPtr bl o; VInt grpcnt; VPtr sb 0; VInt (eflg_of flg)] (m ++ [repeat VUndef (Z.to_nat (2 * grpcnt))])
    = Ok (VInt r, m2) ->
  regexec_ans m m2 sb grpcnt r osubs ->
  let R := rset_answer (Z.to_nat n_rs) grp sgc osubs (Z.to_nat n) in
  callf cprog fuel (S D) F_rset_find [VPtr rb 0; VPtr bl o; VInt n; VPtr gb 0; VInt flg] m
  = Ok (VInt (fst R), upd (if fst R <? 0 then m2 else upd m2 gb (tab_block (snd R) ++ skipn (2 * Z.to_nat n) gold)) sb []).
Proof.
  intros Hrb Hbg Hbsg Hgb G1 G2 G3 Htabs Hgc Hn2 Hgn Hgold Hf1 Hf2 sb Hcall [Hfr Hans] R.
  assert (Lrb : (rb < length m)%nat) by (apply nth_error_Some; congruence).
  assert (Lbg : (bg < length m)%nat) by (apply nth_error_Some; congruence).
  assert (Lbsg : (bsg < length m)%nat) by (apply nth_error_Some; congruence).
  assert (Lgb : (gb < length m)%nat) by (apply nth_error_Some; congruence).
  enter F_rset_find cf_rset_find.
  rewrite (rf_head_ok _ fuel m rb _ grpcnt _ _ _ flg Hrb eq_refl) by lia.
  destruct (Z.leb_spec grpcnt 2); [lia|].
  unfold rf_tail; cbn [fn_body cf_rset_find]. xstep.
  rewrite (rf_load_cell m rb _ (0 + 1 * 4) _ Hrb eq_refl) by lia. xstep. rewrite (wrap_I32_id grpcnt) by lia.
  rewrite (wrap_U64_id grpcnt) by lia. rewrite (chk_U64 (grpcnt * 16)) by lia. xstep.
  rewrite (chk_U64 (grpcnt * 16 * 2)) by lia. xstep. change (16 =? 0) with false. cbv iota.
  replace (grpcnt * 16 * 2) with (2 * grpcnt * 16) by lia. rewrite Z.quot_mul by lia. rewrite (chk_U64 (2 * grpcnt)) by lia. xstep.
  rewrite (malloc_ok m (2 * grpcnt)) by lia. xstep. fold sb.
  set (m1 := m ++ [repeat VUndef (Z.to_nat (2 * grpcnt))]) in *.
  assert (Hrb1 : nth_error m1 rb = Some [VPtr bre 0; VInt n_rs; VPtr bg 0; VPtr bsg 0; VInt grpcnt])
    by (unfold m1; rewrite nth_error_app_old by exact Lrb; exact Hrb).
  rewrite (rf_load_cell m1 rb _ (0 + 1 * 4) _ Hrb1 eq_refl) by lia. xstep. rewrite (wrap_I32_id grpcnt) by lia.
  rewrite Hcall. xstep.
  assert (Lm2 : (length m <= length m2)%nat).
  { destruct (Nat.le_gt_cases (length m) (length m2)) as [L|L]; [exact L|exfalso].
    pose proof (Hfr rb Lrb) as X. rewrite Hrb in X.
    assert (rb < length m2)%nat by (apply nth_error_Some; congruence).
    pose proof (Hfr (length m2) L) as Y. rewrite (proj2 (nth_error_None m2 (length m2)) (le_n _)) in Y.
    symmetry in Y. apply nth_error_None in Y. lia. }
  assert (Hgb2 : nth_error m2 gb = Some gold) by (rewrite Hfr by exact Lgb; exact Hgb).
  assert (Lgb2 : (gb < length m2)%nat) by (apply nth_error_Some; congruence).
  destruct osubs as [subs|].
  - (* found *)
    destruct Hans as (-> & Hsb & Hsl & Hsok). change (0 =? 0) with true. cbn [negb b2z].
    assert (G4 : gb <> sb) by (unfold sb; lia).
    assert (V : rf_view rb bre bg bsg sb n_rs grpcnt grp sgc restg rests subs m2).
    { unfold rf_view. rewrite !Hfr by assumption. auto. }
    pose proof (rf_loop1_ok rb bre bg bsg sb gb n_rs grpcnt grp sgc restg rests subs G1 G2 G3 G4 Htabs Hsl Hsok (callf cprog fuel D) m2
                  (VPtr bl o) (VInt n) (VPtr gb 0) (VInt flg) (VInt (eflg_of flg)) VUndef V (Z.to_nat n_rs) 0 (-1) fuel ltac:(lia)
                  ltac:(destruct Htabs as (A & _); lia) Hf1) as L1.
    unfold rf_loop1 in L1; cbn [fn_body cf_rset_find] in L1. rewrite L1. clear L1. xstep.
    change (Z.to_nat 0) with 0%nat. cbn [skipn].
    unfold R, rset_answer, rset_pick. fold neg1.
    set (st := rset_which (firstn (Z.to_nat n_rs) grp) subs 0 (-1)) in *.
    assert (Hnon : tab_block subs <> []).
    { intro E. apply (f_equal (@length val)) in E. rewrite rf_tab_block_length in E. cbn [length] in E. lia. }
    destruct (rset_which_spec subs (firstn (Z.to_nat n_rs) grp) 0 (-1)) as [E|[E1 E2]]; fold st in E || fold st in E1, E2.
    + (* no alternative has its wrapper group set *)
      rewrite E. change (0 <=? -1) with false. change (-1 <? 0) with true. cbn [b2z fst snd]. change (-1 <? 0) with true. cbv iota. xstep.
      rewrite (free_ok m2 sb _ Hsb Hnon). xstep. reflexivity.
    + destruct Htabs as (Hn & Hlg & Hls & Hig & Hb).
      rewrite firstn_length, Nat.min_l in E1 by lia. rewrite Z.sub_0_r in E2.
      assert (Hbase : 0 <= nthz grp st).
      { unfold nthz. rewrite <- (firstn_skipn (Z.to_nat n_rs) grp). rewrite app_nth1 by (rewrite firstn_length; lia). exact E2. }
      destruct (Z.leb_spec 0 st) as [S0|S0]; [|lia]. destruct (Z.ltb_spec st 0) as [S1|S1]; [lia|]. cbn [b2z fst snd].
      destruct (Z.ltb_spec st 0) as [S2|S2]; [lia|]. xstep.
      destruct (rf_loop2_ok rb bre bg bsg sb gb n_rs grpcnt grp sgc restg rests subs G1 G2 G3 G4
                  (conj Hn (conj Hlg (conj Hls (conj Hig Hb)))) Hsl Hsok Hgc st ltac:(lia) Hbase (callf cprog fuel D) (VPtr bl o) n (VInt flg)
                  (VInt (eflg_of flg)) gold Hn2 Hgn Hgold (Z.to_nat (n - 0)) 0 m2 fuel VUndef V eq_refl ltac:(lia) ltac:(lia)
                  ltac:(cbn [Z.to_nat seq map tab_block flat_map app Nat.mul skipn]; exact Hgb2) ltac:(lia)) as [l10' L2].
      unfold rf_loop2 in L2; cbn [fn_body cf_rset_find] in L2. rewrite L2. clear L2. xstep.
      change (Z.to_nat 0) with 0%nat. cbn [Nat.add]. replace (Z.to_nat (n - 0)) with (Z.to_nat n) by lia.
      set (G := map (rf_grp_of grp sgc subs st) (seq 0 (Z.to_nat n))).
      assert (Hsb' : nth_error (upd m2 gb (tab_block G ++ skipn (2 * Z.to_nat n) gold)) sb = Some (tab_block subs))
        by (rewrite mem_upd_other by (auto; lia); exact Hsb).
      rewrite (free_ok _ sb _ Hsb' Hnon). xstep. reflexivity.
  - (* not found *)
    destruct Hans as (Hr & blk & Hsb & Hne).
    replace (r =? 0) with false by (symmetry; apply Z.eqb_neq; exact Hr). cbn [negb b2z].
    destruct fuel as [|fuel]; [lia|]. rewrite exec_for. xstep.
    rewrite (free_ok m2 sb _ Hsb Hne). xstep. reflexivity.
Qed.
Print Assumptions tr_rset_find_rel.

(* the empty set: rs->grpcnt <= 2: -1, the memory is unchanged, regexec is not called *)
Theorem tr_rset_find_empty (m : mem) rb (blk : block) grpcnt sv nv gpv flg d fuel :
  nth_error m rb = Some blk -> nth_error blk 4 = Some (VInt grpcnt) -> -2147483648 <= grpcnt <= 2 ->
  callf cprog fuel (S d) F_rset_find [VPtr rb 0; sv; nv; gpv; VInt flg] m = Ok (VInt (-1), m).
Proof.
  intros Hm Hc Hg. enter F_rset_find cf_rset_find. rewrite (rf_head_ok _ fuel m rb blk grpcnt sv nv gpv flg Hm Hc) by lia.
  destruct (Z.leb_spec grpcnt 2); [reflexivity|lia].
Qed.

(* ------------------------------------------------------------------ the tables rset_make builds satisfy rset_tabs_ok *)
Lemma rset_build_tabs : forall res sb gc,
  let '(sb', g, sg, gc') := rset_build res sb gc in
  length g = length res /\ length sg = length res /\ (gc <= gc')%nat /\
  forall i, (i < length res)%nat ->
    -1 <= nth i g 0 /\ nth i g 0 < Z.of_nat gc' /\ (0 <= nth i g 0 -> nth i g 0 + Z.of_nat (nth i sg O) < Z.of_nat gc').
Proof.
  induction res as [|[p|] res IH]; intros sb gc; cbn [rset_build].
  - cbn [length]. repeat split; try lia.
  - specialize (IH ((if Nat.ltb 1 (length sb) then sb ++ [124%N] else sb) ++ [40%N] ++ p ++ [41%N]) (gc + 1 + re_groupcount p)%nat).
    destruct (rset_build res _ _) as [[[sb' g] sg] gc']. destruct IH as (L1 & L2 & L3 & L4). cbn [length].
    split; [lia|]. split; [lia|]. split; [lia|]. intros [|i] Hi; cbn [nth]; [lia|]. apply L4. lia.
  - specialize (IH sb gc). destruct (rset_build res sb gc) as [[[sb' g] sg] gc']. destruct IH as (L1 & L2 & L3 & L4). cbn [length].
    split; [lia|]. split; [lia|]. split; [lia|]. intros [|i] Hi; cbn [nth]; [lia|]. apply L4. lia.
Qed.

Lemma rset_make_tabs_ok res flg rs : rset_make res flg = ReSyntax.Ok (Some rs) ->
  Z.of_nat (length res) <= 2147483647 -> Z.of_nat (rs_grpcnt rs) <= 2147483647 ->
  rset_tabs_ok (Z.of_nat (rs_n rs)) (Z.of_nat (rs_grpcnt rs)) (rs_grp rs) (rs_setgrpcnt rs) /\ (2 <= rs_grpcnt rs)%nat.
Proof.
  intros H Hn Hg. unfold rset_make in H. pose proof (rset_build_tabs res [40%N] 2) as T.
  destruct (rset_build res [40%N] 2) as [[[sb' g] sg] gc']. destruct T as (L1 & L2 & L3 & L4).
  destruct (existsb _ (somes res)); [discriminate|].
  destruct (ReEmit.regcomp (sb' ++ [41%N])) as [[pr|]| |]; try discriminate. cbn [ReSyntax.bind] in H. injection H as <-.
  cbn [rs_n rs_grp rs_setgrpcnt rs_grpcnt] in *. split; [|exact L3].
  split; [lia|]. split; [rewrite Nat2Z.id, app_length; lia|]. split; [rewrite Nat2Z.id; lia|]. split.
  - unfold ints_ok. apply Forall_app. split.
    + apply Forall_forall. intros x Hx. destruct (In_nth _ _ 0 Hx) as (i & Hi & <-). destruct (L4 i ltac:(lia)) as (A & B & _). lia.
    + constructor; [lia|constructor].
  - intros i Hi. unfold nthz. rewrite app_nth1 by lia. destruct (L4 (Z.to_nat i) ltac:(lia)) as (A & B & C). split; [exact B|exact C].
Qed.
