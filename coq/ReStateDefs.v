(* ReStateDefs.v -- the state that survives between calls of regex.c / rset.c, made explicit.

   File-scope variables of regex.c, rset.c, rstr.c (everything else lives in the objects the caller holds):
     regex.c  static int re_bad              written by rnode_grp (2x) and rnode_atom ("= 1"), cleared and read by regcomp
     regex.c  static char *brk_classes[][2]  constant table (GenConsts.brk_classes), never written
     regex.c  int re_verif_depthcut          only under NEATVI_VERIF: a counter that is incremented, never read by the
                                             code; the model returns the increment of one call (the N next to every result)
     rset.c, rstr.c                          none
   So the only state a call can inherit from an earlier call is re_bad.  The parser model of ReParse.v describes the
   flag by the parallel functions *_bad ("was it set during this call"); that is the view of a caller that knows the
   flag was 0 on entry.  Here the flag is a value threaded through every function that can touch it, statement by
   statement as in the C code, through a sequence of regcomp / rset_make / rset_find calls of one process.
   ReStateProps.v proves that the answers are those of the pure functions whatever the flag was before.  No proofs here. *)
From Coq Require Import List NArith ZArith Bool.
From NV Require Import Bytes GenConsts ReSyntax ReParse ReEmit ReVM RsetDefs.
Import ListNotations.
Local Open Scope N_scope.

(* a result together with the value of re_bad after the call *)
Definition stres (A : Type) : Type := res (A * bool).
(* a pure result paired with a flag value; errors carry no state *)
Definition lift {A} (r : res A) (b : bool) : stres A :=
  match r with Ok x => Ok (x, b) | OOB w => OOB w | NoFuel => NoFuel end.

Section ParseSt.
  Variable parse_st : bytes -> bool -> stres (option node * bytes).

  (* rnode_grp: "re_bad = 1" when nothing is inside the group and when the group is not closed *)
  Definition rnode_grp_st (s : bytes) (st : bool) : stres (option node * bytes) :=
    if negb (hd0 s =? 40) then Ok ((None, s), st)
    else
      let s1 := tl s in
      if negb (hd0 s1 =? 41) then
        do r <- parse_st s1 st;
        match r with
        | ((None, s2), _) => Ok ((None, s2), true)                      (* re_bad = 1; return NULL; *)
        | ((Some x, s2), st1) =>
          if negb (hd0 s2 =? 41) then Ok ((None, s2), true)             (* rnode_free; re_bad = 1; return NULL; *)
          else Ok ((Some (NGrp x 0 1 1), tl s2), st1)
        end
      else Ok ((Some (NGrp NNil 0 1 1), tl s1), st).                    (* "()" *)

  (* rnode_atom: "re_bad = 1" for a bad repetition count *)
  Definition rnode_atom_st (s : bytes) (st : bool) : stres (option node * bytes) :=
    if (hd0 s =? 0) || (hd0 s =? 124) || (hd0 s =? 41) then Ok ((None, s), st)
    else
      do ns <- (if hd0 s =? 40 then rnode_grp_st s st
                else do a <- ratom_read s; Ok ((Some (NAtom (fst a) 1 1), snd a), st));
      match ns with
      | ((None, s1), st1) => Ok ((None, s1), st1)
      | ((Some n, s1), st1) =>
        do rp <- rep_suffix s1;
        match rp with
        | (None, s2) => Ok ((None, s2), true)                           (* rnode_free; re_bad = 1; return NULL; *)
        | (Some (mn, mx), s2) => Ok ((Some (set_rep n mn mx), s2), st1)
        end
      end.

  Fixpoint rnode_seq_st (f : nat) (s : bytes) (st : bool) : stres (option node * bytes) :=
    match f with
    | O => NoFuel
    | S f' =>
      do c1 <- rnode_atom_st s st;
      match c1 with
      | ((None, s1), st1) => Ok ((None, s1), st1)
      | ((Some x, s1), st1) =>
        do c2 <- rnode_seq_st f' s1 st1;
        match c2 with
        | ((Some y, s2), st2) => Ok ((Some (NCat x y), s2), st2)
        | ((None, s2), st2) => Ok ((Some x, s2), st2)
        end
      end
    end.
End ParseSt.

Fixpoint rnode_parse_st (f : nat) (s : bytes) (st : bool) : stres (option node * bytes) :=
  match f with
  | O => NoFuel
  | S f' =>
    do c1 <- rnode_seq_st (rnode_parse_st f') f' s st;
    let '((x, s1), st1) := c1 in
    if negb (hd0 s1 =? 124) then Ok ((x, s1), st1)
    else
      do c2 <- rnode_parse_st f' (tl s1) st1;
      match c2 with
      | ((Some y, s2), st2) => Ok ((Some (NAlt (of_opt x) y), s2), st2)
      | ((None, s2), st2) => Ok ((x, s2), st2)
      end
  end.

(* ---- regcomp with the flag --------------------------------------------------------------------
   `entry_reset` = the statement "re_bad = 0;" at the top of regcomp is present.  The code of /repo is
   regcomp_st = regcomp_gen true.  With entry_reset = false the flag is instead cleared where it is consumed
   ("if (re_bad || *pat) { re_bad = 0; ... }"): the variant kept here only to show that the sequence theorem
   is about that statement (ReStateProps.late_reset_refuted).
   An OOB / NoFuel outcome of the parser is outside the C semantics (C11_parse_in_bounds excludes it for every
   pattern rset_make builds); the flag component is then the value it had after the entry statement. *)
Definition regcomp_gen (entry_reset : bool) (pat : bytes) (st : bool) : res (option prog) * bool :=
  let st0 := if entry_reset then false else st in                       (* re_bad = 0; *)
  match rnode_parse_st (parse_fuel pat) pat st0 with
  | Ok ((None, _), st1) => (Ok None, st1)                               (* if (!rnode) return 1; *)
  | Ok ((Some t, rest), st1) =>
    if st1 || negb (match rest with [] => true | _ => false end)        (* if (re_bad || *pat) { free; return 1; } *)
    then (Ok None, if entry_reset then st1 else false)
    else if ((0 <=? NINST) && (NINST <=? count t + 3))%Z then (Ok None, st1)   (* if (n >= NINST) { free; return 1; } *)
    else
      let t' := fst (grpnum t 1) in
      (Ok (Some {| code := [IMark 0] ++ emit_n t' 1 ++ [IMark 1; IMatch]; reserve := (count t + 3)%Z; tree := t' |}), st1)
  | OOB w => (OOB w, st0)
  | NoFuel => (NoFuel, st0)
  end.
Definition regcomp_st : bytes -> bool -> res (option prog) * bool := regcomp_gen true.
(* the value regcomp leaves in the flag: what the parser set while reading THIS pattern *)
Definition flag_after (pat : bytes) : bool :=
  match parse_pat pat with Ok _ => parse_bad pat | _ => false end.

(* a sequence of calls in one process *)
Fixpoint run_seq {A B : Type} (f : A -> bool -> B * bool) (xs : list A) (st : bool) : list B * bool :=
  match xs with
  | [] => ([], st)
  | x :: r => let '(y, st1) := f x st in let '(ys, st2) := run_seq f r st1 in (y :: ys, st2)
  end.
Definition regcomp_seq (pats : list bytes) (st : bool) : list (res (option prog)) * bool := run_seq regcomp_st pats st.

(* ---- rset_make with the flag: regcomp is not even called when a pattern is not self-contained ---- *)
Definition rset_make_gen (entry_reset : bool) (a : list (option bytes) * Z) (st : bool) : ReSyntax.res (option rset) * bool :=
  let '(res, flg) := a in
  let '(sb, g, sg, gc) := rset_build res [40] 2 in
  let cflg := if has flg RE_ICASE then REG_ICASE else 0%Z in
  if existsb (fun p => match re_groupcount_opt p with None => true | Some _ => false end) (somes res) then (Ok None, st) else
  match regcomp_gen entry_reset (sb ++ [41]) st with
  | (Ok None, st1) => (Ok None, st1)
  | (Ok (Some pr), st1) =>
    (Ok (Some {| rs_prog := pr; rs_cflg := cflg; rs_n := length res; rs_grp := g ++ [Z.of_nat gc]; rs_setgrpcnt := sg; rs_grpcnt := gc |}), st1)
  | (OOB w, st1) => (OOB w, st1)
  | (NoFuel, st1) => (NoFuel, st1)
  end.
Definition rset_make_st := rset_make_gen true.
Definition rset_make_seq (sets : list (list (option bytes) * Z)) (st : bool) := run_seq rset_make_st sets st.

(* ---- one process: any interleaving of compilations and matches ---------------------------------------------
   OMake compiles a set into the next slot (also when it is rejected: the slot then holds nothing), OComp is a bare
   regcomp + regfree (stag.c calls regcomp directly), OFind matches a line with the set in a slot.  rset_find,
   regexec, re_rec never touch the flag. *)
Inductive op :=
| OMake (res : list (option bytes)) (flg : Z)
| OComp (pat : bytes)
| OFind (slot : nat) (line : bytes) (n : nat) (flg : Z).

Inductive obs :=
| BMake (r : ReSyntax.res (option rset))
| BComp (r : ReSyntax.res (option prog))
| BFind (r : ReSyntax.res (Z * list (Z * Z)) * N)
| BNone.                                  (* OFind on a slot that holds no set: the caller does not call rset_find *)

Definition find_obs (d : nat) (r : option (ReSyntax.res (option rset))) (line : bytes) (n : nat) (flg : Z) : obs :=
  match r with
  | Some (Ok (Some rs)) => BFind (rset_find_d d rs line n flg)
  | _ => BNone
  end.

(* slots = what the earlier OMake calls of this process returned, oldest first *)
Fixpoint session_gen (entry_reset : bool) (d : nat) (ops : list op) (slots : list (ReSyntax.res (option rset))) (st : bool) : list obs * bool :=
  match ops with
  | [] => ([], st)
  | OMake res flg :: r =>
    let '(m, st1) := rset_make_gen entry_reset (res, flg) st in
    let '(os, st2) := session_gen entry_reset d r (slots ++ [m]) st1 in (BMake m :: os, st2)
  | OComp pat :: r =>
    let '(c, st1) := regcomp_gen entry_reset pat st in
    let '(os, st2) := session_gen entry_reset d r slots st1 in (BComp c :: os, st2)
  | OFind k line n flg :: r =>
    let '(os, st2) := session_gen entry_reset d r slots st in (find_obs d (nth_error slots k) line n flg :: os, st2)
  end.
Definition session := session_gen true depth.

(* the same observations computed from the pure functions: every answer depends on its own arguments only *)
Fixpoint session_pure_d (d : nat) (ops : list op) (slots : list (ReSyntax.res (option rset))) : list obs :=
  match ops with
  | [] => []
  | OMake res flg :: r => let m := rset_make res flg in BMake m :: session_pure_d d r (slots ++ [m])
  | OComp pat :: r => BComp (regcomp pat) :: session_pure_d d r slots
  | OFind k line n flg :: r => find_obs d (nth_error slots k) line n flg :: session_pure_d d r slots
  end.
Definition session_pure := session_pure_d depth.

(* the sets compiled by a list of operations, in slot order *)
Fixpoint makes (ops : list op) : list (list (option bytes) * Z) :=
  match ops with
  | [] => []
  | OMake res flg :: r => (res, flg) :: makes r
  | _ :: r => makes r
  end.

(* "((a{2,1}))" then "((a+b))": the first parse comes back empty with the flag set and regcomp leaves through
   "if (!rnode) return 1;" *)
Definition bad_then_good : list bytes :=
  [[40; 40; 97; 123; 50; 44; 49; 125; 41; 41]; [40; 40; 97; 43; 98; 41; 41]].
