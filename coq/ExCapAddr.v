(* ExCapAddr.v -- the two hand-written models of the address resolution of ex.c agree: the position-based checked model of
   C05 (CapDefs.ex_lineno: positions in the string, reads through rd) and the list-based model of C06 (ExDefs.ex_lineno: the
   rest of the string, the editor state).  Pure model reasoning (no C text here); TrExAddr.v ties CapDefs to the C text. *)
From Coq Require Import List NArith ZArith Bool Lia.
From NV Require Import Bytes.
From NV Require CapDefs ExDefs.
From NV Require Import ExAddrDefs.
Import ListNotations.
Local Open Scope Z_scope.

Lemma skipn_step (s : bytes) i c t : skipn i s = c :: t -> skipn (S i) s = t /\ (i < length s)%nat.
Proof.
  revert s; induction i as [|i IH]; intros [|x s] H; cbn in H; try discriminate.
  - injection H as -> ->. split; [reflexivity|cbn; lia].
  - destruct (IH s H) as [A B]. split; [exact A|cbn; lia].
Qed.
Lemma skipn_nil_len (s : bytes) i : skipn i s = [] -> (i <= length s)%nat -> i = length s.
Proof. intros H Hi. apply (f_equal (@length N)) in H. rewrite skipn_length in H. cbn in H. lia. Qed.
Lemma rd_at s i t : skipn i s = t -> (i <= length s)%nat -> CapDefs.rd s i = CapDefs.Ok (hd0 t).
Proof.
  intros H Hi. unfold CapDefs.rd. destruct t as [|c t].
  - pose proof (skipn_nil_len s i H Hi) as ->. rewrite (proj2 (nth_error_None s (length s))) by lia. rewrite Nat.eqb_refl. reflexivity.
  - destruct (skipn_step s i c t H) as [_ L]. destruct (nth_error s i) as [x|] eqn:E; [|apply nth_error_None in E; lia].
    rewrite <- (firstn_skipn i s) in E. rewrite nth_error_app2 in E by (rewrite firstn_length; lia).
    rewrite firstn_length, Nat.min_l, Nat.sub_diag, H in E by lia. cbn in E. injection E as ->. reflexivity.
Qed.

Lemma digit_val c : CapDefs.c_isdigit c = true -> Z.of_N c - 48 = Z.of_N (c - 48).
Proof. unfold CapDefs.c_isdigit. intro H. apply andb_true_iff in H as [H _]. apply N.leb_le in H. lia. Qed.

(* digits: value and position behind the digits *)
Lemma digits_bridge s : forall t i acc fuel, skipn i s = t -> (i <= length s)%nat -> (length t < fuel)%nat ->
  exists j, CapDefs.digits_val fuel s i acc = CapDefs.Ok (fst (ExDefs.digits t acc), j) /\
            skipn j s = snd (ExDefs.digits t acc) /\ (i <= j)%nat /\ (j <= length s)%nat /\
            ExDefs.skip_digits t = snd (ExDefs.digits t acc).
Proof.
  induction t as [|c t IH]; intros i acc fuel H Hi Hf; (destruct fuel as [|fuel]; [lia|]); cbn [CapDefs.digits_val]; rewrite (rd_at s i _ H Hi); cbn [CapDefs.bind hd0].
  - exists i. cbn. repeat split; try assumption; lia.
  - cbn [ExDefs.digits ExDefs.skip_digits]. change (ExDefs.isdigit c) with (CapDefs.c_isdigit c).
    destruct (CapDefs.c_isdigit c) eqn:E.
    + destruct (skipn_step s i c t H) as [H' L]. rewrite (digit_val c E).
      destruct (IH (S i) (acc * 10 + Z.of_N (c - 48)) fuel H' ltac:(lia) ltac:(cbn in Hf; lia)) as (j & A & B & C & D & F).
      exists j. repeat split; try assumption; lia.
    + exists i. cbn [fst snd]. repeat split; try assumption; lia.
Qed.

(* the +n -n tail *)
Lemma offsets_bridge s : forall f1 f2 t i n, skipn i s = t -> (i <= length s)%nat -> (length t < f1)%nat -> (length t < f2)%nat ->
  exists j, CapDefs.offsets f1 s i n = CapDefs.Ok (fst (ExDefs.offsets f2 t n), j) /\
            skipn j s = snd (ExDefs.offsets f2 t n) /\ (i <= j)%nat /\ (j <= length s)%nat.
Proof.
  induction f1 as [|f1 IH]; intros f2 t i n H Hi H1 H2; [lia|]. destruct f2 as [|f2]; [lia|].
  cbn [CapDefs.offsets ExDefs.offsets]. rewrite (rd_at s i _ H Hi). cbn [CapDefs.bind].
  destruct t as [|c rest]; cbn [hd0].
  - exists i. cbn. repeat split; try assumption; lia.
  - change ((c =? 45) || (c =? 43))%N with ((c =? 45)%N || (c =? 43)%N).
    destruct ((c =? 45)%N || (c =? 43)%N) eqn:E.
    + destruct (skipn_step s i c rest H) as [H' L].
      destruct (digits_bridge s rest (S i) 0 (S (length s)) H' ltac:(lia) ltac:(apply (f_equal (@length N)) in H'; rewrite skipn_length in H'; lia))
        as (jd & A & B & C & D & F).
      rewrite A. cbn [CapDefs.bind fst snd]. rewrite F.
      assert (Hat : (if (c =? 45)%N then n - fst (ExDefs.digits rest 0) else n + fst (ExDefs.digits rest 0)) = n + ExDefs.atoi (c :: rest)).
      { unfold ExDefs.atoi. destruct (N.eqb_spec c 45) as [->|N45]; [lia|]. destruct (N.eqb_spec c 43) as [->|N43]; [reflexivity|discriminate]. }
      rewrite Hat.
      assert (Hl : (length (snd (ExDefs.digits rest 0)) <= length rest)%nat).
      { rewrite <- B. rewrite skipn_length. apply (f_equal (@length N)) in H'. rewrite skipn_length in H'. lia. }
      destruct (IH f2 _ jd (n + ExDefs.atoi (c :: rest)) B D ltac:(cbn in H1; lia) ltac:(cbn in H2; lia)) as (j & A2 & B2 & C2 & D2).
      exists j. repeat split; try assumption; lia.
    + exists i. cbn [fst snd]. repeat split; try assumption; lia.
Qed.

(* ex_lineno on an address term that does not start with a search: same number, same rest of the string, state unchanged;
   after an unset mark both answer -2 (and the positions differ: neither caller looks at them) *)
Lemma fin_bridge s (st : ExDefs.st) n i t : skipn i s = t -> (i <= length s)%nat ->
  exists n' j, CapDefs.offsets (S (length s)) s i n = CapDefs.Ok (n', j) /\
    (let '(n1, rest1) := ExDefs.offsets (S (length t)) t n in (n1, rest1, st)) = (n', skipn j s, st) /\ (i <= j)%nat /\ (j <= length s)%nat.
Proof.
  intros H Hi.
  destruct (offsets_bridge s (S (length s)) (S (length t)) t i n H Hi
              ltac:(apply (f_equal (@length N)) in H; rewrite skipn_length in H; lia) ltac:(lia)) as (j & A & B & C & D).
  exists (fst (ExDefs.offsets (S (length t)) t n)), j. split; [exact A|]. split; [|split; assumption].
  rewrite B. destruct (ExDefs.offsets (S (length t)) t n). reflexivity.
Qed.

Lemma lineno_bridge rvalid rfind (st : ExDefs.st) search s i t : skipn i s = t -> (i <= length s)%nat ->
  hd0 t <> 47%N -> hd0 t <> 63%N ->
  exists n j, CapDefs.ex_lineno (ExDefs.slen st) (ExDefs.lbuf_jump (ExDefs.lb st)) search (ExDefs.xrow st) s i = CapDefs.Ok (n, j) /\
    (i <= j)%nat /\ (j <= length s)%nat /\
    fst (fst (ExDefs.ex_lineno rvalid rfind st t)) = n /\ snd (ExDefs.ex_lineno rvalid rfind st t) = st /\
    (snd (fst (ExDefs.ex_lineno rvalid rfind st t)) = skipn j s \/ n = -2).
Proof.
  intros H Hi N47 N63. unfold CapDefs.ex_lineno. rewrite (rd_at s i t H Hi). cbn [CapDefs.bind].
  assert (Fin : forall n0 i0 t0, skipn i0 s = t0 -> (i <= i0)%nat -> (i0 <= length s)%nat ->
    exists n j, CapDefs.offsets (S (length s)) s i0 n0 = CapDefs.Ok (n, j) /\ (i <= j)%nat /\ (j <= length s)%nat /\
      (let '(n1, rest1) := ExDefs.offsets (S (length t0)) t0 n0 in (n1, rest1, st)) = (n, skipn j s, st)).
  { intros n0 i0 t0 H0 L0 L1. destruct (fin_bridge s st n0 i0 t0 H0 L1) as (n' & j & A & B & C & D).
    exists n', j. split; [exact A|]. split; [lia|]. split; [exact D|exact B]. }
  assert (Done : forall n0 i0 t0 (r : Z * bytes * ExDefs.st), skipn i0 s = t0 -> (i <= i0)%nat -> (i0 <= length s)%nat ->
    r = (let '(n1, rest1) := ExDefs.offsets (S (length t0)) t0 n0 in (n1, rest1, st)) ->
    exists n j, CapDefs.offsets (S (length s)) s i0 n0 = CapDefs.Ok (n, j) /\ (i <= j)%nat /\ (j <= length s)%nat /\
      fst (fst r) = n /\ snd r = st /\ (snd (fst r) = skipn j s \/ n = -2)).
  { intros n0 i0 t0 r H0 L0 L1 ->. destruct (Fin n0 i0 t0 H0 L0 L1) as (n & j & A & B & C & D).
    exists n, j. rewrite D. cbn [fst snd]. repeat split; try assumption. left; reflexivity. }
  destruct t as [|c rest]; cbn [hd0] in *.
  - (* end of the string *) cbn [N.eqb CapDefs.c_isdigit N.leb N.compare andb orb].
    apply (Done (ExDefs.xrow st) i [] _ H ltac:(lia) Hi). reflexivity.
  - destruct (skipn_step s i c rest H) as [H' L].
    unfold ExDefs.ex_lineno.
    destruct (c =? 46)%N eqn:E46. { apply (Done (ExDefs.xrow st) (S i) rest _ H' ltac:(lia) ltac:(lia)). reflexivity. }
    destruct (c =? 36)%N eqn:E36. { apply (Done (ExDefs.slen st - 1) (S i) rest _ H' ltac:(lia) ltac:(lia)). reflexivity. }
    destruct (c =? 39)%N eqn:E39.
    { rewrite (rd_at s (S i) rest H' ltac:(lia)). cbn [CapDefs.bind].
      destruct (ExDefs.lbuf_jump (ExDefs.lb st) (hd0 rest)) as [row|] eqn:Ej.
      - destruct rest as [|mk r]; [cbn in Ej; discriminate|]. destruct (skipn_step s (S i) mk r H') as [H'' L'].
        cbn [tl]. apply (Done row (S (S i)) r _ H'' ltac:(lia) ltac:(lia)). reflexivity.
      - exists (-2), i. cbn [fst snd]. repeat split; try lia. }
    assert (E47 : ((c =? 47) || (c =? 63))%N = false) by (destruct (N.eqb_spec c 47); [congruence|]; destruct (N.eqb_spec c 63); [congruence|reflexivity]).
    rewrite E47. change (ExDefs.isdigit c) with (CapDefs.c_isdigit c).
    destruct (CapDefs.c_isdigit c) eqn:Ed.
    + destruct (digits_bridge s (c :: rest) i 0 (S (length s)) H Hi ltac:(apply (f_equal (@length N)) in H; rewrite skipn_length in H; lia))
        as (jd & A & B & C & D & F).
      rewrite A. cbn [CapDefs.bind fst snd]. rewrite F.
      apply (Done (fst (ExDefs.digits (c :: rest) 0) - 1) jd _ _ B C D). reflexivity.
    + apply (Done (ExDefs.xrow st) i (c :: rest) _ H ltac:(lia) Hi). reflexivity.
Qed.

(* ---- ex_region *)
Lemma nonul_skipn (s : bytes) i : nonul s -> nonul (skipn i s).
Proof. apply Forall_skipn'. Qed.
Lemma sep_bridge s : nonul s -> forall t i fuel, skipn i s = t -> (i <= length s)%nat -> (length t < fuel)%nat ->
  exists j, CapDefs.skip_while fuel sep_pre s i = CapDefs.Ok j /\ skipn j s = ExDefs.skip_to_sep t /\ (i <= j)%nat /\ (j <= length s)%nat.
Proof.
  intros Hn. induction t as [|c t IH]; intros i fuel H Hi Hf; (destruct fuel as [|fuel]; [lia|]); cbn [CapDefs.skip_while];
    rewrite (rd_at s i _ H Hi); cbn [CapDefs.bind hd0].
  - exists i. cbn. repeat split; try assumption; lia.
  - pose proof (nonul_skipn s i Hn) as Hn'. rewrite H in Hn'. inversion Hn' as [|? ? [Hc0 _] _]; subst.
    cbn [ExDefs.skip_to_sep]. unfold sep_pre. destruct (N.eqb_spec c 0); [lia|]. cbn [negb andb].
    destruct (c =? 59)%N; cbn [negb andb orb]; [exists i; repeat split; try assumption; lia|].
    destruct (c =? 44)%N; cbn [negb andb orb]; [exists i; repeat split; try assumption; lia|].
    destruct (skipn_step s i c t H) as [H' L].
    destruct (IH (S i) fuel H' ltac:(lia) ltac:(cbn in Hf; lia)) as (j & A & B & C & D). exists j. repeat split; try assumption; lia.
Qed.
Lemma skip_to_sep_len t : (length (ExDefs.skip_to_sep t) <= length t)%nat.
Proof. induction t as [|c t IH]; [reflexivity|]. cbn [ExDefs.skip_to_sep]. destruct ((c =? 59) || (c =? 44))%N; cbn [length]; lia. Qed.
Lemma skip_to_sep_hd t c r : ExDefs.skip_to_sep t = c :: r -> c = 59%N \/ c = 44%N.
Proof.
  induction t as [|x t IH]; [discriminate|]. cbn [ExDefs.skip_to_sep]. destruct (N.eqb_spec x 59); cbn [orb].
  - intro H. injection H as <- _. left; assumption.
  - destruct (N.eqb_spec x 44); [intro H; injection H as <- _; right; assumption|exact IH].
Qed.

Lemma nosearch_hd s i : nosearch s -> hd0 (skipn i s) <> 47%N /\ hd0 (skipn i s) <> 63%N.
Proof.
  intro H. pose proof (Forall_skipn' _ i _ H) as H'. destruct (skipn i s) as [|c t]; [cbn; split; discriminate|].
  inversion H'; subst. assumption.
Qed.
Lemma set_xrow_same (st : ExDefs.st) : ExDefs.set_xrow st (ExDefs.xrow st) = st.
Proof. destruct st. reflexivity. Qed.

Section RegionBridge.
  Variables (rvalid : bytes -> bool) (rfind : bytes -> bytes -> bool -> option (nat * nat)).
  Variable search : Z -> bytes -> nat -> option Z * nat.
  Lemma rloop_bridge s : nonul s -> nosearch s -> forall fuel i t (st : ExDefs.st) k b e,
    skipn i s = t -> (i <= length s)%nat -> (length t < fuel)%nat ->
    exists r, rloop (CapDefs.ex_lineno (ExDefs.slen st) (ExDefs.lbuf_jump (ExDefs.lb st)) search) fuel s i (ExDefs.xrow st) k b e = CapDefs.Ok r /\
      ExDefs.region_loop rvalid rfind fuel t (match k with O => true | _ => false end) b e st
      = (fst (fst (fst r)), snd (fst (fst r)), snd (fst r), ExDefs.set_xrow st (snd r)).
  Proof.
    intros Hn Hno. induction fuel as [|fuel IH]; intros i t st k b e H Hi Hf; [lia|].
    cbn [rloop]. rewrite (rd_at s i t H Hi). cbn [CapDefs.bind ExDefs.region_loop].
    destruct t as [|c rest]; cbn [hd0].
    { eexists. split; [reflexivity|]. cbn [fst snd]. rewrite set_xrow_same. reflexivity. }
    pose proof (nonul_skipn s i Hn) as Hn'. rewrite H in Hn'. inversion Hn' as [|? ? [Hc0 _] _]; subst.
    destruct (N.eqb_spec c 0) as [Ez|Ez]; [lia|].
    destruct (nosearch_hd s i Hno) as (N47 & N63). rewrite H in N47, N63.
    destruct (lineno_bridge rvalid rfind st search s i (c :: rest) H Hi N47 N63) as (n & j & El & J1 & J2 & En & Est & Ej).
    rewrite El. cbn [CapDefs.bind fst snd].
    destruct (ExDefs.ex_lineno rvalid rfind st (c :: rest)) as [[n0 rest0] st0]. cbn [fst snd] in En, Est, Ej. subst n0 st0.
    assert (Hb1 : (if match k with O => true | _ => false end then n + 1 - 1 else e - 1) = match k with O => n + 1 - 1 | S _ => e - 1 end) by (destruct k; reflexivity).
    rewrite Hb1. set (b1 := match k with O => n + 1 - 1 | S _ => e - 1 end).
    destruct (n + 1 <? 0) eqn:Eneg.
    { eexists. split; [reflexivity|]. cbn [fst snd]. rewrite set_xrow_same. reflexivity. }
    destruct Ej as [Ej|Ej]; [|apply Z.ltb_ge in Eneg; lia]. subst rest0.
    destruct (sep_bridge s Hn (skipn j s) j (S (length s)) eq_refl J2 ltac:(rewrite skipn_length; lia)) as (j2 & Es & Bs & K1 & K2).
    rewrite Es. cbn [CapDefs.bind]. rewrite (rd_at s j2 _ Bs K2). cbn [CapDefs.bind].
    destruct (ExDefs.skip_to_sep (skipn j s)) as [|c2 rest2] eqn:Esep; cbn [hd0].
    { eexists. split; [reflexivity|]. cbn [fst snd]. rewrite set_xrow_same. reflexivity. }
    pose proof (nonul_skipn s j2 Hn) as Hn2. rewrite Bs in Hn2. inversion Hn2 as [|? ? [Hc20 _] _]; subst.
    destruct (N.eqb_spec c2 0) as [Ez2|Ez2]; [lia|].
    destruct (skipn_step s j2 c2 rest2 Bs) as [H2 L2].
    assert (Hlen2 : (length rest2 < fuel)%nat).
    { apply (f_equal (@length N)) in H2. rewrite skipn_length in H2. apply (f_equal (@length N)) in H. rewrite skipn_length in H. cbn [length] in *. lia. }
    set (st2 := if (c2 =? 59)%N then ExDefs.set_xrow st (n + 1 - 1) else st).
    assert (Hx2 : ExDefs.xrow st2 = if (c2 =? 59)%N then n + 1 - 1 else ExDefs.xrow st) by (unfold st2; destruct (c2 =? 59)%N; reflexivity).
    destruct (IH (S j2) rest2 st2 (S k) b1 (n + 1) H2 ltac:(lia) Hlen2) as (r & Er & Ex).
    exists r. split.
    - rewrite <- Er. rewrite Hx2. unfold st2. destruct (c2 =? 59)%N; reflexivity.
    - rewrite Ex. unfold st2. destruct (c2 =? 59)%N; [|reflexivity]. destruct st; reflexivity.
  Qed.
End RegionBridge.

Lemma bytes_eqb_same : forall a b, ExDefs.bytes_eqb a b = CapDefs.bytes_eqb a b.
Proof. reflexivity. Qed.

(* ex_region: for every NUL-free address string without a search and every editor state, the list-based model of C06 returns
   what region_full returns over the state's buffer length, current line and mark table; the state changes only in xrow *)
Theorem region_bridge rvalid rfind search s (st : ExDefs.st) : nonul s -> nosearch s ->
  exists r, region_full (ExDefs.slen st) (CapDefs.ex_lineno (ExDefs.slen st) (ExDefs.lbuf_jump (ExDefs.lb st)) search) s (ExDefs.xrow st) = CapDefs.Ok r /\
    ExDefs.ex_region rvalid rfind s st = (fst (fst (fst r)), snd (fst (fst r)), snd (fst r), ExDefs.set_xrow st (snd r)).
Proof.
  intros Hn Hno. unfold region_full, ExDefs.ex_region. change (ExDefs.bytes_eqb s [37%N]) with (CapDefs.bytes_eqb s [37%N]).
  destruct (CapDefs.bytes_eqb s [37%N]).
  { eexists. split; [reflexivity|]. cbn [fst snd]. rewrite set_xrow_same. reflexivity. }
  rewrite (rd_at s 0 s eq_refl ltac:(lia)). cbn [CapDefs.bind].
  destruct s as [|c rest] eqn:Es; cbn [hd0].
  { eexists. split; [reflexivity|]. cbn [fst snd]. rewrite set_xrow_same. reflexivity. }
  inversion Hn as [|? ? [Hc0 _] _]; subst. destruct (N.eqb_spec c 0) as [Ez|Ez]; [lia|].
  destruct (rloop_bridge rvalid rfind search (c :: rest) Hn Hno (S (length (c :: rest))) 0 (c :: rest) st O 0 0 eq_refl ltac:(lia) ltac:(lia)) as (r & Er & Ex).
  rewrite Er, Ex. cbn [CapDefs.bind]. destruct r as [[[bad b] e] xr]. cbn [fst snd].
  destruct bad; [eexists; split; reflexivity|].
  change (ExDefs.slen (ExDefs.set_xrow st xr)) with (ExDefs.slen st).
  set (b1 := if (b <? 0) && (e =? 0) then 0 else b).
  destruct ((b1 <? 0) || (ExDefs.slen st <=? b1)); [eexists; split; reflexivity|].
  destruct ((e <? b1) || (ExDefs.slen st <? e)); eexists; split; reflexivity.
Qed.
