(* IoAwProps.v -- the autowrite option and the remembered stamp over whole histories (C03): proofs for IoAwDefs.v. *)
From Coq Require Import List NArith ZArith Bool Arith Lia Permutation.
From NV Require Import Bytes GenConsts IoDefs IoProps IoFaultProps IoLinkDefs IoLinkProps IoTableDefs IoTableProps IoAwDefs.
Import ListNotations.

(* ------------------------------------------------------------------ lists *)
Lemma sw_perm {A} (l : list A) i : Permutation (sw l i) l.
Proof.
  unfold sw. destruct (nth_error l i) as [b|] eqn:N; [|apply Permutation_refl].
  destruct (nth_error_split l i N) as [l1 [l2 [E L]]]. subst l i.
  rewrite firstn_app, firstn_all, Nat.sub_diag. cbn [firstn]. rewrite app_nil_r.
  replace (skipn (S (length l1)) (l1 ++ b :: l2)) with l2.
  - apply Permutation_middle.
  - change (S (length l1)) with (1 + length l1). rewrite Nat.add_comm.
    rewrite <- skipn_skipn. rewrite skipn_app, skipn_all, Nat.sub_diag. reflexivity.
Qed.
Lemma Forall_sw {A} (P : A -> Prop) l i : Forall P l -> Forall P (sw l i).
Proof. intro H. exact (Permutation_Forall (Permutation_sym (sw_perm l i)) H). Qed.
Lemma Forall_push {A} (P : A -> Prop) l x : P x -> Forall P l -> Forall P (push l x).
Proof. intros Hx H. unfold push. constructor; [exact Hx|]. destruct (NB <=? length l); [apply Forall_firstn'; exact H | exact H]. Qed.
Lemma map_sw {A B} (f : A -> B) l i : map f (sw l i) = sw (map f l) i.
Proof.
  unfold sw. rewrite nth_error_map. destruct (nth_error l i); cbn [option_map]; [|reflexivity].
  cbn [map]. rewrite map_app, firstn_map, skipn_map. reflexivity.
Qed.

(* ------------------------------------------------------------------ lbuf_save: the stamp after success, the newer file *)
Lemma save_opened_ok_stamp now lines b e path fs s fs' r :
  save_opened now lines b e path fs s = (SOk, fs', r) -> fs_mtime fs' path = now.
Proof.
  unfold save_opened.
  destruct (write_all (outp (lbuf_wr lines b e)) s) as [[d ok] r0]. destruct ok; [|discriminate].
  destruct r0 as [|[| |k] r']; intro H; inversion H; subst; unfold fs_mtime; rewrite fs_get_set_same; reflexivity.
Qed.
Lemma lbuf_save_ok_stamp now lines b e path force ts fs sch fs' r :
  lbuf_save now lines b e path force ts fs sch = (SOk, fs', r) -> fs_mtime fs' path = now.
Proof.
  unfold lbuf_save. destruct (refuses force ts (fs_mtime fs path)); [discriminate|].
  destruct sch as [|[| |k] s]; cbn [tl]; try discriminate; apply save_opened_ok_stamp.
Qed.
Lemma lbuf_save_l_ok_stamp now lines b e lk path force ts fs sch fs' r :
  lbuf_save_l now lines b e lk path force ts fs sch = (SOk, fs', r) -> mtime_of lk fs' path = now.
Proof.
  unfold lbuf_save_l. destruct (resolve lk path) as [q|] eqn:R.
  - intro H. rewrite (mtime_of_resolved lk fs' path q R). exact (lbuf_save_ok_stamp _ _ _ _ _ _ _ _ _ _ _ H).
  - destruct (refuses force ts (-1)); discriminate.
Qed.
(* a save without ! guarded by a stamp that is at most g is refused for a file stamped later than g *)
Lemma lbuf_save_l_newer now lines b e lk path ts g fs sch :
  (ts <= g)%Z -> (mtime_of lk fs path > g)%Z ->
  lbuf_save_l now lines b e lk path false ts fs sch = (SRefused, fs, sch).
Proof.
  intros A B. apply lbuf_save_l_refuses_true. unfold refuses. cbn [negb andb].
  replace (mtime_of lk fs path >? ts)%Z with true by (symmetry; apply Z.gtb_lt; lia). reflexivity.
Qed.

(* ------------------------------------------------------------------ bufs_modified *)
(* the record is never touched; must-stay <=> the save did not say ok; a failure keeps the ghost as well *)
Lemma kos_refl : forall l : list gbuf, Forall2 kept_or_saved l l.
Proof. induction l; constructor; [left; reflexivity | assumption]. Qed.
Lemma kos_inv : forall tb tb', Forall2 kept_or_saved tb tb' -> aw_inv tb -> aw_inv tb'.
Proof.
  unfold aw_inv. induction 1 as [|x x' l l' K _ IH]; intro I; [constructor|]. inversion I; subst.
  constructor; [|apply IH; assumption]. destruct K as [->|[_ [_ [_ K]]]]; assumption.
Qed.
Lemma bm_g_record now aw lk x fs sch blk st x' fs' r :
  bm_g bufs_modified now aw lk x fs sch = (blk, st, x', fs', r) ->
  kept_or_saved x x' /\ (blk = true <-> st <> SOk) /\ (st <> SOk -> x' = x) /\ (st = SRefused -> fs' = fs /\ r = sch).
Proof.
  unfold bm_g, bufs_modified. destruct x as [bf g]. cbn [fst snd].
  destruct (b_dirty bf); cbn [negb andb].
  - destruct aw.
    + destruct (lbuf_save_l now (b_lines bf) 0 (length (b_lines bf)) lk (b_path bf) false (b_mtime bf) fs sch) as [[st0 fs0] r0] eqn:E.
      destruct st0; intro H; inversion H; subst.
      * split; [right; cbn [fst snd b_lines b_path b_dirty b_mtime]; repeat split|].
        split; [split; congruence|]. split; [congruence | discriminate].
      * split; [left; reflexivity|]. split; [split; congruence|]. split; [reflexivity|]. intros _.
        unfold lbuf_save_l in E. destruct (resolve lk (b_path bf)) as [q|].
        -- destruct (lbuf_save_spec _ _ _ _ _ _ _ _ _ _ _ _ E) as [_ [u [U [A _]]]]. destruct (A eq_refl) as [_ [-> ->]]. split; [reflexivity | symmetry; exact U].
        -- destruct (refuses false (b_mtime bf) (-1)); inversion E; subst; split; reflexivity.
      * split; [left; reflexivity|]. split; [split; congruence|]. split; [reflexivity | discriminate].
    + intro H. inversion H; subst. split; [left; reflexivity|]. split; [split; congruence|]. split; [reflexivity|]. intros _; split; reflexivity.
  - intro H. inversion H; subst. split; [left; reflexivity|]. split; [split; congruence|]. split; [reflexivity | discriminate].
Qed.
(* after an autowrite that said ok: saved mark set, remembered stamp = ghost = the stamp the file has now = the editor's clock *)
Lemma bm_g_ok_record now lk x fs sch blk x' fs' r :
  bm_g bufs_modified now true lk x fs sch = (blk, SOk, x', fs', r) -> b_dirty (fst x) = true ->
  b_dirty (fst x') = false /\ b_mtime (fst x') = snd x' /\ snd x' = mtime_of lk fs' (b_path (fst x)) /\ snd x' = now.
Proof.
  unfold bm_g, bufs_modified. destruct x as [bf g]. cbn [fst snd]. intros H D. rewrite D in H. cbn [negb andb] in H.
  destruct (lbuf_save_l now (b_lines bf) 0 (length (b_lines bf)) lk (b_path bf) false (b_mtime bf) fs sch) as [[st0 fs0] r0] eqn:E.
  destruct st0; inversion H; subst. cbn [fst snd b_dirty b_mtime]. repeat split.
  exact (lbuf_save_l_ok_stamp _ _ _ _ _ _ _ _ _ _ _ _ E).
Qed.
Lemma bm_g_inv now aw lk x fs sch blk st x' fs' r :
  bm_g bufs_modified now aw lk x fs sch = (blk, st, x', fs', r) ->
  b_mtime (fst x) = snd x -> b_mtime (fst x') = snd x'.
Proof.
  intros H I. destruct (bm_g_record _ _ _ _ _ _ _ _ _ _ _ H) as [[->|[_ [_ [_ K]]]] _]; assumption.
Qed.
(* a modified buffer whose file is newer than what the editor read or wrote last may not be left, option on or off:
   nothing is consumed, nothing changes *)
Lemma bm_g_newer now aw lk x fs sch :
  (b_mtime (fst x) <= snd x)%Z -> newer lk fs x -> b_dirty (fst x) = true ->
  bm_g bufs_modified now aw lk x fs sch = (true, SRefused, x, fs, sch).
Proof.
  unfold newer, bm_g, bufs_modified. destruct x as [bf g]. cbn [fst snd]. intros I N D. rewrite D. cbn [negb andb].
  destruct aw; [|reflexivity].
  rewrite (lbuf_save_l_newer now (b_lines bf) 0 (length (b_lines bf)) lk (b_path bf) (b_mtime bf) g fs sch I N). reflexivity.
Qed.

(* ------------------------------------------------------------------ the head of ec_edit / ec_buffer / ec_exec / ec_make *)
Lemma leave0_record now aw bang lk tb fs sch blk st tb1 fs1 r1 :
  leave0 bufs_modified now aw bang lk tb fs sch = (blk, st, tb1, fs1, r1) ->
  Forall2 kept_or_saved tb tb1 /\ (blk = true <-> st <> SOk) /\ (st <> SOk -> tb1 = tb) /\ (st = SRefused -> fs1 = fs /\ r1 = sch).
Proof.
  unfold leave0. destruct tb as [|x rest].
  - intro H. inversion H; subst. split; [constructor|]. split; [split; congruence|]. split; [reflexivity | discriminate].
  - destruct bang.
    + intro H. inversion H; subst. split; [apply kos_refl|]. split; [split; congruence|]. split; [reflexivity | discriminate].
    + destruct (bm_g bufs_modified now aw lk x fs sch) as [[[[blk0 st0] x'] fs'] r] eqn:E.
      destruct (bm_g_record _ _ _ _ _ _ _ _ _ _ _ E) as [F [B [K R]]].
      intro H. inversion H; subst. split; [constructor; [exact F | apply kos_refl]|]. split; [exact B|].
      split; [intro X; rewrite (K X); reflexivity | exact R].
Qed.
Lemma leave0_inv now aw bang lk tb fs sch blk st tb1 fs1 r1 :
  leave0 bufs_modified now aw bang lk tb fs sch = (blk, st, tb1, fs1, r1) -> aw_inv tb -> aw_inv tb1.
Proof. intros H I. exact (kos_inv _ _ (proj1 (leave0_record _ _ _ _ _ _ _ _ _ _ _ _ H)) I). Qed.
Lemma leave0_newer now aw lk (x : gbuf) (rest : list gbuf) fs sch :
  (b_mtime (fst x) <= snd x)%Z -> newer lk fs x -> b_dirty (fst x) = true ->
  leave0 bufs_modified now aw false lk (x :: rest) fs sch = (true, SRefused, x :: rest, fs, sch).
Proof. intros I N D. unfold leave0. rewrite (bm_g_newer now aw lk x fs sch I N D). reflexivity. Qed.

(* ------------------------------------------------------------------ ec_write *)
Lemma ec_write_l_keeps now isx force rng lk path bf fs sch st bf' fs' r :
  ec_write_l now isx force rng lk path bf fs sch = (st, bf', fs', r) -> st <> SOk -> bf' = bf.
Proof.
  unfold ec_write_l. destruct (isx && negb (b_dirty bf)); [intro H; inversion H; congruence|].
  destruct (match rng with Some r0 => r0 | None => (0, length (b_lines bf)) end) as [b e].
  destruct (lbuf_save_l now (b_lines bf) b e lk path force (if Nat.eqb (b_path bf) path then b_mtime bf else 0%Z) fs sch) as [[st0 fs0] r0].
  destruct st0; intro H; inversion H; subst; congruence.
Qed.
Lemma ec_write_l_ok_own now isx force rng lk bf fs sch bf' fs' r :
  ec_write_l now isx force rng lk (b_path bf) bf fs sch = (SOk, bf', fs', r) -> skips isx bf = false ->
  b_mtime bf' = mtime_of lk fs' (b_path bf) /\ mtime_of lk fs' (b_path bf) = now.
Proof.
  unfold ec_write_l, skips. intros H SK. rewrite SK in H.
  destruct (match rng with Some r0 => r0 | None => (0, length (b_lines bf)) end) as [b e].
  rewrite Nat.eqb_refl in H.
  destruct (lbuf_save_l now (b_lines bf) b e lk (b_path bf) force (b_mtime bf) fs sch) as [[st0 fs0] r0] eqn:E.
  destruct st0; inversion H; subst. cbn [b_mtime]. split; [reflexivity | exact (lbuf_save_l_ok_stamp _ _ _ _ _ _ _ _ _ _ _ _ E)].
Qed.
(* a write that did not say ok leaves every record and every ghost as it was *)
Lemma write_g_keeps now isx force rng lk a tb fs sch st tb' fs' r :
  write_g now isx force rng lk a tb fs sch = (st, tb', fs', r) -> st <> SOk -> tb' = tb.
Proof.
  unfold write_g. destruct tb as [|[b0 g0] rest]; [intro H; inversion H; reflexivity|].
  destruct (isx && negb (b_dirty b0)); [intro H; inversion H; congruence|].
  destruct (path_of_arg _ a) as [path|]; [|intro H; inversion H; reflexivity].
  destruct (ec_write_l now isx force rng lk path b0 fs sch) as [[[st0 b0'] fs0] r0] eqn:E.
  intros H N. inversion H; subst. rewrite (ec_write_l_keeps _ _ _ _ _ _ _ _ _ _ _ _ _ E N). destruct st; [congruence | reflexivity | reflexivity].
Qed.
Lemma write_g_inv now isx force rng lk a tb fs sch st tb' fs' r :
  write_g now isx force rng lk a tb fs sch = (st, tb', fs', r) -> aw_inv tb -> aw_inv tb'.
Proof.
  intro H. destruct st; [|rewrite (write_g_keeps _ _ _ _ _ _ _ _ _ _ _ _ _ H ltac:(discriminate)); auto
                          |rewrite (write_g_keeps _ _ _ _ _ _ _ _ _ _ _ _ _ H ltac:(discriminate)); auto].
  revert H. unfold write_g, aw_inv. destruct tb as [|[b0 g0] rest]; [discriminate|].
  destruct (isx && negb (b_dirty b0)) eqn:SK; [intro H; inversion H; subst; auto|].
  destruct (path_of_arg _ a) as [path|]; [|discriminate].
  destruct (ec_write_l now isx force rng lk path b0 fs sch) as [[[st0 b0'] fs0] r0] eqn:E.
  intro H. inversion H; subst.
  destruct (Nat.eqb_spec (b_path b0) path) as [P|P].
  - subst path. destruct (ec_write_l_ok_own _ _ _ _ _ _ _ _ _ _ _ E SK) as [M1 M2].
    intro X; inversion X; subst; constructor; cbn [fst snd]; assumption.
  - destruct (success_exact_l _ _ _ _ _ _ _ _ _ _ _ _ E SK) as [_ [_ K]]. rewrite (K P). auto.
Qed.
(* THE GUARD OVER THE GHOST: the own file is newer than what the editor read or wrote last => refused, untouched *)
Lemma write_g_newer now isx rng lk a (x : gbuf) (rest : list gbuf) fs sch :
  (b_mtime (fst x) <= snd x)%Z -> newer lk fs x -> skips isx (fst x) = false ->
  path_of_arg (map fst (x :: rest)) a = Some (b_path (fst x)) ->
  write_g now isx false rng lk a (x :: rest) fs sch = (SRefused, x :: rest, fs, sch).
Proof.
  unfold newer, skips. destruct x as [b0 g0]. cbn [fst snd]. intros I N SK PA. unfold write_g. rewrite SK, PA.
  unfold ec_write_l. rewrite SK.
  destruct (match rng with Some r0 => r0 | None => (0, length (b_lines b0)) end) as [b e].
  rewrite Nat.eqb_refl.
  rewrite (lbuf_save_l_newer now (b_lines b0) b e lk (b_path b0) (b_mtime b0) g0 fs sch I N). reflexivity.
Qed.
(* without the ghost this is IoTableDefs.ec_write_t *)
Lemma write_g_table now isx force rng lk a tb fs sch :
  let '(st, tb', fs', r) := write_g now isx force rng lk a tb fs sch in
  ec_write_t now isx force rng lk a (map fst tb) fs sch = (st, map fst tb', fs', r).
Proof.
  unfold write_g, ec_write_t. destruct tb as [|[b0 g0] rest]; [reflexivity|]. cbn [map fst].
  destruct (isx && negb (b_dirty b0)); [reflexivity|].
  change (b0 :: map fst rest) with (map fst ((b0, g0) :: rest)).
  destruct (path_of_arg _ a) as [path|]; [|reflexivity].
  destruct (ec_write_l now isx force rng lk path b0 fs sch) as [[[st0 b0'] fs0] r0]. reflexivity.
Qed.

(* ------------------------------------------------------------------ the loop of ec_quit *)
Lemma quit_scan_record now aw all bang lk : forall tb fs sch k st tb' fs' r,
  quit_scan bufs_modified now aw all bang lk tb fs sch = (k, st, tb', fs', r) ->
  Forall2 kept_or_saved tb tb' /\ (k = None -> st = SOk) /\
  (forall i, k = Some i -> st <> SOk /\ i < length tb /\ skipn i tb' = skipn i tb).
Proof.
  induction tb as [|x rest IH]; intros fs sch k st tb' fs' r.
  - cbn [quit_scan]. intro H. inversion H; subst. split; [constructor|]. split; [reflexivity | discriminate].
  - cbn [quit_scan]. destruct all.
    + destruct (lbuf_save_l now (b_lines (fst x)) 0 (length (b_lines (fst x))) lk (b_path (fst x)) bang (b_mtime (fst x)) fs sch) as [[st0 fs0] r0].
      destruct st0.
      * destruct (quit_scan bufs_modified now aw true bang lk rest fs0 r0) as [[[[k2 st2] rest'] fs2] r2] eqn:E.
        destruct (IH _ _ _ _ _ _ _ E) as [A [B C]]. intro H. inversion H; subst.
        split; [constructor; [right; cbn [fst snd b_lines b_path b_dirty b_mtime]; repeat split | exact A]|].
        split; [destruct k2; [discriminate | exact B]|].
        intros i X. destruct k2 as [j|]; [|discriminate]. inversion X; subst. destruct (C j eq_refl) as [C1 [C2 C3]].
        split; [assumption|]. split; [cbn [length]; lia | exact C3].
      * intro H. inversion H; subst. split; [apply kos_refl|]. split; [discriminate|]. intros i X. inversion X; subst.
        split; [discriminate|]. split; [cbn [length]; lia | reflexivity].
      * intro H. inversion H; subst. split; [apply kos_refl|]. split; [discriminate|]. intros i X. inversion X; subst.
        split; [discriminate|]. split; [cbn [length]; lia | reflexivity].
    + destruct bang.
      * destruct (quit_scan bufs_modified now aw false true lk rest fs sch) as [[[[k2 st2] rest'] fs2] r2] eqn:E.
        destruct (IH _ _ _ _ _ _ _ E) as [A [B C]]. intro H. inversion H; subst.
        split; [constructor; [left; reflexivity | exact A]|]. split; [destruct k2; [discriminate | exact B]|].
        intros i X. destruct k2 as [j|]; [|discriminate]. inversion X; subst. destruct (C j eq_refl) as [C1 [C2 C3]].
        split; [assumption|]. split; [cbn [length]; lia | exact C3].
      * destruct (bm_g bufs_modified now aw lk x fs sch) as [[[[blk0 st0] x'] fs0] r0] eqn:E0.
        destruct (bm_g_record _ _ _ _ _ _ _ _ _ _ _ E0) as [F [Bk [K _]]].
        destruct blk0.
        -- intro H. inversion H; subst. pose proof (proj1 Bk eq_refl) as NS. rewrite (K NS).
           split; [apply kos_refl|]. split; [discriminate|].
           intros i X. inversion X; subst. split; [exact NS|]. split; [cbn [length]; lia | reflexivity].
        -- destruct (quit_scan bufs_modified now aw false false lk rest fs0 r0) as [[[[k2 st2] rest'] fs2] r2] eqn:E.
           destruct (IH _ _ _ _ _ _ _ E) as [A [B C]]. intro H. inversion H; subst.
           split; [constructor; [exact F | exact A]|]. split; [destruct k2; [discriminate | exact B]|].
           intros i X. destruct k2 as [j|]; [|discriminate]. inversion X; subst. destruct (C j eq_refl) as [C1 [C2 C3]].
           split; [assumption|]. split; [cbn [length]; lia | exact C3].
Qed.
Lemma quit_scan_inv now aw all bang lk tb fs sch k st tb' fs' r :
  quit_scan bufs_modified now aw all bang lk tb fs sch = (k, st, tb', fs', r) -> aw_inv tb -> aw_inv tb'.
Proof. intros H I. exact (kos_inv _ _ (proj1 (quit_scan_record _ _ _ _ _ _ _ _ _ _ _ _ _ H)) I). Qed.
(* the first slot the loop has to save (xa: slot 0; q: the first modified slot, option on or off) is newer on disk:
   the loop stops there, nothing consumed, nothing changed *)
Lemma quit_scan_newer now aw all lk : forall (pre : list gbuf) (x : gbuf) (rest : list gbuf) fs sch,
  Forall (fun y : gbuf => all = false /\ b_dirty (fst y) = false) pre ->
  (b_mtime (fst x) <= snd x)%Z -> newer lk fs x -> (all = true \/ b_dirty (fst x) = true) ->
  quit_scan bufs_modified now aw all false lk (pre ++ x :: rest) fs sch = (Some (length pre), SRefused, pre ++ x :: rest, fs, sch).
Proof.
  induction pre as [|y pre IH]; intros x rest fs sch P I N D.
  - cbn [app length quit_scan]. destruct all.
    + unfold newer in N. rewrite (lbuf_save_l_newer now _ 0 _ lk _ _ _ fs sch I N). reflexivity.
    + destruct D as [D|D]; [discriminate|]. rewrite (bm_g_newer now aw lk x fs sch I N D). reflexivity.
  - inversion P as [|? ? [A1 A2] P2]; subst. cbn [app length quit_scan].
    assert (E : bm_g bufs_modified now aw lk y fs sch = (false, SOk, y, fs, sch)).
    { unfold bm_g, bufs_modified. rewrite A2. cbn [negb andb]. destruct y; reflexivity. }
    rewrite E, (IH x rest fs sch P2 I N D). reflexivity.
Qed.
Lemma quit_g_inv now aw wr isx all bang lk a tb fs sch q st tb' fs' r :
  quit_g bufs_modified now aw wr isx all bang lk a tb fs sch = (q, st, tb', fs', r) -> aw_inv tb -> aw_inv tb'.
Proof.
  unfold quit_g. intros H I.
  assert (W : exists st1 tb1 fs1 r1, (if wr then write_g now isx bang None lk a tb fs sch else (SOk, tb, fs, sch)) = (st1, tb1, fs1, r1)
              /\ aw_inv tb1).
  { destruct wr.
    - destruct (write_g now isx bang None lk a tb fs sch) as [[[st1 tb1] fs1] r1] eqn:E.
      exists st1, tb1, fs1, r1. split; [reflexivity | exact (write_g_inv _ _ _ _ _ _ _ _ _ _ _ _ _ E I)].
    - exists SOk, tb, fs, sch. auto. }
  destruct W as [st1 [tb1 [fs1 [r1 [E I1]]]]]. rewrite E in H.
  destruct st1; [|inversion H; subst; exact I1|inversion H; subst; exact I1].
  destruct (quit_scan bufs_modified now aw all bang lk tb1 fs1 r1) as [[[[k st2] tb2] fs2] r2] eqn:Q.
  pose proof (quit_scan_inv _ _ _ _ _ _ _ _ _ _ _ _ _ Q I1) as I2.
  destruct k; inversion H; subst; [apply Forall_sw; exact I2 | exact I2].
Qed.
(* not quitting: every record is what it was before the loop (the refused :q / :xa only brings the slot to the front) *)
Lemma quit_g_record now aw wr isx all bang lk a tb fs sch q st tb' fs' r :
  quit_g bufs_modified now aw wr isx all bang lk a tb fs sch = (q, st, tb', fs', r) ->
  (q = false <-> st <> SOk) /\
  (st <> SOk -> exists tb1 tb2 i,
      ((wr = false /\ tb1 = tb) \/ (wr = true /\ exists st1 fs1 r1, write_g now isx bang None lk a tb fs sch = (st1, tb1, fs1, r1))) /\
      Forall2 kept_or_saved tb1 tb2 /\ skipn i tb2 = skipn i tb1 /\ tb' = sw tb2 i).
Proof.
  unfold quit_g.
  destruct (if wr then write_g now isx bang None lk a tb fs sch else (SOk, tb, fs, sch)) as [[[st1 tb1] fs1] r1] eqn:E.
  assert (T : (wr = false /\ tb1 = tb) \/ (wr = true /\ exists st1 fs1 r1, write_g now isx bang None lk a tb fs sch = (st1, tb1, fs1, r1))).
  { destruct wr; [right; split; [reflexivity | exists st1, fs1, r1; exact E] | left; inversion E; auto]. }
  destruct st1.
  - destruct (quit_scan bufs_modified now aw all bang lk tb1 fs1 r1) as [[[[k st2] tb2] fs2] r2] eqn:Q.
    destruct (quit_scan_record _ _ _ _ _ _ _ _ _ _ _ _ _ Q) as [A [B C]].
    destruct k as [i|]; intro H; inversion H; subst.
    + destruct (C i eq_refl) as [C1 [_ C3]]. split; [split; [intros _; exact C1 | reflexivity]|].
      intros _. exists tb1, tb2, i. repeat split; assumption.
    + rewrite (B eq_refl). split; [split; [discriminate | congruence]|]. congruence.
  - intro H. inversion H; subst. split; [split; [discriminate | reflexivity]|]. intros _. exists tb', tb', (length tb').
    split; [exact T|]. split; [apply kos_refl|]. split; [reflexivity|].
    unfold sw. replace (nth_error tb' (length tb')) with (@None gbuf); [reflexivity|]. symmetry. apply nth_error_None. apply Nat.le_refl.
  - intro H. inversion H; subst. split; [split; [discriminate | reflexivity]|]. intros _. exists tb', tb', (length tb').
    split; [exact T|]. split; [apply kos_refl|]. split; [reflexivity|].
    unfold sw. replace (nth_error tb' (length tb')) with (@None gbuf); [reflexivity|]. symmetry. apply nth_error_None. apply Nat.le_refl.
Qed.

(* ------------------------------------------------------------------ ec_edit, ec_buffer, ec_exec *)
Lemma edit_g_inv now aw bang lk a tb fs sch st tb' fs' r :
  edit_g bufs_modified now aw bang lk a tb fs sch = (st, tb', fs', r) -> aw_inv tb -> aw_inv tb'.
Proof.
  unfold edit_g. destruct (leave0 bufs_modified now aw bang lk tb fs sch) as [[[[blk st0] tb1] fs1] r1] eqn:L.
  intros H I. pose proof (leave0_inv _ _ _ _ _ _ _ _ _ _ _ _ L I) as I1. unfold aw_inv in *.
  destruct blk; [inversion H; subst; exact I1|].
  assert (G : forall st tb', match path_of_arg (map fst tb1) a with
              | None => (SRefused, tb1, fs1, r1)
              | Some p => match bufs_find (map fst tb1) p with
                          | Some i => (SOk, sw tb1 i, fs1, r1)
                          | None => let b := ec_edit_l lk fs1 p in (SOk, push tb1 (b, b_mtime b), fs1, r1)
                          end
              end = (st, tb', fs', r) -> Forall (fun x : gbuf => b_mtime (fst x) = snd x) tb').
  { intros st2 tb2. destruct (path_of_arg (map fst tb1) a) as [p|]; [|intro X; inversion X; subst; exact I1].
    destruct (bufs_find (map fst tb1) p); intro X; inversion X; subst.
    - apply Forall_sw. exact I1.
    - apply Forall_push; [cbv zeta; cbn [fst snd]; reflexivity | exact I1]. }
  destruct a; try exact (G _ _ H).
  destruct tb1 as [|[b0 g0] rest]; [exact (G _ _ H)|].
  inversion H; subst. inversion I1; subst. constructor; [cbn [fst snd b_mtime]; reflexivity | assumption].
Qed.
Lemma buffer_g_inv now aw bang lk i tb fs sch st tb' fs' r :
  buffer_g bufs_modified now aw bang lk i tb fs sch = (st, tb', fs', r) -> aw_inv tb -> aw_inv tb'.
Proof.
  unfold buffer_g. destruct (i <? length tb); [|intro H; inversion H; subst; auto].
  destruct (leave0 bufs_modified now aw bang lk tb fs sch) as [[[[blk st0] tb1] fs1] r1] eqn:L.
  intros H I. pose proof (leave0_inv _ _ _ _ _ _ _ _ _ _ _ _ L I) as I1.
  destruct blk; inversion H; subst; [exact I1 | apply Forall_sw; exact I1].
Qed.
Lemma exec_g_inv now aw lk ops tb fs sch st tb' lk' fs' r :
  exec_g bufs_modified now aw lk ops tb fs sch = (st, tb', lk', fs', r) -> aw_inv tb -> aw_inv tb'.
Proof.
  unfold exec_g. destruct (leave0 bufs_modified now aw false lk tb fs sch) as [[[[blk st0] tb1] fs1] r1] eqn:L.
  intros H I. pose proof (leave0_inv _ _ _ _ _ _ _ _ _ _ _ _ L I) as I1.
  destruct blk; [inversion H; subst; exact I1|].
  destruct (foreign_run (lk, fs1) ops). inversion H; subst. exact I1.
Qed.
(* a modified current buffer whose file is newer: :e :n :b :!cmd :make without ! do not leave it, nothing changes *)
Lemma leave_newer now aw lk (x : gbuf) (rest : list gbuf) fs sch :
  (b_mtime (fst x) <= snd x)%Z -> newer lk fs x -> b_dirty (fst x) = true ->
  (forall a, edit_g bufs_modified now aw false lk a (x :: rest) fs sch = (SRefused, x :: rest, fs, sch)) /\
  (forall i, i < length (x :: rest) -> buffer_g bufs_modified now aw false lk i (x :: rest) fs sch = (SRefused, x :: rest, fs, sch)) /\
  (forall ops, exec_g bufs_modified now aw lk ops (x :: rest) fs sch = (SRefused, x :: rest, lk, fs, sch)).
Proof.
  intros I N D. pose proof (leave0_newer now aw lk x rest fs sch I N D) as L. split; [|split].
  - intro a. unfold edit_g. rewrite L. reflexivity.
  - intros i Hi. unfold buffer_g. rewrite L. destruct (i <? _); reflexivity.
  - intro ops. unfold exec_g. rewrite L. reflexivity.
Qed.

(* ------------------------------------------------------------------ whole histories *)
Lemma step_inv s c : aw_inv (e_tb s) -> aw_inv (e_tb (step bufs_modified s c)).
Proof.
  intros I. destruct c; cbn [step] in *.
  - destruct (e_quit s); [exact I | exact I].
  - destruct (e_quit s); [exact I|]. cbn [e_tb]. destruct (e_tb s) as [|[b0 g0] rest]; [constructor|].
    inversion I; subst. constructor; [cbn [fst snd b_mtime] in *; assumption | assumption].
  - destruct (foreign (e_lk s, e_fs s) o). exact I.
  - destruct (e_quit s); [exact I|].
    destruct (write_g now isx force rng (e_lk s) a (e_tb s) (e_fs s) sch) as [[[st tb'] fs'] r] eqn:E. cbn [e_tb].
    exact (write_g_inv _ _ _ _ _ _ _ _ _ _ _ _ _ E I).
  - destruct (e_quit s); [exact I|].
    destruct (quit_g bufs_modified now (e_aw s) wr isx all bang (e_lk s) a (e_tb s) (e_fs s) sch) as [[[[q st] tb'] fs'] r] eqn:E. cbn [e_tb].
    eapply quit_g_inv; [exact E | exact I].
  - destruct (e_quit s); [exact I|].
    destruct (edit_g bufs_modified now (e_aw s) bang (e_lk s) a (e_tb s) (e_fs s) sch) as [[[st tb'] fs'] r] eqn:E. cbn [e_tb].
    eapply edit_g_inv; [exact E | exact I].
  - destruct (e_quit s); [exact I|].
    destruct (buffer_g bufs_modified now (e_aw s) bang (e_lk s) i (e_tb s) (e_fs s) sch) as [[[st tb'] fs'] r] eqn:E. cbn [e_tb].
    eapply buffer_g_inv; [exact E | exact I].
  - destruct (e_quit s); [exact I|].
    destruct (exec_g bufs_modified now (e_aw s) (e_lk s) ops (e_tb s) (e_fs s) sch) as [[[[st tb'] lk'] fs'] r] eqn:E. cbn [e_tb].
    eapply exec_g_inv; [exact E | exact I].
Qed.
Lemma run_inv : forall h s, aw_inv (e_tb s) -> aw_inv (e_tb (run bufs_modified s h)).
Proof.
  induction h as [|c h IH]; intros s I; [exact I|].
  cbn [run fold_left]. apply IH. exact (step_inv s c I).
Qed.
Lemma start_inv lk fs p : aw_inv (e_tb (start lk fs p)).
Proof. unfold start, aw_inv. cbn [e_tb]. constructor; [cbn [fst snd]; reflexivity | constructor]. Qed.

(* ------------------------------------------------------------------ the same guards over the REMEMBERED stamp (no ghost, no history):
   whenever the file's stamp is later than the stamp the slot remembers, every save without ! of that slot is refused *)
Definition newer_rem (lk : links) (fs : fsys) (x : gbuf) : Prop := (mtime_of lk fs (b_path (fst x)) > b_mtime (fst x))%Z.
Lemma bm_g_newer_rem now aw lk x fs sch :
  newer_rem lk fs x -> b_dirty (fst x) = true -> bm_g bufs_modified now aw lk x fs sch = (true, SRefused, x, fs, sch).
Proof.
  unfold newer_rem, bm_g, bufs_modified. destruct x as [bf g]. cbn [fst snd]. intros N D. rewrite D. cbn [negb andb].
  destruct aw; [|reflexivity].
  rewrite (lbuf_save_l_newer now (b_lines bf) 0 (length (b_lines bf)) lk (b_path bf) (b_mtime bf) (b_mtime bf) fs sch (Z.le_refl _) N). reflexivity.
Qed.
Lemma write_g_newer_rem now isx rng lk a (x : gbuf) (rest : list gbuf) fs sch :
  newer_rem lk fs x -> skips isx (fst x) = false -> path_of_arg (map fst (x :: rest)) a = Some (b_path (fst x)) ->
  write_g now isx false rng lk a (x :: rest) fs sch = (SRefused, x :: rest, fs, sch).
Proof.
  unfold newer_rem, skips. destruct x as [b0 g0]. cbn [fst snd]. intros N SK PA. unfold write_g. rewrite SK, PA.
  unfold ec_write_l. rewrite SK.
  destruct (match rng with Some r0 => r0 | None => (0, length (b_lines b0)) end) as [b e].
  rewrite Nat.eqb_refl.
  rewrite (lbuf_save_l_newer now (b_lines b0) b e lk (b_path b0) (b_mtime b0) (b_mtime b0) fs sch (Z.le_refl _) N). reflexivity.
Qed.
Lemma leave_newer_rem now aw lk (x : gbuf) (rest : list gbuf) fs sch :
  newer_rem lk fs x -> b_dirty (fst x) = true ->
  (forall a, edit_g bufs_modified now aw false lk a (x :: rest) fs sch = (SRefused, x :: rest, fs, sch)) /\
  (forall i, buffer_g bufs_modified now aw false lk i (x :: rest) fs sch = (SRefused, x :: rest, fs, sch)) /\
  (forall ops, exec_g bufs_modified now aw lk ops (x :: rest) fs sch = (SRefused, x :: rest, lk, fs, sch)).
Proof.
  intros N D.
  assert (L : leave0 bufs_modified now aw false lk (x :: rest) fs sch = (true, SRefused, x :: rest, fs, sch)).
  { unfold leave0. rewrite (bm_g_newer_rem now aw lk x fs sch N D). reflexivity. }
  split; [|split].
  - intro a. unfold edit_g. rewrite L. reflexivity.
  - intro i. unfold buffer_g. rewrite L. destruct (i <? _); reflexivity.
  - intro ops. unfold exec_g. rewrite L. reflexivity.
Qed.
Lemma quit_scan_newer_rem now aw all lk : forall (pre : list gbuf) (x : gbuf) (rest : list gbuf) fs sch,
  Forall (fun y : gbuf => all = false /\ b_dirty (fst y) = false) pre ->
  newer_rem lk fs x -> (all = true \/ b_dirty (fst x) = true) ->
  quit_scan bufs_modified now aw all false lk (pre ++ x :: rest) fs sch = (Some (length pre), SRefused, pre ++ x :: rest, fs, sch).
Proof.
  induction pre as [|y pre IH]; intros x rest fs sch P N D.
  - cbn [app length quit_scan]. destruct all.
    + unfold newer_rem in N. rewrite (lbuf_save_l_newer now _ 0 _ lk _ _ _ fs sch (Z.le_refl _) N). reflexivity.
    + destruct D as [D|D]; [discriminate|]. rewrite (bm_g_newer_rem now aw lk x fs sch N D). reflexivity.
  - inversion P as [|? ? [A1 A2] P2]; subst. cbn [app length quit_scan].
    assert (E : bm_g bufs_modified now aw lk y fs sch = (false, SOk, y, fs, sch)).
    { unfold bm_g, bufs_modified. rewrite A2. cbn [negb andb]. destruct y; reflexivity. }
    rewrite E, (IH x rest fs sch P2 N D). reflexivity.
Qed.
(* a successful autowrite / loop save leaves exactly the buffer's lines in the file the path denotes *)
Lemma bm_g_ok_exact now lk x fs sch blk st x' fs' r :
  bm_g bufs_modified now true lk x fs sch = (blk, st, x', fs', r) -> b_dirty (fst x) = true -> blk = false ->
  st = SOk /\ exists q, resolve lk (b_path (fst x)) = Some q /\ fs_content fs' q = Some (concat (b_lines (fst x))).
Proof.
  unfold bm_g, bufs_modified. destruct x as [bf g]. cbn [fst snd]. intros H D B. rewrite D in H. cbn [negb andb] in H.
  destruct (lbuf_save_l now (b_lines bf) 0 (length (b_lines bf)) lk (b_path bf) false (b_mtime bf) fs sch) as [[st0 fs0] r0] eqn:E.
  destruct st0; inversion H; subst; try discriminate. split; [reflexivity|].
  destruct (lbuf_save_l_ok _ _ _ _ _ _ _ _ _ _ _ _ E) as [q [R C]]. exists q. split; [exact R|].
  rewrite C. unfold want, slice. rewrite Nat.sub_0_r, firstn_all. reflexivity.
Qed.

(* ------------------------------------------------------------------ the loop of :q / :xa at ANY position *)
(* a save through one name leaves alone what a name that resolves elsewhere denotes, whatever its status *)
Lemma lbuf_save_l_other now lines b e lk path force ts fs sch st fs' r p2 :
  lbuf_save_l now lines b e lk path force ts fs sch = (st, fs', r) -> resolve lk p2 <> resolve lk path ->
  target lk fs' p2 = target lk fs p2.
Proof.
  unfold lbuf_save_l, target. destruct (resolve lk path) as [q|] eqn:R.
  - intros H N. destruct (lbuf_save_spec _ _ _ _ _ _ _ _ _ _ _ _ H) as [F _].
    destruct (resolve lk p2) as [q2|]; [|reflexivity]. apply F. congruence.
  - destruct (refuses force ts (-1)); intro H; inversion H; subst; reflexivity.
Qed.
Lemma bm_g_other now aw lk x fs sch blk st x' fs' r p2 :
  bm_g bufs_modified now aw lk x fs sch = (blk, st, x', fs', r) -> resolve lk p2 <> resolve lk (b_path (fst x)) ->
  target lk fs' p2 = target lk fs p2.
Proof.
  unfold bm_g, bufs_modified. destruct x as [bf g]. cbn [fst snd]. destruct (b_dirty bf); cbn [negb andb].
  - destruct aw.
    + destruct (lbuf_save_l now (b_lines bf) 0 (length (b_lines bf)) lk (b_path bf) false (b_mtime bf) fs sch) as [[st0 fs0] r0] eqn:E.
      destruct st0; intros H N; inversion H; subst; exact (lbuf_save_l_other _ _ _ _ _ _ _ _ _ _ _ _ _ _ E N).
    + intros H _. inversion H; subst. reflexivity.
  - intros H _. inversion H; subst. reflexivity.
Qed.
Lemma mtime_of_target lk fs fs' p : target lk fs' p = target lk fs p -> mtime_of lk fs' p = mtime_of lk fs p.
Proof. unfold mtime_of. intros ->. reflexivity. Qed.
(* wherever the slot stands: if its file is newer than the stamp it remembers and the loop would have to save it, the loop does not
   run to its end (no quit) and what the slot's path denotes is untouched -- provided the slots before it denote other files *)
Lemma quit_scan_newer_any now aw all lk : forall (pre : list gbuf) (x : gbuf) (rest : list gbuf) fs sch k st tb' fs' r,
  Forall (fun y : gbuf => resolve lk (b_path (fst x)) <> resolve lk (b_path (fst y))) pre ->
  newer_rem lk fs x -> (all = true \/ b_dirty (fst x) = true) ->
  quit_scan bufs_modified now aw all false lk (pre ++ x :: rest) fs sch = (k, st, tb', fs', r) ->
  (exists i, k = Some i /\ i <= length pre) /\ st <> SOk /\ target lk fs' (b_path (fst x)) = target lk fs (b_path (fst x)).
Proof.
  induction pre as [|y pre IH]; intros x rest fs sch k st tb' fs' r P N D H.
  - pose proof (quit_scan_newer_rem now aw all lk [] x rest fs sch (Forall_nil _) N D) as Q. cbn [app length] in Q, H. rewrite Q in H. inversion H; subst.
    split; [exists 0; split; [reflexivity | apply Nat.le_refl]|]. split; [discriminate | reflexivity].
  - inversion P as [|? ? P1 P2]; subst. cbn [app quit_scan] in H.
    assert (NX : forall fs1, target lk fs1 (b_path (fst x)) = target lk fs (b_path (fst x)) -> newer_rem lk fs1 x).
    { intros fs1 T. unfold newer_rem in *. rewrite (mtime_of_target lk fs fs1 _ T). exact N. }
    destruct all.
    + destruct (lbuf_save_l now (b_lines (fst y)) 0 (length (b_lines (fst y))) lk (b_path (fst y)) false (b_mtime (fst y)) fs sch) as [[st0 fs0] r0] eqn:E0.
      pose proof (lbuf_save_l_other _ _ _ _ _ _ _ _ _ _ _ _ _ _ E0 P1) as T0.
      destruct st0.
      * destruct (quit_scan bufs_modified now aw true false lk (pre ++ x :: rest) fs0 r0) as [[[[k2 st2] rest'] fs2] r2] eqn:E.
        destruct (IH x rest fs0 r0 _ _ _ _ _ P2 (NX fs0 T0) D E) as [[i [K L]] [Sn T]]. inversion H; subst.
        split; [exists (S i); split; [reflexivity | cbn [length]; lia]|]. split; [exact Sn | rewrite T; exact T0].
      * inversion H; subst. split; [exists 0; split; [reflexivity | cbn [length]; lia]|]. split; [discriminate | exact T0].
      * inversion H; subst. split; [exists 0; split; [reflexivity | cbn [length]; lia]|]. split; [discriminate | exact T0].
    + destruct (bm_g bufs_modified now aw lk y fs sch) as [[[[blk0 st0] y'] fs0] r0] eqn:E0.
      pose proof (bm_g_other _ _ _ _ _ _ _ _ _ _ _ _ E0 P1) as T0.
      destruct (bm_g_record _ _ _ _ _ _ _ _ _ _ _ E0) as [_ [Bk _]].
      destruct blk0.
      * inversion H; subst. split; [exists 0; split; [reflexivity | cbn [length]; lia]|]. split; [exact (proj1 Bk eq_refl) | exact T0].
      * destruct (quit_scan bufs_modified now aw false false lk (pre ++ x :: rest) fs0 r0) as [[[[k2 st2] rest'] fs2] r2] eqn:E.
        destruct (IH x rest fs0 r0 _ _ _ _ _ P2 (NX fs0 T0) D E) as [[i [K L]] [Sn T]]. inversion H; subst.
        split; [exists (S i); split; [reflexivity | cbn [length]; lia]|]. split; [exact Sn | rewrite T; exact T0].
Qed.
