(* TrExCmdsPut.v -- C06: ec_put of /repo/ex.c on the translated C text (the pu command), like the commands of TrExCmds.v, but through the
   TRANSLATED reg_get (TrReg.tr_reg_get: the register file of reg.c in memory, TrReg.regs_at) instead of an oracle:
     n = lbuf_len(xb); buf = reg_get(REG(arg), &lnmode); if (!buf || (ex_region(loc, &beg, &end) && (beg != 0 || end != 0))) return 1;
     lbuf_edit(xb, buf, end, end); xrow = MAX(0, MIN(lbuf_len(xb) - 1, end + lbuf_len(xb) - n - 1)); return 0;
   The register read is the model's (TrRegEx.ex_abs: the association list of the model state and the register file hold the same texts), the
   pointer handed to lbuf_edit points to the model's text, the address rule is the one of a/i/c (address 0 accepted: 0pu, fix 6c95ca8), the
   current line afterwards is the model's (fix 7b90d84). *)
From Coq Require Import List ZArith NArith Bool Lia.
From NV Require Import Bytes GenConsts CLite CLiteProps GenCFuncs CLiteTac CLiteExt TrLbufBase TrLbufMarks ExAddrDefs TrExAddr TrExCmds TrReg TrRegEx.
From NV Require CapDefs ExDefs ExProps RegDefs.
Import ListNotations.
Local Open Scope Z_scope.
Local Notation iok := TrExAddr.int_ok.
Ltac xs := repeat (progress (xstep; cbn [b2z fst snd]; try change (0 =? 0) with true; try change (1 =? 0) with false; cbn [negb])).

Definition put_rest : stmt :=
  SSeq (SExpr (ESetLocal 6 (EBuiltin BMalloc [EConst 1])))
 (SSeq (setn_s 8)
 (SSeq (SExpr (ESetLocal 7 (ECall F_reg_get [reg_e; ELocal 6])))
 (SSeq (SIf (EOrElse (ELNot (ELocal 7)) (EAndAlso (region_e 4 5) (nz_e 4 5))) ret1 SSkip)
 (SSeq (SExpr (ECall X_lbuf_edit [xb_e; ELocal 7; ld 5; ld 5]))
 (SSeq (clamp_s 5 8) ret0))))).
Lemma ec_put_shape : fn_body cf_ec_put = SSeq frame2 put_rest.
Proof. reflexivity. Qed.

Lemma lor128_lt : forall c, (c < 256)%N -> (N.lor 128 c <? 256)%N = true.
Proof. byte_fact. Qed.
Lemma REG_lt256 arg : nonul arg -> (ExDefs.REG arg < 256)%N.
Proof.
  intro H. pose proof (nonul_lt256 arg H) as H256. unfold ExDefs.REG. destruct arg as [|c t]; [lia|].
  assert (Hc : (c < 256)%N) by (exact (nthb_lt256 (c :: t) 0 H256)).
  assert (Ht : (hd0 t < 256)%N) by (replace (hd0 t) with (nthb (c :: t) 1) by (destruct t; reflexivity); apply nthb_lt256; exact H256).
  destruct c as [|p]; [exact Hc|]. destruct (Pos.eq_dec p 92) as [->|Hp].
  - apply N.ltb_lt. apply lor128_lt. exact Ht.
  - repeat (destruct p as [p|p|]; try exact Hc; try congruence).
Qed.
(* the slot reg_get reads: the double quote names register 0 *)
Definition put_name (arg : bytes) : N := if (ExDefs.REG arg =? 34)%N then 0%N else ExDefs.REG arg.
Lemma get_name_REG arg : get_name (Z.of_N (ExDefs.REG arg)) = Z.of_N (put_name arg).
Proof. unfold get_name, put_name. change 34 with (Z.of_N 34). destruct (N.eqb_spec (ExDefs.REG arg) 34) as [->|N]; [reflexivity|]. destruct (Z.eqb_spec (Z.of_N (ExDefs.REG arg)) (Z.of_N 34)); [lia|reflexivity]. Qed.

Section Put.
  Variable ext : nat -> list val -> mem -> res (val * mem).
  Variable fuel : nat.
  Definition ec_put_run D (a0 a1 a2 a3 : val) (m : mem) (ve : val) : res (val * mem) :=
    run_of (exec (callx ext cprog fuel D) fuel put_rest
              (mkst [a0; a1; a2; a3; VPtr (length m) 0; VPtr (S (length m)) 0; VUndef; VUndef; VUndef] (frame_mem m VUndef ve))).
  Lemma ec_put_entry D a0 a1 a2 a3 m : callx ext cprog fuel (S D) F_ec_put [a0; a1; a2; a3] m = ec_put_run D a0 a1 a2 a3 m VUndef.
  Proof.
    rewrite callx_S. change (nth_error cprog F_ec_put) with (Some cf_ec_put). cbv beta iota.
    change (fn_nparams cf_ec_put) with 4%nat. change (fn_nlocals cf_ec_put) with 9%nat. rewrite ec_put_shape.
    cbn [length Nat.eqb Nat.sub repeat app]. rewrite exec_seq, exec_frame2. reflexivity.
  Qed.

  Variables (rvalid : bytes -> bool) (rfind : bytes -> bytes -> bool -> option (nat * nat)).
  Variables (st : ExDefs.st) (m : mem) (bs bl : nat) (s : bytes) (gbufs lblk : block) (e0 : Z) (d : nat).
  Variables (pb : block) (lb : list Z) (R : RegDefs.regs) (ba : nat) (arg : bytes).
  Hypothesis Hpre : cmd_pre m st bs bl s gbufs lblk.
  Hypothesis Nbs : G_xrow <> bs.
  Hypothesis Nbl : G_xrow <> bl.
  Hypothesis He0 : iok e0.
  Hypothesis Hf : (2 * S (length s) <= fuel)%nat.
  Hypothesis Hregs : regs_at m pb lb R.
  Hypothesis Habs : ex_abs (ExDefs.regs st) R.
  Hypothesis Harg : str_at m ba arg.
  Hypothesis Hnarg : nonul arg.
  Hypothesis Hspec : ExDefs.reg_special (ExDefs.REG arg) = false.
  Local Notation bb := (length m).
  Local Notation be := (S (length m)).
  Local Notation bm := (S (S (length m))).
  Local Notation D := (S (S (S (S d)))).
  Local Notation cx := (callx ext cprog fuel D).
  Local Notation name := (N.to_nat (put_name arg)).
  (* the memory after reg_get: the frame beg, end, lnmode, with the line-wise flag of the register stored in lnmode *)
  Definition put_mem : mem := upd (frame_mem m VUndef (VInt e0) ++ [[VUndef]]) bm [VInt (nthz lb (Z.of_N (put_name arg)))].
  Local Notation R0 := (ExDefs.ex_region rvalid rfind s st).
  Local Notation bad := (fst (fst (fst R0))).
  Local Notation b := (snd (fst (fst R0))).
  Local Notation e := (snd (fst R0)).
  Local Notation s1 := (snd R0).

  Lemma put_name_lt : (put_name arg < 256)%N.
  Proof. unfold put_name. pose proof (REG_lt256 arg Hnarg). destruct (ExDefs.REG arg =? 34)%N; lia. Qed.
  Lemma put_mem_le : mem_le m put_mem.
  Proof.
    intros k blk H. assert (k < length m)%nat by (apply nth_error_Some; congruence). unfold put_mem.
    rewrite mem_upd_other by (rewrite ?app_length, ?frame_length; cbn [length]; lia).
    rewrite nth_error_app_old by (rewrite frame_length; lia). rewrite frame_old by assumption. exact H.
  Qed.
  Lemma put_mem_beg : nth_error put_mem bb = Some [VUndef].
  Proof.
    unfold put_mem. rewrite mem_upd_other by (rewrite ?app_length, ?frame_length; cbn [length]; lia).
    rewrite nth_error_app_old by (rewrite frame_length; lia). apply frame_beg.
  Qed.
  Lemma put_mem_end : nth_error put_mem be = Some [VInt e0].
  Proof.
    unfold put_mem. rewrite mem_upd_other by (rewrite ?app_length, ?frame_length; cbn [length]; lia).
    rewrite nth_error_app_old by (rewrite frame_length; lia). apply frame_end.
  Qed.
  (* what the model reads from the register is what the slot holds *)
  Lemma put_model_get : ExDefs.reg_get st (ExDefs.REG arg) = option_map fst (R (put_name arg)).
  Proof. unfold ExDefs.reg_get. fold (put_name arg). symmetry. apply Habs. exact put_name_lt. Qed.

  (* n = lbuf_len(xb); buf = reg_get(REG(arg), &lnmode): the state in which the guard starts *)
  Lemma put_head vcmd vtxt :
    exec cx fuel (SSeq (SExpr (ESetLocal 6 (EBuiltin BMalloc [EConst 1]))) (SSeq (setn_s 8) (SExpr (ESetLocal 7 (ECall F_reg_get [reg_e; ELocal 6])))))
                (mkst [VPtr bs 0; vcmd; VPtr ba 0; vtxt; VPtr bb 0; VPtr be 0; VUndef; VUndef; VUndef] (frame_mem m VUndef (VInt e0)))
    = ONormal (mkst [VPtr bs 0; vcmd; VPtr ba 0; vtxt; VPtr bb 0; VPtr be 0; VPtr bm 0; cellp pb name; VInt (ExDefs.slen st)] put_mem).
  Proof.
    set (mf := frame_mem m VUndef (VInt e0)). set (mf3 := mf ++ [[VUndef]]).
    assert (Hle3 : mem_le m mf3) by (eapply mem_le_trans; [apply mem_le_frame|apply mem_le_app]).
    pose proof (pre_le _ _ _ _ _ _ _ _ Hle3 Hpre) as P3.
    assert (Hlen3 : len_view mf3 bl (ExDefs.slen st)).
    { exists gbufs, lblk. split; [exact (cp_bufs _ _ _ _ _ _ _ P3)|]. split; [exact (cp_lb _ _ _ _ _ _ _ P3)|].
      split; [exact (cp_l _ _ _ _ _ _ _ P3)|]. split; [exact (cp_n _ _ _ _ _ _ _ P3)|exact (cp_il _ _ _ _ _ _ _ P3)]. }
    assert (Hbm : nth_error mf3 bm = Some [VUndef]).
    { unfold mf3. replace bm with (length mf) by (unfold mf; apply frame_length). apply nth_error_app_new. }
    assert (Hregs3 : regs_at mf3 pb lb R) by (unfold mf3, mf, frame_mem; repeat apply regs_at_app; exact Hregs).
    rewrite exec_seq, exec_expr. xcbn. rewrite malloc_ok by lia. xcbn. change (repeat VUndef (Z.to_nat 1)) with [VUndef].
    assert (Hlm : length mf = S (S (length m))) by apply frame_length. rewrite Hlm. fold mf3.
    unfold setn_s. rewrite exec_seq, exec_expr. cbn [eval]. rewrite (eval_len ext fuel _ _ mf3 bl _ Hlen3). cbn [bind]. xcbn.
    rewrite exec_expr. cbn [eval]. rewrite (eval_reg cx _ _ ba _ mf3 arg (Hle3 _ _ Harg) Hnarg). cbn [bind]. xcbn.
    pose proof (REG_lt256 arg Hnarg) as Hc. unfold ExDefs.reg_special in Hspec.
    rewrite (callx_mono ext _ _ _ _ _ _ _
               (tr_reg_get mf3 pb lb R (Z.of_N (ExDefs.REG arg)) (VPtr bm 0) (S (S d)) fuel Hregs3 ltac:(lia)
                  ltac:(destruct (N.eqb_spec (ExDefs.REG arg) 59); [discriminate Hspec|lia])
                  ltac:(destruct (N.eqb_spec (ExDefs.REG arg) 59); [discriminate Hspec|]; destruct (N.eqb_spec (ExDefs.REG arg) 35); [discriminate Hspec|lia])
                  ltac:(destruct (N.eqb_spec (ExDefs.REG arg) 59); [discriminate Hspec|]; destruct (N.eqb_spec (ExDefs.REG arg) 35); [discriminate Hspec|];
                        destruct (N.eqb_spec (ExDefs.REG arg) 94); [discriminate Hspec|lia])
                  ltac:(right; exists bm, 0, [VUndef]; split; [reflexivity|]; split; [exact Hbm|]; split; [cbn; lia|];
                        pose proof globals_small as (_ & G2 & _); pose proof (ra_glob _ _ _ _ Hregs); lia))).
    cbn [bind]. xcbn. rewrite get_name_REG. rewrite <- (Z_N_nat (Z.of_N (put_name arg))), N2Z.id. unfold ln_store. rewrite Hbm. reflexivity.
  Qed.

  Definition put_tail : stmt :=
    SSeq (SIf (EOrElse (ELNot (ELocal 7)) (EAndAlso (region_e 4 5) (nz_e 4 5))) ret1 SSkip)
   (SSeq (SExpr (ECall X_lbuf_edit [xb_e; ELocal 7; ld 5; ld 5])) (SSeq (clamp_s 5 8) ret0)).
  Lemma put_split call f st0 : exec call f put_rest st0 =
    match exec call f (SSeq (SExpr (ESetLocal 6 (EBuiltin BMalloc [EConst 1]))) (SSeq (setn_s 8) (SExpr (ESetLocal 7 (ECall F_reg_get [reg_e; ELocal 6]))))) st0 with
    | ONormal st1 => exec call f put_tail st1 | o => o end.
  Proof.
    unfold put_rest, put_tail. rewrite !(exec_seq call f (SExpr (ESetLocal 6 (EBuiltin BMalloc [EConst 1])))).
    destruct (exec call f (SExpr (ESetLocal 6 (EBuiltin BMalloc [EConst 1]))) st0); try reflexivity.
    rewrite !(exec_seq call f (setn_s 8)). destruct (exec call f (setn_s 8) st1); try reflexivity.
    rewrite (exec_seq call f (SExpr (ESetLocal 7 (ECall F_reg_get [reg_e; ELocal 6])))). reflexivity.
  Qed.

  (* pu.  M = the model's ec_put.  An unset register: 1 is returned, nothing but the command's own frame has changed.  A set register: its slot points
     to a block b0 that holds the model's text; the address is resolved (on the memory put_mem, after reg_get); rejected unless it is address 0
     (0pu, fix 6c95ca8); lbuf_edit(xb, buf, end, end) is called with the model's end; xrow = MAX(0, MIN(len' - 1, end + len' - len - 1)) is the
     model's current line (fix 7b90d84) *)
  Theorem tr_ec_put vcmd vtxt :
    let M := ExDefs.ec_put rvalid rfind s arg st in
    (ExDefs.reg_get st (ExDefs.REG arg) = None ->
       ec_put_run D (VPtr bs 0) vcmd (VPtr ba 0) vtxt m (VInt e0) = Ok (VInt 1, put_mem) /\ M = (st, 1)) /\
    (forall buf, ExDefs.reg_get st (ExDefs.REG arg) = Some buf ->
       exists b0, cellp pb name = VPtr b0 0 /\ str_at m b0 buf /\
       exists m1, callx ext cprog fuel D F_ex_region [VPtr bs 0; VPtr bb 0; VPtr be 0] put_mem = Ok (VInt (b2z bad), m1) /\
         (snd M <> 0 -> ec_put_run D (VPtr bs 0) vcmd (VPtr ba 0) vtxt m (VInt e0) = Ok (VInt (snd M), m1) /\
                        snd M = 1 /\ cell_at m1 G_xrow (ExDefs.xrow (fst M)) /\ ExDefs.lb (fst M) = ExDefs.lb st) /\
         (snd M = 0 -> ExDefs.lb (fst M) = ExDefs.lbuf_edit (Some buf) (Z.to_nat e) (Z.to_nat e) (ExDefs.lb st) /\ forall u' m5 x5,
            ext X_lbuf_edit [VPtr bl 0; VPtr b0 0; VInt e; VInt e] m1 = Ok (u', m5) ->
            nth_error m5 be = Some [VInt e] -> len_view m5 bl (ExDefs.slen (fst M)) -> cell_at m5 G_xrow x5 -> iok (e + ExDefs.slen (fst M)) ->
            ec_put_run D (VPtr bs 0) vcmd (VPtr ba 0) vtxt m (VInt e0) = Ok (VInt 0, upd m5 G_xrow [VInt (ExDefs.xrow (fst M))]))).
  Proof.
    intro M. pose proof (ra_cell _ _ _ _ Hregs name ltac:(pose proof put_name_lt; lia)) as Hcell. rewrite N2Nat.id in Hcell.
    unfold M, ExDefs.ec_put. rewrite Hspec, put_model_get. unfold ec_put_run. rewrite put_split, put_head.
    destruct (R (put_name arg)) as [[txt l]|] eqn:ER; cbn [option_map fst reg_cell] in *.
    - split; [intro H; discriminate H|]. intros buf Hb. injection Hb as <-.
      destruct Hcell as (b0 & Ec & Hheap & Hstr & Hntxt & _). exists b0. split; [exact Ec|]. split; [exact Hstr|]. rewrite Ec.
      pose proof (pre_le _ _ _ _ _ _ _ _ put_mem_le Hpre) as Pp. pose proof (final_dist st m bs bl s gbufs lblk Hpre Nbs Nbl) as Hdist.
      destruct (region_runs ext fuel rvalid rfind st put_mem bs bl s gbufs lblk bb be VUndef e0 d Pp put_mem_beg put_mem_end He0 Hdist Hf) as (m1 & AR).
      exists m1. split; [exact (ar_call _ _ _ _ _ _ _ _ _ _ _ _ AR)|].
      assert (Es : ExDefs.slen s1 = ExDefs.slen st) by (rewrite (ar_st _ _ _ _ _ _ _ _ _ _ _ _ AR); reflexivity).
      assert (El : ExDefs.lb s1 = ExDefs.lb st) by (rewrite (ar_st _ _ _ _ _ _ _ _ _ _ _ _ AR); reflexivity).
      set (L := [VPtr bs 0; vcmd; VPtr ba 0; vtxt; VPtr bb 0; VPtr be 0; VPtr bm 0; VPtr b0 0; VInt (ExDefs.slen st)]).
      assert (Hguard : exec cx fuel (SIf (EOrElse (ELNot (ELocal 7)) (EAndAlso (region_e 4 5) (nz_e 4 5))) ret1 SSkip) (mkst L put_mem)
                       = if bad && (negb (b =? 0) || negb (e =? 0)) then OReturn (VInt 1) (mkst L m1) else ONormal (mkst L m1)).
      { unfold ret1. rewrite exec_if. unfold L. xs.
        rewrite (eval_region_e ext fuel rvalid rfind st put_mem bs s bb be d m1 AR). xs. destruct bad; xs; [|reflexivity].
        rewrite (eval_nz_e ext fuel rvalid rfind st put_mem bs s bb be d m1 AR). xs. destruct (negb (b =? 0) || negb (e =? 0)); xs; reflexivity. }
      pose proof (ar_xrow _ _ _ _ _ _ _ _ _ _ _ _ AR) as Hx1. pose proof (ar_end _ _ _ _ _ _ _ _ _ _ _ _ AR) as He1.
      pose proof (ar_ie _ _ _ _ _ _ _ _ _ _ _ _ AR) as Ie1. pose proof (ar_bounds ext fuel rvalid rfind st put_mem bs s bb be d Hf m1 AR) as Hbd.
      pose proof (ar_len ext fuel rvalid rfind st put_mem bs bl s gbufs lblk bb be d Pp Hdist m1 AR) as Hl1.
      clear AR. destruct R0 as [[[bad0 b1] e1] s0] eqn:ER0. cbn [fst snd] in *.
      unfold put_tail. rewrite exec_seq, Hguard.
      destruct (bad0 && (negb (b1 =? 0) || negb (e1 =? 0))) eqn:G; cbn [fst snd run_of].
      + split; [|intro H; discriminate H]. intros _. split; [reflexivity|]. split; [reflexivity|].
        split; [exact Hx1|exact El].
      + split; [intro H; exfalso; apply H; reflexivity|]. intros _. split; [cbn [ExDefs.lb ExDefs.set_xrow ExDefs.edit ExDefs.set_lb]; rewrite El; reflexivity|].
        intros u' m5 x5 Hed He5 Hl5 Hx5 Hfit.
        destruct (Hbd eq_refl) as ((B1 & B2) & B3).
        rewrite exec_seq.
        rewrite (exec_edit_s ext fuel (S (S (S d))) L m1 bl (ELocal 7) (ld 5) (ld 5) (VPtr b0 0) e1 e1 u' m5 (len_xb _ _ _ Hl1) eq_refl
                   (pure_ld cx 5 L m1 be e1 eq_refl He1 Ie1) (pure_ld cx 5 L m1 be e1 eq_refl He1 Ie1) Hed).
        match type of Hl5 with len_view _ _ ?n => set (n2 := n) in * end.
        assert (Hn2 : 0 <= n2) by (unfold n2, ExDefs.slen, ExDefs.llen; lia).
        assert (Hn0 : 0 <= ExDefs.slen st) by (unfold ExDefs.slen, ExDefs.llen; lia).
        pose proof (pure_clamp ext fuel (S (S (S d))) L m5 bl be 5 8 e1 (ExDefs.slen st) n2 eq_refl eq_refl He5 Hl5 ltac:(lia) Hn0 (cp_il _ _ _ _ _ _ _ Hpre) Hn2 Hfit) as P.
        assert (In2 : iok n2) by (destruct Hl5 as (g & l0 & _ & _ & _ & _ & I5); exact I5).
        unfold clamp_s. rewrite exec_seq, (exec_set_xrow cx fuel _ L m5 _ x5 P) by (try assumption; pose proof (cp_il _ _ _ _ _ _ _ Hpre); unfold TrExAddr.int_ok in *; lia).
        unfold ret0. rewrite exec_return. reflexivity.
    - split; [|intros buf H; discriminate H]. intros _. rewrite Hcell. split; [|reflexivity].
      unfold put_tail, ret1. rewrite exec_seq, exec_if. xs. reflexivity.
  Qed.
End Put.

(* ------------------------------------------------------------------ the translated ec_put RUNS (with the translated reg_get) *)
(* TrExCmds.cmd_mem with one more block bl + 4 that holds "x\n", and bufs[0] of reg.c (the unnamed register) pointing to it *)
Definition put_example_mem (lines : Z) (addr arg : list Z) : mem :=
  upd (cmd_mem lines 0 addr [112; 117] arg ++ [cstr_block [120; 10]]) G_reg__bufs (upd gb_reg__bufs 0 (VPtr (length cglobals + 4) 0)).
(* `2pu` on five lines: lbuf_edit(xb, buf, 2, 2) with buf = the register's block, xrow = 2; `0pu`: (0, 0), xrow = 0 (fix 6c95ca8); `$pu`: (5, 5), xrow = 5;
   `0pu` on the empty buffer; `pu` with an empty register put on the empty buffer leaves xrow = 0 (fix 7b90d84: not -1); an unset register `a`: 1, no call *)
Lemma run_put_examples :
  let bl := length cglobals in
  let run lines newlen addr arg := show (ec_put_run (log_ext newlen []) 100 10 (VPtr (S bl) 0) (VPtr (S (S bl)) 0) (VPtr (S (S (S bl))) 0) (VInt 0)
                                           (put_example_mem lines addr arg) (VInt 0)) (bl + 8) in
  run 5 6 [50] [] = Some (VInt 0, Some [VInt 2], [[VInt 3; VPtr bl 0; VPtr (bl + 4) 0; VInt 2; VInt 2]]) /\
  run 5 6 [48] [] = Some (VInt 0, Some [VInt 0], [[VInt 3; VPtr bl 0; VPtr (bl + 4) 0; VInt 0; VInt 0]]) /\
  run 5 6 [36] [] = Some (VInt 0, Some [VInt 5], [[VInt 3; VPtr bl 0; VPtr (bl + 4) 0; VInt 5; VInt 5]]) /\
  run 0 1 [48] [] = Some (VInt 0, Some [VInt 0], [[VInt 3; VPtr bl 0; VPtr (bl + 4) 0; VInt 0; VInt 0]]) /\
  run 0 0 [] [] = Some (VInt 0, Some [VInt 0], [[VInt 3; VPtr bl 0; VPtr (bl + 4) 0; VInt 0; VInt 0]]) /\
  run 5 6 [50] [34] = run 5 6 [50] [] /\
  run 5 6 [55] [] = Some (VInt 1, Some [VInt 0], []) /\
  run 5 6 [50] [97] = Some (VInt 1, Some [VInt 0], []).
Proof. vm_compute. repeat split; reflexivity. Qed.
