(* TrSubstArgs.v -- the argument handling of /repo/ex.c's ec_substitute tied to SubstDefs.subst_args BY PROOF on the translated
   C text:   pat = re_read(&s);  if (pat && pat[0]) ex_kwdset(pat, +1);  if (pat && *s) { s--; rep = re_read(&s); }
   re_read is the translated rset.c on the translated sbuf.c (TrRsetSbuf.tr_re_read), ex_kwdset is an oracle (CLiteExt.callx).
   The point (seeded change C14h): where `s` stands when the loop asks strchr(s, 'g') -- behind the closing delimiter of the
   REPLACEMENT, i.e. at the third component of subst_args.  (Kept apart from TrSubst.v: this file depends on TrRset.v.) *)
From Coq Require Import List ZArith NArith Bool Lia.
From NV Require Import Bytes CLite CLiteProps GenCFuncs CLiteTac CLiteExt TrSbuf TrRset TrRsetSbuf SubstDefs.
Import ListNotations.
Local Open Scope Z_scope.

Definition nth_seq (n : nat) (s : stmt) : stmt :=
  (fix go n s := match n, s with O, SSeq a _ => a | S k, SSeq _ b => go k b | _, _ => s end) n s.

(* locals: 8 = &pat, 9 = rep, 10 = &s *)
Definition ea_pat : stmt := SExpr (EStore None (ELocal 8) (ECall F_re_read [ELocal 10])).
Definition ea_kwd : stmt :=
  SIf (EAndAlso (ELoad None (ELocal 8)) (ECast I32 (ELoad (Some I8) (EPtrAdd 1 (ELoad None (ELocal 8)) (EConst 0)))))
      (SExpr (ECall X_ex_kwdset [ELoad None (ELocal 8); EConst 1])) SSkip.
Definition ea_rep : stmt :=
  SIf (EAndAlso (ELoad None (ELocal 8)) (ECast I32 (ELoad (Some I8) (ELoad None (ELocal 10)))))
      (SSeq (SExpr (EIncMem true None (-1) (ELocal 10))) (SExpr (ESetLocal 9 (ECall F_re_read [ELocal 10])))) SSkip.
(* THE C TEXT: after the declarations and ex_region, ec_substitute runs these three statements, and the loop of the lines
   (TrSubst.es_line) asks strchr(s, 'g') with the same `s` (local 10) -- nothing in between is written in terms of local 10 *)
Lemma ea_shape : nth_seq 5 (fn_body cf_ec_substitute) = ea_pat /\ nth_seq 6 (fn_body cf_ec_substitute) = ea_kwd /\
  nth_seq 7 (fn_body cf_ec_substitute) = ea_rep.
Proof. repeat split; reflexivity. Qed.

Lemma x_ex_kwdset_none : nth_error cprog X_ex_kwdset = None.
Proof. vm_compute. reflexivity. Qed.

Lemma skipn_inj {A} (l : list A) a b : (a <= length l)%nat -> (b <= length l)%nat -> skipn a l = skipn b l -> a = b.
Proof. intros Ha Hb E. apply (f_equal (@length A)) in E. rewrite !skipn_length in E. lia. Qed.

Lemma subst_args_cons delim s : subst_args (delim :: s) =
  let (pat, rest) := re_read_loop delim s in
  match rest with
  | [] => (Some pat, None, [])
  | _ :: _ => let (rep, rest2) := re_read_loop delim rest in (Some pat, Some rep, rest2)
  end.
Proof. reflexivity. Qed.

Section Args.
  Variable ext : nat -> list val -> mem -> res (val * mem).
  Variables (m0 : mem) (ba bsp bp8 : nat) (kblocks : list nat) (d fuel : nat).
  Variables (a0 a1 a2 a3 a4 a5 a6 a7 a11 a12 a13 a14 : val).
  Hypothesis Hsp : nth_error m0 bsp = Some [VPtr ba 0].
  Hypothesis Hp8 : nth_error m0 bp8 = Some [VInt 0].
  Hypothesis Hne : bsp <> bp8 /\ ba <> bsp /\ ba <> bp8.
  (* ex_kwdset(pat, +1) writes the globals xkwd, xkwddir (the blocks kblocks) and nothing else *)
  Hypothesis Hk : ~ In ba kblocks /\ ~ In bsp kblocks /\ ~ In bp8 kblocks /\ Forall (fun b => (b < length m0)%nat) kblocks.
  Hypothesis Hkwd : forall args m, exists v m', ext X_ex_kwdset args m = Ok (v, m') /\ length m' = length m /\
                      forall b, ~ In b kblocks -> nth_error m' b = nth_error m b.
  Let call := callx ext cprog fuel (S (S (S (S d)))).
  Local Notation ST rv m := (mkst [a0; a1; a2; a3; a4; a5; a6; a7; VPtr bp8 0; rv; VPtr bsp 0; a11; a12; a13; a14] m).

  Theorem subst_args_ok (arg : bytes) :
    str_at m0 ba arg -> nonul arg -> (nthb arg 0 < 128)%N -> (length arg <= RR_BOUND)%nat -> (length arg < fuel)%nat ->
    exists rv m',
      exec call fuel (SSeq ea_pat (SSeq ea_kwd ea_rep)) (ST (VInt 0) m0) = ONormal (ST rv m') /\
      str_at m' ba arg /\ (length m0 <= length m')%nat /\
      (forall b, (b < length m0)%nat -> b <> bsp -> b <> bp8 -> ~ In b kblocks -> nth_error m' b = nth_error m0 b) /\
      match subst_args arg with
      | (None, _, _) => rv = VInt 0 /\ nth_error m' bp8 = Some [VInt 0] /\ nth_error m' bsp = Some [VPtr ba 0]
      | (Some pat, None, _) =>
          rv = VInt 0 /\ nth_error m' bsp = Some [VPtr ba (Z.of_nat (length arg))] /\
          exists bpat tail, nth_error m' bp8 = Some [VPtr bpat 0] /\ nth_error m' bpat = Some (map cell pat ++ VInt 0 :: tail)
      | (Some pat, Some rep, flags) =>
          exists o2 bpat tail brep tail',
            nth_error m' bsp = Some [VPtr ba (Z.of_nat o2)] /\ (o2 <= length arg)%nat /\ skipn o2 arg = flags /\
            nth_error m' bp8 = Some [VPtr bpat 0] /\ nth_error m' bpat = Some (map cell pat ++ VInt 0 :: tail) /\
            rv = VPtr brep 0 /\ nth_error m' brep = Some (map cell rep ++ VInt 0 :: tail')
      end.
  Proof.
    intros Harg Hnarg Hdelim Hbound Hfuel.
    destruct Hne as (N1 & N2 & N3). destruct Hk as (K1 & K2 & K3 & K4).
    assert (Hba : (ba < length m0)%nat) by (apply nth_error_Some; unfold str_at in Harg; congruence).
    assert (Hbsp : (bsp < length m0)%nat) by (apply nth_error_Some; congruence).
    assert (Hbp8 : (bp8 < length m0)%nat) by (apply nth_error_Some; congruence).
    (* pat = re_read(&s) *)
    pose proof (tr_re_read m0 ba arg bsp 0 [VPtr ba 0] 0%nat d fuel Harg Hnarg Hsp ltac:(lia) eq_refl ltac:(lia) Hdelim Hbound Hfuel) as T1.
    cbn [skipn] in T1.
    rewrite exec_seq. unfold ea_pat at 1. xstep.
    destruct arg as [|delim s].
    { (* the empty argument *)
      unfold subst_args.
      cbn [re_read] in T1. unfold call. rewrite (callx_mono ext _ _ _ _ _ _ _ T1). xstep.
      rewrite (store_ok m0 bp8 [VInt 0] 0 (VInt 0) Hp8) by (cbn; lia). xstep.
      change (upd [VInt 0] (Z.to_nat 0) (VInt 0)) with [VInt 0]. rewrite (upd_self m0 bp8 _ Hp8).
      unfold ea_kwd at 1. xstep. unfold load. rewrite Hp8. cbn [Z.ltb Z.compare Z.to_nat nth_error]. xstep.
      unfold ea_rep. xstep. unfold load. rewrite Hp8. cbn [Z.ltb Z.compare Z.to_nat nth_error]. xstep.
      exists (VInt 0), m0. split; [reflexivity|]. split; [exact Harg|]. split; [lia|]. split; [reflexivity|]. auto. }
    rewrite subst_args_cons. cbn [re_read] in T1.
    destruct (re_read_loop delim s) as [pat rest] eqn:Er.
    remember (delim :: s) as arg eqn:Earg in *.
    destruct T1 as (bpat & m1 & tail & o1 & E1 & Hpat1 & Hbp & Hsp1 & Ho1 & Hrest & F1).
    unfold call. rewrite (callx_mono ext _ _ _ _ _ _ _ E1). xstep.
    change (upd [VPtr ba 0] (Z.to_nat 0) (VPtr ba (Z.of_nat o1))) with [VPtr ba (Z.of_nat o1)] in Hsp1.
    assert (Hp81 : nth_error m1 bp8 = Some [VInt 0]) by (rewrite F1 by auto; exact Hp8).
    rewrite (store_ok m1 bp8 [VInt 0] 0 (VPtr bpat 0) Hp81) by (cbn; lia). xstep.
    change (upd [VInt 0] (Z.to_nat 0) (VPtr bpat 0)) with [VPtr bpat 0].
    assert (Hl1 : (bp8 < length m1)%nat) by (apply nth_error_Some; congruence).
    set (m2 := upd m1 bp8 [VPtr bpat 0]).
    assert (Hp82 : nth_error m2 bp8 = Some [VPtr bpat 0]) by (apply mem_upd_same; exact Hl1).
    assert (Hbpl : (bpat < length m1)%nat) by (apply nth_error_Some; congruence).
    assert (F2 : forall b, b <> bp8 -> nth_error m2 b = nth_error m1 b) by (intros b Hb; apply mem_upd_other; auto).
    assert (Hpat2 : nth_error m2 bpat = Some (map cell pat ++ VInt 0 :: tail)) by (rewrite F2 by lia; exact Hpat1).
    (* if (pat && pat[0]) ex_kwdset(pat, +1) *)
    assert (Kw : exists m3, exec call fuel ea_kwd (ST (VInt 0) m2) = ONormal (ST (VInt 0) m3) /\ length m3 = length m2 /\
                   forall b, ~ In b kblocks -> nth_error m3 b = nth_error m2 b).
    { assert (Lp8 : load m2 bp8 0 = Ok (VPtr bpat 0)) by (unfold load; rewrite Hp82; reflexivity).
      assert (Hc : exists z, nth_error (map cell pat ++ VInt 0 :: tail) 0 = Some (VInt z)) by (destruct pat; cbn [map app nth_error]; unfold cell; eauto).
      destruct Hc as (z & Hz).
      assert (Lz : load m2 bpat (0 + 1 * 0) = Ok (VInt z)). { unfold load. rewrite Hpat2. cbn [Z.add Z.mul Z.ltb Z.compare Z.to_nat]. rewrite Hz. reflexivity. }
      unfold ea_kwd. xstep. repeat (first [rewrite Lp8 | rewrite Lz]; xstep).
      destruct (negb (wrap I32 (wrap I8 z) =? 0)); xstep; [|exists m2; auto].
      repeat (rewrite Lp8; xstep).
      destruct (Hkwd [VPtr bpat 0; VInt 1] m2) as (v & m3 & E3 & L3 & F3).
      unfold call. rewrite callx_S, x_ex_kwdset_none, E3. xstep. exists m3. auto. }
    destruct Kw as (m3 & E3 & L3 & F3). fold call. rewrite E3.
    assert (Hp83 : nth_error m3 bp8 = Some [VPtr bpat 0]) by (rewrite F3 by exact K3; exact Hp82).
    assert (Hsp3 : nth_error m3 bsp = Some [VPtr ba (Z.of_nat o1)]) by (rewrite F3, F2 by auto; exact Hsp1).
    assert (Harg3 : str_at m3 ba arg) by (unfold str_at; rewrite F3, F2, F1 by auto; exact Harg).
    assert (Hnk : ~ In bpat kblocks) by (intro I; rewrite Forall_forall in K4; specialize (K4 _ I); lia).
    assert (Hpat3 : nth_error m3 bpat = Some (map cell pat ++ VInt 0 :: tail)) by (rewrite F3 by exact Hnk; exact Hpat2).
    assert (L1 : (length m0 <= length m1)%nat) by lia.
    assert (L2 : length m2 = length m1) by (apply mlen_upd; exact Hl1).
    assert (Frame3 : forall b, (b < length m0)%nat -> b <> bsp -> b <> bp8 -> ~ In b kblocks -> nth_error m3 b = nth_error m0 b)
      by (intros b B1 B2 B3 B4; rewrite F3, F2, F1 by auto; reflexivity).
    (* if (pat && *s) { s--; rep = re_read(&s); } *)
    assert (Lp83 : load m3 bp8 0 = Ok (VPtr bpat 0)) by (unfold load; rewrite Hp83; reflexivity).
    assert (Ls3 : load m3 bsp 0 = Ok (VPtr ba (Z.of_nat o1))) by (unfold load; rewrite Hsp3; reflexivity).
    unfold ea_rep. xstep. repeat (first [rewrite Lp83 | rewrite Ls3]; xstep).
    rewrite (load_str m3 ba arg _ o1 Harg3) by lia. xstep.
    pose proof (nthb_lt256 arg o1 (nonul_lt256 _ Hnarg)) as Hc1.
    change (wrap I32 (wrap I8 (Z.of_N (nthb arg o1)))) with (sx (nthb arg o1)). rewrite (rs_eq_0 _ Hc1).
    destruct rest as [|r0 rest'].
    { (* the pattern ran to the end of the argument: *s == 0 *)
      assert (o1 = length arg) as ->.
      { destruct (Nat.eq_dec o1 (length arg)) as [E|E]; [exact E|]. rewrite (skipn_cons_nthb arg o1) in Hrest by lia. discriminate. }
      rewrite nthb_end by lia. cbn [N.eqb negb b2z]. xstep.
      exists (VInt 0), m3. split; [reflexivity|]. split; [exact Harg3|]. split; [lia|]. split; [exact Frame3|].
      split; [reflexivity|]. split; [exact Hsp3|]. exists bpat, tail. auto. }
    assert (Ho1' : (o1 < length arg)%nat).
    { destruct (Nat.eq_dec o1 (length arg)) as [E|E]; [|lia]. rewrite E, skipn_all in Hrest. discriminate. }
    rewrite (rs_nonul_nz arg o1 Hnarg Ho1'). cbn [negb b2z]. xstep.
    (* s-- *)
    repeat (rewrite Ls3; xstep). cbn [fst snd].
    rewrite (store_ok m3 bsp [VPtr ba (Z.of_nat o1)] 0 _ Hsp3) by (cbn; lia). xstep.
    change (upd [VPtr ba (Z.of_nat o1)] (Z.to_nat 0) (VPtr ba (Z.of_nat o1 + -1))) with [VPtr ba (Z.of_nat o1 + -1)].
    (* where the first scan stopped: the closing delimiter is the byte before *s *)
    pose proof (rr_rest delim (length s) s (le_n _)) as Rr. rewrite Er in Rr. cbn [snd] in Rr.
    pose proof (rr_stop_le delim (length s) s (le_n _)) as Rl.
    pose proof (rr_stop_at delim (length s) s (le_n _)) as Ra.
    set (k := rr_stop delim s) in *.
    assert (Hk1 : (S k < length s)%nat).
    { destruct (Nat.lt_ge_cases (S k) (length s)) as [L|L]; [exact L|]. rewrite skipn_all2 in Rr by lia. discriminate. }
    destruct Ra as [Ra|Ra]; [lia|].
    assert (Eo1 : o1 = S (S k)).
    { apply (skipn_inj arg); [lia|rewrite Earg; cbn [length]; lia|]. rewrite Hrest, Rr, Earg. reflexivity. }
    assert (Hd1 : nthb arg (S k) = delim) by (rewrite Earg; exact Ra).
    replace (Z.of_nat o1 + -1) with (Z.of_nat (S k)) by lia.
    set (m4 := upd m3 bsp [VPtr ba (Z.of_nat (S k))]).
    assert (Hl3 : (bsp < length m3)%nat) by (apply nth_error_Some; congruence).
    assert (Hsp4 : nth_error m4 bsp = Some [VPtr ba (Z.of_nat (S k))]) by (apply mem_upd_same; exact Hl3).
    assert (F4 : forall b, b <> bsp -> nth_error m4 b = nth_error m3 b) by (intros b Hb; apply mem_upd_other; auto).
    assert (Harg4 : str_at m4 ba arg) by (unfold str_at; rewrite F4 by auto; exact Harg3).
    (* rep = re_read(&s) *)
    pose proof (tr_re_read m4 ba arg bsp 0 [VPtr ba (Z.of_nat (S k))] (S k) d fuel Harg4 Hnarg Hsp4 ltac:(lia) eq_refl ltac:(lia)) as T2.
    rewrite Hd1 in T2. assert (Hdl : (delim < 128)%N) by (rewrite Earg in Hdelim; exact Hdelim).
    specialize (T2 Hdl Hbound Hfuel).
    assert (Es : skipn (S k) arg = delim :: r0 :: rest').
    { rewrite (skipn_cons_nthb arg (S k)) by lia. rewrite Hd1. f_equal. rewrite <- Eo1. exact Hrest. }
    rewrite Es in T2. cbn [re_read] in T2.
    destruct (re_read_loop delim (r0 :: rest')) as [rep rest2] eqn:Er2.
    destruct T2 as (brep & m5 & tail' & o2 & E5 & Hrep5 & Hbr & Hsp5 & Ho2 & Hrest2 & F5).
    unfold call. rewrite (callx_mono ext _ _ _ _ _ _ _ E5). xstep.
    change (upd [VPtr ba (Z.of_nat (S k))] (Z.to_nat 0) (VPtr ba (Z.of_nat o2))) with [VPtr ba (Z.of_nat o2)] in Hsp5.
    assert (L4 : length m4 = length m3) by (apply mlen_upd; exact Hl3).
    assert (L5 : (brep < length m5)%nat) by (apply nth_error_Some; congruence).
    exists (VPtr brep 0), m5. split; [reflexivity|].
    split; [unfold str_at; rewrite F5 by (auto; lia); exact Harg4|]. split; [lia|].
    split; [intros b B1 B2 B3 B4; rewrite F5, F4 by (auto; lia); apply Frame3; assumption|].
    exists o2, bpat, tail, brep, tail'. split; [exact Hsp5|]. split; [exact Ho2|]. split; [exact Hrest2|].
    split; [rewrite F5, F4 by (auto; lia); exact Hp83|]. split; [rewrite F5, F4 by (auto; lia); exact Hpat3|]. auto.
  Qed.
End Args.
Print Assumptions subst_args_ok.
